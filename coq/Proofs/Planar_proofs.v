(* Lemmas about Base/Planar.v (definitional semantics, canonical order, witnesses, reference matrix).
   NOT proved here (DESIGN.md section 4.1): sufficiency of the witnesses - that every point of the
   plane shares its arrangement cell with a witness and that locate is constant on cells. *)
From Coq Require Import QArith Qreduction List Bool ZArith Lia Permutation.
From SF Require Import Base.GeomAST Base.QKernel Base.Planar.
Import ListNotations.


(* ---------------- canonical sort: invariant under permutation of its input *)
Lemma lex_leb_total a b : lex_leb a b = true \/ lex_leb b a = true.
Proof.
  revert b. induction a as [|x a IH]; intros [|y b]; simpl; auto.
  rewrite (Z.compare_antisym x y). destruct (x ?= y)%Z; simpl; auto.
Qed.
Lemma lex_leb_trans a b c : lex_leb a b = true -> lex_leb b c = true -> lex_leb a c = true.
Proof.
  revert b c. induction a as [|x a IH]; intros [|y b] [|z c]; simpl; auto; try discriminate.
  destruct (x ?= y)%Z eqn:E1; destruct (y ?= z)%Z eqn:E2; try discriminate; intros H1 H2.
  - apply Z.compare_eq in E1, E2. subst. rewrite Z.compare_refl. eauto.
  - apply Z.compare_eq in E1. subst. rewrite E2. reflexivity.
  - apply Z.compare_eq in E2. subst. rewrite E1. reflexivity.
  - assert (x ?= z = Lt)%Z as -> by (rewrite Z.compare_lt_iff in *; lia). reflexivity.
Qed.
Lemma lex_leb_antisym a b : lex_leb a b = true -> lex_leb b a = true -> a = b.
Proof.
  revert b. induction a as [|x a IH]; intros [|y b]; simpl; auto; try discriminate.
  rewrite (Z.compare_antisym x y). destruct (x ?= y)%Z eqn:E; simpl; try discriminate.
  intros H1 H2. apply Z.compare_eq in E. subst. f_equal. auto.
Qed.

Section KSort.
  Variable A : Type.
  Variable key : A -> list Z.
  Hypothesis key_inj : forall x y, key x = key y -> x = y.

  Lemma kinsert_comm x y l : kinsert key x (kinsert key y l) = kinsert key y (kinsert key x l).
  Proof.
    induction l as [|z l IH]; simpl.
    - destruct (lex_leb (key x) (key y)) eqn:E1; destruct (lex_leb (key y) (key x)) eqn:E2; auto.
      + rewrite (key_inj _ _ (lex_leb_antisym _ _ E1 E2)). reflexivity.
      + destruct (lex_leb_total (key x) (key y)); congruence.
    - destruct (lex_leb (key y) (key z)) eqn:Eyz; destruct (lex_leb (key x) (key z)) eqn:Exz; simpl.
      + destruct (lex_leb (key x) (key y)) eqn:E1; destruct (lex_leb (key y) (key x)) eqn:E2; rewrite ?Eyz, ?Exz; auto.
        * rewrite (key_inj _ _ (lex_leb_antisym _ _ E1 E2)). reflexivity.
        * destruct (lex_leb_total (key x) (key y)); congruence.
      + (* y <= z, x > z: so y <= x and not x <= y *)
        assert (E1 : lex_leb (key x) (key y) = false).
        { destruct (lex_leb (key x) (key y)) eqn:E; auto. rewrite (lex_leb_trans _ _ _ E Eyz) in Exz. discriminate. }
        rewrite E1, Exz, Eyz. reflexivity.
      + assert (E1 : lex_leb (key y) (key x) = false).
        { destruct (lex_leb (key y) (key x)) eqn:E; auto. rewrite (lex_leb_trans _ _ _ E Exz) in Eyz. discriminate. }
        rewrite E1, Exz, Eyz. reflexivity.
      + rewrite Exz, Eyz. f_equal. exact IH.
  Qed.

  Lemma ksort_perm l l' : Permutation l l' -> ksort key l = ksort key l'.
  Proof.
    induction 1; simpl; auto.
    - f_equal. assumption.
    - apply kinsert_comm.
    - congruence.
  Qed.

  Lemma kinsert_in x l y : In y (kinsert key x l) <-> y = x \/ In y l.
  Proof.
    induction l as [|z l IH]; simpl; [intuition|].
    destruct (lex_leb (key x) (key z)); simpl; [intuition|]. rewrite IH. intuition.
  Qed.
  Lemma ksort_in l y : In y (ksort key l) <-> In y l.
  Proof. induction l as [|z l IH]; simpl; [tauto|]. rewrite kinsert_in, IH. intuition. Qed.
End KSort.

Lemma q_key_inj x y : q_key x = q_key y -> x = y.
Proof. destruct x, y; unfold q_key; simpl. intros H. inversion H. reflexivity. Qed.
Lemma pt_key_inj x y : pt_key x = pt_key y -> x = y.
Proof.
  destruct x as [a b], y as [c d]. unfold pt_key; cbn [fst snd]. unfold q_key. cbn [app].
  intros H. inversion H. f_equal; apply q_key_inj; unfold q_key; congruence.
Qed.
Lemma seg_key_inj x y : seg_key x = seg_key y -> x = y.
Proof.
  destruct x as [a b], y as [c d]. unfold seg_key; cbn [fst snd].
  destruct a as [a1 a2], b as [b1 b2], c as [c1 c2], d as [d1 d2]. unfold pt_key, q_key; cbn [fst snd app].
  intros H. inversion H. f_equal; f_equal; apply q_key_inj; unfold q_key; congruence.
Qed.

Lemma pair_witnesses_comm a b : pair_witnesses b a = pair_witnesses a b.
Proof.
  unfold pair_witnesses, canon_segs, canon_pts.
  rewrite (ksort_perm _ seg_key seg_key_inj _ _ (Permutation_app_comm (arr_segments b) (arr_segments a))).
  rewrite (ksort_perm _ pt_key pt_key_inj _ _ (Permutation_app_comm (arr_points b) (arr_points a))).
  reflexivity.
Qed.

(* ---------------- the matrix *)
Lemma entry_swap T la lb :
  entry (map (fun t => (snd (fst t), fst (fst t), snd t)) T) la lb = entry T lb la.
Proof.
  unfold entry. induction T as [|[[x y] d] T IH]; simpl; auto.
  rewrite (andb_comm (loc_eqb y la)). destruct (loc_eqb x lb && loc_eqb y la); simpl; rewrite IH; reflexivity.
Qed.

Theorem de9im_ref_transpose a b : de9im_ref b a = transpose (de9im_ref a b).
Proof.
  unfold de9im_ref. rewrite pair_witnesses_comm.
  set (W := pair_witnesses a b).
  assert (E : classify b a W = map (fun t => (snd (fst t), fst (fst t), snd t)) (classify a b W)).
  { unfold classify. rewrite map_map. reflexivity. }
  rewrite E. unfold de9im_of, transpose; simpl. rewrite !entry_swap. reflexivity.
Qed.


(* ---------------- locate is a total function into three exclusive classes *)
Lemma locate_total g p : locate g p = Interior \/ locate g p = Boundary \/ locate g p = Exterior.
Proof. destruct (locate g p); auto. Qed.
Lemma loc_eqb_eq a b : loc_eqb a b = true <-> a = b.
Proof. destruct a, b; simpl; split; intros; congruence. Qed.
Lemma locate_exclusive g p l1 l2 : locate g p = l1 -> locate g p = l2 -> l1 = l2.
Proof. congruence. Qed.

(* ---------------- inG agrees with locate: p is in g iff it is not exterior *)
Lemma existsb_flat_map {A B} (f : B -> bool) (g : A -> list B) l :
  existsb f (flat_map g l) = existsb (fun x => existsb f (g x)) l.
Proof. induction l; simpl; auto. rewrite existsb_app, IHl. reflexivity. Qed.
Lemma existsb_map {A B} (f : B -> bool) (g : A -> B) l : existsb f (map g l) = existsb (fun x => f (g x)) l.
Proof. induction l; simpl; auto. rewrite IHl. reflexivity. Qed.
Lemma existsb_ext_in {A} (f g : A -> bool) l : (forall x, In x l -> f x = g x) -> existsb f l = existsb g l.
Proof. induction l; simpl; auto. intros H. rewrite (H a), IHl; auto. Qed.

Lemma inG_flat g p :
  inG g p = existsb (fun y => in_poly y p) (g_polys g) || existsb (fun l => on_line l p) (g_lines g)
            || existsb (pt_eqb p) (g_points g).
Proof.
  induction g using geomT_ind'; simpl.
  - unfold in_point. reflexivity.
  - rewrite !orb_false_r. reflexivity.
  - rewrite !orb_false_r. reflexivity.
  - rewrite existsb_flat_map. reflexivity.
  - rewrite !orb_false_r. reflexivity.
  - rewrite !orb_false_r. reflexivity.
  - rewrite !existsb_flat_map.
    induction H as [|g gs Hg Hgs IH]; simpl; auto.
    rewrite Hg, IH.
    destruct (existsb (fun y => in_poly y p) (g_polys g)), (existsb (fun l => on_line l p) (g_lines g)),
      (existsb (pt_eqb p) (g_points g)); simpl; rewrite ?orb_true_r; auto.
Qed.

Theorem inG_locate g p : inG g p = true <-> locate g p <> Exterior.
Proof.
  rewrite inG_flat. unfold locate, locate_p, prep; cbn [pg_polys pg_lines pg_ends pg_points].
  rewrite !existsb_map.
  assert (E : existsb (fun y => in_poly y p) (g_polys g) =
              existsb (fun y => rings_interior (poly_ring_segs y) p) (g_polys g)
              || existsb (fun y => rings_boundary (poly_ring_segs y) p) (g_polys g)).
  { induction (g_polys g) as [|y ys IH]; simpl; auto. rewrite IH. unfold in_poly, poly_boundary, poly_interior.
    destruct (rings_boundary (poly_ring_segs y) p), (rings_interior (poly_ring_segs y) p); simpl; rewrite ?orb_true_r; auto. }
  rewrite E. unfold on_line.
  destruct (existsb (fun y => rings_interior (poly_ring_segs y) p) (g_polys g)); simpl; [split; congruence|].
  destruct (existsb (fun y => rings_boundary (poly_ring_segs y) p) (g_polys g)); simpl; [split; congruence|].
  destruct (existsb (fun l => on_edges (line_segs l) p) (g_lines g)); simpl.
  { destruct (odd_ends _ p); split; congruence. }
  destruct (existsb (pt_eqb p) (g_points g)); split; congruence.
Qed.

(* ---------------- matrix entries *)
Lemma mget_de9im_of T la lb : mget (de9im_of T) la lb = entry T la lb.
Proof. destruct la, lb; reflexivity. Qed.

Lemma fold_dmax_in l : fold_right dmax DF l = DF \/ In (fold_right dmax DF l) l.
Proof.
  induction l as [|d l IH]; simpl; auto.
  remember (fold_right dmax DF l) as m. unfold dmax.
  destruct (Nat.leb (dim_rank d) (dim_rank m)) eqn:E.
  - destruct IH as [IH|IH].
    + left. exact IH.
    + right. right. exact IH.
  - right. left. reflexivity.
Qed.
Lemma fold_dmax_ge l d : In d l -> (dim_rank d <= dim_rank (fold_right dmax DF l))%nat.
Proof.
  induction l as [|e l IH]; simpl; [tauto|]. remember (fold_right dmax DF l) as m. intros [->|H]; unfold dmax.
  - destruct (Nat.leb (dim_rank d) (dim_rank m)) eqn:E; [apply Nat.leb_le in E; lia | lia].
  - specialize (IH H). destruct (Nat.leb (dim_rank e) (dim_rank m)) eqn:E; [lia|].
    apply Nat.leb_gt in E. lia.
Qed.

Lemma entry_in T la lb : entry T la lb <> DF -> In (la, lb, entry T la lb) T.
Proof.
  unfold entry. set (F := filter _ T). intros H.
  destruct (fold_dmax_in (map snd F)) as [E|E]; [contradiction|].
  apply in_map_iff in E. destruct E as [[[x y] d] [Ed Hin]]. unfold F in Hin. apply filter_In in Hin.
  destruct Hin as [Hin Hc]. cbn [fst snd] in Hc, Ed. apply andb_true_iff in Hc. destruct Hc as [H1 H2].
  apply loc_eqb_eq in H1, H2. rewrite <- Ed, <- H1, <- H2. exact Hin.
Qed.
Lemma entry_ge T la lb d : In (la, lb, d) T -> (dim_rank d <= dim_rank (entry T la lb))%nat.
Proof.
  intros H. unfold entry. apply fold_dmax_ge. apply in_map_iff. exists (la, lb, d). split; auto.
  apply filter_In. split; auto. simpl. rewrite !(proj2 (loc_eqb_eq _ _) eq_refl). reflexivity.
Qed.

(* every set entry of the reference matrix is witnessed by a concrete point of the arrangement with
   exactly that pair of locations and that cell dimension *)
Theorem de9im_ref_entry_witnessed a b la lb :
  mget (de9im_ref a b) la lb <> DF ->
  exists w, In (w, mget (de9im_ref a b) la lb) (pair_witnesses a b) /\ locate a w = la /\ locate b w = lb.
Proof.
  unfold de9im_ref. rewrite mget_de9im_of. intros H. apply entry_in in H.
  unfold classify in H. apply in_map_iff in H. destruct H as [[w d] [E Hin]]. cbn [fst snd] in E.
  injection E as E1 E2 E3. exists w. split; [|split; [exact E1 | exact E2]]. unfold classify. rewrite <- E3. exact Hin.
Qed.
(* and no witness is forgotten: an entry is at least the dimension of every witness with its locations *)
Theorem de9im_ref_entry_ge a b w d :
  In (w, d) (pair_witnesses a b) ->
  (dim_rank d <= dim_rank (mget (de9im_ref a b) (locate a w) (locate b w)))%nat.
Proof.
  intros H. unfold de9im_ref. rewrite mget_de9im_of. apply entry_ge.
  unfold classify. apply in_map_iff. exists (w, d). split; auto.
Qed.


(* ---------------- the vertices of the arrangement *)
Lemma pair_points_in L v :
  In v (pair_points L) -> exists s t, In s L /\ In t L /\ In v (ssr_points (seg_seg s t)).
Proof.
  induction L as [|s r IH]; simpl; [tauto|]. rewrite in_app_iff, in_flat_map.
  intros [[t [Ht Hv]]|H].
  - exists s, t. auto.
  - destruct (IH H) as [s' [t' [H1 [H2 H3]]]]. exists s', t'. auto.
Qed.

(* a vertex is an end of an input segment, a reported intersection point (or overlap end) of two
   input segments - which lies on both, by seg_seg_sound - or an isolated input point *)
Theorem vertex_set_spec L P v :
  In v (vertex_set L P) ->
  (exists s, In s L /\ (v = fst s \/ v = snd s)) \/
  (exists s t, In s L /\ In t L /\ In v (ssr_points (seg_seg s t)) /\ on_seg s v = true /\ on_seg t v = true) \/
  In v P.
Proof.
  unfold vertex_set. rewrite !in_app_iff, in_flat_map. intros [[s [Hs Hv]]|[H|H]].
  - left. exists s. split; auto. unfold seg_ends in Hv. simpl in Hv. destruct Hv as [<-|[<-|[]]]; auto.
  - right. left. destruct (pair_points_in _ _ H) as [s [t [H1 [H2 H3]]]]. exists s, t.
    destruct (seg_seg_sound s t v H3). auto.
  - auto.
Qed.

(* ---------------- dimension tags *)
Lemma gaps_between_dim x ys mid w d :
  In (w, d) (gaps_between x ys mid) -> exists y1 y2, d = mid y1 y2.
Proof.
  revert w d. induction ys as [|y1 ys IH]; simpl; [tauto|]. destruct ys as [|y2 r]; [simpl; tauto|].
  intros w d [H|H].
  - inversion H. eauto.
  - eapply IH; eauto.
Qed.
Lemma column_dim x ys at_y mid w d :
  In (w, d) (column x ys at_y mid) ->
  d = D2 \/ (exists y, In y ys /\ w = (x, y) /\ d = at_y y) \/ (exists y1 y2, d = mid y1 y2).
Proof.
  unfold column. destruct ys as [|y1 r].
  - intros [H|[]]. inversion H. auto.
  - intros H. apply in_inv in H. destruct H as [H|H]; [inversion H; auto|].
    apply in_inv in H. destruct H as [H|H]; [inversion H; auto|].
    apply in_app_or in H. destruct H as [H|H].
    + apply in_map_iff in H. destruct H as [y [E Hy]]. inversion E. right. left. exists y. auto.
    + right. right. eapply gaps_between_dim; eauto.
Qed.

Lemma slabs_between_dim L xs w d : In (w, d) (slabs_between L xs) -> d = D1 \/ d = D2.
Proof.
  induction xs as [|x0 xs IH]; simpl; [tauto|]. destruct xs as [|x1 r]; [simpl; tauto|].
  rewrite in_app_iff. intros [H|H]; [|auto].
  unfold slab_witnesses in H. apply column_dim in H. destruct H as [H|[[y [_ [_ H]]]|[y1 [y2 H]]]]; auto.
Qed.

(* every witness tagged with dimension 0 is (equal to) a vertex of the arrangement *)
Theorem witness_dim0_is_vertex L P w :
  In (w, D0) (witnesses L P) -> exists v, In v (vertex_set L P) /\ pt_eq v w.
Proof.
  unfold witnesses. set (V := vertex_set L P). destruct (events V) as [|x0 xs] eqn:Ev.
  - simpl. intros [H|[]]. inversion H.
  - intros H. simpl in H. destruct H as [H|[H|H]]; try (inversion H; fail).
    rewrite in_app_iff in H. destruct H as [H|H].
    + change (In (w, D0) (flat_map (event_witnesses L V) (x0 :: xs))) in H.
      apply in_flat_map in H. destruct H as [x [_ H]].
      unfold event_witnesses in H. apply column_dim in H.
      destruct H as [H|[[y [_ [Ew H]]]|[y1 [y2 H]]]]; [discriminate| |].
      * destruct (existsb (Qeq_bool y) (vertex_ordinates V x)) eqn:E; [|discriminate].
        apply existsb_exists in E. destruct E as [y' [Hy' Ey]]. apply Qeq_bool_iff in Ey.
        unfold vertex_ordinates in Hy'. apply in_flat_map in Hy'. destruct Hy' as [v [Hv Hy']].
        destruct (Qeq_bool (fst v) x) eqn:Ex; [|simpl in Hy'; tauto].
        apply Qeq_bool_iff in Ex. simpl in Hy'. destruct Hy' as [<-|[]].
        exists v. split; auto. subst w. split; simpl; [exact Ex | symmetry; exact Ey].
      * destruct (vertical_covers L x y1 y2); discriminate.
    + change (In (w, D0) (slabs_between L (x0 :: xs))) in H.
      apply slabs_between_dim in H. destruct H; discriminate.
Qed.

(* witnesses of pair_witnesses: the vertices are those of the two operands' segments and points *)
Lemma arr_in_canon_segs L s : In s (canon_segs L) <-> In s L.
Proof. apply ksort_in. Qed.
Lemma arr_in_canon_pts P p : In p (canon_pts P) <-> In p P.
Proof. apply ksort_in. Qed.
