(* Sufficiency of the slab-witness oracle, part 2: coverage and the corollaries.
   witness_cover        : every point of Q^2 is in the same cell as some witness of (L,P)
   witnesses_sufficient : ... hence has the same location as that witness w.r.t. every geometry contained
                          in the arrangement whose rings are closed
   inG_agree_everywhere / locate_agree_everywhere / pointwise_everywhere : what holds at all witnesses
                          holds at all points
   de9im_ref_sufficient : an entry of the reference matrix is set iff some point of the plane has that
                          pair of locations.
   Hypothesis used: rings_closed (every polygon ring is a closed vertex list) - true of every valid polygon.
   No validity of any other kind is needed (rings may self-intersect, members may overlap). *)
From Coq Require Import QArith Qreduction List Bool ZArith Lia Lqa Setoid Morphisms.
From SF Require Import Base.GeomAST Base.QKernel Base.Planar Proofs.Planar_proofs Proofs.Planar_slab_base.
Import ListNotations.
Open Scope Q_scope.


Section Cover.
  Variables (L : list seg) (P : list pt).
  Let V := vertex_set L P.
  Let xs := events V.

  Lemma vertex_event v : In v V -> exists x, In x xs /\ x == fst v.
  Proof. intros Hv. apply qsort_has. apply in_map. exact Hv. Qed.

  (* points to the left (right) of every vertex *)
  Lemma left_same_cell p w : (forall v, In v V -> fst p < fst v /\ fst w < fst v) -> same_cell L V p w.
  Proof.
    intros H. split.
    - intros [a b] He. destruct (seg_end_vertex L P _ He) as [Ha Hb]. cbn [fst snd] in *.
      destruct (H a Ha) as [Pa Wa]. destruct (H b Hb) as [Pb Wb].
      assert (O : forall q, fst q < fst a -> fst q < fst b -> on_seg (a, b) q = false /\ vcross a b q = false).
      { intros q Qa Qb. split.
        - unfold on_seg. destruct (qbetween (fst a) (fst b) (fst q)) eqn:B; [apply qbetween_iff in B; lra | reflexivity].
        - unfold vcross. assert (E1 : Qle_bool (fst a) (fst q) = false) by (apply Qle_bool_false_iff; lra).
          assert (E2 : Qle_bool (fst b) (fst q) = false) by (apply Qle_bool_false_iff; lra). rewrite E1, E2. reflexivity. }
      destruct (O p Pa Pb) as [-> ->]. destruct (O w Wa Wb) as [-> ->]. split; reflexivity.
    - intros v Hv. destruct (H v Hv). unfold pt_eqb.
      assert (E1 : Qeq_bool (fst p) (fst v) = false) by (apply Qeq_bool_false_iff; lra).
      assert (E2 : Qeq_bool (fst w) (fst v) = false) by (apply Qeq_bool_false_iff; lra). rewrite E1, E2. reflexivity.
  Qed.
  Lemma right_same_cell p w : (forall v, In v V -> fst v < fst p /\ fst v < fst w) -> same_cell L V p w.
  Proof.
    intros H. split.
    - intros [a b] He. destruct (seg_end_vertex L P _ He) as [Ha Hb]. cbn [fst snd] in *.
      destruct (H a Ha) as [Pa Wa]. destruct (H b Hb) as [Pb Wb].
      assert (O : forall q, fst a < fst q -> fst b < fst q -> on_seg (a, b) q = false /\ vcross a b q = false).
      { intros q Qa Qb. split.
        - unfold on_seg. destruct (qbetween (fst a) (fst b) (fst q)) eqn:B; [apply qbetween_iff in B; lra | reflexivity].
        - unfold vcross. assert (E1 : Qle_bool (fst a) (fst q) = true) by (apply Qle_bool_iff; lra).
          assert (E2 : Qle_bool (fst b) (fst q) = true) by (apply Qle_bool_iff; lra). rewrite E1, E2. reflexivity. }
      destruct (O p Pa Pb) as [-> ->]. destruct (O w Wa Wb) as [-> ->]. split; reflexivity.
    - intros v Hv. destruct (H v Hv). unfold pt_eqb.
      assert (E1 : Qeq_bool (fst p) (fst v) = false) by (apply Qeq_bool_false_iff; lra).
      assert (E2 : Qeq_bool (fst w) (fst v) = false) by (apply Qeq_bool_false_iff; lra). rewrite E1, E2. reflexivity.
  Qed.

  (* ---- event lines *)
  Lemma event_cover x p : fst p == x ->
    exists w d, In (w, d) (event_witnesses L V x) /\ same_cell L V p w.
  Proof.
    intros Hp. unfold event_witnesses.
    destruct (column_oracle (fun y => snd p ?= y) x (line_ordinates L V x)
                (fun y => if existsb (Qeq_bool y) (vertex_ordinates V x) then D0 else D1)
                (fun y1 y2 => if vertical_covers L x y1 y2 then D1 else D2)) as [w [d [Hin [Hx Hc]]]].
    - apply qsort_sorted.
    - intros y y' _ _ Lt Hy.
      assert (snd p <= y) by (destruct Hy as [Hy|Hy]; [apply Qlt_alt in Hy | apply Qeq_alt in Hy]; lra).
      apply (proj1 (Qlt_alt _ _)). lra.
    - exists w, d. split; [exact Hin|]. apply (event_same_cell L P x); [exact Hp | rewrite Hx; reflexivity | exact Hc].
  Qed.

  (* ---- open slabs *)
  Variables x0 x1 : Q.
  Hypothesis Hcons : In (x0, x1) (consec xs).
  Let xm := qmid x0 x1.

  Lemma xm_inside : x0 < xm < x1.
  Proof.
    pose proof (slab_lt L P x0 x1 Hcons). unfold xm. rewrite qmid_eq.
    assert (Em : 2 * ((x0 + x1) / 2) == x0 + x1) by field. set (m := (x0 + x1) / 2) in *. split; lra.
  Qed.

  Definition span_b (e : seg) : bool :=
    negb (seg_vertical e) &&
    ((qltb (fst (fst e)) xm && qltb xm (fst (snd e))) || (qltb (fst (snd e)) xm && qltb xm (fst (fst e)))).

  Lemma span_b_spans e : In e L -> (span_b e = true <-> spans x0 x1 e).
  Proof.
    intros He. unfold span_b. rewrite andb_true_iff, negb_true_iff, orb_true_iff, !andb_true_iff, !qltb_iff.
    split.
    - intros [NV H]. apply seg_vertical_false in NV. apply (spans_iff L P x0 x1 Hcons e xm He xm_inside NV). exact H.
    - intros S. pose proof S as [NV _]. split; [apply seg_vertical_false; exact NV|].
      apply (spans_iff L P x0 x1 Hcons e xm He xm_inside NV). exact S.
  Qed.

  Lemma heights_flat y :
    In y (flat_map (fun s => if seg_vertical s then []
       else if (qltb (fst (fst s)) xm && qltb xm (fst (snd s))) || (qltb (fst (snd s)) xm && qltb xm (fst (fst s)))
            then [seg_y_at s xm] else []) L) <-> exists e, In e L /\ span_b e = true /\ y = seg_y_at e xm.
  Proof.
    rewrite in_flat_map. unfold span_b. split.
    - intros [e [He Hy]]. exists e. split; [exact He|]. destruct (seg_vertical e); [destruct Hy|]. cbn [negb andb].
      destruct ((qltb (fst (fst e)) xm && qltb xm (fst (snd e))) || (qltb (fst (snd e)) xm && qltb xm (fst (fst e)))); [|destruct Hy].
      destruct Hy as [<-|[]]. auto.
    - intros [e [He [Hs ->]]]. exists e. split; [exact He|]. destruct (seg_vertical e); [discriminate|]. cbn [negb andb] in Hs.
      rewrite Hs. left. reflexivity.
  Qed.
  Lemma heights_in y : In y (slab_heights L xm) -> exists e, In e L /\ span_b e = true /\ y = seg_y_at e xm.
  Proof. intros H. apply qsort_in in H. apply heights_flat. exact H. Qed.
  Lemma heights_has e : In e L -> span_b e = true -> exists y, In y (slab_heights L xm) /\ y == y_at e xm.
  Proof.
    intros He Hs. destruct (qsort_has _ (seg_y_at e xm) (proj2 (heights_flat _) (ex_intro _ e (conj He (conj Hs eq_refl))))) as [y [Hy Ey]].
    exists y. split; [exact Hy|]. rewrite Ey. apply seg_y_at_eq.
  Qed.

  Variable p : pt.
  Hypothesis Hp : x0 < fst p < x1.

  (* how p compares with the spanning segment(s) whose height at xm is y *)
  Definition oracle (y : Q) : comparison :=
    match find (fun e => span_b e && Qeq_bool (seg_y_at e xm) y) L with
    | Some e => snd p ?= y_at e (fst p)
    | None => Eq
    end.

  Lemma oracle_spec e y : In e L -> spans x0 x1 e -> y == y_at e xm -> oracle y = (snd p ?= y_at e (fst p)).
  Proof.
    intros He Se Ey. unfold oracle.
    destruct (find (fun e => span_b e && Qeq_bool (seg_y_at e xm) y) L) as [e'|] eqn:F.
    - apply find_some in F. destruct F as [He' F]. apply andb_true_iff in F. destruct F as [Sb Q].
      apply Qeq_bool_iff in Q. rewrite seg_y_at_eq in Q. apply (span_b_spans e' He') in Sb.
      assert (E : y_at e' (fst p) == y_at e (fst p)).
      { apply (order_eq L P x0 x1 Hcons e' e xm (fst p)); auto using xm_inside. lra. }
      rewrite E. reflexivity.
    - exfalso. pose proof (find_none _ _ F e He) as N. cbn beta in N.
      rewrite (proj2 (span_b_spans e He) Se) in N. cbn [andb] in N. apply Qeq_bool_false_iff in N.
      apply N. rewrite seg_y_at_eq. lra.
  Qed.

  Lemma oracle_mono : mono oracle (slab_heights L xm).
  Proof.
    intros y y' Hy Hy' Lt Hc.
    destruct (heights_in y Hy) as [e [He [Sb Ey]]]. destruct (heights_in y' Hy') as [e' [He' [Sb' Ey']]].
    apply (span_b_spans e He) in Sb. apply (span_b_spans e' He') in Sb'.
    assert (Ey2 : y == y_at e xm) by (rewrite Ey; apply seg_y_at_eq).
    assert (Ey2' : y' == y_at e' xm) by (rewrite Ey'; apply seg_y_at_eq).
    rewrite (oracle_spec e y He Sb Ey2) in Hc. rewrite (oracle_spec e' y' He' Sb' Ey2').
    assert (O : y_at e (fst p) < y_at e' (fst p)).
    { apply (order_lt L P x0 x1 Hcons e e' xm (fst p)); auto using xm_inside. lra. }
    assert (snd p <= y_at e (fst p)) by (destruct Hc as [Hc|Hc]; [apply Qlt_alt in Hc | apply Qeq_alt in Hc]; lra).
    apply (proj1 (Qlt_alt _ _)). lra.
  Qed.

  Lemma slab_cover : exists w d, In (w, d) (slab_witnesses L x0 x1) /\ same_cell L V p w.
  Proof.
    unfold slab_witnesses. fold xm.
    destruct (column_oracle oracle xm (slab_heights L xm) (fun _ => D1) (fun _ _ => D2)
                (qsort_sorted _) oracle_mono) as [w [d [Hin [Hx Hc]]]].
    exists w, d. split; [exact Hin|].
    apply (slab_same_cell L P x0 x1 Hcons p w Hp).
    - rewrite Hx. apply xm_inside.
    - intros e He Se.
      destruct (heights_has e He (proj2 (span_b_spans e He) Se)) as [y [Hy Ey]].
      rewrite <- (oracle_spec e y He Se Ey). rewrite (Hc y Hy). rewrite Hx, Ey. reflexivity.
  Qed.
End Cover.

(* ---- coverage: every point of the plane shares its cell with a witness *)
Theorem witness_cover L P p :
  exists w d, In (w, d) (witnesses L P) /\ same_cell L (vertex_set L P) p w.
Proof.
  unfold witnesses. set (V := vertex_set L P). set (xs := events V).
  destruct xs as [|x0 l] eqn:Exs.
  - exists (0, 0), D2. split; [left; reflexivity|].
    assert (NoV : forall v, In v V -> False).
    { intros v Hv. destruct (vertex_event L P v Hv) as [x [Hx _]]. fold V in Hx. fold xs in Hx. rewrite Exs in Hx. destruct Hx. }
    split.
    + intros e He. exfalso. apply (NoV (fst e)). apply (seg_end_vertex L P e He).
    + intros v Hv. exfalso. eapply NoV; eauto.
  - assert (S : qsorted (x0 :: l)) by (rewrite <- Exs; apply qsort_sorted).
    assert (Ev : forall v, In v V -> x0 <= fst v <= last l x0).
    { intros v Hv. destruct (vertex_event L P v Hv) as [x [Hx Ex]]. fold V in Hx. fold xs in Hx. rewrite Exs in Hx.
      split.
      - destruct Hx as [<-|Hx]; [lra|]. pose proof (qsorted_head_lt x0 l x S Hx). lra.
      - pose proof (qsorted_last_ge x0 l x S Hx). lra. }
    assert (El : last (x0 :: l) x0 = last l x0) by (destruct l; reflexivity).
    destruct (qsorted_position x0 l (fst p) S) as [K|[K|[[x [Hx Ex]]|[a [b [Hc Hb]]]]]].
    + exists (Qred (x0 - 1), 0), D2. split; [left; reflexivity|]. apply left_same_cell.
      intros v Hv. destruct (Ev v Hv). cbn [fst]. rewrite Qred_correct. split; lra.
    + exists (Qred (last (x0 :: l) x0 + 1), 0), D2. split; [right; left; reflexivity|]. apply right_same_cell.
      intros v Hv. destruct (Ev v Hv). cbn [fst]. rewrite Qred_correct, El. split; lra.
    + destruct (event_cover L P x p Ex) as [w [d [Hin Hs]]]. exists w, d. split; [|exact Hs].
      right. right. apply in_or_app. left. apply in_flat_map. exists x. split; [exact Hx | exact Hin].
    + assert (Hc' : In (a, b) (consec (events (vertex_set L P)))) by (fold V; fold xs; rewrite Exs; exact Hc).
      destruct (slab_cover L P a b Hc' p Hb) as [w [d [Hin Hs]]]. exists w, d. split; [|exact Hs].
      right. right. apply in_or_app. right. apply (slabs_between_in L (x0 :: l) a b); [exact Hc | exact Hin].
Qed.


(* S3, uniform form: every point of Q^2 has a witness with the same location with respect to EVERY
   geometry contained in the arrangement (closed rings) *)
Theorem witnesses_sufficient L P p :
  exists w d, In (w, d) (witnesses L P) /\
    forall g, covers_geom L P g -> rings_closed g -> locate g p = locate g w.
Proof.
  destruct (witness_cover L P p) as [w [d [Hin Hs]]]. exists w, d. split; [exact Hin|].
  intros g Hc Hr. apply (locate_same_cell L P g p w Hc Hr Hs).
Qed.

Lemma inG_of_locate g p w : locate g p = locate g w -> inG g p = inG g w.
Proof.
  intros E. apply eq_true_iff_eq. rewrite !inG_locate, E. tauto.
Qed.

(* agreement of two geometries at the witnesses of a common arrangement is agreement everywhere *)
Theorem inG_agree_everywhere L P g1 g2 :
  covers_geom L P g1 -> covers_geom L P g2 -> rings_closed g1 -> rings_closed g2 ->
  (forall w d, In (w, d) (witnesses L P) -> inG g1 w = inG g2 w) ->
  forall p, inG g1 p = inG g2 p.
Proof.
  intros C1 C2 R1 R2 H p. destruct (witnesses_sufficient L P p) as [w [d [Hin Hs]]].
  rewrite (inG_of_locate g1 p w (Hs g1 C1 R1)), (inG_of_locate g2 p w (Hs g2 C2 R2)). apply (H w d Hin).
Qed.
Theorem locate_agree_everywhere L P g1 g2 :
  covers_geom L P g1 -> covers_geom L P g2 -> rings_closed g1 -> rings_closed g2 ->
  (forall w d, In (w, d) (witnesses L P) -> locate g1 w = locate g2 w) ->
  forall p, locate g1 p = locate g2 p.
Proof.
  intros C1 C2 R1 R2 H p. destruct (witnesses_sufficient L P p) as [w [d [Hin Hs]]].
  rewrite (Hs g1 C1 R1), (Hs g2 C2 R2). apply (H w d Hin).
Qed.
(* a boolean combination of memberships that holds at every witness holds at every point *)
Theorem pointwise_everywhere L P (gs : list geom) (F : list bool -> bool) :
  (forall g, In g gs -> covers_geom L P g /\ rings_closed g) ->
  (forall w d, In (w, d) (witnesses L P) -> F (map (fun g => inG g w) gs) = true) ->
  forall p, F (map (fun g => inG g p) gs) = true.
Proof.
  intros C H p. destruct (witnesses_sufficient L P p) as [w [d [Hin Hs]]].
  rewrite (map_ext_in (fun g => inG g p) (fun g => inG g w)); [apply (H w d Hin)|].
  intros g Hg. apply inG_of_locate. destruct (C g Hg). apply Hs; assumption.
Qed.

(* tags are never F *)
Lemma witness_dim_not_F L P w d : In (w, d) (witnesses L P) -> d <> DF.
Proof.
  unfold witnesses. destruct (events (vertex_set L P)) as [|x0 l].
  - intros [H|[]]. inversion H. discriminate.
  - intros [H|[H|H]]; [inversion H; discriminate | inversion H; discriminate |].
    apply in_app_or in H. destruct H as [H|H].
    + apply in_flat_map in H. destruct H as [x [_ H]]. unfold event_witnesses in H. apply column_dim in H.
      destruct H as [->|[[y [_ [_ ->]]]|[y1 [y2 ->]]]]; [discriminate | |].
      * destruct (existsb _ _); discriminate.
      * destruct (vertical_covers _ _ _ _); discriminate.
    + apply slabs_between_dim in H. destruct H as [->| ->]; discriminate.
Qed.

(* the pair arrangement contains both operands *)
Lemma pair_covers a b :
  covers_geom (canon_segs (arr_segments a ++ arr_segments b)) (canon_pts (arr_points a ++ arr_points b)) a /\
  covers_geom (canon_segs (arr_segments a ++ arr_segments b)) (canon_pts (arr_points a ++ arr_points b)) b.
Proof.
  unfold covers_geom. repeat split; intros x Hx;
    first [apply arr_in_canon_segs | apply arr_in_canon_pts]; apply in_or_app; auto.
Qed.

(* S3 for the reference matrix: an entry is set iff some point of the plane has that pair of locations *)
Theorem de9im_ref_sufficient a b la lb :
  rings_closed a -> rings_closed b ->
  (mget (de9im_ref a b) la lb <> DF <-> exists p, locate a p = la /\ locate b p = lb).
Proof.
  intros Ra Rb. split.
  - intros H. destruct (de9im_ref_entry_witnessed a b la lb H) as [w [_ [H1 H2]]]. exists w. auto.
  - intros [p [H1 H2]]. destruct (pair_covers a b) as [Ca Cb].
    destruct (witnesses_sufficient (canon_segs (arr_segments a ++ arr_segments b)) (canon_pts (arr_points a ++ arr_points b)) p) as [w [d [Hin Hs]]].
    fold (pair_witnesses a b) in Hin.
    pose proof (de9im_ref_entry_ge a b w d Hin) as G.
    rewrite <- (Hs a Ca Ra), <- (Hs b Cb Rb), H1, H2 in G.
    pose proof (witness_dim_not_F _ _ w d Hin) as Nd.
    intros E. rewrite E in G. destruct d; simpl in G; try lia. congruence.
Qed.
Print Assumptions de9im_ref_sufficient.
Print Assumptions inG_agree_everywhere.
