(* Sufficiency of the slab-witness oracle, part 1 (DESIGN.md 2.2a (iii), section 4.1): the pieces.
   1. vcross / quadrant_lemma / closed_ring_parity: for a CLOSED ring and a point not on it, the parity of
      the horizontal-ray crossings (what locate uses) equals the parity of the vertical-ray crossings -
      proved by telescoping "change of open-quadrant membership" along the ring; no Jordan curve theorem.
   2. same_cell / locate_same_cell: two points that no segment of L and no vertex of V can tell apart
      (same on_seg and same vertical crossing for every segment, same equality with every vertex) have the
      same location w.r.t. every geometry made of segments of L and points of P with closed rings.
   3. sorted lists (qsort), consecutive pairs, position of a value in a sorted list, where the witnesses sit.
   4. y_at: heights of non-vertical segments; on_seg and vcross expressed through heights.
   5. inside an open slab between consecutive events the vertical order of spanning segments of L is constant
      (order_lt / order_eq): a change of order would produce a common point of two segments of L strictly
      inside the slab, but seg_seg is complete and its points are events.
   6. slab_same_cell / event_same_cell: comparing alike with all spanning segments (all ordinates of an
      event line) puts two points in the same cell.
   7. column_oracle: a column of witnesses realises every monotone comparison pattern. *)
From Coq Require Import QArith Qreduction List Bool ZArith Lia Lqa Setoid Morphisms.
From SF Require Import Base.GeomAST Base.QKernel Base.Planar Proofs.Planar_proofs.
Import ListNotations.
Open Scope Q_scope.


(* vertical-ray crossing: mirror image of edge_cross (x and y exchanged).  The ray from p towards +y
   crosses the edge (a,b) iff exactly one end is strictly to the right of p and p is strictly below *)
Definition vcross (a b p : pt) : bool :=
  let xa := Qle_bool (fst a) (fst p) in
  let xb := Qle_bool (fst b) (fst p) in
  if Bool.eqb xa xb then false
  else if xa then qltb (cross a b p) 0 else qltb (cross b a p) 0.
(* the open quadrant above-right of p *)
Definition quad (p v : pt) : bool := qltb (fst p) (fst v) && qltb (snd p) (snd v).

Lemma qltb_iff a b : qltb a b = true <-> a < b.
Proof. unfold qltb. rewrite negb_true_iff. rewrite <- not_true_iff_false, Qle_bool_iff. split; intros H; lra. Qed.
Lemma qltb_false_iff a b : qltb a b = false <-> b <= a.
Proof. unfold qltb. rewrite negb_false_iff, Qle_bool_iff. tauto. Qed.
Lemma Qle_bool_false_iff a b : Qle_bool a b = false <-> b < a.
Proof. rewrite <- not_true_iff_false, Qle_bool_iff. split; intros H; lra. Qed.

(* crossing of the horizontal ray xor crossing of the vertical ray = change of quadrant membership *)
Lemma quadrant_lemma a b p :
  on_seg (a, b) p = false ->
  xorb (edge_cross a b p) (vcross a b p) = xorb (quad p a) (quad p b).
Proof.
  destruct a as [ax ay], b as [bx by_], p as [px py].
  unfold on_seg, edge_cross, vcross, quad, cross; cbn [fst snd]. intros H.
  rewrite !andb_false_iff in H. rewrite Qeq_bool_false_iff in H.
  assert (Hb : forall a b x, qbetween a b x = false <-> ~ ((a <= x <= b) \/ (b <= x <= a))).
  { intros. rewrite <- qbetween_iff. destruct (qbetween a b x); split; congruence. }
  rewrite !Hb in H. clear Hb.
  destruct (Qle_bool ay py) eqn:Ya; destruct (Qle_bool by_ py) eqn:Yb;
  destruct (Qle_bool ax px) eqn:Xa; destruct (Qle_bool bx px) eqn:Xb; cbn [Bool.eqb];
  rewrite ?Qle_bool_iff, ?Qle_bool_false_iff in *;
  repeat match goal with
  | |- context [qltb ?u ?v] => let E := fresh "E" in destruct (qltb u v) eqn:E;
        [apply qltb_iff in E | apply qltb_false_iff in E]
  end; cbn; try reflexivity; exfalso; nra.
Qed.


Definition vparity (es : list seg) (p : pt) : bool :=
  fold_left (fun acc e => xorb acc (vcross (fst e) (snd e) p)) es false.

Lemma fold_xor_acc {A} (f : A -> bool) l acc :
  fold_left (fun acc e => xorb acc (f e)) l acc = xorb acc (fold_left (fun acc e => xorb acc (f e)) l false).
Proof.
  revert acc. induction l as [|x l IH]; intros acc; cbn [fold_left].
  - destruct acc; reflexivity.
  - rewrite (IH (xorb acc (f x))), (IH (xorb false (f x))). destruct acc, (f x); simpl; destruct (fold_left _ l false); reflexivity.
Qed.
Lemma edges_parity_cons e es p :
  edges_parity (e :: es) p = xorb (edge_cross (fst e) (snd e) p) (edges_parity es p).
Proof. unfold edges_parity. cbn [fold_left]. rewrite fold_xor_acc. destruct (edge_cross (fst e) (snd e) p); reflexivity. Qed.
Lemma vparity_cons e es p : vparity (e :: es) p = xorb (vcross (fst e) (snd e) p) (vparity es p).
Proof. unfold vparity. cbn [fold_left]. rewrite fold_xor_acc. destruct (vcross (fst e) (snd e) p); reflexivity. Qed.

Lemma quad_proper p a b : pt_eq a b -> quad p a = quad p b.
Proof.
  intros [H1 H2]. unfold quad, qltb. rewrite H1, H2. reflexivity.
Qed.

Lemma last_cons_default {A} (b : A) vs a : last (b :: vs) a = last vs b.
Proof.
  revert b a. induction vs as [|c vs IH]; intros b a; [reflexivity|].
  change (last (b :: c :: vs) a) with (last (c :: vs) a). rewrite (IH c a), (IH c b). reflexivity.
Qed.

(* telescoping along a vertex chain *)
Lemma chain_parity a vs p :
  on_edges (ring_edges (a :: vs)) p = false ->
  xorb (edges_parity (ring_edges (a :: vs)) p) (vparity (ring_edges (a :: vs)) p)
  = xorb (quad p a) (quad p (last vs a)).
Proof.
  revert a. induction vs as [|b vs IH]; intros a H.
  - simpl. unfold edges_parity, vparity. simpl. destruct (quad p a); reflexivity.
  - change (ring_edges (a :: b :: vs)) with ((a, b) :: ring_edges (b :: vs)) in *.
    unfold on_edges in H. simpl in H. apply orb_false_iff in H. destruct H as [H1 H2].
    rewrite edges_parity_cons, vparity_cons. cbn [fst snd].
    specialize (IH b H2).
    pose proof (quadrant_lemma a b p H1) as Q.
    rewrite (last_cons_default b vs a).
    destruct (edge_cross a b p), (vcross a b p), (quad p a), (quad p b), (quad p (last vs b)),
      (edges_parity (ring_edges (b :: vs)) p), (vparity (ring_edges (b :: vs)) p); simpl in *; congruence.
Qed.

(* for a closed ring and a point not on it the two parities agree *)
Theorem closed_ring_parity (ps : list pt) p :
  pts_closed ps = true -> on_edges (segs_of_pts ps) p = false ->
  edges_parity (segs_of_pts ps) p = vparity (segs_of_pts ps) p.
Proof.
  intros C H. destruct ps as [|a vs]; [reflexivity|].
  assert (E : segs_of_pts (a :: vs) = ring_edges (a :: vs) \/ (vs = [] /\ segs_of_pts (a :: vs) = [(a, a)])).
  { destruct vs; [right; auto | left; reflexivity]. }
  destruct E as [E | [-> E]].
  - rewrite E in *. pose proof (chain_parity a vs p H) as K.
    unfold pts_closed in C. apply pt_eqb_iff in C. rewrite <- (quad_proper p _ _ C) in K.
    destruct (edges_parity _ p), (vparity _ p), (quad p a); simpl in K; congruence.
  - rewrite E in *. unfold on_edges in H. simpl in H. rewrite orb_false_r in H.
    pose proof (quadrant_lemma a a p H) as Q. unfold edges_parity, vparity. simpl.
    destruct (edge_cross a a p), (vcross a a p), (quad p a); simpl in *; congruence.
Qed.


(* p and w are indistinguishable for every segment of L and every vertex of V *)
Definition same_cell (L : list seg) (V : list pt) (p w : pt) : Prop :=
  (forall e, In e L -> on_seg e p = on_seg e w /\ vcross (fst e) (snd e) p = vcross (fst e) (snd e) w) /\
  (forall v, In v V -> pt_eqb p v = pt_eqb w v).

(* every ring of every polygon of g is a closed vertex list *)
Definition rings_closed (g : geom) : Prop :=
  forall y, In y (g_polys g) -> forall r, In r (poly_rings y) -> pts_closed (line_pts r) = true.
(* the arrangement (L,P) contains g *)
Definition covers_geom (L : list seg) (P : list pt) (g : geom) : Prop :=
  incl (arr_segments g) L /\ incl (arr_points g) P.

Lemma existsb_ext_in' {A} (f g : A -> bool) l : (forall x, In x l -> f x = g x) -> existsb f l = existsb g l.
Proof. induction l; simpl; auto. intros H. rewrite (H a), IHl; auto. Qed.
Lemma forallb_ext_in' {A} (f g : A -> bool) l : (forall x, In x l -> f x = g x) -> forallb f l = forallb g l.
Proof. induction l; simpl; auto. intros H. rewrite (H a), IHl; auto. Qed.
Lemma fold_xor_ext {A} (f g : A -> bool) l acc : (forall x, In x l -> f x = g x) ->
  fold_left (fun acc e => xorb acc (f e)) l acc = fold_left (fun acc e => xorb acc (g e)) l acc.
Proof. revert acc. induction l; simpl; auto. intros acc H. rewrite (H a) by auto. apply IHl. auto. Qed.

Lemma in_arr_ring g y r e :
  In y (g_polys g) -> In r (poly_rings y) -> In e (line_segs r) -> In e (arr_segments g).
Proof.
  intros Hy Hr He. unfold arr_segments. apply in_or_app. left. apply in_flat_map. exists y. split; auto.
  apply in_concat. exists (line_segs r). split; auto. unfold poly_ring_segs. apply in_map. exact Hr.
Qed.
Lemma in_arr_line g l e : In l (g_lines g) -> In e (line_segs l) -> In e (arr_segments g).
Proof.
  intros Hl He. unfold arr_segments. apply in_or_app. right. apply in_flat_map. exists l. auto.
Qed.

(* the end points of a line string are ends of its segments *)
Lemma ring_edges_first a b vs : In (a, b) (ring_edges (a :: b :: vs)).
Proof. simpl. auto. Qed.
Lemma ring_edges_last a vs : vs <> [] -> exists c, In (c, last vs a) (ring_edges (a :: vs)).
Proof.
  revert a. induction vs as [|b vs IH]; intros a H; [congruence|].
  destruct vs as [|c vs].
  - exists a. simpl. auto.
  - destruct (IH b) as [d Hd]; [discriminate|]. exists d.
    change (last (b :: c :: vs) a) with (last (c :: vs) a).
    rewrite (last_cons_default c vs a), <- (last_cons_default c vs b).
    change (ring_edges (a :: b :: c :: vs)) with ((a, b) :: ring_edges (b :: c :: vs)). right. exact Hd.
Qed.
Lemma line_ends_in l e : In e (line_ends l) -> exists s, In s (line_segs l) /\ (e = fst s \/ e = snd s).
Proof.
  unfold line_ends, line_segs. destruct (pts_closed (line_pts l)) eqn:C; [intros []|].
  destruct (line_pts l) as [|a vs]; [intros []|].
  destruct vs as [|b vs].
  - unfold pts_closed in C. simpl in C. assert (pt_eqb a a = true) by (apply pt_eqb_iff; reflexivity). congruence.
  - intros [<-|[<-|[]]].
    + exists (a, b). split; [apply ring_edges_first | auto].
    + destruct (ring_edges_last a (b :: vs)) as [c Hc]; [discriminate|]. exists (c, last (b :: vs) a). split; auto.
Qed.

Section SameCell.
  Variables (L : list seg) (P : list pt) (g : geom) (p w : pt).
  Hypothesis Hcov : covers_geom L P g.
  Hypothesis Hclosed : rings_closed g.
  Hypothesis Hsame : same_cell L (vertex_set L P) p w.

  Lemma sc_on_edges es : incl es L -> on_edges es p = on_edges es w.
  Proof. intros H. unfold on_edges. apply existsb_ext_in'. intros e He. apply Hsame. auto. Qed.
  Lemma sc_vparity es : incl es L -> vparity es p = vparity es w.
  Proof. intros H. unfold vparity. apply fold_xor_ext. intros e He. apply Hsame. auto. Qed.

  Lemma sc_ring y r : In y (g_polys g) -> In r (poly_rings y) ->
    on_edges (line_segs r) p = on_edges (line_segs r) w /\
    (on_edges (line_segs r) p = false -> edges_parity (line_segs r) p = edges_parity (line_segs r) w).
  Proof.
    intros Hy Hr.
    assert (I : incl (line_segs r) L).
    { intros e He. apply Hcov. eapply in_arr_ring; eauto. }
    split; [apply sc_on_edges; exact I|]. intros Hp.
    pose proof Hp as Hw. rewrite (sc_on_edges _ I) in Hw.
    unfold line_segs in *. rewrite (closed_ring_parity _ p (Hclosed y Hy r Hr) Hp).
    rewrite (closed_ring_parity _ w (Hclosed y Hy r Hr) Hw). apply sc_vparity. exact I.
  Qed.
  Lemma sc_strict_in y r : In y (g_polys g) -> In r (poly_rings y) ->
    ring_strict_in (line_segs r) p = ring_strict_in (line_segs r) w /\
    ring_strict_out (line_segs r) p = ring_strict_out (line_segs r) w.
  Proof.
    intros Hy Hr. destruct (sc_ring y r Hy Hr) as [E1 E2]. unfold ring_strict_in, ring_strict_out.
    rewrite <- E1. destruct (on_edges (line_segs r) p); [split; reflexivity|]. rewrite E2 by reflexivity. split; reflexivity.
  Qed.

  Lemma sc_poly y : In y (g_polys g) ->
    rings_interior (poly_ring_segs y) p = rings_interior (poly_ring_segs y) w /\
    rings_boundary (poly_ring_segs y) p = rings_boundary (poly_ring_segs y) w.
  Proof.
    intros Hy. unfold poly_ring_segs. split.
    - assert (K : forall rs, incl rs (poly_rings y) ->
                  forallb (fun h => ring_strict_out h p) (map line_segs rs) = forallb (fun h => ring_strict_out h w) (map line_segs rs)).
      { induction rs as [|r rs IH]; intros I; simpl; auto.
        rewrite (proj2 (sc_strict_in y r Hy (I r (or_introl eq_refl)))). rewrite IH; auto.
        intros x Hx. apply I. right. exact Hx. }
      assert (S : forall r, In r (poly_rings y) -> ring_strict_in (line_segs r) p = ring_strict_in (line_segs r) w).
      { intros r Hr. apply (sc_strict_in y r Hy Hr). }
      specialize (K (tl (poly_rings y))).
      destruct (poly_rings y) as [|sh holes]; [reflexivity|]. cbn [map rings_interior tl] in *.
      rewrite (S sh) by (left; reflexivity). rewrite K; [reflexivity|]. intros x Hx. right. exact Hx.
    - unfold rings_boundary. rewrite !existsb_map. apply existsb_ext_in'. intros r Hr.
      apply (sc_ring y r Hy Hr).
  Qed.

  Lemma sc_vertex v : In v (vertex_set L P) -> pt_eqb p v = pt_eqb w v.
  Proof. apply Hsame. Qed.

  Theorem locate_same_cell : locate g p = locate g w.
  Proof.
    unfold locate, locate_p, prep; cbn [pg_polys pg_lines pg_ends pg_points]. rewrite !existsb_map.
    rewrite (existsb_ext_in' (fun y => rings_interior (poly_ring_segs y) p) (fun y => rings_interior (poly_ring_segs y) w))
      by (intros y Hy; apply sc_poly; exact Hy).
    rewrite (existsb_ext_in' (fun y => rings_boundary (poly_ring_segs y) p) (fun y => rings_boundary (poly_ring_segs y) w))
      by (intros y Hy; apply sc_poly; exact Hy).
    rewrite (existsb_ext_in' (fun l => on_edges (line_segs l) p) (fun l => on_edges (line_segs l) w)).
    2:{ intros l Hl. apply sc_on_edges. intros e He. apply Hcov. eapply in_arr_line; eauto. }
    assert (Eo : odd_ends (flat_map line_ends (g_lines g)) p = odd_ends (flat_map line_ends (g_lines g)) w).
    { unfold odd_ends. apply fold_xor_ext. intros e He. apply sc_vertex.
      apply in_flat_map in He. destruct He as [l [Hl He]]. destruct (line_ends_in l e He) as [s [Hs Hes]].
      unfold vertex_set. apply in_or_app. left. apply in_flat_map. exists s. split.
      - apply Hcov. eapply in_arr_line; eauto.
      - unfold seg_ends. simpl. destruct Hes as [->| ->]; auto. }
    rewrite Eo.
    rewrite (existsb_ext_in' (pt_eqb p) (pt_eqb w)); [reflexivity|].
    intros v Hv. apply sc_vertex. unfold vertex_set. apply in_or_app. right. apply in_or_app. right.
    apply Hcov. exact Hv.
  Qed.
End SameCell.


(* ---------------- qinsert / qsort *)
Lemma qinsert_in x l y : In y (qinsert x l) -> y = x \/ In y l.
Proof.
  induction l as [|z l IH]; simpl; [intuition|].
  destruct (x ?= z); simpl; intuition.
Qed.
Lemma qinsert_keeps x l y : In y l -> In y (qinsert x l).
Proof.
  induction l as [|z l IH]; simpl; [tauto|].
  destruct (x ?= z); simpl; intuition.
Qed.
Lemma qinsert_has x l : exists y, In y (qinsert x l) /\ y == x.
Proof.
  induction l as [|z l IH]; simpl.
  - exists x. split; [auto | reflexivity].
  - destruct (x ?= z) eqn:E.
    + apply Qeq_alt in E. exists z. split; [left; reflexivity | symmetry; exact E].
    + exists x. split; [left; reflexivity | reflexivity].
    + destruct IH as [y [Hy Ey]]. exists y. split; [right; exact Hy | exact Ey].
Qed.

(* strictly increasing *)
Inductive qsorted : list Q -> Prop :=
| qs_nil : qsorted []
| qs_one : forall x, qsorted [x]
| qs_cons : forall x y l, x < y -> qsorted (y :: l) -> qsorted (x :: y :: l).

Lemma qinsert_sorted x l : qsorted l -> qsorted (qinsert x l).
Proof.
  induction 1 as [|z|z y l Hzy Hs IH]; simpl.
  - constructor.
  - destruct (x ?= z) eqn:E.
    + constructor.
    + apply Qlt_alt in E. constructor; [exact E | constructor].
    + apply Qgt_alt in E. constructor; [exact E | constructor].
  - destruct (x ?= z) eqn:E.
    + constructor; assumption.
    + apply Qlt_alt in E. constructor; [exact E|]. constructor; assumption.
    + apply Qgt_alt in E. simpl in IH. destruct (x ?= y) eqn:E2.
      * constructor; assumption.
      * apply Qlt_alt in E2. constructor; [exact E|]. exact IH.
      * constructor; [exact Hzy | exact IH].
Qed.
Lemma qsort_sorted l : qsorted (qsort l).
Proof. induction l; simpl; [constructor | apply qinsert_sorted; assumption]. Qed.
Lemma qsort_in l y : In y (qsort l) -> In y l.
Proof.
  induction l as [|x l IH]; simpl; [tauto|]. intros H. apply qinsert_in in H. destruct H; auto.
Qed.
Lemma qsort_has l x : In x l -> exists y, In y (qsort l) /\ y == x.
Proof.
  induction l as [|z l IH]; simpl; [tauto|]. intros [->|H].
  - apply qinsert_has.
  - destruct (IH H) as [y [Hy Ey]]. exists y. split; [apply qinsert_keeps; exact Hy | exact Ey].
Qed.

(* ---------------- consecutive pairs of a list *)
Fixpoint consec (l : list Q) : list (Q * Q) :=
  match l with
  | x :: ((y :: _) as r) => (x, y) :: consec r
  | _ => []
  end.

Lemma qsorted_tail x l : qsorted (x :: l) -> qsorted l.
Proof. inversion 1; subst; [constructor | assumption]. Qed.
Lemma qsorted_head_lt x l y : qsorted (x :: l) -> In y l -> x < y.
Proof.
  revert x. induction l as [|z l IH]; intros x H Hy; [destruct Hy|].
  inversion H; subst. destruct Hy as [<-|Hy]; [assumption|].
  apply Qlt_trans with z; [assumption|]. apply IH; assumption.
Qed.
Lemma qsorted_last_ge x l y : qsorted (x :: l) -> In y (x :: l) -> y <= last l x.
Proof.
  revert x y. induction l as [|z l IH]; intros x y H Hy.
  - destruct Hy as [<-|[]]. simpl. lra.
  - change (last (z :: l) x) with (last (z :: l) x). 
    assert (E : last (z :: l) x = last l z).
    { clear. revert z x. induction l as [|c l IH]; intros; [reflexivity|].
      change (last (z :: c :: l) x) with (last (c :: l) x). rewrite (IH c x), (IH c z). reflexivity. }
    rewrite E. inversion H; subst. destruct Hy as [<-|Hy].
    + apply Qle_trans with z; [lra|]. apply (IH z z); [assumption | left; reflexivity].
    + apply (IH z y); assumption.
Qed.

(* where a value sits relative to a non-empty strictly increasing list *)
Lemma qsorted_position x l t : qsorted (x :: l) ->
  t < x \/ last l x < t \/ (exists y, In y (x :: l) /\ t == y) \/
  (exists y1 y2, In (y1, y2) (consec (x :: l)) /\ y1 < t < y2).
Proof.
  revert x. induction l as [|z l IH]; intros x H.
  - simpl. destruct (Q_dec t x) as [[H1|H1]|H1]; [auto | auto |].
    right. right. left. exists x. split; [left; reflexivity | exact H1].
  - inversion H; subst.
    assert (E : last (z :: l) x = last l z).
    { clear. revert z x. induction l as [|c l IH]; intros; [reflexivity|].
      change (last (z :: c :: l) x) with (last (c :: l) x). rewrite (IH c x), (IH c z). reflexivity. }
    rewrite E.
    destruct (Q_dec t x) as [[H1|H1]|H1]; [auto | |].
    + destruct (IH z H4) as [K|[K|[[y [Hy Ey]]|[y1 [y2 [Hy Hb]]]]]].
      * right. right. right. exists x, z. split; [left; reflexivity | split; assumption].
      * auto.
      * right. right. left. exists y. split; [right; exact Hy | exact Ey].
      * right. right. right. exists y1, y2. split; [right; exact Hy | exact Hb].
    + right. right. left. exists x. split; [left; reflexivity | exact H1].
Qed.

(* no element of the list lies strictly inside a consecutive pair *)
Lemma consec_gap l y1 y2 y : qsorted l -> In (y1, y2) (consec l) -> In y l -> y <= y1 \/ y2 <= y.
Proof.
  induction l as [|x l IH]; intros H Hc Hy; [destruct Hc|].
  destruct l as [|z l]; [destruct Hc|].
  simpl in Hc. destruct Hc as [Hc|Hc].
  - injection Hc as <- <-. destruct Hy as [<-|[<-|Hy]].
    + left. lra.
    + right. lra.
    + right. apply Qlt_le_weak. apply (qsorted_head_lt z l y); [apply qsorted_tail in H; exact H | exact Hy].
  - destruct Hy as [<-|Hy].
    + left. apply Qlt_le_weak.
      assert (In y1 (z :: l)).
      { clear -Hc. revert z Hc. induction l as [|c l IH]; intros z Hc; [destruct Hc|].
        simpl in Hc. destruct Hc as [Hc|Hc]; [injection Hc as <- <-; left; reflexivity | right; apply (IH c Hc)]. }
      apply (qsorted_head_lt x (z :: l) y1 H H0).
    + apply IH; [apply qsorted_tail in H; exact H | exact Hc | exact Hy].
Qed.
Lemma consec_lt l y1 y2 : qsorted l -> In (y1, y2) (consec l) -> y1 < y2.
Proof.
  induction l as [|x l IH]; intros H Hc; [destruct Hc|].
  destruct l as [|z l]; [destruct Hc|]. simpl in Hc. destruct Hc as [Hc|Hc].
  - injection Hc as <- <-. inversion H; assumption.
  - apply IH; [apply qsorted_tail in H; exact H | exact Hc].
Qed.
Lemma consec_in l y1 y2 : In (y1, y2) (consec l) -> In y1 l /\ In y2 l.
Proof.
  induction l as [|x l IH]; intros Hc; [destruct Hc|].
  destruct l as [|z l]; [destruct Hc|]. simpl in Hc. destruct Hc as [Hc|Hc].
  - injection Hc as <- <-. split; [left; reflexivity | right; left; reflexivity].
  - destruct (IH Hc). split; right; assumption.
Qed.

(* ---------------- where the witnesses are *)
Lemma gaps_between_in x ys mid y1 y2 :
  In (y1, y2) (consec ys) -> In ((x, qmid y1 y2), mid y1 y2) (gaps_between x ys mid).
Proof.
  induction ys as [|a ys IH]; intros H; [destruct H|].
  destruct ys as [|b ys]; [destruct H|]. simpl in H. destruct H as [H|H].
  - injection H as <- <-. simpl. left. reflexivity.
  - change (gaps_between x (a :: b :: ys) mid) with (((x, qmid a b), mid a b) :: gaps_between x (b :: ys) mid).
    right. apply IH. exact H.
Qed.
Lemma slabs_between_in L xs x0 x1 w :
  In (x0, x1) (consec xs) -> In w (slab_witnesses L x0 x1) -> In w (slabs_between L xs).
Proof.
  induction xs as [|a xs IH]; intros H Hw; [destruct H|].
  destruct xs as [|b xs]; [destruct H|]. simpl in H.
  change (slabs_between L (a :: b :: xs)) with (slab_witnesses L a b ++ slabs_between L (b :: xs)).
  apply in_or_app. destruct H as [H|H].
  - injection H as <- <-. left. exact Hw.
  - right. apply IH; assumption.
Qed.
Lemma column_below x y1 ys at_y mid : In ((x, Qred (y1 - 1)), D2) (column x (y1 :: ys) at_y mid).
Proof. unfold column. left. reflexivity. Qed.
Lemma column_above x y1 ys at_y mid : In ((x, Qred (last (y1 :: ys) y1 + 1)), D2) (column x (y1 :: ys) at_y mid).
Proof. unfold column. right. left. reflexivity. Qed.
Lemma column_at x ys at_y mid y : In y ys -> In ((x, y), at_y y) (column x ys at_y mid).
Proof.
  intros H. unfold column. destruct ys as [|y1 r]; [destruct H|].
  right. right. apply in_or_app. left. apply (in_map (fun y => ((x, y), at_y y))). exact H.
Qed.
Lemma column_gap x ys at_y mid y1 y2 :
  In (y1, y2) (consec ys) -> In ((x, qmid y1 y2), mid y1 y2) (column x ys at_y mid).
Proof.
  intros H. unfold column. destruct ys as [|a r]; [destruct H|].
  right. right. apply in_or_app. right. apply gaps_between_in. exact H.
Qed.


(* height of the supporting line of s at abscissa x (seg_y_at without normalisation) *)
Definition y_at (s : seg) (x : Q) : Q :=
  snd (fst s) + (x - fst (fst s)) * (snd (snd s) - snd (fst s)) / (fst (snd s) - fst (fst s)).
Definition nonvertical (s : seg) : Prop := ~ fst (fst s) == fst (snd s).

Lemma seg_y_at_eq s x : seg_y_at s x == y_at s x.
Proof. destruct s as [a b]. unfold seg_y_at, y_at; cbn [fst snd]. apply Qred_correct. Qed.
Global Instance y_at_proper s : Proper (Qeq ==> Qeq) (y_at s).
Proof. intros x x' E. unfold y_at. rewrite E. reflexivity. Qed.
Lemma seg_vertical_false s : seg_vertical s = false <-> nonvertical s.
Proof. unfold seg_vertical, nonvertical. apply Qeq_bool_false_iff. Qed.
Lemma seg_vertical_true s : seg_vertical s = true <-> fst (fst s) == fst (snd s).
Proof. unfold seg_vertical. apply Qeq_bool_iff. Qed.

(* cross product against the height *)
Lemma cross_y_at a b p : nonvertical (a, b) ->
  cross a b p == (fst b - fst a) * (snd p - y_at (a, b) (fst p)).
Proof.
  unfold nonvertical, cross, y_at; cbn [fst snd]. intros H. field. intros K. apply H. lra.
Qed.

(* affine in x *)
Lemma y_at_affine s x x' lam : nonvertical s ->
  y_at s ((1 - lam) * x + lam * x') == (1 - lam) * y_at s x + lam * y_at s x'.
Proof.
  destruct s as [a b]. unfold nonvertical, y_at; cbn [fst snd]. intros H. field. intros K. apply H. lra.
Qed.
Lemma y_at_ends a b : nonvertical (a, b) -> y_at (a, b) (fst a) == snd a /\ y_at (a, b) (fst b) == snd b.
Proof.
  unfold nonvertical, y_at; cbn [fst snd]. intros H. split; field; intros K; apply H; lra.
Qed.

(* membership in a non-vertical segment: abscissa in range and ordinate = height *)
Lemma on_seg_y_at a b p : nonvertical (a, b) ->
  on_seg (a, b) p = qbetween (fst a) (fst b) (fst p) && Qeq_bool (snd p) (y_at (a, b) (fst p)).
Proof.
  intros NV. apply eq_true_iff_eq. rewrite andb_true_iff, Qeq_bool_iff, qbetween_iff.
  pose proof (cross_y_at a b p NV) as C. unfold nonvertical in NV; cbn [fst snd] in NV.
  split.
  - intros H. unfold on_seg in H. rewrite !andb_true_iff, Qeq_bool_iff, !qbetween_iff in H.
    destruct H as [[Hx Hy] Hc]. split; [exact Hx|]. rewrite C in Hc.
    apply Qmult_integral in Hc. destruct Hc as [Hc|Hc]; [exfalso; apply NV; lra | lra].
  - intros [Hx Hy]. apply on_seg_iff.
    exists ((fst p - fst a) / (fst b - fst a)).
    assert (Hd : ~ fst b - fst a == 0) by (intros K; apply NV; lra).
    assert (Ht : (fst p - fst a) / (fst b - fst a) * (fst b - fst a) == fst p - fst a) by (field; exact Hd).
    set (t := (fst p - fst a) / (fst b - fst a)) in *.
    unfold seg_param. split; [|split].
    + destruct (Qlt_le_dec (fst a) (fst b)); split; nra.
    + lra.
    + rewrite Hy. unfold y_at; cbn [fst snd]. unfold t. field. exact Hd.
Qed.

(* the vertical-ray crossing against the height *)
Lemma vcross_y_at a b p : nonvertical (a, b) ->
  vcross a b p = negb (Bool.eqb (Qle_bool (fst a) (fst p)) (Qle_bool (fst b) (fst p)))
                 && qltb (snd p) (y_at (a, b) (fst p)).
Proof.
  intros NV. pose proof (cross_y_at a b p NV) as C.
  assert (C' : cross b a p == - cross a b p) by (unfold cross; ring).
  unfold vcross. unfold nonvertical in NV; cbn [fst snd] in NV.
  destruct (Qle_bool (fst a) (fst p)) eqn:Xa; destruct (Qle_bool (fst b) (fst p)) eqn:Xb; cbn [Bool.eqb negb andb]; try reflexivity.
  - apply Qle_bool_iff in Xa. apply Qle_bool_false_iff in Xb.
    apply eq_true_iff_eq. rewrite !qltb_iff. rewrite C. split; intros H; nra.
  - apply Qle_bool_iff in Xb. apply Qle_bool_false_iff in Xa.
    apply eq_true_iff_eq. rewrite !qltb_iff. rewrite C', C. split; intros H; nra.
Qed.
Lemma vcross_vertical a b p : fst a == fst b -> vcross a b p = false.
Proof. intros E. unfold vcross. rewrite E. rewrite eqb_reflx. reflexivity. Qed.
Lemma on_seg_vertical a b p : fst a == fst b ->
  on_seg (a, b) p = Qeq_bool (fst p) (fst a) && qbetween (snd a) (snd b) (snd p).
Proof.
  intros E. apply eq_true_iff_eq. unfold on_seg. rewrite !andb_true_iff, !Qeq_bool_iff, !qbetween_iff.
  unfold cross. split.
  - intros [[Hx Hy] _]. split; [lra | exact Hy].
  - intros [Hx Hy]. split; [split; [left; lra | exact Hy]|]. rewrite Hx, E. ring.
Qed.


(* every pair of segments of L has its intersection points among the vertices *)
Lemma pair_points_complete L s t :
  In s L -> In t L ->
  s = t \/ incl (ssr_points (seg_seg s t)) (pair_points L) \/ incl (ssr_points (seg_seg t s)) (pair_points L).
Proof.
  induction L as [|h r IH]; intros Hs Ht; [destruct Hs|].
  simpl. destruct Hs as [<-|Hs]; destruct Ht as [<-|Ht].
  - left. reflexivity.
  - right. left. intros q Hq. apply in_or_app. left. apply in_flat_map. exists t. auto.
  - right. right. intros q Hq. apply in_or_app. left. apply in_flat_map. exists s. auto.
  - destruct (IH Hs Ht) as [E|[I|I]]; [auto | right; left | right; right];
      intros q Hq; apply in_or_app; right; apply I; exact Hq.
Qed.

Lemma affine_two_zeros e f z1 z2 : nonvertical e -> nonvertical f ->
  y_at e z1 == y_at f z1 -> y_at e z2 == y_at f z2 -> ~ z1 == z2 -> forall u, y_at e u == y_at f u.
Proof.
  intros Ne Nf H1 H2 Hz u.
  assert (Hd : ~ z2 - z1 == 0) by (intros K; apply Hz; lra).
  assert (Eu : u == (1 - (u - z1) / (z2 - z1)) * z1 + (u - z1) / (z2 - z1) * z2) by (field; exact Hd).
  rewrite Eu. rewrite (y_at_affine e), (y_at_affine f) by assumption. rewrite H1, H2. reflexivity.
Qed.

Section Slab.
  Variables (L : list seg) (P : list pt).
  Let V := vertex_set L P.
  Let xs := events V.
  Variables x0 x1 : Q.
  Hypothesis Hcons : In (x0, x1) (consec xs).

  Lemma slab_lt : x0 < x1.
  Proof. apply (consec_lt xs); [apply qsort_sorted | exact Hcons]. Qed.

  (* no vertex has its abscissa strictly inside the slab *)
  Lemma slab_no_vertex v : In v V -> fst v <= x0 \/ x1 <= fst v.
  Proof.
    intros Hv. destruct (qsort_has (map fst V) (fst v) (in_map fst V v Hv)) as [x [Hx Ex]].
    destruct (consec_gap xs x0 x1 x (qsort_sorted _) Hcons Hx) as [H|H]; [left | right]; lra.
  Qed.
  Lemma seg_end_vertex e : In e L -> In (fst e) V /\ In (snd e) V.
  Proof.
    intros He. unfold V, vertex_set. split; apply in_or_app; left; apply in_flat_map; exists e;
      (split; [exact He | unfold seg_ends; simpl; auto]).
  Qed.

  (* e is non-vertical and its x-range contains the closed slab *)
  Definition spans (e : seg) : Prop :=
    nonvertical e /\ ((fst (fst e) <= x0 /\ x1 <= fst (snd e)) \/ (fst (snd e) <= x0 /\ x1 <= fst (fst e))).

  (* for abscissae inside the slab the tests used by the construction do not depend on the abscissa *)
  Lemma end_side e t : In e L -> x0 < t < x1 ->
    (Qle_bool (fst (fst e)) t = Qle_bool (fst (fst e)) x0) /\ (Qle_bool (fst (snd e)) t = Qle_bool (fst (snd e)) x0).
  Proof.
    intros He Ht. destruct (seg_end_vertex e He) as [Ha Hb].
    split; apply eq_true_iff_eq; rewrite !Qle_bool_iff.
    - destruct (slab_no_vertex _ Ha); split; intros; lra.
    - destruct (slab_no_vertex _ Hb); split; intros; lra.
  Qed.
  Lemma spans_iff e t : In e L -> x0 < t < x1 -> nonvertical e ->
    ((fst (fst e) < t /\ t < fst (snd e)) \/ (fst (snd e) < t /\ t < fst (fst e))) <-> spans e.
  Proof.
    intros He Ht NV. destruct (seg_end_vertex e He) as [Ha Hb]. unfold spans.
    destruct (slab_no_vertex _ Ha); destruct (slab_no_vertex _ Hb); split; intros K;
      try (split; [exact NV|]); try lra; destruct K as [_ K]; lra.
  Qed.
  Lemma spans_between e t : spans e -> x0 < t < x1 -> qbetween (fst (fst e)) (fst (snd e)) t = true.
  Proof. intros [_ H] Ht. apply qbetween_iff. pose proof slab_lt. lra. Qed.

  (* a common point of two spanning segments of L strictly inside the slab forces identical lines *)
  Lemma zero_in_slab e f u : In e L -> In f L -> spans e -> spans f -> x0 < u < x1 ->
    y_at e u == y_at f u -> forall u', y_at e u' == y_at f u'.
  Proof.
    intros He Hf Se Sf Hu Hz.
    destruct e as [a b], f as [c d].
    set (q := (u, y_at (a, b) u)).
    assert (Oe : on_seg (a, b) q = true).
    { rewrite on_seg_y_at by apply Se. unfold q; cbn [fst snd]. pose proof (spans_between _ u Se Hu) as B1; cbn [fst snd] in B1; rewrite B1.
      apply Qeq_bool_iff. reflexivity. }
    assert (Of : on_seg (c, d) q = true).
    { rewrite on_seg_y_at by apply Sf. unfold q; cbn [fst snd]. pose proof (spans_between _ u Sf Hu) as B2; cbn [fst snd] in B2; rewrite B2.
      apply Qeq_bool_iff. exact Hz. }
    destruct (pair_points_complete L _ _ He Hf) as [E|I].
    - injection E as <- <-. reflexivity.
    - assert (K : exists r, In r V /\ on_seg (a, b) r = true /\ on_seg (c, d) r = true).
      { destruct I as [I|I].
        - pose proof (seg_seg_complete _ _ q Oe Of) as NE.
          destruct (seg_seg (a, b) (c, d)) eqn:Es; [congruence| |];
            (exists p; split; [unfold V, vertex_set; apply in_or_app; right; apply in_or_app; left; apply I; simpl; auto|];
             apply (seg_seg_sound (a, b) (c, d)); rewrite Es; simpl; auto).
        - pose proof (seg_seg_complete _ _ q Of Oe) as NE.
          destruct (seg_seg (c, d) (a, b)) eqn:Es; [congruence| |];
            (exists p; split; [unfold V, vertex_set; apply in_or_app; right; apply in_or_app; left; apply I; simpl; auto|];
             apply and_comm; apply (seg_seg_sound (c, d) (a, b)); rewrite Es; simpl; auto). }
      destruct K as [r [Hr [Re Rf]]].
      rewrite on_seg_y_at in Re by apply Se. rewrite on_seg_y_at in Rf by apply Sf.
      apply andb_true_iff in Re, Rf. destruct Re as [_ Re], Rf as [_ Rf]. apply Qeq_bool_iff in Re, Rf.
      apply (affine_two_zeros (a, b) (c, d) (fst r) u); [apply Se | apply Sf | lra | exact Hz |].
      destruct (slab_no_vertex r Hr); lra.
  Qed.

  (* the vertical order of two spanning segments is the same at all abscissae of the open slab *)
  Lemma order_lt e f t t' : In e L -> In f L -> spans e -> spans f -> x0 < t < x1 -> x0 < t' < x1 ->
    y_at e t < y_at f t -> y_at e t' < y_at f t'.
  Proof.
    intros He Hf Se Sf Ht Ht' H.
    destruct (Qlt_le_dec (y_at e t') (y_at f t')) as [K|K]; [exact K | exfalso].
    set (dt := y_at e t - y_at f t). set (dt' := y_at e t' - y_at f t').
    assert (Hdt : dt < 0) by (unfold dt; lra). assert (Hdt' : 0 <= dt') by (unfold dt'; lra).
    assert (Hden : ~ dt - dt' == 0) by lra.
    set (lam := dt / (dt - dt')).
    assert (El : lam * (dt - dt') == dt) by (unfold lam; field; exact Hden).
    assert (Hl : 0 < lam <= 1) by (split; nra).
    set (u := (1 - lam) * t + lam * t').
    assert (Hu : x0 < u < x1) by (unfold u; split; nra).
    assert (Hz : y_at e u == y_at f u).
    { unfold u. rewrite (y_at_affine e), (y_at_affine f) by (apply Se || apply Sf).
      fold dt in El. unfold dt, dt' in El. nra. }
    pose proof (zero_in_slab e f u He Hf Se Sf Hu Hz t) as Z. lra.
  Qed.
  Lemma order_eq e f t t' : In e L -> In f L -> spans e -> spans f -> x0 < t < x1 -> x0 < t' < x1 ->
    y_at e t == y_at f t -> y_at e t' == y_at f t'.
  Proof. intros He Hf Se Sf Ht Ht' H. apply (zero_in_slab e f t He Hf Se Sf Ht H). Qed.
  Lemma order_compare e f t t' : In e L -> In f L -> spans e -> spans f -> x0 < t < x1 -> x0 < t' < x1 ->
    (y_at e t ?= y_at f t) = (y_at e t' ?= y_at f t').
  Proof.
    intros He Hf Se Sf Ht Ht'.
    destruct (y_at e t ?= y_at f t) eqn:E; symmetry.
    - apply Qeq_alt in E. apply Qeq_alt. apply (order_eq e f t t'); auto.
    - apply Qlt_alt in E. apply Qlt_alt. apply (order_lt e f t t'); auto.
    - apply Qgt_alt in E. apply Qgt_alt. apply (order_lt f e t t'); auto.
  Qed.
End Slab.


Lemma Qeq_bool_compare a b : Qeq_bool a b = match a ?= b with Eq => true | _ => false end.
Proof.
  destruct (a ?= b) eqn:E.
  - apply Qeq_alt in E. apply Qeq_bool_iff. exact E.
  - apply Qlt_alt in E. apply Qeq_bool_false_iff. lra.
  - apply Qgt_alt in E. apply Qeq_bool_false_iff. lra.
Qed.
Lemma qltb_compare a b : qltb a b = match a ?= b with Lt => true | _ => false end.
Proof.
  destruct (a ?= b) eqn:E.
  - apply Qeq_alt in E. apply qltb_false_iff. lra.
  - apply Qlt_alt in E. apply qltb_iff. exact E.
  - apply Qgt_alt in E. apply qltb_false_iff. lra.
Qed.
Lemma Qle_bool_compare a b : Qle_bool a b = match a ?= b with Gt => false | _ => true end.
Proof.
  destruct (a ?= b) eqn:E.
  - apply Qeq_alt in E. apply Qle_bool_iff. lra.
  - apply Qlt_alt in E. apply Qle_bool_iff. lra.
  - apply Qgt_alt in E. apply Qle_bool_false_iff. exact E.
Qed.
Lemma Qle_bool_compare_r a b : Qle_bool b a = match a ?= b with Lt => false | _ => true end.
Proof.
  destruct (a ?= b) eqn:E.
  - apply Qeq_alt in E. apply Qle_bool_iff. lra.
  - apply Qlt_alt in E. apply Qle_bool_false_iff. exact E.
  - apply Qgt_alt in E. apply Qle_bool_iff. lra.
Qed.
Lemma qbetween_compare a b y y' : (y ?= a) = (y' ?= a) -> (y ?= b) = (y' ?= b) -> qbetween a b y = qbetween a b y'.
Proof.
  intros Ha Hb. unfold qbetween. rewrite (Qle_bool_compare_r y a), (Qle_bool_compare_r y' a),
    (Qle_bool_compare y b), (Qle_bool_compare y' b), (Qle_bool_compare_r y b), (Qle_bool_compare_r y' b),
    (Qle_bool_compare y a), (Qle_bool_compare y' a). rewrite Ha, Hb. reflexivity.
Qed.
Global Instance qltb_proper : Proper (Qeq ==> Qeq ==> eq) qltb.
Proof. intros a a' Ea b b' Eb. unfold qltb. rewrite Ea, Eb. reflexivity. Qed.
Global Instance Qcompare_proper : Proper (Qeq ==> Qeq ==> eq) Qcompare.
Proof. intros a a' Ea b b' Eb. rewrite Ea, Eb. reflexivity. Qed.

Section SlabCell.
  Variables (L : list seg) (P : list pt).
  Let V := vertex_set L P.
  Let xs := events V.
  Variables x0 x1 : Q.
  Hypothesis Hcons : In (x0, x1) (consec xs).

  (* two points of the open slab that compare alike with every spanning segment are in the same cell *)
  Lemma slab_same_cell p w :
    x0 < fst p < x1 -> x0 < fst w < x1 ->
    (forall e, In e L -> spans x0 x1 e -> (snd p ?= y_at e (fst p)) = (snd w ?= y_at e (fst w))) ->
    same_cell L V p w.
  Proof.
    intros Hp Hw Hc. split.
    - intros [a b] He. destruct (seg_end_vertex L P _ He) as [Ha Hb]. cbn [fst snd] in Ha, Hb.
      pose proof (slab_no_vertex L P x0 x1 Hcons _ Ha) as Sa. pose proof (slab_no_vertex L P x0 x1 Hcons _ Hb) as Sb.
      cbn [fst snd].
      destruct (seg_vertical (a, b)) eqn:Ev.
      + apply seg_vertical_true in Ev. cbn [fst snd] in Ev.
        rewrite !(on_seg_vertical a b) by exact Ev. rewrite !(vcross_vertical a b) by exact Ev. split; [|reflexivity].
        assert (E1 : Qeq_bool (fst p) (fst a) = false) by (apply Qeq_bool_false_iff; lra).
        assert (E2 : Qeq_bool (fst w) (fst a) = false) by (apply Qeq_bool_false_iff; lra).
        rewrite E1, E2. reflexivity.
      + apply seg_vertical_false in Ev.
        rewrite !(on_seg_y_at a b) by exact Ev. rewrite !(vcross_y_at a b) by exact Ev.
        destruct (end_side L P x0 x1 Hcons (a, b) (fst p) He Hp) as [Pa Pb].
        destruct (end_side L P x0 x1 Hcons (a, b) (fst w) He Hw) as [Wa Wb]. cbn [fst snd] in Pa, Pb, Wa, Wb.
        rewrite Pa, Pb, Wa, Wb.
        assert (Dec : spans x0 x1 (a, b) \/ (qbetween (fst a) (fst b) (fst p) = false /\ qbetween (fst a) (fst b) (fst w) = false /\
                       Qle_bool (fst a) x0 = Qle_bool (fst b) x0)).
        { unfold spans; cbn [fst snd]. pose proof (slab_lt L P x0 x1 Hcons).
          destruct Sa as [Sa|Sa]; destruct Sb as [Sb|Sb].
          - right. split; [|split].
            + destruct (qbetween (fst a) (fst b) (fst p)) eqn:B; [apply qbetween_iff in B; lra | reflexivity].
            + destruct (qbetween (fst a) (fst b) (fst w)) eqn:B; [apply qbetween_iff in B; lra | reflexivity].
            + apply eq_true_iff_eq. rewrite !Qle_bool_iff. tauto.
          - left. split; [exact Ev | left; split; assumption].
          - left. split; [exact Ev | right; split; assumption].
          - right. split; [|split].
            + destruct (qbetween (fst a) (fst b) (fst p)) eqn:B; [apply qbetween_iff in B; lra | reflexivity].
            + destruct (qbetween (fst a) (fst b) (fst w)) eqn:B; [apply qbetween_iff in B; lra | reflexivity].
            + apply eq_true_iff_eq. rewrite !Qle_bool_iff. split; intros; lra. }
        destruct Dec as [Sp | [B1 [B2 B3]]].
        * pose proof (spans_between L P x0 x1 Hcons _ (fst p) Sp Hp) as B1.
          pose proof (spans_between L P x0 x1 Hcons _ (fst w) Sp Hw) as B2. cbn [fst snd] in B1, B2.
          rewrite B1, B2. rewrite !Qeq_bool_compare, !qltb_compare. rewrite (Hc (a, b) He Sp). split; reflexivity.
        * rewrite B1, B2, B3. rewrite eqb_reflx. split; reflexivity.
    - intros v Hv. pose proof (slab_no_vertex L P x0 x1 Hcons _ Hv) as Sv. unfold pt_eqb.
      assert (E1 : Qeq_bool (fst p) (fst v) = false) by (apply Qeq_bool_false_iff; lra).
      assert (E2 : Qeq_bool (fst w) (fst v) = false) by (apply Qeq_bool_false_iff; lra).
      rewrite E1, E2. reflexivity.
  Qed.
End SlabCell.

Section EventCell.
  Variables (L : list seg) (P : list pt).
  Let V := vertex_set L P.

  Lemma ordinate_vertex x v : In v V -> fst v == x -> exists y, In y (line_ordinates L V x) /\ y == snd v.
  Proof.
    intros Hv Ex. apply qsort_has. apply in_or_app. left. unfold vertex_ordinates. apply in_flat_map.
    exists v. split; [exact Hv|]. apply Qeq_bool_iff in Ex. rewrite Ex. left. reflexivity.
  Qed.
  Lemma ordinate_crossing x e : In e L -> nonvertical e -> qbetween (fst (fst e)) (fst (snd e)) x = true ->
    exists y, In y (line_ordinates L V x) /\ y == y_at e x.
  Proof.
    intros He NV B. destruct (qsort_has (vertex_ordinates V x ++
         flat_map (fun s => if seg_vertical s then [] else if qbetween (fst (fst s)) (fst (snd s)) x then [seg_y_at s x] else []) L)
         (seg_y_at e x)) as [y [Hy Ey]].
    - apply in_or_app. right. apply in_flat_map. exists e. split; [exact He|].
      apply seg_vertical_false in NV. rewrite NV, B. left. reflexivity.
    - exists y. split; [exact Hy|]. rewrite Ey. apply seg_y_at_eq.
  Qed.

  (* two points of the vertical line x that compare alike with every ordinate of the line are in the same cell *)
  Lemma event_same_cell x p w :
    fst p == x -> fst w == x ->
    (forall y, In y (line_ordinates L V x) -> (snd p ?= y) = (snd w ?= y)) ->
    same_cell L V p w.
  Proof.
    intros Hp Hw Hc.
    assert (Cmp : forall y0, (exists y, In y (line_ordinates L V x) /\ y == y0) -> (snd p ?= y0) = (snd w ?= y0)).
    { intros y0 [y [Hy Ey]]. rewrite <- Ey. apply Hc. exact Hy. }
    split.
    - intros [a b] He. destruct (seg_end_vertex L P _ He) as [Ha Hb]. cbn [fst snd] in *.
      destruct (seg_vertical (a, b)) eqn:Ev.
      + apply seg_vertical_true in Ev. cbn [fst snd] in Ev.
        rewrite !(on_seg_vertical a b) by exact Ev. rewrite !(vcross_vertical a b) by exact Ev. split; [|reflexivity].
        rewrite Hp, Hw. destruct (Qeq_bool x (fst a)) eqn:Ex; [|reflexivity]. apply Qeq_bool_iff in Ex. cbn [andb].
        apply qbetween_compare; apply Cmp.
        * apply ordinate_vertex; [exact Ha | lra].
        * apply ordinate_vertex; [exact Hb | lra].
      + apply seg_vertical_false in Ev.
        rewrite !(on_seg_y_at a b) by exact Ev. rewrite !(vcross_y_at a b) by exact Ev.
        rewrite Hp, Hw.
        destruct (qbetween (fst a) (fst b) x) eqn:B.
        * rewrite !Qeq_bool_compare, !qltb_compare.
          rewrite (Cmp (y_at (a, b) x)) by (apply (ordinate_crossing x (a, b)); assumption). split; reflexivity.
        * split; [reflexivity|].
          assert (Eb : Bool.eqb (Qle_bool (fst a) x) (Qle_bool (fst b) x) = true).
          { destruct (Qle_bool (fst a) x) eqn:Xa; destruct (Qle_bool (fst b) x) eqn:Xb; try reflexivity; exfalso;
              rewrite ?Qle_bool_iff, ?Qle_bool_false_iff in *;
              (assert (qbetween (fst a) (fst b) x = true) by (apply qbetween_iff; lra)); congruence. }
          rewrite Eb. reflexivity.
    - intros v Hv. unfold pt_eqb. rewrite Hp, Hw. destruct (Qeq_bool x (fst v)) eqn:Ex; [|reflexivity].
      apply Qeq_bool_iff in Ex. cbn [andb]. rewrite !Qeq_bool_compare.
      rewrite (Cmp (snd v)) by (apply ordinate_vertex; [exact Hv | lra]). reflexivity.
  Qed.
End EventCell.


Lemma qsorted_eq_unique l y y' : qsorted l -> In y l -> In y' l -> y == y' -> y = y'.
Proof.
  induction l as [|x l IH]; intros H Hy Hy' E; [destruct Hy|].
  destruct Hy as [<-|Hy]; destruct Hy' as [<-|Hy'].
  - reflexivity.
  - pose proof (qsorted_head_lt x l y' H Hy'). lra.
  - pose proof (qsorted_head_lt x l y H Hy). lra.
  - apply IH; auto. apply qsorted_tail in H. exact H.
Qed.
Lemma qmid_eq a b : qmid a b == (a + b) / 2.
Proof. unfold qmid. apply Qred_correct. Qed.
Lemma consec_tail x l p : In p (consec l) -> In p (consec (x :: l)).
Proof. destruct l as [|y l]; [intros []|]. intros H. right. exact H. Qed.

Section Oracle.
  Variable c : Q -> comparison.   (* how the point under consideration compares with the height y *)

  (* an oracle is monotone on the list if "not above y" implies "below every larger y'" *)
  Definition mono (ys : list Q) : Prop :=
    forall y y', In y ys -> In y' ys -> y < y' -> (c y = Lt \/ c y = Eq) -> c y' = Lt.

  Lemma mono_tail x l : mono (x :: l) -> mono l.
  Proof. intros M y y' Hy Hy'. apply M; right; assumption. Qed.

  Lemma boundary y1 r : qsorted (y1 :: r) -> mono (y1 :: r) -> c y1 = Gt ->
    (forall y, In y (y1 :: r) -> c y = Gt) \/
    (exists y, In y r /\ forall y', In y' (y1 :: r) -> c y' = (y ?= y')) \/
    (exists ya yb, In (ya, yb) (consec (y1 :: r)) /\ c ya = Gt /\ c yb = Lt).
  Proof.
    revert y1. induction r as [|y2 r IH]; intros y1 S M G.
    - left. intros y [<-|[]]. exact G.
    - assert (L12 : y1 < y2) by (inversion S; assumption).
      destruct (c y2) eqn:C2.
      + right. left. exists y2. split; [left; reflexivity|]. intros y' [<-|[<-|Hy']].
        * rewrite G. symmetry. apply (proj1 (Qgt_alt _ _)). exact L12.
        * rewrite C2. symmetry. apply (proj1 (Qeq_alt _ _)). reflexivity.
        * assert (L : y2 < y') by (apply (qsorted_head_lt y2 r y'); [apply qsorted_tail in S; exact S | exact Hy']).
          rewrite (M y2 y') by (simpl; auto). symmetry. apply (proj1 (Qlt_alt _ _)). exact L.
      + right. right. exists y1, y2. split; [left; reflexivity | auto].
      + destruct (IH y2 (qsorted_tail _ _ S) (mono_tail _ _ M) C2) as [A|[[y [Hy A]]|[ya [yb [Hc A]]]]].
        * left. intros y [<-|Hy]; [exact G | apply A; exact Hy].
        * right. left. exists y. split; [right; exact Hy|]. intros y' [<-|Hy']; [|apply A; exact Hy'].
          rewrite G. symmetry. apply (proj1 (Qgt_alt _ _)).
          assert (y2 < y) by (apply (qsorted_head_lt y2 r y); [apply qsorted_tail in S; exact S | exact Hy]). lra.
        * right. right. exists ya, yb. split; [apply consec_tail; exact Hc | exact A].
  Qed.

  (* some witness of the column compares with every listed height exactly as the oracle says *)
  Lemma column_oracle x ys at_y mid : qsorted ys -> mono ys ->
    exists w d, In (w, d) (column x ys at_y mid) /\ fst w = x /\ forall y, In y ys -> c y = (snd w ?= y).
  Proof.
    intros S M. destruct ys as [|y1 r].
    - exists (x, 0), D2. split; [left; reflexivity|]. split; [reflexivity | intros y []].
    - destruct (c y1) eqn:C1.
      + exists (x, y1), (at_y y1). split; [apply column_at; left; reflexivity|]. split; [reflexivity|].
        intros y [<-|Hy]; cbn [snd].
        * rewrite C1. symmetry. apply (proj1 (Qeq_alt _ _)). reflexivity.
        * assert (L : y1 < y) by (apply (qsorted_head_lt y1 r y); assumption).
          rewrite (M y1 y) by (simpl; auto). symmetry. apply (proj1 (Qlt_alt _ _)). exact L.
      + exists (x, Qred (y1 - 1)), D2. split; [apply column_below|]. split; [reflexivity|].
        intros y Hy; cbn [snd]. rewrite Qred_correct.
        assert (L : y1 <= y).
        { destruct Hy as [<-|Hy]; [lra|]. apply Qlt_le_weak. apply (qsorted_head_lt y1 r y); assumption. }
        assert (Cy : c y = Lt).
        { destruct Hy as [<-|Hy]; [exact C1|]. apply (M y1 y); simpl; auto. apply (qsorted_head_lt y1 r y); assumption. }
        rewrite Cy. symmetry. apply (proj1 (Qlt_alt _ _)). lra.
      + destruct (boundary y1 r S M C1) as [A|[[y0 [Hy0 A]]|[ya [yb [Hc [Ca Cb]]]]]].
        * exists (x, Qred (last (y1 :: r) y1 + 1)), D2. split; [apply column_above|]. split; [reflexivity|].
          intros y Hy; cbn [snd]. rewrite Qred_correct. rewrite (A y Hy). symmetry. apply (proj1 (Qgt_alt _ _)).
          assert (E : last (y1 :: r) y1 = last r y1).
          { destruct r; reflexivity. }
          rewrite E. pose proof (qsorted_last_ge y1 r y S Hy). lra.
        * exists (x, y0), (at_y y0). split; [apply column_at; right; exact Hy0|]. split; [reflexivity|].
          intros y Hy; cbn [snd]. apply A. exact Hy.
        * exists (x, qmid ya yb), (mid ya yb). split; [apply column_gap; exact Hc|]. split; [reflexivity|].
          intros y Hy; cbn [snd]. rewrite qmid_eq.
          assert (Em : 2 * ((ya + yb) / 2) == ya + yb) by field. set (m := (ya + yb) / 2) in *.
          pose proof (consec_lt _ _ _ S Hc) as Lab. destruct (consec_in _ _ _ Hc) as [Ia Ib].
          destruct (consec_gap _ _ _ y S Hc Hy) as [K|K].
          -- assert (Cy : c y = Gt).
             { destruct (Qlt_le_dec y ya) as [K'|K'].
               - destruct (c y) eqn:Cy; [| |reflexivity]; (rewrite (M y ya Hy Ia K') in Ca by auto; discriminate).
               - assert (E : y = ya) by (apply (qsorted_eq_unique _ _ _ S Hy Ia); lra). rewrite E. exact Ca. }
             rewrite Cy. symmetry. apply (proj1 (Qgt_alt _ _)). lra.
          -- assert (Cy : c y = Lt).
             { destruct (Qlt_le_dec yb y) as [K'|K'].
               - apply (M yb y Ib Hy K'). left. exact Cb.
               - assert (E : y = yb) by (apply (qsorted_eq_unique _ _ _ S Hy Ib); lra). rewrite E. exact Cb. }
             rewrite Cy. symmetry. apply (proj1 (Qlt_alt _ _)). lra.
  Qed.
End Oracle.
