(* Sufficiency of the slab-witness oracle, part 3: what the dimension tags mean, and the exact
   characterisation of every entry of the reference DE-9IM matrix in terms of ALL points of Q^2:
     witness_tag       : a D2 witness lies on no segment and is no vertex; a D1 witness is no vertex; a D0
                         witness is a vertex; a witness that is not tagged D2 lies on a segment or is a vertex
     (with Planar_slab.de9im_ref_sufficient: entry <> F  <->  some point has the two locations)
     entry_D0_iff      : entry = 0  <->  the set is non-empty and contains only vertices of the arrangement
     entry_ge_D1_iff   : entry >= 1 <->  the set contains a point that is not a vertex
     entry_D2_iff      : entry = 2  <->  the set contains a point on no segment of either operand, not a vertex
   Not formalised: the passage from these combinatorial statements to topological dimension (a point off
   all segments has an open neighbourhood in its cell; a non-vertex point of a segment has a neighbourhood
   on the segment in its cell). *)
From Coq Require Import QArith Qreduction List Bool ZArith Lia Lqa Setoid Morphisms.
From SF Require Import Base.GeomAST Base.QKernel Base.Planar Proofs.Planar_proofs Proofs.Planar_slab_base Proofs.Planar_slab.
Import ListNotations.
Open Scope Q_scope.


Definition on_some_seg (L : list seg) (w : pt) : bool := existsb (fun e => on_seg e w) L.
Definition is_vertex (V : list pt) (w : pt) : bool := existsb (pt_eqb w) V.

Lemma existsb_all_false {A} (f : A -> bool) l : (forall x, In x l -> f x = false) -> existsb f l = false.
Proof. induction l; simpl; auto. intros H. rewrite (H a) by auto. rewrite IHl; auto. Qed.

(* ---------------- inversion of the witness lists *)
Lemma gaps_between_inv x ys mid w d :
  In (w, d) (gaps_between x ys mid) -> exists y1 y2, In (y1, y2) (consec ys) /\ w = (x, qmid y1 y2) /\ d = mid y1 y2.
Proof.
  induction ys as [|a ys IH]; [intros []|]. destruct ys as [|b ys]; [intros []|].
  change (gaps_between x (a :: b :: ys) mid) with (((x, qmid a b), mid a b) :: gaps_between x (b :: ys) mid).
  intros [H|H].
  - injection H as <- <-. exists a, b. split; [left; reflexivity | auto].
  - destruct (IH H) as [y1 [y2 [Hc E]]]. exists y1, y2. split; [right; exact Hc | exact E].
Qed.
Lemma column_inv x ys at_y mid w d :
  In (w, d) (column x ys at_y mid) ->
  (ys = [] /\ w = (x, 0) /\ d = D2) \/
  (exists y1 r, ys = y1 :: r /\ w = (x, Qred (y1 - 1)) /\ d = D2) \/
  (exists y1 r, ys = y1 :: r /\ w = (x, Qred (last ys y1 + 1)) /\ d = D2) \/
  (exists y, In y ys /\ w = (x, y) /\ d = at_y y) \/
  (exists y1 y2, In (y1, y2) (consec ys) /\ w = (x, qmid y1 y2) /\ d = mid y1 y2).
Proof.
  unfold column. destruct ys as [|y1 r].
  - intros [H|[]]. injection H as <- <-. left. auto.
  - intros H. apply in_inv in H. destruct H as [H|H].
    { injection H as <- <-. right. left. exists y1, r. auto. }
    apply in_inv in H. destruct H as [H|H].
    { injection H as <- <-. right. right. left. exists y1, r. auto. }
    apply in_app_or in H. destruct H as [H|H].
    + apply in_map_iff in H. destruct H as [y [E Hy]]. injection E as <- <-. right. right. right. left. exists y. auto.
    + right. right. right. right. apply gaps_between_inv. exact H.
Qed.
Lemma slabs_between_inv L xs w d :
  In (w, d) (slabs_between L xs) -> exists x0 x1, In (x0, x1) (consec xs) /\ In (w, d) (slab_witnesses L x0 x1).
Proof.
  induction xs as [|a xs IH]; [intros []|]. destruct xs as [|b xs]; [intros []|].
  change (slabs_between L (a :: b :: xs)) with (slab_witnesses L a b ++ slabs_between L (b :: xs)).
  intros H. apply in_app_or in H. destruct H as [H|H].
  - exists a, b. split; [left; reflexivity | exact H].
  - destruct (IH H) as [x0 [x1 [Hc Hw]]]. exists x0, x1. split; [right; exact Hc | exact Hw].
Qed.

(* a value strictly off every element of a sorted list: below the head, above the last, inside a gap *)
Lemma off_below y1 r y : qsorted (y1 :: r) -> In y (y1 :: r) -> ~ Qred (y1 - 1) == y.
Proof.
  intros S Hy. rewrite Qred_correct. destruct Hy as [<-|Hy]; [lra|]. pose proof (qsorted_head_lt y1 r y S Hy). lra.
Qed.
Lemma off_above y1 r y : qsorted (y1 :: r) -> In y (y1 :: r) -> ~ Qred (last (y1 :: r) y1 + 1) == y.
Proof.
  intros S Hy. rewrite Qred_correct. assert (E : last (y1 :: r) y1 = last r y1) by (destruct r; reflexivity).
  rewrite E. pose proof (qsorted_last_ge y1 r y S Hy). lra.
Qed.
Lemma off_gap ys ya yb y : qsorted ys -> In (ya, yb) (consec ys) -> In y ys -> ~ qmid ya yb == y.
Proof.
  intros S Hc Hy. rewrite qmid_eq. assert (Em : 2 * ((ya + yb) / 2) == ya + yb) by field.
  set (m := (ya + yb) / 2) in *. pose proof (consec_lt _ _ _ S Hc). destruct (consec_gap _ _ _ y S Hc Hy); lra.
Qed.
Lemma gap_strict ys ya yb : qsorted ys -> In (ya, yb) (consec ys) -> ya < qmid ya yb < yb.
Proof.
  intros S Hc. rewrite qmid_eq. assert (Em : 2 * ((ya + yb) / 2) == ya + yb) by field.
  set (m := (ya + yb) / 2) in *. pose proof (consec_lt _ _ _ S Hc). lra.
Qed.

Section Tags.
  Variables (L : list seg) (P : list pt).
  Let V := vertex_set L P.
  Let xs := events V.

  Lemma is_vertex_false_iff w : is_vertex V w = false <-> forall v, In v V -> ~ pt_eq v w.
  Proof.
    unfold is_vertex. split.
    - intros H v Hv E. assert (existsb (pt_eqb w) V = true); [|congruence].
      apply existsb_exists. exists v. split; [exact Hv|]. apply pt_eqb_iff. symmetry. exact E.
    - intros H. apply existsb_all_false. intros v Hv. apply pt_eqb_false_iff. intros E. apply (H v Hv). symmetry. exact E.
  Qed.
  Lemma on_some_seg_false_iff w : on_some_seg L w = false <-> forall e, In e L -> on_seg e w = false.
  Proof.
    unfold on_some_seg. split.
    - intros H e He. destruct (on_seg e w) eqn:E; [|reflexivity].
      assert (existsb (fun e => on_seg e w) L = true); [|congruence]. apply existsb_exists. exists e. auto.
    - apply existsb_all_false.
  Qed.

  (* ---- event lines: a point of the line x whose ordinate is off every ordinate of the line *)
  Section Line.
    Variables (x : Q) (w : pt).
    Hypothesis Hx : fst w == x.
    Hypothesis Hoff : forall y, In y (line_ordinates L V x) -> ~ snd w == y.

    Lemma line_off_vertex : is_vertex V w = false.
    Proof.
      apply is_vertex_false_iff. intros v Hv [E1 E2].
      destruct (ordinate_vertex L P x v Hv) as [y [Hy Ey]]; [lra|]. apply (Hoff y Hy). lra.
    Qed.
    Lemma line_off_nonvertical e : In e L -> nonvertical e -> on_seg e w = false.
    Proof.
      intros He NV. destruct e as [a b]. rewrite on_seg_y_at by exact NV. rewrite Hx.
      destruct (qbetween (fst a) (fst b) x) eqn:B; [|reflexivity]. cbn [andb].
      apply Qeq_bool_false_iff. intros E.
      destruct (ordinate_crossing L P x (a, b) He NV B) as [y [Hy Ey]]. apply (Hoff y Hy). lra.
    Qed.
    (* a vertical segment through w has w strictly between its ends *)
    Lemma line_off_vertical a b : In (a, b) L -> fst a == fst b -> on_seg (a, b) w = true ->
      fst a == x /\ ((snd a < snd w /\ snd w < snd b) \/ (snd b < snd w /\ snd w < snd a)).
    Proof.
      intros He Ev H. rewrite on_seg_vertical in H by exact Ev. apply andb_true_iff in H. destruct H as [H1 H2].
      apply Qeq_bool_iff in H1. apply qbetween_iff in H2. destruct (seg_end_vertex L P _ He) as [Ha Hb]. cbn [fst snd] in *.
      destruct (ordinate_vertex L P x a Ha) as [ya [Hya Eya]]; [lra|].
      destruct (ordinate_vertex L P x b Hb) as [yb [Hyb Eyb]]; [lra|].
      pose proof (Hoff ya Hya). pose proof (Hoff yb Hyb). split; [lra|]. destruct H2; [left | right]; split; lra.
    Qed.
  End Line.

  Lemma event_tag x w d : In (w, d) (event_witnesses L V x) ->
    (d = D2 -> on_some_seg L w = false /\ is_vertex V w = false) /\
    (d = D1 -> is_vertex V w = false) /\
    (d = D2 \/ on_some_seg L w = true \/ is_vertex V w = true).
  Proof.
    intros H. unfold event_witnesses in H. apply column_inv in H.
    pose proof (qsort_sorted (vertex_ordinates V x ++
         flat_map (fun s => if seg_vertical s then [] else if qbetween (fst (fst s)) (fst (snd s)) x then [seg_y_at s x] else []) L)) as S.
    fold (line_ordinates L V x) in S.
    (* the generic D2 argument for a point off all ordinates and not strictly inside a vertical segment *)
    assert (Free : forall t, (forall y, In y (line_ordinates L V x) -> ~ t == y) ->
               (forall a b, In (a, b) L -> fst a == fst b -> fst a == x ->
                   ~ ((snd a < t /\ t < snd b) \/ (snd b < t /\ t < snd a))) ->
               on_some_seg L (x, t) = false /\ is_vertex V (x, t) = false).
    { intros t Hoff Hv. split; [|apply (line_off_vertex x (x, t)); [reflexivity | exact Hoff]].
      apply on_some_seg_false_iff. intros [a b] He. destruct (seg_vertical (a, b)) eqn:Ev.
      - apply seg_vertical_true in Ev. cbn [fst snd] in Ev. destruct (on_seg (a, b) (x, t)) eqn:O; [|reflexivity].
        destruct (line_off_vertical x (x, t) (Qeq_refl _) Hoff a b He Ev O) as [E1 E2]. exfalso. apply (Hv a b He Ev E1). exact E2.
      - apply seg_vertical_false in Ev. apply (line_off_nonvertical x (x, t)); [reflexivity | exact Hoff | exact He | exact Ev]. }
    assert (Extreme : forall t, (forall y, In y (line_ordinates L V x) -> t < y) \/ (forall y, In y (line_ordinates L V x) -> y < t) ->
               on_some_seg L (x, t) = false /\ is_vertex V (x, t) = false).
    { intros t Ht. apply Free.
      - intros y Hy E. destruct Ht as [Ht|Ht]; specialize (Ht y Hy); lra.
      - intros a b He Ev Ex K. destruct (seg_end_vertex L P _ He) as [Ha Hb]. cbn [fst snd] in *.
        destruct (ordinate_vertex L P x a Ha) as [ya [Hya Eya]]; [lra|].
        destruct (ordinate_vertex L P x b Hb) as [yb [Hyb Eyb]]; [lra|].
        destruct Ht as [Ht|Ht]; pose proof (Ht ya Hya); pose proof (Ht yb Hyb); lra. }
    destruct H as [[E [-> ->]]|[[y1 [r [E [-> ->]]]]|[[y1 [r [E [-> ->]]]]|[[y [Hy [-> ->]]]|[ya [yb [Hc [-> ->]]]]]]]].
    - (* no ordinate at all *)
      assert (F : on_some_seg L (x, 0) = false /\ is_vertex V (x, 0) = false).
      { apply Extreme. left. intros y Hy. rewrite E in Hy. destruct Hy. }
      split; [auto|]. split; [intros; apply F | auto].
    - assert (F : on_some_seg L (x, Qred (y1 - 1)) = false /\ is_vertex V (x, Qred (y1 - 1)) = false).
      { apply Extreme. left. intros y Hy. rewrite E in Hy, S. rewrite Qred_correct.
        destruct Hy as [<-|Hy]; [lra|]. pose proof (qsorted_head_lt y1 r y S Hy). lra. }
      split; [auto|]. split; [intros; apply F | auto].
    - assert (F : on_some_seg L (x, Qred (last (line_ordinates L V x) y1 + 1)) = false /\
                  is_vertex V (x, Qred (last (line_ordinates L V x) y1 + 1)) = false).
      { apply Extreme. right. intros y Hy. rewrite E in Hy, S |- *. rewrite Qred_correct.
        assert (E' : last (y1 :: r) y1 = last r y1) by (destruct r; reflexivity). rewrite E'.
        pose proof (qsorted_last_ge y1 r y S Hy). lra. }
      split; [auto|]. split; [intros; apply F | auto].
    - (* an ordinate of the line *)
      destruct (existsb (Qeq_bool y) (vertex_ordinates V x)) eqn:Ev.
      + split; [discriminate|]. split; [discriminate|]. right. right.
        apply existsb_exists in Ev. destruct Ev as [y' [Hy' Ey]]. apply Qeq_bool_iff in Ey.
        unfold vertex_ordinates in Hy'. apply in_flat_map in Hy'. destruct Hy' as [v [Hv Hy']].
        destruct (Qeq_bool (fst v) x) eqn:Ex; [|destruct Hy']. apply Qeq_bool_iff in Ex. destruct Hy' as [<-|[]].
        unfold is_vertex. apply existsb_exists. exists v. split; [exact Hv|]. apply pt_eqb_iff. split; cbn [fst snd]; lra.
      + split; [discriminate|]. split.
        * intros _. apply is_vertex_false_iff. intros v Hv [E1 E2]. cbn [fst snd] in *.
          assert (K : existsb (Qeq_bool y) (vertex_ordinates V x) = true); [|congruence].
          apply existsb_exists. exists (snd v). split; [|apply Qeq_bool_iff; lra].
          unfold vertex_ordinates. apply in_flat_map. exists v. split; [exact Hv|].
          assert (Ex : Qeq_bool (fst v) x = true) by (apply Qeq_bool_iff; exact E1). rewrite Ex. left. reflexivity.
        * (* the ordinate comes from a vertex (excluded) or from a crossing: on that segment *)
          right. apply qsort_in in Hy. apply in_app_or in Hy. destruct Hy as [Hy|Hy].
          -- exfalso. assert (K : existsb (Qeq_bool y) (vertex_ordinates V x) = true); [|congruence].
             apply existsb_exists. exists y. split; [exact Hy | apply Qeq_bool_iff; reflexivity].
          -- left. apply in_flat_map in Hy. destruct Hy as [[a b] [He Hy]].
             destruct (seg_vertical (a, b)) eqn:Es; [destruct Hy|]. cbn [fst snd] in Hy.
             destruct (qbetween (fst a) (fst b) x) eqn:B; [|destruct Hy]. destruct Hy as [<-|[]].
             unfold on_some_seg. apply existsb_exists. exists (a, b). split; [exact He|].
             apply seg_vertical_false in Es. rewrite on_seg_y_at by exact Es. cbn [fst snd]. rewrite B. cbn [andb].
             apply Qeq_bool_iff. apply seg_y_at_eq.
    - (* a gap *)
      pose proof (gap_strict _ _ _ S Hc) as G.
      assert (Hoff : forall y, In y (line_ordinates L V x) -> ~ qmid ya yb == y) by (intros y Hy; apply (off_gap _ _ _ y S Hc Hy)).
      destruct (vertical_covers L x ya yb) eqn:Vc.
      + split; [discriminate|]. split; [intros _; apply (line_off_vertex x (x, qmid ya yb)); [reflexivity | exact Hoff]|].
        right. left. unfold vertical_covers in Vc. apply existsb_exists in Vc. destruct Vc as [[a b] [He Vc]].
        rewrite !andb_true_iff, orb_true_iff, !andb_true_iff, !qltb_iff in Vc. cbn [fst snd] in Vc.
        destruct Vc as [[Es Ex] K]. apply seg_vertical_true in Es. apply Qeq_bool_iff in Ex. cbn [fst snd] in Es.
        unfold on_some_seg. apply existsb_exists. exists (a, b). split; [exact He|].
        rewrite on_seg_vertical by exact Es. cbn [fst snd]. apply andb_true_iff. split; [apply Qeq_bool_iff; lra|].
        apply qbetween_iff. destruct K; [left | right]; lra.
      + assert (F : on_some_seg L (x, qmid ya yb) = false /\ is_vertex V (x, qmid ya yb) = false).
        { apply Free; [exact Hoff|]. intros a b He Es Ex K.
          assert (T : vertical_covers L x ya yb = true); [|congruence].
          unfold vertical_covers. apply existsb_exists. exists (a, b). split; [exact He|]. cbn [fst snd].
          rewrite !andb_true_iff, orb_true_iff, !andb_true_iff, !qltb_iff. split; [split|].
          - apply seg_vertical_true. exact Es.
          - apply Qeq_bool_iff. exact Ex.
          - exact K. }
        split; [auto|]. split; [intros; apply F | auto].
  Qed.
End Tags.


Section Tags2.
  Variables (L : list seg) (P : list pt).
  Let V := vertex_set L P.
  Let xs := events V.

  (* ---- open slabs *)
  Lemma slab_tag x0 x1 w d : In (x0, x1) (consec xs) -> In (w, d) (slab_witnesses L x0 x1) ->
    is_vertex V w = false /\ (d = D2 -> on_some_seg L w = false) /\ (d = D2 \/ on_some_seg L w = true).
  Proof.
    intros Hc H. pose proof (xm_inside L P x0 x1 Hc) as Hm. unfold slab_witnesses in H.
    set (xm := qmid x0 x1) in *.
    pose proof (qsort_sorted (flat_map (fun s => if seg_vertical s then []
       else if (qltb (fst (fst s)) xm && qltb xm (fst (snd s))) || (qltb (fst (snd s)) xm && qltb xm (fst (fst s)))
            then [seg_y_at s xm] else []) L)) as S. fold (slab_heights L xm) in S.
    assert (NV : forall t, is_vertex V (xm, t) = false).
    { intros t. apply (is_vertex_false_iff L P). intros v Hv [E _]. cbn [fst] in E.
      destruct (slab_no_vertex L P x0 x1 Hc v Hv); lra. }
    assert (Free : forall t, (forall y, In y (slab_heights L xm) -> ~ t == y) -> on_some_seg L (xm, t) = false).
    { intros t Hoff. apply (on_some_seg_false_iff L). intros [a b] He.
      destruct (seg_end_vertex L P _ He) as [Ha Hb]. cbn [fst snd] in Ha, Hb.
      pose proof (slab_no_vertex L P x0 x1 Hc a Ha) as Sa. pose proof (slab_no_vertex L P x0 x1 Hc b Hb) as Sb.
      destruct (seg_vertical (a, b)) eqn:Ev.
      - apply seg_vertical_true in Ev. cbn [fst snd] in Ev. rewrite on_seg_vertical by exact Ev. cbn [fst snd].
        assert (E : Qeq_bool xm (fst a) = false) by (apply Qeq_bool_false_iff; lra). rewrite E. reflexivity.
      - apply seg_vertical_false in Ev. rewrite on_seg_y_at by exact Ev. cbn [fst snd].
        destruct (qbetween (fst a) (fst b) xm) eqn:B; [|reflexivity]. cbn [andb]. apply Qeq_bool_false_iff. intros E.
        apply qbetween_iff in B.
        assert (Sp : spans x0 x1 (a, b)).
        { apply (spans_iff L P x0 x1 Hc (a, b) xm He Hm Ev). cbn [fst snd]. lra. }
        destruct (heights_has L x0 x1 (a, b) He (proj2 (span_b_spans L P x0 x1 Hc (a, b) He) Sp)) as [y [Hy Ey]].
        fold xm in Hy, Ey. apply (Hoff y Hy). lra. }
    apply column_inv in H.
    destruct H as [[E [-> ->]]|[[y1 [r [E [-> ->]]]]|[[y1 [r [E [-> ->]]]]|[[y [Hy [-> ->]]]|[ya [yb [Hg [-> ->]]]]]]]].
    - split; [apply NV|]. assert (F : on_some_seg L (xm, 0) = false) by (apply Free; intros y Hy; rewrite E in Hy; destruct Hy).
      split; auto.
    - split; [apply NV|]. assert (F : on_some_seg L (xm, Qred (y1 - 1)) = false).
      { apply Free. intros y Hy. rewrite E in Hy, S. apply (off_below y1 r y S Hy). }
      split; auto.
    - split; [apply NV|]. assert (F : on_some_seg L (xm, Qred (last (slab_heights L xm) y1 + 1)) = false).
      { apply Free. intros y Hy. rewrite E in Hy, S |- *. apply (off_above y1 r y S Hy). }
      split; auto.
    - split; [apply NV|]. split; [discriminate|]. right.
      destruct (heights_in L x0 x1 y Hy) as [[a b] [He [Sb ->]]]. fold xm.
      apply (span_b_spans L P x0 x1 Hc (a, b) He) in Sb.
      unfold on_some_seg. apply existsb_exists. exists (a, b). split; [exact He|].
      rewrite on_seg_y_at by apply Sb. cbn [fst snd].
      pose proof (spans_between L P x0 x1 Hc (a, b) xm Sb Hm) as B. cbn [fst snd] in B. rewrite B. cbn [andb].
      apply Qeq_bool_iff. apply seg_y_at_eq.
    - split; [apply NV|]. assert (F : on_some_seg L (xm, qmid ya yb) = false).
      { apply Free. intros y Hy. apply (off_gap _ _ _ y S Hg Hy). }
      split; auto.
  Qed.

  (* ---- left and right of everything *)
  Lemma outer_tag w : (forall v, In v V -> fst w < fst v) \/ (forall v, In v V -> fst v < fst w) ->
    on_some_seg L w = false /\ is_vertex V w = false.
  Proof.
    intros H. split.
    - apply (on_some_seg_false_iff L). intros [a b] He. destruct (seg_end_vertex L P _ He) as [Ha Hb]. cbn [fst snd] in *.
      unfold on_seg. destruct (qbetween (fst a) (fst b) (fst w)) eqn:B; [|reflexivity].
      apply qbetween_iff in B. destruct H as [H|H]; pose proof (H a Ha); pose proof (H b Hb); lra.
    - apply (is_vertex_false_iff L P). intros v Hv [E _]. destruct H as [H|H]; pose proof (H v Hv); lra.
  Qed.

  (* what the dimension tag of a witness says about the witness point *)
  Theorem witness_tag w d : In (w, d) (witnesses L P) ->
    (d = D2 -> on_some_seg L w = false /\ is_vertex V w = false) /\
    (d = D1 -> is_vertex V w = false) /\
    (d = D0 -> is_vertex V w = true) /\
    (d = D2 \/ on_some_seg L w = true \/ is_vertex V w = true).
  Proof.
    intros H.
    assert (Z : d = D0 -> is_vertex V w = true).
    { intros ->. destruct (witness_dim0_is_vertex L P w H) as [v [Hv E]].
      unfold is_vertex. apply existsb_exists. exists v. split; [exact Hv|]. apply pt_eqb_iff. symmetry. exact E. }
    unfold witnesses in H. fold V in H. fold xs in H. destruct xs as [|x0 l] eqn:Exs.
    - destruct H as [H|[]]. injection H as <- <-.
      assert (F : on_some_seg L (0, 0) = false /\ is_vertex V (0, 0) = false).
      { apply outer_tag. left. intros v Hv. exfalso. destruct (vertex_event L P v Hv) as [x [Hx _]].
        fold V in Hx. fold xs in Hx. rewrite Exs in Hx. destruct Hx. }
      split; [auto|]. split; [intros; apply F|]. split; [discriminate | auto].
    - assert (S : qsorted (x0 :: l)) by (rewrite <- Exs; apply qsort_sorted).
      assert (Ev : forall v, In v V -> x0 <= fst v <= last l x0).
      { intros v Hv. destruct (vertex_event L P v Hv) as [x [Hx Ex]]. fold V in Hx. fold xs in Hx. rewrite Exs in Hx.
        split.
        - destruct Hx as [<-|Hx]; [lra|]. pose proof (qsorted_head_lt x0 l x S Hx). lra.
        - pose proof (qsorted_last_ge x0 l x S Hx). lra. }
      destruct H as [H|[H|H]].
      + injection H as <- <-.
        assert (F : on_some_seg L (Qred (x0 - 1), 0) = false /\ is_vertex V (Qred (x0 - 1), 0) = false).
        { apply outer_tag. left. intros v Hv. cbn [fst]. rewrite Qred_correct. destruct (Ev v Hv). lra. }
        split; [auto|]. split; [intros; apply F|]. split; [discriminate | auto].
      + injection H as <- <-.
        assert (El : last (x0 :: l) x0 = last l x0) by (destruct l; reflexivity).
        assert (F : on_some_seg L (Qred (last (x0 :: l) x0 + 1), 0) = false /\ is_vertex V (Qred (last (x0 :: l) x0 + 1), 0) = false).
        { apply outer_tag. right. intros v Hv. cbn [fst]. rewrite Qred_correct, El. destruct (Ev v Hv). lra. }
        split; [auto|]. split; [intros; apply F|]. split; [discriminate | auto].
      + apply in_app_or in H. destruct H as [H|H].
        * apply in_flat_map in H. destruct H as [x [_ H]]. destruct (event_tag L P x w d H) as [T2 [T1 T]].
          split; [exact T2|]. split; [exact T1|]. split; [exact Z | exact T].
        * apply slabs_between_inv in H. destruct H as [a [b [Hc H]]].
          assert (Hc' : In (a, b) (consec (events (vertex_set L P)))) by (fold V; fold xs; rewrite Exs; exact Hc).
          destruct (slab_tag a b w d Hc' H) as [T1 [T2 T]].
          split; [intros E; split; [apply T2; exact E | exact T1]|]. split; [intros _; exact T1|]. split; [exact Z|].
          destruct T as [T|T]; auto.
  Qed.
End Tags2.

(* ---------------- the entries of the reference matrix, characterised *)
Section Entries.
  Variables a b : geom.
  Hypothesis Ra : rings_closed a.
  Hypothesis Rb : rings_closed b.
  Let L := canon_segs (arr_segments a ++ arr_segments b).
  Let P := canon_pts (arr_points a ++ arr_points b).
  Let V := vertex_set L P.

  Lemma cover_pair p : exists w d, In (w, d) (pair_witnesses a b) /\ same_cell L V p w /\
    locate a p = locate a w /\ locate b p = locate b w.
  Proof.
    destruct (witness_cover L P p) as [w [d [Hin Hs]]]. exists w, d. split; [exact Hin|]. split; [exact Hs|].
    destruct (pair_covers a b) as [Ca Cb]. split.
    - apply (locate_same_cell L P a p w Ca Ra Hs).
    - apply (locate_same_cell L P b p w Cb Rb Hs).
  Qed.
  Lemma same_cell_free p w : same_cell L V p w ->
    on_some_seg L p = on_some_seg L w /\ is_vertex V p = is_vertex V w.
  Proof.
    intros [H1 H2]. split.
    - unfold on_some_seg. apply existsb_ext_in'. intros e He. apply H1. exact He.
    - unfold is_vertex. apply existsb_ext_in'. intros v Hv. apply H2. exact Hv.
  Qed.

  (* dimension 2: some point with these locations lies on no segment of either operand and is no vertex *)
  Theorem entry_D2_iff la lb :
    mget (de9im_ref a b) la lb = D2 <->
    exists p, locate a p = la /\ locate b p = lb /\ on_some_seg L p = false /\ is_vertex V p = false.
  Proof.
    split.
    - intros E. assert (N : mget (de9im_ref a b) la lb <> DF) by congruence.
      destruct (de9im_ref_entry_witnessed a b la lb N) as [w [Hin [H1 H2]]]. rewrite E in Hin.
      destruct (witness_tag L P w D2 Hin) as [T _]. destruct (T eq_refl). exists w. auto.
    - intros [p [H1 [H2 [F1 F2]]]]. destruct (cover_pair p) as [w [d [Hin [Hs [E1 E2]]]]].
      destruct (same_cell_free p w Hs) as [G1 G2]. rewrite F1 in G1. rewrite F2 in G2.
      destruct (witness_tag L P w d Hin) as [_ [_ [_ T]]].
      unfold V in *. destruct T as [->|[T|T]]; [|congruence|congruence].
      pose proof (de9im_ref_entry_ge a b w D2 Hin) as G. rewrite <- E1, <- E2, H1, H2 in G.
      destruct (mget (de9im_ref a b) la lb); simpl in G; try lia. reflexivity.
  Qed.
  (* dimension at least 1: some point with these locations is not a vertex of the arrangement *)
  Theorem entry_ge_D1_iff la lb :
    (mget (de9im_ref a b) la lb = D1 \/ mget (de9im_ref a b) la lb = D2) <->
    exists p, locate a p = la /\ locate b p = lb /\ is_vertex V p = false.
  Proof.
    split.
    - intros E. assert (N : mget (de9im_ref a b) la lb <> DF) by (destruct E; congruence).
      destruct (de9im_ref_entry_witnessed a b la lb N) as [w [Hin [H1 H2]]].
      destruct (witness_tag L P w _ Hin) as [T2 [T1 _]]. exists w. split; [exact H1|]. split; [exact H2|].
      destruct E as [E|E]; [apply T1; exact E | apply T2; exact E].
    - intros [p [H1 [H2 F]]]. destruct (cover_pair p) as [w [d [Hin [Hs [E1 E2]]]]].
      destruct (same_cell_free p w Hs) as [_ G]. rewrite F in G.
      destruct (witness_tag L P w d Hin) as [_ [_ [T0 _]]].
      pose proof (witness_dim_not_F L P w d Hin) as NF.
      pose proof (de9im_ref_entry_ge a b w d Hin) as G'. rewrite <- E1, <- E2, H1, H2 in G'.
      unfold V in *. destruct d; [congruence | rewrite T0 in G by reflexivity; discriminate | |];
        destruct (mget (de9im_ref a b) la lb); simpl in G'; try lia; auto.
  Qed.
  (* dimension 0 exactly: the set is non-empty and consists of vertices of the arrangement only *)
  Theorem entry_D0_iff la lb :
    mget (de9im_ref a b) la lb = D0 <->
    (exists p, locate a p = la /\ locate b p = lb) /\
    (forall p, locate a p = la -> locate b p = lb -> is_vertex V p = true).
  Proof.
    pose proof (de9im_ref_sufficient a b la lb Ra Rb) as S0. pose proof (entry_ge_D1_iff la lb) as S1.
    split.
    - intros E. split; [apply S0; congruence|]. intros p H1 H2. destruct (is_vertex V p) eqn:F; [reflexivity|].
      assert (K : mget (de9im_ref a b) la lb = D1 \/ mget (de9im_ref a b) la lb = D2) by (apply S1; exists p; auto).
      destruct K; congruence.
    - intros [Hn Ha]. apply S0 in Hn. destruct (mget (de9im_ref a b) la lb) eqn:E; [congruence | reflexivity | |].
      + destruct (proj1 S1 (or_introl eq_refl)) as [p [H1 [H2 F]]]. rewrite (Ha p H1 H2) in F. discriminate.
      + destruct (proj1 S1 (or_intror eq_refl)) as [p [H1 [H2 F]]]. rewrite (Ha p H1 H2) in F. discriminate.
  Qed.
End Entries.
Print Assumptions entry_D0_iff.
Print Assumptions entry_D2_iff.
