(* Property C15 - lemmas about Model/PointOnSurface.v.
   Every statement holds for every centroid oracle [cen]. *)
From Coq Require Import QArith Qreduction List Bool ZArith Lia Arith Lqa.
From SF Require Import Base.GeomAST Base.QKernel Base.Planar Proofs.Planar_proofs
  Model.Boundary Proofs.Boundary_proofs Model.PointOnSurface.
Import ListNotations.
Open Scope Q_scope.

(* ================================================================ the accumulator *)
Lemma consider_cases t st c :
  consider t st c = st \/ (consider t st c = (c, snd (consider t st c)) /\ point_empty c = false /\ t <> None).
Proof.
  unfold consider. destruct t as [t|]; [|left; reflexivity].
  destruct (point_xy c) as [xy|] eqn:E; [|left; reflexivity].
  destruct (point_empty (fst st) || qltb (d2 t xy) (snd st)); [right|left; reflexivity].
  split; [reflexivity|]. split; [|discriminate]. destruct c as [ct [v|]]; [reflexivity|discriminate].
Qed.

Lemma consider_all_result t cs : forall st,
  fst (consider_all t st cs) = fst st \/
  (In (fst (consider_all t st cs)) cs /\ point_empty (fst (consider_all t st cs)) = false).
Proof.
  unfold consider_all. induction cs as [|c cs IH]; intros st; [left; reflexivity|]. cbn [fold_left].
  destruct (IH (consider t st c)) as [E|[Hin Hne]].
  - destruct (consider_cases t st c) as [E'|[E' [Hne _]]].
    + left. rewrite E, E'. reflexivity.
    + right. rewrite E, E'. cbn [fst]. split; [left; reflexivity|exact Hne].
  - right. split; [right; exact Hin|exact Hne].
Qed.

Lemma consider_all_none st cs : consider_all None st cs = st.
Proof. unfold consider_all. induction cs as [|c cs IH]; [reflexivity|]. exact IH. Qed.

Lemma consider_all_empties t cs : forall st,
  (forall c, In c cs -> point_empty c = true) -> consider_all t st cs = st.
Proof.
  unfold consider_all. induction cs as [|c cs IH]; intros st H; [reflexivity|]. cbn [fold_left].
  rewrite IH by (intros; apply H; right; assumption).
  unfold consider. destruct t; [|reflexivity].
  pose proof (H c (or_introl eq_refl)) as Hc. destruct c as [ct [v|]]; [discriminate|reflexivity].
Qed.

Lemma consider_nonempty_stays t st c : point_empty (fst st) = false -> point_empty (fst (consider t st c)) = false.
Proof.
  intros H. destruct (consider_cases t st c) as [E|[E [Hne _]]]; rewrite E; [exact H|exact Hne].
Qed.
Lemma consider_all_nonempty_stays t cs : forall st,
  point_empty (fst st) = false -> point_empty (fst (consider_all t st cs)) = false.
Proof.
  unfold consider_all. induction cs as [|c cs IH]; intros st H; [exact H|]. cbn [fold_left].
  apply IH. apply consider_nonempty_stays. exact H.
Qed.
Lemma consider_all_picks t0 cs : forall st,
  (exists c, In c cs /\ point_empty c = false) ->
  point_empty (fst (consider_all (Some t0) st cs)) = false.
Proof.
  unfold consider_all. induction cs as [|c cs IH]; intros st [c0 [Hin Hne]]; [destruct Hin|]. cbn [fold_left].
  destruct Hin as [->|Hin]; [|apply IH; exists c0; auto].
  apply (consider_all_nonempty_stays (Some t0) cs).
  destruct (point_empty (fst st)) eqn:Est; [|apply consider_nonempty_stays; exact Est].
  unfold consider. destruct c0 as [ct [v|]]; [|discriminate]. cbn [point_xy point_c option_map]. rewrite Est. reflexivity.
Qed.

(* ================================================================ lineal and puntal results *)
Lemma point_xy_point2d q : point_xy (point2d q) = point_xy q.
Proof. destruct q as [ct [v|]]; reflexivity. Qed.
Lemma point_empty_point2d q : point_empty (point2d q) = point_empty q.
Proof. destruct q as [ct [v|]]; reflexivity. Qed.

Lemma in_removelast {A} (x : A) l : In x (removelast l) -> In x l.
Proof.
  induction l as [|a [|b r] IH]; simpl; auto. intros [H|H]; [left; exact H|right; apply IH; exact H].
Qed.
Lemma in_tl {A} (x : A) l : In x (tl l) -> In x l.
Proof. destruct l; simpl; auto. Qed.

(* a control point of the line string l *)
Definition control_point (l : lineT Q) (p : pt) : Prop := exists v, In v (line_vs l) /\ p = vpt v.

Lemma inner_points_control l q p : In q (inner_points l) -> point_xy q = Some p -> control_point l p.
Proof.
  unfold inner_points, inner_vs. intros Hin E. apply in_map_iff in Hin. destruct Hin as [v [<- Hv]].
  cbn in E. injection E as <-. exists v. split; [|destruct v; reflexivity].
  apply in_tl, in_removelast. exact Hv.
Qed.
Lemma end_points_control l q p : In q (end_points2d l) -> point_xy q = Some p -> control_point l p.
Proof.
  unfold end_points2d. intros [<-|[<-|[]]] E; rewrite point_xy_point2d in E;
    destruct l as [ct [|a r]]; cbn in E; try discriminate; injection E as <-.
  - exists a. split; [left; reflexivity|reflexivity].
  - exists (last r a). split; [apply last_in|reflexivity].
Qed.

Lemma control_point_on_line l p : control_point l p -> on_line l p = true.
Proof. intros [v [Hv ->]]. apply vertex_on_line. exact Hv. Qed.

Section WithCen.
  Variable cen : geom -> option pt.

  Lemma line_pos_control l p : point_xy (line_pos cen l) = Some p -> control_point l p.
  Proof.
    unfold line_pos. set (t := cen (GLine l)). set (st := consider_all t nacc0 (inner_points l)).
    destruct (negb (point_empty (fst st))) eqn:Ene; intros E.
    - pose proof (consider_all_result t (inner_points l) nacc0) as R. fold st in R. destruct R as [E0|[Hin _]].
      + rewrite E0 in Ene. discriminate.
      + eapply inner_points_control; eauto.
    - destruct (consider_all_result t (end_points2d l) st) as [E0|[Hin _]].
      + rewrite E0 in E. apply negb_false_iff in Ene. destruct (fst st) as [ct [v|]]; discriminate.
      + eapply end_points_control; eauto.
  Qed.

  Theorem pos_line_on_line_lemma l p : point_xy (pos cen (GLine l)) = Some p -> on_line l p = true.
  Proof. intros E. apply control_point_on_line, line_pos_control. exact E. Qed.

  Lemma mline_pos_control ct ls p :
    point_xy (mline_pos cen ct ls) = Some p -> exists l, In l ls /\ control_point l p.
  Proof.
    unfold mline_pos. set (t := cen (GMLine ct ls)). set (st := consider_all t nacc0 (flat_map inner_points ls)).
    destruct (negb (point_empty (fst st))) eqn:Ene; intros E.
    - pose proof (consider_all_result t (flat_map inner_points ls) nacc0) as R. fold st in R. destruct R as [E0|[Hin _]].
      + rewrite E0 in Ene. discriminate.
      + apply in_flat_map in Hin. destruct Hin as [l [Hl Hin]]. exists l. split; [exact Hl|].
        eapply inner_points_control; eauto.
    - destruct (consider_all_result t (flat_map end_points2d ls) st) as [E0|[Hin _]].
      + rewrite E0 in E. apply negb_false_iff in Ene. destruct (fst st) as [c [v|]]; discriminate.
      + apply in_flat_map in Hin. destruct Hin as [l [Hl Hin]]. exists l. split; [exact Hl|].
        eapply end_points_control; eauto.
  Qed.

  Theorem pos_mline_on_line_lemma ct ls p :
    point_xy (pos cen (GMLine ct ls)) = Some p -> inG (GMLine ct ls) p = true.
  Proof.
    intros E. apply mline_pos_control in E. destruct E as [l [Hl Hc]].
    cbn [inG]. apply existsb_exists. exists l. split; [exact Hl|]. apply control_point_on_line. exact Hc.
  Qed.

  Theorem pos_mpoint_member_lemma ct ps p :
    point_xy (pos cen (GMPoint ct ps)) = Some p -> exists q, In q ps /\ point_xy q = Some p.
  Proof.
    cbn [pos leaf_pos]. unfold mpoint_pos. intros E.
    destruct (consider_all_result (cen (GMPoint ct ps)) (map point2d ps) nacc0) as [E0|[Hin _]].
    - rewrite E0 in E. discriminate.
    - apply in_map_iff in Hin. destruct Hin as [q [Eq Hq]]. exists q. split; [exact Hq|].
      rewrite <- Eq, point_xy_point2d in E. exact E.
  Qed.

  Theorem pos_point_lemma q : point_xy (pos cen (GPoint q)) = point_xy q.
  Proof. apply point_xy_point2d. Qed.
End WithCen.

(* ================================================================ sorted intercepts *)
Fixpoint ssorted (l : list Q) : Prop :=
  match l with
  | [] => True
  | a :: r => (forall z, In z r -> a < z) /\ ssorted r
  end.
(* number of elements strictly greater than m *)
Definition cgt (m : Q) (l : list Q) : nat := length (filter (qltb m) l).

Lemma qltb_iff a b : qltb a b = true <-> a < b.
Proof.
  unfold qltb. rewrite negb_true_iff. split; intros H.
  - apply Qnot_le_lt. intro H'. apply Qle_bool_iff in H'. congruence.
  - apply not_true_iff_false. intro H'. apply Qle_bool_iff in H'. apply (Qlt_not_le _ _ H). exact H'.
Qed.
Lemma qltb_false_iff a b : qltb a b = false <-> b <= a.
Proof.
  unfold qltb. rewrite negb_false_iff. apply Qle_bool_iff.
Qed.
Lemma qltb_proper_r m x y : x == y -> qltb m x = qltb m y.
Proof. intros H. unfold qltb. rewrite H. reflexivity. Qed.

Lemma qinsert_in x l z : In z (qinsert x l) -> z = x \/ In z l.
Proof.
  induction l as [|y r IH]; simpl; [intros [H|[]]; left; auto|].
  destruct (x ?= y); simpl; intros H; auto.
  - destruct H as [H|H]; auto.
  - destruct H as [H|H]; auto. destruct (IH H); auto.
Qed.
Lemma qinsert_ssorted x l : ssorted l -> ssorted (qinsert x l).
Proof.
  induction l as [|y r IH]; simpl; [intros _; split; [intros z []|exact I]|].
  intros [Hy Hr]. destruct (x ?= y) eqn:E.
  - simpl. auto.
  - apply Qlt_alt in E. simpl. split; [|auto]. intros z [<-|Hz]; [exact E|]. eapply Qlt_trans; [exact E|auto].
  - apply Qgt_alt in E. simpl. split; [|auto]. intros z Hz. destruct (qinsert_in _ _ _ Hz) as [->|Hz']; auto.
Qed.
Lemma qsort_ssorted l : ssorted (qsort l).
Proof. induction l as [|x l IH]; simpl; [exact I|]. apply qinsert_ssorted. exact IH. Qed.

Lemma memq_proper x y l : x == y -> memq x l = memq y l.
Proof. intros H. unfold memq. apply existsb_ext_in. intros z _. rewrite H. reflexivity. Qed.
Lemma memq_qinsert z x l : memq z (qinsert x l) = Qeq_bool z x || memq z l.
Proof.
  induction l as [|y r IH]; [reflexivity|]. simpl. destruct (x ?= y) eqn:E; simpl.
  - apply Qeq_alt in E. destruct (Qeq_bool z x) eqn:Ez; [|reflexivity]. simpl.
    apply Qeq_bool_iff in Ez. assert (Hzy : Qeq_bool z y = true) by (apply Qeq_bool_iff; rewrite Ez; exact E).
    rewrite Hzy. reflexivity.
  - reflexivity.
  - fold (memq z (qinsert x r)). rewrite IH. fold (memq z r). destruct (Qeq_bool z y), (Qeq_bool z x); reflexivity.
Qed.
Lemma memq_qsort z l : memq z (qsort l) = memq z l.
Proof. induction l as [|x l IH]; [reflexivity|]. simpl. rewrite memq_qinsert, IH. reflexivity. Qed.

Lemma memq_false_sorted x y r : x < y -> (forall z, In z r -> y < z) -> memq x (y :: r) = false.
Proof.
  intros Hxy Hr. apply existsb_false_in. intros z [<-|Hz]; apply Qeq_bool_false_iff; intro E.
  - rewrite E in Hxy. exact (Qlt_irrefl _ Hxy).
  - specialize (Hr z Hz). rewrite <- E in Hr. apply (Qlt_irrefl x). eapply Qlt_trans; eauto.
Qed.

Lemma cgt_qinsert m x l : ssorted l ->
  cgt m (qinsert x l) = if memq x l then cgt m l else if qltb m x then S (cgt m l) else cgt m l.
Proof.
  unfold cgt. induction l as [|y r IH]; [intros _; simpl; destruct (qltb m x); reflexivity|].
  intros [Hy Hr]. cbn [qinsert]. destruct (x ?= y) eqn:E.
  - apply Qeq_alt in E. unfold memq. cbn [existsb]. assert (Qeq_bool x y = true) as -> by (apply Qeq_bool_iff; exact E).
    reflexivity.
  - apply Qlt_alt in E. rewrite (memq_false_sorted x y r E Hy). cbn [filter]. destruct (qltb m x); reflexivity.
  - apply Qgt_alt in E. cbn [filter]. unfold memq. cbn [existsb].
    assert (Qeq_bool x y = false) as ->.
    { apply Qeq_bool_false_iff. intro E'. rewrite E' in E. exact (Qlt_irrefl _ E). }
    cbn [orb]. fold (memq x r). specialize (IH Hr).
    destruct (qltb m y); cbn [length]; rewrite IH; destruct (memq x r); try reflexivity; destruct (qltb m x); reflexivity.
Qed.
Lemma cgt_qsort m l : nodupq l = true -> cgt m (qsort l) = cgt m l.
Proof.
  induction l as [|x l IH]; [reflexivity|]. cbn [nodupq qsort fold_right]. intros H. apply andb_prop in H.
  destruct H as [Hx Hl]. fold (qsort l). rewrite cgt_qinsert by apply qsort_ssorted.
  rewrite memq_qsort. apply negb_true_iff in Hx. rewrite Hx, (IH Hl).
  unfold cgt. cbn [filter]. destruct (qltb m x); reflexivity.
Qed.
(* without equal entries, sorting and sorting-with-de-duplication coincide *)
Lemma qisert_qinsert x l : memq x l = false -> qisert x l = qinsert x l.
Proof.
  induction l as [|y r IH]; [reflexivity|]. unfold memq. cbn [existsb qisert qinsert]. intros H.
  apply orb_false_iff in H. destruct H as [Hxy Hr]. apply Qeq_bool_false_iff in Hxy.
  destruct (x ?= y) eqn:E.
  - apply Qeq_alt in E. contradiction.
  - apply Qlt_alt in E. assert (Qle_bool x y = true) as -> by (apply Qle_bool_iff; lra). reflexivity.
  - apply Qgt_alt in E. assert (Qle_bool x y = false) as ->.
    { apply not_true_iff_false. intro H. apply Qle_bool_iff in H. lra. }
    rewrite (IH Hr). reflexivity.
Qed.
Lemma isort_qsort l : nodupq l = true -> isort l = qsort l.
Proof.
  induction l as [|x l IH]; [reflexivity|]. cbn [nodupq isort qsort fold_right]. intros H. apply andb_prop in H.
  destruct H as [Hx Hl]. fold (isort l). fold (qsort l). rewrite (IH Hl). apply qisert_qinsert.
  rewrite memq_qsort. apply negb_true_iff in Hx. exact Hx.
Qed.

Lemma cgt_app m a b : cgt m (a ++ b) = (cgt m a + cgt m b)%nat.
Proof. unfold cgt. rewrite filter_app, app_length. reflexivity. Qed.

(* ================================================================ the chosen interval *)
(* (A,B) are neighbours in xs at an even position *)
Definition even_pair (xs : list Q) (A B : Q) : Prop :=
  exists pre post, xs = pre ++ A :: B :: post /\ Nat.even (length pre) = true.

Lemma pair_ind {A} (P : list A -> Prop) :
  P [] -> (forall a, P [a]) -> (forall a b r, P r -> P (a :: b :: r)) -> forall l, P l.
Proof.
  intros H0 H1 H2. fix F 1. intros [|a [|b r]]; [exact H0|exact (H1 a)|exact (H2 a b r (F r))].
Qed.

Lemma best_pair_even_pair rest : forall full pre0 a b,
  full = pre0 ++ rest -> Nat.even (length pre0) = true -> even_pair full a b ->
  even_pair full (fst (best_pair a b rest)) (snd (best_pair a b rest)).
Proof.
  induction rest as [|c0|c d r IH] using pair_ind; intros full pre0 a b Hf He Hp; try exact Hp.
  cbn [best_pair]. destruct (qltb (b - a) (d - c)).
  - apply (IH full (pre0 ++ [c; d])).
    + rewrite Hf, <- app_assoc. reflexivity.
    + rewrite app_length. cbn [length]. rewrite Nat.add_comm. cbn [Nat.add Nat.even]. exact He.
    + exists pre0, r. split; [exact Hf|exact He].
  - apply (IH full (pre0 ++ [c; d])).
    + rewrite Hf, <- app_assoc. reflexivity.
    + rewrite app_length. cbn [length]. rewrite Nat.add_comm. cbn [Nat.add Nat.even]. exact He.
    + exact Hp.
Qed.

Lemma ssorted_app a b : ssorted (a ++ b) -> ssorted a /\ ssorted b /\ (forall x y, In x a -> In y b -> x < y).
Proof.
  induction a as [|x a IH]; simpl; [intros H; repeat split; auto; intros ? ? []|].
  intros [Hx Hs]. destruct (IH Hs) as [Ha [Hb Hab]]. repeat split; auto.
  - intros z Hz. apply Hx. apply in_or_app. left. exact Hz.
  - intros u v [<-|Hu] Hv; [apply Hx; apply in_or_app; right; exact Hv|auto].
Qed.

Lemma cgt_all_le m l : (forall z, In z l -> z <= m) -> cgt m l = 0%nat.
Proof.
  unfold cgt. induction l as [|x l IH]; [reflexivity|]. intros H. cbn [filter].
  assert (qltb m x = false) as -> by (apply qltb_false_iff; apply H; left; reflexivity).
  apply IH. intros; apply H; right; assumption.
Qed.
Lemma cgt_all_gt m l : (forall z, In z l -> m < z) -> cgt m l = length l.
Proof.
  unfold cgt. induction l as [|x l IH]; [reflexivity|]. intros H. cbn [filter].
  assert (qltb m x = true) as -> by (apply qltb_iff; apply H; left; reflexivity).
  cbn [length]. f_equal. apply IH. intros; apply H; right; assumption.
Qed.

(* the midpoint of an even pair of a sorted list of even length: strictly inside the pair, an odd
   number of elements to its right, and not an element itself *)
Lemma even_pair_mid xs A B :
  ssorted xs -> Nat.even (length xs) = true -> even_pair xs A B ->
  let m := (A + B) / 2 in
  A < m /\ m < B /\ Nat.odd (cgt m xs) = true /\ memq m xs = false.
Proof.
  intros Hs Hl [pre [post [-> Hpre]]] m.
  destruct (ssorted_app _ _ Hs) as [_ [Hs2 Hlt]].
  cbn [ssorted] in Hs2. destruct Hs2 as [HA [HB _]].
  assert (HAB : A < B) by (apply HA; left; reflexivity).
  assert (Hm1 : A < m) by (unfold m; apply Qlt_shift_div_l; lra).
  assert (Hm2 : m < B) by (unfold m; apply Qlt_shift_div_r; lra).
  split; [exact Hm1|]. split; [exact Hm2|]. split.
  - rewrite cgt_app. rewrite (cgt_all_le m pre).
    2:{ intros z Hz. apply Qlt_le_weak. eapply Qlt_trans; [|exact Hm1]. apply Hlt; [exact Hz|left; reflexivity]. }
    change (A :: B :: post) with ([A] ++ B :: post). rewrite cgt_app.
    rewrite (cgt_all_le m [A]) by (intros z [<-|[]]; apply Qlt_le_weak; exact Hm1).
    rewrite (cgt_all_gt m (B :: post)).
    2:{ intros z [<-|Hz]; [exact Hm2|]. eapply Qlt_trans; [exact Hm2|]. apply HB. exact Hz. }
    rewrite app_length in Hl. cbn [length] in *. cbn [Nat.add].
    rewrite Nat.even_add in Hl. rewrite Hpre in Hl. cbn [Nat.even] in Hl.
    rewrite Nat.odd_succ. destruct (Nat.even (length post)); [reflexivity|discriminate].
  - unfold memq. rewrite existsb_app. apply orb_false_iff. split; apply existsb_false_in; intros z Hz;
      apply Qeq_bool_false_iff; intro E.
    + assert (z < A) by (apply Hlt; [exact Hz|left; reflexivity]). rewrite <- E in H. lra.
    + destruct Hz as [<-|[<-|Hz]]; [lra|lra|]. assert (B < z) by (apply HB; exact Hz). lra.
Qed.

(* ================================================================ one edge against the bisector *)
Definition off_row (e : seg) (y0 : Q) : Prop := ~ snd (fst e) == y0 /\ ~ snd (snd e) == y0.

Lemma straddleb_iff e y0 : straddleb e y0 = true <->
  (snd (fst e) < y0 /\ y0 < snd (snd e)) \/ (snd (snd e) < y0 /\ y0 < snd (fst e)).
Proof.
  unfold straddleb. rewrite orb_true_iff, !andb_true_iff, !qltb_iff. reflexivity.
Qed.

Lemma on_bis x0 x1 y0 p : on_seg ((x0, y0), (x1, y0)) p = true -> snd p == y0 /\ ((x0 <= fst p <= x1) \/ (x1 <= fst p <= x0)).
Proof.
  unfold on_seg. cbn [fst snd]. intros H. apply andb_prop in H. destruct H as [H _]. apply andb_prop in H.
  destruct H as [Hx Hy]. apply qbetween_iff in Hx, Hy. split; [lra|exact Hx].
Qed.
Lemma on_bis_intro x0 x1 y0 p : x0 <= fst p <= x1 -> snd p == y0 -> on_seg ((x0, y0), (x1, y0)) p = true.
Proof.
  intros Hx Hy. unfold on_seg. cbn [fst snd]. rewrite !andb_true_iff. repeat split.
  - apply qbetween_iff. left. exact Hx.
  - apply qbetween_iff. left. lra.
  - apply Qeq_bool_iff. unfold cross. cbn [fst snd]. rewrite Hy. ring.
Qed.

Lemma on_seg_parts a b p : on_seg (a, b) p = true ->
  ((snd a <= snd p <= snd b) \/ (snd b <= snd p <= snd a)) /\ cross a b p == 0.
Proof.
  unfold on_seg. intros H. apply andb_prop in H. destruct H as [H Hc]. apply andb_prop in H. destruct H as [_ Hy].
  apply qbetween_iff in Hy. apply Qeq_bool_iff in Hc. split; assumption.
Qed.

(* a point of the edge on the row has abscissa cx *)
Lemma on_edge_row_cx a b p y0 : ~ snd a == snd b -> on_seg (a, b) p = true -> snd p == y0 -> fst p == cx (a, b) y0.
Proof.
  intros Hne H Hy. apply on_seg_parts in H. destruct H as [_ Hc]. unfold cross in Hc. unfold cx. cbn [fst snd].
  assert (Hd : ~ snd b - snd a == 0) by (intro E; apply Hne; lra).
  assert (E : (y0 - snd a) * (fst b - fst a) / (snd b - snd a) == fst p - fst a).
  { apply Qdiv_mult_eq; [exact Hd|]. rewrite Hy in Hc. lra. }
  rewrite E. ring.
Qed.

Lemma intercept_none bis_x0 bis_x1 y0 e :
  off_row e y0 -> straddleb e y0 = false -> intercept ((bis_x0, y0), (bis_x1, y0)) e = [].
Proof.
  intros [Ha Hb] Hs. unfold intercept.
  assert (G : forall p, In p (ssr_points (seg_seg e ((bis_x0, y0), (bis_x1, y0)))) -> False).
  { intros p Hp. apply seg_seg_sound in Hp. destruct Hp as [He Hbis]. apply on_bis in Hbis. destruct Hbis as [Hy _].
    destruct e as [a b]. apply on_seg_parts in He. destruct He as [Hbt _]. cbn [fst snd] in *.
    apply not_true_iff_false in Hs. apply Hs. apply straddleb_iff. cbn [fst snd].
    destruct Hbt as [[H1 H2]|[H1 H2]]; [left|right]; split; apply Qnot_le_lt; intro H3;
      ((apply Ha; lra) || (apply Hb; lra)). }
  destruct (seg_seg e _) as [|p|p q]; [reflexivity|exfalso; apply (G p); left; reflexivity|exfalso; apply (G p); left; reflexivity].
Qed.

(* the point of a straddling edge on the row *)
Lemma straddle_point_on_edge a b y0 :
  straddleb (a, b) y0 = true -> on_seg (a, b) (cx (a, b) y0, y0) = true.
Proof.
  intros Hs. apply straddleb_iff in Hs. cbn [fst snd] in Hs.
  assert (Hd : ~ snd b - snd a == 0) by (intro E; lra).
  apply on_seg_iff. exists ((y0 - snd a) / (snd b - snd a)).
  set (d := snd b - snd a) in *. set (n := y0 - snd a).
  assert (Ht : (n / d) * d == n) by (field; exact Hd).
  set (t := n / d) in *.
  unfold seg_param. cbn [fst snd]. split; [|split].
  - unfold n, d in *. destruct Hs as [[H1 H2]|[H1 H2]]; split; nra.
  - unfold cx. cbn [fst snd]. fold d. fold n. unfold t. field. exact Hd.
  - unfold n, d in Ht. lra.
Qed.

Lemma intercept_some x0 x1 y0 e :
  straddleb e y0 = true -> x0 <= cx e y0 <= x1 ->
  exists x, intercept ((x0, y0), (x1, y0)) e = [x] /\ x == cx e y0.
Proof.
  intros Hs Hx. destruct e as [a b].
  assert (Hne : ~ snd a == snd b).
  { apply straddleb_iff in Hs. cbn [fst snd] in Hs. intro E. lra. }
  pose proof (straddle_point_on_edge a b y0 Hs) as Hon.
  pose proof (on_bis_intro x0 x1 y0 (cx (a, b) y0, y0) Hx (Qeq_refl _)) as Hbis.
  pose proof (seg_seg_complete _ _ _ Hon Hbis) as Hnon.
  unfold intercept.
  assert (G : forall p, In p (ssr_points (seg_seg (a, b) ((x0, y0), (x1, y0)))) -> fst p == cx (a, b) y0).
  { intros p Hp. apply seg_seg_sound in Hp. destruct Hp as [He Hb]. apply on_bis in Hb. destruct Hb as [Hy _].
    apply (on_edge_row_cx a b p y0 Hne He Hy). }
  destruct (seg_seg (a, b) _) as [|p|p q]; [congruence| |]; eexists; (split; [reflexivity|apply G; left; reflexivity]).
Qed.

Lemma edge_cross_straddle a b mx y0 :
  straddleb (a, b) y0 = true -> edge_cross a b (mx, y0) = qltb mx (cx (a, b) y0).
Proof.
  intros Hs. apply straddleb_iff in Hs. cbn [fst snd] in Hs.
  assert (Hd : ~ snd b - snd a == 0) by (intro E; lra).
  unfold edge_cross, cx. cbn [fst snd].
  set (d := snd b - snd a) in *. set (N := (y0 - snd a) * (fst b - fst a)).
  assert (Hk : d * (N / d) == N) by (field; exact Hd).
  set (k := N / d) in *.
  destruct Hs as [[H1 H2]|[H1 H2]].
  - assert (Qle_bool (snd a) y0 = true) as -> by (apply Qle_bool_iff; lra).
    assert (Qle_bool (snd b) y0 = false) as ->.
    { apply not_true_iff_false. intro E. apply Qle_bool_iff in E. lra. }
    cbn [Bool.eqb]. unfold cross. cbn [fst snd].
    destruct (qltb mx (fst a + k)) eqn:E.
    + apply qltb_iff in E. apply qltb_iff. unfold N, d in *. nra.
    + apply qltb_false_iff in E. apply qltb_false_iff. unfold N, d in *. nra.
  - assert (Qle_bool (snd a) y0 = false) as ->.
    { apply not_true_iff_false. intro E. apply Qle_bool_iff in E. lra. }
    assert (Qle_bool (snd b) y0 = true) as -> by (apply Qle_bool_iff; lra).
    cbn [Bool.eqb]. unfold cross. cbn [fst snd].
    assert (Hid : (fst a - fst b) * (y0 - snd b) - (snd a - snd b) * (mx - fst b) == (- d) * (fst a + k - mx)).
    { transitivity ((fst a - fst b) * (y0 - snd b) - (snd a - snd b) * (mx - fst b) + (N - d * k)); [rewrite Hk; ring|].
      unfold N, d. ring. }
    destruct (qltb mx (fst a + k)) eqn:E.
    + apply qltb_iff in E. apply qltb_iff. rewrite Hid. unfold d in *. nra.
    + apply qltb_false_iff in E. apply qltb_false_iff. rewrite Hid. unfold d in *. nra.
Qed.

Lemma edge_cross_no_straddle a b mx y0 :
  off_row (a, b) y0 -> straddleb (a, b) y0 = false -> edge_cross a b (mx, y0) = false.
Proof.
  intros [Ha Hb] Hs. cbn [fst snd] in *. unfold edge_cross. cbn [fst snd].
  destruct (Qle_bool (snd a) y0) eqn:Ea; destruct (Qle_bool (snd b) y0) eqn:Eb; try reflexivity; exfalso;
    apply not_true_iff_false in Hs; apply Hs; apply straddleb_iff; cbn [fst snd].
  - apply Qle_bool_iff in Ea. apply not_true_iff_false in Eb. left. split.
    + apply Qnot_le_lt. intro H. apply Ha. lra.
    + apply Qnot_le_lt. intro H. apply Eb. apply Qle_bool_iff. exact H.
  - apply Qle_bool_iff in Eb. apply not_true_iff_false in Ea. right. split.
    + apply Qnot_le_lt. intro H. apply Hb. lra.
    + apply Qnot_le_lt. intro H. apply Ea. apply Qle_bool_iff. exact H.
Qed.

Lemma edge_cross_degenerate a b m : pt_eqb a b = true -> edge_cross a b m = false.
Proof.
  intros H. apply pt_eqb_iff in H. destruct H as [_ Hy]. unfold edge_cross. rewrite Hy.
  destruct (Qle_bool (snd b) (snd m)); reflexivity.
Qed.

(* ================================================================ crossings of an edge list = intercepts to the right *)
Definition crossing (m : pt) (e : seg) : bool := edge_cross (fst e) (snd e) m.
Definition ncross (m : pt) (es : list seg) : nat := length (filter (crossing m) es).

Lemma edges_parity_ncross es m : edges_parity es m = Nat.odd (ncross m es).
Proof.
  unfold edges_parity, ncross.
  assert (G : forall acc, fold_left (fun acc e => xorb acc (edge_cross (fst e) (snd e) m)) es acc
                          = xorb acc (Nat.odd (length (filter (crossing m) es)))).
  { induction es as [|e es IH]; intros acc; simpl; [rewrite xorb_false_r; reflexivity|].
    rewrite IH. unfold crossing at 2. destruct (edge_cross (fst e) (snd e) m); simpl.
    - rewrite Nat.odd_succ, <- Nat.negb_odd. destruct acc, (Nat.odd _); reflexivity.
    - rewrite xorb_false_r. reflexivity. }
  rewrite G. apply xorb_false_l.
Qed.


Lemma ncross_intercepts x0 x1 y0 mx es :
  (forall e, In e es -> off_row e y0) -> row_spans_edges x0 x1 y0 es = true ->
  ncross (mx, y0) es = cgt mx (flat_map (intercept ((x0, y0), (x1, y0))) es).
Proof.
  unfold ncross. induction es as [|e es IH]; intros Hoff Hsp; [reflexivity|].
  cbn [row_spans_edges forallb] in Hsp. apply andb_prop in Hsp. destruct Hsp as [He Hsp].
  cbn [filter flat_map]. rewrite cgt_app. rewrite <- IH by (auto; intros; apply Hoff; right; assumption).
  destruct e as [a b]. unfold crossing at 1. cbn [fst snd].
  destruct (straddleb (a, b) y0) eqn:Es.
  - apply andb_prop in He. destruct He as [H0 H1]. apply Qle_bool_iff in H0, H1.
    destruct (intercept_some x0 x1 y0 (a, b) Es (conj H0 H1)) as [x [-> Ex]].
    rewrite (edge_cross_straddle a b mx y0 Es). unfold cgt at 1. cbn [filter].
    rewrite (qltb_proper_r mx x _ Ex). destruct (qltb mx (cx (a, b) y0)); reflexivity.
  - rewrite (intercept_none x0 x1 y0 (a, b) (Hoff _ (or_introl eq_refl)) Es).
    rewrite (edge_cross_no_straddle a b mx y0 (Hoff _ (or_introl eq_refl)) Es). reflexivity.
Qed.

(* degenerate edges never cross *)
Lemma ncross_filter_nondegenerate m es :
  ncross m (filter (fun s => negb (pt_eqb (fst s) (snd s))) es) = ncross m es.
Proof.
  unfold ncross. induction es as [|e es IH]; [reflexivity|]. cbn [filter].
  destruct (pt_eqb (fst e) (snd e)) eqn:E; cbn [negb filter].
  - unfold crossing at 2. rewrite (edge_cross_degenerate _ _ m E). exact IH.
  - destruct (crossing m e); cbn [length]; rewrite IH; reflexivity.
Qed.

Lemma ncross_line_segs m (r : lineT Q) : ncross m (line_segs r) = ncross m (ring_lines r).
Proof.
  unfold ring_lines, line_segs, segs_of_pts. rewrite ncross_filter_nondegenerate.
  destruct (line_pts r) as [|p [|q l]]; try reflexivity.
  unfold ncross. cbn [filter ring_edges]. unfold crossing. cbn [fst snd].
  rewrite (edge_cross_degenerate p p m (pt_eqb_refl p)). reflexivity.
Qed.

(* end points of the edges of a ring are control points of the ring *)
Lemma ring_edges_ends ps e : In e (ring_edges ps) -> In (fst e) ps /\ In (snd e) ps.
Proof.
  induction ps as [|a [|b r] IH]; simpl; try tauto.
  intros [<-|H]; [cbn; auto|]. destruct (IH H) as [H1 H2]. auto.
Qed.
Lemma line_segs_ends (r : lineT Q) e : In e (line_segs r) -> In (fst e) (line_pts r) /\ In (snd e) (line_pts r).
Proof.
  unfold line_segs, segs_of_pts. destruct (line_pts r) as [|p [|q l]] eqn:E.
  - intros [].
  - intros [<-|[]]. cbn. auto.
  - apply ring_edges_ends.
Qed.
Lemma ring_lines_ends (r : lineT Q) e : In e (ring_lines r) -> In (fst e) (line_pts r) /\ In (snd e) (line_pts r).
Proof. unfold ring_lines. intros H. apply filter_In in H. destruct H as [H _]. apply ring_edges_ends. exact H. Qed.

(* ================================================================ all rings together *)
Definition xor_list (l : list bool) : bool := fold_right xorb false l.
Lemma xor_list_filter {A} (f : A -> bool) l : xor_list (map f l) = Nat.odd (length (filter f l)).
Proof.
  induction l as [|a l IH]; [reflexivity|]. cbn [map xor_list fold_right filter]. fold (xor_list (map f l)). rewrite IH.
  destruct (f a); cbn [length]; [rewrite Nat.odd_succ, <- Nat.negb_odd; destruct (Nat.odd _); reflexivity|apply xorb_false_l].
Qed.

Definition ring_pts_off_row (y0 : Q) (rings : list (lineT Q)) : Prop :=
  forall r q, In r rings -> In q (line_pts r) -> ~ snd q == y0.

Lemma rings_parity_intercepts x0 x1 y0 mx rings :
  ring_pts_off_row y0 rings -> row_spans x0 x1 y0 rings = true ->
  xor_list (map (fun r => edges_parity (line_segs r) (mx, y0)) rings)
  = Nat.odd (cgt mx (raw_intercepts ((x0, y0), (x1, y0)) rings)).
Proof.
  unfold raw_intercepts. induction rings as [|r rings IH]; intros Hoff Hsp; [reflexivity|].
  cbn [row_spans forallb] in Hsp. apply andb_prop in Hsp. destruct Hsp as [Hr Hsp].
  cbn [map xor_list fold_right flat_map]. fold (xor_list (map (fun r => edges_parity (line_segs r) (mx, y0)) rings)).
  rewrite IH; [|intros r' q Hr' Hq; apply (Hoff r' q); [right; exact Hr'|exact Hq]|exact Hsp].
  rewrite cgt_app, Nat.odd_add. f_equal.
  rewrite edges_parity_ncross, ncross_line_segs. f_equal.
  apply ncross_intercepts; [|exact Hr].
  intros e He. apply ring_lines_ends in He. destruct He as [H1 H2].
  split; apply (Hoff r); auto; left; reflexivity.
Qed.

(* ================================================================ the row avoids every control point *)
Definition na_step (y : Q) (acc : option Q) (v : Q) : option Q :=
  if qltb y v then match acc with None => Some v | Some n => if qltb v n then Some v else acc end else acc.
Lemma next_above_fold y ys : next_above y ys = fold_left (na_step y) ys None.
Proof. reflexivity. Qed.

Lemma next_above_gen y ys : forall acc,
  match acc with Some a => y < a | None => True end ->
  match fold_left (na_step y) ys acc with
  | Some n => y < n /\ (forall v, In v ys -> y < v -> n <= v) /\ match acc with Some a => n <= a | None => True end
  | None => acc = None /\ forall v, In v ys -> v <= y
  end.
Proof.
  induction ys as [|v0 ys IH]; intros acc Hacc; cbn [fold_left].
  - destruct acc as [a|]; [repeat split; [exact Hacc|intros ? []|apply Qle_refl]|split; [reflexivity|intros ? []]].
  - unfold na_step at 2. destruct (qltb y v0) eqn:E.
    + apply qltb_iff in E. destruct acc as [a|].
      * destruct (qltb v0 a) eqn:E2.
        -- apply qltb_iff in E2. specialize (IH (Some v0) E).
           destruct (fold_left (na_step y) ys (Some v0)) as [n|]; [|destruct IH; discriminate].
           destruct IH as [H1 [H2 H3]]. repeat split; [exact H1| |lra].
           intros v [<-|Hv] Hy; [exact H3|auto].
        -- apply qltb_false_iff in E2. specialize (IH (Some a) Hacc).
           destruct (fold_left (na_step y) ys (Some a)) as [n|]; [|destruct IH; discriminate].
           destruct IH as [H1 [H2 H3]]. repeat split; [exact H1| |exact H3].
           intros v [<-|Hv] Hy; [lra|auto].
      * specialize (IH (Some v0) E).
        destruct (fold_left (na_step y) ys (Some v0)) as [n|]; [|destruct IH; discriminate].
        destruct IH as [H1 [H2 H3]]. repeat split; [exact H1|].
        intros v [<-|Hv] Hy; [exact H3|auto].
    + apply qltb_false_iff in E. specialize (IH acc Hacc).
      destruct (fold_left (na_step y) ys acc) as [n|].
      * destruct IH as [H1 [H2 H3]]. repeat split; [exact H1| |exact H3].
        intros v [<-|Hv] Hy; [lra|auto].
      * destruct IH as [H1 H2]. split; [exact H1|]. intros v [<-|Hv]; [exact E|auto].
Qed.

Lemma row_y_off lo hi ys my : row_y lo hi ys = Some my -> forall v, In v ys -> ~ v == my.
Proof.
  unfold row_y. set (mid := (lo + hi) * (1 # 2)).
  destruct (existsb (fun v => Qeq_bool v mid) ys) eqn:Em.
  - rewrite next_above_fold. pose proof (next_above_gen mid ys None I) as G.
    destruct (fold_left (na_step mid) ys None) as [n|]; [|discriminate].
    destruct G as [H1 [H2 _]]. intros E. injection E as <-. intros v Hv Ev.
    assert (Hlt : mid < (mid + n) / 2 /\ (mid + n) / 2 < n).
    { split; [apply Qlt_shift_div_l; lra|apply Qlt_shift_div_r; lra]. }
    destruct (Qlt_le_dec mid v) as [Hgt|Hle].
    + specialize (H2 v Hv Hgt). lra.
    + lra.
  - intros E. injection E as <-. intros v Hv Ev.
    assert (existsb (fun v => Qeq_bool v mid) ys = true); [|congruence].
    apply existsb_exists. exists v. split; [exact Hv|apply Qeq_bool_iff; exact Ev].
Qed.

Lemma poly_row_inv y ri : poly_row y = Some ri ->
  exists shell rest p0 pr x0 x1,
    poly_rings y = shell :: rest /\ line_pts shell = p0 :: pr /\
    r_bis ri = ((x0, r_y ri), (x1, r_y ri)) /\
    r_xs ri = isort (raw_intercepts (r_bis ri) (poly_rings y)) /\
    ring_pts_off_row (r_y ri) (poly_rings y).
Proof.
  unfold poly_row. destruct (poly_rings y) as [|shell rest] eqn:Er; [discriminate|].
  destruct (line_pts shell) as [|p0 pr] eqn:Ep; [discriminate|].
  destruct (row_y _ _ _) as [my|] eqn:Ey; [|discriminate]. intros E. injection E as <-. cbn [r_y r_bis r_xs].
  exists shell, rest, p0, pr. eexists. eexists.
  split; [reflexivity|]. split; [exact Ep|]. split; [reflexivity|]. split; [reflexivity|].
  intros r q Hr Hq. apply (row_y_off _ _ _ _ Ey). apply in_flat_map. exists r. split; [exact Hr|].
  apply in_map. exact Hq.
Qed.

(* ================================================================ the returned point is on no ring *)
Lemma memq_flat_map {A} z (f : A -> list Q) l e : In e l -> memq z (f e) = true -> memq z (flat_map f l) = true.
Proof.
  intros He Hm. unfold memq in *. apply existsb_exists in Hm. destruct Hm as [x [Hx Hz]].
  apply existsb_exists. exists x. split; [|exact Hz]. apply in_flat_map. exists e. auto.
Qed.

Lemma not_on_rings x0 x1 y0 mx rings :
  ring_pts_off_row y0 rings -> row_spans x0 x1 y0 rings = true ->
  memq mx (raw_intercepts ((x0, y0), (x1, y0)) rings) = false ->
  forall r, In r rings -> on_edges (line_segs r) (mx, y0) = false.
Proof.
  intros Hoff Hsp Hmem r Hr. unfold on_edges. apply existsb_false_in. intros [a b] He.
  apply not_true_iff_false. intro Hon.
  pose proof (line_segs_ends r (a, b) He) as [Ha Hb]. cbn [fst snd] in Ha, Hb.
  pose proof (Hoff r a Hr Ha) as Haoff. pose proof (Hoff r b Hr Hb) as Hboff.
  destruct (pt_eqb a b) eqn:Eab.
  - apply pt_eqb_iff in Eab. pose proof (on_seg_degenerate a b (mx, y0) Eab Hon) as [_ Hy]. cbn [snd] in Hy.
    apply Haoff. symmetry. exact Hy.
  - (* a proper edge through the point: it straddles the row and its intercept is mx *)
    assert (Hin : In (a, b) (ring_lines r)).
    { unfold ring_lines. apply filter_In. split; [|cbn [fst snd]; rewrite Eab; reflexivity].
      unfold line_segs, segs_of_pts in He. destruct (line_pts r) as [|p [|q l]]; try exact He.
      destruct He as [E|[]]. injection E as <- <-. rewrite pt_eqb_refl in Eab. discriminate. }
    pose proof (on_seg_parts a b (mx, y0) Hon) as [Hbt _]. cbn [snd] in Hbt.
    assert (Hs : straddleb (a, b) y0 = true).
    { apply straddleb_iff. cbn [fst snd].
      destruct Hbt as [[H1 H2]|[H1 H2]]; [left|right]; split; apply Qnot_le_lt; intro H3;
        ((apply Haoff; lra) || (apply Hboff; lra)). }
    assert (Hne : ~ snd a == snd b).
    { apply straddleb_iff in Hs. cbn [fst snd] in Hs. intro E. lra. }
    pose proof (on_edge_row_cx a b (mx, y0) y0 Hne Hon (Qeq_refl _)) as Hcx. cbn [fst] in Hcx.
    unfold row_spans in Hsp. rewrite forallb_forall in Hsp. specialize (Hsp r Hr).
    unfold row_spans_edges in Hsp. rewrite forallb_forall in Hsp. specialize (Hsp (a, b) Hin). rewrite Hs in Hsp.
    apply andb_prop in Hsp. destruct Hsp as [H0 H1]. apply Qle_bool_iff in H0, H1.
    destruct (intercept_some x0 x1 y0 (a, b) Hs (conj H0 H1)) as [x [Ei Ex]].
    assert (memq mx (raw_intercepts ((x0, y0), (x1, y0)) rings) = true); [|congruence].
    unfold raw_intercepts. apply (memq_flat_map mx _ rings r Hr).
    apply (memq_flat_map mx _ (ring_lines r) (a, b) Hin). rewrite Ei. unfold memq. cbn [existsb].
    assert (Qeq_bool mx x = true) as -> by (apply Qeq_bool_iff; rewrite Ex; exact Hcx). reflexivity.
Qed.

(* ================================================================ the returned point is strictly interior *)
Lemma filter_map_length {A B} (f : A -> B) (g : B -> bool) l :
  length (filter g (map f l)) = length (filter (fun x => g (f x)) l).
Proof. induction l as [|a l IH]; [reflexivity|]. cbn [map filter]. destruct (g (f a)); cbn [length]; rewrite IH; reflexivity. Qed.

Lemma filter_nil_all_false {A} (f : A -> bool) l : length (filter f l) = 0%nat -> forall x, In x l -> f x = false.
Proof.
  induction l as [|a l IH]; intros H x Hx; [destruct Hx|].
  cbn [filter] in H. destruct (f a) eqn:E; [discriminate|].
  destruct Hx as [<-|Hx]; [exact E|apply IH; assumption].
Qed.

Theorem pos_areal_interior_lemma (y : polyT Q) (ri : row_info) (p : pt) :
  poly_row y = Some ri ->
  xs_regular (r_xs ri) = true ->
  row_spans (fst (fst (r_bis ri))) (fst (snd (r_bis ri))) (r_y ri) (poly_rings y) = true ->
  nodupq (raw_intercepts (r_bis ri) (poly_rings y)) = true ->
  valid_nesting y ->
  point_xy (fst (point_on_area y)) = Some p ->
  poly_interior y p = true /\ locate (GPoly y) p = Interior.
Proof.
  intros Hrow Hreg Hsp Hnd Hnest Hp.
  destruct (poly_row_inv y ri Hrow) as [shell [rest [p0 [pr [x0 [x1 [Er [Ep [Ebis [Exs Hoff]]]]]]]]]].
  rewrite (isort_qsort _ Hnd) in Exs.
  (* the returned point *)
  unfold point_on_area in Hp. rewrite Er, Ep, Hrow, Hreg in Hp.
  destruct (r_xs ri) as [|a [|b rest']] eqn:Exs'; [discriminate|discriminate|].
  destruct (best_pair a b rest') as [A B] eqn:Ebp.
  set (y0 := r_y ri) in *.
  (* the interval *)
  assert (Hev : even_pair (a :: b :: rest') A B).
  { pose proof (best_pair_even_pair rest' (a :: b :: rest') [a; b] a b eq_refl eq_refl) as G.
    rewrite Ebp in G. apply G. exists [], rest'. split; reflexivity. }
  assert (Hss : ssorted (a :: b :: rest')) by (rewrite Exs; apply qsort_ssorted).
  assert (Hlen : Nat.even (length (a :: b :: rest')) = true).
  { unfold xs_regular in Hreg. apply andb_prop in Hreg. destruct Hreg as [_ H]. exact H. }
  destruct (even_pair_mid _ A B Hss Hlen Hev) as [HAm [HmB [Hodd Hmem]]].
  assert (HAB : Qeq_bool A B = false).
  { apply Qeq_bool_false_iff. intro HE. pose proof (Qlt_trans _ _ _ HAm HmB) as Hlt. rewrite HE in Hlt.
    exact (Qlt_irrefl _ Hlt). }
  rewrite HAB in Hp. cbn [fst point_xy xy_point point_c option_map vpt vx vy] in Hp.
  injection Hp as <-.
  set (mx := (A + B) / 2) in *.
  rewrite Exs in Hodd, Hmem. rewrite cgt_qsort in Hodd by exact Hnd. rewrite memq_qsort in Hmem.
  rewrite Ebis in *. cbn [fst snd] in Hsp.
  (* parity over all rings, and not on any ring *)
  pose proof (rings_parity_intercepts x0 x1 y0 mx (poly_rings y) Hoff Hsp) as Hxor. rewrite Hodd in Hxor.
  pose proof (not_on_rings x0 x1 y0 mx (poly_rings y) Hoff Hsp Hmem) as Hnot.
  (* conclude with the nesting *)
  assert (Hint : poly_interior y (mx, y0) = true).
  { unfold poly_interior, poly_ring_segs. specialize (Hnest (mx, y0)). unfold poly_ring_segs in Hnest.
    rewrite Er in *. cbn [map] in *.
    assert (Hb : rings_boundary (line_segs shell :: map line_segs rest) (mx, y0) = false).
    { unfold rings_boundary. change (line_segs shell :: map line_segs rest) with (map line_segs (shell :: rest)).
      rewrite existsb_map. apply existsb_false_in. intros r Hr. apply Hnot. exact Hr. }
    specialize (Hnest Hb). unfold nesting_at, poly_ring_segs in Hnest. rewrite Er in Hnest. cbn [map] in Hnest. cbn zeta in Hnest. rewrite filter_map_length in Hnest.
    cbn [xor_list fold_right] in Hxor. fold (xor_list (map (fun r => edges_parity (line_segs r) (mx, y0)) rest)) in Hxor.
    rewrite xor_list_filter in Hxor.
    set (k := length (filter (fun r => edges_parity (line_segs r) (mx, y0)) rest)) in *.
    destruct Hnest as [Hk1 Hk2].
    assert (Hk0 : k = 0%nat).
    { destruct k as [|[|k']]; [reflexivity| |lia]. rewrite (Hk2 eq_refl) in Hxor. discriminate. }
    rewrite Hk0 in Hxor. cbn [Nat.odd] in Hxor. rewrite xorb_false_r in Hxor.
    cbn [rings_interior]. apply andb_true_iff. split.
    - unfold ring_strict_in. rewrite (Hnot shell (or_introl eq_refl)), Hxor. reflexivity.
    - rewrite forallb_map. apply forallb_forall. intros h Hh. unfold ring_strict_out.
      rewrite (Hnot h (or_intror Hh)). cbn [negb andb].
      rewrite (filter_nil_all_false _ rest Hk0 h Hh). reflexivity. }
  split; [exact Hint|].
  unfold locate, prep, locate_p. cbn [g_polys map existsb pg_polys].
  unfold poly_interior in Hint. change (vpt {| vx := mx; vy := y0; vz := 0; vm := 0 |}) with (mx, y0).
  rewrite Hint. reflexivity.
Qed.

(* ================================================================ emptiness of the result *)
Lemma start_point_empty (l : lineT Q) : point_empty (start_point l) = line_empty l.
Proof. destruct l as [ct [|a r]]; reflexivity. Qed.
Lemma end_point_empty (l : lineT Q) : point_empty (end_point l) = line_empty l.
Proof. destruct l as [ct [|a r]]; reflexivity. Qed.
Lemma inner_points_of_empty (l : lineT Q) : line_empty l = true -> inner_points l = [].
Proof. destruct l as [ct [|a r]]; [reflexivity|discriminate]. Qed.

Lemma mpoly_pos_fold_empty ys : forall st,
  (forall y, In y ys -> poly_empty y = true) -> fold_left mp_step ys st = st.
Proof.
  induction ys as [|y ys IH]; intros st H; [reflexivity|]. cbn [fold_left].
  rewrite IH by (intros; apply H; right; assumption).
  pose proof (H y (or_introl eq_refl)) as Hy. destruct y as [ct [|r rs]]; [reflexivity|discriminate].
Qed.

Section WithCen2.
  Variable cen : geom -> option pt.

  Lemma leaf_pos_of_empty (g : geom) : is_empty g = true -> point_empty (leaf_pos cen g) = true.
  Proof.
    destruct g; cbn [is_empty leaf_pos]; intros He; try reflexivity.
    - rewrite point_empty_point2d. exact He.
    - unfold line_pos. rewrite (inner_points_of_empty l He). cbn [consider_all fold_left nacc0 fst point_empty point_c empty_point negb].
      rewrite consider_all_empties; [reflexivity|].
      intros c [<-|[<-|[]]]; rewrite point_empty_point2d; [rewrite start_point_empty|rewrite end_point_empty]; exact He.
    - destruct p as [ct [|r rs]]; [reflexivity|discriminate].
    - unfold mpoint_pos. rewrite consider_all_empties; [reflexivity|].
      intros c Hc. apply in_map_iff in Hc. destruct Hc as [q [<- Hq]]. rewrite point_empty_point2d.
      rewrite forallb_forall in He. auto.
    - rewrite forallb_forall in He. unfold mline_pos.
      rewrite (consider_all_empties _ (flat_map inner_points ls)).
      2:{ intros c Hc. apply in_flat_map in Hc. destruct Hc as [l [Hl Hc]].
          rewrite (inner_points_of_empty l (He l Hl)) in Hc. destruct Hc. }
      cbn [nacc0 fst point_empty point_c empty_point negb].
      rewrite consider_all_empties; [reflexivity|].
      intros c Hc. apply in_flat_map in Hc. destruct Hc as [l [Hl Hc]].
      destruct Hc as [<-|[<-|[]]]; rewrite point_empty_point2d; [rewrite start_point_empty|rewrite end_point_empty]; auto.
    - rewrite forallb_forall in He. unfold mpoly_pos. rewrite mpoly_pos_fold_empty; [reflexivity|exact He].
  Qed.

  Lemma leaves_of_empty (g : geom) : is_empty g = true -> forall l, In l (leaves g) -> is_empty l = true.
  Proof.
    induction g using geomT_ind'; cbn [leaves]; intros He l0 Hl; try (destruct Hl as [<-|[]]; exact He).
    apply in_flat_map in Hl. destruct Hl as [x [Hx Hl]]. rewrite Forall_forall in H.
    cbn [is_empty] in He. rewrite forallb_forall in He. apply (H x Hx (He x Hx)). exact Hl.
  Qed.

  Lemma pos_of_empty (g : geom) : is_empty g = true -> point_empty (pos cen g) = true.
  Proof.
    intros He. destruct g; try (apply leaf_pos_of_empty; exact He).
    cbn [pos]. unfold coll_pos. rewrite consider_all_empties; [reflexivity|].
    intros c Hc. apply in_map_iff in Hc. destruct Hc as [l [<- Hl]]. apply filter_In in Hl. destruct Hl as [Hl _].
    apply leaf_pos_of_empty. apply (leaves_of_empty _ He). exact Hl.
  Qed.

  (* ---- non-empty input gives a point *)
  Hypothesis cen_total : forall x, is_empty x = false -> cen x <> None.

  Lemma mp_step_keeps st y : point_empty (fst st) = false -> point_empty (fst (mp_step st y)) = false.
  Proof.
    unfold mp_step. intros H. destruct (point_on_area y) as [p w].
    destruct (point_empty p) eqn:Ep; [exact H|]. destruct (point_empty (fst st) || qltb (snd st) w); [exact Ep|exact H].
  Qed.
  Lemma mp_fold_keeps ys : forall st, point_empty (fst st) = false -> point_empty (fst (fold_left mp_step ys st)) = false.
  Proof. induction ys as [|y ys IH]; intros st H; [exact H|]. apply IH, mp_step_keeps, H. Qed.
  (* a member with a non-empty candidate makes the result non-empty *)
  Lemma mp_fold_picks ys : forall st,
    existsb (fun y => negb (point_empty (fst (point_on_area y)))) ys = true ->
    point_empty (fst (fold_left mp_step ys st)) = false.
  Proof.
    induction ys as [|y ys IH]; intros st Hex; [discriminate|]. cbn [existsb fold_left] in *.
    destruct (point_empty (fst (point_on_area y))) eqn:Ey; cbn [negb orb] in Hex.
    - apply IH. exact Hex.
    - apply mp_fold_keeps. unfold mp_step. destruct (point_on_area y) as [p w]. cbn [fst] in Ey. rewrite Ey.
      destruct (point_empty (fst st)) eqn:Es; cbn [orb]; [exact Ey|].
      destruct (qltb (snd st) w); [exact Ey|exact Es].
  Qed.

  (* a well-formed non-empty polygon always yields a point *)
  Lemma point_on_area_nonempty (y : polyT Q) :
    poly_wf y = true -> poly_empty y = false -> point_empty (fst (point_on_area y)) = false.
  Proof.
    intros Hwf He. destruct y as [ct [|sh rs]]; [discriminate|]. unfold poly_wf in Hwf. cbn [poly_rings forallb] in Hwf.
    apply andb_prop in Hwf. destruct Hwf as [Hsh _]. apply ring_ok_nonempty in Hsh.
    unfold point_on_area. cbn [poly_rings]. destruct sh as [c [|v vs]]; [discriminate|].
    unfold line_pts. cbn [line_vs map].
    destruct (poly_row _) as [ri|]; [|reflexivity].
    destruct (xs_regular (r_xs ri)); [|reflexivity].
    destruct (r_xs ri) as [|a [|b rest]]; try reflexivity. destruct (best_pair a b rest) as [A B].
    destruct (Qeq_bool A B); reflexivity.
  Qed.

  Lemma exists_nonempty {A} (f : A -> bool) l : forallb f l = false -> exists x, In x l /\ f x = false.
  Proof.
    induction l as [|a l IH]; [discriminate|]. cbn [forallb]. destruct (f a) eqn:E.
    - intros H. destruct (IH H) as [x [Hx Hf]]. exists x. split; [right; exact Hx|exact Hf].
    - intros _. exists a. split; [left; reflexivity|exact E].
  Qed.

  Lemma leaf_pos_of_nonempty (g : geom) :
    geom_wf g = true -> (forall ct gs, g <> GColl ct gs) ->
    is_empty g = false -> point_empty (leaf_pos cen g) = false.
  Proof.
    intros Hwf Hnc He. pose proof (cen_total g He) as Hc.
    destruct g; cbn [is_empty leaf_pos geom_wf] in *.
    - rewrite point_empty_point2d. exact He.
    - unfold line_pos. destruct (cen (GLine l)) as [t|]; [|congruence].
      destruct (negb (point_empty (fst (consider_all (Some t) nacc0 (inner_points l))))) eqn:E1.
      + apply negb_true_iff in E1. exact E1.
      + apply consider_all_picks. exists (point2d (start_point l)). split; [left; reflexivity|].
        rewrite point_empty_point2d, start_point_empty. exact He.
    - apply point_on_area_nonempty; assumption.
    - unfold mpoint_pos. destruct (cen (GMPoint ct ps)) as [t|]; [|congruence].
      apply consider_all_picks. destruct (exists_nonempty _ _ He) as [q [Hq Hne]].
      exists (point2d q). split; [apply in_map; exact Hq|rewrite point_empty_point2d; exact Hne].
    - unfold mline_pos. destruct (cen (GMLine ct ls)) as [t|]; [|congruence].
      destruct (negb (point_empty (fst (consider_all (Some t) nacc0 (flat_map inner_points ls))))) eqn:E1.
      + apply negb_true_iff in E1. exact E1.
      + apply consider_all_picks. destruct (exists_nonempty _ _ He) as [l [Hl Hne]].
        exists (point2d (start_point l)). split.
        * apply in_flat_map. exists l. split; [exact Hl|left; reflexivity].
        * rewrite point_empty_point2d, start_point_empty. exact Hne.
    - unfold mpoly_pos. apply mp_fold_picks. destruct (exists_nonempty _ _ He) as [y [Hy Hne]].
      apply existsb_exists. exists y. split; [exact Hy|]. rewrite forallb_forall in Hwf.
      rewrite (point_on_area_nonempty y (Hwf y Hy) Hne). reflexivity.
    - exfalso. eapply Hnc. reflexivity.
  Qed.
End WithCen2.

(* ================================================================ collections *)
Definition mdn_step (d : nat) (g : geom) : nat := if is_empty g then d else Nat.max d (dimension g).
Lemma max_dim_nonempty_fold lv : max_dim_nonempty lv = fold_left mdn_step lv 0%nat.
Proof. reflexivity. Qed.
Lemma mdn_from d0 lv : fold_left mdn_step lv d0 = Nat.max d0 (fold_left mdn_step lv 0%nat).
Proof.
  revert d0. induction lv as [|g lv IH]; intros d0; cbn [fold_left]; [lia|].
  rewrite (IH (mdn_step d0 g)), (IH (mdn_step 0 g)). unfold mdn_step. destruct (is_empty g); lia.
Qed.

Lemma leaves_not_coll (g l : geom) : In l (leaves g) -> forall ct gs, l <> GColl ct gs.
Proof.
  induction g using geomT_ind'; cbn [leaves]; intros Hl; try (destruct Hl as [<-|[]]; intros; discriminate).
  apply in_flat_map in Hl. destruct Hl as [x [Hx Hl]]. rewrite Forall_forall in H. apply (H x Hx Hl).
Qed.

Lemma dim_ie_leaf (g : geom) : (forall ct gs, g <> GColl ct gs) -> dim_ie g = if is_empty g then 0%nat else dimension g.
Proof. intros Hn. rewrite dim_ie_eq. destruct g; try reflexivity. exfalso. eapply Hn. reflexivity. Qed.

Lemma dim_ie_coll ct gs : dim_ie (GColl ct gs) = fold_left (fun d g' => Nat.max d (dim_ie g')) gs 0%nat.
Proof.
  rewrite dim_ie_eq. cbn [dim_body is_empty]. destruct (forallb (@is_empty Q) gs) eqn:E; [|reflexivity].
  symmetry. apply Nat.le_antisymm; [|lia]. apply fold_max_bound; [lia|].
  intros x Hx. rewrite forallb_forall in E. rewrite dim_ie_eq, (E x Hx). lia.
Qed.

Lemma mdn_dim_ie (g : geom) : max_dim_nonempty (leaves g) = dim_ie g.
Proof.
  induction g using geomT_ind';
    try (rewrite dim_ie_leaf by (intros; discriminate); cbn [leaves]; unfold max_dim_nonempty; cbn [fold_left];
         destruct (is_empty _); reflexivity).
  rewrite dim_ie_coll, max_dim_nonempty_fold. cbn [leaves]. rewrite Forall_forall in H.
  assert (G : forall l d0, (forall x, In x l -> max_dim_nonempty (leaves x) = dim_ie x) ->
              fold_left mdn_step (flat_map leaves l) d0 = fold_left (fun d g' => Nat.max d (dim_ie g')) l d0).
  { induction l as [|a l IH]; intros d0 Hl; [reflexivity|]. cbn [flat_map fold_left].
    rewrite fold_left_app. rewrite (mdn_from d0 (leaves a)). rewrite <- max_dim_nonempty_fold.
    rewrite (Hl a (or_introl eq_refl)). apply IH. intros; apply Hl; right; assumption. }
  apply G. exact H.
Qed.

Lemma mdn_attained lv : (exists l, In l lv /\ is_empty l = false) ->
  exists l, In l lv /\ is_empty l = false /\ dimension l = max_dim_nonempty lv.
Proof.
  rewrite max_dim_nonempty_fold.
  assert (G : forall lv d0, fold_left mdn_step lv d0 = d0 \/
              exists l, In l lv /\ is_empty l = false /\ dimension l = fold_left mdn_step lv d0).
  { induction lv0 as [|g lv0 IH]; intros d0; cbn [fold_left]; [left; reflexivity|].
    destruct (IH (mdn_step d0 g)) as [E|[l [Hl [He Hd]]]].
    - unfold mdn_step in *. destruct (is_empty g) eqn:Eg; [left; exact E|].
      destruct (Nat.max_spec d0 (dimension g)) as [[_ M]|[_ M]].
      + right. exists g. split; [left; reflexivity|]. split; [exact Eg|]. rewrite E. symmetry. exact M.
      + left. rewrite E. exact M.
    - right. exists l. split; [right; exact Hl|]. split; assumption. }
  intros [l0 [Hl0 He0]]. destruct (G lv 0%nat) as [E|E]; [|exact E].
  (* the maximum is 0: any non-empty leaf of dimension 0 does *)
  exists l0. split; [exact Hl0|]. split; [exact He0|]. rewrite E.
  assert (Hle : (dimension l0 <= fold_left mdn_step lv 0)%nat).
  { clear E G. revert Hl0. generalize 0%nat. induction lv as [|g lv IH]; intros d0 Hin; [destruct Hin|].
    destruct Hin as [<-|Hin].
    - cbn [fold_left]. rewrite mdn_from.
      assert (mdn_step d0 g = Nat.max d0 (dimension g)) as -> by (unfold mdn_step; rewrite He0; reflexivity). lia.
    - cbn [fold_left]. apply IH. exact Hin. }
  lia.
Qed.

Section WithCen3.
  Variable cen : geom -> option pt.

  Theorem pos_collection_lemma ct gs p :
    point_xy (pos cen (GColl ct gs)) = Some p ->
    exists l, In l (leaves (GColl ct gs)) /\ is_empty l = false /\
              dim_ie l = dim_ie (GColl ct gs) /\ pos cen (GColl ct gs) = leaf_pos cen l.
  Proof.
    cbn [pos]. unfold coll_pos. set (g := GColl ct gs). set (lv := leaves g). intros E.
    destruct (consider_all_result (cen g) (map (leaf_pos cen) (coll_candidates lv)) nacc0) as [E0|[Hin Hne]].
    - rewrite E0 in E. discriminate.
    - apply in_map_iff in Hin. destruct Hin as [l [El Hl]]. unfold coll_candidates in Hl.
      apply filter_In in Hl. destruct Hl as [Hl Hd]. apply Nat.eqb_eq in Hd.
      exists l. split; [exact Hl|].
      assert (Hel : is_empty l = false).
      { destruct (is_empty l) eqn:Ee; [|reflexivity]. rewrite <- El, (leaf_pos_of_empty cen l Ee) in Hne. discriminate. }
      split; [exact Hel|]. split; [|symmetry; exact El].
      rewrite (dim_ie_leaf l (leaves_not_coll g l Hl)), Hel, Hd. apply mdn_dim_ie.
  Qed.

  Hypothesis cen_total : forall x, is_empty x = false -> cen x <> None.

  Lemma nonempty_leaf (g : geom) : is_empty g = false -> exists l, In l (leaves g) /\ is_empty l = false.
  Proof.
    induction g using geomT_ind'; cbn [leaves]; intros He; try (eexists; split; [left; reflexivity|exact He]).
    cbn [is_empty] in He. destruct (exists_nonempty _ _ He) as [x [Hx Hne]]. rewrite Forall_forall in H.
    destruct (H x Hx Hne) as [l [Hl Hle]]. exists l. split; [apply in_flat_map; exists x; auto|exact Hle].
  Qed.

  Lemma geom_wf_leaves (g : geom) : geom_wf g = true -> forall l, In l (leaves g) -> geom_wf l = true.
  Proof.
    induction g using geomT_ind'; cbn [leaves]; intros Hwf l0 Hl; try (destruct Hl as [<-|[]]; exact Hwf).
    apply in_flat_map in Hl. destruct Hl as [x [Hx Hl]]. rewrite Forall_forall in H.
    cbn [geom_wf] in Hwf. rewrite forallb_forall in Hwf. apply (H x Hx (Hwf x Hx)). exact Hl.
  Qed.

  Theorem pos_empty_iff_lemma (g : geom) :
    geom_wf g = true -> point_empty (pos cen g) = is_empty g.
  Proof.
    intros Hwf. destruct (is_empty g) eqn:He; [apply pos_of_empty; exact He|].
    assert (Hleaf : forall x, geom_wf x = true -> (forall ct gs, x <> GColl ct gs) ->
                    is_empty x = false -> point_empty (leaf_pos cen x) = false)
      by (intros; apply leaf_pos_of_nonempty; assumption).
    destruct g; try (apply Hleaf; auto; intros; discriminate).
    cbn [pos]. unfold coll_pos. set (g := GColl ct gs) in *.
    destruct (cen g) as [t|] eqn:Ec; [|exfalso; apply (cen_total g He); exact Ec].
    apply consider_all_picks.
    destruct (mdn_attained (leaves g) (nonempty_leaf g He)) as [l [Hl [Hle Hd]]].
    exists (leaf_pos cen l). split.
    - apply in_map. unfold coll_candidates. apply filter_In. split; [exact Hl|apply Nat.eqb_eq; exact Hd].
    - apply Hleaf; [apply (geom_wf_leaves g Hwf); exact Hl|apply (leaves_not_coll g); exact Hl|exact Hle].
  Qed.
End WithCen3.

(* ================================================================ MultiPolygon: the chosen member *)
Lemma mpoly_pos_member ys p :
  point_xy (mpoly_pos ys) = Some p -> exists y, In y ys /\ mpoly_pos ys = fst (point_on_area y).
Proof.
  unfold mpoly_pos.
  assert (G : forall ys st, fold_left mp_step ys st = st \/
              exists y, In y ys /\ fold_left mp_step ys st = point_on_area y).
  { induction ys0 as [|y ys0 IH]; intros st; [left; reflexivity|]. cbn [fold_left].
    assert (Hstep : (mp_step st y = st) \/ (mp_step st y = point_on_area y)).
    { unfold mp_step. destruct (point_on_area y) as [q w]. destruct (point_empty q); [left; reflexivity|].
      destruct (point_empty (fst st) || qltb (snd st) w); [right|left]; reflexivity. }
    destruct Hstep as [Es|Es].
    - rewrite Es. destruct (IH st) as [E|[y' [Hy' E]]]; [left; exact E|right; exists y'; split; [right; exact Hy'|exact E]].
    - destruct (IH (mp_step st y)) as [E|[y' [Hy' E]]].
      + right. exists y. split; [left; reflexivity|]. rewrite E, Es. reflexivity.
      + right. exists y'. split; [right; exact Hy'|exact E]. }
  intros E. destruct (G ys (empty_point, 0)) as [E0|[y [Hy Ey]]].
  - rewrite E0 in E. discriminate.
  - exists y. split; [exact Hy|]. rewrite Ey. reflexivity.
Qed.

Theorem pos_mpoly_interior_lemma ct ys p :
  (forall y, In y ys -> poly_empty y = false -> row_hyps y = true /\ valid_nesting y) ->
  point_xy (mpoly_pos ys) = Some p ->
  locate (GMPoly ct ys) p = Interior.
Proof.
  intros Hh E. destruct (mpoly_pos_member ys p E) as [y [Hy Ey]]. rewrite Ey in E.
  assert (Hne : poly_empty y = false).
  { destruct y as [c [|r rs]]; [discriminate E|reflexivity]. }
  destruct (Hh y Hy Hne) as [Hrow Hnest].
  unfold row_hyps in Hrow. destruct (poly_row y) as [ri|] eqn:Er; [|discriminate].
  apply andb_prop in Hrow. destruct Hrow as [Hrow Hnd]. apply andb_prop in Hrow. destruct Hrow as [Hxr Hsp].
  destruct (pos_areal_interior_lemma y ri p Er Hxr Hsp Hnd Hnest E) as [Hint _].
  unfold locate, prep, locate_p. cbn [g_polys map pg_polys].
  assert (Hex : existsb (fun rs => rings_interior rs p) (map poly_ring_segs ys) = true).
  { rewrite existsb_map. apply existsb_exists. exists y. split; [exact Hy|exact Hint]. }
  rewrite Hex. reflexivity.
Qed.

(* the bisector passes through no control point of any ring *)
Theorem row_avoids_vertices_lemma (y : polyT Q) (ri : row_info) :
  poly_row y = Some ri ->
  forall r q, In r (poly_rings y) -> In q (line_pts r) -> ~ snd q == r_y ri.
Proof.
  intros Hrow. destruct (poly_row_inv y ri Hrow) as [shell [rest [p0 [pr [x0 [x1 [_ [_ [_ [_ Hoff]]]]]]]]]].
  exact Hoff.
Qed.

(* the bisector is horizontal at the row ordinate and the intercepts are the sorted distinct
   abscissae where ring edges meet it *)
Theorem row_shape_lemma (y : polyT Q) (ri : row_info) :
  poly_row y = Some ri ->
  snd (fst (r_bis ri)) = r_y ri /\ snd (snd (r_bis ri)) = r_y ri /\
  r_xs ri = isort (raw_intercepts (r_bis ri) (poly_rings y)) /\
  (nodupq (raw_intercepts (r_bis ri) (poly_rings y)) = true -> ssorted (r_xs ri)).
Proof.
  intros Hrow. destruct (poly_row_inv y ri Hrow) as [shell [rest [p0 [pr [x0 [x1 [_ [_ [Eb [Exs _]]]]]]]]]].
  rewrite Eb. cbn [fst snd]. repeat split; try reflexivity.
  - rewrite <- Eb. exact Exs.
  - intros Hnd. rewrite Exs, Eb. rewrite (isort_qsort _ Hnd). apply qsort_ssorted.
Qed.
