(* Property C15 - the clause "the exterior ring enters no hole" DERIVED from ogc_valid's clause
   hole_inside when the hole's boundary does not meet the exterior ring: both rings are closed
   curves that avoid each other, so each looks uniform from the other (b-C09: ring_uniform), the
   hole is inside the exterior ring (hole_inside), and two rings cannot each lie inside the other
   (b-C09: no_mutual_inside).  For holes that touch the exterior ring the clause stays an
   executable hypothesis (shell_outside, decided for all points at the witnesses). *)
From Coq Require Import QArith Qreduction List Bool ZArith Lia Arith Lqa.
From SF Require Import Base.GeomAST Base.QKernel Base.Planar Proofs.Planar_proofs Proofs.Planar_slab_base
  Model.ValidateSpec Proofs.Validate_ogc Proofs.Intersects_areal Proofs.Intersects_polypoly
  Model.Boundary Proofs.Boundary_proofs Model.PointOnSurface Proofs.PointOnSurface_proofs
  Model.PosNesting Proofs.PosNesting_proofs Model.PosNesting2.
Import ListNotations.
Open Scope Q_scope.


(* ================================================================ disjoint boundaries *)
Lemma rings_apart_no_meet a b : rings_apart a b = true -> no_meet (segs a) (segs b).
Proof.
  unfold rings_apart. rewrite forallb_forall. intros H e f w He Hf [H1 H2].
  specialize (H e He). rewrite forallb_forall in H. specialize (H f Hf).
  pose proof (seg_seg_complete e f w H1 H2) as K. destruct (seg_seg e f); [apply K; reflexivity|discriminate|discriminate].
Qed.

Lemma pts_two_ring_wf (r : lineT Q) : pts_two (line_pts r) = true -> ring_wf r = true.
Proof. unfold pts_two, ring_wf. auto. Qed.

(* a hole inside the closed exterior ring whose boundary does not meet it: the exterior ring has
   no point inside the hole (two rings cannot each lie inside the other) *)
Lemma apart_shell_outside (sh h : lineT Q) :
  pts_closed (line_pts sh) = true -> pts_closed (line_pts h) = true ->
  ring_wf sh = true -> ring_wf h = true ->
  hole_inside (line_pts sh) (line_pts h) = true ->
  rings_apart (line_pts sh) (line_pts h) = true ->
  shell_outside (line_pts sh) (line_pts h) = true.
Proof.
  intros Cs Ch Ws Wh Hin Hap. apply (shell_outside_spec _ _ Ch). rewrite !segs_line_pts.
  intros p Hon _. pose proof (rings_apart_no_meet _ _ Hap) as NM. rewrite !segs_line_pts in NM.
  pose proof (ring_uniform sh h Ws Ch NM) as U1.
  pose proof (ring_uniform h sh Wh Cs (no_meet_sym _ _ NM)) as U2.
  destruct (edges_parity (line_segs h) p) eqn:Ep; [|reflexivity]. exfalso.
  pose proof (uniform_inside _ _ p U1 Hon Ep) as I1.
  destruct (ring_wf_shape h Wh) as [a [rest [_ [_ [_ Oa]]]]].
  destruct (U2 a a Oa Oa) as [Offa _].
  assert (Pa : edges_parity (line_segs sh) a = true).
  { rewrite <- !segs_line_pts in *. apply (hole_inside_parity (line_pts sh) (line_pts h) a Cs Hin Oa Offa). }
  pose proof (uniform_inside _ _ a U2 Oa Pa) as I2.
  exact (no_mutual_inside _ _ (ring_nonempty sh Ws) I1 I2).
Qed.

Theorem nest_okb2_sound (y : polyT Q) : nest_okb2 y = true -> nest_okb y = true.
Proof.
  unfold nest_okb2, nest_okb, rings_of. destruct (poly_rings y) as [|sh rest]; [reflexivity|]. cbn [map].
  intros H. apply andb_prop in H. destruct H as [H Hso]. apply andb_prop in H. destruct H as [H Hnn].
  apply andb_prop in H. destruct H as [H Hhi]. apply andb_prop in H. destruct H as [Hcl Htw].
  rewrite Hcl, Hhi, Hnn. cbn [andb]. rewrite forallb_forall in *. intros hp Hh.
  specialize (Hso hp Hh). apply orb_true_iff in Hso. destruct Hso as [Hap|Hso]; [|exact Hso].
  apply in_map_iff in Hh. destruct Hh as [h [<- Hh]].
  apply apart_shell_outside; try assumption.
  - apply (Hcl (line_pts sh)). left. reflexivity.
  - apply (Hcl (line_pts h)). right. apply in_map. exact Hh.
  - apply pts_two_ring_wf. apply (Htw (line_pts sh)). left. reflexivity.
  - apply pts_two_ring_wf. apply (Htw (line_pts h)). right. apply in_map. exact Hh.
  - apply Hhi. apply in_map. exact Hh.
Qed.

(* ================================================================ from ogc_valid's polygon clause *)
Lemma distinct_2_pts_two ps : distinct_2 ps = true -> pts_two ps = true.
Proof.
  unfold distinct_2, pts_two. intros H. apply existsb_exists in H. destruct H as [p [Hp H]].
  apply existsb_exists in H. destruct H as [q [Hq Hpq]]. apply negb_true_iff in Hpq.
  destruct ps as [|a rest]; [destruct Hp|].
  (* one of p, q differs from a, and that one is in rest *)
  destruct (pt_eqb a p) eqn:Eap.
  - (* a == p, so a <> q; q is in rest *)
    assert (Eaq : pt_eqb a q = false) by (rewrite (pt_eqb_trans_l a p q Eap); exact Hpq).
    apply existsb_exists. exists q. split; [|rewrite Eaq; reflexivity].
    destruct Hq as [<-|Hq]; [rewrite pt_eqb_refl in Eaq; discriminate|exact Hq].
  - apply existsb_exists. exists p. split; [|rewrite Eap; reflexivity].
    destruct Hp as [<-|Hp]; [rewrite pt_eqb_refl in Eap; discriminate|exact Hp].
Qed.

Theorem ogc_nest_okb_sound (y : polyT Q) : ogc_nest_okb y = true -> nest_okb2 y = true.
Proof.
  unfold ogc_nest_okb, nest_okb2. destruct (rings_of y) as [|sh holes]; [reflexivity|].
  intros H. apply andb_prop in H. destruct H as [Hd Hso]. unfold poly_def in Hd.
  apply andb_prop in Hd. destruct Hd as [Hd _]. apply andb_prop in Hd. destruct Hd as [Hd Hnn].
  apply andb_prop in Hd. destruct Hd as [Hd Hhi]. apply andb_prop in Hd. destruct Hd as [Hrd _].
  rewrite Hhi, Hnn, Hso, !andb_true_r. rewrite forallb_forall in Hrd. apply andb_true_iff. split.
  - apply forallb_forall. intros r Hr. apply ring_def_closed. apply Hrd. exact Hr.
  - apply forallb_forall. intros r Hr. apply distinct_2_pts_two. specialize (Hrd r Hr). unfold ring_def in Hrd.
    apply andb_prop in Hrd. destruct Hrd as [Hrd _]. apply andb_prop in Hrd. destruct Hrd as [Hrd _]. exact Hrd.
Qed.

(* the interior theorem from ogc_valid's polygon clause: for polygons whose holes do not touch the
   exterior ring no further nesting hypothesis is left *)
Theorem pos_areal_interior_ogc_lemma (y : polyT Q) (p : pt) :
  row_hyps y = true -> ogc_nest_okb y = true ->
  point_xy (fst (point_on_area y)) = Some p ->
  locate (GPoly y) p = Interior.
Proof.
  intros Hr Hn. apply pos_areal_interior_exec_lemma; [exact Hr|]. apply nest_okb2_sound, ogc_nest_okb_sound, Hn.
Qed.
