(* Property C15 - the ring-nesting hypothesis of the interior theorem DERIVED from executable
   clauses (Model/PosNesting.v: nest_okb).  One-dimensional argument on the bisector row: if the
   returned point m were inside a hole h, take the first crossing q of h to the right of m; q is a
   point of h, hence (clause hole_inside) inside the exterior ring and (clause not_nested) in no
   other hole; were m outside the exterior ring / inside another hole, that ring would cross the
   row between m and q at a point that is strictly inside h - excluded by the clauses
   shell_outside / not_nested.  The all-points meaning of the clauses is b-C03's everywhere_spec
   (slab-witness sufficiency, Proofs/Planar_slab.v). *)
From Coq Require Import QArith Qreduction List Bool ZArith Lia Arith Lqa.
From SF Require Import Base.GeomAST Base.QKernel Base.Planar Proofs.Planar_proofs Proofs.Planar_slab_base
  Model.ValidateSpec Proofs.Validate_ogc
  Model.Boundary Proofs.Boundary_proofs Model.PointOnSurface Proofs.PointOnSurface_proofs Model.PosNesting.
Import ListNotations.
Open Scope Q_scope.


(* ================================================================ counting on a list of abscissae *)
Definition cbetween (a b : Q) (l : list Q) : nat := length (filter (fun z => qltb a z && Qle_bool z b) l).

Lemma cgt_split a b l : a <= b -> cgt a l = (cgt b l + cbetween a b l)%nat.
Proof.
  intros Hab. unfold cgt, cbetween. induction l as [|z l IH]; [reflexivity|]. cbn [filter].
  destruct (qltb b z) eqn:Eb.
  - apply qltb_iff in Eb. assert (qltb a z = true) as -> by (apply qltb_iff; lra).
    assert (Qle_bool z b = false) as ->.
    { apply not_true_iff_false. intro H. apply Qle_bool_iff in H. lra. }
    cbn [andb length]. rewrite IH. reflexivity.
  - apply qltb_false_iff in Eb. assert (Qle_bool z b = true) as -> by (apply Qle_bool_iff; exact Eb).
    rewrite andb_true_r. destruct (qltb a z); cbn [length]; rewrite IH; lia.
Qed.
Lemma cbetween_pos a b l : (0 < cbetween a b l)%nat -> exists z, In z l /\ a < z /\ z <= b.
Proof.
  unfold cbetween. intros H. destruct (filter _ l) as [|z r] eqn:E; [simpl in H; lia|].
  assert (Hin : In z (filter (fun z => qltb a z && Qle_bool z b) l)) by (rewrite E; left; reflexivity).
  apply filter_In in Hin. destruct Hin as [Hin Hc]. apply andb_prop in Hc. destruct Hc as [H1 H2].
  exists z. split; [exact Hin|]. split; [apply qltb_iff; exact H1|apply Qle_bool_iff; exact H2].
Qed.
Lemma cbetween_zero a b l : (forall z, In z l -> a < z -> z <= b -> False) -> cbetween a b l = 0%nat.
Proof.
  intros H. unfold cbetween. induction l as [|z l IH]; [reflexivity|]. cbn [filter].
  destruct (qltb a z && Qle_bool z b) eqn:E.
  - exfalso. apply andb_prop in E. destruct E as [E1 E2]. apply (H z (or_introl eq_refl)); [apply qltb_iff; exact E1|apply Qle_bool_iff; exact E2].
  - apply IH. intros z' Hz'. apply H. right. exact Hz'.
Qed.

(* the least element above m *)
Lemma min_above m l : (0 < cgt m l)%nat ->
  exists q, In q l /\ m < q /\ forall z, In z l -> m < z -> q <= z.
Proof.
  unfold cgt. induction l as [|x l IH]; [simpl; lia|].
  change (filter (qltb m) (x :: l)) with (if qltb m x then x :: filter (qltb m) l else filter (qltb m) l).
  destruct (qltb m x) eqn:E.
  - apply qltb_iff in E. destruct (filter (qltb m) l) as [|y r] eqn:Ef; intros _.
    + exists x. split; [left; reflexivity|]. split; [exact E|]. intros z [<-|Hz] Hmz; [apply Qle_refl|].
      exfalso. assert (Hin : In z (filter (qltb m) l)) by (apply filter_In; split; [exact Hz|apply qltb_iff; exact Hmz]).
      rewrite Ef in Hin. destruct Hin.
    + destruct IH as [q [Hq [Hmq Hmin]]]; [simpl; lia|].
      destruct (Qlt_le_dec x q) as [Hlt|Hle].
      * exists x. split; [left; reflexivity|]. split; [exact E|]. intros z [<-|Hz] Hmz; [apply Qle_refl|].
        specialize (Hmin z Hz Hmz). lra.
      * exists q. split; [right; exact Hq|]. split; [exact Hmq|]. intros z [<-|Hz] Hmz; [exact Hle|auto].
  - intros H. destruct (IH H) as [q [Hq [Hmq Hmin]]]. exists q. split; [right; exact Hq|]. split; [exact Hmq|].
    intros z [<-|Hz] Hmz; [|auto]. apply qltb_false_iff in E. lra.
Qed.

Lemma memq_in z l : In z l -> memq z l = true.
Proof. intros H. unfold memq. apply existsb_exists. exists z. split; [exact H|apply Qeq_bool_iff; reflexivity]. Qed.
Lemma memq_app z a b : memq z (a ++ b) = memq z a || memq z b.
Proof. unfold memq. apply existsb_app. Qed.
Lemma nodupq_app a b : nodupq (a ++ b) = true ->
  nodupq a = true /\ nodupq b = true /\ forall z, In z a -> memq z b = false.
Proof.
  induction a as [|x a IH]; cbn [app nodupq]; intros H; [repeat split; auto; intros z []|].
  apply andb_prop in H. destruct H as [Hx H]. destruct (IH H) as [Ha [Hb Hd]].
  apply negb_true_iff in Hx. rewrite memq_app in Hx. apply orb_false_iff in Hx. destruct Hx as [Hxa Hxb].
  split; [rewrite Hxa, Ha; reflexivity|]. split; [exact Hb|]. intros z [<-|Hz]; auto.
Qed.

(* ================================================================ one ring against the row *)
Section Row.
  Variables x0 x1 y0 : Q.
  Let bis : seg := ((x0, y0), (x1, y0)).
  Definition ring_icpts (r : lineT Q) : list Q := flat_map (intercept bis) (ring_lines r).
  Definition ring_row_ok (r : lineT Q) : Prop :=
    (forall q, In q (line_pts r) -> ~ snd q == y0) /\ row_spans_edges x0 x1 y0 (ring_lines r) = true.

  Lemma ring_parity_row r x : ring_row_ok r ->
    edges_parity (line_segs r) (x, y0) = Nat.odd (cgt x (ring_icpts r)).
  Proof.
    intros [Hoff Hsp]. rewrite edges_parity_ncross, ncross_line_segs. f_equal.
    apply ncross_intercepts; [|exact Hsp].
    intros e He. apply ring_lines_ends in He. destruct He as [H1 H2]. split; apply Hoff; assumption.
  Qed.

  Lemma ring_lines_in_segs r e : In e (ring_lines r) -> In e (line_segs r).
  Proof.
    unfold ring_lines, line_segs, segs_of_pts. intros H. apply filter_In in H. destruct H as [H _].
    destruct (line_pts r) as [|p [|q l]]; [destruct H|destruct H|exact H].
  Qed.

  Lemma intercept_on_ring r z : In z (ring_icpts r) -> on_edges (line_segs r) (z, y0) = true.
  Proof.
    unfold ring_icpts. intros H. apply in_flat_map in H. destruct H as [e [He Hz]].
    unfold on_edges. apply existsb_exists. exists e. split; [apply ring_lines_in_segs; exact He|].
    unfold intercept in Hz.
    assert (G : forall p, In p (ssr_points (seg_seg e bis)) -> z = fst p -> on_seg e (z, y0) = true).
    { intros p Hp ->. apply seg_seg_sound in Hp. destruct Hp as [H1 H2]. apply on_bis in H2. destruct H2 as [Hy _].
      destruct e as [a b]. rewrite <- H1. apply on_seg_proper; try reflexivity. split; cbn [fst snd]; [reflexivity|symmetry; exact Hy]. }
    destruct (seg_seg e bis) as [|p|p q]; [destruct Hz| |]; destruct Hz as [<-|[]]; apply (G p); try reflexivity; left; reflexivity.
  Qed.

  Lemma on_ring_row_memq r x : ring_row_ok r -> on_edges (line_segs r) (x, y0) = true -> memq x (ring_icpts r) = true.
  Proof.
    intros [Hoff Hsp] Hon. destruct (memq x (ring_icpts r)) eqn:E; [reflexivity|]. exfalso.
    assert (K : on_edges (line_segs r) (x, y0) = false).
    { apply (not_on_rings x0 x1 y0 x [r]).
      - intros r' q [<-|[]] Hq. apply Hoff. exact Hq.
      - unfold row_spans. cbn [forallb]. rewrite Hsp. reflexivity.
      - unfold raw_intercepts. cbn [flat_map]. rewrite app_nil_r. exact E.
      - left; reflexivity. }
    congruence.
  Qed.
End Row.

(* ================================================================ the nesting clauses, for all points *)
Lemma segs_line_pts (r : lineT Q) : segs (line_pts r) = line_segs r.
Proof. unfold segs, line_segs. rewrite line_pts_ring_line. reflexivity. Qed.

Lemma inG_poly1 ps p : inG (g_poly [ps]) p = on_edges (segs ps) p || (negb (on_edges (segs ps) p) && edges_parity (segs ps) p).
Proof.
  rewrite inG_poly. cbn [map rings_boundary existsb rings_interior forallb]. unfold ring_strict_in.
  rewrite orb_false_r, andb_true_r. reflexivity.
Qed.

(* (A) a point of a hole that is off the exterior ring is strictly inside it *)
Lemma hole_inside_parity sh h p : pts_closed sh = true -> hole_inside sh h = true ->
  on_edges (segs h) p = true -> on_edges (segs sh) p = false -> edges_parity (segs sh) p = true.
Proof.
  intros Hc H Hon Hoff. pose proof (proj1 (hole_inside_spec sh h Hc) H p Hon) as K.
  destruct (edges_parity (segs sh) p) eqn:E; [reflexivity|]. exfalso. apply K.
  apply locate_poly_exterior. rewrite inG_poly1, Hoff, E. reflexivity.
Qed.
(* (B) a point of a hole that is off another hole is not inside it *)
Lemma not_nested_parity h k p : pts_closed h = true -> pts_closed k = true -> not_nested h k = true ->
  (on_edges (segs h) p = true -> on_edges (segs k) p = false -> edges_parity (segs k) p = false) /\
  (on_edges (segs k) p = true -> on_edges (segs h) p = false -> edges_parity (segs h) p = false).
Proof.
  intros Hh Hk H. destruct (proj1 (not_nested_spec h k Hh Hk) H p) as [K1 K2].
  assert (B1 : forall r, inG (g_bdry [r]) p = on_edges (segs r) p) by (intros; rewrite inG_bdry; simpl; apply orb_false_r).
  split; intros Hon Hoff.
  - destruct (edges_parity (segs k) p) eqn:E; [|reflexivity]. exfalso. apply (K1 Hon).
    apply locate_poly_interior. rewrite inG_poly1, B1, Hoff, E. split; reflexivity.
  - destruct (edges_parity (segs h) p) eqn:E; [|reflexivity]. exfalso. apply (K2 Hon).
    apply locate_poly_interior. rewrite inG_poly1, B1, Hoff, E. split; reflexivity.
Qed.
(* (C) a point of the exterior ring that is off a hole is not inside it *)
Theorem shell_outside_spec sh h : pts_closed h = true ->
  (shell_outside sh h = true <->
   forall p, on_edges (segs sh) p = true -> on_edges (segs h) p = false -> edges_parity (segs h) p = false).
Proof.
  intros Hc. unfold shell_outside. rewrite everywhere_spec.
  - cbn [map]. split; intros H p.
    + intros Hon Hoff. specialize (H p). rewrite !inG_line, inG_poly1, Hon, Hoff in H. cbn [negb orb andb] in H.
      destruct (edges_parity (segs h) p); [discriminate|reflexivity].
    + rewrite !inG_line, inG_poly1. destruct (on_edges (segs sh) p) eqn:E1; [|reflexivity].
      destruct (on_edges (segs h) p) eqn:E2; [reflexivity|]. cbn [negb orb andb]. rewrite (H p E1 E2). reflexivity.
  - intros g [<-|[<-|[<-|[]]]]; try apply rings_closed_line. apply rings_closed_poly. repeat constructor. exact Hc.
Qed.

(* ================================================================ two rings on the row *)
Lemma memq_sym_disjoint a b : (forall z, In z a -> memq z b = false) -> forall z, In z b -> memq z a = false.
Proof.
  intros H z Hz. destruct (memq z a) eqn:E; [|reflexivity]. exfalso.
  unfold memq in E. apply existsb_exists in E. destruct E as [w [Hw Ew]]. apply Qeq_bool_iff in Ew.
  assert (K : memq w b = true).
  { unfold memq. apply existsb_exists. exists z. split; [exact Hz|apply Qeq_bool_iff; symmetry; exact Ew]. }
  rewrite (H w Hw) in K. discriminate.
Qed.

Lemma odd_diff a b c : a = (b + c)%nat -> Nat.odd a <> Nat.odd b -> (0 < c)%nat.
Proof. intros -> H. destruct c; [exfalso; apply H; rewrite Nat.add_0_r; reflexivity|lia]. Qed.

Section TwoRings.
  Variables x0 x1 y0 mx : Q.
  Variables r s : lineT Q.
  Hypothesis Hr : ring_row_ok x0 x1 y0 r.
  Hypothesis Hs : ring_row_ok x0 x1 y0 s.
  Hypothesis Hdis : forall z, In z (ring_icpts x0 x1 y0 s) -> memq z (ring_icpts x0 x1 y0 r) = false.
  Let Ir := ring_icpts x0 x1 y0 r.
  Let Is := ring_icpts x0 x1 y0 s.
  Let par (t : lineT Q) (p : pt) := edges_parity (line_segs t) p.
  Let on (t : lineT Q) (p : pt) := on_edges (line_segs t) p.

  (* m is inside r; q is the first crossing of r to the right of m.  If the parity of s changes
     between m and q, some point of s (off r) is strictly inside r *)
  Lemma crossing_inside q :
    par r (mx, y0) = true ->
    In q Ir -> mx < q -> (forall z, In z Ir -> mx < z -> q <= z) ->
    par s (mx, y0) <> par s (q, y0) ->
    exists p, on s p = true /\ on r p = false /\ par r p = true.
  Proof.
    intros Hin Hq Hmq Hmin Hdiff. unfold par in *.
    rewrite !(ring_parity_row x0 x1 y0 s _ Hs) in Hdiff. rewrite (ring_parity_row x0 x1 y0 r _ Hr) in Hin.
    pose proof (cgt_split mx q (ring_icpts x0 x1 y0 s) (Qlt_le_weak _ _ Hmq)) as Esp.
    pose proof (odd_diff _ _ _ Esp Hdiff) as Hpos.
    destruct (cbetween_pos _ _ _ Hpos) as [t [Ht [Hmt Htq]]].
    exists (t, y0). split; [unfold on; apply (intercept_on_ring x0 x1 y0 s t Ht)|]. split.
    - unfold on. destruct (on_edges (line_segs r) (t, y0)) eqn:E; [|reflexivity]. exfalso.
      pose proof (on_ring_row_memq x0 x1 y0 r t Hr E) as K. rewrite (Hdis t Ht) in K. discriminate.
    - rewrite (ring_parity_row x0 x1 y0 r _ Hr).
      pose proof (cgt_split mx t (ring_icpts x0 x1 y0 r) (Qlt_le_weak _ _ Hmt)) as Er.
      rewrite cbetween_zero in Er.
      + rewrite Nat.add_0_r in Er. rewrite <- Er. exact Hin.
      + intros z Hz Hmz Hzt. pose proof (Hmin z Hz Hmz) as Hqz.
        assert (Ezt : z == t) by lra.
        assert (K : memq t (ring_icpts x0 x1 y0 r) = true).
        { unfold memq. apply existsb_exists. exists z. split; [exact Hz|apply Qeq_bool_iff; symmetry; exact Ezt]. }
        rewrite (Hdis t Ht) in K. discriminate.
  Qed.

  (* the first crossing of r to the right of a point inside r *)
  Lemma first_crossing : par r (mx, y0) = true ->
    exists q, In q Ir /\ mx < q /\ (forall z, In z Ir -> mx < z -> q <= z) /\
              on r (q, y0) = true /\ on s (q, y0) = false.
  Proof.
    intros Hin. unfold par in Hin. rewrite (ring_parity_row x0 x1 y0 r _ Hr) in Hin.
    destruct (min_above mx (ring_icpts x0 x1 y0 r) (odd_pos _ Hin)) as [q [Hq [Hmq Hmin]]].
    exists q. repeat split; try assumption.
    - apply (intercept_on_ring x0 x1 y0 r q Hq).
    - unfold on. destruct (on_edges (line_segs s) (q, y0)) eqn:E; [|reflexivity]. exfalso.
      pose proof (on_ring_row_memq x0 x1 y0 s q Hs E) as K.
      rewrite (memq_sym_disjoint _ _ Hdis q Hq) in K. discriminate.
  Qed.
End TwoRings.

(* ================================================================ nesting at the returned point *)
Lemma all_pairs_split {A} (f : A -> A -> bool) l1 a l2 b l3 :
  all_pairs f (l1 ++ a :: l2 ++ b :: l3) = true -> f a b = true.
Proof.
  induction l1 as [|x l1 IH]; cbn [app all_pairs]; intros H; apply andb_prop in H; destruct H as [H1 H2].
  - rewrite forallb_forall in H1. apply H1. apply in_or_app. right. left. reflexivity.
  - apply IH. exact H2.
Qed.

Lemma filter_two {A} (f : A -> bool) l : (2 <= length (filter f l))%nat ->
  exists l1 a l2 b l3, l = l1 ++ a :: l2 ++ b :: l3 /\ f a = true /\ f b = true.
Proof.
  induction l as [|x l IH]; [simpl; lia|].
  change (filter f (x :: l)) with (if f x then x :: filter f l else filter f l).
  destruct (f x) eqn:Ex.
  - cbn [length]. intros H.
    assert (Hpos : (0 < length (filter f l))%nat) by lia.
    destruct (filter f l) as [|b r] eqn:Ef; [simpl in Hpos; lia|].
    assert (Hb : In b (filter f l)) by (rewrite Ef; left; reflexivity). apply filter_In in Hb. destruct Hb as [Hb Hfb].
    apply in_split in Hb. destruct Hb as [l2 [l3 ->]].
    exists [], x, l2, b, l3. repeat split; assumption.
  - intros H. destruct (IH H) as [l1 [a [l2 [b [l3 [-> [Ha Hb]]]]]]].
    exists (x :: l1), a, l2, b, l3. repeat split; assumption.
Qed.
Lemma filter_one {A} (f : A -> bool) l : (0 < length (filter f l))%nat -> exists a, In a l /\ f a = true.
Proof.
  intros H. destruct (filter f l) as [|a r] eqn:E; [simpl in H; lia|].
  assert (Ha : In a (filter f l)) by (rewrite E; left; reflexivity). apply filter_In in Ha. exists a. exact Ha.
Qed.

Section Nesting.
  Variables x0 x1 y0 mx : Q.
  Variables (shell : lineT Q) (rest : list (lineT Q)).
  Let I := ring_icpts x0 x1 y0.
  Let par (t : lineT Q) (p : pt) := edges_parity (line_segs t) p.
  Let on (t : lineT Q) (p : pt) := on_edges (line_segs t) p.
  Hypothesis Hrow : forall r, In r (shell :: rest) -> ring_row_ok x0 x1 y0 r.
  Hypothesis Hnd : nodupq (flat_map I (shell :: rest)) = true.
  Hypothesis HA : forall h p, In h rest -> on h p = true -> on shell p = false -> par shell p = true.
  Hypothesis HC : forall h p, In h rest -> on shell p = true -> on h p = false -> par h p = false.
  Hypothesis HB : forall l1 h l2 h' l3 p, rest = l1 ++ h :: l2 ++ h' :: l3 ->
    (on h p = true -> on h' p = false -> par h' p = false) /\
    (on h' p = true -> on h p = false -> par h p = false).

  Lemma dis_shell h : In h rest -> forall z, In z (I shell) -> memq z (I h) = false.
  Proof.
    intros Hh z Hz. cbn [flat_map] in Hnd. destruct (nodupq_app _ _ Hnd) as [_ [_ Hd]].
    destruct (memq z (I h)) eqn:E; [|reflexivity]. exfalso.
    specialize (Hd z Hz). rewrite (memq_flat_map z I rest h Hh E) in Hd. discriminate.
  Qed.
  Lemma dis_holes l1 h l2 h' l3 : rest = l1 ++ h :: l2 ++ h' :: l3 ->
    forall z, In z (I h) -> memq z (I h') = false.
  Proof.
    intros -> z Hz. cbn [flat_map] in Hnd. destruct (nodupq_app _ _ Hnd) as [_ [Hr _]].
    rewrite flat_map_app in Hr. destruct (nodupq_app _ _ Hr) as [_ [Hr2 _]]. cbn [flat_map] in Hr2.
    destruct (nodupq_app _ _ Hr2) as [_ [_ Hd]]. specialize (Hd z Hz).
    rewrite flat_map_app in Hd. cbn [flat_map] in Hd. rewrite !memq_app in Hd.
    apply orb_false_iff in Hd. destruct Hd as [_ Hd]. apply orb_false_iff in Hd. destruct Hd as [Hd _]. exact Hd.
  Qed.

  (* inside a hole => inside the exterior ring *)
  Lemma inside_hole_inside_shell h : In h rest -> par h (mx, y0) = true -> par shell (mx, y0) = true.
  Proof.
    intros Hh Hin.
    assert (Hrh : ring_row_ok x0 x1 y0 h) by (apply Hrow; right; exact Hh).
    assert (Hrs : ring_row_ok x0 x1 y0 shell) by (apply Hrow; left; reflexivity).
    pose proof (dis_shell h Hh) as Hdis.
    destruct (first_crossing x0 x1 y0 mx h shell Hrh Hrs Hdis Hin) as [q [Hq [Hmq [Hmin [Honq Hoffq]]]]].
    destruct (par shell (mx, y0)) eqn:E; [reflexivity|]. exfalso.
    assert (Hdiff : edges_parity (line_segs shell) (mx, y0) <> edges_parity (line_segs shell) (q, y0)).
    { unfold par in E. rewrite E. pose proof (HA h (q, y0) Hh Honq Hoffq) as K. unfold par in K. rewrite K. discriminate. }
    destruct (crossing_inside x0 x1 y0 mx h shell Hrh Hrs Hdis q Hin Hq Hmq Hmin Hdiff) as [p [H1 [H2 H3]]].
    pose proof (HC h p Hh H1 H2) as K. unfold par in K. congruence.
  Qed.

  (* not inside two holes *)
  Lemma not_inside_two l1 h l2 h' l3 : rest = l1 ++ h :: l2 ++ h' :: l3 ->
    par h (mx, y0) = true -> par h' (mx, y0) = true -> False.
  Proof.
    intros Er Hin Hin'.
    assert (Hh : In h rest) by (rewrite Er; apply in_or_app; right; left; reflexivity).
    assert (Hh' : In h' rest) by (rewrite Er; apply in_or_app; right; right; apply in_or_app; right; left; reflexivity).
    assert (Hrh : ring_row_ok x0 x1 y0 h) by (apply Hrow; right; exact Hh).
    assert (Hrh' : ring_row_ok x0 x1 y0 h') by (apply Hrow; right; exact Hh').
    pose proof (dis_holes _ _ _ _ _ Er) as Hd1.
    pose proof (memq_sym_disjoint _ _ Hd1) as Hd2.
    destruct (first_crossing x0 x1 y0 mx h h' Hrh Hrh' Hd2 Hin) as [q [Hq [Hmq [Hmin [Honq Hoffq]]]]].
    assert (Hdiff : edges_parity (line_segs h') (mx, y0) <> edges_parity (line_segs h') (q, y0)).
    { unfold par in Hin'. rewrite Hin'. destruct (HB _ _ _ _ _ (q, y0) Er) as [K _]. specialize (K Honq Hoffq).
      unfold par in K. rewrite K. discriminate. }
    destruct (crossing_inside x0 x1 y0 mx h h' Hrh Hrh' Hd2 q Hin Hq Hmq Hmin Hdiff) as [p [H1 [H2 H3]]].
    destruct (HB _ _ _ _ _ p Er) as [_ K]. specialize (K H1 H2). unfold par in K. congruence.
  Qed.

  Theorem nesting_on_row :
    let k := length (filter (fun h => par h (mx, y0)) rest) in
    (k <= 1)%nat /\ (k = 1%nat -> par shell (mx, y0) = true).
  Proof.
    cbn zeta. split.
    - destruct (le_lt_dec (length (filter (fun h => par h (mx, y0)) rest)) 1) as [H|H]; [exact H|]. exfalso.
      destruct (filter_two _ rest H) as [l1 [a [l2 [b [l3 [E [Ha Hb]]]]]]].
      exact (not_inside_two _ _ _ _ _ E Ha Hb).
    - intros Hk. destruct (filter_one (fun h => par h (mx, y0)) rest) as [h [Hh Hp]]; [lia|].
      exact (inside_hole_inside_shell h Hh Hp).
  Qed.
End Nesting.

(* ================================================================ the clauses from the executable predicate *)
Lemma nest_okb_clauses (y : polyT Q) shell rest :
  poly_rings y = shell :: rest -> nest_okb y = true ->
  let par (t : lineT Q) (p : pt) := edges_parity (line_segs t) p in
  let on (t : lineT Q) (p : pt) := on_edges (line_segs t) p in
  (forall h p, In h rest -> on h p = true -> on shell p = false -> par shell p = true) /\
  (forall h p, In h rest -> on shell p = true -> on h p = false -> par h p = false) /\
  (forall l1 h l2 h' l3 p, rest = l1 ++ h :: l2 ++ h' :: l3 ->
     (on h p = true -> on h' p = false -> par h' p = false) /\
     (on h' p = true -> on h p = false -> par h p = false)).
Proof.
  intros Er H. unfold nest_okb, rings_of in H. rewrite Er in H. cbn [map] in H.
  apply andb_prop in H. destruct H as [H Hso]. apply andb_prop in H. destruct H as [H Hnn].
  apply andb_prop in H. destruct H as [Hcl Hhi]. cbn [forallb] in Hcl. apply andb_prop in Hcl. destruct Hcl as [Hcs Hcr].
  rewrite forallb_forall in Hcr, Hhi, Hso.
  assert (Hc : forall h, In h rest -> pts_closed (line_pts h) = true) by (intros h Hh; apply Hcr, in_map, Hh).
  cbn zeta. split; [|split].
  - intros h p Hh Hon Hoff. rewrite <- segs_line_pts in *.
    apply (hole_inside_parity (line_pts shell) (line_pts h) p Hcs); [apply Hhi, in_map, Hh|exact Hon|exact Hoff].
  - intros h p Hh Hon Hoff. rewrite <- segs_line_pts in *.
    apply (proj1 (shell_outside_spec (line_pts shell) (line_pts h) (Hc h Hh))); [apply Hso, in_map, Hh|exact Hon|exact Hoff].
  - intros l1 h l2 h' l3 p E. subst rest. rewrite !map_app in Hnn. cbn [map] in Hnn. rewrite map_app in Hnn. cbn [map] in Hnn.
    pose proof (all_pairs_split _ _ _ _ _ _ Hnn) as K.
    assert (Hh : In h (l1 ++ h :: l2 ++ h' :: l3)) by (apply in_or_app; right; left; reflexivity).
    assert (Hh' : In h' (l1 ++ h :: l2 ++ h' :: l3)) by (apply in_or_app; right; right; apply in_or_app; right; left; reflexivity).
    rewrite <- !segs_line_pts. apply (not_nested_parity _ _ p (Hc h Hh) (Hc h' Hh') K).
Qed.

(* ================================================================ the interior theorem with executable hypotheses *)
Theorem pos_areal_interior_exec_lemma (y : polyT Q) (p : pt) :
  row_hyps y = true -> nest_okb y = true ->
  point_xy (fst (point_on_area y)) = Some p ->
  locate (GPoly y) p = Interior.
Proof.
  intros Hrh Hnest Hp. unfold row_hyps in Hrh. destruct (poly_row y) as [ri|] eqn:Hrow; [|discriminate].
  apply andb_prop in Hrh. destruct Hrh as [Hrh Hnd]. apply andb_prop in Hrh. destruct Hrh as [Hreg Hsp].
  destruct (poly_row_inv y ri Hrow) as [shell [rest [p0 [pr [x0 [x1 [Er [Ep [Ebis [Exs Hoff]]]]]]]]]].
  rewrite (isort_qsort _ Hnd) in Exs.
  unfold point_on_area in Hp. rewrite Er, Ep, Hrow, Hreg in Hp.
  destruct (r_xs ri) as [|a [|b rest']] eqn:Exs'; [discriminate|discriminate|].
  destruct (best_pair a b rest') as [A B] eqn:Ebp.
  set (y0 := r_y ri) in *.
  assert (Hev : even_pair (a :: b :: rest') A B).
  { pose proof (best_pair_even_pair rest' (a :: b :: rest') [a; b] a b eq_refl eq_refl) as G.
    rewrite Ebp in G. apply G. exists [], rest'. split; reflexivity. }
  assert (Hss : ssorted (a :: b :: rest')) by (rewrite Exs; apply qsort_ssorted).
  assert (Hlen : Nat.even (length (a :: b :: rest')) = true).
  { unfold xs_regular in Hreg. apply andb_prop in Hreg. destruct Hreg as [_ H]. exact H. }
  destruct (even_pair_mid _ A B Hss Hlen Hev) as [HAm [HmB [Hodd Hmem]]].
  assert (HAB : Qeq_bool A B = false).
  { apply Qeq_bool_false_iff. intro HE. pose proof (Qlt_trans _ _ _ HAm HmB) as Hlt. rewrite HE in Hlt.
    exact (Qlt_irrefl _ Hlt). }
  rewrite HAB in Hp. cbn [fst point_xy xy_point point_c option_map vpt vx vy] in Hp.
  injection Hp as <-.
  set (mx := (A + B) / 2) in *.
  rewrite Exs in Hodd, Hmem. rewrite cgt_qsort in Hodd by exact Hnd. rewrite memq_qsort in Hmem.
  rewrite Ebis in *. cbn [fst snd] in Hsp.
  pose proof (rings_parity_intercepts x0 x1 y0 mx (poly_rings y) Hoff Hsp) as Hxor. rewrite Hodd in Hxor.
  pose proof (not_on_rings x0 x1 y0 mx (poly_rings y) Hoff Hsp Hmem) as Hnot.
  (* the nesting at the point, from the executable clauses *)
  destruct (nest_okb_clauses y shell rest Er Hnest) as [HA [HC HB]]. cbn zeta in HA, HC, HB.
  rewrite Er in *.
  assert (Hrow' : forall r, In r (shell :: rest) -> ring_row_ok x0 x1 y0 r).
  { intros r Hr. split; [intros q Hq; apply (Hoff r q Hr Hq)|].
    unfold row_spans in Hsp. rewrite forallb_forall in Hsp. apply Hsp. exact Hr. }
  pose proof (nesting_on_row x0 x1 y0 mx shell rest Hrow' Hnd HA HC HB) as Hn. cbn zeta in Hn.
  assert (Hint : poly_interior y (mx, y0) = true).
  { unfold poly_interior, poly_ring_segs. rewrite Er. cbn [map] in *.
    cbn [xor_list fold_right] in Hxor. fold (xor_list (map (fun r => edges_parity (line_segs r) (mx, y0)) rest)) in Hxor.
    rewrite xor_list_filter in Hxor.
    set (k := length (filter (fun r => edges_parity (line_segs r) (mx, y0)) rest)) in *.
    destruct Hn as [Hk1 Hk2].
    assert (Hk0 : k = 0%nat).
    { destruct k as [|[|k']]; [reflexivity| |lia]. rewrite (Hk2 eq_refl) in Hxor. discriminate. }
    rewrite Hk0 in Hxor. cbn [Nat.odd] in Hxor. rewrite xorb_false_r in Hxor.
    cbn [rings_interior]. apply andb_true_iff. split.
    - unfold ring_strict_in. rewrite (Hnot shell (or_introl eq_refl)), Hxor. reflexivity.
    - rewrite forallb_map. apply forallb_forall. intros h Hh. unfold ring_strict_out.
      rewrite (Hnot h (or_intror Hh)). cbn [negb andb].
      rewrite (filter_nil_all_false _ rest Hk0 h Hh). reflexivity. }
  unfold locate, prep, locate_p. cbn [g_polys map existsb pg_polys].
  unfold poly_interior in Hint. change (vpt {| vx := mx; vy := y0; vz := 0; vm := 0 |}) with (mx, y0).
  rewrite Hint. reflexivity.
Qed.

(* MultiPolygon: every non-empty member satisfies the executable hypotheses *)
Theorem pos_mpoly_interior_exec_lemma ct (ys : list (polyT Q)) (p : pt) :
  (forall y, In y ys -> poly_empty y = false -> interior_hyps y = true) ->
  point_xy (mpoly_pos ys) = Some p ->
  locate (GMPoly ct ys) p = Interior.
Proof.
  intros Hh E. destruct (mpoly_pos_member ys p E) as [y [Hy Ey]]. rewrite Ey in E.
  assert (Hne : poly_empty y = false).
  { destruct y as [c [|r rs]]; [discriminate E|reflexivity]. }
  pose proof (Hh y Hy Hne) as H. unfold interior_hyps in H. apply andb_prop in H. destruct H as [H1 H2].
  pose proof (pos_areal_interior_exec_lemma y p H1 H2 E) as Hloc.
  unfold locate, prep, locate_p in *. cbn [g_polys map existsb pg_polys] in *.
  assert (Hint : rings_interior (poly_ring_segs y) p = true).
  { destruct (rings_interior (poly_ring_segs y) p); [reflexivity|]. cbn [orb] in Hloc.
    destruct (rings_boundary (poly_ring_segs y) p || false); [discriminate|].
    cbn [existsb] in Hloc. discriminate. }
  assert (Hex : existsb (fun rs => rings_interior rs p) (map poly_ring_segs ys) = true).
  { rewrite existsb_map. apply existsb_exists. exists y. split; [exact Hy|exact Hint]. }
  rewrite Hex. reflexivity.
Qed.

(* the link to the verified reference ogc_valid (Model/ValidateSpec.v): two of the three nesting
   clauses, and the closedness of the rings, are conjuncts of its polygon clause poly_def *)
Theorem nest_okb_from_ogc (y : polyT Q) shell holes :
  rings_of y = shell :: holes ->
  poly_def (shell :: holes) = true -> forallb (shell_outside shell) holes = true -> nest_okb y = true.
Proof.
  intros Er Hd Hso. unfold nest_okb. rewrite Er. unfold poly_def in Hd.
  apply andb_prop in Hd. destruct Hd as [Hd _]. apply andb_prop in Hd. destruct Hd as [Hd Hnn].
  apply andb_prop in Hd. destruct Hd as [Hd Hhi]. apply andb_prop in Hd. destruct Hd as [Hrd _].
  rewrite Hhi, Hnn, Hso, !andb_true_r. rewrite forallb_forall in *. intros r Hr. apply ring_def_closed. apply Hrd. exact Hr.
Qed.
