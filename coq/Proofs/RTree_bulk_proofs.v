(* Property C11 - proofs about bulk loading (rtree/bulk.go) of the R-tree model. *)
From Coq Require Import ZArith List Bool Arith Lia Permutation FinFun.
From SF Require Import Base.Outcome Model.RTree Proofs.RTree_proofs.
Import ListNotations.
Open Scope nat_scope.

(* ------------------------------------------------------------------ slices: upd / swap / less *)
Lemma upd_length l : forall i x, length (upd l i x) = length l.
Proof. induction l as [|y r IH]; intros [|i] x; simpl; auto. Qed.
Lemma upd_nth_same l : forall i x, i < length l -> nth_error (upd l i x) i = Some x.
Proof.
  induction l as [|y r IH]; intros [|i] x H; simpl in *; try lia; auto. apply IH. lia.
Qed.
Lemma upd_nth_other l : forall i x n, n <> i -> nth_error (upd l i x) n = nth_error l n.
Proof.
  induction l as [|y r IH]; intros [|i] x [|n] H; simpl; auto; try congruence.
Qed.

Lemma nth_error_lt {A} (l : list A) i : i < length l -> exists a, nth_error l i = Some a.
Proof.
  intros H. destruct (nth_error l i) eqn:E; eauto. apply nth_error_None in E. lia.
Qed.

Lemma swap_ok l i j :
  i < length l -> j < length l ->
  exists l', swap l i j = Ok l' /\ Permutation l' l /\ length l' = length l.
Proof.
  intros Hi Hj. unfold swap.
  destruct (nth_error_lt l i Hi) as [a Ea]. destruct (nth_error_lt l j Hj) as [b Eb].
  rewrite Ea, Eb. eexists. split; [reflexivity|].
  assert (Hlen : length (upd (upd l i b) j a) = length l) by (rewrite !upd_length; reflexivity).
  split; [|exact Hlen]. symmetry. apply Permutation_nth_error. split; [auto|].
  exists (fun n => if n =? i then j else if n =? j then i else n). split.
  - intros x y. destruct (Nat.eqb_spec x i), (Nat.eqb_spec y i), (Nat.eqb_spec x j), (Nat.eqb_spec y j); lia.
  - intros n. destruct (Nat.eqb_spec n j) as [->|Hnj].
    + rewrite upd_nth_same by (rewrite upd_length; exact Hj).
      destruct (Nat.eqb_spec j i) as [->|]; congruence.
    + rewrite upd_nth_other by exact Hnj. destruct (Nat.eqb_spec n i) as [->|Hni].
      * rewrite upd_nth_same by exact Hi. congruence.
      * rewrite upd_nth_other by exact Hni. reflexivity.
Qed.

Lemma less_ok l i j h : i < length l -> j < length l -> exists c, less l i j h = Ok c.
Proof.
  intros Hi Hj. unfold less.
  destruct (nth_error_lt l i Hi) as [a ->]. destruct (nth_error_lt l j Hj) as [b ->]. eauto.
Qed.

Lemma cswap_ok l i j h :
  i < length l -> j < length l ->
  exists l', cswap l i j h = Ok l' /\ Permutation l' l /\ length l' = length l.
Proof.
  intros Hi Hj. unfold cswap. destruct (less_ok l i j h Hi Hj) as [c ->]. simpl.
  destruct c; [apply swap_ok; assumption|]. exists l. auto.
Qed.

(* ------------------------------------------------------------------ the LCG *)
Lemma lcg_pick_lt st n : 0 < n -> lcg_pick (lcg_next st) n < n.
Proof.
  intros Hn. unfold lcg_pick, lcg_next.
  assert (H := Z.mod_pos_bound (1664525 * st + 1013904223) 4294967296 eq_refl).
  set (s := ((1664525 * st + 1013904223) mod 4294967296)%Z) in *.
  assert (0 <= s * Z.of_nat n / 4294967296 < Z.of_nat n)%Z.
  { split; [apply Z.div_pos; nia|]. apply Z.div_lt_upper_bound; nia. }
  lia.
Qed.

(* ------------------------------------------------------------------ quickPartition *)
Lemma part_loop_ok h : forall n l i j right,
  i + n = right -> j <= i -> right < length l ->
  exists l' j', part_loop n l i j right h = Ok (l', j') /\ Permutation l' l /\
                length l' = length l /\ j <= j' /\ j' <= j + n.
Proof.
  induction n as [|n IH]; intros l i j right Hi Hj Hr; simpl.
  - exists l, j. repeat split; auto; lia.
  - destruct (less_ok l i right h) as [c ->]; [lia|lia|]. simpl. destruct c.
    + destruct (swap_ok l i j) as (l1 & -> & P1 & L1); [lia|lia|]. simpl.
      destruct (IH l1 (S i) (S j) right) as (l' & j' & -> & P & L & B1 & B2); [lia|lia|lia|].
      exists l', j'. repeat split; auto; try lia. etransitivity; eauto.
    + destruct (IH l (S i) j right) as (l' & j' & -> & P & L & B1 & B2); [lia|lia|lia|].
      exists l', j'. repeat split; auto; lia.
Qed.

Lemma qp_body_ok rec l left right k h st :
  left <= right -> right < length l -> k <= right - left ->
  (forall l' lf rg k' s', lf <= rg -> rg < length l' -> k' <= rg - lf -> rg - lf < right - left ->
                          Permutation l' l -> exists l'', rec l' lf rg k' s' = Ok l'' /\ Permutation l'' l') ->
  exists l', qp_body rec l left right k h st = Ok l' /\ Permutation l' l.
Proof.
  intros Hlr Hr Hk Hrec. unfold qp_body.
  pose proof (lcg_pick_lt st (right - left + 1) ltac:(lia)) as Hp.
  set (pivot := left + lcg_pick (lcg_next st) (right - left + 1)) in *.
  assert (exists l1, (if pivot =? right then Ok l else swap l pivot right) = Ok l1 /\
                     Permutation l1 l /\ length l1 = length l) as (l1 & -> & P1 & L1).
  { destruct (pivot =? right); [exists l; auto|]. apply swap_ok; subst pivot; lia. }
  simpl.
  destruct (part_loop_ok h (right - left) l1 left left right) as (l2 & j & -> & P2 & L2 & B1 & B2);
    [lia|lia|lia|]. simpl.
  destruct (swap_ok l2 right j) as (l3 & -> & P3 & L3); [lia|lia|]. simpl.
  assert (P : Permutation l3 l) by (etransitivity; [exact P3|etransitivity; eauto]).
  destruct (Nat.ltb_spec (j - left) k).
  - destruct (Hrec l3 (j + 1) right (k - (j - left + 1)) (lcg_next st)) as (l'' & -> & P''); try lia; auto.
    exists l''. split; [reflexivity|]. etransitivity; eauto.
  - destruct (Nat.ltb_spec k (j - left)).
    + destruct (Hrec l3 left (j - 1) k (lcg_next st)) as (l'' & -> & P''); try lia; auto.
      exists l''. split; [reflexivity|]. etransitivity; eauto.
    + exists l3. auto.
Qed.

Lemma qp_loop_ok h : forall fuel l left right k st,
  left <= right -> right < length l -> k <= right - left -> right - left < fuel ->
  exists l', qp_loop fuel l left right k h st = Ok l' /\ Permutation l' l.
Proof.
  induction fuel as [|f IH]; intros l left right k st Hlr Hr Hk Hf; [lia|].
  assert (Hgen : exists l', qp_body (fun l' lf rg k' s' => qp_loop f l' lf rg k' h s') l left right k h st = Ok l'
                            /\ Permutation l' l).
  { apply qp_body_ok; auto. intros l' lf rg k' s' H1 H2 H3 H4 _. apply IH; auto. lia. }
  cbn [qp_loop]. destruct (right - left) as [|[|[|d]]] eqn:E; auto.
  - (* two elements *)
    destruct (cswap_ok l right left h) as (l' & -> & P & _); [lia|lia|]. eauto.
  - (* three elements *)
    destruct (cswap_ok l (left + 1) left h) as (l1 & -> & P1 & L1); [lia|lia|]. simpl.
    destruct (less_ok l1 (left + 2) (left + 1) h) as [c ->]; [lia|lia|]. simpl. destruct c.
    + destruct (swap_ok l1 (left + 2) (left + 1)) as (l2 & -> & P2 & L2); [lia|lia|]. simpl.
      destruct (cswap_ok l2 (left + 1) left h) as (l3 & -> & P3 & _); [lia|lia|].
      exists l3. split; [reflexivity|]. etransitivity; [exact P3|etransitivity; eauto].
    + exists l1. auto.
Qed.

(* quickPartition never indexes out of range, terminates (the fuel suffices) and only permutes *)
Lemma quick_partition_total_lemma l k h :
  k < length l -> exists l', quick_partition l k h = Ok l' /\ Permutation l' l.
Proof.
  intros Hk. unfold quick_partition. apply qp_loop_ok; lia.
Qed.

(* ------------------------------------------------------------------ splitBulkItems2Ways *)
Lemma div2_bounds n : 2 * Nat.div2 n <= n <= 2 * Nat.div2 n + 1.
Proof.
  pose proof (Nat.div2_odd n) as H. destruct (Nat.odd n); simpl in H; lia.
Qed.

Lemma split2_ok l :
  2 <= length l ->
  exists a b, split2 l = Ok (a, b) /\ Permutation (a ++ b) l /\
              length a = Nat.div2 (length l) /\ length b = length l - Nat.div2 (length l).
Proof.
  intros H. unfold split2. destruct l as [|x r]; [simpl in H; lia|].
  cbn [items_are_horizontal bind].
  set (hz := (maxx _ - minx _ >? maxy _ - miny _)%Z). clearbody hz.
  pose proof (div2_bounds (length (x :: r))) as Hd.
  destruct (quick_partition_total_lemma (x :: r) (Nat.div2 (length (x :: r))) hz) as (l' & -> & P); [lia|].
  cbn [bind]. eexists _, _. split; [reflexivity|].
  assert (Hl : length l' = length (x :: r)) by (apply Permutation_length; exact P).
  rewrite firstn_skipn. split; [exact P|]. rewrite firstn_length, skipn_length. lia.
Qed.

(* ------------------------------------------------------------------ bulkNode / bulkInsert *)
Lemma leaves_node_app a b : leaves_node (a ++ b) = leaves_node a ++ leaves_node b.
Proof. unfold leaves_node. apply flat_map_app. Qed.

Definition built (rec : list item -> outcome node) (p : list item) : Prop :=
  exists c, rec p = Ok c /\ node_inv c = true /\ Permutation (leaves_node c) p.

Lemma bulk_node_ok rec parts :
  Forall (built rec) parts ->
  exists n, bulk_node rec parts = Ok n /\ length n = length parts /\
            forallb (fun e => negb (is_leaf e)) n = true /\ forallb entry_inv n = true /\
            Permutation (leaves_node n) (concat parts).
Proof.
  induction 1 as [|p ps (c & Hc & Hinv & Hperm) _ (n & Hn & Hlen & Hnl & Hei & Hp)]; simpl.
  - exists []. repeat split; auto.
  - rewrite Hc, Hn. simpl. eexists. split; [reflexivity|]. simpl. rewrite Hlen, Hnl, Hei.
    repeat split; auto.
    + rewrite !andb_true_r. unfold node_inv in Hinv. rewrite andb_true_iff in Hinv. destruct Hinv as [H1 H2].
      rewrite H1, H2, !andb_true_r. apply box_eqb_eq. reflexivity.
    + change (leaves_node (EBranch (calc_bound c) c :: n)) with (leaves_node c ++ leaves_node n).
      apply Permutation_app; assumption.
Qed.

Lemma leaf_node_ok items :
  1 <= length items <= 4 ->
  node_inv (map (fun it => ELeaf (ibox it) (iid it)) items) = true /\
  leaves_node (map (fun it => ELeaf (ibox it) (iid it)) items) = items.
Proof.
  intros H. split.
  - unfold node_inv, node_shape. rewrite map_length.
    assert (forallb is_leaf (map (fun it => ELeaf (ibox it) (iid it)) items) = true) as ->
        by (rewrite forallb_forall; intros e He; apply in_map_iff in He; destruct He as (it & <- & _); reflexivity).
    assert (forallb entry_inv (map (fun it => ELeaf (ibox it) (iid it)) items) = true) as ->
        by (rewrite forallb_forall; intros e He; apply in_map_iff in He; destruct He as (it & <- & _); reflexivity).
    rewrite orb_true_l, !andb_true_r. apply andb_true_iff. split; apply Nat.leb_le; lia.
  - clear H. unfold leaves_node. induction items as [|[b i] r IH]; simpl; [reflexivity|]. f_equal. exact IH.
Qed.

Lemma branch_node_inv n :
  1 <= length n <= 4 -> forallb (fun e => negb (is_leaf e)) n = true -> forallb entry_inv n = true ->
  node_inv n = true.
Proof.
  intros H H1 H2. unfold node_inv, node_shape. rewrite H1, H2, orb_true_r, !andb_true_r.
  apply andb_true_iff. split; apply Nat.leb_le; lia.
Qed.

Lemma bulk_insert_ok : forall fuel items,
  1 <= length items <= fuel ->
  exists n, bulk_insert fuel items = Ok n /\ node_inv n = true /\ Permutation (leaves_node n) items.
Proof.
  induction fuel as [|f IH]; intros items H; [lia|]. cbn [bulk_insert].
  destruct (Nat.eqb_spec (length items) 0) as [|_]; [lia|].
  destruct (Nat.leb_spec (length items) 4) as [H4|H4].
  - destruct (leaf_node_ok items) as [H1 H2]; [lia|]. eexists. split; [reflexivity|]. split; [exact H1|].
    rewrite H2. reflexivity.
  - pose proof (div2_bounds (length items)) as Hd.
    destruct (split2_ok items) as (a & b & -> & Pab & La & Lb); [lia|]. cbn [bind].
    destruct (Nat.leb_spec (length items) 8) as [H8|H8].
    + destruct (bulk_node_ok (bulk_insert f) [a; b]) as (n & -> & Hlen & Hnl & Hei & Hp).
      { repeat constructor; apply IH; lia. }
      exists n. split; [reflexivity|]. split; [apply branch_node_inv; auto; simpl in Hlen; lia|].
      rewrite Hp. simpl. rewrite app_nil_r. exact Pab.
    + pose proof (div2_bounds (length a)) as Hda. pose proof (div2_bounds (length b)) as Hdb.
      destruct (split2_ok a) as (q1 & q2 & -> & P12 & L1 & L2); [lia|]. cbn [bind].
      destruct (split2_ok b) as (q3 & q4 & -> & P34 & L3 & L4); [lia|]. cbn [bind].
      destruct (bulk_node_ok (bulk_insert f) [q1; q2; q3; q4]) as (n & -> & Hlen & Hnl & Hei & Hp).
      { repeat constructor; apply IH; lia. }
      exists n. split; [reflexivity|]. split; [apply branch_node_inv; auto; simpl in Hlen; lia|].
      rewrite Hp. simpl. rewrite app_nil_r, <- Pab, <- P12, <- P34, <- !app_assoc. reflexivity.
Qed.

(* BulkLoad: no panic, the fuel suffices, the tree satisfies the invariant, its leaves are a
   permutation of the input, Count is the number of items *)
Lemma bulk_load_ok_lemma items :
  exists t, bulk_load items = Ok t /\ tree_inv t = true /\
            Permutation (tree_leaves t) items /\ count t = length items.
Proof.
  unfold bulk_load. destruct (Nat.eqb_spec (length items) 0) as [H0|H0].
  - destruct items; [|discriminate]. exists (MkTree None 0). auto.
  - destruct (bulk_insert_ok (length items) items) as (n & -> & Hinv & P); [lia|]. cbn [bind].
    eexists. split; [reflexivity|]. unfold tree_inv, tree_leaves, count; cbn [root tcount].
    rewrite Hinv. repeat split; auto. simpl. apply Nat.eqb_eq. apply Permutation_length. exact P.
Qed.

(* ------------------------------------------------------------------ Count / Extent *)
Open Scope Z_scope.
Section Attained.
  (* p is one of the four sides of a box; combine picks it from one of its arguments *)
  Variable p : box -> Z.
  Hypothesis p_combine : forall a b, p (combine a b) = p a \/ p (combine a b) = p b.

  Lemma fold_combine_attained (r : list entry) : forall b0,
    p (fold_left (fun b e' => combine b (ebox e')) r b0) = p b0 \/
    exists e, In e r /\ p (ebox e) = p (fold_left (fun b e' => combine b (ebox e')) r b0).
  Proof.
    induction r as [|x r IH]; intros b0; simpl; [auto|].
    destruct (IH (combine b0 (ebox x))) as [H|(e & He & H)].
    - destruct (p_combine b0 (ebox x)) as [H'|H']; [left; congruence|].
      right. exists x. split; [auto|congruence].
    - right. exists e. auto.
  Qed.
  Lemma calc_bound_attained n : n <> [] -> exists e, In e n /\ p (ebox e) = p (calc_bound n).
  Proof.
    destruct n as [|x r]; [congruence|]. intros _. simpl.
    destruct (fold_combine_attained r (ebox x)) as [H|(e & He & H)]; [exists x|exists e]; auto.
  Qed.
  Lemma entry_attained e :
    entry_inv e = true -> exists it, In it (leaves e) /\ p (ibox it) = p (ebox e).
  Proof.
    induction e as [b id|b n IH] using entry_ind'; intros Hinv.
    - exists (MkItem b id). simpl. auto.
    - apply entry_inv_branch in Hinv. destruct Hinv as (-> & Hs & Hall).
      assert (Hne : n <> []).
      { unfold node_shape in Hs. destruct n; [discriminate|congruence]. }
      destruct (calc_bound_attained n Hne) as (e & He & Hp).
      rewrite Forall_forall in IH, Hall. destruct (IH e He (Hall e He)) as (it & Hit & Hpi).
      exists it. split; [simpl; apply in_flat_map; eauto|]. simpl. congruence.
  Qed.
End Attained.

Lemma minx_combine a b : minx (combine a b) = minx a \/ minx (combine a b) = minx b.
Proof. simpl. rewrite fmin_spec. lia. Qed.
Lemma miny_combine a b : miny (combine a b) = miny a \/ miny (combine a b) = miny b.
Proof. simpl. rewrite fmin_spec. lia. Qed.
Lemma maxx_combine a b : maxx (combine a b) = maxx a \/ maxx (combine a b) = maxx b.
Proof. simpl. rewrite fmax_spec. lia. Qed.
Lemma maxy_combine a b : maxy (combine a b) = maxy a \/ maxy (combine a b) = maxy b.
Proof. simpl. rewrite fmax_spec. lia. Qed.

Definition extent_okP (items : list item) (r : option box) : Prop :=
  match r with
  | None => items = []
  | Some b =>
      items <> [] /\ (forall it, In it items -> inside (ibox it) b = true) /\
      (exists it, In it items /\ minx (ibox it) = minx b) /\
      (exists it, In it items /\ miny (ibox it) = miny b) /\
      (exists it, In it items /\ maxx (ibox it) = maxx b) /\
      (exists it, In it items /\ maxy (ibox it) = maxy b)
  end.
Lemma extent_ok_iff items r : extent_ok items r = true <-> extent_okP items r.
Proof.
  unfold extent_ok, extent_okP. destruct r as [b|]; [|apply length_zero_iff].
  rewrite !andb_true_iff, negb_true_iff, forallb_forall, !existsb_exists.
  assert (((length items =? 0)%nat = false) <-> items <> []) as ->.
  { destruct items; simpl; split; congruence. }
  assert (forall (f : item -> Z) (z : Z), (exists x, In x items /\ (f x =? z) = true) <-> (exists x, In x items /\ f x = z)) as E.
  { intros f z. split; intros (x & H1 & H2); exists x; (split; [exact H1|]); apply Z.eqb_eq; exact H2. }
  rewrite (E (fun it => minx (ibox it))), (E (fun it => miny (ibox it))),
          (E (fun it => maxx (ibox it))), (E (fun it => maxy (ibox it))). tauto.
Qed.
Lemma extent_okP_perm items items' r : Permutation items items' -> extent_okP items r -> extent_okP items' r.
Proof.
  intros P. unfold extent_okP. destruct r as [b|].
  - intros (H0 & H1 & (a1 & I1 & E1) & (a2 & I2 & E2) & (a3 & I3 & E3) & (a4 & I4 & E4)).
    split; [intros ->; symmetry in P; apply Permutation_nil in P; auto|].
    split; [intros it Hit; apply H1; eapply Permutation_in; [symmetry; exact P|exact Hit]|].
    pose proof (fun x => Permutation_in x P) as Pin.
    split; [exists a1; auto|]. split; [exists a2; auto|]. split; [exists a3; auto|]. exists a4; auto.
  - intros ->. apply Permutation_nil. exact P.
Qed.

Lemma extent_tree_inv t : tree_inv t = true -> extent_okP (tree_leaves t) (extent t).
Proof.
  unfold tree_inv, tree_leaves, extent. destruct (root t) as [n|]; [|simpl; auto].
  rewrite andb_true_iff. intros [Hinv _]. pose proof (node_inv_forall _ Hinv) as Hall.
  unfold node_inv in Hinv. rewrite andb_true_iff in Hinv. destruct Hinv as [Hs _].
  assert (Hne : n <> []) by (unfold node_shape in Hs; destruct n; [discriminate|congruence]).
  assert ((length n =? 0)%nat = false) as -> by (destruct n; [congruence|reflexivity]).
  rewrite Forall_forall in Hall.
  assert (Hatt : forall p : box -> Z, (forall a b, p (combine a b) = p a \/ p (combine a b) = p b) ->
                           exists it, In it (leaves_node n) /\ p (ibox it) = p (calc_bound n)).
  { intros p Hp. destruct (calc_bound_attained p Hp n Hne) as (e & He & Hpe).
    destruct (entry_attained p Hp e (Hall e He)) as (it & Hit & Hpi).
    exists it. split; [apply in_flat_map; eauto|congruence]. }
  simpl. split.
  - destruct (Hatt minx minx_combine) as (it & Hit & _). intros E. rewrite E in Hit. exact Hit.
  - split.
    + intros it Hit. apply in_flat_map in Hit. destruct Hit as (e & He & Hit).
      eapply inside_trans; [apply (leaves_inside e (Hall e He) it Hit)|apply calc_bound_contains; exact He].
    + repeat split; [apply (Hatt minx minx_combine)|apply (Hatt miny miny_combine)|
                     apply (Hatt maxx maxx_combine)|apply (Hatt maxy maxy_combine)].
Qed.

(* Count is the number of loaded items, Extent their exact bounding box (None iff nothing loaded) *)
Lemma count_extent_spec_lemma items :
  exists t, bulk_load items = Ok t /\
            count_ok items (count t) = true /\ extent_ok items (extent t) = true.
Proof.
  destruct (bulk_load_ok_lemma items) as (t & Ht & Hinv & P & Hc). exists t. split; [exact Ht|]. split.
  - unfold count_ok. apply Nat.eqb_eq. exact Hc.
  - apply extent_ok_iff. eapply extent_okP_perm; [exact P|]. apply extent_tree_inv. exact Hinv.
Qed.

(* end to end: bulk load, then range search *)
Lemma bulk_range_search_lemma items q cb :
  exists t, bulk_load items = Ok t /\
            range_ok items q cb (fst (range_search q cb t)) (snd (range_search q cb t)) = true.
Proof.
  destruct (bulk_load_ok_lemma items) as (t & Ht & Hinv & P & _). exists t. split; [exact Ht|].
  apply range_ok_iff. eapply range_okP_perm; [exact P|]. apply range_search_okP. exact Hinv.
Qed.
