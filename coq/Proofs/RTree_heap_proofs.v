(* Property C11 - proofs about the real priority queue (Model/RTreeHeap.v): Go's container/heap
   (up, down, Push, Pop) on entriesQueue establishes and re-establishes the binary-heap invariant,
   Pop returns a minimum; PrioritySearch / Nearest running on it meet their specifications. *)
From Coq Require Import ZArith List Bool Arith Lia Permutation FinFun.
From SF Require Import Base.Outcome Model.RTree Model.RTreeHeap Proofs.RTree_proofs
     Proofs.RTree_bulk_proofs Proofs.RTree_qp_proofs Proofs.RTree_prio_proofs.
Import ListNotations.
Open Scope nat_scope.

Section HeapProofs.
  Variable o : box.

  (* ---------------------------------------------------------------- slices of entries *)
  Lemma eupd_length l : forall i x, length (eupd l i x) = length l.
  Proof. induction l as [|y r IH]; intros [|i] x; simpl; auto. Qed.
  Lemma eupd_nth_same l : forall i x, i < length l -> nth_error (eupd l i x) i = Some x.
  Proof. induction l as [|y r IH]; intros [|i] x H; simpl in *; try lia; auto. apply IH. lia. Qed.
  Lemma eupd_nth_other l : forall i x n, n <> i -> nth_error (eupd l i x) n = nth_error l n.
  Proof. induction l as [|y r IH]; intros [|i] x [|n] H; simpl; auto; try congruence. Qed.

  (* squared distance of the element at index n (0 outside the slice; only used inside) *)
  Definition dat (l : list entry) (n : nat) : Z :=
    match nth_error l n with Some e => dkey o e | None => 0%Z end.
  Lemma dat_nth l l' n m : nth_error l' n = nth_error l m -> dat l' n = dat l m.
  Proof. unfold dat. intros ->. reflexivity. Qed.

  Lemma q_swap_spec l i j l' :
    q_swap l i j = Some l' ->
    i < length l /\ j < length l /\ length l' = length l /\ Permutation l' l /\
    nth_error l' i = nth_error l j /\ nth_error l' j = nth_error l i /\
    (forall n, n <> i -> n <> j -> nth_error l' n = nth_error l n).
  Proof.
    unfold q_swap. destruct (nth_error l i) as [a|] eqn:Ea; [|discriminate].
    destruct (nth_error l j) as [b|] eqn:Eb; [|discriminate]. intros H. inversion H. subst l'. clear H.
    assert (Hi : i < length l) by (apply nth_error_Some; congruence).
    assert (Hj : j < length l) by (apply nth_error_Some; congruence).
    assert (N : forall n, nth_error (eupd (eupd l i b) j a) n = nth_error l (tr i j n)).
    { intros n. unfold tr. destruct (Nat.eqb_spec n j) as [->|Hnj].
      - rewrite eupd_nth_same by (rewrite eupd_length; exact Hj).
        destruct (Nat.eqb_spec j i) as [->|]; congruence.
      - rewrite eupd_nth_other by exact Hnj. destruct (Nat.eqb_spec n i) as [->|Hni].
        + rewrite eupd_nth_same by exact Hi. congruence.
        + rewrite eupd_nth_other by exact Hni. reflexivity. }
    assert (L : length (eupd (eupd l i b) j a) = length l) by (rewrite !eupd_length; reflexivity).
    split; [exact Hi|]. split; [exact Hj|]. split; [exact L|]. split; [|split; [|split]].
    - symmetry. apply Permutation_nth_error. split; [auto|]. exists (tr i j). split; [|exact N].
      intros x y. unfold tr.
      destruct (Nat.eqb_spec x i), (Nat.eqb_spec y i), (Nat.eqb_spec x j), (Nat.eqb_spec y j); lia.
    - rewrite N. unfold tr. rewrite Nat.eqb_refl. exact Eb.
    - rewrite N. unfold tr. rewrite Nat.eqb_refl. destruct (Nat.eqb_spec j i) as [->|]; exact Ea.
    - intros n H1 H2. rewrite N. unfold tr.
      destruct (Nat.eqb_spec n i); [congruence|]. destruct (Nat.eqb_spec n j); congruence.
  Qed.
  Lemma q_swap_total l i j : i < length l -> j < length l -> exists l', q_swap l i j = Some l'.
  Proof.
    intros Hi Hj. unfold q_swap.
    destruct (nth_error_lt l i Hi) as [a ->]. destruct (nth_error_lt l j Hj) as [b ->]. eauto.
  Qed.
  Lemma q_less_spec l i j :
    i < length l -> j < length l -> q_less o l i j = Some (dat l i <? dat l j)%Z.
  Proof.
    intros Hi Hj. unfold q_less, dat.
    destruct (nth_error_lt l i Hi) as [a ->]. destruct (nth_error_lt l j Hj) as [b ->]. reflexivity.
  Qed.

  (* ---------------------------------------------------------------- the heap invariant *)
  Definition par (c : nat) : nat := Nat.div2 (c - 1).
  Lemma par_bounds c : 0 < c -> 2 * par c + 1 <= c <= 2 * par c + 2.
  Proof. intros H. unfold par. pose proof (div2_bounds (c - 1)). lia. Qed.
  Lemma par_zero : par 0 = 0.
  Proof. reflexivity. Qed.

  (* every node among the first n is <= its children (in the squared-distance key) *)
  Definition heap_on (l : list entry) (n : nat) : Prop :=
    forall c, 0 < c < n -> (dat l (par c) <= dat l c)%Z.
  Definition is_heap (l : list entry) : Prop := heap_on l (length l).

  Lemma heap_root_min l : is_heap l -> forall c, c < length l -> (dat l 0 <= dat l c)%Z.
  Proof.
    intros H c. induction c as [c IH] using lt_wf_ind. intros Hc.
    destruct c as [|c]; [lia|]. pose proof (par_bounds (S c) ltac:(lia)) as Hp.
    specialize (IH (par (S c)) ltac:(lia) ltac:(lia)). specialize (H (S c) ltac:(lia)). lia.
  Qed.

  (* ---------------------------------------------------------------- up *)
  Definition up_inv (l : list entry) (j : nat) : Prop :=
    j < length l /\
    (forall c, 0 < c < length l -> c <> j -> (dat l (par c) <= dat l c)%Z) /\
    (forall c, 0 < c < length l -> par c = j -> 0 < j -> (dat l (par j) <= dat l c)%Z).

  Lemma up_loop_ok : forall fuel l j,
    j < fuel -> up_inv l j ->
    exists l', up_loop o fuel l j = Some l' /\ Permutation l' l /\ is_heap l'.
  Proof.
    induction fuel as [|f IH]; intros l j Hf (Hj & C1 & C2); [lia|]. cbn [up_loop]. fold (par j).
    destruct (Nat.eqb_spec (par j) j) as [E|E].
    - (* the root *)
      assert (j = 0) by (destruct j; [reflexivity|pose proof (par_bounds (S j) ltac:(lia)); lia]). subst j.
      exists l. split; [reflexivity|]. split; [reflexivity|]. intros c Hc. apply C1; lia.
    - assert (Hj0 : 0 < j) by (destruct j; [rewrite par_zero in E; congruence|lia]).
      pose proof (par_bounds j Hj0) as Hp. set (i := par j) in *.
      rewrite q_less_spec by lia. destruct (Z.ltb_spec (dat l j) (dat l i)) as [Hlt|Hge].
      + destruct (q_swap_total l i j ltac:(lia) ltac:(lia)) as [l1 Es]. rewrite Es.
        destruct (q_swap_spec _ _ _ _ Es) as (_ & _ & L & P & Ni & Nj & No).
        pose proof (dat_nth _ _ _ _ Ni) as Ki. pose proof (dat_nth _ _ _ _ Nj) as Kj.
        assert (Ko : forall n, n <> i -> n <> j -> dat l1 n = dat l n) by (intros; apply dat_nth; auto).
        destruct (IH l1 i ltac:(lia)) as (l' & E' & P' & H').
        { split; [lia|]. rewrite L. split.
          - intros c Hc Hci. pose proof (par_bounds c ltac:(lia)) as Hpc.
            destruct (Nat.eq_dec c j) as [->|Hcj]; [fold i; lia|].
            rewrite (Ko c) by lia. destruct (Nat.eq_dec (par c) i) as [Ei|Ei].
            + rewrite Ei, Ki. specialize (C1 c Hc Hcj). rewrite Ei in C1. lia.
            + destruct (Nat.eq_dec (par c) j) as [Ej|Ej].
              * rewrite Ej, Kj. apply (C2 c Hc Ej Hj0).
              * rewrite Ko by lia. apply C1; lia.
          - intros c Hc Epc Hi0. pose proof (par_bounds i Hi0) as Hpi.
            rewrite (Ko (par i)) by lia. pose proof (C1 i ltac:(lia) ltac:(lia)) as Hi1.
            destruct (Nat.eq_dec c j) as [->|Hcj]; [lia|].
            pose proof (par_bounds c ltac:(lia)). rewrite (Ko c) by lia.
            pose proof (C1 c Hc Hcj) as Hc1. rewrite Epc in Hc1. lia. }
        exists l'. split; [exact E'|]. split; [etransitivity; eauto|exact H'].
      + exists l. split; [reflexivity|]. split; [reflexivity|]. intros c Hc.
        destruct (Nat.eq_dec c j) as [->|Hcj]; [fold i; lia|]. apply C1; auto.
  Qed.

  (* container/heap.Push re-establishes the invariant *)
  Lemma heap_push_ok l x :
    is_heap l -> exists l', heap_push o l x = Some l' /\ Permutation l' (x :: l) /\ is_heap l'.
  Proof.
    intros H. unfold heap_push, heap_up. rewrite app_length. simpl.
    replace (length l + 1 - 1) with (length l) by lia.
    destruct (up_loop_ok (S (length l)) (l ++ [x]) (length l) ltac:(lia)) as (l' & E & P & H').
    { split; [rewrite app_length; simpl; lia|]. rewrite app_length. simpl. split.
      - intros c Hc Hcl. pose proof (par_bounds c ltac:(lia)).
        rewrite (dat_nth l (l ++ [x]) (par c) (par c)) by (apply nth_error_app1; lia).
        rewrite (dat_nth l (l ++ [x]) c c) by (apply nth_error_app1; lia). apply H. lia.
      - intros c Hc Epc _. pose proof (par_bounds c ltac:(lia)). lia. }
    exists l'. split; [exact E|]. split; [|exact H']. rewrite P. symmetry. apply Permutation_cons_append.
  Qed.

  (* ---------------------------------------------------------------- down *)
  Definition down_inv (l : list entry) (i n : nat) : Prop :=
    (forall c, 0 < c < n -> par c <> i -> (dat l (par c) <= dat l c)%Z) /\
    (forall c, 0 < c < n -> par c = i -> 0 < i -> (dat l (par i) <= dat l c)%Z).

  Lemma down_loop_ok : forall fuel l i n,
    n - i < fuel -> n <= length l -> down_inv l i n ->
    exists l', down_loop o fuel l i n = Some l' /\ Permutation l' l /\ length l' = length l /\
               heap_on l' n /\ (forall m, n <= m -> nth_error l' m = nth_error l m).
  Proof.
    induction fuel as [|f IH]; intros l i n Hf Hn (C1 & C2); [lia|]. cbn [down_loop].
    destruct (Nat.leb_spec n (2 * i + 1)) as [Hj1|Hj1].
    - (* no child below n *)
      exists l. split; [reflexivity|]. split; [reflexivity|]. split; [reflexivity|]. split; [|auto].
      intros c Hc. apply C1; [exact Hc|]. pose proof (par_bounds c ltac:(lia)). lia.
    - set (j1 := 2 * i + 1) in *.
      (* the smaller child j; s ranges over the children of i below n *)
      assert (exists c : bool,
                 (if j1 + 1 <? n then q_less o l (j1 + 1) j1 else Some false) = Some c /\
                 let j := if c then j1 + 1 else j1 in
                 j < n /\ par j = i /\ forall s, 0 < s < n -> par s = i -> (dat l j <= dat l s)%Z)
        as (c & -> & Hjn & Hpj & Hmin).
      { assert (Hch : forall s, 0 < s -> par s = i -> s = j1 \/ s = j1 + 1)
          by (intros s Hs Es; pose proof (par_bounds s Hs); lia).
        assert (Hp1 : par j1 = i) by (pose proof (par_bounds j1 ltac:(lia)); lia).
        assert (Hp2 : par (j1 + 1) = i) by (pose proof (par_bounds (j1 + 1) ltac:(lia)); lia).
        destruct (Nat.ltb_spec (j1 + 1) n) as [H2|H2].
        - rewrite q_less_spec by lia. eexists. split; [reflexivity|].
          destruct (Z.ltb_spec (dat l (j1 + 1)) (dat l j1)); cbv zeta; (split; [lia|]); (split; [assumption|]);
            intros s Hs Es; destruct (Hch s ltac:(lia) Es) as [->| ->]; lia.
        - exists false. split; [reflexivity|]. cbv zeta. split; [lia|]. split; [assumption|].
          intros s Hs Es. destruct (Hch s ltac:(lia) Es) as [->| ->]; lia. }
      set (j := if c then j1 + 1 else j1) in *. cbv zeta in Hjn, Hpj, Hmin.
      assert (Hij : i < j) by (subst j; destruct c; lia).
      rewrite q_less_spec by lia. destruct (Z.ltb_spec (dat l j) (dat l i)) as [Hlt|Hge].
      + destruct (q_swap_total l i j ltac:(lia) ltac:(lia)) as [l1 Es]. rewrite Es.
        destruct (q_swap_spec _ _ _ _ Es) as (_ & _ & L & P & Ni & Nj & No).
        pose proof (dat_nth _ _ _ _ Ni) as Ki. pose proof (dat_nth _ _ _ _ Nj) as Kj.
        assert (Ko : forall m, m <> i -> m <> j -> dat l1 m = dat l m) by (intros; apply dat_nth; auto).
        destruct (IH l1 j n ltac:(lia) ltac:(lia)) as (l' & E' & P' & L' & H' & U').
        { split.
          - intros s Hs Hps. pose proof (par_bounds s ltac:(lia)) as Hb.
            destruct (Nat.eq_dec s j) as [->|Hsj]; [rewrite Hpj; lia|].
            destruct (Nat.eq_dec s i) as [->|Hsi].
            + (* s = i: its parent is untouched *)
              assert (0 < i) by lia. rewrite Ko by lia. rewrite Ki.
              apply (C2 j ltac:(lia) Hpj ltac:(lia)).
            + rewrite (Ko s) by lia. destruct (Nat.eq_dec (par s) i) as [Ei|Ei].
              * rewrite Ei, Ki. apply Hmin; auto.
              * rewrite Ko by lia. apply C1; auto.
          - intros s Hs Eps _. pose proof (par_bounds s ltac:(lia)) as Hb.
            rewrite Hpj, Ki. rewrite (Ko s) by lia.
            pose proof (C1 s Hs ltac:(lia)) as Hc. rewrite Eps in Hc. exact Hc. }
        exists l'. split; [exact E'|]. split; [etransitivity; eauto|]. split; [congruence|]. split; [exact H'|].
        intros m Hm. rewrite U' by exact Hm. apply No; lia.
      + exists l. split; [reflexivity|]. split; [reflexivity|]. split; [reflexivity|]. split; [|auto].
        intros s Hs. destruct (Nat.eq_dec (par s) i) as [Ei|Ei]; [|apply C1; auto].
        rewrite Ei. specialize (Hmin s Hs Ei). lia.
  Qed.

  (* container/heap.Pop on a non-empty heap returns a minimum and leaves a heap *)
  Lemma heap_pop_ok l :
    is_heap l -> l <> [] ->
    exists e rest, heap_pop_go o l = Some (e, rest) /\ Permutation l (e :: rest) /\ is_heap rest /\
                   forall e', In e' rest -> (dkey o e <= dkey o e')%Z.
  Proof.
    intros H Hne. unfold heap_pop_go, heap_down.
    assert (Hlen : 0 < length l) by (destruct l; [congruence|simpl; lia]).
    set (n := length l - 1).
    destruct (q_swap_total l 0 n ltac:(lia) ltac:(lia)) as [l1 Es]. rewrite Es.
    destruct (q_swap_spec _ _ _ _ Es) as (_ & _ & L & P & N0 & Nn & No).
    destruct (down_loop_ok (S n) l1 0 n ltac:(lia) ltac:(lia)) as (l2 & -> & P2 & L2 & H2 & U2).
    { split; [|lia]. intros c Hc Hpc. pose proof (par_bounds c ltac:(lia)).
      rewrite (dat_nth l l1 (par c) (par c)) by (apply No; lia).
      rewrite (dat_nth l l1 c c) by (apply No; lia). apply H. lia. }
    assert (En : nth_error l2 n = nth_error l 0) by (rewrite U2 by lia; exact Nn).
    destruct (nth_error_lt l 0 Hlen) as [e E0]. rewrite En, E0.
    exists e, (firstn n l2). split; [reflexivity|].
    assert (Hsplit : l2 = firstn n l2 ++ [e]).
    { rewrite <- (firstn_skipn n l2) at 1. f_equal.
      assert (Hs : length (skipn n l2) = 1) by (rewrite skipn_length; lia).
      pose proof (nth_error_skipn' l2 n 0) as Hk. rewrite Nat.add_0_r, En, E0 in Hk.
      destruct (skipn n l2) as [|x [|y r]]; simpl in Hs; try lia. simpl in Hk. congruence. }
    assert (Pl : Permutation l (e :: firstn n l2)).
    { rewrite <- P, <- P2. rewrite Hsplit at 1. symmetry. apply Permutation_cons_append. }
    split; [exact Pl|]. split.
    - unfold is_heap. rewrite firstn_length. replace (Nat.min n (length l2)) with n by lia.
      intros c Hc. pose proof (par_bounds c ltac:(lia)).
      rewrite (dat_nth l2 (firstn n l2) (par c) (par c)) by (apply nth_error_firstn; lia).
      rewrite (dat_nth l2 (firstn n l2) c c) by (apply nth_error_firstn; lia). apply H2. exact Hc.
    - intros e' He'. assert (Hin : In e' l) by (eapply Permutation_in; [symmetry; exact Pl|right; exact He']).
      apply In_nth_error in Hin. destruct Hin as [c Ec].
      assert (Hc : c < length l) by (apply nth_error_Some; congruence).
      pose proof (heap_root_min l H c Hc) as Hm. unfold dat in Hm. rewrite E0, Ec in Hm. exact Hm.
  Qed.

  Lemma is_heap_nil : is_heap [].
  Proof. intros c Hc. simpl in Hc. lia. Qed.

  (* equeueNode: every entry of the node is pushed *)
  Lemma enqueue_ok n : forall l,
    is_heap l -> exists l', enqueue o l n = Some l' /\ Permutation l' (l ++ n) /\ is_heap l'.
  Proof.
    induction n as [|e r IH]; intros l H; simpl.
    - exists l. rewrite app_nil_r. auto.
    - destruct (heap_push_ok l e H) as (l1 & -> & P1 & H1).
      destruct (IH l1 H1) as (l' & -> & P' & H'). exists l'. split; [reflexivity|]. split; [|exact H'].
      rewrite P', P1. simpl. apply Permutation_middle.
  Qed.

  (* ---------------------------------------------------------------- the best-first loop on the real queue *)
  Variable cb : callback.

  Lemma psh_loop_spec : forall fuel queue k,
    Forall (fun e => entry_inv e = true) queue -> is_heap queue -> (nsize queue < fuel)%nat ->
    exists v r rest,
      psh_loop o cb fuel queue k = Some (v, r) /\
      Permutation (v ++ rest) (leaves_node queue) /\
      sorted_by (dist o) v = true /\
      (forall x u, In x v -> In u rest -> (dist o x <= dist o u)%Z) /\
      match first_stop cb k v with
      | None => rest = [] /\ r = None
      | Some (j, a) => (k + length v = S j)%nat /\ r = Some a
      end.
  Proof.
    induction fuel as [|f IH]; intros queue k Hall Hheap Hf; [lia|]. cbn [psh_loop].
    destruct queue as [|e0 q0] eqn:Eq.
    - exists [], None, []. simpl. repeat split; auto; intros x u [].
    - rewrite <- Eq in *. replace (length queue =? 0) with false by (rewrite Eq; reflexivity).
      destruct (heap_pop_ok queue Hheap ltac:(rewrite Eq; discriminate)) as (e & restq & -> & P & Hrest & Hmin).
      clear Eq e0 q0.
      assert (Hall' : Forall (fun e => entry_inv e = true) (e :: restq)).
      { rewrite Forall_forall in *. intros x Hx. apply Hall. eapply Permutation_in; [symmetry; exact P|exact Hx]. }
      inversion Hall' as [|? ? He Hrestq]; subst.
      pose proof (nsize_perm _ _ P) as Hsz. rewrite nsize_cons in Hsz.
      pose proof (leaves_node_perm _ _ P) as Pl.
      destruct e as [b id|b n].
      + change (leaves_node (ELeaf b id :: restq)) with (MkItem b id :: leaves_node restq) in Pl.
        assert (Hfar : forall u, In u (leaves_node restq) -> (dist o (MkItem b id) <= dist o u)%Z).
        { intros u Hu. apply (queue_leaf_dist_ge o restq _ u Hrestq); [|exact Hu]. exact Hmin. }
        destruct (cb k id) eqn:Ecb; cbn [err_of].
        * simpl in Hsz.
          destruct (IH restq (S k) Hrestq Hrest ltac:(lia)) as (v & r & rest & -> & Pv & Sv & Fv & Cv).
          exists (MkItem b id :: v), r, rest. split; [reflexivity|].
          assert (Hin : forall x, In x (v ++ rest) -> In x (leaves_node restq))
            by (intros x Hx; eapply Permutation_in; [exact Pv|exact Hx]).
          split; [simpl; rewrite Pl; constructor; exact Pv|]. split; [|split].
          -- cbn [sorted_by]. destruct v as [|y v']; [reflexivity|]. rewrite Sv, andb_true_r.
             apply Z.leb_le. apply Hfar. apply Hin. left. reflexivity.
          -- intros x u [<-|Hx] Hu; [|auto]. apply Hfar. apply Hin. apply in_or_app. right. exact Hu.
          -- cbn [first_stop iid]. rewrite Ecb. destruct (first_stop cb (S k) v) as [[j a]|]; [|exact Cv].
             destruct Cv as [Cv ->]. split; [simpl; lia|reflexivity].
        * exists [MkItem b id], (Some Stop), (leaves_node restq). split; [reflexivity|].
          split; [simpl; rewrite Pl; reflexivity|]. split; [reflexivity|]. split.
          -- intros x u [<-|[]] Hu. auto.
          -- cbn [first_stop iid]. rewrite Ecb. split; [simpl; lia|reflexivity].
        * exists [MkItem b id], (Some WrappedStop), (leaves_node restq). split; [reflexivity|].
          split; [simpl; rewrite Pl; reflexivity|]. split; [reflexivity|]. split.
          -- intros x u [<-|[]] Hu. auto.
          -- cbn [first_stop iid]. rewrite Ecb. split; [simpl; lia|reflexivity].
        * exists [MkItem b id], (Some (Fail e)), (leaves_node restq). split; [reflexivity|].
          split; [simpl; rewrite Pl; reflexivity|]. split; [reflexivity|]. split.
          -- intros x u [<-|[]] Hu. auto.
          -- cbn [first_stop iid]. rewrite Ecb. split; [simpl; lia|reflexivity].
      + apply entry_inv_branch in He. destruct He as (_ & _ & Hn).
        change (esize (EBranch b n)) with (S (nsize n)) in Hsz.
        destruct (enqueue_ok n restq Hrest) as (queue' & -> & Pq & Hq').
        assert (Hq : Forall (fun e => entry_inv e = true) queue').
        { rewrite Forall_forall. intros x Hx.
          assert (Hx' : In x (restq ++ n)) by (eapply Permutation_in; [exact Pq|exact Hx]).
          rewrite Forall_forall in Hrestq, Hn. apply in_app_or in Hx'. destruct Hx'; auto. }
        pose proof (nsize_perm _ _ Pq) as Hsz'. rewrite nsize_app in Hsz'.
        destruct (IH queue' k Hq Hq' ltac:(lia)) as (v & r & rest & -> & Pv & Sv & Fv & Cv).
        exists v, r, rest. split; [reflexivity|]. split; [|auto].
        rewrite Pv, (leaves_node_perm _ _ Pq), Pl, leaves_node_app'.
        change (leaves_node (EBranch b n :: restq)) with (leaves_node n ++ leaves_node restq).
        apply Permutation_app_comm.
  Qed.
End HeapProofs.

Lemma priority_search_heap_okP t q cb :
  tree_inv t = true ->
  exists v ret, priority_search_heap q cb t = Some (v, ret) /\ prio_okP (tree_leaves t) q cb v ret.
Proof.
  unfold tree_inv, priority_search_heap, tree_leaves. destruct (root t) as [n|].
  - rewrite andb_true_iff. intros [Hinv _]. apply node_inv_forall in Hinv.
    destruct (enqueue_ok q n [] (is_heap_nil q)) as (queue & -> & Pq & Hq). simpl in Pq.
    assert (Hall : Forall (fun e => entry_inv e = true) queue).
    { rewrite Forall_forall in *. intros x Hx. apply Hinv. eapply Permutation_in; [exact Pq|exact Hx]. }
    pose proof (nsize_perm _ _ Pq) as Hsz.
    destruct (psh_loop_spec q cb (S (nsize n)) queue 0 Hall Hq ltac:(lia)) as (v & r & rest & -> & Pv & Sv & Fv & Cv).
    exists v, (surface r). split; [reflexivity|]. exists rest.
    split; [rewrite Pv; apply leaves_node_perm; exact Pq|]. repeat split; auto.
    unfold stop_clause. destruct (first_stop cb 0 v) as [[j a]|].
    + destruct Cv as [Cv ->]. split; [simpl in Cv; exact Cv|reflexivity].
    + destruct Cv as [-> ->]. auto.
  - intros _. exists [], RNil. split; [reflexivity|]. exists []. simpl. unfold stop_clause. simpl.
    repeat split; auto; intros x u [].
Qed.

(* PrioritySearch on Go's real heap: no hypothesis about the queue is left *)
Lemma priority_search_heap_spec_lemma t q cb :
  tree_inv t = true ->
  exists v ret, priority_search_heap q cb t = Some (v, ret) /\
                prio_ok (tree_leaves t) q cb v ret = true.
Proof.
  intros Ht. destruct (priority_search_heap_okP t q cb Ht) as (v & ret & H1 & H2).
  exists v, ret. split; [exact H1|]. apply prio_ok_iff. exact H2.
Qed.

Lemma nearest_heap_spec_lemma t q :
  tree_inv t = true ->
  exists r, nearest_heap t q = Some r /\ nearest_ok (tree_leaves t) q r = true.
Proof.
  intros Ht. unfold nearest_heap.
  destruct (priority_search_heap_okP t q (fun _ _ => Stop) Ht) as (v & ret & -> & rest & P & _ & F & S).
  eexists. split; [reflexivity|]. unfold stop_clause in S. destruct v as [|x v].
  - simpl in S. destruct S as [-> _]. simpl in P. apply Permutation_nil in P. rewrite P. reflexivity.
  - simpl in S. destruct S as [S _]. destruct v; [|simpl in S; lia]. simpl.
    apply andb_true_iff. split.
    + apply existsb_exists. exists x. split; [eapply Permutation_in; [exact P|left; reflexivity]|].
      apply item_eqb_eq. reflexivity.
    + apply forallb_forall. intros y Hy. apply Z.leb_le.
      assert (Hy' : In y ([x] ++ rest)) by (eapply Permutation_in; [symmetry; exact P|exact Hy]).
      destruct Hy' as [<-|Hy']; [lia|]. apply (F x y); [left; reflexivity|exact Hy'].
Qed.

(* end to end from the loaded items *)
Lemma bulk_priority_search_heap_lemma items q cb :
  exists t v ret, bulk_load items = Ok t /\ priority_search_heap q cb t = Some (v, ret) /\
                  prio_ok items q cb v ret = true.
Proof.
  destruct (bulk_load_ok_lemma items) as (t & Ht & Hinv & P & _).
  destruct (priority_search_heap_okP t q cb Hinv) as (v & ret & H1 & H2).
  exists t, v, ret. split; [exact Ht|]. split; [exact H1|]. apply prio_ok_iff.
  eapply prio_okP_perm; [exact P|exact H2].
Qed.
Lemma bulk_nearest_heap_lemma items q :
  exists t r, bulk_load items = Ok t /\ nearest_heap t q = Some r /\ nearest_ok items q r = true.
Proof.
  destruct (bulk_load_ok_lemma items) as (t & Ht & Hinv & P & _).
  destruct (nearest_heap_spec_lemma t q Hinv) as (r & H1 & H2). exists t, r. split; [exact Ht|]. split; [exact H1|].
  unfold nearest_ok in *. destruct r as [x|].
  - rewrite andb_true_iff in *. destruct H2 as [H2 H3]. split.
    + apply existsb_exists. apply existsb_exists in H2. destruct H2 as (y & Hy & E). exists y. split; [|exact E].
      eapply Permutation_in; [exact P|exact Hy].
    + apply forallb_forall. intros y Hy. rewrite forallb_forall in H3. apply H3.
      eapply Permutation_in; [symmetry; exact P|exact Hy].
  - rewrite Nat.eqb_eq in *. rewrite <- (Permutation_length P). exact H2.
Qed.
