(* Property C11 - proofs about PrioritySearch / Nearest (rtree/nearest.go) of the R-tree model.
   container/heap is abstracted by [heap_spec]: pop removes an entry of minimal distance. *)
From Coq Require Import ZArith List Bool Arith Lia Permutation.
From SF Require Import Base.Outcome Model.RTree Proofs.RTree_proofs.
Import ListNotations.
Open Scope Z_scope.

Definition heap_spec (pop : heap_pop) : Prop :=
  forall q l,
    match pop q l with
    | None => l = []
    | Some (e, r) => Permutation l (e :: r) /\
                     forall e', In e' r -> sqdist (ebox e) q <= sqdist (ebox e') q
    end.

Definition dist (q : box) (it : item) : Z := sqdist (ibox it) q.

(* ------------------------------------------------------------------ the concrete queue *)
Lemma pop_min_aux_spec q : forall l best rest,
  (forall e', In e' rest -> sqdist (ebox best) q <= sqdist (ebox e') q) ->
  let (e, r) := pop_min_aux q best rest l in
  Permutation (best :: rest ++ l) (e :: r) /\
  forall e', In e' r -> sqdist (ebox e) q <= sqdist (ebox e') q.
Proof.
  induction l as [|x l IH]; intros best rest H; simpl.
  - rewrite app_nil_r. split; [reflexivity|exact H].
  - destruct (Z.ltb_spec (sqdist (ebox x) q) (sqdist (ebox best) q)) as [Hlt|Hge].
    + specialize (IH x (best :: rest)). destruct (pop_min_aux q x (best :: rest) l) as [e r].
      destruct IH as [P M].
      { intros e' [<-|He']; [lia|]. specialize (H e' He'). lia. }
      split; [|exact M]. etransitivity; [|exact P]. simpl.
      rewrite <- (Permutation_middle rest l x). apply perm_swap.
    + specialize (IH best (x :: rest)). destruct (pop_min_aux q best (x :: rest) l) as [e r].
      destruct IH as [P M].
      { intros e' [<-|He']; [lia|auto]. }
      split; [|exact M]. etransitivity; [|exact P]. simpl. constructor. symmetry. apply Permutation_middle.
Qed.
Lemma pop_min_heap_spec : heap_spec pop_min.
Proof.
  intros q l. unfold pop_min. destruct l as [|e r]; [reflexivity|].
  pose proof (pop_min_aux_spec q r e [] ltac:(simpl; tauto)) as H.
  destruct (pop_min_aux q e [] r) as [e0 r0]. exact H.
Qed.

(* ------------------------------------------------------------------ sizes and leaves of queues *)
Lemma nsize_cons e r : nsize (e :: r) = (esize e + nsize r)%nat.
Proof. reflexivity. Qed.
Lemma nsize_app a b : nsize (a ++ b) = (nsize a + nsize b)%nat.
Proof. induction a as [|x a IH]; simpl; [reflexivity|]. fold (nsize (a ++ b)). fold (nsize a). lia. Qed.
Lemma nsize_perm a b : Permutation a b -> nsize a = nsize b.
Proof.
  induction 1; simpl; try reflexivity.
  - fold (nsize l). fold (nsize l'). lia.
  - fold (nsize l). lia.
  - congruence.
Qed.
Lemma leaves_node_perm a b : Permutation a b -> Permutation (leaves_node a) (leaves_node b).
Proof. intros H. unfold leaves_node. apply Permutation_flat_map. exact H. Qed.
Lemma leaves_node_app' a b : leaves_node (a ++ b) = leaves_node a ++ leaves_node b.
Proof. unfold leaves_node. apply flat_map_app. Qed.

(* every record below an entry is at least as far from q as the entry's box *)
Lemma leaf_dist_ge q e it :
  entry_inv e = true -> In it (leaves e) -> sqdist (ebox e) q <= dist q it.
Proof.
  intros Hinv Hin. unfold dist. apply sqdist_inside_mono. apply (leaves_inside e Hinv it Hin).
Qed.
Lemma queue_leaf_dist_ge q (queue : list entry) z it :
  Forall (fun e => entry_inv e = true) queue ->
  (forall e, In e queue -> z <= sqdist (ebox e) q) ->
  In it (leaves_node queue) -> z <= dist q it.
Proof.
  intros Hall Hz Hin. apply in_flat_map in Hin. destruct Hin as (e & He & Hit).
  rewrite Forall_forall in Hall. pose proof (leaf_dist_ge q e it (Hall e He) Hit). specialize (Hz e He). lia.
Qed.

(* ------------------------------------------------------------------ the specification as Prop *)
Definition prio_okP (items : list item) (q : box) (cb : callback)
           (visits : list item) (ret : result) : Prop :=
  exists rest, Permutation (visits ++ rest) items /\
               sorted_by (dist q) visits = true /\
               (forall x u, In x visits -> In u rest -> dist q x <= dist q u) /\
               stop_clause cb visits rest ret.

Lemma prio_ok_iff items q cb visits ret :
  prio_ok items q cb visits ret = true <-> prio_okP items q cb visits ret.
Proof.
  unfold prio_ok, prio_okP. fold (dist q). split.
  - destruct (ms_diff items visits) as [rest|] eqn:E; [|discriminate].
    rewrite !andb_true_iff. intros [[H1 H2] H3]. exists rest.
    split; [apply ms_diff_perm; exact E|]. split; [exact H1|]. split; [|apply stop_clause_bool; exact H3].
    intros x u Hx Hu. rewrite forallb_forall in H2. specialize (H2 x Hx). rewrite forallb_forall in H2.
    apply Z.leb_le. apply (H2 u Hu).
  - intros (rest & P & H1 & H2 & H3). destruct (perm_ms_diff _ _ _ P) as (rest' & -> & P').
    rewrite !andb_true_iff. split; [split; [exact H1|]|].
    + apply forallb_forall. intros x Hx. apply forallb_forall. intros u Hu. apply Z.leb_le.
      apply H2; [exact Hx|]. eapply Permutation_in; [exact P'|exact Hu].
    + apply stop_clause_bool. eapply stop_clause_perm; eauto.
Qed.
Lemma prio_okP_perm items items' q cb visits ret :
  Permutation items items' -> prio_okP items q cb visits ret -> prio_okP items' q cb visits ret.
Proof.
  intros P (rest & H & S). exists rest. split; [rewrite H; exact P|exact S].
Qed.

(* ------------------------------------------------------------------ the best-first loop *)
Section Loop.
  Variable pop : heap_pop.
  Hypothesis pop_ok : heap_spec pop.
  Variable q : box.
  Variable cb : callback.

  Lemma ps_loop_spec : forall fuel queue k,
    Forall (fun e => entry_inv e = true) queue -> (nsize queue < fuel)%nat ->
    exists v r rest,
      ps_loop pop q cb fuel queue k = Some (v, r) /\
      Permutation (v ++ rest) (leaves_node queue) /\
      sorted_by (dist q) v = true /\
      (forall x u, In x v -> In u rest -> dist q x <= dist q u) /\
      match first_stop cb k v with
      | None => rest = [] /\ r = None
      | Some (j, a) => (k + length v = S j)%nat /\ r = Some a
      end.
  Proof.
    induction fuel as [|f IH]; intros queue k Hall Hf; [lia|]. cbn [ps_loop].
    pose proof (pop_ok q queue) as Hpop. destruct (pop q queue) as [[e restq]|].
    - destruct Hpop as [P Hmin].
      assert (Hall' : Forall (fun e => entry_inv e = true) (e :: restq)).
      { rewrite Forall_forall in *. intros x Hx. apply Hall. eapply Permutation_in; [symmetry; exact P|exact Hx]. }
      inversion Hall' as [|? ? He Hrestq]; subst.
      pose proof (nsize_perm _ _ P) as Hsz. rewrite nsize_cons in Hsz.
      pose proof (leaves_node_perm _ _ P) as Pl.
      destruct e as [b id|b n].
      + (* a record: the callback is invoked *)
        change (leaves_node (ELeaf b id :: restq)) with (MkItem b id :: leaves_node restq) in Pl.
        assert (Hfar : forall u, In u (leaves_node restq) -> dist q (MkItem b id) <= dist q u).
        { intros u Hu. apply (queue_leaf_dist_ge q restq _ u Hrestq); [|exact Hu]. exact Hmin. }
        destruct (cb k id) eqn:Ecb; cbn [err_of].
        * simpl in Hsz.
          destruct (IH restq (S k) Hrestq ltac:(lia)) as (v & r & rest & -> & Pv & Sv & Fv & Cv).
          exists (MkItem b id :: v), r, rest. split; [reflexivity|].
          assert (Hin : forall x, In x (v ++ rest) -> In x (leaves_node restq))
            by (intros x Hx; eapply Permutation_in; [exact Pv|exact Hx]).
          split; [simpl; rewrite Pl; constructor; exact Pv|]. split; [|split].
          -- cbn [sorted_by]. destruct v as [|y v']; [reflexivity|]. rewrite Sv, andb_true_r.
             apply Z.leb_le. apply Hfar. apply Hin. left. reflexivity.
          -- intros x u [<-|Hx] Hu; [|auto]. apply Hfar. apply Hin. apply in_or_app. right. exact Hu.
          -- cbn [first_stop iid]. rewrite Ecb. destruct (first_stop cb (S k) v) as [[j a]|]; [|exact Cv].
             destruct Cv as [Cv ->]. split; [simpl; lia|reflexivity].
        * exists [MkItem b id], (Some Stop), (leaves_node restq). split; [reflexivity|].
          split; [simpl; rewrite Pl; reflexivity|]. split; [reflexivity|]. split.
          -- intros x u [<-|[]] Hu. auto.
          -- cbn [first_stop iid]. rewrite Ecb. split; [simpl; lia|reflexivity].
        * exists [MkItem b id], (Some WrappedStop), (leaves_node restq). split; [reflexivity|].
          split; [simpl; rewrite Pl; reflexivity|]. split; [reflexivity|]. split.
          -- intros x u [<-|[]] Hu. auto.
          -- cbn [first_stop iid]. rewrite Ecb. split; [simpl; lia|reflexivity].
        * exists [MkItem b id], (Some (Fail e)), (leaves_node restq). split; [reflexivity|].
          split; [simpl; rewrite Pl; reflexivity|]. split; [reflexivity|]. split.
          -- intros x u [<-|[]] Hu. auto.
          -- cbn [first_stop iid]. rewrite Ecb. split; [simpl; lia|reflexivity].
      + (* a node: its entries are pushed *)
        apply entry_inv_branch in He. destruct He as (_ & _ & Hn).
        change (esize (EBranch b n)) with (S (nsize n)) in Hsz.
        assert (Hq : Forall (fun e => entry_inv e = true) (restq ++ n)) by (apply Forall_app; auto).
        destruct (IH (restq ++ n) k Hq ltac:(rewrite nsize_app; lia)) as (v & r & rest & -> & Pv & Sv & Fv & Cv).
        exists v, r, rest. split; [reflexivity|]. split; [|auto].
        rewrite Pv, Pl, leaves_node_app'.
        change (leaves_node (EBranch b n :: restq)) with (leaves_node n ++ leaves_node restq).
        apply Permutation_app_comm.
    - subst queue. exists [], None, []. simpl. repeat split; auto; intros x u [].
  Qed.

  Lemma priority_search_okP t :
    tree_inv t = true ->
    exists v ret, priority_search pop q cb t = Some (v, ret) /\ prio_okP (tree_leaves t) q cb v ret.
  Proof.
    unfold tree_inv, priority_search, tree_leaves. destruct (root t) as [n|].
    - rewrite andb_true_iff. intros [Hinv _]. apply node_inv_forall in Hinv.
      destruct (ps_loop_spec (S (nsize n)) n 0 Hinv ltac:(lia)) as (v & r & rest & -> & Pv & Sv & Fv & Cv).
      exists v, (surface r). split; [reflexivity|]. exists rest. repeat split; auto.
      unfold stop_clause. destruct (first_stop cb 0 v) as [[j a]|].
      + destruct Cv as [Cv ->]. split; [simpl in Cv; exact Cv|reflexivity].
      + destruct Cv as [-> ->]. auto.
    - intros _. exists [], RNil. split; [reflexivity|]. exists []. simpl. unfold stop_clause. simpl.
      repeat split; auto; intros x u [].
  Qed.
End Loop.

Lemma priority_search_spec_lemma pop t q cb :
  heap_spec pop -> tree_inv t = true ->
  exists v ret, priority_search pop q cb t = Some (v, ret) /\
                prio_ok (tree_leaves t) q cb v ret = true.
Proof.
  intros Hp Ht. destruct (priority_search_okP pop Hp q cb t Ht) as (v & ret & H1 & H2).
  exists v, ret. split; [exact H1|]. apply prio_ok_iff. exact H2.
Qed.

(* Nearest: a record at minimal distance, or None iff the tree holds no record *)
Lemma nearest_spec_lemma pop t q :
  heap_spec pop -> tree_inv t = true ->
  exists r, nearest pop t q = Some r /\ nearest_ok (tree_leaves t) q r = true.
Proof.
  intros Hp Ht. unfold nearest.
  destruct (priority_search_okP pop Hp q (fun _ _ => Stop) t Ht) as (v & ret & -> & rest & P & _ & F & S).
  eexists. split; [reflexivity|]. unfold stop_clause in S. destruct v as [|x v].
  - simpl in S. destruct S as [-> _]. simpl in P. apply Permutation_nil in P. rewrite P. reflexivity.
  - simpl in S. destruct S as [S _]. destruct v; [|simpl in S; lia]. simpl.
    apply andb_true_iff. split.
    + apply existsb_exists. exists x. split; [eapply Permutation_in; [exact P|left; reflexivity]|].
      apply item_eqb_eq. reflexivity.
    + apply forallb_forall. intros y Hy. apply Z.leb_le.
      assert (Hy' : In y ([x] ++ rest)) by (eapply Permutation_in; [symmetry; exact P|exact Hy]).
      destruct Hy' as [<-|Hy']; [lia|]. apply (F x y); [left; reflexivity|exact Hy'].
Qed.

(* Re-entrancy: a callback may itself search the same tree (another query, another script) and
   let its answers depend on what it found.  In the model a search is a function of (tree, query,
   script) and the tree is immutable, so such a callback is just another callback: the inner
   search meets its specification, and so does the outer one, whatever the interleaving. *)
Lemma nested_searches_spec_lemma pop t q q2 cb2
      (answer : option (list item * result) -> list item * result -> nat -> Z -> action) :
  heap_spec pop -> tree_inv t = true ->
  let inner_p := priority_search pop q2 cb2 t in
  let inner_r := range_search q2 cb2 t in
  let cb := fun k id => answer inner_p inner_r k id in
  (exists v ret, inner_p = Some (v, ret) /\ prio_ok (tree_leaves t) q2 cb2 v ret = true) /\
  range_ok (tree_leaves t) q2 cb2 (fst inner_r) (snd inner_r) = true /\
  (exists v ret, priority_search pop q cb t = Some (v, ret) /\ prio_ok (tree_leaves t) q cb v ret = true) /\
  range_ok (tree_leaves t) q cb (fst (range_search q cb t)) (snd (range_search q cb t)) = true.
Proof.
  intros Hp Ht. cbv zeta. split; [apply priority_search_spec_lemma; assumption|].
  split; [apply range_search_spec_lemma; assumption|].
  split; [apply priority_search_spec_lemma; assumption|apply range_search_spec_lemma; assumption].
Qed.
