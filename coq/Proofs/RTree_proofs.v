(* Property C11 - proofs about the R-tree model (Model/RTree.v). *)
From Coq Require Import ZArith List Bool Arith Lia Permutation.
From SF Require Import Base.Outcome Model.RTree.
Import ListNotations.
Open Scope Z_scope.

(* ------------------------------------------------------------------ boxes *)
Lemma fmin_spec a b : fmin a b = Z.min a b.
Proof. unfold fmin. destruct (Z.ltb_spec a b); lia. Qed.
Lemma fmax_spec a b : fmax a b = Z.max a b.
Proof. unfold fmax. rewrite Z.gtb_ltb. destruct (Z.ltb_spec b a); lia. Qed.

Lemma overlap_true_iff a b :
  overlap a b = true <->
  minx a <= maxx b /\ minx b <= maxx a /\ miny a <= maxy b /\ miny b <= maxy a.
Proof.
  unfold overlap. rewrite !andb_true_iff, !Z.leb_le, !Z.geb_le. tauto.
Qed.

Lemma inside_true_iff a b :
  inside a b = true <->
  minx b <= minx a /\ miny b <= miny a /\ maxx a <= maxx b /\ maxy a <= maxy b.
Proof. unfold inside. rewrite !andb_true_iff, !Z.leb_le. tauto. Qed.

Lemma box_eqb_eq a b : box_eqb a b = true <-> a = b.
Proof.
  unfold box_eqb. rewrite !andb_true_iff, !Z.eqb_eq. destruct a, b; simpl. split.
  - intros [[[-> ->] ->] ->]. reflexivity.
  - intros H. inversion H. auto.
Qed.

Lemma item_eqb_eq a b : item_eqb a b = true <-> a = b.
Proof.
  unfold item_eqb. rewrite andb_true_iff, box_eqb_eq, Z.eqb_eq. destruct a, b; simpl. split.
  - intros [-> ->]. reflexivity.
  - intros H. inversion H. auto.
Qed.

Lemma inside_refl a : inside a a = true.
Proof. apply inside_true_iff. lia. Qed.
Lemma inside_trans a b c : inside a b = true -> inside b c = true -> inside a c = true.
Proof. rewrite !inside_true_iff. lia. Qed.

(* two boxes overlap iff they share a point (touching counts) *)
Definition in_box (x y : Z) (b : box) : Prop := minx b <= x <= maxx b /\ miny b <= y <= maxy b.
Lemma overlap_iff_common_point_lemma a b :
  box_wf a = true -> box_wf b = true ->
  (overlap a b = true <-> exists x y, in_box x y a /\ in_box x y b).
Proof.
  unfold box_wf, in_box. rewrite !andb_true_iff, !Z.leb_le, overlap_true_iff. intros Ha Hb. split.
  - intros H. exists (Z.max (minx a) (minx b)), (Z.max (miny a) (miny b)). lia.
  - intros (x & y & H1 & H2). lia.
Qed.

Lemma overlap_sym a b : overlap a b = overlap b a.
Proof.
  apply eq_true_iff_eq. rewrite !overlap_true_iff. tauto.
Qed.

(* pruning is sound: a query overlapping a box overlaps every box that contains it *)
Lemma overlap_inside a b q : inside a b = true -> overlap a q = true -> overlap b q = true.
Proof. rewrite inside_true_iff, !overlap_true_iff. lia. Qed.

Lemma sqdist_nonneg a b : 0 <= sqdist a b.
Proof. unfold sqdist. nia. Qed.

(* key lemma of best-first search: distance to a box inside another one is not smaller *)
Lemma sqdist_inside_mono a b q : inside a b = true -> sqdist b q <= sqdist a q.
Proof.
  rewrite inside_true_iff. intros H. unfold sqdist. rewrite !fmax_spec.
  assert (Hx : 0 <= Z.max 0 (Z.max (minx b - maxx q) (minx q - maxx b))
               <= Z.max 0 (Z.max (minx a - maxx q) (minx q - maxx a))) by lia.
  assert (Hy : 0 <= Z.max 0 (Z.max (miny b - maxy q) (miny q - maxy b))
               <= Z.max 0 (Z.max (miny a - maxy q) (miny q - maxy a))) by lia.
  nia.
Qed.

Lemma sqdist_zero_iff_overlap_lemma a b :
  box_wf a = true -> box_wf b = true -> (sqdist a b = 0 <-> overlap a b = true).
Proof.
  unfold box_wf. rewrite !andb_true_iff, !Z.leb_le, overlap_true_iff. intros Ha Hb.
  unfold sqdist. rewrite !fmax_spec. split.
  - intros H.
    assert (Z.max 0 (Z.max (minx a - maxx b) (minx b - maxx a)) = 0) by nia.
    assert (Z.max 0 (Z.max (miny a - maxy b) (miny b - maxy a)) = 0) by nia. lia.
  - intros H.
    replace (Z.max 0 (Z.max (minx a - maxx b) (minx b - maxx a))) with 0 by lia.
    replace (Z.max 0 (Z.max (miny a - maxy b) (miny b - maxy a))) with 0 by lia. reflexivity.
Qed.

(* ------------------------------------------------------------------ induction on entries *)
Section EntryInd.
  Variable P : entry -> Prop.
  Hypothesis Hleaf : forall b id, P (ELeaf b id).
  Hypothesis Hbranch : forall b n, Forall P n -> P (EBranch b n).
  Fixpoint entry_ind' (e : entry) : P e :=
    match e with
    | ELeaf b id => Hleaf b id
    | EBranch b n =>
        Hbranch b n ((fix go (l : list entry) : Forall P l :=
                        match l with
                        | [] => Forall_nil P
                        | x :: r => Forall_cons x (entry_ind' x) (go r)
                        end) n)
    end.
End EntryInd.

(* ------------------------------------------------------------------ multisets of items *)
Lemma remove1_perm x l l' : remove1 x l = Some l' -> Permutation l (x :: l').
Proof.
  revert l'. induction l as [|y r IH]; simpl; intros l' H; [discriminate|].
  destruct (item_eqb x y) eqn:E.
  - apply item_eqb_eq in E. inversion H. subst. reflexivity.
  - destruct (remove1 x r) as [r'|]; [|discriminate]. inversion H. subst.
    rewrite (IH r' eq_refl). apply perm_swap.
Qed.
Lemma remove1_in x l : In x l -> exists l', remove1 x l = Some l'.
Proof.
  induction l as [|y r IH]; simpl; intros H; [tauto|].
  destruct (item_eqb x y) eqn:E; [eauto|].
  destruct H as [H|H].
  - subst. assert (item_eqb x x = true) by (apply item_eqb_eq; reflexivity). congruence.
  - destruct (IH H) as [l' ->]. eauto.
Qed.
Lemma ms_diff_perm l v rest : ms_diff l v = Some rest -> Permutation (v ++ rest) l.
Proof.
  revert l. induction v as [|x v IH]; simpl; intros l H.
  - inversion H. reflexivity.
  - destruct (remove1 x l) as [l'|] eqn:E; [|discriminate].
    apply remove1_perm in E. rewrite E. constructor. auto.
Qed.
Lemma perm_ms_diff l v rest :
  Permutation (v ++ rest) l -> exists rest', ms_diff l v = Some rest' /\ Permutation rest' rest.
Proof.
  revert l. induction v as [|x v IH]; simpl; intros l H.
  - exists l. split; [reflexivity|]. symmetry. exact H.
  - assert (Hin : In x l) by (eapply Permutation_in; [exact H|left; reflexivity]).
    destruct (remove1_in _ _ Hin) as [l' E]. rewrite E.
    apply IH. apply remove1_perm in E. rewrite E in H. eapply Permutation_cons_inv. exact H.
Qed.

(* ------------------------------------------------------------------ the specification as Prop *)
Definition ov (q : box) (it : item) : bool := overlap (ibox it) q.

Definition stop_clause (cb : callback) (visits rest : list item) (ret : result) : Prop :=
  match first_stop cb O visits with
  | None => rest = [] /\ ret = RNil
  | Some (k, a) => length visits = S k /\ ret = surface (Some a)
  end.
(* the callback saw a sub-multiset [visits] of the records overlapping q ([rest] = not seen) *)
Definition range_okP (items : list item) (q : box) (cb : callback)
           (visits : list item) (ret : result) : Prop :=
  exists rest, Permutation (visits ++ rest) (filter (ov q) items) /\ stop_clause cb visits rest ret.

Lemma result_eqb_eq a b : result_eqb a b = true <-> a = b.
Proof.
  destruct a, b; simpl; try rewrite Z.eqb_eq; split; intros H; try discriminate; try reflexivity.
  - subst; reflexivity.
  - inversion H; reflexivity.
Qed.
Lemma length_zero_iff {A} (l : list A) : (length l =? 0)%nat = true <-> l = [].
Proof. rewrite Nat.eqb_eq. destruct l; simpl; split; intros; try discriminate; auto. Qed.

Lemma stop_clause_bool cb visits rest ret :
  stop_clause cb visits rest ret <->
  match first_stop cb O visits with
  | None => (length rest =? 0)%nat && result_eqb ret RNil
  | Some (k, a) => (length visits =? S k)%nat && result_eqb ret (surface (Some a))
  end = true.
Proof.
  unfold stop_clause. destruct (first_stop cb 0 visits) as [[k a]|];
    rewrite andb_true_iff, result_eqb_eq, ?length_zero_iff, ?Nat.eqb_eq; tauto.
Qed.
Lemma stop_clause_perm cb visits rest rest' ret :
  Permutation rest' rest -> stop_clause cb visits rest ret -> stop_clause cb visits rest' ret.
Proof.
  unfold stop_clause. intros P. destruct (first_stop cb 0 visits) as [[k a]|]; auto.
  intros [-> H]. symmetry in P. apply Permutation_nil in P. auto.
Qed.

Lemma range_ok_iff items q cb visits ret :
  range_ok items q cb visits ret = true <-> range_okP items q cb visits ret.
Proof.
  unfold range_ok, range_okP. fold (ov q). split.
  - destruct (ms_diff (filter (ov q) items) visits) as [rest|] eqn:E; [|discriminate].
    intros H. exists rest. split; [apply ms_diff_perm; exact E|]. apply stop_clause_bool. exact H.
  - intros (rest & P & H). destruct (perm_ms_diff _ _ _ P) as (rest' & -> & P').
    apply stop_clause_bool. eapply stop_clause_perm; eauto.
Qed.

Lemma filter_perm {A} (f : A -> bool) l l' : Permutation l l' -> Permutation (filter f l) (filter f l').
Proof.
  induction 1; simpl.
  - constructor.
  - destruct (f x); auto.
  - destruct (f x), (f y); auto. apply perm_swap.
  - etransitivity; eauto.
Qed.
Lemma range_okP_perm items items' q cb visits ret :
  Permutation items items' -> range_okP items q cb visits ret -> range_okP items' q cb visits ret.
Proof.
  intros P (rest & H & S). exists rest. split; auto. rewrite H. apply filter_perm. exact P.
Qed.

(* ------------------------------------------------------------------ RangeSearch *)
(* a callback script consuming a list of records in order *)
Fixpoint run (cb : callback) (k : nat) (l : list item) : list item * option action :=
  match l with
  | [] => ([], None)
  | x :: r =>
      match err_of (cb k (iid x)) with
      | None => let (v, res) := run cb (S k) r in (x :: v, res)
      | Some a => ([x], Some a)
      end
  end.

Lemma run_app cb l1 : forall k l2,
  run cb k (l1 ++ l2) =
  match run cb k l1 with
  | (v, None) => let (v', r) := run cb (k + length v)%nat l2 in (v ++ v', r)
  | (v, Some a) => (v, Some a)
  end.
Proof.
  induction l1 as [|x r IH]; intros k l2; simpl.
  - rewrite Nat.add_0_r. destruct (run cb k l2). reflexivity.
  - destruct (err_of (cb k (iid x))); [reflexivity|].
    rewrite IH. destruct (run cb (S k) r) as [v [a|]]; [reflexivity|].
    simpl. rewrite Nat.add_succ_r.
    destruct (run cb (S (k + length v)) l2). reflexivity.
Qed.

(* the records RangeSearch reaches: depth first, subtrees whose box misses q are pruned *)
Fixpoint hits (q : box) (e : entry) : list item :=
  match e with
  | ELeaf b id => if overlap b q then [MkItem b id] else []
  | EBranch b n => if overlap b q then flat_map (hits q) n else []
  end.

Lemma rs_entry_branch q cb b n k :
  rs_entry q cb (EBranch b n) k = if overlap b q then rs_node q cb n k else ([], None).
Proof. simpl. destruct (overlap b q); reflexivity. Qed.

Lemma rs_node_run q cb n :
  Forall (fun e => forall k, rs_entry q cb e k = run cb k (hits q e)) n ->
  forall k, rs_node q cb n k = run cb k (flat_map (hits q) n).
Proof.
  induction 1 as [|e r He Hr IH]; intros k; [reflexivity|].
  cbn [rs_node flat_map]. rewrite run_app, He.
  destruct (run cb k (hits q e)) as [v [a|]]; [reflexivity|]. rewrite IH. reflexivity.
Qed.
Lemma rs_entry_run q cb e : forall k, rs_entry q cb e k = run cb k (hits q e).
Proof.
  induction e as [b id|b n IH] using entry_ind'; intros k.
  - simpl. destruct (overlap b q); [|reflexivity]. simpl. destruct (err_of (cb k id)); reflexivity.
  - rewrite rs_entry_branch. cbn [hits]. destruct (overlap b q); [|reflexivity].
    apply rs_node_run. exact IH.
Qed.

(* calculateBound contains every entry's box *)
Lemma combine_inside_l a b : inside a (combine a b) = true.
Proof. apply inside_true_iff. unfold combine; simpl. rewrite !fmin_spec, !fmax_spec. lia. Qed.
Lemma combine_inside_r a b : inside b (combine a b) = true.
Proof. apply inside_true_iff. unfold combine; simpl. rewrite !fmin_spec, !fmax_spec. lia. Qed.
Lemma fold_combine_contains (r : list entry) : forall b0,
  inside b0 (fold_left (fun b e' => combine b (ebox e')) r b0) = true /\
  forall e, In e r -> inside (ebox e) (fold_left (fun b e' => combine b (ebox e')) r b0) = true.
Proof.
  induction r as [|x r IH]; intros b0; simpl.
  - split; [apply inside_refl|tauto].
  - destruct (IH (combine b0 (ebox x))) as [H1 H2]. split.
    + eapply inside_trans; [apply combine_inside_l|exact H1].
    + intros e [<-|H]; [|auto]. eapply inside_trans; [apply combine_inside_r|exact H1].
Qed.
Lemma calc_bound_contains n e : In e n -> inside (ebox e) (calc_bound n) = true.
Proof.
  destruct n as [|x r]; simpl; [tauto|]. destruct (fold_combine_contains r (ebox x)) as [H1 H2].
  intros [<-|H]; auto.
Qed.

Lemma entry_inv_branch b n :
  entry_inv (EBranch b n) = true <->
  b = calc_bound n /\ node_shape n = true /\ Forall (fun e => entry_inv e = true) n.
Proof.
  cbn [entry_inv]. rewrite !andb_true_iff, box_eqb_eq, forallb_forall, Forall_forall. tauto.
Qed.

Lemma leaves_inside e :
  entry_inv e = true -> forall it, In it (leaves e) -> inside (ibox it) (ebox e) = true.
Proof.
  induction e as [b id|b n IH] using entry_ind'; intros Hinv it Hin.
  - simpl in Hin. destruct Hin as [<-|[]]. apply inside_refl.
  - apply entry_inv_branch in Hinv. destruct Hinv as (-> & _ & Hall).
    simpl in Hin. apply in_flat_map in Hin. destruct Hin as (e & He & Hit).
    rewrite Forall_forall in IH, Hall.
    eapply inside_trans; [apply (IH e He (Hall e He) it Hit)|]. simpl. apply calc_bound_contains. exact He.
Qed.

Lemma filter_flat_map {A B} (f : B -> bool) (g : A -> list B) l :
  filter f (flat_map g l) = flat_map (fun x => filter f (g x)) l.
Proof.
  induction l as [|x r IH]; simpl; [reflexivity|]. rewrite filter_app, IH. reflexivity.
Qed.
Lemma flat_map_ext_in {A B} (f g : A -> list B) l :
  (forall x, In x l -> f x = g x) -> flat_map f l = flat_map g l.
Proof.
  induction l as [|x r IH]; simpl; intros H; [reflexivity|]. rewrite H, IH; auto.
Qed.

(* under the invariant pruning loses nothing: the reached records are exactly the overlapping ones *)
Lemma hits_filter q e : entry_inv e = true -> hits q e = filter (ov q) (leaves e).
Proof.
  induction e as [b id|b n IH] using entry_ind'; intros Hinv.
  - simpl. unfold ov; simpl. destruct (overlap b q); reflexivity.
  - pose proof (leaves_inside _ Hinv) as Hins.
    apply entry_inv_branch in Hinv. destruct Hinv as (-> & _ & Hall).
    cbn [hits leaves]. rewrite filter_flat_map. rewrite Forall_forall in IH, Hall.
    destruct (overlap (calc_bound n) q) eqn:E.
    + apply flat_map_ext_in. intros e He. auto.
    + symmetry. rewrite <- filter_flat_map.
      assert (Hnone : forall it, In it (flat_map leaves n) -> ov q it = false).
      { intros it Hit. unfold ov. destruct (overlap (ibox it) q) eqn:E'; [|reflexivity].
        pose proof (overlap_inside _ _ _ (Hins it Hit) E') as O. simpl in O. congruence. }
      induction (flat_map leaves n) as [|x r IHr]; simpl; [reflexivity|].
      rewrite (Hnone x (or_introl eq_refl)). apply IHr. intros; apply Hnone; right; assumption.
Qed.

Lemma run_spec cb l : forall k,
  exists rest, l = fst (run cb k l) ++ rest /\
  match first_stop cb k (fst (run cb k l)) with
  | None => rest = [] /\ snd (run cb k l) = None
  | Some (j, a) => (k + length (fst (run cb k l)) = S j)%nat /\ snd (run cb k l) = Some a
  end.
Proof.
  induction l as [|x r IH]; intros k; simpl.
  - exists []. auto.
  - destruct (cb k (iid x)) eqn:E; simpl.
    + destruct (IH (S k)) as (rest & H1 & H2). destruct (run cb (S k) r) as [v res]; simpl in *.
      rewrite E. exists rest. split; [congruence|].
      destruct (first_stop cb (S k) v) as [[j a]|]; [|exact H2]. destruct H2; split; [lia|auto].
    + rewrite E. exists r. split; [reflexivity|]. split; [lia|reflexivity].
    + rewrite E. exists r. split; [reflexivity|]. split; [lia|reflexivity].
    + rewrite E. exists r. split; [reflexivity|]. split; [lia|reflexivity].
Qed.

Lemma hits_node_filter q n :
  Forall (fun e => entry_inv e = true) n ->
  flat_map (hits q) n = filter (ov q) (leaves_node n).
Proof.
  intros H. unfold leaves_node. rewrite filter_flat_map. apply flat_map_ext_in.
  rewrite Forall_forall in H. intros e He. apply hits_filter. auto.
Qed.

Lemma node_inv_forall n : node_inv n = true -> Forall (fun e => entry_inv e = true) n.
Proof.
  unfold node_inv. rewrite andb_true_iff, forallb_forall, Forall_forall. tauto.
Qed.

Lemma range_search_okP t q cb :
  tree_inv t = true ->
  range_okP (tree_leaves t) q cb (fst (range_search q cb t)) (snd (range_search q cb t)).
Proof.
  unfold tree_inv, range_search, tree_leaves. destruct (root t) as [n|].
  - rewrite andb_true_iff. intros [Hinv _]. apply node_inv_forall in Hinv.
    rewrite (rs_node_run q cb n) by (apply Forall_forall; intros; apply rs_entry_run).
    rewrite (hits_node_filter q n Hinv).
    destruct (run_spec cb (filter (ov q) (leaves_node n)) 0) as (rest & H1 & H2).
    destruct (run cb 0 (filter (ov q) (leaves_node n))) as [v res]; simpl in *.
    exists rest. split; [rewrite <- H1; reflexivity|]. unfold stop_clause.
    destruct (first_stop cb 0 v) as [[j a]|].
    + destruct H2 as [H2 ->]. split; [exact H2|reflexivity].
    + destruct H2 as [-> ->]. auto.
  - intros _. simpl. exists []. split; [reflexivity|]. unfold stop_clause; simpl. auto.
Qed.

Lemma range_search_spec_lemma t q cb :
  tree_inv t = true ->
  range_ok (tree_leaves t) q cb (fst (range_search q cb t)) (snd (range_search q cb t)) = true.
Proof. intros H. apply range_ok_iff. apply range_search_okP. exact H. Qed.

(* visits are in fact a prefix of the overlapping records in tree order: no record twice *)
Lemma range_search_prefix t q cb :
  tree_inv t = true ->
  exists rest, filter (ov q) (tree_leaves t) = fst (range_search q cb t) ++ rest.
Proof.
  unfold tree_inv, range_search, tree_leaves. destruct (root t) as [n|].
  - rewrite andb_true_iff. intros [Hinv _]. apply node_inv_forall in Hinv.
    rewrite (rs_node_run q cb n) by (apply Forall_forall; intros; apply rs_entry_run).
    rewrite (hits_node_filter q n Hinv).
    destruct (run_spec cb (filter (ov q) (leaves_node n)) 0) as (rest & H1 & _).
    destruct (run cb 0 (filter (ov q) (leaves_node n))) as [v res]; simpl in *. eauto.
  - intros _. exists []. reflexivity.
Qed.
