(* Property C11 - quickPartition's contract: after quickPartition(items, k) the k-th element
   separates the slice (everything before it is <=, everything after it is >= under the centre
   key).  Array-style reasoning over nth_error. *)
From Coq Require Import ZArith List Bool Arith Lia Permutation.
From SF Require Import Base.Outcome Model.RTree Proofs.RTree_proofs Proofs.RTree_bulk_proofs.
Import ListNotations.
Open Scope nat_scope.

Section QP.
  Variable h : bool.

  (* key of the element at index n (0 outside the slice; only used inside) *)
  Definition kat (l : list item) (n : nat) : Z :=
    match nth_error l n with Some a => key h a | None => 0%Z end.

  (* l' differs from l only inside the window [lo, hi], whose elements come from the window *)
  Definition win (l l' : list item) (lo hi : nat) : Prop :=
    length l' = length l /\
    (forall n, n < lo \/ hi < n -> nth_error l' n = nth_error l n) /\
    (forall n, lo <= n <= hi -> exists m, lo <= m <= hi /\ nth_error l' n = nth_error l m).

  Lemma win_refl l lo hi : win l l lo hi.
  Proof. repeat split; auto. intros n Hn. exists n. auto. Qed.
  Lemma win_trans l1 l2 l3 lo hi : win l1 l2 lo hi -> win l2 l3 lo hi -> win l1 l3 lo hi.
  Proof.
    intros (L1 & O1 & I1) (L2 & O2 & I2). repeat split; [congruence| |].
    - intros n Hn. rewrite O2, O1; auto.
    - intros n Hn. destruct (I2 n Hn) as (m & Hm & E). destruct (I1 m Hm) as (m' & Hm' & E').
      exists m'. split; [exact Hm'|congruence].
  Qed.
  Lemma win_widen l l' lo hi lo' hi' : lo' <= lo -> hi <= hi' -> win l l' lo hi -> win l l' lo' hi'.
  Proof.
    intros H1 H2 (L & O & I). repeat split; [exact L| |].
    - intros n Hn. apply O. lia.
    - intros n Hn. destruct (le_lt_dec lo n) as [Hlo|Hlo]; [destruct (le_lt_dec n hi) as [Hhi|Hhi]|].
      + destruct (I n (conj Hlo Hhi)) as (m & Hm & E). exists m. split; [lia|exact E].
      + exists n. split; [lia|]. apply O. lia.
      + exists n. split; [lia|]. apply O. lia.
  Qed.

  Definition tr (i j n : nat) : nat := if n =? i then j else if n =? j then i else n.

  Lemma swap_nth l i j l' :
    swap l i j = Ok l' ->
    i < length l /\ j < length l /\ length l' = length l /\
    forall n, nth_error l' n = nth_error l (tr i j n).
  Proof.
    unfold swap. destruct (nth_error l i) as [a|] eqn:Ea; [|discriminate].
    destruct (nth_error l j) as [b|] eqn:Eb; [|discriminate]. intros H. inversion H. subst l'. clear H.
    assert (Hi : i < length l) by (apply nth_error_Some; congruence).
    assert (Hj : j < length l) by (apply nth_error_Some; congruence).
    repeat split; auto; [rewrite !upd_length; reflexivity|].
    intros n. unfold tr. destruct (Nat.eqb_spec n j) as [->|Hnj].
    - rewrite upd_nth_same by (rewrite upd_length; exact Hj).
      destruct (Nat.eqb_spec j i) as [->|]; congruence.
    - rewrite upd_nth_other by exact Hnj. destruct (Nat.eqb_spec n i) as [->|Hni].
      + rewrite upd_nth_same by exact Hi. congruence.
      + rewrite upd_nth_other by exact Hni. reflexivity.
  Qed.

  Lemma swap_spec l i j l' lo hi :
    swap l i j = Ok l' -> lo <= i <= hi -> lo <= j <= hi ->
    win l l' lo hi /\ kat l' i = kat l j /\ kat l' j = kat l i /\
    (forall n, n <> i -> n <> j -> nth_error l' n = nth_error l n).
  Proof.
    intros H Hi Hj. destruct (swap_nth _ _ _ _ H) as (Li & Lj & L & N).
    assert (Ho : forall n, n <> i -> n <> j -> nth_error l' n = nth_error l n).
    { intros n H1 H2. rewrite N. unfold tr.
      destruct (Nat.eqb_spec n i); [congruence|]. destruct (Nat.eqb_spec n j); congruence. }
    split; [|split; [|split]]; auto.
    - repeat split; [exact L| |].
      + intros n Hn. apply Ho; lia.
      + intros n Hn. exists (tr i j n). split; [|apply N]. unfold tr.
        destruct (Nat.eqb_spec n i); [lia|]. destruct (Nat.eqb_spec n j); lia.
    - unfold kat. rewrite N. unfold tr. rewrite Nat.eqb_refl. reflexivity.
    - unfold kat. rewrite N. unfold tr. rewrite Nat.eqb_refl.
      destruct (Nat.eqb_spec j i) as [->|]; reflexivity.
  Qed.

  Lemma less_spec l i j c : less l i j h = Ok c -> c = (kat l i <? kat l j)%Z.
  Proof.
    unfold less, kat. destruct (nth_error l i); [|discriminate]. destruct (nth_error l j); [|discriminate].
    intros H. inversion H. reflexivity.
  Qed.

  Lemma kat_nth l l' n m : nth_error l' n = nth_error l m -> kat l' n = kat l m.
  Proof. unfold kat. intros ->. reflexivity. Qed.

  (* if less(i, j) { swap(i, j) } *)
  Lemma cswap_spec l i j l' lo hi :
    cswap l i j h = Ok l' -> lo <= i <= hi -> lo <= j <= hi ->
    win l l' lo hi /\ (kat l' j <= kat l' i)%Z /\
    (forall n, n <> i -> n <> j -> kat l' n = kat l n) /\
    ((kat l' i = kat l i /\ kat l' j = kat l j) \/ (kat l' i = kat l j /\ kat l' j = kat l i)).
  Proof.
    unfold cswap. intros H Hi Hj. destruct (less l i j h) as [c| |] eqn:E; simpl in H; try discriminate.
    apply less_spec in E. destruct c.
    - destruct (swap_spec _ _ _ _ lo hi H Hi Hj) as (W & K1 & K2 & O).
      symmetry in E. apply Z.ltb_lt in E.
      split; [exact W|]. split; [lia|]. split; [intros n H1 H2; apply kat_nth; auto|]. right. auto.
    - inversion H. subst l'. symmetry in E. apply Z.ltb_ge in E.
      split; [apply win_refl|]. split; [lia|]. split; auto.
  Qed.

  (* the partition loop: elements < pivot are moved to [left0, j'), the others to [j', right) *)
  Lemma part_loop_spec left0 : forall n l i j right l' j',
    part_loop n l i j right h = Ok (l', j') ->
    i + n = right -> left0 <= j -> j <= i -> right < length l ->
    (forall m, left0 <= m < j -> (kat l m < kat l right)%Z) ->
    (forall m, j <= m < i -> (kat l right <= kat l m)%Z) ->
    win l l' left0 right /\ nth_error l' right = nth_error l right /\ j <= j' /\ j' <= j + n /\
    (forall m, left0 <= m < j' -> (kat l' m < kat l' right)%Z) /\
    (forall m, j' <= m < right -> (kat l' right <= kat l' m)%Z).
  Proof.
    induction n as [|n IH]; intros l i j right l' j' H Hi Hl Hj Hr Hlt Hge; simpl in H.
    - inversion H. subst l' j'. split; [apply win_refl|]. split; [reflexivity|]. split; [lia|]. split; [lia|].
      split; [exact Hlt|]. intros m Hm. apply Hge. lia.
    - destruct (less l i right h) as [c| |] eqn:E; simpl in H; try discriminate.
      apply less_spec in E. destruct c.
      + destruct (swap l i j) as [l1| |] eqn:Es; simpl in H; try discriminate.
        destruct (swap_spec _ _ _ _ left0 right Es ltac:(lia) ltac:(lia)) as (W & K1 & K2 & O).
        symmetry in E. apply Z.ltb_lt in E.
        assert (Kr : kat l1 right = kat l right) by (apply kat_nth; apply O; lia).
        destruct W as (L1 & W1).
        destruct (IH l1 (S i) (S j) right l' j' H) as (W' & R' & B1 & B2 & Hlt' & Hge'); try lia.
        * intros m Hm. rewrite Kr. destruct (Nat.eq_dec m j) as [->|Hmj]; [lia|].
          rewrite (kat_nth l l1 m m) by (apply O; lia). apply Hlt. lia.
        * intros m Hm. rewrite Kr. destruct (Nat.eq_dec m i) as [->|Hmi].
          -- rewrite K1. apply Hge. lia.
          -- rewrite (kat_nth l l1 m m) by (apply O; lia). apply Hge. lia.
        * split; [eapply win_trans; [split; [exact L1|exact W1]|exact W']|].
          split; [rewrite R'; apply O; lia|]. split; [lia|]. split; [lia|]. auto.
      + symmetry in E. apply Z.ltb_ge in E.
        destruct (IH l (S i) j right l' j' H) as (W' & R' & B1 & B2 & Hlt' & Hge'); try lia; auto.
        * intros m Hm. destruct (Nat.eq_dec m i) as [->|Hmi]; [lia|]. apply Hge. lia.
        * split; [exact W'|]. split; [exact R'|]. split; [lia|]. split; [lia|]. auto.
  Qed.

  (* the k-th element (absolute index t) separates the window *)
  Definition sep (l : list item) (lo hi t : nat) : Prop :=
    forall n, lo <= n <= hi ->
              (n < t -> (kat l n <= kat l t)%Z) /\ (t < n -> (kat l t <= kat l n)%Z).

  Lemma qp_body_spec rec l left right k st l' :
    left <= right -> right < length l -> k <= right - left ->
    (forall l0 lf rg k' s' l'', lf <= rg -> rg < length l0 -> k' <= rg - lf -> rg - lf < right - left ->
                                rec l0 lf rg k' s' = Ok l'' -> win l0 l'' lf rg /\ sep l'' lf rg (lf + k')) ->
    qp_body rec l left right k h st = Ok l' ->
    win l l' left right /\ sep l' left right (left + k).
  Proof.
    intros Hlr Hr Hk Hrec H. unfold qp_body in H.
    pose proof (lcg_pick_lt st (right - left + 1) ltac:(lia)) as Hp.
    set (pivot := left + lcg_pick (lcg_next st) (right - left + 1)) in *.
    assert (exists l1, (if pivot =? right then Ok l else swap l pivot right) = Ok l1 /\ win l l1 left right)
      as (l1 & E1 & W1).
    { destruct (pivot =? right); [exists l; split; [reflexivity|apply win_refl]|].
      destruct (swap_ok l pivot right) as (l1 & E & _); [subst pivot; lia|lia|]. exists l1. split; [exact E|].
      apply (swap_spec _ _ _ _ left right E); subst pivot; lia. }
    rewrite E1 in H. cbn [bind] in H. pose proof W1 as (L1 & _).
    destruct (part_loop (right - left) l1 left left right h) as [[l2 j]| |] eqn:Ep; cbn [bind] in H; try discriminate.
    destruct (part_loop_spec left _ _ _ _ _ _ _ Ep) as (W2 & R2 & B1 & B2 & Hlt & Hge); try lia.
    pose proof W2 as (L2 & _).
    destruct (swap l2 right j) as [l3| |] eqn:Es; cbn [bind] in H; try discriminate.
    destruct (swap_spec _ _ _ _ left right Es ltac:(lia) ltac:(lia)) as (W3 & K1 & K2 & O3).
    pose proof W3 as (L3 & _).
    assert (W : win l l3 left right) by (eapply win_trans; [exact W1|eapply win_trans; eauto]).
    (* the pivot sits at j: smaller keys before it, larger or equal keys after it *)
    assert (Hbefore : forall m, left <= m < j -> (kat l3 m < kat l3 j)%Z).
    { intros m Hm. rewrite K2. rewrite (kat_nth l2 l3 m m) by (apply O3; lia). apply Hlt. lia. }
    assert (Hafter : forall m, j < m <= right -> (kat l3 j <= kat l3 m)%Z).
    { intros m Hm. rewrite K2. destruct (Nat.eq_dec m right) as [->|Hmr].
      - rewrite K1. apply Hge. lia.
      - rewrite (kat_nth l2 l3 m m) by (apply O3; lia). apply Hge. lia. }
    destruct (Nat.ltb_spec (j - left) k) as [Hjk|Hjk].
    - destruct (Hrec l3 (j + 1) right (k - (j - left + 1)) (lcg_next st) l') as (W' & S'); try lia; auto.
      replace (j + 1 + (k - (j - left + 1))) with (left + k) in S' by lia.
      split; [eapply win_trans; [exact W|eapply win_widen; [| |exact W']; lia]|].
      intros n Hn. destruct (le_lt_dec (j + 1) n) as [Hnj|Hnj]; [apply S'; lia|].
      split; [intros _|lia].
      destruct W' as (_ & O' & I'). destruct (I' (left + k) ltac:(lia)) as (m & Hm & Em).
      rewrite (kat_nth l3 l' n n) by (apply O'; lia). rewrite (kat_nth l3 l' (left + k) m) by exact Em.
      pose proof (Hafter m ltac:(lia)). destruct (Nat.eq_dec n j) as [->|Hne]; [lia|].
      pose proof (Hbefore n ltac:(lia)). lia.
    - destruct (Nat.ltb_spec k (j - left)) as [Hkj|Hkj].
      + destruct (Hrec l3 left (j - 1) k (lcg_next st) l') as (W' & S'); try lia; auto.
        split; [eapply win_trans; [exact W|eapply win_widen; [| |exact W']; lia]|].
        intros n Hn. destruct (le_lt_dec n (j - 1)) as [Hnj|Hnj]; [apply S'; lia|].
        split; [lia|intros _].
        destruct W' as (_ & O' & I'). destruct (I' (left + k) ltac:(lia)) as (m & Hm & Em).
        rewrite (kat_nth l3 l' n n) by (apply O'; lia). rewrite (kat_nth l3 l' (left + k) m) by exact Em.
        pose proof (Hbefore m ltac:(lia)). destruct (Nat.eq_dec n j) as [->|Hne]; [lia|].
        pose proof (Hafter n ltac:(lia)). lia.
      + inversion H. subst l'. split; [exact W|]. replace (left + k) with j by lia.
        intros n Hn. split; intros Hc.
        * pose proof (Hbefore n ltac:(lia)). lia.
        * apply Hafter. lia.
  Qed.

  Lemma qp_loop_spec : forall fuel l left right k st l',
    left <= right -> right < length l -> k <= right - left -> right - left < fuel ->
    qp_loop fuel l left right k h st = Ok l' ->
    win l l' left right /\ sep l' left right (left + k).
  Proof.
    induction fuel as [|f IH]; intros l left right k st l' Hlr Hr Hk Hf H; [lia|].
    assert (Hgen : qp_body (fun l0 lf rg k' s' => qp_loop f l0 lf rg k' h s') l left right k h st = Ok l' ->
                   win l l' left right /\ sep l' left right (left + k)).
    { apply qp_body_spec; auto. intros l0 lf rg k' s' l'' H1 H2 H3 H4 H5. eapply IH; eauto. lia. }
    cbn [qp_loop] in H. destruct (right - left) as [|[|[|d]]] eqn:E; auto.
    - (* two elements *)
      destruct (cswap_spec _ _ _ _ left right H ltac:(lia) ltac:(lia)) as (W & K & _).
      split; [exact W|]. intros n Hn.
      assert (n = left \/ n = right) as [->| ->] by lia; split; intros Hc;
        assert (left + k = left \/ left + k = right) as [Et|Et] by lia; rewrite Et in *; lia.
    - (* three elements: a three-way sorting network *)
      destruct (cswap l (left + 1) left h) as [l1| |] eqn:E1; cbn [bind] in H; try discriminate.
      destruct (cswap_spec _ _ _ _ left right E1 ltac:(lia) ltac:(lia)) as (W1 & K1 & O1 & _).
      pose proof W1 as (L1 & _).
      destruct (less l1 (left + 2) (left + 1) h) as [c| |] eqn:Ec; cbn [bind] in H; try discriminate.
      apply less_spec in Ec.
      assert (Hsorted : (kat l' left <= kat l' (left + 1) <= kat l' (left + 2))%Z /\ win l l' left right).
      { destruct c.
        - symmetry in Ec. apply Z.ltb_lt in Ec.
          destruct (swap l1 (left + 2) (left + 1)) as [l2| |] eqn:E2; cbn [bind] in H; try discriminate.
          destruct (swap_spec _ _ _ _ left right E2 ltac:(lia) ltac:(lia)) as (W2 & K2a & K2b & O2).
          pose proof W2 as (L2 & _).
          destruct (cswap_spec _ _ _ _ left right H ltac:(lia) ltac:(lia)) as (W3 & K3 & O3 & P3).
          assert (K2c : kat l2 left = kat l1 left) by (apply kat_nth; apply O2; lia).
          assert (K3c : kat l' (left + 2) = kat l2 (left + 2)) by (apply O3; lia).
          split; [|eapply win_trans; [exact W1|eapply win_trans; eauto]].
          destruct P3 as [[A B]|[A B]]; lia.
        - symmetry in Ec. apply Z.ltb_ge in Ec. inversion H. subst l'. split; [lia|exact W1]. }
      destruct Hsorted as [Hs W]. split; [exact W|]. intros n Hn.
      assert (n = left \/ n = left + 1 \/ n = left + 2) as [->|[->| ->]] by lia; split; intros Hc;
        assert (left + k = left \/ left + k = left + 1 \/ left + k = left + 2) as [Et|[Et|Et]] by lia;
        rewrite Et in *; lia.
  Qed.

  Lemma nth_error_firstn {A} (l : list A) : forall k n, n < k -> nth_error (firstn k l) n = nth_error l n.
  Proof.
    induction l as [|x r IH]; intros [|k] [|n] H; simpl; auto; try lia. apply IH. lia.
  Qed.
  Lemma nth_error_skipn' {A} (l : list A) : forall m n, nth_error (skipn m l) n = nth_error l (m + n).
  Proof.
    induction l as [|x r IH]; intros [|m] n; simpl; auto. destruct n; reflexivity.
  Qed.

  (* quickPartition: total, a permutation, and the k-th element separates *)
  Lemma quick_partition_split_lemma l k :
    k < length l ->
    exists l', quick_partition l k h = Ok l' /\ Permutation l' l /\ qp_split_ok h l' k = true.
  Proof.
    intros Hk. destruct (quick_partition_total_lemma l k h Hk) as (l' & E & P).
    exists l'. split; [exact E|]. split; [exact P|].
    unfold quick_partition in E.
    assert (H1 : 0 <= length l - 1) by lia. assert (H2 : length l - 1 < length l) by lia.
    assert (H3 : k <= length l - 1 - 0) by lia. assert (H4 : length l - 1 - 0 < Datatypes.S (length l)) by lia.
    destruct (qp_loop_spec _ _ _ _ _ _ _ H1 H2 H3 H4 E) as ((L & _) & S).
    simpl in S. unfold qp_split_ok.
    destruct (nth_error l' k) as [p|] eqn:Ek; [|apply nth_error_None in Ek; lia].
    assert (Kk : kat l' k = key h p) by (unfold kat; rewrite Ek; reflexivity).
    apply andb_true_iff. split; apply forallb_forall; intros x Hx; apply Z.leb_le;
      apply In_nth_error in Hx; destruct Hx as [n Hn].
    - assert (Hnk : n < k).
      { assert (n < length (firstn k l')) by (apply nth_error_Some; congruence).
        rewrite firstn_length in H. lia. }
      rewrite nth_error_firstn in Hn by exact Hnk.
      assert (Kn : kat l' n = key h x) by (unfold kat; rewrite Hn; reflexivity).
      destruct (S n ltac:(lia)) as [S1 _]. specialize (S1 Hnk). lia.
    - rewrite nth_error_skipn' in Hn.
      assert (Hlen : Datatypes.S k + n < length l') by (apply nth_error_Some; congruence).
      assert (Kn : kat l' (Datatypes.S k + n) = key h x) by (unfold kat; rewrite Hn; reflexivity).
      destruct (S (Datatypes.S k + n) ltac:(lia)) as [_ S2]. specialize (S2 ltac:(lia)). lia.
  Qed.
End QP.
