(* Property C11 - proofs about rescaled populations (Model/RTreeScale.v):
   (A) the order-generalised statements prio_ok_rel / nearest_ok_rel coincide with prio_ok /
       nearest_ok for the exact order and are monotone in the order, so the statement evaluated with
       "true distance OR rounded float64 key" is implied by the property's statement;
   (B) every modelled function commutes with scaling all boxes by a positive factor. *)
From Coq Require Import ZArith List Bool Arith Lia Permutation.
From SF Require Import Base.Outcome Model.RTree Model.RTreeHeap Model.RTreeScale Proofs.RTree_proofs.
Import ListNotations.
Open Scope Z_scope.

(* ================================================================== (A) generalised statements *)
Lemma sorted_by_cons f x r :
  sorted_by f (x :: r) = true <-> forallb (fun y => f x <=? f y) r = true /\ sorted_by f r = true.
Proof.
  revert x. induction r as [|y r IH]; intros x.
  - simpl. tauto.
  - change (sorted_by f (x :: y :: r)) with ((f x <=? f y) && sorted_by f (y :: r)).
    cbn [forallb]. rewrite !andb_true_iff. split.
    + intros [H1 H2]. split; [split; [exact H1|]|exact H2].
      apply IH in H2. destruct H2 as [H2 _]. rewrite forallb_forall in *. intros z Hz.
      specialize (H2 z Hz). apply Z.leb_le in H1, H2. apply Z.leb_le. lia.
    + intros [[H1 _] H2]. tauto.
Qed.

Lemma sorted_by_pairwise f l : sorted_by f l = pairwise (fun x y => f x <=? f y) l.
Proof.
  apply eq_true_iff_eq. induction l as [|x r IH].
  - simpl. tauto.
  - rewrite sorted_by_cons. cbn [pairwise]. rewrite andb_true_iff. rewrite IH. tauto.
Qed.

Lemma prio_ok_rel_exact_lemma q items cb visits ret :
  prio_ok_rel (le_dist q) items cb visits ret = prio_ok items q cb visits ret.
Proof.
  unfold prio_ok_rel, prio_ok. destruct (ms_diff items visits) as [rest|]; [|reflexivity].
  rewrite (sorted_by_pairwise (fun it => sqdist (ibox it) q)). reflexivity.
Qed.

Lemma nearest_ok_rel_exact_lemma q items r :
  nearest_ok_rel (le_dist q) items r = nearest_ok items q r.
Proof. reflexivity. Qed.

Section Weaken.
  Variables le le' : item -> item -> bool.
  Hypothesis Hle : forall x y, le x y = true -> le' x y = true.

  Lemma forallb_weaken x l : forallb (le x) l = true -> forallb (le' x) l = true.
  Proof. rewrite !forallb_forall. intros H y Hy. apply Hle, H, Hy. Qed.

  Lemma pairwise_weaken l : pairwise le l = true -> pairwise le' l = true.
  Proof.
    induction l as [|x r IH]; [reflexivity|]. cbn [pairwise]. rewrite !andb_true_iff.
    intros [H1 H2]. split; [apply forallb_weaken; exact H1|apply IH; exact H2].
  Qed.

  Lemma prio_ok_rel_weaken_lemma items cb visits ret :
    prio_ok_rel le items cb visits ret = true -> prio_ok_rel le' items cb visits ret = true.
  Proof.
    unfold prio_ok_rel. destruct (ms_diff items visits) as [rest|]; [|discriminate].
    rewrite !andb_true_iff. intros [[H1 H2] H3]. split; [split|exact H3].
    - apply pairwise_weaken; exact H1.
    - rewrite forallb_forall in *. intros v Hv. apply forallb_weaken. apply H2, Hv.
  Qed.

  Lemma nearest_ok_rel_weaken_lemma items r :
    nearest_ok_rel le items r = true -> nearest_ok_rel le' items r = true.
  Proof.
    destruct r as [x|]; [|exact (fun H => H)]. unfold nearest_ok_rel. rewrite !andb_true_iff.
    intros [H1 H2]. split; [exact H1|apply forallb_weaken; exact H2].
  Qed.
End Weaken.

Lemma prio_ok_implies_rounded_lemma q other items cb visits ret :
  prio_ok items q cb visits ret = true -> prio_ok_rel (le_or q other) items cb visits ret = true.
Proof.
  rewrite <- prio_ok_rel_exact_lemma. apply prio_ok_rel_weaken_lemma.
  intros x y H. unfold le_or. rewrite H. apply orb_true_r.
Qed.

Lemma nearest_ok_implies_rounded_lemma q other items r :
  nearest_ok items q r = true -> nearest_ok_rel (le_or q other) items r = true.
Proof.
  rewrite <- nearest_ok_rel_exact_lemma. apply nearest_ok_rel_weaken_lemma.
  intros x y H. unfold le_or. rewrite H. apply orb_true_r.
Qed.

(* ================================================================== (B) scaling *)
Section Scale.
  Variable s : Z.
  Hypothesis Hs : 0 < s.

  Lemma mul_leb a b : (s * a <=? s * b) = (a <=? b).
  Proof. apply eq_true_iff_eq. rewrite !Z.leb_le. nia. Qed.
  Lemma mul_geb a b : (s * a >=? s * b) = (a >=? b).
  Proof. rewrite !Z.geb_leb. apply mul_leb. Qed.
  Lemma mul_ltb a b : (s * a <? s * b) = (a <? b).
  Proof. apply eq_true_iff_eq. rewrite !Z.ltb_lt. nia. Qed.
  Lemma mul_gtb a b : (s * a >? s * b) = (a >? b).
  Proof. rewrite !Z.gtb_ltb. apply mul_ltb. Qed.
  Lemma mul_eqb a b : (s * a =? s * b) = (a =? b).
  Proof. apply eq_true_iff_eq. rewrite !Z.eqb_eq. nia. Qed.

  Lemma fmin_scale a b : fmin (s * a) (s * b) = s * fmin a b.
  Proof. unfold fmin. rewrite mul_ltb. destruct (a <? b); reflexivity. Qed.
  Lemma fmax_scale a b : fmax (s * a) (s * b) = s * fmax a b.
  Proof. unfold fmax. rewrite mul_gtb. destruct (a >? b); reflexivity. Qed.

  Lemma overlap_scale a b : overlap (scale_box s a) (scale_box s b) = overlap a b.
  Proof. unfold overlap, scale_box. cbn [minx miny maxx maxy]. rewrite !mul_leb, !mul_geb. reflexivity. Qed.

  Lemma combine_scale a b : combine (scale_box s a) (scale_box s b) = scale_box s (combine a b).
  Proof.
    unfold combine, scale_box. cbn [minx miny maxx maxy]. rewrite !fmin_scale, !fmax_scale. reflexivity.
  Qed.

  Lemma fmax0_scale x : fmax 0 (s * x) = s * fmax 0 x.
  Proof. rewrite <- fmax_scale. rewrite Z.mul_0_r. reflexivity. Qed.

  Lemma sqdist_scale a b : sqdist (scale_box s a) (scale_box s b) = s * s * sqdist a b.
  Proof.
    unfold sqdist, scale_box. cbn [minx miny maxx maxy].
    rewrite <- !Z.mul_sub_distr_l, !fmax_scale, !fmax0_scale. ring.
  Qed.

  Lemma sqdist_scale_leb a b c d :
    (sqdist (scale_box s a) (scale_box s b) <=? sqdist (scale_box s c) (scale_box s d))
    = (sqdist a b <=? sqdist c d).
  Proof. rewrite !sqdist_scale. apply eq_true_iff_eq. rewrite !Z.leb_le. nia. Qed.
  Lemma sqdist_scale_ltb a b c d :
    (sqdist (scale_box s a) (scale_box s b) <? sqdist (scale_box s c) (scale_box s d))
    = (sqdist a b <? sqdist c d).
  Proof. rewrite !sqdist_scale. apply eq_true_iff_eq. rewrite !Z.ltb_lt. nia. Qed.

  Lemma box_eqb_scale a b : box_eqb (scale_box s a) (scale_box s b) = box_eqb a b.
  Proof. unfold box_eqb, scale_box. cbn [minx miny maxx maxy]. rewrite !mul_eqb. reflexivity. Qed.
  Lemma item_eqb_scale a b : item_eqb (scale_item s a) (scale_item s b) = item_eqb a b.
  Proof. unfold item_eqb, scale_item. cbn [ibox iid]. rewrite box_eqb_scale. reflexivity. Qed.
  Lemma inside_scale a b : inside (scale_box s a) (scale_box s b) = inside a b.
  Proof. unfold inside, scale_box. cbn [minx miny maxx maxy]. rewrite !mul_leb. reflexivity. Qed.
  Lemma zero_box_scale : scale_box s zero_box = zero_box.
  Proof. unfold scale_box, zero_box. cbn [minx miny maxx maxy]. rewrite Z.mul_0_r. reflexivity. Qed.

  Lemma ebox_scale e : ebox (scale_entry s e) = scale_box s (ebox e).
  Proof. destruct e; reflexivity. Qed.
  Lemma is_leaf_scale e : is_leaf (scale_entry s e) = is_leaf e.
  Proof. destruct e; reflexivity. Qed.

  Lemma fold_combine_scale (r : list entry) : forall b0,
    fold_left (fun b e' => combine b (ebox e')) (map (scale_entry s) r) (scale_box s b0)
    = scale_box s (fold_left (fun b e' => combine b (ebox e')) r b0).
  Proof.
    induction r as [|e r IH]; intros b0; [reflexivity|].
    cbn [map fold_left]. rewrite ebox_scale, combine_scale. apply IH.
  Qed.
  Lemma calc_bound_scale n : calc_bound (scale_node s n) = scale_box s (calc_bound n).
  Proof.
    destruct n as [|e r]; [symmetry; apply zero_box_scale|].
    unfold scale_node. cbn [map calc_bound]. rewrite ebox_scale. apply fold_combine_scale.
  Qed.

  Lemma forallb_map {A B} (f : B -> bool) (g : A -> B) l : forallb f (map g l) = forallb (fun x => f (g x)) l.
  Proof. induction l as [|x r IH]; [reflexivity|]. cbn [map forallb]. rewrite IH. reflexivity. Qed.
  Lemma forallb_ext_in {A} (f g : A -> bool) l : (forall x, In x l -> f x = g x) -> forallb f l = forallb g l.
  Proof.
    induction l as [|x r IH]; intros H; [reflexivity|]. cbn [forallb].
    rewrite (H x (or_introl eq_refl)), IH; [reflexivity|]. intros y Hy. apply H. right. exact Hy.
  Qed.

  Lemma node_shape_scale n : node_shape (scale_node s n) = node_shape n.
  Proof.
    unfold node_shape, scale_node. rewrite map_length, !forallb_map.
    rewrite (forallb_ext_in (fun x => is_leaf (scale_entry s x)) is_leaf) by (intros; apply is_leaf_scale).
    rewrite (forallb_ext_in (fun x => negb (is_leaf (scale_entry s x))) (fun e => negb (is_leaf e)))
      by (intros; rewrite is_leaf_scale; reflexivity).
    reflexivity.
  Qed.

  Lemma entry_inv_scale e : entry_inv (scale_entry s e) = entry_inv e.
  Proof.
    induction e as [b id|b n IH] using entry_ind'; [reflexivity|].
    cbn [scale_entry entry_inv]. fold (scale_node s n).
    rewrite calc_bound_scale, box_eqb_scale, node_shape_scale. unfold scale_node. rewrite forallb_map.
    f_equal. apply forallb_ext_in. intros x Hx. rewrite Forall_forall in IH. apply IH, Hx.
  Qed.

  Lemma leaves_scale e : leaves (scale_entry s e) = map (scale_item s) (leaves e).
  Proof.
    induction e as [b id|b n IH] using entry_ind'; [reflexivity|].
    cbn [scale_entry leaves]. induction n as [|x r IHr]; [reflexivity|].
    cbn [map flat_map]. rewrite map_app. inversion IH; subst. f_equal; [assumption|]. apply IHr. assumption.
  Qed.
  Lemma leaves_node_scale n : leaves_node (scale_node s n) = map (scale_item s) (leaves_node n).
  Proof.
    unfold leaves_node, scale_node. induction n as [|x r IH]; [reflexivity|].
    cbn [map flat_map]. rewrite map_app, leaves_scale, IH. reflexivity.
  Qed.
  Lemma tree_leaves_scale t : tree_leaves (scale_tree s t) = map (scale_item s) (tree_leaves t).
  Proof.
    unfold tree_leaves, scale_tree. cbn [root]. destruct (root t) as [n|]; [|reflexivity].
    cbn [option_map]. apply leaves_node_scale.
  Qed.

  Lemma node_inv_scale n : node_inv (scale_node s n) = node_inv n.
  Proof.
    unfold node_inv. rewrite node_shape_scale. unfold scale_node. rewrite forallb_map. f_equal.
    apply forallb_ext_in. intros; apply entry_inv_scale.
  Qed.
  Lemma tree_inv_scale_lemma t : tree_inv (scale_tree s t) = tree_inv t.
  Proof.
    unfold tree_inv, scale_tree. cbn [root tcount]. destruct (root t) as [n|]; [|reflexivity].
    cbn [option_map]. rewrite node_inv_scale, leaves_node_scale, map_length. reflexivity.
  Qed.

  Lemma count_scale_lemma t : count (scale_tree s t) = count t.
  Proof. reflexivity. Qed.
  Lemma extent_scale_lemma t : extent (scale_tree s t) = option_map (scale_box s) (extent t).
  Proof.
    unfold extent, scale_tree. cbn [root]. destruct (root t) as [n|]; [|reflexivity].
    cbn [option_map]. fold (scale_node s n). unfold scale_node at 1. rewrite map_length.
    destruct (length n =? 0)%nat; [reflexivity|]. cbn [option_map]. rewrite calc_bound_scale. reflexivity.
  Qed.

  (* ---------------------------------------------------------------- RangeSearch *)
  Definition scale_vis (r : list item * option action) : list item * option action :=
    (map (scale_item s) (fst r), snd r).

  Lemma run_scale cb l : forall k, run cb k (map (scale_item s) l) = scale_vis (run cb k l).
  Proof.
    induction l as [|x r IH]; intros k; [reflexivity|]. cbn [map run]. cbn [scale_item iid].
    destruct (err_of (cb k (iid x))); [reflexivity|]. rewrite IH.
    destruct (run cb (S k) r) as [v res]. reflexivity.
  Qed.
  Lemma hits_scale q e : hits (scale_box s q) (scale_entry s e) = map (scale_item s) (hits q e).
  Proof.
    induction e as [b id|b n IH] using entry_ind'.
    - cbn [scale_entry hits]. rewrite overlap_scale. destruct (overlap b q); reflexivity.
    - cbn [scale_entry hits]. rewrite overlap_scale. destruct (overlap b q); [|reflexivity].
      induction n as [|x r IHr]; [reflexivity|]. inversion IH as [|? ? Hx Hr]; subst.
      cbn [map flat_map]. rewrite map_app, Hx, (IHr Hr). reflexivity.
  Qed.
  Lemma rs_node_run' q cb n k : rs_node q cb n k = run cb k (flat_map (hits q) n).
  Proof. apply rs_node_run. apply Forall_forall. intros e _. apply rs_entry_run. Qed.

  Lemma rs_node_scale q cb n : forall k,
    rs_node (scale_box s q) cb (scale_node s n) k = scale_vis (rs_node q cb n k).
  Proof.
    intros k. rewrite !rs_node_run', <- run_scale. f_equal. unfold scale_node.
    induction n as [|x r IH]; [reflexivity|]. cbn [map flat_map]. rewrite map_app, hits_scale, IH. reflexivity.
  Qed.

  Lemma range_search_scale_lemma q cb t :
    range_search (scale_box s q) cb (scale_tree s t)
    = (map (scale_item s) (fst (range_search q cb t)), snd (range_search q cb t)).
  Proof.
    unfold range_search, scale_tree. cbn [root]. destruct (root t) as [n|]; [|reflexivity].
    cbn [option_map]. rewrite rs_node_scale. destruct (rs_node q cb n 0) as [v r]. reflexivity.
  Qed.

  (* ---------------------------------------------------------------- the executable statements *)
  Lemma remove1_scale x l :
    remove1 (scale_item s x) (map (scale_item s) l) = option_map (map (scale_item s)) (remove1 x l).
  Proof.
    induction l as [|y r IH]; [reflexivity|]. cbn [map remove1]. rewrite item_eqb_scale.
    destruct (item_eqb x y); [reflexivity|]. rewrite IH. destruct (remove1 x r); reflexivity.
  Qed.
  Lemma ms_diff_scale v : forall l,
    ms_diff (map (scale_item s) l) (map (scale_item s) v) = option_map (map (scale_item s)) (ms_diff l v).
  Proof.
    induction v as [|x v IH]; intros l; [reflexivity|]. cbn [map ms_diff]. rewrite remove1_scale.
    destruct (remove1 x l) as [l'|]; [|reflexivity]. cbn [option_map]. apply IH.
  Qed.
  Lemma first_stop_scale cb v : forall i,
    first_stop cb i (map (scale_item s) v) = first_stop cb i v.
  Proof.
    induction v as [|x v IH]; intros i; [reflexivity|]. cbn [map first_stop]. cbn [scale_item iid].
    destruct (cb i (iid x)); try reflexivity. apply IH.
  Qed.
  Lemma filter_overlap_scale q l :
    filter (fun it => overlap (ibox it) (scale_box s q)) (map (scale_item s) l)
    = map (scale_item s) (filter (fun it => overlap (ibox it) q) l).
  Proof.
    induction l as [|x r IH]; [reflexivity|]. cbn [map filter]. cbn [scale_item ibox].
    rewrite overlap_scale. destruct (overlap (ibox x) q); cbn [map]; rewrite IH; reflexivity.
  Qed.

  Lemma range_ok_scale_lemma items q cb v ret :
    range_ok (map (scale_item s) items) (scale_box s q) cb (map (scale_item s) v) ret
    = range_ok items q cb v ret.
  Proof.
    unfold range_ok. rewrite filter_overlap_scale, ms_diff_scale, first_stop_scale.
    destruct (ms_diff (filter (fun it => overlap (ibox it) q) items) v) as [rest|]; [|reflexivity].
    cbn [option_map]. rewrite !map_length. reflexivity.
  Qed.

  Lemma sorted_by_scale q v :
    sorted_by (fun it => sqdist (ibox it) (scale_box s q)) (map (scale_item s) v)
    = sorted_by (fun it => sqdist (ibox it) q) v.
  Proof.
    induction v as [|x r IH]; [reflexivity|]. destruct r as [|y r']; [reflexivity|].
    change (map (scale_item s) (x :: y :: r')) with (scale_item s x :: scale_item s y :: map (scale_item s) r').
    change (sorted_by ?f (?a :: ?b :: ?c)) with ((f a <=? f b) && sorted_by f (b :: c)).
    cbn [scale_item ibox]. rewrite sqdist_scale_leb. f_equal. exact IH.
  Qed.

  Lemma prio_ok_scale_lemma items q cb v ret :
    prio_ok (map (scale_item s) items) (scale_box s q) cb (map (scale_item s) v) ret
    = prio_ok items q cb v ret.
  Proof.
    unfold prio_ok. rewrite ms_diff_scale, first_stop_scale, sorted_by_scale.
    destruct (ms_diff items v) as [rest|]; [|reflexivity]. cbn [option_map].
    rewrite !map_length. f_equal. f_equal.
    rewrite forallb_map. apply forallb_ext_in. intros x _. rewrite forallb_map.
    apply forallb_ext_in. intros u _. cbn [scale_item ibox]. apply sqdist_scale_leb.
  Qed.

  Lemma nearest_ok_scale_lemma items q r :
    nearest_ok (map (scale_item s) items) (scale_box s q) (option_map (scale_item s) r)
    = nearest_ok items q r.
  Proof.
    destruct r as [x|]; cbn [option_map nearest_ok]; [|rewrite map_length; reflexivity].
    f_equal.
    - induction items as [|y l IH]; [reflexivity|]. cbn [map existsb]. rewrite item_eqb_scale, IH. reflexivity.
    - rewrite forallb_map. apply forallb_ext_in. intros y _. cbn [scale_item ibox]. apply sqdist_scale_leb.
  Qed.

  Lemma extent_ok_scale_lemma items r :
    extent_ok (map (scale_item s) items) (option_map (scale_box s) r) = extent_ok items r.
  Proof.
    destruct r as [b|]; cbn [option_map extent_ok]; rewrite map_length; [|reflexivity].
    assert (E : forall (f g : item -> bool), (forall it, f (scale_item s it) = g it) ->
                existsb f (map (scale_item s) items) = existsb g items).
    { intros f g H. induction items as [|y l IH]; [reflexivity|]. cbn [map existsb]. rewrite H, IH. reflexivity. }
    rewrite forallb_map.
    rewrite (forallb_ext_in (fun x => inside (ibox (scale_item s x)) (scale_box s b)) (fun it => inside (ibox it) b))
      by (intros; cbn [scale_item ibox]; apply inside_scale).
    rewrite (E _ (fun it => minx (ibox it) =? minx b)) by (intros; cbn; apply mul_eqb).
    rewrite (E _ (fun it => miny (ibox it) =? miny b)) by (intros; cbn; apply mul_eqb).
    rewrite (E _ (fun it => maxx (ibox it) =? maxx b)) by (intros; cbn; apply mul_eqb).
    rewrite (E _ (fun it => maxy (ibox it) =? maxy b)) by (intros; cbn; apply mul_eqb).
    reflexivity.
  Qed.

  (* ---------------------------------------------------------------- PrioritySearch on Go's heap *)
  Lemma dkey_scale_ltb q a b :
    (dkey (scale_box s q) (scale_entry s a) <? dkey (scale_box s q) (scale_entry s b)) = (dkey q a <? dkey q b).
  Proof. unfold dkey. rewrite !ebox_scale. apply sqdist_scale_ltb. Qed.

  Lemma q_less_scale q l i j : q_less (scale_box s q) (map (scale_entry s) l) i j = q_less q l i j.
  Proof.
    unfold q_less. rewrite !nth_error_map. destruct (nth_error l i), (nth_error l j); cbn [option_map]; try reflexivity.
    rewrite dkey_scale_ltb. reflexivity.
  Qed.
  Lemma eupd_scale l : forall i x, eupd (map (scale_entry s) l) i (scale_entry s x) = map (scale_entry s) (eupd l i x).
  Proof.
    induction l as [|y r IH]; intros i x; [reflexivity|]. destruct i; cbn [map eupd]; [reflexivity|].
    rewrite IH. reflexivity.
  Qed.
  Lemma q_swap_scale l i j :
    q_swap (map (scale_entry s) l) i j = option_map (map (scale_entry s)) (q_swap l i j).
  Proof.
    unfold q_swap. rewrite !nth_error_map. destruct (nth_error l i), (nth_error l j); cbn [option_map]; try reflexivity.
    rewrite !eupd_scale. reflexivity.
  Qed.
  Lemma up_loop_scale q fuel : forall l j,
    up_loop (scale_box s q) fuel (map (scale_entry s) l) j = option_map (map (scale_entry s)) (up_loop q fuel l j).
  Proof.
    induction fuel as [|f IH]; intros l j; [reflexivity|]. cbn [up_loop].
    destruct (Nat.div2 (j - 1) =? j)%nat; [reflexivity|]. rewrite q_less_scale.
    destruct (q_less q l j (Nat.div2 (j - 1))) as [[|]|]; try reflexivity.
    rewrite q_swap_scale. destruct (q_swap l (Nat.div2 (j - 1)) j) as [l'|]; [|reflexivity].
    cbn [option_map]. apply IH.
  Qed.
  Lemma down_loop_scale q fuel : forall l i n,
    down_loop (scale_box s q) fuel (map (scale_entry s) l) i n = option_map (map (scale_entry s)) (down_loop q fuel l i n).
  Proof.
    induction fuel as [|f IH]; intros l i n; [reflexivity|]. cbn [down_loop].
    destruct (n <=? 2 * i + 1)%nat; [reflexivity|].
    rewrite q_less_scale.
    destruct (if (2 * i + 1 + 1 <? n)%nat then q_less q l (2 * i + 1 + 1) (2 * i + 1) else Some false) as [c|];
      [|reflexivity].
    rewrite q_less_scale.
    destruct (q_less q l (if c then (2 * i + 1 + 1)%nat else (2 * i + 1)%nat) i) as [[|]|]; try reflexivity.
    rewrite q_swap_scale.
    destruct (q_swap l i (if c then (2 * i + 1 + 1)%nat else (2 * i + 1)%nat)) as [l'|]; [|reflexivity].
    cbn [option_map]. apply IH.
  Qed.
  Lemma heap_push_scale q l x :
    heap_push (scale_box s q) (map (scale_entry s) l) (scale_entry s x)
    = option_map (map (scale_entry s)) (heap_push q l x).
  Proof.
    unfold heap_push, heap_up.
    change (map (scale_entry s) l ++ [scale_entry s x]) with (map (scale_entry s) l ++ map (scale_entry s) [x]).
    rewrite <- map_app, map_length. apply up_loop_scale.
  Qed.
  Definition scale_pop (r : entry * list entry) : entry * list entry :=
    (scale_entry s (fst r), map (scale_entry s) (snd r)).
  Lemma heap_pop_go_scale q l :
    heap_pop_go (scale_box s q) (map (scale_entry s) l) = option_map scale_pop (heap_pop_go q l).
  Proof.
    unfold heap_pop_go, heap_down. rewrite map_length, q_swap_scale.
    destruct (q_swap l 0 (length l - 1)) as [l1|]; [|reflexivity]. cbn [option_map].
    rewrite down_loop_scale. destruct (down_loop q (S (length l - 1)) l1 0 (length l - 1)) as [l2|]; [|reflexivity].
    cbn [option_map]. rewrite nth_error_map. destruct (nth_error l2 (length l - 1)) as [e|]; [|reflexivity].
    cbn [option_map]. unfold scale_pop. cbn [fst snd]. rewrite firstn_map. reflexivity.
  Qed.
  Lemma enqueue_scale q n : forall l,
    enqueue (scale_box s q) (map (scale_entry s) l) (map (scale_entry s) n)
    = option_map (map (scale_entry s)) (enqueue q l n).
  Proof.
    induction n as [|e r IH]; intros l; [reflexivity|]. cbn [map enqueue]. rewrite heap_push_scale.
    destruct (heap_push q l e) as [l'|]; [|reflexivity]. cbn [option_map]. apply IH.
  Qed.
  Lemma psh_loop_scale q cb fuel : forall queue k,
    psh_loop (scale_box s q) cb fuel (map (scale_entry s) queue) k
    = option_map scale_vis (psh_loop q cb fuel queue k).
  Proof.
    induction fuel as [|f IH]; intros queue k; [reflexivity|]. cbn [psh_loop]. rewrite map_length.
    destruct (length queue =? 0)%nat; [reflexivity|]. rewrite heap_pop_go_scale.
    destruct (heap_pop_go q queue) as [[e rest]|]; [|reflexivity]. cbn [option_map]. unfold scale_pop. cbn [fst snd].
    destruct e as [b id|b n]; cbn [scale_entry].
    - destruct (err_of (cb k id)); [reflexivity|]. rewrite IH.
      destruct (psh_loop q cb f rest (S k)) as [[v r]|]; reflexivity.
    - rewrite enqueue_scale. destruct (enqueue q rest n) as [queue'|]; [|reflexivity].
      cbn [option_map]. apply IH.
  Qed.
  Lemma esize_scale e : esize (scale_entry s e) = esize e.
  Proof.
    induction e as [b id|b n IH] using entry_ind'; [reflexivity|]. cbn [scale_entry esize]. f_equal.
    induction n as [|x r IHr]; [reflexivity|]. inversion IH as [|? ? Hx Hr]; subst.
    cbn [map fold_right]. rewrite Hx, (IHr Hr). reflexivity.
  Qed.
  Lemma nsize_scale n : nsize (scale_node s n) = nsize n.
  Proof.
    unfold nsize, scale_node. induction n as [|x r IH]; [reflexivity|]. cbn [map fold_right].
    rewrite esize_scale, IH. reflexivity.
  Qed.

  Definition scale_res (r : list item * result) : list item * result := (map (scale_item s) (fst r), snd r).
  Lemma priority_search_heap_scale_lemma q cb t :
    priority_search_heap (scale_box s q) cb (scale_tree s t) = option_map scale_res (priority_search_heap q cb t).
  Proof.
    unfold priority_search_heap, scale_tree. cbn [root]. destruct (root t) as [n|]; [|reflexivity].
    cbn [option_map]. rewrite nsize_scale. unfold scale_node.
    change (@nil entry) with (map (scale_entry s) []) at 1. rewrite enqueue_scale.
    destruct (enqueue q [] n) as [queue|]; [|reflexivity]. cbn [option_map]. rewrite psh_loop_scale.
    destruct (psh_loop q cb (S (nsize n)) queue 0) as [[v r]|]; reflexivity.
  Qed.
  Lemma fold_last_scale v : forall (a : option item),
    fold_left (fun _ x => Some x) (map (scale_item s) v) (option_map (scale_item s) a)
    = option_map (scale_item s) (fold_left (fun _ x => Some x) v a).
  Proof.
    induction v as [|x r IH]; intros a; [reflexivity|]. cbn [map fold_left]. apply (IH (Some x)).
  Qed.
  Lemma nearest_heap_scale_lemma q t :
    nearest_heap (scale_tree s t) (scale_box s q) = option_map (option_map (scale_item s)) (nearest_heap t q).
  Proof.
    unfold nearest_heap. rewrite priority_search_heap_scale_lemma.
    destruct (priority_search_heap q (fun _ _ => Stop) t) as [[v r]|]; [|reflexivity].
    cbn [option_map scale_res fst snd]. f_equal. apply (fold_last_scale v None).
  Qed.

  (* ---------------------------------------------------------------- bulk loading *)
  Lemma key_scale h it : key h (scale_item s it) = s * key h it.
  Proof. unfold key, scale_item, scale_box. cbn [ibox minx miny maxx maxy]. destruct h; ring. Qed.
  Lemma less_scale l i j h : less (map (scale_item s) l) i j h = less l i j h.
  Proof.
    unfold less. rewrite !nth_error_map. destruct (nth_error l i), (nth_error l j); cbn [option_map]; try reflexivity.
    rewrite !key_scale, mul_ltb. reflexivity.
  Qed.
  Lemma upd_scale l : forall i x, upd (map (scale_item s) l) i (scale_item s x) = map (scale_item s) (upd l i x).
  Proof.
    induction l as [|y r IH]; intros i x; [reflexivity|]. destruct i; cbn [map upd]; [reflexivity|].
    rewrite IH. reflexivity.
  Qed.
  Lemma swap_scale l i j : swap (map (scale_item s) l) i j = omap (map (scale_item s)) (swap l i j).
  Proof.
    unfold swap. rewrite !nth_error_map. destruct (nth_error l i), (nth_error l j); cbn [option_map]; try reflexivity.
    rewrite !upd_scale. reflexivity.
  Qed.
  Lemma cswap_scale l i j h : cswap (map (scale_item s) l) i j h = omap (map (scale_item s)) (cswap l i j h).
  Proof.
    unfold cswap. rewrite less_scale. destruct (less l i j h) as [[|]| |]; try reflexivity. apply swap_scale.
  Qed.
  Definition scale_lj (r : list item * nat) : list item * nat := (map (scale_item s) (fst r), snd r).
  Lemma part_loop_scale n : forall l i j right h,
    part_loop n (map (scale_item s) l) i j right h = omap scale_lj (part_loop n l i j right h).
  Proof.
    induction n as [|n IH]; intros l i j right h; [reflexivity|]. cbn [part_loop]. rewrite less_scale.
    destruct (less l i right h) as [[|]| |]; try reflexivity; cbn [bind].
    - rewrite swap_scale. destruct (swap l i j) as [l'| |]; try reflexivity. cbn [omap bind]. apply IH.
    - apply IH.
  Qed.

  Section Body.
    Variables rec rec' : list item -> nat -> nat -> nat -> Z -> outcome (list item).
    Hypothesis Hrec : forall l lf rg k st,
      rec' (map (scale_item s) l) lf rg k st = omap (map (scale_item s)) (rec l lf rg k st).
    Lemma qp_body_scale l left right k h st :
      qp_body rec' (map (scale_item s) l) left right k h st
      = omap (map (scale_item s)) (qp_body rec l left right k h st).
    Proof.
      unfold qp_body.
      assert (E1 : (if ((left + lcg_pick (lcg_next st) (right - left + 1)) =? right)%nat
                    then Ok (map (scale_item s) l)
                    else swap (map (scale_item s) l) (left + lcg_pick (lcg_next st) (right - left + 1)) right)
                   = omap (map (scale_item s))
                       (if ((left + lcg_pick (lcg_next st) (right - left + 1)) =? right)%nat
                        then Ok l else swap l (left + lcg_pick (lcg_next st) (right - left + 1)) right)).
      { destruct ((left + lcg_pick (lcg_next st) (right - left + 1)) =? right)%nat; [reflexivity|apply swap_scale]. }
      rewrite E1. clear E1.
      destruct (if ((left + lcg_pick (lcg_next st) (right - left + 1)) =? right)%nat
                then Ok l else swap l (left + lcg_pick (lcg_next st) (right - left + 1)) right) as [l1| |];
        try reflexivity.
      cbn [omap bind]. rewrite part_loop_scale.
      destruct (part_loop (right - left) l1 left left right h) as [[l2 j]| |]; try reflexivity.
      cbn [omap bind scale_lj fst snd]. rewrite swap_scale.
      destruct (swap l2 right j) as [l3| |]; try reflexivity. cbn [omap bind].
      destruct (j - left <? k)%nat; [apply Hrec|]. destruct (k <? j - left)%nat; [apply Hrec|reflexivity].
    Qed.
  End Body.

  Lemma qp_loop_scale fuel : forall l left right k h st,
    qp_loop fuel (map (scale_item s) l) left right k h st = omap (map (scale_item s)) (qp_loop fuel l left right k h st).
  Proof.
    induction fuel as [|f IH]; intros l left right k h st; [reflexivity|]. cbn [qp_loop].
    destruct (right - left)%nat as [|[|[|d]]].
    - apply qp_body_scale. intros. apply IH.
    - apply cswap_scale.
    - rewrite cswap_scale. destruct (cswap l (left + 1) left h) as [l1| |]; try reflexivity. cbn [omap bind].
      rewrite less_scale. destruct (less l1 (left + 2) (left + 1) h) as [[|]| |]; try reflexivity. cbn [bind].
      rewrite swap_scale. destruct (swap l1 (left + 2) (left + 1)) as [l2| |]; try reflexivity. cbn [omap bind].
      apply cswap_scale.
    - apply qp_body_scale. intros. apply IH.
  Qed.
  Lemma quick_partition_scale l k h :
    quick_partition (map (scale_item s) l) k h = omap (map (scale_item s)) (quick_partition l k h).
  Proof. unfold quick_partition. rewrite map_length. apply qp_loop_scale. Qed.

  Lemma fold_combine_items_scale (r : list item) : forall b0,
    fold_left (fun b it' => combine b (ibox it')) (map (scale_item s) r) (scale_box s b0)
    = scale_box s (fold_left (fun b it' => combine b (ibox it')) r b0).
  Proof.
    induction r as [|e r IH]; intros b0; [reflexivity|].
    cbn [map fold_left]. cbn [scale_item ibox]. rewrite combine_scale. apply IH.
  Qed.
  Lemma items_are_horizontal_scale l :
    items_are_horizontal (map (scale_item s) l) = items_are_horizontal l.
  Proof.
    destruct l as [|it r]; [reflexivity|]. cbn [map items_are_horizontal]. cbn [scale_item ibox].
    rewrite fold_combine_items_scale. unfold scale_box. cbn [minx miny maxx maxy].
    rewrite <- !Z.mul_sub_distr_l, mul_gtb. reflexivity.
  Qed.
  Definition scale_pair (r : list item * list item) : list item * list item :=
    (map (scale_item s) (fst r), map (scale_item s) (snd r)).
  Lemma split2_scale l : split2 (map (scale_item s) l) = omap scale_pair (split2 l).
  Proof.
    unfold split2. rewrite items_are_horizontal_scale. destruct (items_are_horizontal l) as [h| |]; try reflexivity.
    cbn [bind]. rewrite map_length, quick_partition_scale.
    destruct (quick_partition l (Nat.div2 (length l)) h) as [l'| |]; try reflexivity.
    cbn [omap bind]. unfold scale_pair. cbn [fst snd]. rewrite firstn_map, skipn_map. reflexivity.
  Qed.

  Section Node.
    Variables rec rec' : list item -> outcome node.
    Hypothesis Hrec : forall p, rec' (map (scale_item s) p) = omap (scale_node s) (rec p).
    Lemma bulk_node_scale parts :
      bulk_node rec' (map (map (scale_item s)) parts) = omap (scale_node s) (bulk_node rec parts).
    Proof.
      induction parts as [|p ps IH]; [reflexivity|]. cbn [map bulk_node]. rewrite Hrec.
      destruct (rec p) as [c| |]; try reflexivity. cbn [omap bind]. rewrite IH.
      destruct (bulk_node rec ps) as [r| |]; try reflexivity. cbn [omap bind].
      rewrite calc_bound_scale. reflexivity.
    Qed.
  End Node.

  Lemma bulk_insert_scale fuel : forall items,
    bulk_insert fuel (map (scale_item s) items) = omap (scale_node s) (bulk_insert fuel items).
  Proof.
    induction fuel as [|f IH]; intros items; [reflexivity|]. cbn [bulk_insert]. rewrite map_length.
    destruct (length items =? 0)%nat; [reflexivity|].
    destruct (length items <=? 4)%nat.
    { cbn [omap bind]. unfold scale_node. rewrite !map_map. reflexivity. }
    destruct (length items <=? 8)%nat.
    - rewrite split2_scale. destruct (split2 items) as [[a b]| |]; try reflexivity.
      cbn [omap bind scale_pair fst snd].
      apply (bulk_node_scale (bulk_insert f) (bulk_insert f) IH [a; b]).
    - rewrite split2_scale. destruct (split2 items) as [[h1 h2]| |]; try reflexivity.
      cbn [omap bind scale_pair fst snd].
      rewrite split2_scale. destruct (split2 h1) as [[q1 q2]| |]; try reflexivity.
      cbn [omap bind scale_pair fst snd].
      rewrite split2_scale. destruct (split2 h2) as [[q3 q4]| |]; try reflexivity.
      cbn [omap bind scale_pair fst snd].
      apply (bulk_node_scale (bulk_insert f) (bulk_insert f) IH [q1; q2; q3; q4]).
  Qed.

  Lemma bulk_load_scale_lemma items :
    bulk_load (map (scale_item s) items) = omap (scale_tree s) (bulk_load items).
  Proof.
    unfold bulk_load. rewrite map_length. destruct (length items =? 0)%nat; [reflexivity|].
    rewrite bulk_insert_scale. destruct (bulk_insert (length items) items) as [r| |]; reflexivity.
  Qed.
End Scale.
