(* Lemmas about Model/RelateComplex.v (Go's extractIntersectionMatrix on the labelled overlay):
   the matrix depends only on the sets of location pairs of the vertices, half edges and faces (hence on
   no iteration order), is the max-by-dimension matrix, transposes when the operands are exchanged, the
   arbitrary incident half edge of vertexRecord.location does not matter when the incident edges agree,
   and - the main result - on an overlay that decomposes the plane into cells on which the operands
   do not change location and whose labels are SOUND (= the definitional locate at a witness of the
   cell) it equals the reference matrix de9im_ref (uses the sufficiency theorems of Planar_slab*.v). *)
From Coq Require Import QArith List Bool Arith Lia Permutation.
From SF Require Import Base.GeomAST Base.QKernel Base.Planar Proofs.Planar_proofs
  Proofs.Planar_slab_base Proofs.Planar_slab Proofs.Planar_slab_dim
  Model.SetOpSpec Model.OverlayComplex Model.RelateComplex.
Import ListNotations.
Local Close Scope Q_scope.


(* ---------------- the matrix as a function of the SETS of location pairs *)
Definition memb (la lb : loc) (l : list (loc * loc)) : bool :=
  existsb (fun c => loc_eqb (fst c) la && loc_eqb (snd c) lb) l.

Lemma mget_mset m a b d a' b' :
  mget (mset m a b d) a' b' = if loc_eqb a a' && loc_eqb b b' then d else mget m a' b'.
Proof. destruct a, b, a', b'; reflexivity. Qed.
Lemma mget_set_all d cells : forall m la lb,
  mget (set_all d cells m) la lb = if memb la lb cells then d else mget m la lb.
Proof.
  unfold set_all. induction cells as [|c cells IH]; intros m la lb; simpl; [reflexivity|].
  rewrite IH, mget_mset. destruct (memb la lb cells); destruct (loc_eqb (fst c) la && loc_eqb (snd c) lb); reflexivity.
Qed.
(* the entry is the highest dimension of a cell with that pair of locations *)
Lemma mget_matrix_of_cells vs es fs la lb :
  mget (matrix_of_cells vs es fs) la lb =
  if memb la lb fs then D2 else if memb la lb es then D1 else if memb la lb vs then D0 else DF.
Proof. unfold matrix_of_cells. rewrite !mget_set_all. destruct la, lb; reflexivity. Qed.

Lemma matrix_ext m m' : (forall la lb, mget m la lb = mget m' la lb) -> m = m'.
Proof.
  intros H. destruct m, m'.
  pose proof (H Interior Interior). pose proof (H Interior Boundary). pose proof (H Interior Exterior).
  pose proof (H Boundary Interior). pose proof (H Boundary Boundary). pose proof (H Boundary Exterior).
  pose proof (H Exterior Interior). pose proof (H Exterior Boundary). pose proof (H Exterior Exterior).
  simpl in *. congruence.
Qed.

Lemma memb_iff la lb l : memb la lb l = true <-> In (la, lb) l.
Proof.
  unfold memb. rewrite existsb_exists. split.
  - intros [[x y] [Hin H]]. simpl in H. apply andb_true_iff in H. destruct H as [H1 H2].
    apply loc_eqb_eq in H1, H2. subst. exact Hin.
  - intros H. exists (la, lb). split; [exact H|]. simpl. rewrite !(proj2 (loc_eqb_eq _ _) eq_refl). reflexivity.
Qed.
Lemma memb_perm la lb l l' : Permutation l l' -> memb la lb l = memb la lb l'.
Proof.
  intros P. apply eq_true_iff_eq. rewrite !memb_iff. split; apply Permutation_in; [exact P | symmetry; exact P].
Qed.

(* the order in which the cells are visited (Go ranges over maps) does not matter *)
Theorem matrix_of_cells_order_free vs vs' es es' fs fs' :
  Permutation vs vs' -> Permutation es es' -> Permutation fs fs' ->
  matrix_of_cells vs es fs = matrix_of_cells vs' es' fs'.
Proof.
  intros Pv Pe Pf. apply matrix_ext. intros la lb. rewrite !mget_matrix_of_cells.
  rewrite (memb_perm la lb _ _ Pv), (memb_perm la lb _ _ Pe), (memb_perm la lb _ _ Pf). reflexivity.
Qed.

(* it is the max-by-dimension matrix of the tagged cells (the formulation of Planar.de9im_of) *)
Definition tagged (vs es fs : list (loc * loc)) : list (loc * loc * dimv) :=
  map (fun c => (c, D0)) vs ++ map (fun c => (c, D1)) es ++ map (fun c => (c, D2)) fs.
Lemma entry_app T1 T2 la lb : entry (T1 ++ T2) la lb = dmax (entry T1 la lb) (entry T2 la lb).
Proof.
  unfold entry. rewrite filter_app, map_app. induction (map snd (filter _ T1)) as [|d l IH]; simpl.
  - destruct (fold_right dmax DF _); reflexivity.
  - rewrite IH. destruct d, (fold_right dmax DF l), (fold_right dmax DF (map snd (filter _ T2))); reflexivity.
Qed.
Lemma entry_const d l la lb : d <> DF ->
  entry (map (fun c => (c, d)) l) la lb = if memb la lb l then d else DF.
Proof.
  intros Hd. unfold entry, memb. induction l as [|c l IH]; simpl; [reflexivity|].
  destruct (loc_eqb (fst c) la && loc_eqb (snd c) lb); simpl; [|exact IH].
  rewrite IH. destruct (existsb _ l); destruct d; try reflexivity; congruence.
Qed.
Theorem matrix_of_cells_is_max vs es fs : matrix_of_cells vs es fs = de9im_of (tagged vs es fs).
Proof.
  apply matrix_ext. intros la lb. rewrite mget_matrix_of_cells, mget_de9im_of. unfold tagged.
  rewrite !entry_app, !entry_const by discriminate.
  destruct (memb la lb fs), (memb la lb es), (memb la lb vs); reflexivity.
Qed.

(* ---------------- operands exchanged *)
Definition swap_p (c : loc * loc) : loc * loc := (snd c, fst c).
Lemma memb_swap la lb l : memb la lb (map swap_p l) = memb lb la l.
Proof.
  unfold memb. rewrite existsb_map. apply existsb_ext_in. intros c _. simpl. apply andb_comm.
Qed.
Lemma mget_transpose m la lb : mget (transpose m) la lb = mget m lb la.
Proof. destruct la, lb; reflexivity. Qed.
Lemma matrix_of_cells_swap vs es fs :
  matrix_of_cells (map swap_p vs) (map swap_p es) (map swap_p fs) = transpose (matrix_of_cells vs es fs).
Proof.
  apply matrix_ext. intros la lb. rewrite mget_transpose, !mget_matrix_of_cells, !memb_swap. reflexivity.
Qed.

Lemma lab_get_swap l op : lab_get (lab_swap l) op = lab_get l (negb op).
Proof. destruct l, op; reflexivity. Qed.
Lemma get_e_swap c i : get_e (swap_c c) i = option_map swap_e (get_e c i).
Proof. unfold get_e, swap_c; simpl. rewrite nth_error_map. reflexivity. Qed.
Lemma get_f_swap c i : get_f (swap_c c) i = option_map swap_f (get_f c i).
Proof. unfold get_f, swap_c; simpl. rewrite nth_error_map. reflexivity. Qed.
Lemma face_in_swap c f : face_in (swap_c c) f = lab_swap (face_in c f).
Proof. unfold face_in. rewrite get_f_swap. destruct (get_f c f); reflexivity. Qed.
Lemma twin_face_in_swap c e : twin_face_in (swap_c c) (swap_e e) = lab_swap (twin_face_in c e).
Proof.
  unfold twin_face_in, twin_face. simpl. rewrite get_e_swap. destruct (get_e c (e_twin e)); simpl; [|reflexivity].
  apply face_in_swap.
Qed.
Lemma edge_loc_swap c e op : edge_loc (swap_c c) (swap_e e) op = edge_loc c e (negb op).
Proof.
  unfold edge_loc. rewrite twin_face_in_swap. simpl. rewrite face_in_swap, !lab_get_swap. reflexivity.
Qed.
Lemma face_loc_swap f op : face_loc (swap_f f) op = face_loc f (negb op).
Proof. unfold face_loc. simpl. rewrite lab_get_swap. reflexivity. Qed.
Lemma incidents_swap c i : incidents (swap_c c) i = map swap_e (incidents c i).
Proof.
  unfold incidents, swap_c; simpl. induction (c_edges c) as [|e l IH]; simpl; [reflexivity|].
  destruct (Nat.eqb (e_origin e) i); simpl; rewrite IH; reflexivity.
Qed.
Lemma vertex_loc_swap c i l op :
  vertex_loc (swap_c c) i (snd l, fst l) op = vertex_loc c i l (negb op).
Proof.
  unfold vertex_loc. assert (E : op_loc (snd l, fst l) op = op_loc l (negb op)) by (destruct op; reflexivity).
  rewrite E. destruct (vl_boundary _); [reflexivity|]. destruct (vl_interior _); [reflexivity|].
  rewrite incidents_swap. destruct (incidents c i); simpl; [reflexivity|]. rewrite edge_loc_swap. reflexivity.
Qed.

Lemma indexed_from_map {A B} (f : A -> B) l : forall k,
  indexed_from k (map f l) = map (fun p => (fst p, f (snd p))) (indexed_from k l).
Proof. induction l; intros k; simpl; [reflexivity|]. rewrite IHl. reflexivity. Qed.
Lemma all_some_map {A B} (f : A -> B) (l : list (option A)) :
  all_some (map (option_map f) l) = option_map (map f) (all_some l).
Proof.
  induction l as [|[x|] l IH]; simpl; try reflexivity. rewrite IH. destruct (all_some l); reflexivity.
Qed.

(* Relate(b,a) on the same overlay with the operands exchanged is the transposed matrix *)
Theorem matrix_of_complex_swap x :
  matrix_of_complex (swap_x x) = option_map transpose (matrix_of_complex x).
Proof.
  unfold matrix_of_complex.
  assert (Ev : vertex_cells (swap_x x) = option_map (map swap_p) (vertex_cells x)).
  { unfold vertex_cells, swap_x; simpl. rewrite indexed_from_map, map_map. rewrite <- all_some_map, map_map.
    f_equal. apply map_ext. intros [i l]. simpl. rewrite (vertex_loc_swap _ i l false), (vertex_loc_swap _ i l true). simpl.
    destruct (vertex_loc (x_c x) i l true), (vertex_loc (x_c x) i l false); reflexivity. }
  assert (Ee : edge_cells (swap_x x) = map swap_p (edge_cells x)).
  { unfold edge_cells, swap_x; simpl. rewrite !map_map. apply map_ext. intros e. rewrite !edge_loc_swap. reflexivity. }
  assert (Ef : face_cells (swap_x x) = map swap_p (face_cells x)).
  { unfold face_cells, swap_x; simpl. rewrite !map_map. apply map_ext. intros f. rewrite !face_loc_swap. reflexivity. }
  rewrite Ev, Ee, Ef. destruct (vertex_cells x); simpl; [|reflexivity]. rewrite matrix_of_cells_swap. reflexivity.
Qed.

(* the arbitrary choice of an incident half edge in vertexRecord.location does not matter when the
   incident half edges agree *)
Theorem pick_any_incident x i l op e :
  incidents_agree x = true -> nth_error (x_locs x) i = Some l ->
  vl_boundary (op_loc l op) = false -> vl_interior (op_loc l op) = false ->
  In e (incidents (x_c x) i) -> vertex_loc (x_c x) i l op = Some (edge_loc (x_c x) e op).
Proof.
  intros A Hn Hb Hi He. unfold vertex_loc. rewrite Hb, Hi.
  unfold incidents_agree in A. rewrite forallb_forall in A.
  assert (Hin : In (i, l) (indexed_from 0 (x_locs x))).
  { clear -Hn. assert (G : forall (ls : list (vloc * vloc)) k j, nth_error ls j = Some l -> In ((k + j)%nat, l) (indexed_from k ls)).
    { induction ls as [|a ls IH]; intros k j H; [destruct j; discriminate|]. destruct j; simpl in *.
      - injection H as ->. left. f_equal. lia.
      - right. replace (k + S j)%nat with (S k + j)%nat by lia. apply IH. exact H. }
    apply (G _ 0%nat i Hn). }
  specialize (A _ Hin). cbn [fst snd] in A. rewrite forallb_forall in A.
  assert (Ho : In op [false; true]) by (destruct op; simpl; auto). specialize (A op Ho).
  rewrite Hb, Hi in A. cbn [orb] in A.
  destruct (incidents (x_c x) i) as [|e0 r]; [destruct He|]. f_equal.
  destruct He as [<-|He]; [reflexivity|]. rewrite forallb_forall in A. specialize (A e He).
  apply loc_eqb_eq in A. symmetry. exact A.
Qed.


(* ---------------- correct labels give the reference matrix *)
Section Sound.
  Variables a b : geom.
  Hypothesis Ra : rings_closed a.
  Hypothesis Rb : rings_closed b.
  Let L := canon_segs (arr_segments a ++ arr_segments b).
  Let V := vertex_set L (canon_pts (arr_points a ++ arr_points b)).

  (* a cell decomposition of the plane: cells with a dimension, a label (the pair of locations the
     overlay computed), a witness point, and the set of points they consist of *)
  Variable cell : Type.
  Variable cells : list cell.
  Variable cdim : cell -> dimv.
  Variable clab : cell -> loc * loc.
  Variable wit : cell -> pt.
  Variable inC : cell -> pt -> Prop.

  (* the cells cover the plane *)
  Hypothesis H_cover : forall p, exists c, In c cells /\ inC c p.
  (* the operands do not change location inside a cell *)
  Hypothesis H_const : forall c p, In c cells -> inC c p ->
    locate a p = locate a (wit c) /\ locate b p = locate b (wit c).
  (* dimensions: a 0-cell consists of arrangement vertices, a 1-cell of points on segments (or vertices);
     the witness of a 1-cell is no vertex, the witness of a 2-cell lies on no segment and is no vertex *)
  Hypothesis H_dim : forall c, In c cells -> cdim c <> DF.
  Hypothesis H_pts0 : forall c p, In c cells -> cdim c = D0 -> inC c p -> is_vertex V p = true.
  Hypothesis H_pts1 : forall c p, In c cells -> cdim c = D1 -> inC c p -> on_some_seg L p = true \/ is_vertex V p = true.
  Hypothesis H_wit1 : forall c, In c cells -> cdim c = D1 -> is_vertex V (wit c) = false.
  Hypothesis H_wit2 : forall c, In c cells -> cdim c = D2 -> on_some_seg L (wit c) = false /\ is_vertex V (wit c) = false.
  (* LABELS SOUND: the label of every cell is the pair of definitional locations of its witness *)
  Hypothesis labels_sound : forall c, In c cells -> clab c = (locate a (wit c), locate b (wit c)).

  Definition labs_of (d : dimv) : list (loc * loc) :=
    map clab (filter (fun c => Nat.eqb (dim_rank (cdim c)) (dim_rank d)) cells).

  Lemma labs_of_in d la lb : In (la, lb) (labs_of d) <-> exists c, In c cells /\ cdim c = d /\ clab c = (la, lb).
  Proof.
    unfold labs_of. rewrite in_map_iff. split.
    - intros [c [E Hc]]. apply filter_In in Hc. destruct Hc as [Hc Hd]. apply Nat.eqb_eq in Hd.
      exists c. split; [exact Hc|]. split; [|exact E]. destruct (cdim c), d; simpl in Hd; congruence.
    - intros [c [Hc [Hd E]]]. exists c. split; [exact E|]. apply filter_In. split; [exact Hc|]. rewrite Hd. apply Nat.eqb_refl.
  Qed.

  (* the cell of a point carries the point's pair of locations *)
  Lemma cell_of_point p : exists c, In c cells /\ inC c p /\ clab c = (locate a p, locate b p).
  Proof.
    destruct (H_cover p) as [c [Hc Hp]]. exists c. split; [exact Hc|]. split; [exact Hp|].
    rewrite (labels_sound c Hc). destruct (H_const c p Hc Hp) as [-> ->]. reflexivity.
  Qed.

  Theorem sound_labels_give_reference :
    matrix_of_cells (labs_of D0) (labs_of D1) (labs_of D2) = de9im_ref a b.
  Proof.
    apply matrix_ext. intros la lb. rewrite mget_matrix_of_cells.
    pose proof (de9im_ref_sufficient a b la lb Ra Rb) as S0.
    pose proof (entry_ge_D1_iff a b Ra Rb la lb) as S1. pose proof (entry_D2_iff a b Ra Rb la lb) as S2.
    fold L in S1, S2. fold V in S1, S2.
    (* a free point with these locations lies in a 2-cell with this label *)
    assert (F2 : (exists p, locate a p = la /\ locate b p = lb /\ on_some_seg L p = false /\ is_vertex V p = false) ->
                 memb la lb (labs_of D2) = true).
    { intros [p [H1 [H2 [Fs Fv]]]]. destruct (cell_of_point p) as [c [Hc [Hp El]]]. rewrite H1, H2 in El.
      apply memb_iff. apply labs_of_in. exists c. split; [exact Hc|]. split; [|exact El].
      pose proof (H_dim c Hc). destruct (cdim c) eqn:Ed; [congruence | | | reflexivity].
      - rewrite (H_pts0 c p Hc Ed Hp) in Fv. discriminate.
      - destruct (H_pts1 c p Hc Ed Hp); congruence. }
    (* a non-vertex point with these locations lies in a 1- or 2-cell with this label *)
    assert (F1 : (exists p, locate a p = la /\ locate b p = lb /\ is_vertex V p = false) ->
                 memb la lb (labs_of D2) = true \/ memb la lb (labs_of D1) = true).
    { intros [p [H1 [H2 Fv]]]. destruct (cell_of_point p) as [c [Hc [Hp El]]]. rewrite H1, H2 in El.
      pose proof (H_dim c Hc). destruct (cdim c) eqn:Ed; [congruence | | |].
      - rewrite (H_pts0 c p Hc Ed Hp) in Fv. discriminate.
      - right. apply memb_iff. apply labs_of_in. exists c. auto.
      - left. apply memb_iff. apply labs_of_in. exists c. auto. }
    (* any point with these locations lies in a cell with this label *)
    assert (F0 : (exists p, locate a p = la /\ locate b p = lb) ->
                 memb la lb (labs_of D2) = true \/ memb la lb (labs_of D1) = true \/ memb la lb (labs_of D0) = true).
    { intros [p [H1 H2]]. destruct (cell_of_point p) as [c [Hc [Hp El]]]. rewrite H1, H2 in El.
      pose proof (H_dim c Hc). destruct (cdim c) eqn:Ed; [congruence | | |].
      - right. right. apply memb_iff. apply labs_of_in. exists c. auto.
      - right. left. apply memb_iff. apply labs_of_in. exists c. auto.
      - left. apply memb_iff. apply labs_of_in. exists c. auto. }
    (* conversely the witness of a cell with this label is a point with these locations *)
    assert (W : forall d, memb la lb (labs_of d) = true ->
                exists c, In c cells /\ cdim c = d /\ locate a (wit c) = la /\ locate b (wit c) = lb).
    { intros d H. apply memb_iff in H. apply labs_of_in in H. destruct H as [c [Hc [Hd El]]].
      rewrite (labels_sound c Hc) in El. injection El as E1 E2. exists c. auto. }
    destruct (memb la lb (labs_of D2)) eqn:M2.
    - destruct (W D2 M2) as [c [Hc [Hd [E1 E2]]]]. destruct (H_wit2 c Hc Hd) as [Fs Fv].
      symmetry. apply S2. exists (wit c). auto.
    - destruct (memb la lb (labs_of D1)) eqn:M1.
      + destruct (W D1 M1) as [c [Hc [Hd [E1 E2]]]]. pose proof (H_wit1 c Hc Hd) as Fv.
        destruct (proj2 S1 (ex_intro _ (wit c) (conj E1 (conj E2 Fv)))) as [E|E]; [symmetry; exact E|].
        apply S2 in E. apply F2 in E. congruence.
      + destruct (memb la lb (labs_of D0)) eqn:M0.
        * destruct (W D0 M0) as [c [Hc [Hd [E1 E2]]]].
          assert (N : mget (de9im_ref a b) la lb <> DF) by (apply S0; exists (wit c); auto).
          destruct (mget (de9im_ref a b) la lb) eqn:E; [congruence | reflexivity | |].
          -- destruct (F1 (proj1 S1 (or_introl eq_refl))); congruence.
          -- destruct (F1 (proj1 S1 (or_intror eq_refl))); congruence.
        * destruct (mget (de9im_ref a b) la lb) eqn:E; [reflexivity | | |];
            (assert (N : mget (de9im_ref a b) la lb <> DF) by congruence; rewrite E in N || idtac;
             apply S0 in N; destruct (F0 N) as [K|[K|K]]; congruence).
  Qed.
End Sound.
Print Assumptions sound_labels_give_reference.


(* ---------------- the cells of an overlay complex *)
Inductive ccell := CV (i : nat) | CE (i : nat) | CF (i : nat).
Definition ccell_dim (c : ccell) : dimv := match c with CV _ => D0 | CE _ => D1 | CF _ => D2 end.
Definition cells_of (nv ne nf : nat) : list ccell :=
  map CV (seq 0 nv) ++ map CE (seq 0 ne) ++ map CF (seq 0 nf).
Definition ccell_lab (vs es fs : list (loc * loc)) (c : ccell) : loc * loc :=
  match c with
  | CV i => nth i vs (Exterior, Exterior)
  | CE i => nth i es (Exterior, Exterior)
  | CF i => nth i fs (Exterior, Exterior)
  end.

Lemma map_nth_seq {A} (l : list A) d : map (fun i => nth i l d) (seq 0 (length l)) = l.
Proof.
  induction l as [|x l IH]; [reflexivity|]. simpl. f_equal. rewrite <- seq_shift, map_map. exact IH.
Qed.
Lemma filter_map_all {A B} (f : A -> B) (p : B -> bool) l : (forall x, p (f x) = true) -> filter p (map f l) = map f l.
Proof. intros H. induction l; simpl; [reflexivity|]. rewrite H, IHl. reflexivity. Qed.
Lemma filter_map_none {A B} (f : A -> B) (p : B -> bool) l : (forall x, p (f x) = false) -> filter p (map f l) = [].
Proof. intros H. induction l; simpl; [reflexivity|]. rewrite H, IHl. reflexivity. Qed.

Lemma labs_of_cells vs es fs :
  labs_of ccell (cells_of (length vs) (length es) (length fs)) ccell_dim (ccell_lab vs es fs) D0 = vs /\
  labs_of ccell (cells_of (length vs) (length es) (length fs)) ccell_dim (ccell_lab vs es fs) D1 = es /\
  labs_of ccell (cells_of (length vs) (length es) (length fs)) ccell_dim (ccell_lab vs es fs) D2 = fs.
Proof.
  unfold labs_of, cells_of. rewrite !filter_app.
  repeat split.
  - rewrite (filter_map_all CV), (filter_map_none CE), (filter_map_none CF) by reflexivity.
    rewrite !app_nil_r, map_map. apply map_nth_seq.
  - rewrite (filter_map_none CV), (filter_map_all CE), (filter_map_none CF) by reflexivity.
    rewrite app_nil_r. cbn [app]. rewrite map_map. apply map_nth_seq.
  - rewrite (filter_map_none CV), (filter_map_none CE), (filter_map_all CF) by reflexivity.
    cbn [app]. rewrite map_map. apply map_nth_seq.
Qed.

(* Go's extraction on an overlay whose cells decompose the plane and whose labels are sound returns
   the reference matrix - the whole of Relate for two non-empty operands, given the labelling *)
Theorem relate_of_sound_overlay (a b : geom) (x : xcomplex) (m : matrix) (vs : list (loc * loc))
        (wit : ccell -> pt) (inC : ccell -> pt -> Prop) :
  rings_closed a -> rings_closed b ->
  let L := canon_segs (arr_segments a ++ arr_segments b) in
  let V := vertex_set L (canon_pts (arr_points a ++ arr_points b)) in
  let cells := cells_of (length vs) (length (edge_cells x)) (length (face_cells x)) in
  let lab := ccell_lab vs (edge_cells x) (face_cells x) in
  vertex_cells x = Some vs ->
  matrix_of_complex x = Some m ->
  (forall p, exists c, In c cells /\ inC c p) ->
  (forall c p, In c cells -> inC c p -> locate a p = locate a (wit c) /\ locate b p = locate b (wit c)) ->
  (forall c p, In c cells -> ccell_dim c = D0 -> inC c p -> is_vertex V p = true) ->
  (forall c p, In c cells -> ccell_dim c = D1 -> inC c p -> on_some_seg L p = true \/ is_vertex V p = true) ->
  (forall c, In c cells -> ccell_dim c = D1 -> is_vertex V (wit c) = false) ->
  (forall c, In c cells -> ccell_dim c = D2 -> on_some_seg L (wit c) = false /\ is_vertex V (wit c) = false) ->
  (forall c, In c cells -> lab c = (locate a (wit c), locate b (wit c))) ->
  m = de9im_ref a b.
Proof.
  intros Ra Rb L V cells lab Ev Em Hcov Hconst H0 H1 Hw1 Hw2 Hlab.
  unfold matrix_of_complex in Em. rewrite Ev in Em. injection Em as <-.
  assert (Hd : forall c, In c cells -> ccell_dim c <> DF) by (intros [i|i|i] _; discriminate).
  pose proof (sound_labels_give_reference a b Ra Rb ccell cells ccell_dim lab wit inC Hcov Hconst Hd H0 H1 Hw1 Hw2 Hlab) as S.
  destruct (labs_of_cells vs (edge_cells x) (face_cells x)) as [E0 [E1 E2]].
  unfold cells, lab in S. rewrite E0, E1, E2 in S. exact S.
Qed.
Print Assumptions relate_of_sound_overlay.
