(* Lemmas of property C02, layer (a): the pattern matcher for all byte strings, its typed view, and
   the facts about the named predicates established by ONE exhaustive evaluation over all
   4^9 = 262144 matrices (all_checks_hold), lifted with forallb_forall (forall_matrices). *)
From Coq Require Import QArith List Bool ZArith NArith String Ascii Lia.
From SF Require Import Base.GeomAST Base.QKernel Base.Planar Model.RelatePatterns Model.Relate.
Import ListNotations.
Local Close Scope Q_scope.
Local Open Scope nat_scope.


(* ---------------- the byte patterns are the strings of RelatePatterns.v *)
Lemma bp_spec :
  bp_equals = map str_bytes pats_equals /\ bp_disjoint = map str_bytes pats_disjoint /\
  bp_touches = map str_bytes pats_touches /\ bp_contains = map str_bytes pats_contains /\
  bp_covers = map str_bytes pats_covers /\ bp_within = map str_bytes pats_within /\
  bp_coveredby = map str_bytes pats_coveredby /\ bp_crosses_lt = map str_bytes pats_crosses_lt /\
  bp_crosses_gt = map str_bytes pats_crosses_gt /\ bp_crosses_11 = map str_bytes pats_crosses_11 /\
  bp_overlaps_00_22 = map str_bytes pats_overlaps_00_22 /\ bp_overlaps_11 = map str_bytes pats_overlaps_11.
Proof. repeat split; reflexivity. Qed.

(* ---------------- RelateMatches: specification for all byte strings *)
Inductive cell := CellOk | CellMismatch | CellErr.
(* what one position decides: the pattern character is checked first, then the matrix character *)
Definition cell_of (m p : N) : cell :=
  if pat_char_ok p then
    match mat_class m with
    | Some d => if cell_match d p then CellOk else CellMismatch
    | None => CellErr
    end
  else CellErr.

(* the first position (if any) that is not Ok decides *)
Inductive first_bad : bytes -> bytes -> option cell -> Prop :=
| fb_nil_l : forall pat, first_bad [] pat None
| fb_nil_r : forall mat, first_bad mat [] None
| fb_ok : forall m p mat pat r, cell_of m p = CellOk -> first_bad mat pat r -> first_bad (m :: mat) (p :: pat) r
| fb_bad : forall m p mat pat c, cell_of m p = c -> c <> CellOk -> first_bad (m :: mat) (p :: pat) (Some c).

Lemma rm_loop_first_bad mat pat :
  exists r, first_bad mat pat r /\
            rm_loop mat pat = match r with None => RM true | Some CellMismatch => RM false | Some _ => RMErr end.
Proof.
  revert pat. induction mat as [|m mat IH]; intros pat.
  - exists None. split; [constructor | reflexivity].
  - destruct pat as [|p pat].
    + exists None. split; [constructor | reflexivity].
    + destruct (IH pat) as [r [Hr Er]]. simpl. unfold cell_of in *.
      destruct (cell_of m p) eqn:Ec; unfold cell_of in Ec.
      * exists r. split; [apply fb_ok; [exact Ec | exact Hr]|].
        destruct (pat_char_ok p); [|discriminate]. destruct (mat_class m); [|discriminate].
        destruct (cell_match d p); [exact Er | discriminate].
      * exists (Some CellMismatch). split; [apply fb_bad; [exact Ec | discriminate]|].
        destruct (pat_char_ok p); [|discriminate]. destruct (mat_class m); [|discriminate].
        destruct (cell_match d p); [discriminate | reflexivity].
      * exists (Some CellErr). split; [apply fb_bad; [exact Ec | discriminate]|].
        destruct (pat_char_ok p); [|reflexivity]. destruct (mat_class m); [|reflexivity].
        destruct (cell_match d p); discriminate.
Qed.
Lemma first_bad_fun mat pat r1 r2 : first_bad mat pat r1 -> first_bad mat pat r2 -> r1 = r2.
Proof.
  intros H1. revert r2. induction H1; intros r2 H2; inversion H2; subst; auto; try congruence.
Qed.

(* Ok cells never arise in first_bad's answer *)
Lemma first_bad_not_ok mat pat : ~ first_bad mat pat (Some CellOk).
Proof.
  intros H. remember (Some CellOk) as r. induction H; try discriminate; auto.
  injection Heqr as ->. congruence.
Qed.

(* relate_matches_spec: an error iff a length is not 9 or the first non-matching position is an
   invalid character (pattern character checked before the matrix character); false iff both
   lengths are 9 and the first non-matching position is a plain mismatch; true iff both lengths
   are 9 and every position matches *)
Theorem relate_matches_spec_lemma mat pat :
  (relate_matches mat pat = RMErr <->
     List.length mat <> 9 \/ List.length pat <> 9 \/ first_bad mat pat (Some CellErr)) /\
  (relate_matches mat pat = RM false <->
     List.length mat = 9 /\ List.length pat = 9 /\ first_bad mat pat (Some CellMismatch)) /\
  (relate_matches mat pat = RM true <->
     List.length mat = 9 /\ List.length pat = 9 /\ first_bad mat pat None).
Proof.
  unfold relate_matches.
  destruct (Nat.eqb (List.length mat) 9) eqn:E1; simpl.
  2:{ apply Nat.eqb_neq in E1. (split; [|split]); split; intros HH; try discriminate; try tauto. }
  destruct (Nat.eqb (List.length pat) 9) eqn:E2; simpl.
  2:{ apply Nat.eqb_neq in E2. (split; [|split]); split; intros HH; try discriminate; try tauto. }
  apply Nat.eqb_eq in E1, E2.
  destruct (rm_loop_first_bad mat pat) as [r [Hr Er]]. rewrite Er.
  assert (U : forall r', first_bad mat pat r' -> r' = r) by (intros; eapply first_bad_fun; eauto).
  (split; [|split]); split; intros H.
  - right. right. destruct r as [[| |]|]; try discriminate; [exfalso; eapply first_bad_not_ok; eauto | exact Hr].
  - destruct H as [H|[H|H]]; try congruence. rewrite <- (U _ H). reflexivity.
  - destruct r as [[| |]|]; try discriminate. tauto.
  - destruct H as [_ [_ H]]. rewrite <- (U _ H). reflexivity.
  - destruct r as [[| |]|]; try discriminate. tauto.
  - destruct H as [_ [_ H]]. rewrite <- (U _ H). reflexivity.
Qed.



(* ---------------- typed view of the matcher on well-formed matrices and patterns *)
Definition enc_pchar (c : pchar) : N :=
  match c with PF => cF | P0 => c0 | P1 => c1 | P2 => c2 | PT => cT | PStar => cStar end.
Lemma pchar_of_some b c : pchar_of b = Some c -> b = enc_pchar c.
Proof.
  unfold pchar_of.
  destruct (N.eqb b cF) eqn:E1; [apply N.eqb_eq in E1; intros H; injection H as <-; exact E1|].
  destruct (N.eqb b c0) eqn:E2; [apply N.eqb_eq in E2; intros H; injection H as <-; exact E2|].
  destruct (N.eqb b c1) eqn:E3; [apply N.eqb_eq in E3; intros H; injection H as <-; exact E3|].
  destruct (N.eqb b c2) eqn:E4; [apply N.eqb_eq in E4; intros H; injection H as <-; exact E4|].
  destruct (N.eqb b cT) eqn:E5; [apply N.eqb_eq in E5; intros H; injection H as <-; exact E5|].
  destruct (N.eqb b cStar) eqn:E6; [apply N.eqb_eq in E6; intros H; injection H as <-; exact E6|].
  intros H; discriminate H.
Qed.
Lemma cell_typed d c :
  pat_char_ok (enc_pchar c) = true /\ mat_class (enc_dim d) = Some d /\
  cell_match d (enc_pchar c) = pcell d c.
Proof. destruct d, c; repeat split; reflexivity. Qed.

Lemma rm_loop_typed ds bs ps :
  parse_pat bs = Some ps -> rm_loop (map enc_dim ds) bs = RM (pmatch ds ps).
Proof.
  revert bs ps. induction ds as [|d ds IH]; intros bs ps H; simpl.
  - destruct ps; reflexivity.
  - destruct bs as [|b bs]; simpl in H.
    + injection H as <-. reflexivity.
    + destruct (pchar_of b) eqn:Eb; [|discriminate]. destruct (parse_pat bs) eqn:Ebs; [|discriminate].
      injection H as <-. apply pchar_of_some in Eb. subst b.
      destruct (cell_typed d p) as [H1 [H2 H3]]. rewrite H1, H2, H3. simpl.
      destruct (pcell d p); simpl; [apply IH; exact Ebs | reflexivity].
Qed.
Lemma parse_pat_length bs ps : parse_pat bs = Some ps -> List.length bs = List.length ps.
Proof.
  revert ps. induction bs as [|b bs IH]; simpl; intros ps H.
  - injection H as <-. reflexivity.
  - destruct (pchar_of b); [|discriminate]. destruct (parse_pat bs); [|discriminate].
    injection H as <-. simpl. f_equal. apply IH. reflexivity.
Qed.
Lemma enc_matrix_length m : List.length (enc_matrix m) = 9.
Proof. reflexivity. Qed.

Lemma match_any_typed m pats tps :
  typed_pats pats = Some tps -> match_any (enc_matrix m) pats = RM (pmatch_any m tps).
Proof.
  revert tps. induction pats as [|p pats IH]; simpl; intros tps H.
  - injection H as <-. reflexivity.
  - destruct (parse_pat p) eqn:Ep; [|discriminate]. destruct (typed_pats pats) eqn:Et; [|discriminate].
    destruct (Nat.eqb (List.length l) 9) eqn:El; [|discriminate]. injection H as <-.
    apply Nat.eqb_eq in El. unfold relate_matches. rewrite enc_matrix_length.
    rewrite (parse_pat_length _ _ Ep), El. change (Nat.eqb 9 9) with true. cbn [negb].
    unfold enc_matrix. rewrite (rm_loop_typed _ _ _ Ep). unfold pmatch_any. cbn [existsb].
    destruct (pmatch (matrix_list m) l); cbn [orb]; [reflexivity|]. apply IH. reflexivity.
Qed.

Definition tp_of (pats : list bytes) : list (list pchar) :=
  match typed_pats pats with Some l => l | None => [] end.

(* ---------------- all 4^9 matrices *)
Lemma all_dims_complete d : In d all_dims.
Proof. destruct d; simpl; tauto. Qed.
Lemma all_matrices_complete m : In m all_matrices.
Proof.
  destruct m as [a b c d e f g h i]. unfold all_matrices.
  repeat (apply in_flat_map; eexists; split; [apply all_dims_complete|]).
  apply in_map. apply all_dims_complete.
Qed.
Lemma all_matrices_length : N.of_nat (List.length all_matrices) = 262144%N.
Proof. vm_compute. reflexivity. Qed.
Lemma forall_matrices (P : matrix -> bool) : forallb P all_matrices = true -> forall m, P m = true.
Proof. intros H m. rewrite forallb_forall in H. apply H. apply all_matrices_complete. Qed.


(* the typed pattern lists (computed) *)
Lemma typed_ok :
  typed_pats bp_equals = Some (tp_of bp_equals) /\ typed_pats bp_disjoint = Some (tp_of bp_disjoint) /\
  typed_pats bp_touches = Some (tp_of bp_touches) /\ typed_pats bp_contains = Some (tp_of bp_contains) /\
  typed_pats bp_covers = Some (tp_of bp_covers) /\ typed_pats bp_within = Some (tp_of bp_within) /\
  typed_pats bp_coveredby = Some (tp_of bp_coveredby) /\ typed_pats bp_crosses_lt = Some (tp_of bp_crosses_lt) /\
  typed_pats bp_crosses_gt = Some (tp_of bp_crosses_gt) /\ typed_pats bp_crosses_11 = Some (tp_of bp_crosses_11) /\
  typed_pats bp_overlaps_00_22 = Some (tp_of bp_overlaps_00_22) /\ typed_pats bp_overlaps_11 = Some (tp_of bp_overlaps_11).
Proof. repeat split; reflexivity. Qed.

Lemma ma_typed m pats : typed_pats pats = Some (tp_of pats) ->
  match_any (enc_matrix m) pats = RM (pmatch_any m (tp_of pats)).
Proof. apply match_any_typed. Qed.

Ltac typed :=
  unfold go_equals, go_disjoint, go_touches, go_contains, go_covers, go_within, go_coveredby;
  rewrite ?ma_typed by (vm_compute; reflexivity).
(* lift an exhaustive boolean check over all 4^9 matrices *)
Ltac exhaust P :=
  let H := fresh in
  assert (H : forallb P all_matrices = true) by (vm_compute; reflexivity);
  let m := fresh "m" in intros m; pose proof (forall_matrices P H m) as H'; clear H.

Definition beq (a b : bool) : bool := Bool.eqb a b.

(* shorthand: the boolean a pattern list gives on a matrix *)
Definition pm (m : matrix) (pats : list bytes) : bool := pmatch_any m (tp_of pats).



(* typed patterns, evaluated once *)
Definition tq_equals : list (list pchar) := Eval vm_compute in tp_of bp_equals.
Definition tq_disjoint : list (list pchar) := Eval vm_compute in tp_of bp_disjoint.
Definition tq_touches : list (list pchar) := Eval vm_compute in tp_of bp_touches.
Definition tq_contains : list (list pchar) := Eval vm_compute in tp_of bp_contains.
Definition tq_covers : list (list pchar) := Eval vm_compute in tp_of bp_covers.
Definition tq_within : list (list pchar) := Eval vm_compute in tp_of bp_within.
Definition tq_coveredby : list (list pchar) := Eval vm_compute in tp_of bp_coveredby.
Definition tq_crosses_lt : list (list pchar) := Eval vm_compute in tp_of bp_crosses_lt.
Definition tq_crosses_gt : list (list pchar) := Eval vm_compute in tp_of bp_crosses_gt.
Definition tq_crosses_11 : list (list pchar) := Eval vm_compute in tp_of bp_crosses_11.
Definition tq_overlaps_00_22 : list (list pchar) := Eval vm_compute in tp_of bp_overlaps_00_22.
Definition tq_overlaps_11 : list (list pchar) := Eval vm_compute in tp_of bp_overlaps_11.

Definition isT (d : dimv) : bool := match d with DF => false | _ => true end.
Definition isF (d : dimv) : bool := negb (isT d).
(* the two point sets share a point: some entry among II, IB, BI, BB is set *)
Definition m_intersects (m : matrix) : bool := isT (mII m) || isT (mIB m) || isT (mBI m) || isT (mBB m).
Definition impb (a b : bool) : bool := negb a || b.

(* one exhaustive evaluation over all 4^9 matrices establishes every matrix-level fact below *)
Definition all_checks (m : matrix) : bool :=
  let t := transpose m in
  Bool.eqb (pmatch_any m tq_contains) (pmatch_any t tq_within) &&
  Bool.eqb (pmatch_any m tq_covers) (pmatch_any t tq_coveredby) &&
  Bool.eqb (pmatch_any m tq_disjoint) (negb (m_intersects m)) &&
  Bool.eqb (pmatch_any m tq_equals) (pmatch_any t tq_equals) &&
  Bool.eqb (pmatch_any m tq_touches) (pmatch_any t tq_touches) &&
  Bool.eqb (pmatch_any m tq_disjoint) (pmatch_any t tq_disjoint) &&
  Bool.eqb (pmatch_any m tq_overlaps_00_22) (pmatch_any t tq_overlaps_00_22) &&
  Bool.eqb (pmatch_any m tq_overlaps_11) (pmatch_any t tq_overlaps_11) &&
  Bool.eqb (pmatch_any m tq_crosses_lt) (pmatch_any t tq_crosses_gt) &&
  Bool.eqb (pmatch_any m tq_crosses_11) (pmatch_any t tq_crosses_11) &&
  impb (pmatch_any m tq_within) (pmatch_any m tq_coveredby) &&
  impb (pmatch_any m tq_contains) (pmatch_any m tq_covers) &&
  impb (pmatch_any m tq_equals) (pmatch_any m tq_within && pmatch_any m tq_contains) &&
  impb (pmatch_any m tq_touches) (m_intersects m) &&
  (* the documented meaning of the patterns, entry by entry *)
  Bool.eqb (pmatch_any m tq_contains) (isT (mII m) && isF (mEI m) && isF (mEB m)) &&
  Bool.eqb (pmatch_any m tq_within) (isT (mII m) && isF (mIE m) && isF (mBE m)) &&
  Bool.eqb (pmatch_any m tq_covers) (m_intersects m && isF (mEI m) && isF (mEB m)) &&
  Bool.eqb (pmatch_any m tq_coveredby) (m_intersects m && isF (mIE m) && isF (mBE m)) &&
  Bool.eqb (pmatch_any m tq_equals) (isT (mII m) && isF (mIE m) && isF (mBE m) && isF (mEI m) && isF (mEB m)) &&
  Bool.eqb (pmatch_any m tq_touches) (isF (mII m) && (isT (mIB m) || isT (mBI m) || isT (mBB m))) &&
  Bool.eqb (pmatch_any m tq_crosses_lt) (isT (mII m) && isT (mIE m)) &&
  Bool.eqb (pmatch_any m tq_crosses_gt) (isT (mII m) && isT (mEI m)) &&
  Bool.eqb (pmatch_any m tq_crosses_11) (match mII m with D0 => true | _ => false end) &&
  Bool.eqb (pmatch_any m tq_overlaps_00_22) (isT (mII m) && isT (mIE m) && isT (mEI m)) &&
  Bool.eqb (pmatch_any m tq_overlaps_11) ((match mII m with D1 => true | _ => false end) && isT (mIE m) && isT (mEI m)).

Lemma all_checks_hold : forallb all_checks all_matrices = true.
Proof. vm_cast_no_check (eq_refl true). Qed.
Lemma all_checks_m m : all_checks m = true.
Proof. apply forall_matrices. exact all_checks_hold. Qed.



Lemma tq_spec :
  tp_of bp_equals = tq_equals /\ tp_of bp_disjoint = tq_disjoint /\ tp_of bp_touches = tq_touches /\
  tp_of bp_contains = tq_contains /\ tp_of bp_covers = tq_covers /\ tp_of bp_within = tq_within /\
  tp_of bp_coveredby = tq_coveredby /\ tp_of bp_crosses_lt = tq_crosses_lt /\ tp_of bp_crosses_gt = tq_crosses_gt /\
  tp_of bp_crosses_11 = tq_crosses_11 /\ tp_of bp_overlaps_00_22 = tq_overlaps_00_22 /\
  tp_of bp_overlaps_11 = tq_overlaps_11.
Proof. repeat split; reflexivity. Qed.

(* match_any on an encoded matrix, for each of the twelve pattern lists *)
Ltac ma n := intros m; rewrite ma_typed by reflexivity; reflexivity.
Lemma ma_equals m : match_any (enc_matrix m) bp_equals = RM (pmatch_any m tq_equals). Proof. revert m; ma 0. Qed.
Lemma ma_disjoint m : match_any (enc_matrix m) bp_disjoint = RM (pmatch_any m tq_disjoint). Proof. revert m; ma 0. Qed.
Lemma ma_touches m : match_any (enc_matrix m) bp_touches = RM (pmatch_any m tq_touches). Proof. revert m; ma 0. Qed.
Lemma ma_contains m : match_any (enc_matrix m) bp_contains = RM (pmatch_any m tq_contains). Proof. revert m; ma 0. Qed.
Lemma ma_covers m : match_any (enc_matrix m) bp_covers = RM (pmatch_any m tq_covers). Proof. revert m; ma 0. Qed.
Lemma ma_within m : match_any (enc_matrix m) bp_within = RM (pmatch_any m tq_within). Proof. revert m; ma 0. Qed.
Lemma ma_coveredby m : match_any (enc_matrix m) bp_coveredby = RM (pmatch_any m tq_coveredby). Proof. revert m; ma 0. Qed.
Lemma ma_crosses_lt m : match_any (enc_matrix m) bp_crosses_lt = RM (pmatch_any m tq_crosses_lt). Proof. revert m; ma 0. Qed.
Lemma ma_crosses_gt m : match_any (enc_matrix m) bp_crosses_gt = RM (pmatch_any m tq_crosses_gt). Proof. revert m; ma 0. Qed.
Lemma ma_crosses_11 m : match_any (enc_matrix m) bp_crosses_11 = RM (pmatch_any m tq_crosses_11). Proof. revert m; ma 0. Qed.
Lemma ma_overlaps_00_22 m : match_any (enc_matrix m) bp_overlaps_00_22 = RM (pmatch_any m tq_overlaps_00_22). Proof. revert m; ma 0. Qed.
Lemma ma_overlaps_11 m : match_any (enc_matrix m) bp_overlaps_11 = RM (pmatch_any m tq_overlaps_11). Proof. revert m; ma 0. Qed.

Ltac facts m :=
  let H := fresh "H" in
  pose proof (all_checks_m m) as H; unfold all_checks in H; cbv zeta in H;
  rewrite !andb_true_iff in H; decompose [and] H; clear H;
  repeat match goal with H : Bool.eqb _ _ = true |- _ => apply eqb_prop in H end.
Ltac unf :=
  unfold go_equals, go_disjoint, go_touches, go_contains, go_covers, go_within, go_coveredby, go_crosses, go_overlaps;
  rewrite ?ma_equals, ?ma_disjoint, ?ma_touches, ?ma_contains, ?ma_covers, ?ma_within, ?ma_coveredby,
    ?ma_crosses_lt, ?ma_crosses_gt, ?ma_crosses_11, ?ma_overlaps_00_22, ?ma_overlaps_11.

Lemma transpose_involutive m : transpose (transpose m) = m.
Proof. destruct m; reflexivity. Qed.

(* ---- the theorems of layer (a): for every one of the 4^9 = 262144 matrices *)
Lemma contains_within_dual_lemma m : go_contains (enc_matrix m) = go_within (enc_matrix (transpose m)).
Proof. unf. facts m. congruence. Qed.
Lemma within_contains_dual_lemma m : go_within (enc_matrix m) = go_contains (enc_matrix (transpose m)).
Proof. rewrite contains_within_dual_lemma, transpose_involutive. reflexivity. Qed.
Lemma covers_coveredby_dual_lemma m : go_covers (enc_matrix m) = go_coveredby (enc_matrix (transpose m)).
Proof. unf. facts m. congruence. Qed.
Lemma coveredby_covers_dual_lemma m : go_coveredby (enc_matrix m) = go_covers (enc_matrix (transpose m)).
Proof. rewrite covers_coveredby_dual_lemma, transpose_involutive. reflexivity. Qed.
Lemma disjoint_iff_not_intersects_lemma m : go_disjoint (enc_matrix m) = RM (negb (m_intersects m)).
Proof. unf. facts m. congruence. Qed.
Lemma equals_sym_lemma m ea eb : go_equals (enc_matrix m) ea eb = go_equals (enc_matrix (transpose m)) eb ea.
Proof. unfold go_equals. rewrite (andb_comm eb ea). destruct (ea && eb); [reflexivity|]. unf. facts m. congruence. Qed.
Lemma touches_sym_lemma m : go_touches (enc_matrix m) = go_touches (enc_matrix (transpose m)).
Proof. unf. facts m. congruence. Qed.
Lemma disjoint_sym_lemma m : go_disjoint (enc_matrix m) = go_disjoint (enc_matrix (transpose m)).
Proof. unf. facts m. congruence. Qed.
Lemma overlaps_sym_lemma m da db : go_overlaps (enc_matrix m) da db = go_overlaps (enc_matrix (transpose m)) db da.
Proof.
  unfold go_overlaps. rewrite (andb_comm (Nat.eqb db 1)), (andb_comm (Nat.eqb db 0)), (andb_comm (Nat.eqb db 2)).
  destruct ((Nat.eqb da 0 && Nat.eqb db 0) || (Nat.eqb da 2 && Nat.eqb db 2)).
  - unf. facts m. congruence.
  - destruct (Nat.eqb da 1 && Nat.eqb db 1); [|reflexivity]. unf. facts m. congruence.
Qed.
Lemma crosses_sym_lemma m da db : go_crosses (enc_matrix m) da db = go_crosses (enc_matrix (transpose m)) db da.
Proof.
  unfold go_crosses. rewrite (andb_comm (Nat.eqb db 1)).
  destruct (Nat.ltb da db) eqn:E1; destruct (Nat.ltb db da) eqn:E2.
  - apply Nat.ltb_lt in E1, E2. lia.
  - unf. facts m. congruence.
  - unf. facts m. rewrite <- (transpose_involutive m) at 1.
    pose proof (all_checks_m (transpose m)) as K. unfold all_checks in K. cbv zeta in K.
    rewrite !andb_true_iff in K. decompose [and] K.
    repeat match goal with H : Bool.eqb _ _ = true |- _ => apply eqb_prop in H end.
    rewrite transpose_involutive in *. congruence.
  - destruct (Nat.eqb da 1 && Nat.eqb db 1); [|reflexivity]. unf. facts m. congruence.
Qed.
Lemma RM_inj a b : RM a = RM b -> a = b.
Proof. intros H. inversion H. reflexivity. Qed.
Ltac impl_tac a b :=
  destruct a; [|congruence]; destruct b; [reflexivity|];
  unfold impb in *; cbn [negb orb andb] in *; congruence.
Lemma within_implies_coveredby_lemma m : go_within (enc_matrix m) = RM true -> go_coveredby (enc_matrix m) = RM true.
Proof.
  unf. facts m. intros E. apply RM_inj in E.
  impl_tac (pmatch_any m tq_within) (pmatch_any m tq_coveredby).
Qed.
Lemma contains_implies_covers_lemma m : go_contains (enc_matrix m) = RM true -> go_covers (enc_matrix m) = RM true.
Proof.
  unf. facts m. intros E. apply RM_inj in E.
  impl_tac (pmatch_any m tq_contains) (pmatch_any m tq_covers).
Qed.
Lemma equals_implies_within_contains_lemma m :
  go_equals (enc_matrix m) false false = RM true ->
  go_within (enc_matrix m) = RM true /\ go_contains (enc_matrix m) = RM true.
Proof.
  unfold go_equals; cbn [andb]. unf. facts m. intros E. apply RM_inj in E.
  destruct (pmatch_any m tq_equals); [|congruence].
  destruct (pmatch_any m tq_within), (pmatch_any m tq_contains); unfold impb in *; cbn [negb orb andb] in *;
    split; congruence.
Qed.
(* dimension rules of Crosses and Overlaps, for all dimensions (not only 0..2) and all byte strings *)
Lemma overlaps_dim_rule_lemma mat da db : da <> db -> go_overlaps mat da db = RM false.
Proof.
  intros H. unfold go_overlaps.
  destruct (Nat.eqb da 0) eqn:A0; destruct (Nat.eqb db 0) eqn:B0; destruct (Nat.eqb da 2) eqn:A2;
    destruct (Nat.eqb db 2) eqn:B2; destruct (Nat.eqb da 1) eqn:A1; destruct (Nat.eqb db 1) eqn:B1; simpl; try reflexivity;
    rewrite ?Nat.eqb_eq in *; lia.
Qed.
Lemma crosses_dim_rule_lemma mat da db : da = db -> da <> 1 -> go_crosses mat da db = RM false.
Proof.
  intros -> H. unfold go_crosses. rewrite Nat.ltb_irrefl.
  destruct (Nat.eqb db 1) eqn:E; [apply Nat.eqb_eq in E; lia | reflexivity].
Qed.
(* the named predicates never fail on a well-formed matrix *)
Lemma preds_no_error_lemma m da db ea eb : ~ In RMErr (go_preds (enc_matrix m) da db ea eb).
Proof.
  unfold go_preds. unfold go_equals, go_crosses, go_overlaps.
  destruct (ea && eb); destruct (Nat.ltb da db); destruct (Nat.ltb db da); destruct (Nat.eqb da 1 && Nat.eqb db 1);
    destruct ((Nat.eqb da 0 && Nat.eqb db 0) || (Nat.eqb da 2 && Nat.eqb db 2)); unf; simpl; intuition discriminate.
Qed.
(* the documented meaning of each pattern list, entry by entry (OGC 06-103r4 6.1.15.3, JTS) *)
Lemma predicates_match_ogc_lemma m :
  go_equals (enc_matrix m) false false = RM (isT (mII m) && isF (mIE m) && isF (mBE m) && isF (mEI m) && isF (mEB m)) /\
  go_disjoint (enc_matrix m) = RM (isF (mII m) && isF (mIB m) && isF (mBI m) && isF (mBB m)) /\
  go_touches (enc_matrix m) = RM (isF (mII m) && (isT (mIB m) || isT (mBI m) || isT (mBB m))) /\
  go_contains (enc_matrix m) = RM (isT (mII m) && isF (mEI m) && isF (mEB m)) /\
  go_covers (enc_matrix m) = RM (m_intersects m && isF (mEI m) && isF (mEB m)) /\
  go_within (enc_matrix m) = RM (isT (mII m) && isF (mIE m) && isF (mBE m)) /\
  go_coveredby (enc_matrix m) = RM (m_intersects m && isF (mIE m) && isF (mBE m)) /\
  (forall da db, da < db -> go_crosses (enc_matrix m) da db = RM (isT (mII m) && isT (mIE m))) /\
  (forall da db, db < da -> go_crosses (enc_matrix m) da db = RM (isT (mII m) && isT (mEI m))) /\
  go_crosses (enc_matrix m) 1 1 = RM (match mII m with D0 => true | _ => false end) /\
  go_overlaps (enc_matrix m) 0 0 = RM (isT (mII m) && isT (mIE m) && isT (mEI m)) /\
  go_overlaps (enc_matrix m) 2 2 = RM (isT (mII m) && isT (mIE m) && isT (mEI m)) /\
  go_overlaps (enc_matrix m) 1 1 = RM ((match mII m with D1 => true | _ => false end) && isT (mIE m) && isT (mEI m)).
Proof.
  facts m. unfold go_equals; cbn [andb].
  repeat split; try (unf; congruence).
  - rewrite disjoint_iff_not_intersects_lemma. f_equal.
    unfold m_intersects, isF. destruct (isT (mII m)), (isT (mIB m)), (isT (mBI m)), (isT (mBB m)); reflexivity.
  - intros da db L. unfold go_crosses. apply Nat.ltb_lt in L. rewrite L. unf. congruence.
  - intros da db L. unfold go_crosses. assert (Nat.ltb da db = false) as -> by (apply Nat.ltb_ge; lia).
    apply Nat.ltb_lt in L. rewrite L. unf. congruence.
  - unfold go_crosses; cbn [Nat.ltb Nat.leb Nat.eqb andb orb]; unf; congruence.
  - unfold go_overlaps; cbn [Nat.ltb Nat.leb Nat.eqb andb orb]; unf; congruence.
  - unfold go_overlaps; cbn [Nat.ltb Nat.leb Nat.eqb andb orb]; unf; congruence.
  - unfold go_overlaps; cbn [Nat.ltb Nat.leb Nat.eqb andb orb]; unf; congruence.
Qed.
