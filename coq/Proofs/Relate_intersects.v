(* C02, last clause: "Disjoint is the negation of Intersects".  geom.Disjoint is decided from the DE-9IM
   matrix of the overlay (alg_relate.go), geom.Intersects by a separate pairwise algorithm
   (alg_intersects.go, Model/Intersects.v).  Both models are characterised over ALL points of Q^2
   (disjoint_iff_no_common_point_lemma by slab-witness sufficiency, intersects_exact by the
   leftmost-hit argument), so the two functions are each other's negation on every pair of operands
   that satisfies the (decidable) validity hypotheses of intersects_exact. *)
From Coq Require Import QArith List Bool.
From SF Require Import Base.GeomAST Base.QKernel Base.Planar Model.Relate Model.Intersects
  Proofs.Planar_slab_base Proofs.RelateMatch_proofs Proofs.Relate_slab_proofs
  Proofs.Intersects_proofs Proofs.Intersects_areal Proofs.Intersects_polypoly.
Import ListNotations.

Lemma rings_closed_of_bool (g : geom) : Intersects.rings_closed g = true -> Planar_slab_base.rings_closed g.
Proof.
  unfold Intersects.rings_closed, Intersects.poly_rings_closed, Planar_slab_base.rings_closed.
  intros H y Hy r Hr. rewrite forallb_forall in H. specialize (H y Hy).
  rewrite forallb_forall in H. exact (H r Hr).
Qed.

Lemma operand_ok_rings_closed (g : geom) : operand_ok g -> Planar_slab_base.rings_closed g.
Proof. intros [_ [C _]]. apply rings_closed_of_bool. exact C. Qed.

(* the matrix-level "intersects" flag of Relate's own matrix is the answer of the Intersects algorithm *)
Lemma m_intersects_relate_is_intersects (a b : geom) : operand_ok a -> operand_ok b ->
  m_intersects (relate a b) = intersects a b.
Proof.
  intros Ha Hb.
  pose proof (disjoint_iff_no_common_point_lemma a b (operand_ok_rings_closed a Ha) (operand_ok_rings_closed b Hb)) as D.
  rewrite disjoint_iff_not_intersects_lemma in D.
  destruct (intersects_exact a b Ha Hb) as [I _].
  destruct (m_intersects (relate a b)) eqn:M; destruct (intersects a b) eqn:X; try reflexivity; exfalso.
  - (* matrix says intersecting, algorithm says no: then no common point, so the matrix flag is false *)
    assert (N : forall p, ~ (inG a p = true /\ inG b p = true)).
    { intros p Hp. assert (T : false = true); [apply I; exists p; exact Hp | discriminate]. }
    apply D in N. simpl in N. discriminate.
  - (* algorithm says intersecting: a common point exists, contradicting the matrix *)
    destruct (proj1 I eq_refl) as [p Hp].
    assert (T : RM (negb false) = RM true) by reflexivity.
    exact (proj1 D T p Hp).
Qed.

Lemma disjoint_is_not_intersects_lemma (a b : geom) : operand_ok a -> operand_ok b ->
  go_disjoint (enc_matrix (relate a b)) = RM (negb (intersects a b)).
Proof.
  intros Ha Hb. rewrite disjoint_iff_not_intersects_lemma, (m_intersects_relate_is_intersects a b Ha Hb). reflexivity.
Qed.

(* executable hypotheses *)
Lemma disjoint_is_not_intersects_exec (a b : geom) : operand_okb a = true -> operand_okb b = true ->
  go_disjoint (enc_matrix (relate a b)) = RM (negb (intersects a b)).
Proof. intros Ha Hb. apply disjoint_is_not_intersects_lemma; apply operand_okb_sound; assumption. Qed.

(* Disjoint is symmetric, through the symmetry of the Intersects algorithm (no transposition argument needed) *)
Lemma disjoint_sym_via_intersects (a b : geom) : operand_ok a -> operand_ok b ->
  go_disjoint (enc_matrix (relate a b)) = go_disjoint (enc_matrix (relate b a)).
Proof.
  intros Ha Hb. rewrite (disjoint_is_not_intersects_lemma a b Ha Hb), (disjoint_is_not_intersects_lemma b a Hb Ha).
  rewrite (Intersects_proofs.intersects_sym a b). reflexivity.
Qed.
