(* Lemmas of property C02, layers (b) and (c): transposition of the whole model, the closed form
   for empty operands, transparency of empty collection members (F8). *)
From Coq Require Import QArith List Bool ZArith NArith Lia.
From SF Require Import Base.GeomAST Base.QKernel Base.Planar Proofs.Planar_proofs Model.RelatePatterns Model.Relate.
Import ListNotations.
Local Close Scope Q_scope.
Local Open Scope nat_scope.
Local Open Scope list_scope.


Lemma transpose_invol m : transpose (transpose m) = m.
Proof. destruct m; reflexivity. Qed.

(* ---------------- Relate(b,a) is the transpose of Relate(a,b), for the whole model *)
Lemma relate_with_transpose dimf a b : relate_with dimf b a = transpose (relate_with dimf a b).
Proof.
  unfold relate_with. rewrite (orb_comm (is_empty b)).
  destruct (is_empty a) eqn:Ea; destruct (is_empty b) eqn:Eb; simpl.
  - unfold relate_empty_branch. rewrite Ea, Eb. reflexivity.
  - unfold relate_empty_branch. rewrite Ea, Eb. simpl. reflexivity.
  - unfold relate_empty_branch. rewrite Ea, Eb. simpl. rewrite transpose_invol. reflexivity.
  - apply de9im_ref_transpose.
Qed.

(* ---------------- the closed form for an empty operand *)
Lemma relate_both_empty dimf a b : is_empty a = true -> is_empty b = true ->
  relate_with dimf a b = m_all_F_but_EE.
Proof. intros Ea Eb. unfold relate_with, relate_empty_branch. rewrite Ea, Eb. reflexivity. Qed.

(* nothing meets the interior or boundary of an empty operand; the two exteriors always meet in an area *)
Lemma relate_empty_right dimf a b : is_empty b = true ->
  forall l, mget (relate_with dimf a b) l Interior = DF /\ mget (relate_with dimf a b) l Boundary = DF.
Proof.
  intros Eb l. unfold relate_with, relate_empty_branch. rewrite Eb, orb_true_r, andb_true_r.
  destruct (is_empty a); [destruct l; split; reflexivity|].
  destruct (dimf a) as [|[|[|n]]]; destruct l; split; try reflexivity.
Qed.
Lemma relate_empty_EE dimf a b : is_empty a || is_empty b = true -> mEE (relate_with dimf a b) = D2.
Proof.
  intros E. unfold relate_with, relate_empty_branch. rewrite E.
  destruct (is_empty a && is_empty b); [reflexivity|].
  destruct (is_empty b); destruct (dimf _) as [|[|[|n]]]; reflexivity.
Qed.

(* ---------------- the parts of an empty geometry *)
Lemma empty_parts g : is_empty g = true ->
  g_points g = [] /\ (forall l, In l (g_lines g) -> line_vs l = []) /\ (forall y, In y (g_polys g) -> poly_rings y = []).
Proof.
  induction g using geomT_ind'; simpl; intros E.
  - unfold point_empty in E. unfold point_pts. destruct (point_c p); [discriminate|].
    split; [reflexivity|]. split; intros ? [].
  - unfold line_empty in E. split; [reflexivity|]. split; [|intros ? []].
    intros l9 [<-|[]]. destruct (line_vs l); [reflexivity | discriminate].
  - unfold poly_empty in E. split; [reflexivity|]. split; [intros ? []|].
    intros y [<-|[]]. destruct (poly_rings p); [reflexivity | discriminate].
  - split; [|split; intros ? []]. induction ps as [|q qs IH]; simpl; auto. simpl in E. apply andb_true_iff in E.
    destruct E as [E1 E2]. rewrite IH by exact E2. unfold point_empty in E1. unfold point_pts. destruct (point_c q); [discriminate | reflexivity].
  - split; [reflexivity|]. split; [|intros ? []]. intros l Hl. rewrite forallb_forall in E. specialize (E l Hl).
    unfold line_empty in E. destruct (line_vs l); [reflexivity | discriminate].
  - split; [reflexivity|]. split; [intros ? []|]. intros y Hy. rewrite forallb_forall in E. specialize (E y Hy).
    unfold poly_empty in E. destruct (poly_rings y); [reflexivity | discriminate].
  - induction H as [|g gs Hg Hgs IH]; simpl.
    + split; [reflexivity|]. split; intros ? [].
    + simpl in E. apply andb_true_iff in E. destruct E as [E1 E2].
      destruct (Hg E1) as [P1 [L1 Y1]]. destruct (IH E2) as [P2 [L2 Y2]].
      rewrite P1, P2. split; [reflexivity|]. split.
      * intros l Hl. apply in_app_or in Hl. destruct Hl; auto.
      * intros y Hy. apply in_app_or in Hy. destruct Hy; auto.
Qed.

Lemma flat_map_nil {A B} (f : A -> list B) l : (forall x, In x l -> f x = []) -> flat_map f l = [].
Proof. induction l; simpl; auto. intros H. rewrite (H a) by auto. rewrite IHl; auto. Qed.
Lemma existsb_false {A} (f : A -> bool) l : (forall x, In x l -> f x = false) -> existsb f l = false.
Proof. induction l; simpl; auto. intros H. rewrite (H a) by auto. rewrite IHl; auto. Qed.

Lemma empty_line_facts l : line_vs l = [] -> line_segs l = [] /\ line_ends l = [].
Proof. intros E. unfold line_segs, line_ends, line_pts. rewrite E. split; reflexivity. Qed.
Lemma empty_poly_facts y : poly_rings y = [] -> poly_ring_segs y = [].
Proof. intros E. unfold poly_ring_segs. rewrite E. reflexivity. Qed.

Lemma empty_arr g : is_empty g = true -> arr_segments g = [] /\ arr_points g = [].
Proof.
  intros E. destruct (empty_parts g E) as [P [L Y]]. unfold arr_segments, arr_points. split; [|exact P].
  rewrite (flat_map_nil _ (g_polys g)), (flat_map_nil _ (g_lines g)); auto.
  - intros l Hl. apply empty_line_facts. auto.
  - intros y Hy. rewrite (empty_poly_facts y) by auto. reflexivity.
Qed.

(* every point is exterior to an empty geometry *)
Lemma locate_empty g p : is_empty g = true -> locate g p = Exterior.
Proof.
  intros E. destruct (empty_parts g E) as [P [L Y]].
  unfold locate, locate_p, prep; cbn [pg_polys pg_lines pg_ends pg_points].
  rewrite !existsb_map, P.
  rewrite (existsb_false (fun y => rings_interior (poly_ring_segs y) p)), (existsb_false (fun y => rings_boundary (poly_ring_segs y) p)),
    (existsb_false (fun l => on_edges (line_segs l) p)); auto.
  - intros l Hl. destruct (empty_line_facts l (L l Hl)) as [-> _]. reflexivity.
  - intros y Hy. rewrite (empty_poly_facts y (Y y Hy)). reflexivity.
  - intros y Hy. rewrite (empty_poly_facts y (Y y Hy)). reflexivity.
Qed.

(* the definitional matrix, too, has nothing in the columns of an empty second operand *)
Lemma de9im_ref_empty_right a b l : is_empty b = true ->
  mget (de9im_ref a b) l Interior = DF /\ mget (de9im_ref a b) l Boundary = DF.
Proof.
  intros E. split.
  - destruct (mget (de9im_ref a b) l Interior) eqn:M; auto;
      (assert (N : mget (de9im_ref a b) l Interior <> DF) by congruence;
       destruct (de9im_ref_entry_witnessed a b l Interior N) as [w [_ [_ Hb]]];
       rewrite (locate_empty b w E) in Hb; discriminate).
  - destruct (mget (de9im_ref a b) l Boundary) eqn:M; auto;
      (assert (N : mget (de9im_ref a b) l Boundary <> DF) by congruence;
       destruct (de9im_ref_entry_witnessed a b l Boundary N) as [w [_ [_ Hb]]];
       rewrite (locate_empty b w E) in Hb; discriminate).
Qed.


(* everything Relate and the predicates consult about an operand *)
Definition same_sig (g g' : geom) : Prop :=
  is_empty g = is_empty g' /\ dimension_ie g = dimension_ie g' /\ boundary_empty g = boundary_empty g' /\
  arr_segments g = arr_segments g' /\ arr_points g = arr_points g' /\ (forall p, locate g p = locate g' p).

Lemma relate_same_sig g g' h : same_sig g g' -> relate g h = relate g' h.
Proof.
  intros [E [D [B [S [P L]]]]]. unfold relate, relate_with. rewrite E.
  destruct (is_empty g' || is_empty h) eqn:Em.
  - unfold relate_empty_branch. rewrite E. destruct (is_empty g' && is_empty h); [reflexivity|].
    destruct (is_empty h); [rewrite D, B; reflexivity | reflexivity].
  - unfold de9im_ref, pair_witnesses. rewrite S, P. f_equal. unfold classify.
    apply map_ext. intros w. fold (locate g (fst w)). fold (locate g' (fst w)). rewrite L. reflexivity.
Qed.
Lemma preds_same_sig g g' h : same_sig g g' -> preds g h = preds g' h.
Proof.
  intros H. unfold preds, preds_with. fold (relate g h). fold (relate g' h).
  rewrite (relate_same_sig g g' h H). destruct H as [E [D _]]. rewrite E, D. reflexivity.
Qed.

Lemma empty_dim_ie g : is_empty g = true -> dimension_ie g = 0.
Proof.
  induction g using geomT_ind'; intros E; try (simpl in *; rewrite E; reflexivity).
  simpl in *. induction H as [|g gs Hg Hgs IH]; simpl; auto.
  simpl in E. apply andb_true_iff in E. destruct E as [E1 E2]. rewrite (Hg E1), (IH E2). reflexivity.
Qed.
Lemma empty_boundary_empty g : is_empty g = true -> boundary_empty g = true.
Proof.
  induction g using geomT_ind'; intros E; simpl in *; auto.
  - unfold line_empty in E. unfold line_pts. destruct (line_vs l); [reflexivity | discriminate].
  - unfold poly_empty in E. destruct (poly_rings p); [reflexivity | discriminate].
  - unfold mline_boundary_empty. rewrite (flat_map_nil (@line_ends) ls); [reflexivity|].
    intros l Hl. rewrite forallb_forall in E. specialize (E l Hl). unfold line_empty in E.
    apply empty_line_facts. destruct (line_vs l); [reflexivity | discriminate].
  - apply forallb_forall. intros y Hy. rewrite forallb_forall in E. specialize (E y Hy).
    unfold poly_empty in E. destruct (poly_rings y); [reflexivity | discriminate].
  - rewrite E. reflexivity.
Qed.

(* ---- a collection with an empty member inserted anywhere *)
Section Insert.
  Variable ct : ctype.
  Variables gs1 gs2 : list geom.
  Variable e : geom.
  Hypothesis He : is_empty e = true.
  Let G' := GColl ct (gs1 ++ e :: gs2).
  Let G := GColl ct (gs1 ++ gs2).

  Lemma ins_points : g_points G' = g_points G.
  Proof.
    unfold G', G; simpl. rewrite !flat_map_app. simpl. destruct (empty_parts e He) as [-> _]. reflexivity.
  Qed.
  Lemma ins_lines : g_lines G' = flat_map g_lines gs1 ++ g_lines e ++ flat_map g_lines gs2 /\
                    g_lines G = flat_map g_lines gs1 ++ flat_map g_lines gs2.
  Proof. unfold G', G; simpl. rewrite !flat_map_app. simpl. auto. Qed.
  Lemma ins_polys : g_polys G' = flat_map g_polys gs1 ++ g_polys e ++ flat_map g_polys gs2 /\
                    g_polys G = flat_map g_polys gs1 ++ flat_map g_polys gs2.
  Proof. unfold G', G; simpl. rewrite !flat_map_app. simpl. auto. Qed.

  Lemma ins_same_sig : same_sig G' G.
  Proof.
    destruct (empty_parts e He) as [P [L Y]].
    destruct ins_lines as [L1 L2]. destruct ins_polys as [Y1 Y2].
    assert (FL : forall {B} (f : lineT Q -> list B), (forall l, line_vs l = [] -> f l = []) -> flat_map f (g_lines e) = []).
    { intros B f Hf. apply flat_map_nil. intros l Hl. apply Hf. auto. }
    assert (FY : forall {B} (f : polyT Q -> list B), (forall y, poly_rings y = [] -> f y = []) -> flat_map f (g_polys e) = []).
    { intros B f Hf. apply flat_map_nil. intros y Hy. apply Hf. auto. }
    split; [|split; [|split; [|split; [|split]]]].
    - unfold G', G; simpl. rewrite !forallb_app. simpl. rewrite He. reflexivity.
    - unfold G', G; simpl. clear L1 L2 Y1 Y2. induction gs1 as [|x xs IH]; simpl.
      + rewrite (empty_dim_ie e He). reflexivity.
      + rewrite IH. reflexivity.
    - unfold G', G; simpl. rewrite !forallb_app. simpl. rewrite He, (empty_boundary_empty e He). reflexivity.
    - unfold arr_segments. rewrite L1, L2, Y1, Y2, !flat_map_app.
      rewrite (FL _ line_segs), (FY _ (fun y => List.concat (poly_ring_segs y))); [reflexivity| |].
      + intros y Hy. rewrite (empty_poly_facts y Hy). reflexivity.
      + intros l Hl. apply empty_line_facts. exact Hl.
    - unfold arr_points. apply ins_points.
    - intros p. unfold locate, locate_p, prep; cbn [pg_polys pg_lines pg_ends pg_points].
      rewrite ins_points, L1, L2, Y1, Y2, !map_app, !existsb_app, !flat_map_app.
      rewrite (FL _ (@line_ends)) by (intros l Hl; apply empty_line_facts; exact Hl).
      rewrite !existsb_map.
      rewrite (existsb_false (fun y => rings_interior (poly_ring_segs y) p) (g_polys e)),
        (existsb_false (fun y => rings_boundary (poly_ring_segs y) p) (g_polys e)),
        (existsb_false (fun l => on_edges (line_segs l) p) (g_lines e)).
      + simpl. reflexivity.
      + intros l Hl. destruct (empty_line_facts l (L l Hl)) as [-> _]. reflexivity.
      + intros y Hy. rewrite (empty_poly_facts y (Y y Hy)). reflexivity.
      + intros y Hy. rewrite (empty_poly_facts y (Y y Hy)). reflexivity.
  Qed.
End Insert.

(* ---- a collection with a single member is that member *)
Lemma singleton_same_sig ct g : same_sig (GColl ct [g]) g.
Proof.
  split; [|split; [|split; [|split; [|split]]]].
  - simpl. apply andb_true_r.
  - destruct g; simpl; try apply Nat.max_0_r.
  - simpl. rewrite !andb_true_r. destruct (is_empty g) eqn:E; [|reflexivity].
    symmetry. apply empty_boundary_empty. exact E.
  - unfold arr_segments. simpl. rewrite !app_nil_r. reflexivity.
  - unfold arr_points. simpl. apply app_nil_r.
  - intros p. unfold locate, prep. simpl. rewrite !app_nil_r. reflexivity.
Qed.

(* the empty-member transparency theorem over the repaired model (F8) *)
Lemma relate_empty_member_transparent_lemma ct gs1 e gs2 h :
  is_empty e = true ->
  relate (GColl ct (gs1 ++ e :: gs2)) h = relate (GColl ct (gs1 ++ gs2)) h /\
  relate h (GColl ct (gs1 ++ e :: gs2)) = relate h (GColl ct (gs1 ++ gs2)) /\
  preds (GColl ct (gs1 ++ e :: gs2)) h = preds (GColl ct (gs1 ++ gs2)) h.
Proof.
  intros He. pose proof (ins_same_sig ct gs1 gs2 e He) as S.
  split; [|split].
  - apply relate_same_sig. exact S.
  - unfold relate. rewrite (relate_with_transpose dimension_ie (GColl ct (gs1 ++ e :: gs2)) h).
    rewrite (relate_with_transpose dimension_ie (GColl ct (gs1 ++ gs2)) h). f_equal.
    apply relate_same_sig. exact S.
  - apply preds_same_sig. exact S.
Qed.
Lemma relate_singleton_collection_lemma ct g h :
  relate (GColl ct [g]) h = relate g h /\ preds (GColl ct [g]) h = preds g h.
Proof. split; [apply relate_same_sig | apply preds_same_sig]; apply singleton_same_sig. Qed.

(* the pinned code violates it (F8): POINT(1 1) with a POLYGON EMPTY sibling against POINT EMPTY;
   LINESTRING(0 0,2 2) with a POLYGON EMPTY sibling against LINESTRING(1 1,3 3) (Overlaps) *)
Definition vq (x y : Z) : vtx Q := Build_vtx (inject_Z x) (inject_Z y) (inject_Z 0) (inject_Z 0).
Definition f8_g : geom := GPoint (MkPoint XY (Some (vq 1 1))).
Definition f8_e : geom := GPoly (MkPoly XY []).
Definition f8_h : geom := GPoint (MkPoint XY None).
Definition f8_l1 : geom := GLine (MkLine XY [vq 0 0; vq 2 2]).
Definition f8_l2 : geom := GLine (MkLine XY [vq 1 1; vq 3 3]).
Lemma relate_empty_member_refuted_lemma :
  exists ct gs1 e gs2 h, is_empty e = true /\
    relate_unfixed (GColl ct (gs1 ++ e :: gs2)) h <> relate_unfixed (GColl ct (gs1 ++ gs2)) h.
Proof.
  exists XY, [f8_g], f8_e, [], f8_h. split; [reflexivity|]. vm_compute. discriminate.
Qed.
Lemma preds_empty_member_refuted_lemma :
  exists ct gs1 e gs2 h, is_empty e = true /\
    preds_unfixed (GColl ct (gs1 ++ e :: gs2)) h <> preds_unfixed (GColl ct (gs1 ++ gs2)) h.
Proof.
  exists XY, [f8_l1], f8_e, [], f8_l2. split; [reflexivity|]. vm_compute. discriminate.
Qed.
