(* Property C02, layer (c): consequences of the sufficiency of the slab witnesses (Proofs/Planar_slab*.v)
   for the model's Relate and Disjoint. *)
From Coq Require Import QArith List Bool ZArith NArith Lia.
From SF Require Import Base.GeomAST Base.QKernel Base.Planar Proofs.Planar_proofs
  Proofs.Planar_slab_base Proofs.Planar_slab Proofs.Planar_slab_dim
  Model.RelatePatterns Model.Relate Proofs.RelateMatch_proofs Proofs.Relate_proofs.
Import ListNotations.
Local Close Scope Q_scope.
Local Open Scope nat_scope.
Local Open Scope list_scope.

Lemma relate_nonempty a b : is_empty a = false -> is_empty b = false -> relate a b = de9im_ref a b.
Proof. intros Ea Eb. unfold relate, relate_with. rewrite Ea, Eb. reflexivity. Qed.

Lemma inG_iff_IB g p : inG g p = true <-> (locate g p = Interior \/ locate g p = Boundary).
Proof. rewrite inG_locate. destruct (locate g p); split; intros H; try tauto; try congruence; destruct H; congruence. Qed.

Lemma m_intersects_iff m : m_intersects m = true <->
  exists la lb, (la = Interior \/ la = Boundary) /\ (lb = Interior \/ lb = Boundary) /\ mget m la lb <> DF.
Proof.
  unfold m_intersects. rewrite !orb_true_iff. split.
  - intros [[[H|H]|H]|H]; [exists Interior, Interior | exists Interior, Boundary | exists Boundary, Interior | exists Boundary, Boundary];
      (split; [auto|]; split; [auto|]); simpl; destruct m; simpl in *; intros E; rewrite E in H; discriminate.
  - intros [la [lb [[->| ->] [[->| ->] H]]]]; simpl in H.
    + left. left. left. destruct (mII m); simpl; congruence.
    + left. left. right. destruct (mIB m); simpl; congruence.
    + left. right. destruct (mBI m); simpl; congruence.
    + right. destruct (mBB m); simpl; congruence.
Qed.

(* Disjoint(a,b) of the model is true iff the two point sets have no common point - for ALL pairs of
   geometries with closed rings, empty operands included *)
Lemma disjoint_iff_no_common_point_lemma a b : rings_closed a -> rings_closed b ->
  (go_disjoint (enc_matrix (relate a b)) = RM true <-> forall p, ~ (inG a p = true /\ inG b p = true)).
Proof.
  intros Ra Rb. rewrite disjoint_iff_not_intersects_lemma.
  assert (X : RM (negb (m_intersects (relate a b))) = RM true <-> m_intersects (relate a b) = false).
  { destruct (m_intersects (relate a b)); simpl; split; intros H; congruence. }
  rewrite X. clear X.
  destruct (is_empty a) eqn:Ea; [|destruct (is_empty b) eqn:Eb].
  - split.
    + intros _ p [H _]. apply inG_locate in H. apply H. apply locate_empty. exact Ea.
    + intros _. unfold relate, relate_with, relate_empty_branch. rewrite Ea. simpl.
      destruct (is_empty b); [reflexivity|]. destruct (dimension_ie b) as [|[|[|n]]]; reflexivity.
  - split.
    + intros _ p [_ H]. apply inG_locate in H. apply H. apply locate_empty. exact Eb.
    + intros _. unfold relate, relate_with, relate_empty_branch. rewrite Ea, Eb. simpl.
      destruct (dimension_ie a) as [|[|[|n]]]; reflexivity.
  - rewrite (relate_nonempty a b Ea Eb). split.
    + intros H p [Ha Hb]. apply inG_iff_IB in Ha, Hb.
      assert (T : m_intersects (de9im_ref a b) = true); [|congruence].
      apply m_intersects_iff. exists (locate a p), (locate b p). split; [exact Ha|]. split; [exact Hb|].
      apply (de9im_ref_sufficient a b _ _ Ra Rb). exists p. auto.
    + intros H. destruct (m_intersects (de9im_ref a b)) eqn:T; [|reflexivity]. exfalso.
      apply m_intersects_iff in T. destruct T as [la [lb [Ha [Hb N]]]].
      apply (de9im_ref_sufficient a b la lb Ra Rb) in N. destruct N as [p [H1 H2]].
      apply (H p). split; apply inG_iff_IB; [rewrite H1; exact Ha | rewrite H2; exact Hb].
Qed.
