(* Property C01, lemmas about the arrangement structures of Model/SetOpSpec.v:
   - every point named by the incidence annotation of a witness is itself a witness of the same
     arrangement (the closure test only ever consults cells of the arrangement);
   - the slab cells have non-negative areas (events and slab heights are strictly increasing), hence
     the exact area functional is non-negative and monotone. *)
From Coq Require Import QArith Qreduction List Bool ZArith Lia Lqa.
From SF Require Import Base.GeomAST Base.QKernel Base.Planar Proofs.Planar_proofs Model.SetOpSpec Proofs.SetOpSpec_proofs.
Import ListNotations.
Open Scope Q_scope.

Lemma flat_map_spanning L xm :
  flat_map (fun s => if seg_vertical s then []
                     else if (qltb (fst (fst s)) xm && qltb xm (fst (snd s))) || (qltb (fst (snd s)) xm && qltb xm (fst (fst s)))
                          then [seg_y_at s xm] else []) L
  = map (fun s => seg_y_at s xm) (spanning L xm).
Proof.
  induction L as [|s L IH]; [reflexivity|]. simpl. unfold spans at 1.
  destruct (seg_vertical s); simpl; [exact IH|].
  destruct ((qltb (fst (fst s)) xm && qltb xm (fst (snd s))) || (qltb (fst (snd s)) xm && qltb xm (fst (fst s)))); simpl; rewrite IH; reflexivity.
Qed.
Lemma pinsert_fst x l : map fst (pinsert x l) = qinsert (fst x) (map fst l).
Proof.
  induction l as [|y r IH]; [reflexivity|]. simpl. destruct (fst x ?= fst y); simpl; try reflexivity.
  rewrite IH. reflexivity.
Qed.
Lemma fold_pinsert_fst l : map fst (fold_right pinsert [] l) = fold_right qinsert [] (map fst l).
Proof. induction l as [|x l IH]; [reflexivity|]. simpl. rewrite pinsert_fst, IH. reflexivity. Qed.
(* the pairs used for the incidence are laid out exactly as the slab's column *)
Lemma slab_pairs_fst L xm xe : map fst (slab_pairs L xm xe) = slab_heights L xm.
Proof.
  unfold slab_pairs, slab_heights, qsort. rewrite fold_pinsert_fst, map_map. cbn [fst].
  rewrite flat_map_spanning. reflexivity.
Qed.

Definition in_col (q : pt) (col : list (pt * dimv)) : Prop := exists d, In (q, d) col.

Lemma gaps_between_tail x y ys mid q :
  in_col q (gaps_between x ys mid) -> in_col q (gaps_between x (y :: ys) mid).
Proof.
  intros (d & H). destruct ys as [|y2 r]; [destruct H|]. exists d. right. exact H.
Qed.

Lemma col_adj_spec x (mid : Q -> Q -> dimv) ys : forall below e d0,
  In e (col_adj x below ys) ->
  (fst (snd e) = below \/ in_col (fst (snd e)) (gaps_between x ys mid)) /\
  (snd (snd e) = (x, Qred (last ys d0 + 1)) \/ in_col (snd (snd e)) (gaps_between x ys mid)).
Proof.
  induction ys as [|y r IH]; intros below e d0 H; [destruct H|].
  destruct r as [|y2 r'].
  - simpl in H. destruct H as [<-|[]]. simpl. split; left; reflexivity.
  - change (col_adj x below (y :: y2 :: r')) with ((y, (below, (x, qmid y y2))) :: col_adj x (x, qmid y y2) (y2 :: r')) in H.
    destruct H as [<-|H].
    + cbn [fst snd]. split; [left; reflexivity|]. right. exists (mid y y2). left. reflexivity.
    + destruct (IH (x, qmid y y2) e d0 H) as [H1 H2]. split.
      * right. destruct H1 as [->|H1]; [exists (mid y y2); left; reflexivity|]. apply gaps_between_tail. exact H1.
      * destruct H2 as [->|H2]; [left; reflexivity|]. right. apply gaps_between_tail. exact H2.
Qed.

(* neighbours named by an annotated column: in the column itself, or among [extra] *)
Lemma column_nb_nb x ys at_y mid extra w q :
  In w (column_nb x ys at_y mid extra) -> In q (wnb w) ->
  in_col q (column x ys at_y mid) \/ In q (extra (snd (wpt w))).
Proof.
  unfold column_nb, column. destruct ys as [|y1 r].
  - intros [<-|[]] Hq. right. exact Hq.
  - intros [<-|[<-|H]] Hq; [right; exact Hq|right; exact Hq|].
    apply in_app_or in H as [H|H].
    + apply in_map_iff in H as (e & <- & He). cbn [wnb wpt snd fst] in *.
      destruct (col_adj_spec x mid (y1 :: r) _ e y1 He) as [H1 H2].
      destruct Hq as [<-|[<-|Hq]]; [| |right; exact Hq]; left.
      * destruct H1 as [->|(d & H1)]; [exists D2; left; reflexivity|].
        exists d. right. right. apply in_or_app. right. exact H1.
      * destruct H2 as [->|(d & H2)]; [exists D2; right; left; reflexivity|].
        exists d. right. right. apply in_or_app. right. exact H2.
    + apply in_map_iff in H as (g & <- & Hg). cbn [wnb wpt snd fst] in *. right. exact Hq.
Qed.

Lemma inc_gaps_in_column xm y at_y mid prs q d0 :
  In q (inc_gaps xm y prs) ->
  in_col q (map (fun h => ((xm, h), at_y h)) (map fst prs) ++ gaps_between xm (map fst prs) mid)
  \/ (prs <> [] /\ q = (xm, Qred (last (map fst prs) d0 + 1))).
Proof.
  induction prs as [|p1 r IH]; [intros []|].
  destruct r as [|p2 r'].
  - simpl. intros H. apply in_app_or in H as [H|H].
    + destruct (Qeq_bool (snd p1) y); [|destruct H]. destruct H as [<-|[]]. left. exists (at_y (fst p1)). left. reflexivity.
    + destruct (Qle_bool (snd p1) y); [|destruct H]. destruct H as [<-|[]]. right. split; [discriminate|reflexivity].
  - change (inc_gaps xm y (p1 :: p2 :: r')) with
      ((if Qeq_bool (snd p1) y then [(xm, fst p1)] else []) ++
       (if Qle_bool (snd p1) y && Qle_bool y (snd p2) then [(xm, qmid (fst p1) (fst p2))] else []) ++
       inc_gaps xm y (p2 :: r')).
    intros H. apply in_app_or in H as [H|H]; [|apply in_app_or in H as [H|H]].
    + destruct (Qeq_bool (snd p1) y); [|destruct H]. destruct H as [<-|[]]. left. exists (at_y (fst p1)). left. reflexivity.
    + destruct (Qle_bool (snd p1) y && Qle_bool y (snd p2)); [|destruct H]. destruct H as [<-|[]].
      left. exists (mid (fst p1) (fst p2)). apply in_or_app. right. left. reflexivity.
    + destruct (IH H) as [(d & Hd)|[_ ->]].
      * left. exists d. apply in_app_or in Hd as [Hd|Hd]; apply in_or_app.
        -- left. right. exact Hd.
        -- right. right. exact Hd.
      * right. split; [discriminate|]. reflexivity.
Qed.

Lemma inc_of_pairs_in_column xm prs y at_y mid q :
  In q (inc_of_pairs xm prs y) -> in_col q (column xm (map fst prs) at_y mid).
Proof.
  unfold inc_of_pairs, column. destruct prs as [|p1 r].
  - intros [<-|[]]. exists D2. left. reflexivity.
  - intros H. apply in_app_or in H as [H|H].
    + destruct (Qle_bool y (snd p1)); [|destruct H]. destruct H as [<-|[]]. exists D2. left. reflexivity.
    + destruct (inc_gaps_in_column xm y at_y mid (p1 :: r) q (fst p1) H) as [(d & Hd)|[_ ->]].
      * exists d. right. right. exact Hd.
      * exists D2. right. left. reflexivity.
Qed.

(* the cells of an adjacent slab named as incident to a point of an event line are witnesses of
   that slab *)
Lemma slab_incident_in_slab L x0 x1 xe y q :
  In q (slab_incident L (qmid x0 x1) xe y) -> in_col q (slab_witnesses L x0 x1).
Proof.
  unfold slab_incident, slab_witnesses. intros H.
  rewrite <- (slab_pairs_fst L (qmid x0 x1) xe). eapply inc_of_pairs_in_column. exact H.
Qed.

Lemma events_nb_nb L V wr (ALL : list (pt * dimv)) : forall xs left,
  (forall y q, In q (left y) -> in_col q ALL) -> in_col wr ALL ->
  incl (slabs_between L xs) ALL -> incl (flat_map (event_witnesses L V) xs) ALL ->
  forall w q, In w (events_nb L V left wr xs) -> In q (wnb w) -> in_col q ALL.
Proof.
  induction xs as [|x r IH]; intros left Hl Hr Hs He w q Hw Hq; [destruct Hw|].
  destruct r as [|x2 r'].
  - simpl in Hw. destruct (column_nb_nb _ _ _ _ _ _ _ Hw Hq) as [(d & Hd)|Hx].
    + exists d. apply He. simpl. apply in_or_app. left. exact Hd.
    + apply in_app_or in Hx as [Hx|[<-|[]]]; [eapply Hl; exact Hx|exact Hr].
  - change (events_nb L V left wr (x :: x2 :: r')) with
      (event_witnesses_nb L V x (fun y => left y ++ slab_incident L (qmid x x2) x y)
       ++ events_nb L V (slab_incident L (qmid x x2) x2) wr (x2 :: r')) in Hw.
    assert (Hslab : forall xe y q, In q (slab_incident L (qmid x x2) xe y) -> in_col q ALL).
    { intros xe y q' H. destruct (slab_incident_in_slab _ _ _ _ _ _ H) as (d & Hd). exists d. apply Hs.
      change (slabs_between L (x :: x2 :: r')) with (slab_witnesses L x x2 ++ slabs_between L (x2 :: r')).
      apply in_or_app. left. exact Hd. }
    apply in_app_or in Hw as [Hw|Hw].
    + destruct (column_nb_nb _ _ _ _ _ _ _ Hw Hq) as [(d & Hd)|Hx].
      * exists d. apply He. simpl. apply in_or_app. left. exact Hd.
      * apply in_app_or in Hx as [Hx|Hx]; [eapply Hl; exact Hx|eapply Hslab; exact Hx].
    + apply (IH (slab_incident L (qmid x x2) x2)) with (w := w); auto.
      * intros y q' H. eapply Hslab. exact H.
      * intros z Hz. apply Hs.
        change (slabs_between L (x :: x2 :: r')) with (slab_witnesses L x x2 ++ slabs_between L (x2 :: r')).
        apply in_or_app. right. exact Hz.
      * intros z Hz. apply He. simpl. apply in_or_app. right. exact Hz.
Qed.

Lemma slabs_between_nb_nb L : forall xs w q,
  In w (slabs_between_nb L xs) -> In q (wnb w) -> in_col q (slabs_between L xs).
Proof.
  induction xs as [|x0 r IH]; intros w q Hw Hq; [destruct Hw|].
  destruct r as [|x1 r']; [destruct Hw|].
  change (slabs_between_nb L (x0 :: x1 :: r')) with (slab_witnesses_nb L x0 x1 ++ slabs_between_nb L (x1 :: r')) in Hw.
  change (slabs_between L (x0 :: x1 :: r')) with (slab_witnesses L x0 x1 ++ slabs_between L (x1 :: r')).
  apply in_app_or in Hw as [Hw|Hw].
  - destruct (column_nb_nb _ _ _ _ _ _ _ Hw Hq) as [(d & Hd)|[]]. exists d. apply in_or_app. left. exact Hd.
  - destruct (IH w q Hw Hq) as (d & Hd). exists d. apply in_or_app. right. exact Hd.
Qed.

(* every neighbour named by the incidence annotation is a witness of the same arrangement *)
Theorem wnb_are_witnesses_lemma L P w q :
  In w (witnesses_nb L P) -> In q (wnb w) -> exists d, In (q, d) (witnesses L P).
Proof.
  unfold witnesses_nb, wits_of, witnesses.
  destruct (events (vertex_set L P)) as [|x0 r] eqn:E.
  - intros [<-|[]] [].
  - set (xs := x0 :: r).
    intros [<-|[<-|Hw]] Hq; [destruct Hq|destruct Hq|].
    apply in_app_or in Hw as [Hw|Hw].
    + eapply (events_nb_nb L (vertex_set L P) _ _ xs (fun _ => [(Qred (x0 - 1), 0)])); eauto.
      * intros y q' [<-|[]]. exists D2. left. reflexivity.
      * exists D2. right. left. reflexivity.
      * intros z Hz. right. right. apply in_or_app. right. exact Hz.
      * intros z Hz. right. right. apply in_or_app. left. exact Hz.
    + destruct (slabs_between_nb_nb L xs w q Hw Hq) as (d & Hd). exists d. right. right. apply in_or_app. right. exact Hd.
Qed.

(* qsort produces a strictly increasing list *)
Inductive qsorted : list Q -> Prop :=
| qs_nil : qsorted []
| qs_one x : qsorted [x]
| qs_cons x y r : x < y -> qsorted (y :: r) -> qsorted (x :: y :: r).

Lemma qinsert_sorted x l : qsorted l -> qsorted (qinsert x l).
Proof.
  induction 1 as [|y|y z r Hyz Hs IH]; simpl.
  - constructor.
  - destruct (x ?= y) eqn:E; try constructor; try constructor.
    + apply Qlt_alt. exact E.
    + apply Qgt_alt in E. exact E.
  - destruct (x ?= y) eqn:E.
    + constructor; assumption.
    + constructor; [apply Qlt_alt; exact E|constructor; assumption].
    + simpl in IH. destruct (x ?= z) eqn:E2.
      * constructor; assumption.
      * constructor; [apply Qgt_alt in E; exact E|exact IH].
      * constructor; [exact Hyz|exact IH].
Qed.
Lemma qsort_sorted l : qsorted (qsort l).
Proof. induction l; simpl; [constructor|]. apply qinsert_sorted. assumption. Qed.

Definition cells_nonneg (cells : list (pt * Q)) : Prop := Forall (fun c => 0 <= snd c) cells.

Lemma gap_cells_nonneg x w ys : 0 <= w -> qsorted ys -> cells_nonneg (gap_cells x w ys).
Proof.
  intros Hw. induction 1 as [|y|y z r Hyz Hs IH]; simpl; try constructor.
  - cbn [snd]. apply Qmult_le_0_compat; [exact Hw|]. lra.
  - exact IH.
Qed.
Lemma slab_cells_nonneg L xs : qsorted xs -> cells_nonneg (slab_cells L xs).
Proof.
  induction 1 as [|y|y z r Hyz Hs IH]; try constructor.
  change (slab_cells L (y :: z :: r)) with
    (gap_cells (qmid y z) (z - y) (slab_heights L (qmid y z)) ++ slab_cells L (z :: r)).
  apply Forall_app. split; [|exact IH].
  apply gap_cells_nonneg; [lra|]. unfold slab_heights. apply qsort_sorted.
Qed.

Lemma cells_area_mono cells f g :
  cells_nonneg cells -> (forall p, f p = true -> g p = true) -> cells_area cells f <= cells_area cells g.
Proof.
  intros Hn M. induction Hn as [|c cells Hc Hn IH]; simpl; [lra|].
  assert (X : (if f (fst c) then snd c else 0) <= (if g (fst c) then snd c else 0)).
  { destruct (f (fst c)) eqn:Ef; [rewrite (M _ Ef); lra|]. destruct (g (fst c)); lra. }
  lra.
Qed.

(* the area functional is non-negative and monotone: a smaller set has a smaller exact area *)
Theorem area_monotone_lemma L P f g :
  (forall p, f p = true -> g p = true) -> 0 <= area_of L P f /\ area_of L P f <= area_of L P g.
Proof.
  intros M. unfold area_of.
  assert (Hn : cells_nonneg (slab_cells L (events (vertex_set L P)))).
  { apply slab_cells_nonneg. unfold events. apply qsort_sorted. }
  split; [|apply cells_area_mono; assumption].
  rewrite <- (cells_area_false (slab_cells L (events (vertex_set L P)))).
  apply cells_area_mono; [assumption|discriminate].
Qed.
