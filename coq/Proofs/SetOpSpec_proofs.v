(* Lemmas for property C01 (Model/SetOpSpec.v): the glue of geom/alg_set_op.go and of the final
   switch of geom/dcel_extract_geometry.go, the Boolean algebra of the reference semantics, the
   area functional, and the link between the incidence-annotated witnesses and Planar.witnesses.
   NOT proved (DESIGN.md section 4.1): that agreement at every witness implies agreement at every
   point of Q^2; nothing is said about the float re-noding of the overlay engine. *)
From Coq Require Import QArith Qreduction Qabs List Bool ZArith NArith Lia Lqa Permutation.
From SF Require Import Base.GeomAST Base.Outcome Base.QKernel Base.Planar Proofs.Planar_proofs Model.SetOpSpec.
Import ListNotations.
Open Scope Q_scope.

(* ================================================================ empty geometries, force ==== *)
Lemma forallb_existsb_false {A} (e f : A -> bool) l :
  forallb e l = true -> (forall x, e x = true -> f x = false) -> existsb f l = false.
Proof.
  induction l as [|x l IH]; simpl; auto. intros H Hf. apply andb_true_iff in H as [H1 H2].
  rewrite (Hf x H1). simpl. auto.
Qed.

Lemma point_empty_no_points q p : point_empty q = true -> in_point q p = false.
Proof. destruct q as [ct [v|]]; simpl; try discriminate. reflexivity. Qed.
Lemma line_empty_no_points l p : line_empty l = true -> on_line l p = false.
Proof. destruct l as [ct [|v vs]]; simpl; try discriminate. reflexivity. Qed.
Lemma poly_empty_no_points y p : poly_empty y = true -> in_poly y p = false.
Proof. destruct y as [ct [|r rs]]; simpl; try discriminate. reflexivity. Qed.

(* an empty geometry (Go's IsEmpty) has no points *)
Theorem empty_no_points_lemma (g : geom) p : is_empty g = true -> inG g p = false.
Proof.
  induction g using geomT_ind'; simpl; intros He.
  - apply point_empty_no_points; assumption.
  - apply line_empty_no_points; assumption.
  - apply poly_empty_no_points; assumption.
  - eapply forallb_existsb_false; eauto. intros; apply point_empty_no_points; assumption.
  - eapply forallb_existsb_false; eauto. intros; apply line_empty_no_points; assumption.
  - eapply forallb_existsb_false; eauto. intros; apply poly_empty_no_points; assumption.
  - induction gs as [|x gs IH]; simpl in *; auto.
    apply andb_true_iff in He as [H1 H2]. inversion H as [|? ? Hx Hr]; subst.
    rewrite (Hx H1). simpl. apply IH; assumption.
Qed.

(* ForceCoordinatesType keeps X and Y: the point set is unchanged *)
Lemma vpt_force old new (v : vtx Q) : vpt (force_vtx 0 old new v) = vpt v.
Proof. reflexivity. Qed.
Lemma line_pts_force ct l : line_pts (force_line 0 ct l) = line_pts l.
Proof.
  destruct l as [old vs]. unfold line_pts. simpl. rewrite map_map. apply map_ext. intros; apply vpt_force.
Qed.
Lemma on_line_force ct l p : on_line (force_line 0 ct l) p = on_line l p.
Proof. unfold on_line, line_segs. rewrite line_pts_force. reflexivity. Qed.
Lemma in_point_force ct q p : in_point (force_point 0 ct q) p = in_point q p.
Proof. destruct q as [old [v|]]; reflexivity. Qed.
Lemma poly_ring_segs_force ct y : poly_ring_segs (force_poly 0 ct y) = poly_ring_segs y.
Proof.
  destruct y as [old rs]. unfold poly_ring_segs. simpl. rewrite map_map. apply map_ext.
  intros l. unfold line_segs. rewrite line_pts_force. reflexivity.
Qed.
Lemma in_poly_force ct y p : in_poly (force_poly 0 ct y) p = in_poly y p.
Proof. unfold in_poly, poly_boundary, poly_interior. rewrite poly_ring_segs_force. reflexivity. Qed.

Lemma existsb_map_ext {A} (f : A -> bool) (h : A -> A) l :
  (forall x, f (h x) = f x) -> existsb f (map h l) = existsb f l.
Proof. intros E. induction l; simpl; auto. rewrite E, IHl. reflexivity. Qed.

Theorem inG_force_lemma ct (g : geom) p : inG (force_geom 0 ct g) p = inG g p.
Proof.
  induction g using geomT_ind'; simpl.
  - apply in_point_force.
  - apply on_line_force.
  - apply in_poly_force.
  - apply existsb_map_ext. intros; apply in_point_force.
  - apply existsb_map_ext. intros; apply on_line_force.
  - apply existsb_map_ext. intros; apply in_poly_force.
  - induction gs as [|x gs IH]; simpl; auto. inversion H as [|? ? Hx Hr]; subst. rewrite Hx. f_equal. apply IH; assumption.
Qed.

Lemma inG_new_collection gs p : inG (new_collection 0 gs) p = existsb (fun g => inG g p) gs.
Proof.
  destruct gs as [|g gs]; [reflexivity|].
  unfold new_collection. cbn [inG]. rewrite existsb_map. apply existsb_ext_in.
  intros x _. apply inG_force_lemma.
Qed.
Lemma inG_new_multipoly ys p : inG (new_multipoly 0 ys) p = existsb (fun y => in_poly y p) ys.
Proof.
  destruct ys as [|y ys]; [reflexivity|]. unfold new_multipoly. cbn [inG]. rewrite existsb_map.
  apply existsb_ext_in. intros x _. apply in_poly_force.
Qed.
Lemma inG_new_multiline ls p : inG (new_multiline 0 ls) p = existsb (fun l => on_line l p) ls.
Proof.
  destruct ls as [|y ys]; [reflexivity|]. unfold new_multiline. cbn [inG]. rewrite existsb_map.
  apply existsb_ext_in. intros x _. apply on_line_force.
Qed.
Lemma inG_new_multipoint qs p : inG (new_multipoint 0 qs) p = existsb (fun q => in_point q p) qs.
Proof.
  destruct qs as [|y ys]; [reflexivity|]. unfold new_multipoint. cbn [inG]. rewrite existsb_map.
  apply existsb_ext_in. intros x _. apply in_point_force.
Qed.

(* ================================================================ dispatch ==================== *)
Section DispatchLemmas.
  Variable engine : geom -> setop -> geom -> outcome geom.

  (* the dispatch of the four binary operations, as one table *)
  Theorem dispatch_spec_lemma o a b :
    run engine o a b =
    match dispatch o (g_empty a) (g_empty b) with
    | DEmpty => Ok empty_geom
    | DUnaryA => unary_union engine a
    | DUnaryB => unary_union engine b
    | DEngine => engine a o b
    end.
  Proof.
    destruct o; unfold run, union, intersection, difference, sym_difference, dispatch;
      destruct (g_empty a), (g_empty b); reflexivity.
  Qed.

  (* the contract of the engine for union, at a point *)
  Definition engine_union_ok : Prop :=
    forall a b r, engine a OpUnion b = Ok r -> forall p, inG r p = inG a p || inG b p.

  Lemma unary_union_pointwise :
    engine_union_ok -> forall g r, unary_union engine g = Ok r -> forall p, inG r p = inG g p.
  Proof.
    intros C g r H p. unfold unary_union in H. rewrite (C _ _ _ H p). simpl. apply orb_false_r.
  Qed.

  (* with an empty operand every operation returns the plain Boolean combination of the
     memberships (the non-empty operand is a closed set, so no closure is involved) *)
  Theorem dispatch_pointwise_lemma :
    engine_union_ok ->
    forall o a b r, g_empty a || g_empty b = true -> run engine o a b = Ok r ->
    forall p, inG r p = op_bool o (inG a p) (inG b p).
  Proof.
    intros C o a b r He Hr p. rewrite dispatch_spec_lemma in Hr.
    unfold g_empty in *.
    destruct (is_empty a) eqn:Ea; destruct (is_empty b) eqn:Eb; try discriminate;
      rewrite ?(empty_no_points_lemma a p Ea), ?(empty_no_points_lemma b p Eb);
      destruct o; simpl in Hr;
      try (injection Hr as <-; simpl; rewrite ?andb_false_r; reflexivity);
      try (rewrite (unary_union_pointwise C _ _ Hr p); simpl;
           rewrite ?orb_false_r, ?andb_true_r, ?xorb_false_r, ?xorb_false_l; reflexivity);
      try (rewrite (unary_union_pointwise C _ _ Hr p); destruct (inG b p), (inG a p); reflexivity).
  Qed.

  Theorem union_many_pointwise_lemma :
    engine_union_ok -> forall gs r, union_many engine gs = Ok r ->
    forall p, inG r p = existsb (fun g => inG g p) gs.
  Proof.
    intros C gs r H p. unfold union_many in H.
    rewrite (unary_union_pointwise C _ _ H p). apply inG_new_collection.
  Qed.
End DispatchLemmas.

(* ================================================================ assemble ==================== *)
Definition nonempty {A} (l : list A) : bool := match l with [] => false | _ => true end.
(* number of dimensions present *)
Definition dims_present (A : list (polyT Q)) (L : list (lineT Q)) (P : list (pointT Q)) : nat :=
  ((if nonempty A then 1 else 0) + (if nonempty L then 1 else 0) + (if nonempty P then 1 else 0))%nat.

Lemma geom_type_new_multipoly ys : geom_type (new_multipoly 0 ys) = TMPoly.
Proof. destruct ys; reflexivity. Qed.
Lemma geom_type_new_multiline ys : geom_type (new_multiline 0 ys) = TMLine.
Proof. destruct ys; reflexivity. Qed.
Lemma geom_type_new_multipoint ys : geom_type (new_multipoint 0 ys) = TMPoint.
Proof. destruct ys; reflexivity. Qed.
Lemma geom_type_new_collection ys : geom_type (new_collection 0 ys) = TColl.
Proof. destruct ys; reflexivity. Qed.

(* GeometryCollection iff the number of dimensions present is not one *)
Theorem assemble_collection_iff_lemma A L P :
  geom_type (assemble A L P) = TColl <-> dims_present A L P <> 1%nat.
Proof.
  unfold dims_present.
  destruct A as [|a [|a' A]]; destruct L as [|l [|l' L]]; destruct P as [|q [|q' P]];
    cbn -[new_collection new_multipoly new_multiline new_multipoint];
    rewrite ?geom_type_new_collection, ?geom_type_new_multipoly, ?geom_type_new_multiline, ?geom_type_new_multipoint;
    split; intros H; try reflexivity; try discriminate; try lia; try (exfalso; apply H; reflexivity).
Qed.

(* with one dimension present: the single type for one member, the Multi type for more *)
Theorem assemble_single_multi_lemma A L P :
  dims_present A L P = 1%nat ->
  geom_type (assemble A L P) =
    match A, L, P with
    | [_], _, _ => TPoly | _ :: _ :: _, _, _ => TMPoly
    | [], [_], _ => TLine | [], _ :: _ :: _, _ => TMLine
    | [], [], [_] => TPoint | [], [], _ => TMPoint
    end.
Proof.
  unfold dims_present.
  destruct A as [|a [|a' A]]; destruct L as [|l [|l' L]]; destruct P as [|q [|q' P]];
    cbn -[new_collection new_multipoly new_multiline new_multipoint];
    rewrite ?geom_type_new_collection, ?geom_type_new_multipoly, ?geom_type_new_multiline, ?geom_type_new_multipoint;
    intros H; try reflexivity; try discriminate.
Qed.

Definition members (g : geom) : list geom := match g with GColl _ gs => gs | _ => [] end.

Lemma geom_type_force ct (g : geom) : geom_type (force_geom 0 ct g) = geom_type g.
Proof. destruct g; reflexivity. Qed.
Lemma members_new_collection gs : map geom_type (members (new_collection 0 gs)) = map geom_type gs.
Proof.
  destruct gs as [|g gs]; [reflexivity|]. unfold new_collection, members. rewrite map_map.
  apply map_ext. intros; apply geom_type_force.
Qed.

(* order of the members of a mixed result: areals, then lineals, then points *)
Theorem assemble_order_lemma A L P :
  dims_present A L P <> 1%nat ->
  map geom_type (members (assemble A L P)) =
  repeat TPoly (length A) ++ repeat TLine (length L) ++ repeat TPoint (length P).
Proof.
  intros H.
  assert (E : assemble A L P = new_collection 0 (map GPoly A ++ map GLine L ++ map GPoint P)).
  { unfold dims_present in H.
    destruct A as [|a A]; destruct L as [|l L]; destruct P as [|q P]; try reflexivity;
      simpl in H; exfalso; apply H; reflexivity. }
  rewrite E, members_new_collection, !map_app, !map_map. f_equal; [|f_equal].
  - clear. induction A; simpl; f_equal; auto.
  - clear. induction L; simpl; f_equal; auto.
  - clear. induction P; simpl; f_equal; auto.
Qed.

(* the point set of the assembled value is the union of the members' point sets *)
Theorem assemble_pointset_lemma A L P p :
  inG (assemble A L P) p =
  existsb (fun y => in_poly y p) A || existsb (fun l => on_line l p) L || existsb (fun q => in_point q p) P.
Proof.
  assert (C : inG (new_collection 0 (map GPoly A ++ map GLine L ++ map GPoint P)) p =
              existsb (fun y => in_poly y p) A || existsb (fun l => on_line l p) L || existsb (fun q => in_point q p) P).
  { rewrite inG_new_collection, !existsb_app, !existsb_map. simpl. rewrite orb_assoc. reflexivity. }
  destruct A as [|a [|a' A]]; destruct L as [|l [|l' L]]; destruct P as [|q [|q' P]];
    try exact C;
    unfold assemble; rewrite ?inG_new_multipoly, ?inG_new_multiline, ?inG_new_multipoint;
    simpl; rewrite ?orb_false_r; reflexivity.
Qed.

(* canonical shape *)
Lemma poly_empty_force ct y : poly_empty (force_poly 0 ct y) = poly_empty y.
Proof. destruct y as [o [|r rs]]; reflexivity. Qed.
Lemma line_empty_force ct y : line_empty (force_line 0 ct y) = line_empty y.
Proof. destruct y as [o [|r rs]]; reflexivity. Qed.
Lemma point_empty_force ct y : point_empty (force_point 0 ct y) = point_empty y.
Proof. destruct y as [o [v|]]; reflexivity. Qed.

Lemma forallb_map {A B} (f : B -> bool) (h : A -> B) l : forallb f (map h l) = forallb (fun x => f (h x)) l.
Proof. induction l; simpl; auto. rewrite IHl. reflexivity. Qed.
Lemma forallb_ext' {A} (f g : A -> bool) l : (forall x, f x = g x) -> forallb f l = forallb g l.
Proof. intros E. induction l; simpl; auto. rewrite E, IHl. reflexivity. Qed.

Lemma ranks_sorted_app_le l1 l2 k :
  ranks_sorted l1 = true -> ranks_sorted l2 = true ->
  (forall x, In x l1 -> (x <= k)%nat) -> (forall x, In x l2 -> (k <= x)%nat) ->
  ranks_sorted (l1 ++ l2) = true.
Proof.
  revert l2. induction l1 as [|a l1 IH]; intros l2 H1 H2 Hle Hge; simpl; auto.
  destruct l1 as [|b l1].
  - simpl. destruct l2 as [|c l2]; auto. rewrite H2.
    assert (a <= c)%nat by (specialize (Hle a (or_introl eq_refl)); specialize (Hge c (or_introl eq_refl)); lia).
    apply Nat.leb_le in H. rewrite H. reflexivity.
  - simpl in H1. apply andb_true_iff in H1 as [Hab H1].
    change ((a :: b :: l1) ++ l2) with (a :: (b :: l1) ++ l2).
    simpl. rewrite Hab. simpl. apply IH; auto. intros x Hx. apply Hle. right; assumption.
Qed.
Lemma ranks_sorted_repeat k n : ranks_sorted (repeat k n) = true.
Proof.
  induction n as [|n IH]; simpl; auto. destruct n; simpl in *; auto. rewrite Nat.leb_refl. exact IH.
Qed.

Definition all_nonempty (A : list (polyT Q)) (L : list (lineT Q)) (P : list (pointT Q)) : bool :=
  forallb (fun y => negb (poly_empty y)) A && forallb (fun l => negb (line_empty l)) L
  && forallb (fun q => negb (point_empty q)) P.

Lemma member_rank_force ct (g : geom) : member_rank (force_geom 0 ct g) = member_rank g.
Proof. destruct g; reflexivity. Qed.
Lemma is_empty_force ct (g : geom) : is_empty (force_geom 0 ct g) = is_empty g.
Proof.
  induction g using geomT_ind'; simpl.
  - apply point_empty_force. - apply line_empty_force. - apply poly_empty_force.
  - rewrite forallb_map. apply forallb_ext'. intros; apply point_empty_force.
  - rewrite forallb_map. apply forallb_ext'. intros; apply line_empty_force.
  - rewrite forallb_map. apply forallb_ext'. intros; apply poly_empty_force.
  - induction gs as [|x gs IH]; simpl; auto. inversion H as [|? ? Hx Hr]; subst. rewrite Hx. f_equal. apply IH; assumption.
Qed.

Lemma map_rank_polys A : map member_rank (map (@GPoly Q) A) = repeat 0%nat (length A).
Proof. induction A; simpl; f_equal; auto. Qed.
Lemma map_rank_lines A : map member_rank (map (@GLine Q) A) = repeat 1%nat (length A).
Proof. induction A; simpl; f_equal; auto. Qed.
Lemma map_rank_points A : map member_rank (map (@GPoint Q) A) = repeat 2%nat (length A).
Proof. induction A; simpl; f_equal; auto. Qed.

Lemma in_repeat {A} (k x : A) n : In x (repeat k n) -> x = k.
Proof. intros H. apply repeat_spec in H. assumption. Qed.

Lemma last_app_ne {A} (l1 l2 : list A) d : l2 <> [] -> last (l1 ++ l2) d = last l2 d.
Proof.
  intros Hne. induction l1 as [|x l1 IH]; simpl; auto.
  destruct (l1 ++ l2) eqn:E; auto. destruct l1; simpl in E; [contradiction|discriminate].
Qed.
Lemma last_repeat {A} (k d : A) n : last (repeat k (S n)) d = k.
Proof. induction n; simpl in *; auto. Qed.
Lemma repeat_S_ne {A} (k : A) n : repeat k (S n) <> [].
Proof. discriminate. Qed.

Lemma ranks_ends a l p :
  ((if Nat.eqb a 0 then 0 else 1) + (if Nat.eqb l 0 then 0 else 1) + (if Nat.eqb p 0 then 0 else 1) <> 1)%nat ->
  let R := repeat 0%nat a ++ repeat 1%nat l ++ repeat 2%nat p in
  R = [] \/ Nat.eqb (hd 0%nat R) (last R 0%nat) = false.
Proof.
  intros H R. unfold R.
  destruct a as [|a]; destruct l as [|l]; destruct p as [|p]; simpl in H; try (exfalso; apply H; reflexivity).
  - left; reflexivity.
  - right.
    assert (Hl : last (repeat 0%nat 0 ++ repeat 1%nat (S l) ++ repeat 2%nat (S p)) 0%nat = 2%nat).
    { rewrite app_assoc, last_app_ne by apply repeat_S_ne. apply last_repeat. }
    rewrite Hl. reflexivity.
  - right.
    assert (Hl : last (repeat 0%nat (S a) ++ repeat 1%nat 0 ++ repeat 2%nat (S p)) 0%nat = 2%nat).
    { rewrite app_assoc, last_app_ne by apply repeat_S_ne. apply last_repeat. }
    rewrite Hl. reflexivity.
  - right.
    assert (Hl : last (repeat 0%nat (S a) ++ repeat 1%nat (S l) ++ repeat 2%nat 0) 0%nat = 1%nat).
    { change (repeat 2%nat 0) with (@nil nat). rewrite app_nil_r, last_app_ne by apply repeat_S_ne. apply last_repeat. }
    rewrite Hl. reflexivity.
  - right.
    assert (Hl : last (repeat 0%nat (S a) ++ repeat 1%nat (S l) ++ repeat 2%nat (S p)) 0%nat = 2%nat).
    { rewrite app_assoc, last_app_ne by apply repeat_S_ne. apply last_repeat. }
    rewrite Hl. reflexivity.
Qed.

Lemma shape_ok_coll ct (gs : list geom) :
  gs = [] \/
  (forallb (fun k => Nat.leb k 2) (map member_rank gs) = true /\ ranks_sorted (map member_rank gs) = true /\
   forallb (fun g => negb (is_empty g)) gs = true /\
   Nat.eqb (hd 0%nat (map member_rank gs)) (last (map member_rank gs) 0%nat) = false) ->
  shape_ok (GColl ct gs) = true.
Proof.
  intros [->|(H1 & H2 & H3 & H4)]; [reflexivity|].
  destruct gs as [|g gs]; [reflexivity|]. cbn [shape_ok]. rewrite H1, H2, H3, H4. reflexivity.
Qed.

(* every value assembled from non-empty members has the canonical shape *)
Theorem assemble_shape_ok_lemma A L P :
  all_nonempty A L P = true -> shape_ok (assemble A L P) = true.
Proof.
  unfold all_nonempty. intros H. apply andb_true_iff in H as [H HP]. apply andb_true_iff in H as [HA HL].
  assert (Coll : dims_present A L P <> 1%nat ->
          shape_ok (new_collection 0 (map GPoly A ++ map GLine L ++ map GPoint P)) = true).
  { intros Hd.
    set (gs := map GPoly A ++ map GLine L ++ map GPoint P).
    destruct gs as [|g0 gs0] eqn:Egs; [reflexivity|].
    unfold new_collection. rewrite <- Egs. clear Egs g0 gs0.
    set (ct := and_all geom_ct gs).
    assert (Erk : map member_rank (map (force_geom 0 ct) gs) =
                  repeat 0%nat (length A) ++ repeat 1%nat (length L) ++ repeat 2%nat (length P)).
    { rewrite map_map. erewrite map_ext by (intros; apply member_rank_force).
      unfold gs. rewrite !map_app, map_rank_polys, map_rank_lines, map_rank_points. reflexivity. }
    assert (Hne : forallb (fun g => negb (is_empty g)) (map (force_geom 0 ct) gs) = true).
    { rewrite forallb_map. erewrite forallb_ext' by (intros; rewrite is_empty_force; reflexivity).
      unfold gs. rewrite !forallb_app, !forallb_map. simpl. rewrite HA, HL, HP. reflexivity. }
    assert (S1 : forallb (fun k => Nat.leb k 2) (repeat 0%nat (length A) ++ repeat 1%nat (length L) ++ repeat 2%nat (length P)) = true).
    { rewrite !forallb_app. rewrite !andb_true_iff. repeat split; apply forallb_forall; intros x Hx;
        apply in_repeat in Hx; subst; reflexivity. }
    assert (S2 : ranks_sorted (repeat 0%nat (length A) ++ repeat 1%nat (length L) ++ repeat 2%nat (length P)) = true).
    { apply ranks_sorted_app_le with (k := 0%nat); [apply ranks_sorted_repeat| | |].
      - apply ranks_sorted_app_le with (k := 1%nat); try apply ranks_sorted_repeat.
        + intros x Hx. apply in_repeat in Hx. lia.
        + intros x Hx. apply in_repeat in Hx. lia.
      - intros x Hx. apply in_repeat in Hx. lia.
      - intros; lia. }
    apply shape_ok_coll. rewrite Erk.
    destruct (ranks_ends (length A) (length L) (length P)) as [E|E].
    { unfold dims_present in Hd. destruct A, L, P; simpl in *; exact Hd. }
    - left. rewrite <- Erk in E. apply map_eq_nil in E. exact E.
    - right. auto. }
  destruct A as [|a [|a' A]]; destruct L as [|l [|l' L]]; destruct P as [|q [|q' P]];
    try (apply Coll; unfold dims_present; simpl; lia);
    simpl in HA, HL, HP; unfold assemble.
  - simpl. apply andb_true_iff in HP as [H1 _]. exact H1.
  - unfold new_multipoint. cbn [shape_ok]. rewrite map_length. simpl length. simpl Nat.leb.
    rewrite forallb_map. erewrite forallb_ext' by (intros; rewrite point_empty_force; reflexivity). exact HP.
  - simpl. apply andb_true_iff in HL as [H1 _]. exact H1.
  - unfold new_multiline. cbn [shape_ok]. rewrite map_length. simpl length. simpl Nat.leb.
    rewrite forallb_map. erewrite forallb_ext' by (intros; rewrite line_empty_force; reflexivity). exact HL.
  - simpl. apply andb_true_iff in HA as [H1 _]. exact H1.
  - unfold new_multipoly. cbn [shape_ok]. rewrite map_length. simpl length. simpl Nat.leb.
    rewrite forallb_map. erewrite forallb_ext' by (intros; rewrite poly_empty_force; reflexivity). exact HA.
Qed.

(* ================================================================ Boolean algebra of the spec === *)
Lemma in_closure_ext X Y w : (forall p, X p = Y p) -> in_closure X w = in_closure Y w.
Proof.
  intros E. unfold in_closure. rewrite E. f_equal. apply existsb_ext_in. intros; apply E.
Qed.
Lemma existsb_orb {A} (f g : A -> bool) l : existsb (fun x => f x || g x) l = existsb f l || existsb g l.
Proof.
  induction l as [|x l IH]; simpl; auto. rewrite IH.
  destruct (f x), (g x), (existsb f l), (existsb g l); reflexivity.
Qed.
(* closure distributes over union *)
Lemma in_closure_union X Y w :
  in_closure (fun p => X p || Y p) w = in_closure X w || in_closure Y w.
Proof.
  unfold in_closure. rewrite existsb_orb.
  destruct (X (wpt w)), (Y (wpt w)), (existsb X (wnb w)), (existsb Y (wnb w)); reflexivity.
Qed.
Lemma existsb_false {A} (l : list A) : existsb (fun _ => false) l = false.
Proof. induction l; simpl; auto. Qed.
Lemma in_closure_empty w : in_closure (fun _ => false) w = false.
Proof. unfold in_closure. rewrite existsb_false. reflexivity. Qed.
(* a set is contained in its closure; closure is monotone *)
Lemma in_closure_extensive X w : X (wpt w) = true -> in_closure X w = true.
Proof. intros H. unfold in_closure. rewrite H. reflexivity. Qed.
Lemma in_closure_mono X Y w :
  (forall p, X p = true -> Y p = true) -> in_closure X w = true -> in_closure Y w = true.
Proof.
  intros M H. unfold in_closure in *. apply orb_true_iff in H as [H|H].
  - rewrite (M _ H). reflexivity.
  - apply orb_true_iff. right. apply existsb_exists in H as (q & Hq & Hx).
    apply existsb_exists. exists q. split; auto.
Qed.

Lemma raw_comm_lemma o a b p : o <> OpDiff -> raw o a b p = raw o b a p.
Proof.
  intros H. unfold raw, raw_f. destruct o; simpl; try (exfalso; apply H; reflexivity).
  - apply orb_comm. - apply andb_comm. - apply xorb_comm.
Qed.
Theorem expected_comm_lemma o a b w : o <> OpDiff -> expected o a b w = expected o b a w.
Proof.
  intros H. unfold expected, expected_f. destruct o; try (exfalso; apply H; reflexivity).
  - apply (raw_comm_lemma OpUnion); assumption.
  - apply (raw_comm_lemma OpInter); assumption.
  - apply in_closure_ext. intros p. apply (raw_comm_lemma OpSym). assumption.
Qed.

Theorem expected_idem_lemma a w :
  expected OpUnion a a w = inG a (wpt w) /\ expected OpInter a a w = inG a (wpt w) /\
  expected OpDiff a a w = false /\ expected OpSym a a w = false.
Proof.
  unfold expected, expected_f, raw_f. simpl. repeat split.
  - apply orb_diag. - apply andb_diag.
  - rewrite <- (in_closure_empty w). apply in_closure_ext. intros p. apply andb_negb_r.
  - rewrite <- (in_closure_empty w). apply in_closure_ext. intros p. apply xorb_nilpotent.
Qed.

(* a = (a \ b) u (a n b), and the two parts are disjoint, at every point *)
Theorem expected_partition_lemma a b p :
  inG a p = raw OpDiff a b p || raw OpInter a b p /\ raw OpDiff a b p && raw OpInter a b p = false.
Proof. unfold raw, raw_f. simpl. destruct (inG a p), (inG b p); split; reflexivity. Qed.
(* the same on closures: cl(a) = cl(a \ b) u cl(a n b) at every witness *)
Theorem expected_partition_closure_lemma a b w :
  in_closure (inG a) w = expected OpDiff a b w || in_closure (raw OpInter a b) w.
Proof.
  unfold expected, expected_f. rewrite <- in_closure_union. apply in_closure_ext.
  intros p. apply (proj1 (expected_partition_lemma a b p)).
Qed.
(* symmetric difference = (a \ b) u (b \ a), pointwise and on closures *)
Theorem expected_symdiff_lemma a b w :
  (forall p, raw OpSym a b p = raw OpDiff a b p || raw OpDiff b a p) /\
  expected OpSym a b w = expected OpDiff a b w || expected OpDiff b a w.
Proof.
  assert (E : forall p, raw OpSym a b p = raw OpDiff a b p || raw OpDiff b a p).
  { intros p. unfold raw, raw_f. simpl. destruct (inG a p), (inG b p); reflexivity. }
  split; auto. unfold expected, expected_f. rewrite <- in_closure_union. apply in_closure_ext. exact E.
Qed.
(* De Morgan-style consequences *)
Theorem expected_de_morgan_lemma a b p :
  negb (raw OpUnion a b p) = negb (inG a p) && negb (inG b p) /\
  negb (raw OpInter a b p) = negb (inG a p) || negb (inG b p) /\
  raw OpDiff a b p = inG a p && negb (raw OpInter a b p) /\
  raw OpUnion a b p = raw OpSym a b p || raw OpInter a b p /\
  raw OpSym a b p = raw OpUnion a b p && negb (raw OpInter a b p).
Proof. unfold raw, raw_f. simpl. destruct (inG a p), (inG b p); repeat split; reflexivity. Qed.

(* inclusion-exclusion on the membership functions *)
Definition ind (b : bool) : Q := if b then 1 else 0.
Theorem inclusion_exclusion_pointwise_lemma a b p :
  ind (raw OpUnion a b p) + ind (raw OpInter a b p) == ind (inG a p) + ind (inG b p).
Proof. unfold raw, raw_f. simpl. destruct (inG a p), (inG b p); reflexivity. Qed.

(* ================================================================ the area functional ========= *)
Lemma cells_area_balance cells (f g h k : pt -> bool) :
  (forall p, ind (f p) + ind (g p) == ind (h p) + ind (k p)) ->
  cells_area cells f + cells_area cells g == cells_area cells h + cells_area cells k.
Proof.
  intros E. induction cells as [|c cells IH]; simpl; [reflexivity|].
  specialize (E (fst c)).
  assert (X : (if f (fst c) then snd c else 0) + (if g (fst c) then snd c else 0) ==
              (if h (fst c) then snd c else 0) + (if k (fst c) then snd c else 0)).
  { unfold ind in E. destruct (f (fst c)), (g (fst c)), (h (fst c)), (k (fst c)); try ring;
      exfalso; revert E; clear; intros E; vm_compute in E; discriminate. }
  transitivity (((if f (fst c) then snd c else 0) + (if g (fst c) then snd c else 0)) +
                (cells_area cells f + cells_area cells g)); [ring|].
  rewrite X, IH. ring.
Qed.
Lemma cells_area_false cells : cells_area cells (fun _ => false) == 0.
Proof. induction cells; simpl; [reflexivity|]. rewrite IHcells. ring. Qed.
Lemma cells_area_ext cells f g : (forall p, f p = g p) -> cells_area cells f == cells_area cells g.
Proof. intros E. induction cells; simpl; [reflexivity|]. rewrite E, IHcells. reflexivity. Qed.

(* inclusion-exclusion of exact areas: area(a u b) + area(a n b) = area(a) + area(b), on every
   arrangement *)
Theorem area_inclusion_exclusion_lemma L P a b :
  area_of L P (raw OpUnion a b) + area_of L P (raw OpInter a b) == area_of L P (inG a) + area_of L P (inG b).
Proof. unfold area_of. apply cells_area_balance. intros p. apply inclusion_exclusion_pointwise_lemma. Qed.
(* area(a) = area(a \ b) + area(a n b) *)
Theorem area_partition_lemma L P a b :
  area_of L P (inG a) == area_of L P (raw OpDiff a b) + area_of L P (raw OpInter a b).
Proof.
  unfold area_of.
  pose proof (cells_area_balance (slab_cells L (events (vertex_set L P)))
                (inG a) (fun _ => false) (raw OpDiff a b) (raw OpInter a b)) as H.
  rewrite cells_area_false in H. rewrite <- H; [ring|].
  intros p. unfold raw, raw_f. simpl. destruct (inG a p), (inG b p); reflexivity.
Qed.
(* area(a xor b) = area(a \ b) + area(b \ a) = area(a u b) - area(a n b) *)
Theorem area_symdiff_lemma L P a b :
  area_of L P (raw OpSym a b) == area_of L P (raw OpDiff a b) + area_of L P (raw OpDiff b a) /\
  area_of L P (raw OpSym a b) + area_of L P (raw OpInter a b) == area_of L P (raw OpUnion a b).
Proof.
  unfold area_of. split.
  - pose proof (cells_area_balance (slab_cells L (events (vertex_set L P)))
                  (raw OpSym a b) (fun _ => false) (raw OpDiff a b) (raw OpDiff b a)) as H.
    rewrite cells_area_false in H. rewrite <- H; [ring|].
    intros p. unfold raw, raw_f. simpl. destruct (inG a p), (inG b p); reflexivity.
  - pose proof (cells_area_balance (slab_cells L (events (vertex_set L P)))
                  (raw OpSym a b) (raw OpInter a b) (raw OpUnion a b) (fun _ => false)) as H.
    rewrite cells_area_false in H. rewrite H; [ring|].
    intros p. unfold raw, raw_f. simpl. destruct (inG a p), (inG b p); reflexivity.
Qed.
(* idempotence and commutativity of the areas follow from the pointwise laws *)
Theorem area_comm_lemma L P o a b : o <> OpDiff -> area_of L P (raw o a b) == area_of L P (raw o b a).
Proof. intros H. unfold area_of. apply cells_area_ext. intros p. apply raw_comm_lemma. assumption. Qed.

(* ================================================================ the annotated witnesses ====== *)
(* the incidence-annotated list is Planar's witness list (same points, same dimension tags, same order) *)
Lemma col_adj_strip (x : Q) (at_y : Q -> dimv) below ys :
  map (fun e : Q * (pt * pt) => ((x, fst e), at_y (fst e))) (col_adj x below ys) = map (fun y => ((x, y), at_y y)) ys.
Proof.
  revert below. induction ys as [|y r IH]; intros below; [reflexivity|].
  destruct r as [|y2 r'].
  - reflexivity.
  - change (col_adj x below (y :: y2 :: r')) with ((y, (below, (x, qmid y y2))) :: col_adj x (x, qmid y y2) (y2 :: r')).
    rewrite !map_cons. f_equal. apply IH.
Qed.
Lemma column_nb_strip x ys at_y mid extra :
  map strip (column_nb x ys at_y mid extra) = column x ys at_y mid.
Proof.
  unfold column_nb, column. destruct ys as [|y1 r]; [reflexivity|].
  cbn [map strip fst]. f_equal. f_equal. rewrite map_app, !map_map. f_equal.
  - unfold strip. cbn [fst]. apply (col_adj_strip x at_y).
  - unfold strip. cbn [fst]. erewrite map_ext; [apply map_id|]. intros [p d]. reflexivity.
Qed.
Lemma slab_witnesses_nb_strip L x0 x1 : map strip (slab_witnesses_nb L x0 x1) = slab_witnesses L x0 x1.
Proof. apply column_nb_strip. Qed.
Lemma event_witnesses_nb_strip L V x extra : map strip (event_witnesses_nb L V x extra) = event_witnesses L V x.
Proof. apply column_nb_strip. Qed.
Lemma slabs_between_nb_strip L xs : map strip (slabs_between_nb L xs) = slabs_between L xs.
Proof.
  induction xs as [|x0 r IH]; [reflexivity|]. destruct r as [|x1 r']; [reflexivity|].
  change (slabs_between_nb L (x0 :: x1 :: r')) with (slab_witnesses_nb L x0 x1 ++ slabs_between_nb L (x1 :: r')).
  change (slabs_between L (x0 :: x1 :: r')) with (slab_witnesses L x0 x1 ++ slabs_between L (x1 :: r')).
  rewrite map_app, slab_witnesses_nb_strip, IH. reflexivity.
Qed.
Lemma events_nb_strip L V left wr xs :
  map strip (events_nb L V left wr xs) = flat_map (event_witnesses L V) xs.
Proof.
  revert left. induction xs as [|x r IH]; intros left; [reflexivity|].
  destruct r as [|x2 r'].
  - simpl. rewrite event_witnesses_nb_strip, app_nil_r. reflexivity.
  - change (events_nb L V left wr (x :: x2 :: r')) with
      (event_witnesses_nb L V x (fun y => left y ++ slab_incident L (qmid x x2) x y)
       ++ events_nb L V (slab_incident L (qmid x x2) x2) wr (x2 :: r')).
    rewrite map_app, event_witnesses_nb_strip, IH. reflexivity.
Qed.
Theorem witnesses_nb_strip_lemma L P : map strip (witnesses_nb L P) = witnesses L P.
Proof.
  unfold witnesses_nb, wits_of, witnesses.
  destruct (events (vertex_set L P)) as [|x0 r] eqn:E; [reflexivity|].
  cbn [map strip fst]. f_equal. f_equal.
  rewrite map_app, events_nb_strip, slabs_between_nb_strip. reflexivity.
Qed.

Lemma in_witnesses_nb L P w : In w (witnesses_nb L P) -> In (wpt w, wdim w) (witnesses L P).
Proof.
  intros H. rewrite <- witnesses_nb_strip_lemma. apply in_map_iff. exists w. split; auto.
  destruct w as [[p d] nb]. reflexivity.
Qed.
(* kernel fact cited from Planar_proofs / QKernel: every dimension-0 witness is a vertex of the
   arrangement, i.e. a segment end, an isolated point, or a point lying on both segments that define it *)
Theorem witness_vertex_lemma L P w :
  In w (witnesses_nb L P) -> wdim w = D0 ->
  exists v, pt_eq v (wpt w) /\
    ((exists s, In s L /\ (v = fst s \/ v = snd s)) \/
     (exists s t, In s L /\ In t L /\ on_seg s v = true /\ on_seg t v = true) \/ In v P).
Proof.
  intros Hin Hd. apply in_witnesses_nb in Hin. rewrite Hd in Hin.
  destruct (witness_dim0_is_vertex L P (wpt w) Hin) as (v & Hv & Heq).
  exists v. split; [exact Heq|]. apply vertex_set_spec in Hv.
  destruct Hv as [(s & Hs & He)|[(s & t & Hs & Ht & Hp & H1 & H2)|Hp]].
  - left. exists s. split; auto.
  - right. left. exists s, t. auto.
  - right. right. exact Hp.
Qed.

(* ================================================================ the judgement ================ *)
Lemma mem_p_prep g p : mem_p (prep g) p = inG g p.
Proof.
  rewrite inG_flat. unfold mem_p, areal_p, lineal_p, prep. cbn [pg_polys pg_lines pg_points].
  rewrite !existsb_map. reflexivity.
Qed.
Lemma agrees_iff W fr e : agrees W fr e = true <-> forall w, In w W -> fr (wpt w) = e w.
Proof.
  unfold agrees. rewrite forallb_forall. split; intros H w Hw; specialize (H w Hw).
  - apply eqb_prop. exact H.
  - rewrite H. apply eqb_reflx.
Qed.
Lemma disagreements_nil_iff W fr e : disagreements W fr e = [] <-> agrees W fr e = true.
Proof.
  unfold disagreements, agrees. induction W as [|w W IH]; simpl; [tauto|].
  destruct (eqb (fr (wpt w)) (e w)); simpl.
  - exact IH.
  - split; discriminate.
Qed.
Lemma arrange_wits gs : ar_wits (arrange gs) = ctx_witnesses gs.
Proof. reflexivity. Qed.

(* what a passing judgement means: at every vertex, edge piece and face witness of the exact
   arrangement of the operands and the result, the result's definitional membership is the
   expected one (closure form for difference and symmetric difference) *)
Theorem judge_sound_lemma o a b r :
  v_agree (judge o a b r) = true ->
  forall w, In w (ctx_witnesses [a; b; r]) -> inG r (wpt w) = expected o a b w.
Proof.
  unfold judge, judge_with. cbn [v_agree]. intros H w Hw.
  destruct (disagreements (ar_wits (arrange [a; b; r])) (mem_p (prep r)) (expected o a b)) eqn:E; [|discriminate].
  apply disagreements_nil_iff in E. rewrite agrees_iff in E. rewrite arrange_wits in E.
  rewrite <- mem_p_prep. apply E. exact Hw.
Qed.
Theorem judge_many_sound_lemma gs r :
  v_agree (judge_many gs r) = true ->
  forall w, In w (ctx_witnesses (r :: gs)) -> inG r (wpt w) = existsb (fun g => inG g (wpt w)) gs.
Proof.
  unfold judge_many, judge_with. cbn [v_agree]. intros H w Hw.
  destruct (disagreements (ar_wits (arrange (r :: gs))) (mem_p (prep r)) (expected_many gs)) eqn:E; [|discriminate].
  apply disagreements_nil_iff in E. rewrite agrees_iff in E. rewrite arrange_wits in E.
  rewrite <- mem_p_prep. apply (E w Hw).
Qed.

(* exact point-set comparison of two outputs is an equivalence-like relation: reflexive, symmetric *)
Lemma same_set_refl g : same_set g g = true.
Proof. unfold same_set. apply forallb_forall. intros w _. apply eqb_reflx. Qed.

Lemma ctx_segs_swap g h : ctx_segs [g; h] = ctx_segs [h; g].
Proof.
  unfold ctx_segs. f_equal. apply ksort_perm; [exact seg_key_inj|].
  apply Permutation_map. simpl. rewrite !app_nil_r. apply Permutation_app_comm.
Qed.
Lemma ctx_pts_swap g h : ctx_pts [g; h] = ctx_pts [h; g].
Proof.
  unfold ctx_pts. f_equal. apply ksort_perm; [exact pt_key_inj|].
  apply Permutation_map. simpl. rewrite !app_nil_r. apply Permutation_app_comm.
Qed.
(* the arrangement on which two outputs are compared does not depend on their order *)
Lemma ctx_witnesses_swap g h : ctx_witnesses [g; h] = ctx_witnesses [h; g].
Proof. unfold ctx_witnesses. rewrite ctx_segs_swap, ctx_pts_swap. reflexivity. Qed.
Theorem same_set_sym_lemma g h : same_set g h = same_set h g.
Proof.
  unfold same_set. rewrite ctx_witnesses_swap. apply forallb_ext'. intros w.
  destruct (inG g (wpt w)), (inG h (wpt w)); reflexivity.
Qed.
