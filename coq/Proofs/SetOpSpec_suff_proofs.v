(* Property C01: lifting the judgement from the witnesses to EVERY point of Q^2, with the sufficiency
   theorems of Proofs/Planar_slab*.v.  The arrangement of C01 stores one canonical representative per
   segment (ordinates normalised, orientation fixed: SetOpSpec.seg_canon), so the covering hypothesis of
   Planar_slab (literal inclusion of the geometry's segments) is replaced by covering UP TO
   reversal and Qeq of the end points; locate_same_cell is re-proved under that hypothesis. *)
From Coq Require Import QArith Qreduction List Bool ZArith Lia Lqa Setoid Morphisms.
From SF Require Import Base.GeomAST Base.QKernel Base.Planar Proofs.Planar_proofs
  Proofs.Planar_slab_base Proofs.Planar_slab Proofs.Planar_slab_dim Model.SetOpSpec Proofs.SetOpSpec_proofs.
Import ListNotations.
Open Scope Q_scope.

(* ================================================================ segments up to reversal ===== *)
Definition seg_equiv (e e' : seg) : Prop :=
  (pt_eq (fst e) (fst e') /\ pt_eq (snd e) (snd e')) \/ (pt_eq (fst e) (snd e') /\ pt_eq (snd e) (fst e')).

Lemma vcross_sym a b p : vcross a b p = vcross b a p.
Proof.
  unfold vcross. destruct (Qle_bool (fst a) (fst p)), (Qle_bool (fst b) (fst p)); reflexivity.
Qed.
Lemma qltb_proper a a' b b' : a == a' -> b == b' -> qltb a b = qltb a' b'.
Proof. intros E1 E2. unfold qltb. rewrite E1, E2. reflexivity. Qed.
Lemma vcross_proper a a' b b' p : pt_eq a a' -> pt_eq b b' -> vcross a b p = vcross a' b' p.
Proof.
  intros Ea Eb. unfold vcross.
  destruct Ea as [Ea1 Ea2]. destruct Eb as [Eb1 Eb2].
  rewrite (Qle_bool_proper _ _ Ea1 _ _ (Qeq_refl (fst p))), (Qle_bool_proper _ _ Eb1 _ _ (Qeq_refl (fst p))).
  assert (C1 : cross a b p == cross a' b' p) by (apply cross_proper; [split; assumption|split; assumption|reflexivity]).
  assert (C2 : cross b a p == cross b' a' p) by (apply cross_proper; [split; assumption|split; assumption|reflexivity]).
  rewrite (qltb_proper _ _ _ _ C1 (Qeq_refl 0)), (qltb_proper _ _ _ _ C2 (Qeq_refl 0)). reflexivity.
Qed.
Lemma seg_equiv_tests e e' p :
  seg_equiv e e' ->
  on_seg e p = on_seg e' p /\ vcross (fst e) (snd e) p = vcross (fst e') (snd e') p.
Proof.
  destruct e as [a b], e' as [a' b']. cbn [fst snd]. intros [[Ea Eb]|[Ea Eb]].
  - split; [apply on_seg_proper; auto; reflexivity|apply vcross_proper; assumption].
  - split.
    + rewrite <- (on_seg_sym a' b' p). apply on_seg_proper; auto; reflexivity.
    + rewrite (vcross_sym a' b' p). apply vcross_proper; assumption.
Qed.
Lemma pt_eqb_proper_r p v v' : pt_eq v v' -> pt_eqb p v = pt_eqb p v'.
Proof.
  intros E. apply eq_true_iff_eq. rewrite !pt_eqb_iff. split; intros H.
  - etransitivity; eauto.
  - etransitivity; [exact H|symmetry; exact E].
Qed.

(* the arrangement (L, P) contains g up to reversal / Qeq *)
Definition covers_equiv (L : list seg) (P : list pt) (g : geom) : Prop :=
  (forall e, In e (arr_segments g) -> exists e', In e' L /\ seg_equiv e e') /\
  (forall v, In v (arr_points g) -> exists v', In v' P /\ pt_eq v v').

Section SameCellEquiv.
  Variables (L : list seg) (P : list pt) (g : geom) (p w : pt).
  Hypothesis Hcov : covers_equiv L P g.
  Hypothesis Hclosed : rings_closed g.
  Hypothesis Hsame : same_cell L (vertex_set L P) p w.

  Lemma se_seg e : In e (arr_segments g) ->
    on_seg e p = on_seg e w /\ vcross (fst e) (snd e) p = vcross (fst e) (snd e) w.
  Proof.
    intros He. destruct (proj1 Hcov e He) as (e' & Hin & Eq).
    destruct (seg_equiv_tests e e' p Eq) as [A1 A2]. destruct (seg_equiv_tests e e' w Eq) as [B1 B2].
    destruct (proj1 Hsame e' Hin) as [C1 C2]. rewrite A1, A2, B1, B2. auto.
  Qed.
  Lemma se_end e : In e (arr_segments g) -> pt_eqb p (fst e) = pt_eqb w (fst e) /\ pt_eqb p (snd e) = pt_eqb w (snd e).
  Proof.
    intros He. destruct (proj1 Hcov e He) as (e' & Hin & Eq).
    destruct (seg_end_vertex L P e' Hin) as [Va Vb].
    pose proof (proj2 Hsame _ Va) as Ha. pose proof (proj2 Hsame _ Vb) as Hb.
    destruct Eq as [[Ea Eb]|[Ea Eb]].
    - rewrite (pt_eqb_proper_r p _ _ Ea), (pt_eqb_proper_r w _ _ Ea), (pt_eqb_proper_r p _ _ Eb), (pt_eqb_proper_r w _ _ Eb). auto.
    - rewrite (pt_eqb_proper_r p _ _ Ea), (pt_eqb_proper_r w _ _ Ea), (pt_eqb_proper_r p _ _ Eb), (pt_eqb_proper_r w _ _ Eb). auto.
  Qed.
  Lemma se_on_edges es : incl es (arr_segments g) -> on_edges es p = on_edges es w.
  Proof. intros H. unfold on_edges. apply existsb_ext_in'. intros e He. apply se_seg. auto. Qed.
  Lemma se_vparity es : incl es (arr_segments g) -> vparity es p = vparity es w.
  Proof. intros H. unfold vparity. apply fold_xor_ext. intros e He. apply se_seg. auto. Qed.

  Lemma se_ring y r : In y (g_polys g) -> In r (poly_rings y) ->
    on_edges (line_segs r) p = on_edges (line_segs r) w /\
    (on_edges (line_segs r) p = false -> edges_parity (line_segs r) p = edges_parity (line_segs r) w).
  Proof.
    intros Hy Hr.
    assert (I : incl (line_segs r) (arr_segments g)).
    { intros e He. eapply in_arr_ring; eauto. }
    split; [apply se_on_edges; exact I|]. intros Hp.
    pose proof Hp as Hw. rewrite (se_on_edges _ I) in Hw.
    unfold line_segs in *. rewrite (closed_ring_parity _ p (Hclosed y Hy r Hr) Hp).
    rewrite (closed_ring_parity _ w (Hclosed y Hy r Hr) Hw). apply se_vparity. exact I.
  Qed.
  Lemma se_strict y r : In y (g_polys g) -> In r (poly_rings y) ->
    ring_strict_in (line_segs r) p = ring_strict_in (line_segs r) w /\
    ring_strict_out (line_segs r) p = ring_strict_out (line_segs r) w.
  Proof.
    intros Hy Hr. destruct (se_ring y r Hy Hr) as [E1 E2]. unfold ring_strict_in, ring_strict_out.
    rewrite <- E1. destruct (on_edges (line_segs r) p); [split; reflexivity|]. rewrite E2 by reflexivity. split; reflexivity.
  Qed.
  Lemma se_poly y : In y (g_polys g) ->
    rings_interior (poly_ring_segs y) p = rings_interior (poly_ring_segs y) w /\
    rings_boundary (poly_ring_segs y) p = rings_boundary (poly_ring_segs y) w.
  Proof.
    intros Hy. unfold poly_ring_segs. split.
    - assert (K : forall rs, incl rs (poly_rings y) ->
                  forallb (fun h => ring_strict_out h p) (map line_segs rs) = forallb (fun h => ring_strict_out h w) (map line_segs rs)).
      { induction rs as [|r rs IH]; intros I; simpl; auto.
        rewrite (proj2 (se_strict y r Hy (I r (or_introl eq_refl)))). rewrite IH; auto.
        intros x Hx. apply I. right. exact Hx. }
      assert (S : forall r, In r (poly_rings y) -> ring_strict_in (line_segs r) p = ring_strict_in (line_segs r) w).
      { intros r Hr. apply (se_strict y r Hy Hr). }
      specialize (K (tl (poly_rings y))).
      destruct (poly_rings y) as [|sh holes]; [reflexivity|]. cbn [map rings_interior tl] in *.
      rewrite (S sh) by (left; reflexivity). rewrite K; [reflexivity|]. intros x Hx. right. exact Hx.
    - unfold rings_boundary. rewrite !existsb_map. apply existsb_ext_in'. intros r Hr.
      apply (se_ring y r Hy Hr).
  Qed.

  Theorem locate_same_cell_equiv : locate g p = locate g w.
  Proof.
    unfold locate, locate_p, prep; cbn [pg_polys pg_lines pg_ends pg_points]. rewrite !existsb_map.
    rewrite (existsb_ext_in' (fun y => rings_interior (poly_ring_segs y) p) (fun y => rings_interior (poly_ring_segs y) w))
      by (intros y Hy; apply se_poly; exact Hy).
    rewrite (existsb_ext_in' (fun y => rings_boundary (poly_ring_segs y) p) (fun y => rings_boundary (poly_ring_segs y) w))
      by (intros y Hy; apply se_poly; exact Hy).
    rewrite (existsb_ext_in' (fun l => on_edges (line_segs l) p) (fun l => on_edges (line_segs l) w)).
    2:{ intros l Hl. apply se_on_edges. intros e He. eapply in_arr_line; eauto. }
    assert (Eo : odd_ends (flat_map line_ends (g_lines g)) p = odd_ends (flat_map line_ends (g_lines g)) w).
    { unfold odd_ends. apply fold_xor_ext. intros e He.
      apply in_flat_map in He. destruct He as [l [Hl He]]. destruct (line_ends_in l e He) as [s [Hs Hes]].
      assert (Hsg : In s (arr_segments g)) by (eapply in_arr_line; eauto).
      destruct (se_end s Hsg) as [A B]. destruct Hes as [->| ->]; assumption. }
    rewrite Eo.
    rewrite (existsb_ext_in' (pt_eqb p) (pt_eqb w)); [reflexivity|].
    intros v Hv. destruct (proj2 Hcov v Hv) as (v' & Hin & Ev).
    rewrite (pt_eqb_proper_r p _ _ Ev), (pt_eqb_proper_r w _ _ Ev).
    apply (proj2 Hsame). unfold vertex_set. apply in_or_app. right. apply in_or_app. right. exact Hin.
  Qed.
End SameCellEquiv.

(* ================================================================ the arrangement of C01 covers == *)
Lemma lex_eqb_eq a b : lex_eqb a b = true <-> a = b.
Proof.
  revert b. induction a as [|x a IH]; intros [|y b]; simpl; split; intros H; try reflexivity; try discriminate.
  - apply andb_true_iff in H as [H1 H2]. apply Z.eqb_eq in H1. apply IH in H2. subst. reflexivity.
  - inversion H; subst. rewrite Z.eqb_refl. apply IH. reflexivity.
Qed.
Lemma kdedup_cons2 {A} (key : A -> list Z) a b (r : list A) :
  kdedup key (a :: b :: r) = if lex_eqb (key a) (key b) then kdedup key (b :: r) else a :: kdedup key (b :: r).
Proof. reflexivity. Qed.
Lemma kdedup_in {A} (key : A -> list Z) (key_inj : forall x y, key x = key y -> x = y) (l : list A) x :
  In x l -> In x (kdedup key l).
Proof.
  induction l as [|a l IH]; intros Hin; [destruct Hin|].
  destruct l as [|b r]; [exact Hin|]. rewrite kdedup_cons2.
  destruct (lex_eqb (key a) (key b)) eqn:E.
  - apply lex_eqb_eq in E. apply key_inj in E. subst b. apply IH.
    destruct Hin as [<-|Hin]; [left; reflexivity|exact Hin].
  - destruct Hin as [<-|Hin]; [left; reflexivity|right; apply IH; exact Hin].
Qed.

Lemma seg_canon_equiv e : seg_equiv e (seg_canon e).
Proof.
  unfold seg_canon. destruct (pt_leb (pt_red (fst e)) (pt_red (snd e))); cbn [fst snd].
  - left. split; symmetry; apply pt_red_eq.
  - right. split; symmetry; apply pt_red_eq.
Qed.

Lemma ctx_covers gs g : In g gs -> covers_equiv (ctx_segs gs) (ctx_pts gs) g.
Proof.
  intros Hg. split.
  - intros e He. exists (seg_canon e). split; [|apply seg_canon_equiv].
    unfold ctx_segs. apply kdedup_in; [exact seg_key_inj|]. apply ksort_in.
    apply in_map. apply in_flat_map. exists g. auto.
  - intros v Hv. exists (pt_red v). split; [|symmetry; apply pt_red_eq].
    unfold ctx_pts. apply kdedup_in; [exact pt_key_inj|]. apply ksort_in.
    apply in_map. apply in_flat_map. exists g. auto.
Qed.

(* ================================================================ from witnesses to all points == *)
Section Everywhere.
  Variable gs : list geom.
  Let L := ctx_segs gs.
  Let P := ctx_pts gs.
  Let V := vertex_set L P.

  (* every point of the plane shares its cell with an (annotated) witness of the arrangement *)
  Lemma cover_nb p : exists wn, In wn (ctx_witnesses gs) /\ same_cell L V p (wpt wn).
  Proof.
    destruct (witness_cover L P p) as (w & d & Hin & Hs).
    unfold ctx_witnesses. fold L P. rewrite <- (witnesses_nb_strip_lemma L P) in Hin.
    apply in_map_iff in Hin as (wn & E & Hwn). exists wn. split; [exact Hwn|].
    destruct wn as [[w' d'] nb]. unfold strip in E. simpl in E. inversion E; subst. exact Hs.
  Qed.

  (* membership in a geometry of the arrangement (closed rings) is constant on cells *)
  Lemma transfer g p w : In g gs -> rings_closed g -> same_cell L V p w -> inG g p = inG g w.
  Proof.
    intros Hg Hr Hs. apply inG_of_locate.
    apply (locate_same_cell_equiv L P g p w (ctx_covers gs g Hg) Hr Hs).
  Qed.

  Lemma free_transfer p w : same_cell L V p w ->
    on_some_seg L p = on_some_seg L w /\ is_vertex V p = is_vertex V w.
  Proof.
    intros [H1 H2]. split.
    - unfold on_some_seg. apply existsb_ext_in'. intros e He. apply H1. exact He.
    - unfold is_vertex. apply existsb_ext_in'. intros v Hv. apply H2. exact Hv.
  Qed.
End Everywhere.

Definition closed_all (gs : list geom) : Prop := forall g, In g gs -> rings_closed g.

(* (1) union and intersection: a passing judgement means equality of the point sets at EVERY point *)
Theorem judge_everywhere_lemma o a b r :
  (o = OpUnion \/ o = OpInter) -> closed_all [a; b; r] ->
  v_agree (judge o a b r) = true ->
  forall p, inG r p = op_bool o (inG a p) (inG b p).
Proof.
  intros Ho Hc Hj p.
  destruct (cover_nb [a; b; r] p) as (wn & Hwn & Hs).
  pose proof (judge_sound_lemma o a b r Hj wn Hwn) as E.
  assert (Ex : expected o a b wn = op_bool o (inG a (wpt wn)) (inG b (wpt wn))).
  { destruct Ho as [-> | ->]; reflexivity. }
  rewrite Ex in E.
  rewrite (transfer [a; b; r] r p (wpt wn)), (transfer [a; b; r] a p (wpt wn)), (transfer [a; b; r] b p (wpt wn));
    auto; try (apply Hc); simpl; auto.
Qed.

(* UnaryUnion / UnionMany: the result is the union of the list at every point *)
Theorem judge_many_everywhere_lemma gs r :
  closed_all (r :: gs) -> v_agree (judge_many gs r) = true ->
  forall p, inG r p = existsb (fun g => inG g p) gs.
Proof.
  intros Hc Hj p.
  destruct (cover_nb (r :: gs) p) as (wn & Hwn & Hs).
  rewrite (transfer (r :: gs) r p (wpt wn)); [|left; reflexivity|apply Hc; left; reflexivity|exact Hs].
  rewrite (judge_many_sound_lemma gs r Hj wn Hwn).
  apply existsb_ext_in'. intros g Hg. symmetry.
  apply (transfer (r :: gs) g p (wpt wn)); [right; exact Hg|apply Hc; right; exact Hg|exact Hs].
Qed.

(* (1') all four operations, closure form: at every point p of the plane the result's membership is
   the membership of p in the Boolean combination, or that of one of the cells named as incident to
   the cell of p.  In particular the result CONTAINS the Boolean combination at every point. *)
Theorem judge_closure_everywhere_lemma o a b r :
  closed_all [a; b; r] -> v_agree (judge o a b r) = true ->
  forall p, exists wn, In wn (ctx_witnesses [a; b; r]) /\
    same_cell (ctx_segs [a; b; r]) (vertex_set (ctx_segs [a; b; r]) (ctx_pts [a; b; r])) p (wpt wn) /\
    inG r p = match o with
              | OpUnion | OpInter => raw o a b p
              | OpDiff | OpSym => raw o a b p || existsb (raw o a b) (wnb wn)
              end.
Proof.
  intros Hc Hj p.
  destruct (cover_nb [a; b; r] p) as (wn & Hwn & Hs). exists wn. split; [exact Hwn|]. split; [exact Hs|].
  pose proof (judge_sound_lemma o a b r Hj wn Hwn) as E.
  assert (Tr : inG r p = inG r (wpt wn)) by (apply (transfer [a; b; r]); auto; [simpl; auto|apply Hc; simpl; auto]).
  assert (Ta : inG a p = inG a (wpt wn)) by (apply (transfer [a; b; r]); auto; [simpl; auto|apply Hc; simpl; auto]).
  assert (Tb : inG b p = inG b (wpt wn)) by (apply (transfer [a; b; r]); auto; [simpl; auto|apply Hc; simpl; auto]).
  rewrite Tr, E. unfold expected, expected_f, in_closure, raw, raw_f. rewrite Ta, Tb.
  destruct o; reflexivity.
Qed.
Corollary judge_contains_lemma o a b r :
  closed_all [a; b; r] -> v_agree (judge o a b r) = true ->
  forall p, raw o a b p = true -> inG r p = true.
Proof.
  intros Hc Hj p Hp. destruct (judge_closure_everywhere_lemma o a b r Hc Hj p) as (wn & _ & _ & E).
  rewrite E, Hp. destruct o; reflexivity.
Qed.

(* ================================================================ off the skeleton =============== *)
(* D2 witnesses of slab columns and the two outer witnesses carry no incidence *)
Lemma column_nb_d2_nil x ys mid wn :
  In wn (column_nb x ys (fun _ => D1) mid (fun _ => [])) -> wdim wn = D2 -> wnb wn = [].
Proof.
  unfold column_nb. destruct ys as [|y1 r].
  - intros [<-|[]] _. reflexivity.
  - intros [<-|[<-|H]] Hd; [reflexivity|reflexivity|].
    apply in_app_or in H as [H|H]; apply in_map_iff in H as (z & <- & _).
    + discriminate Hd.
    + reflexivity.
Qed.
Lemma slabs_between_nb_in L xs x0 x1 wn :
  In (x0, x1) (consec xs) -> In wn (slab_witnesses_nb L x0 x1) -> In wn (slabs_between_nb L xs).
Proof.
  induction xs as [|a r IH]; intros Hc Hw; [destruct Hc|].
  destruct r as [|b r']; [destruct Hc|].
  change (slabs_between_nb L (a :: b :: r')) with (slab_witnesses_nb L a b ++ slabs_between_nb L (b :: r')).
  change (consec (a :: b :: r')) with ((a, b) :: consec (b :: r')) in Hc.
  apply in_or_app. destruct Hc as [E|Hc].
  - inversion E; subst. left. exact Hw.
  - right. apply IH; assumption.
Qed.

Section OffSkeleton.
  Variable gs : list geom.
  Let L := ctx_segs gs.
  Let P := ctx_pts gs.
  Let V := vertex_set L P.

  Lemma not_event_not_vertex p : (forall x, In x (events V) -> ~ fst p == x) -> is_vertex V p = false.
  Proof.
    intros H. unfold is_vertex. destruct (existsb (pt_eqb p) V) eqn:E; [|reflexivity].
    apply existsb_exists in E as (v & Hv & Ev). apply pt_eqb_iff in Ev. destruct Ev as [E1 _].
    destruct (vertex_event L P v Hv) as (x & Hx & Ex). exfalso. apply (H x Hx). rewrite E1, Ex. reflexivity.
  Qed.

  (* a point on no segment whose abscissa is no event has a D2 witness without incidence in its cell *)
  Lemma cover_off_skeleton p :
    on_some_seg L p = false -> (forall x, In x (events V) -> ~ fst p == x) ->
    exists wn, In wn (ctx_witnesses gs) /\ same_cell L V p (wpt wn) /\ wnb wn = [].
  Proof.
    intros Hoff Hne.
    assert (Hnv : is_vertex V p = false) by (apply not_event_not_vertex; exact Hne).
    (* whichever witness shares the cell, its tag is D2 *)
    assert (Tag : forall wn, In wn (ctx_witnesses gs) -> same_cell L V p (wpt wn) -> wdim wn = D2).
    { intros wn Hwn Hs. destruct (free_transfer gs p (wpt wn) Hs) as [F1 F2].
      fold L in F1. fold L P V in F2. rewrite Hoff in F1. rewrite Hnv in F2.
      pose proof (in_witnesses_nb L P wn Hwn) as Hin.
      destruct (witness_tag L P _ _ Hin) as (_ & _ & _ & T). fold V in T.
      destruct T as [T|[T|T]]; [exact T| |]; congruence. }
    assert (Hw : ctx_witnesses gs = wits_of L V (events V)) by reflexivity.
    rewrite Hw. remember (events V) as xs eqn:Exs. symmetry in Exs. destruct xs as [|x0 l]; unfold wits_of.
    - (* no vertex at all *)
      exists ((0, 0), D2, []). split; [left; reflexivity|]. split; [|reflexivity].
      destruct (witness_cover L P p) as (w & d & Hin & Hs). unfold witnesses in Hin. fold V in Hin. rewrite Exs in Hin.
      destruct Hin as [E|[]]. inversion E; subst. exact Hs.
    - assert (S : qsorted (x0 :: l)) by (rewrite <- Exs; apply qsort_sorted).
      assert (Ev : forall v, In v V -> x0 <= fst v <= last l x0).
      { intros v Hv. destruct (vertex_event L P v Hv) as [x [Hx Ex]]. fold V in Hx. rewrite Exs in Hx.
        split.
        - destruct Hx as [<-|Hx]; [lra|]. pose proof (qsorted_head_lt x0 l x S Hx). lra.
        - pose proof (qsorted_last_ge x0 l x S Hx). lra. }
      assert (El : last (x0 :: l) x0 = last l x0) by (destruct l; reflexivity).
      destruct (qsorted_position x0 l (fst p) S) as [K|[K|[[x [Hx Ex]]|[a [b [Hc Hb]]]]]].
      + exists ((Qred (x0 - 1), 0), D2, []). split; [left; reflexivity|]. split; [|reflexivity].
        apply left_same_cell. intros v Hv. destruct (Ev v Hv). cbn [wpt fst]. rewrite Qred_correct. split; lra.
      + exists ((Qred (last (x0 :: l) x0 + 1), 0), D2, []). split; [right; left; reflexivity|]. split; [|reflexivity].
        apply right_same_cell. intros v Hv. destruct (Ev v Hv). cbn [wpt fst]. rewrite Qred_correct, El. split; lra.
      + exfalso. apply (Hne x); [try rewrite Exs; exact Hx|exact Ex].
      + assert (Hc' : In (a, b) (consec (events (vertex_set L P)))) by (fold V; rewrite Exs; exact Hc).
        destruct (slab_cover L P a b Hc' p Hb) as (w & d & Hin & Hs).
        rewrite <- (slab_witnesses_nb_strip L a b) in Hin. apply in_map_iff in Hin as (wn & E & Hwn).
        assert (Ew : wpt wn = w) by (destruct wn as [[w' d'] nb]; unfold strip in E; simpl in E; inversion E; reflexivity).
        assert (Hall : In wn (ctx_witnesses gs)).
        { rewrite Hw. unfold wits_of.
          right. right. apply in_or_app. right. apply (slabs_between_nb_in L (x0 :: l) a b); assumption. }
        exists wn. split.
        { right. right. apply in_or_app. right. apply (slabs_between_nb_in L (x0 :: l) a b); assumption. }
        rewrite Ew. split; [exact Hs|].
        apply (column_nb_d2_nil _ _ _ wn Hwn). apply Tag; [exact Hall|rewrite Ew; exact Hs].
  Qed.
End OffSkeleton.

(* (1'') difference and symmetric difference (and the other two): at every point that lies on no
   segment of the arrangement and whose abscissa is not an event abscissa - an open dense subset of
   the plane - the result's membership is exactly the Boolean combination *)
Theorem judge_off_skeleton_lemma o a b r :
  closed_all [a; b; r] -> v_agree (judge o a b r) = true ->
  forall p,
    on_some_seg (ctx_segs [a; b; r]) p = false ->
    (forall x, In x (events (vertex_set (ctx_segs [a; b; r]) (ctx_pts [a; b; r]))) -> ~ fst p == x) ->
    inG r p = raw o a b p.
Proof.
  intros Hc Hj p Hoff Hne.
  destruct (cover_off_skeleton [a; b; r] p Hoff Hne) as (wn & Hwn & Hs & Hnb).
  pose proof (judge_sound_lemma o a b r Hj wn Hwn) as E.
  assert (Tr : inG r p = inG r (wpt wn)) by (apply (transfer [a; b; r]); auto; [simpl; auto|apply Hc; simpl; auto]).
  assert (Ta : inG a p = inG a (wpt wn)) by (apply (transfer [a; b; r]); auto; [simpl; auto|apply Hc; simpl; auto]).
  assert (Tb : inG b p = inG b (wpt wn)) by (apply (transfer [a; b; r]); auto; [simpl; auto|apply Hc; simpl; auto]).
  rewrite Tr, E. unfold expected, expected_f, in_closure, raw, raw_f. rewrite Hnb, Ta, Tb.
  destruct o; simpl; rewrite ?orb_false_r; reflexivity.
Qed.

(* ================================================================ the exact area ================ *)
Lemma gap_cells_in_gaps x wd ys mid c :
  In c (gap_cells x wd ys) -> exists d, In (fst c, d) (gaps_between x ys mid).
Proof.
  induction ys as [|y1 r IH]; [intros []|]. destruct r as [|y2 r']; [intros []|].
  change (gap_cells x wd (y1 :: y2 :: r')) with (((x, qmid y1 y2), wd * (y2 - y1)) :: gap_cells x wd (y2 :: r')).
  change (gaps_between x (y1 :: y2 :: r') mid) with (((x, qmid y1 y2), mid y1 y2) :: gaps_between x (y2 :: r') mid).
  intros [<-|H].
  - exists (mid y1 y2). left. reflexivity.
  - destruct (IH H) as (d & Hd). exists d. right. exact Hd.
Qed.
Lemma column_nb_gap x ys at_y mid extra q d :
  In (q, d) (gaps_between x ys mid) -> In (q, d, extra (snd q)) (column_nb x ys at_y mid extra).
Proof.
  intros H. unfold column_nb. destruct ys as [|y1 r]; [destruct H|].
  right. right. apply in_or_app. right. apply in_map_iff. exists (q, d). split; [reflexivity|exact H].
Qed.
(* every trapezoid of the area functional is represented by a slab witness without incidence *)
Lemma slab_cells_witness L : forall xs c, In c (slab_cells L xs) ->
  exists wn, In wn (slabs_between_nb L xs) /\ wpt wn = fst c /\ wnb wn = [].
Proof.
  induction xs as [|x0 r IH]; intros c Hc; [destruct Hc|]. destruct r as [|x1 r']; [destruct Hc|].
  change (slab_cells L (x0 :: x1 :: r')) with
    (gap_cells (qmid x0 x1) (x1 - x0) (slab_heights L (qmid x0 x1)) ++ slab_cells L (x1 :: r')) in Hc.
  change (slabs_between_nb L (x0 :: x1 :: r')) with (slab_witnesses_nb L x0 x1 ++ slabs_between_nb L (x1 :: r')).
  apply in_app_or in Hc as [Hc|Hc].
  - destruct (gap_cells_in_gaps _ _ _ (fun _ _ => D2) c Hc) as (d & Hd).
    exists (fst c, d, []). split; [|split; reflexivity]. apply in_or_app. left.
    unfold slab_witnesses_nb. apply (column_nb_gap _ _ (fun _ => D1) (fun _ _ => D2) (fun _ => []) (fst c) d Hd).
  - destruct (IH c Hc) as (wn & Hwn & E1 & E2). exists wn. split; [apply in_or_app; right; exact Hwn|auto].
Qed.
Lemma cells_area_ext_in cells f g :
  (forall c, In c cells -> f (fst c) = g (fst c)) -> cells_area cells f == cells_area cells g.
Proof.
  induction cells as [|c r IH]; intros H; simpl; [reflexivity|].
  rewrite (H c (or_introl eq_refl)), IH; [reflexivity|]. intros c' Hc'. apply H. right. exact Hc'.
Qed.

(* (2) a passing membership judgement makes the exact area functional of the result equal to that
   of the Boolean combination (all four operations: no closure is involved on trapezoids) *)
Theorem judge_area_lemma o a b r :
  v_agree (judge o a b r) = true ->
  area_of (ctx_segs [a; b; r]) (ctx_pts [a; b; r]) (inG r) ==
  area_of (ctx_segs [a; b; r]) (ctx_pts [a; b; r]) (raw o a b).
Proof.
  intros Hj. unfold area_of. apply cells_area_ext_in. intros c Hc.
  set (L := ctx_segs [a; b; r]) in *. set (P := ctx_pts [a; b; r]) in *.
  destruct (slab_cells_witness L _ c Hc) as (wn & Hwn & E1 & E2).
  assert (Hall : In wn (ctx_witnesses [a; b; r])).
  { unfold ctx_witnesses. fold L P. unfold witnesses_nb, wits_of.
    destruct (events (vertex_set L P)) as [|x0 l]; [destruct Hwn|].
    right. right. apply in_or_app. right. exact Hwn. }
  pose proof (judge_sound_lemma o a b r Hj wn Hall) as E. rewrite E1 in E. rewrite E.
  unfold expected, expected_f, in_closure. rewrite E2, E1. destruct o; simpl; rewrite ?orb_false_r; reflexivity.
Qed.

(* the executable form of the closed-rings hypothesis (evaluated by the driver on operands and results) *)
Lemma rings_closed_b_sound g : rings_closed_b g = true -> rings_closed g.
Proof.
  unfold rings_closed_b, rings_closed. rewrite forallb_forall. intros H y Hy r Hr.
  specialize (H y Hy). rewrite forallb_forall in H. apply H. exact Hr.
Qed.
Lemma closed_all_b gs : forallb rings_closed_b gs = true -> closed_all gs.
Proof. rewrite forallb_forall. intros H g Hg. apply rings_closed_b_sound. apply H. exact Hg. Qed.
