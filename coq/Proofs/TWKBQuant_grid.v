(* Theorems about the quantisation layer (Model/TWKBQuant.v), in exact arithmetic.
   Model/TWKBQuant.v mirrors the Go code operation by operation: every float operation is the
   exact rational result followed by [rne], round-to-nearest-even to binary64, defined on integers.
   Here: (A) what rne computes, in Z: the scaled value lies in [2^52, 2^53), the mantissa is a
   nearest integer to it (half-ulp bound), hence (B) in Q: relative error <= 2^-53 for every
   result in the normal range; (C) math.Round is within 1/2 and is the unique integer strictly
   within 1/2; (1) quant_spec: the writer's integer is within 1/2 + 2^-53 |x 10^p| of x * 10^p;
   (2) quant_dequant: re-encoding a decoded value is stable for |k| < 2^40 and every admissible
   precision ("exactly g when g already lies on the grid"); (3) dequant_spec: the decoded double
   is k / 10^p up to one rounding. No floating-point library and no axioms are used. *)
From Coq Require Import NArith ZArith QArith Qpower Qabs List Bool Lia Lqa Psatz.
From SF Require Import Base.Outcome Base.GeomAST Base.Varint Model.TWKB Model.TWKBQuant.

Local Open Scope Z_scope.

(* ---- the result of rne before the overflow test ---- *)
Definition rne_exp (n d : Z) : Z :=
  let e1 := Z.log2 n - Z.log2 d - 52 in
  let '(n1, d1) := scaled n d e1 in
  Z.max (if p52 <=? n1 / d1 then e1 else e1 - 1) (-1074).
Definition rne_core (n d : Z) : Z * Z :=
  let e := rne_exp n d in
  let '(n2, d2) := scaled n d e in
  let q := n2 / d2 in
  let r := n2 mod d2 in
  let q' := if (d2 <? 2 * r) || ((d2 =? 2 * r) && Z.odd q) then q + 1 else q in
  if q' =? p53 then (p52, e + 1) else (q', e).

Lemma rne_unfold n d :
  rne n d = let '(m, e') := rne_core n d in if 971 <? e' then None else Some (m, e').
Proof.
  unfold rne, rne_core, rne_exp. cbv zeta.
  destruct (scaled n d (Z.log2 n - Z.log2 d - 52)) as [n1 d1].
  destruct (scaled n d _) as [n2 d2]. reflexivity.
Qed.

Lemma scaled_pos n d e : 0 < n -> 0 < d -> 0 < fst (scaled n d e) /\ 0 < snd (scaled n d e).
Proof.
  intros Hn Hd. unfold scaled. destruct (Z.leb_spec 0 e); cbn [fst snd].
  - assert (0 < 2 ^ e) by (apply Z.pow_pos_nonneg; lia). nia.
  - assert (0 < 2 ^ (- e)) by (apply Z.pow_pos_nonneg; lia). nia.
Qed.

(* lowering the exponent by one doubles the scaled value *)
Lemma scaled_double n d e :
  fst (scaled n d (e - 1)) * snd (scaled n d e) = 2 * fst (scaled n d e) * snd (scaled n d (e - 1)).
Proof.
  unfold scaled. destruct (Z.leb_spec 0 e), (Z.leb_spec 0 (e - 1)); cbn [fst snd]; try lia.
  - assert (E : 2 ^ e = 2 * 2 ^ (e - 1)).
    { replace e with (1 + (e - 1)) at 1 by lia. rewrite Z.pow_add_r by lia. reflexivity. }
    rewrite E. ring.
  - assert (e = 0) by lia. subst e. cbn [Z.sub Z.add Z.opp Z.pos_sub]. change (2 ^ 0) with 1. change (2 ^ (- (0 - 1))) with 2. ring.
  - assert (E : 2 ^ (- (e - 1)) = 2 * 2 ^ (- e)).
    { replace (- (e - 1)) with (1 + - e) by lia. rewrite Z.pow_add_r by lia. reflexivity. }
    rewrite E. ring.
Qed.

(* the first exponent guess puts the scaled value strictly between 2^51 and 2^53 *)
Lemma scaled_guess n d :
  0 < n -> 0 < d ->
  let e1 := Z.log2 n - Z.log2 d - 52 in
  2 ^ 51 * snd (scaled n d e1) < fst (scaled n d e1) < 2 ^ 53 * snd (scaled n d e1).
Proof.
  intros Hn Hd e1.
  pose proof (Z.log2_spec n Hn) as [Ha1 Ha2]. pose proof (Z.log2_spec d Hd) as [Hb1 Hb2].
  pose proof (Z.log2_nonneg n) as Ha0. pose proof (Z.log2_nonneg d) as Hb0.
  set (a := Z.log2 n) in *. set (b := Z.log2 d) in *.
  unfold scaled. destruct (Z.leb_spec 0 e1); cbn [fst snd]; unfold e1 in *.
  - (* n / (d 2^e1) *)
    assert (E1 : 2 ^ 53 * (2 ^ b * 2 ^ (a - b - 52)) = 2 ^ Z.succ a).
    { rewrite <- !Z.pow_add_r by lia. f_equal. lia. }
    assert (E2 : 2 ^ 51 * (2 ^ Z.succ b * 2 ^ (a - b - 52)) = 2 ^ a).
    { rewrite <- !Z.pow_add_r by lia. f_equal. lia. }
    assert (0 < 2 ^ (a - b - 52)) by (apply Z.pow_pos_nonneg; lia).
    split; nia.
  - assert (E1 : 2 ^ Z.succ a * 2 ^ (- (a - b - 52)) = 2 ^ 53 * 2 ^ b).
    { rewrite <- !Z.pow_add_r by lia. f_equal. lia. }
    assert (E2 : 2 ^ a * 2 ^ (- (a - b - 52)) = 2 ^ 51 * 2 ^ Z.succ b).
    { rewrite <- !Z.pow_add_r by lia. f_equal. lia. }
    assert (0 < 2 ^ (- (a - b - 52))) by (apply Z.pow_pos_nonneg; lia).
    split; nia.
Qed.

Lemma rne_exp_normal n d :
  0 < n -> 0 < d -> d <= n * 2 ^ 1000 ->
  let e := rne_exp n d in
  -1074 < e /\ e >= Z.log2 n - Z.log2 d - 53 /\ e <= Z.log2 n - Z.log2 d - 52 /\
  p52 * snd (scaled n d e) <= fst (scaled n d e) < p53 * snd (scaled n d e).
Proof.
  intros Hn Hd Hnd. unfold rne_exp. cbv zeta.
  set (e1 := Z.log2 n - Z.log2 d - 52).
  pose proof (scaled_guess n d Hn Hd) as Hg. cbv zeta in Hg. fold e1 in Hg.
  pose proof (scaled_pos n d e1 Hn Hd) as [Hp1 Hp2].
  pose proof (scaled_pos n d (e1 - 1) Hn Hd) as [Hq1 Hq2].
  pose proof (scaled_double n d e1) as Hdbl.
  assert (Hlog : Z.log2 d <= Z.log2 n + 1000).
  { pose proof (Z.log2_le_mono _ _ Hnd) as H. rewrite Z.log2_mul_pow2 in H by lia. lia. }
  destruct (scaled n d e1) as [n1 d1] eqn:E1. cbn [fst snd] in *.
  change (2 ^ 51) with 2251799813685248 in Hg. change (2 ^ 53) with p53 in Hg. unfold p53 in *.
  destruct (Z.leb_spec p52 (n1 / d1)) as [Hge|Hlt]; unfold p52 in *.
  - rewrite Z.max_l by lia. rewrite E1. cbn [fst snd].
    assert (4503599627370496 * d1 <= n1).
    { pose proof (Z.div_mod n1 d1 ltac:(lia)). pose proof (Z.mod_pos_bound n1 d1 Hp2). nia. }
    repeat split; lia.
  - rewrite Z.max_l by lia.
    assert (n1 < 4503599627370496 * d1).
    { pose proof (Z.div_mod n1 d1 ltac:(lia)). pose proof (Z.mod_pos_bound n1 d1 Hp2). nia. }
    destruct (scaled n d (e1 - 1)) as [n2 d2]. cbn [fst snd] in *.
    repeat split; try lia; nia.
Qed.

(* what rne computes, in integers: the scaled value lies in [2^52, 2^53), q' is a nearest integer
   to it, and a carry to 2^53 is renormalised *)
Lemma rne_core_spec n d :
  0 < n -> 0 < d -> d <= n * 2 ^ 1000 ->
  let e := rne_exp n d in
  let n2 := fst (scaled n d e) in let d2 := snd (scaled n d e) in
  exists q', 2 * Z.abs (q' * d2 - n2) <= d2 /\ p52 <= q' <= p53 /\
             p52 * d2 <= n2 < p53 * d2 /\ 0 < d2 /\
             rne_core n d = (if q' =? p53 then (p52, e + 1) else (q', e)).
Proof.
  intros Hn Hd Hnd. cbv zeta.
  destruct (rne_exp_normal n d Hn Hd Hnd) as [_ [_ [_ Hb]]].
  pose proof (scaled_pos n d (rne_exp n d) Hn Hd) as [Hp1 Hp2].
  unfold rne_core. cbv zeta.
  destruct (scaled n d (rne_exp n d)) as [n2 d2]. cbn [fst snd] in *.
  pose proof (Z.div_mod n2 d2 ltac:(lia)) as Hdm. pose proof (Z.mod_pos_bound n2 d2 Hp2) as Hmb.
  set (q := n2 / d2) in *. set (r := n2 mod d2) in *.
  assert (Hq : p52 <= q < p53) by (unfold p52, p53 in *; nia).
  eexists. split; [|split; [|split; [exact Hb|split; [exact Hp2|reflexivity]]]].
  - destruct (Z.ltb_spec d2 (2 * r)); cbn [orb].
    + nia.
    + destruct (Z.eqb_spec d2 (2 * r)); cbn [andb]; [destruct (Z.odd q)|]; nia.
  - destruct ((d2 <? 2 * r) || (d2 =? 2 * r) && Z.odd q); unfold p52, p53 in *; lia.
Qed.

Local Open Scope Q_scope.

Definition tp (e : Z) : Q := (2 # 1) ^ e.
Definition dval (m e : Z) : Q := inject_Z m * tp e.
Definition qfrac (n d : Z) : Q := inject_Z n / inject_Z d.
Definition eps53 : Q := 1 # 9007199254740992.

Lemma tp_pos e : 0 < tp e.
Proof. unfold tp. apply Qpower_0_lt. reflexivity. Qed.
Lemma tp_nonneg_Z e : (0 <= e)%Z -> inject_Z (2 ^ e) == tp e.
Proof. intros H. unfold tp. rewrite Zpower_Qpower by exact H. reflexivity. Qed.
Lemma tp_neg e : tp (- e) == / tp e.
Proof. unfold tp. apply Qpower_opp. Qed.
Lemma tp_succ e : tp (e + 1) == 2 * tp e.
Proof. unfold tp. rewrite Qpower_plus by discriminate. change ((2#1)^1) with (2#1). ring. Qed.
Lemma inject_pos z : (0 < z)%Z -> 0 < inject_Z z.
Proof. intros H. change 0 with (inject_Z 0). rewrite <- Zlt_Qlt. exact H. Qed.

Lemma scaled_Q n d e : (0 < n)%Z -> (0 < d)%Z ->
  qfrac (fst (scaled n d e)) (snd (scaled n d e)) == qfrac n d / tp e.
Proof.
  intros Hn Hd. unfold scaled, qfrac. pose proof (tp_pos e) as Ht. pose proof (inject_pos d Hd) as HD.
  destruct (Z.leb_spec 0 e); cbn [fst snd].
  - rewrite inject_Z_mult, tp_nonneg_Z by lia. field. split; lra.
  - rewrite inject_Z_mult, tp_nonneg_Z by lia. rewrite tp_neg. field. split; lra.
Qed.

(* relative error of one correctly rounded operation: 2^-53 *)
Lemma rne_core_Q n d m e :
  (0 < n)%Z -> (0 < d)%Z -> (d <= n * 2 ^ 1000)%Z -> rne_core n d = (m, e) ->
  - (qfrac n d * eps53) <= dval m e - qfrac n d <= qfrac n d * eps53 /\
  (p52 <= m < p53)%Z /\ tp 52 * tp e <= qfrac n d * (1 + eps53) /\ (-1074 < e)%Z.
Proof.
  intros Hn Hd Hnd Hc.
  destruct (rne_core_spec n d Hn Hd Hnd) as [q' [Hr [Hq [Hb [Hd2 Hcore]]]]].
  destruct (rne_exp_normal n d Hn Hd Hnd) as [He0 _].
  pose proof (scaled_Q n d (rne_exp n d) Hn Hd) as HsQ.
  set (e0 := rne_exp n d) in *. set (n2 := fst (scaled n d e0)) in *. set (d2 := snd (scaled n d e0)) in *.
  pose proof (tp_pos e0) as HT. pose proof (inject_pos d2 Hd2) as HD2.
  set (t := qfrac n d) in *.
  (* x = n2/d2 = t / 2^e0, 2^52 <= x, |q' - x| <= 1/2 *)
  assert (Hx : qfrac n2 d2 * tp e0 == t) by (rewrite HsQ; field; lra).
  assert (Hx52 : inject_Z p52 <= qfrac n2 d2).
  { unfold qfrac. apply Qle_shift_div_l; [exact HD2|]. rewrite <- inject_Z_mult, <- Zle_Qle. lia. }
  assert (Hup : inject_Z q' - qfrac n2 d2 <= 1 # 2).
  { unfold qfrac. assert (H : (2 * q' * d2 <= d2 + 2 * n2)%Z) by lia.
    rewrite Zle_Qle in H. rewrite inject_Z_plus, !inject_Z_mult in H.
    assert (E : inject_Z n2 == inject_Z n2 / inject_Z d2 * inject_Z d2) by (field; lra).
    set (X := inject_Z n2 / inject_Z d2) in *. change (inject_Z 2) with 2 in H. nra. }
  assert (Hlo : - (1 # 2) <= inject_Z q' - qfrac n2 d2).
  { unfold qfrac. assert (H : (2 * n2 <= d2 + 2 * q' * d2)%Z) by lia.
    rewrite Zle_Qle in H. rewrite inject_Z_plus, !inject_Z_mult in H.
    assert (E : inject_Z n2 == inject_Z n2 / inject_Z d2 * inject_Z d2) by (field; lra).
    set (X := inject_Z n2 / inject_Z d2) in *. change (inject_Z 2) with 2 in H. nra. }
  set (x := qfrac n2 d2) in *.
  assert (Hv : dval m e == inject_Z q' * tp e0 /\ (p52 <= m < p53)%Z /\ (e = e0 \/ e = (e0 + 1)%Z /\ m = p52)).
  { rewrite Hc in Hcore. destruct (Z.eqb_spec q' p53) as [E|E]; inversion Hcore; subst.
    - split; [|split; [unfold p52, p53; lia|right; split; reflexivity]].
      unfold dval. rewrite tp_succ. unfold p52, p53. 
      change (inject_Z 9007199254740992) with (2 * inject_Z 4503599627370496). ring.
    - split; [reflexivity|split; [unfold p52, p53 in *; lia|left; reflexivity]]. }
  destruct Hv as [Hv [Hm He]].
  assert (H52 : inject_Z p52 == tp 52) by reflexivity.
  assert (Heps : eps53 * tp 52 == 1 # 2) by reflexivity.
  assert (T52 : tp 52 == 4503599627370496) by reflexivity.
  rewrite H52, T52 in Hx52.
  assert (A1 : (inject_Z q' - x) * tp e0 <= (1 # 2) * tp e0) by (apply Qmult_le_compat_r; lra).
  assert (A2 : - (1 # 2) * tp e0 <= (inject_Z q' - x) * tp e0) by (apply Qmult_le_compat_r; lra).
  assert (A3 : 4503599627370496 * tp e0 <= x * tp e0) by (apply Qmult_le_compat_r; lra).
  split; [|split; [exact Hm|split]].
  - rewrite Hv. rewrite <- Hx. unfold eps53. split; lra.
  - (* 2^52 * 2^e <= t (1 + eps) *)
    rewrite <- Hx. rewrite T52.
    destruct He as [->|[-> ->]].
    + unfold eps53. lra.
    + (* carry: q' = 2^53, so x >= 2^53 - 1/2 *)
      rewrite tp_succ. rewrite Hc in Hcore.
      destruct (Z.eqb_spec q' p53) as [E|E]; [|inversion Hcore; unfold p52, p53 in *; lia].
      subst q'. unfold eps53.
      assert (E53 : inject_Z p53 == 9007199254740992) by reflexivity. rewrite E53 in *. lra.
  - destruct He as [->|[-> _]]; lia.
Qed.

Local Open Scope Q_scope.

Lemma tp_0 : tp 0 == 1. Proof. reflexivity. Qed.
Lemma tp_add a b : tp (a + b) == tp a * tp b.
Proof. unfold tp. apply Qpower_plus. discriminate. Qed.
Lemma dval_pos m e : (0 < m)%Z -> 0 < dval m e.
Proof. intros H. unfold dval. pose proof (tp_pos e). pose proof (inject_pos m H). nra. Qed.

Lemma dy_mul_Q a b : (0 < fst a)%Z -> (0 < fst b)%Z ->
  (0 < fst (dy_mul a b))%Z /\ (0 < snd (dy_mul a b))%Z /\
  qfrac (fst (dy_mul a b)) (snd (dy_mul a b)) == dval (fst a) (snd a) * dval (fst b) (snd b).
Proof.
  intros Ha Hb. unfold dy_mul, qfrac, dval. cbv zeta.
  pose proof (tp_add (snd a) (snd b)) as Hadd. pose proof (tp_pos (snd a + snd b)) as Ht.
  destruct (Z.leb_spec 0 (snd a + snd b)); cbn [fst snd].
  - assert (0 < 2 ^ (snd a + snd b))%Z by (apply Z.pow_pos_nonneg; lia).
    split; [nia|]. split; [lia|].
    rewrite !inject_Z_mult, tp_nonneg_Z by lia. rewrite Hadd. change (inject_Z 1) with 1. field.
  - assert (0 < 2 ^ (- (snd a + snd b)))%Z by (apply Z.pow_pos_nonneg; lia).
    split; [nia|]. split; [lia|].
    rewrite !inject_Z_mult, tp_nonneg_Z by lia. rewrite tp_neg, Hadd.
    pose proof (tp_pos (snd a)). pose proof (tp_pos (snd b)). field. split; lra.
Qed.

Lemma dy_div_Q a b : (0 < fst a)%Z -> (0 < fst b)%Z ->
  (0 < fst (dy_div a b))%Z /\ (0 < snd (dy_div a b))%Z /\
  qfrac (fst (dy_div a b)) (snd (dy_div a b)) == dval (fst a) (snd a) / dval (fst b) (snd b).
Proof.
  intros Ha Hb. unfold dy_div, qfrac, dval. cbv zeta.
  assert (Hadd : tp (snd a - snd b) == tp (snd a) / tp (snd b)).
  { unfold Z.sub. rewrite tp_add, tp_neg. reflexivity. }
  pose proof (tp_pos (snd a)). pose proof (tp_pos (snd b)).
  pose proof (inject_pos _ Ha). pose proof (inject_pos _ Hb).
  destruct (Z.leb_spec 0 (snd a - snd b)); cbn [fst snd].
  - assert (0 < 2 ^ (snd a - snd b))%Z by (apply Z.pow_pos_nonneg; lia).
    split; [nia|]. split; [lia|].
    rewrite !inject_Z_mult, tp_nonneg_Z by lia. rewrite Hadd. field. repeat split; lra.
  - assert (0 < 2 ^ (- (snd a - snd b)))%Z by (apply Z.pow_pos_nonneg; lia).
    split; [lia|]. split; [nia|].
    rewrite !inject_Z_mult, tp_nonneg_Z by lia. rewrite tp_neg, Hadd. field. repeat split; lra.
Qed.

(* math.Round on a positive dyadic: within 1/2, and the only integer strictly within 1/2 *)
Lemma rha_Z m e : (0 < m)%Z -> (e < 0)%Z ->
  let k := round_half_away m e in
  (2 * Z.abs (k * 2 ^ (- e) - m) <= 2 ^ (- e))%Z /\
  (forall K, (2 * Z.abs (K * 2 ^ (- e) - m) < 2 ^ (- e))%Z -> k = K).
Proof.
  intros Hm He. unfold round_half_away. destruct (Z.leb_spec 0 e); [lia|]. cbv zeta.
  assert (HD : (0 < 2 ^ (- e))%Z) by (apply Z.pow_pos_nonneg; lia).
  set (D := (2 ^ (- e))%Z) in *.
  pose proof (Z.div_mod m D ltac:(lia)). pose proof (Z.mod_pos_bound m D HD).
  set (q := (m / D)%Z) in *. set (r := (m mod D)%Z) in *.
  destruct (Z.leb_spec D (2 * r)); split; try nia; intros K HK; nia.
Qed.

Lemma rha_Q m e : (0 < m)%Z ->
  - (1 # 2) <= inject_Z (round_half_away m e) - dval m e <= 1 # 2.
Proof.
  intros Hm. destruct (Z.ltb_spec e 0) as [He|He].
  - destruct (rha_Z m e Hm He) as [Hk _]. set (k := round_half_away m e) in *.
    assert (HD : (0 < 2 ^ (- e))%Z) by (apply Z.pow_pos_nonneg; lia).
    unfold dval. pose proof (tp_pos e) as HT.
    assert (ET : tp e * inject_Z (2 ^ (- e)) == 1).
    { rewrite tp_nonneg_Z by lia. rewrite tp_neg. field. lra. }
    pose proof (inject_pos _ HD) as HDq. set (Dq := inject_Z (2 ^ (- e))) in *.
    assert (H1 : (2 * k * 2 ^ (- e) <= 2 ^ (- e) + 2 * m)%Z) by lia.
    assert (H2 : (2 * m <= 2 ^ (- e) + 2 * k * 2 ^ (- e))%Z) by lia.
    rewrite Zle_Qle in H1, H2. rewrite inject_Z_plus, !inject_Z_mult in H1, H2.
    change (inject_Z 2) with 2 in *. fold Dq in H1, H2.
    (* multiply by tp e > 0 *)
    assert (G1 : (2 * inject_Z k * Dq) * tp e <= (Dq + 2 * inject_Z m) * tp e) by (apply Qmult_le_compat_r; lra).
    assert (G2 : (2 * inject_Z m) * tp e <= (Dq + 2 * inject_Z k * Dq) * tp e) by (apply Qmult_le_compat_r; lra).
    assert (E1 : 2 * inject_Z k * Dq * tp e == 2 * inject_Z k * (tp e * Dq)) by ring.
    assert (E2 : (Dq + 2 * inject_Z m) * tp e == tp e * Dq + 2 * (inject_Z m * tp e)) by ring.
    assert (E3 : (Dq + 2 * inject_Z k * Dq) * tp e == tp e * Dq + 2 * inject_Z k * (tp e * Dq)) by ring.
    rewrite E1, E2 in G1. rewrite E3 in G2. rewrite ET in G1, G2. split; lra.
  - unfold round_half_away. destruct (Z.leb_spec 0 e); [|lia]. unfold dval.
    rewrite inject_Z_mult, tp_nonneg_Z by lia. split; lra.
Qed.

Lemma rha_unique m e K : (0 < m)%Z ->
  - (1 # 2) < dval m e - inject_Z K < 1 # 2 -> round_half_away m e = K.
Proof.
  intros Hm [H1 H2]. destruct (Z.ltb_spec e 0) as [He|He].
  - destruct (rha_Z m e Hm He) as [_ Hu]. apply Hu.
    assert (HD : (0 < 2 ^ (- e))%Z) by (apply Z.pow_pos_nonneg; lia).
    unfold dval in *. pose proof (tp_pos e) as HT.
    assert (ET : tp e * inject_Z (2 ^ (- e)) == 1).
    { rewrite tp_nonneg_Z by lia. rewrite tp_neg. field. lra. }
    pose proof (inject_pos _ HD) as HDq. set (Dq := inject_Z (2 ^ (- e))) in *.
    (* multiply the real inequalities by 2 Dq *)
    assert (G1 : - (1 # 2) * Dq < (inject_Z m * tp e - inject_Z K) * Dq) by (apply Qmult_lt_compat_r; lra).
    assert (G2 : (inject_Z m * tp e - inject_Z K) * Dq < (1 # 2) * Dq) by (apply Qmult_lt_compat_r; lra).
    assert (E : (inject_Z m * tp e - inject_Z K) * Dq == inject_Z m * (tp e * Dq) - inject_Z K * Dq) by ring.
    rewrite E, ET in G1, G2.
    assert (Z1 : (2 * K * 2 ^ (- e) < 2 ^ (- e) + 2 * m)%Z).
    { rewrite Zlt_Qlt. rewrite inject_Z_plus, !inject_Z_mult. change (inject_Z 2) with 2. fold Dq. lra. }
    assert (Z2 : (2 * m < 2 ^ (- e) + 2 * K * 2 ^ (- e))%Z).
    { rewrite Zlt_Qlt. rewrite inject_Z_plus, !inject_Z_mult. change (inject_Z 2) with 2. fold Dq. lra. }
    lia.
  - unfold round_half_away. destruct (Z.leb_spec 0 e); [|lia]. unfold dval in *.
    rewrite <- tp_nonneg_Z in H1, H2 by lia. rewrite <- inject_Z_mult in H1, H2.
    set (v := (m * 2 ^ e)%Z) in *.
    assert (Z1 : (2 * v < 1 + 2 * K)%Z).
    { rewrite Zlt_Qlt. rewrite inject_Z_plus, !inject_Z_mult. change (inject_Z 2) with 2. change (inject_Z 1) with 1. lra. }
    assert (Z2 : (2 * K < 1 + 2 * v)%Z).
    { rewrite Zlt_Qlt. rewrite inject_Z_plus, !inject_Z_mult. change (inject_Z 2) with 2. change (inject_Z 1) with 1. lra. }
    lia.
Qed.

Local Open Scope Q_scope.

Definition scaleQ (p : Z) : Q := (10 # 1) ^ p.
Lemma scaleQ_pos p : 0 < scaleQ p.
Proof. unfold scaleQ. apply Qpower_0_lt. reflexivity. Qed.

Lemma pow10abs_pos p : (0 < fst (pow10abs p))%Z.
Proof. unfold pow10abs. cbn [fst]. apply Z.pow_pos_nonneg; lia. Qed.
Lemma pow10abs_Q p : dval (fst (pow10abs p)) (snd (pow10abs p)) == (10 # 1) ^ Z.abs p.
Proof.
  unfold pow10abs, dval. cbn [fst snd]. rewrite tp_0. rewrite Zpower_Qpower by lia.
  change (inject_Z 10) with (10 # 1). ring.
Qed.

(* a rational that is at least 2^-1000 is in the range where rne does not go subnormal *)
Lemma frac_lower n d : (0 < n)%Z -> (0 < d)%Z -> tp (-1000) <= qfrac n d -> (d <= n * 2 ^ 1000)%Z.
Proof.
  intros Hn Hd H. rewrite Zle_Qle, inject_Z_mult, tp_nonneg_Z by lia.
  pose proof (tp_pos 1000) as HT. pose proof (inject_pos d Hd) as HD. unfold qfrac in H.
  change (-1000)%Z with (- (1000))%Z in H. rewrite tp_neg in H.
  assert (G : / tp 1000 * (tp 1000 * inject_Z d) <= inject_Z n / inject_Z d * (tp 1000 * inject_Z d)).
  { apply Qmult_le_compat_r; [exact H|]. nra. }
  assert (E1 : / tp 1000 * (tp 1000 * inject_Z d) == inject_Z d) by (field; lra).
  assert (E2 : inject_Z n / inject_Z d * (tp 1000 * inject_Z d) == inject_Z n * tp 1000) by (field; lra).
  rewrite E1, E2 in G. exact G.
Qed.

(* the exact rational the writer rounds: x * 10^p, for both signs of p *)
Lemma quant_frac m e p : (0 < m)%Z ->
  let nd := if (0 <=? p)%Z then dy_mul (m, e) (pow10abs p) else dy_div (m, e) (pow10abs p) in
  (0 < fst nd)%Z /\ (0 < snd nd)%Z /\ qfrac (fst nd) (snd nd) == dval m e * scaleQ p.
Proof.
  intros Hm. cbv zeta. pose proof (pow10abs_pos p) as HP. pose proof (pow10abs_Q p) as HQ.
  destruct (Z.leb_spec 0 p).
  - destruct (dy_mul_Q (m, e) (pow10abs p) Hm HP) as [H1 [H2 H3]]. split; [exact H1|]. split; [exact H2|].
    rewrite H3, HQ. cbn [fst snd]. unfold scaleQ. rewrite Z.abs_eq by lia. reflexivity.
  - destruct (dy_div_Q (m, e) (pow10abs p) Hm HP) as [H1 [H2 H3]]. split; [exact H1|]. split; [exact H2|].
    rewrite H3, HQ. cbn [fst snd]. unfold scaleQ.
    replace p with (- Z.abs p)%Z at 2 by lia. rewrite Qpower_opp. reflexivity.
Qed.

Lemma tp_mono a b : (a <= b)%Z -> tp a <= tp b.
Proof. intros H. unfold tp. apply Qpower_le_compat_l; [exact H|]. discriminate. Qed.
Lemma scaleQ_mono a b : (a <= b)%Z -> scaleQ a <= scaleQ b.
Proof. intros H. unfold scaleQ. apply Qpower_le_compat_l; [exact H|]. discriminate. Qed.
Lemma tp_lt_inv a b : tp a < tp b -> (a < b)%Z.
Proof. unfold tp. intros H. apply (Qpower_lt_compat_l_inv (2 # 1)); [exact H|reflexivity]. Qed.

(* ------------------------------------------------------------------ theorem 1 *)
(* What the writer's quantisation computes: math.Round(fl(x * 10^p)). The integer is within 1/2 of
   the rounded product, and the rounded product is within 2^-53 (relative) of x * 10^p. *)
Theorem quant_spec_lemma p bits s m e k :
  fdec bits = Some (s, m, e) -> (-970 <= e)%Z -> (-8 <= p <= 8)%Z -> quant p bits = Ok k ->
  let t := dval m e * scaleQ p in            (* |x| * 10^p *)
  let sk := inject_Z (if s then - k else k) in  (* |k| with x's sign removed *)
  - (1 # 2) - t * eps53 <= sk - t <= (1 # 2) + t * eps53.
Proof.
  intros Hf He Hp Hq. cbv zeta. unfold quant in Hq. rewrite Hf in Hq.
  assert (Hm0 : (0 <= m)%Z).
  { unfold fdec in Hf. cbv zeta in Hf. destruct (_ =? 2047)%Z; [discriminate|].
    destruct (_ =? 0)%Z; inversion Hf; subst; unfold p52;
      pose proof (Z.mod_pos_bound (Z.of_N bits) 4503599627370496 ltac:(lia)); lia. }
  destruct (Z.eqb_spec m 0) as [->|Hm].
  - inversion Hq; subst k. unfold dval.
    assert (E : inject_Z (if s then - 0 else 0) == 0) by (destruct s; reflexivity).
    rewrite E. change (inject_Z 0) with 0. unfold eps53. split; ring_simplify; discriminate.
  - assert (Hmp : (0 < m)%Z) by lia.
    destruct (quant_frac m e p Hmp) as [Hn [Hd Hfr]]. cbv zeta in Hn, Hd, Hfr.
    destruct (if (0 <=? p)%Z then dy_mul (m, e) (pow10abs p) else dy_div (m, e) (pow10abs p)) as [n d].
    cbn [fst snd] in *.
    assert (Hlow : tp (-1000) <= qfrac n d).
    { rewrite Hfr. unfold dval.
      assert (1 <= inject_Z m) by (change 1 with (inject_Z 1); rewrite <- Zle_Qle; lia).
      pose proof (tp_mono (-970) e He). pose proof (scaleQ_mono (-8) p ltac:(lia)).
      pose proof (tp_pos (-970)). pose proof (scaleQ_pos (-8)).
      assert (C : tp (-1000) <= 1 * tp (-970) * scaleQ (-8)) by (vm_compute; discriminate).
      assert (tp (-970) * scaleQ (-8) <= tp e * scaleQ p) by (apply Qmult_le_compat_nonneg; split; lra).
      pose proof (tp_pos e). pose proof (scaleQ_pos p).
      assert (P : 0 <= tp e * scaleQ p) by nra.
      assert (1 * (tp e * scaleQ p) <= inject_Z m * (tp e * scaleQ p)) by (apply Qmult_le_compat_r; assumption).
      lra. }
    pose proof (frac_lower n d Hn Hd Hlow) as Hnd.
    rewrite rne_unfold in Hq. destruct (rne_core n d) as [m' e'] eqn:Ec.
    destruct (971 <? e')%Z; [discriminate|].
    destruct (rne_core_Q n d m' e' Hn Hd Hnd Ec) as [[Hv1 Hv2] [Hm' _]].
    destruct (in_i64b _); [|discriminate]. inversion Hq; subst k. clear Hq.
    assert (Hmp' : (0 < m')%Z) by (unfold p52 in Hm'; lia).
    pose proof (rha_Q m' e' Hmp') as [Hr1 Hr2].
    rewrite Hfr in Hv1, Hv2.
    assert (Esk : (if s then - (if s then - round_half_away m' e' else round_half_away m' e')
                   else (if s then - round_half_away m' e' else round_half_away m' e'))%Z
                  = round_half_away m' e') by (destruct s; lia).
    rewrite Esk. split; lra.
Qed.

Local Open Scope Q_scope.

(* bit pattern of a normal double and back *)
Lemma fdec_fenc s m e :
  (p52 <= m < p53)%Z -> (-1074 < e <= 971)%Z -> fdec (fenc s m e) = Some (s, m, e).
Proof.
  intros Hm He. unfold fenc, fdec. cbv zeta. unfold p52, p53 in *.
  destruct (Z.ltb_spec m 4503599627370496); [lia|].
  set (z := ((if s then 9223372036854775808 else 0) + ((e + 1075) * 4503599627370496 + (m - 4503599627370496)))%Z).
  assert (Hz : (0 <= z)%Z) by (unfold z; destruct s; lia).
  rewrite Z2N.id by exact Hz.
  assert (E1 : (z mod 4503599627370496 = m - 4503599627370496)%Z).
  { unfold z. destruct s; Z.div_mod_to_equations; lia. }
  assert (E2 : ((z / 4503599627370496) mod 2048 = e + 1075)%Z).
  { unfold z. destruct s; Z.div_mod_to_equations; lia. }
  assert (E3 : ((z / 9223372036854775808) mod 2 =? 1)%Z = s).
  { unfold z. destruct s; [apply Z.eqb_eq|apply Z.eqb_neq]; Z.div_mod_to_equations; lia. }
  rewrite E1, E2, E3.
  destruct (Z.eqb_spec (e + 1075) 2047); [lia|]. destruct (Z.eqb_spec (e + 1075) 0); [lia|].
  f_equal. f_equal; [f_equal|]; lia.
Qed.

(* float64(K) is exact for 0 < K < 2^52 *)
Lemma rne_int K : (0 < K < p52)%Z ->
  exists mk ek, rne K 1 = Some (mk, ek) /\ dval mk ek == inject_Z K /\ (0 < mk)%Z.
Proof.
  intros HK. assert (Hnd : (1 <= K * 2 ^ 1000)%Z) by (assert (0 < 2 ^ 1000)%Z by (apply Z.pow_pos_nonneg; lia); nia).
  destruct (rne_core_spec K 1 ltac:(lia) ltac:(lia) Hnd) as [q' [Hr [Hq [Hb [Hd2 Hcore]]]]].
  destruct (rne_exp_normal K 1 ltac:(lia) ltac:(lia) Hnd) as [He0 [_ [Hup _]]].
  cbv zeta in *. set (e0 := rne_exp K 1) in *.
  assert (Hlog : (Z.log2 K < 52)%Z).
  { apply Z.log2_lt_pow2; [lia|]. unfold p52 in HK. change (2 ^ 52)%Z with 4503599627370496%Z. lia. }
  change (Z.log2 1) with 0%Z in Hup.
  assert (Hneg : (e0 < 0)%Z) by lia.
  unfold scaled in *. destruct (Z.leb_spec 0 e0); [lia|]. cbn [fst snd] in *.
  assert (HD : (0 < 2 ^ (- e0))%Z) by (apply Z.pow_pos_nonneg; lia).
  assert (Eq : q' = (K * 2 ^ (- e0))%Z) by lia.
  assert (Hnc : (q' =? p53)%Z = false) by (apply Z.eqb_neq; lia).
  rewrite Hnc in Hcore.
  exists q', e0. split; [|split].
  - rewrite rne_unfold, Hcore. destruct (Z.ltb_spec 971 e0); [lia|reflexivity].
  - subst q'. unfold dval. rewrite inject_Z_mult, tp_nonneg_Z by lia. rewrite tp_neg.
    pose proof (tp_pos e0). field. lra.
  - unfold p52 in *. lia.
Qed.

(* the exact rational the parser rounds: K / 10^p, for both signs of p *)
Lemma dequant_frac m e p : (0 < m)%Z ->
  let nd := if (0 <=? p)%Z then dy_div (m, e) (pow10abs p) else dy_mul (m, e) (pow10abs p) in
  (0 < fst nd)%Z /\ (0 < snd nd)%Z /\ qfrac (fst nd) (snd nd) == dval m e / scaleQ p.
Proof.
  intros Hm. cbv zeta. pose proof (pow10abs_pos p) as HP. pose proof (pow10abs_Q p) as HQ.
  destruct (Z.leb_spec 0 p).
  - destruct (dy_div_Q (m, e) (pow10abs p) Hm HP) as [H1 [H2 H3]]. split; [exact H1|]. split; [exact H2|].
    rewrite H3, HQ. cbn [fst snd]. unfold scaleQ. rewrite Z.abs_eq by lia. reflexivity.
  - destruct (dy_mul_Q (m, e) (pow10abs p) Hm HP) as [H1 [H2 H3]]. split; [exact H1|]. split; [exact H2|].
    rewrite H3, HQ. cbn [fst snd]. unfold scaleQ.
    replace p with (- Z.abs p)%Z at 2 by lia. rewrite Qpower_opp.
    assert (0 < (10 # 1) ^ Z.abs p) by (apply Qpower_0_lt; reflexivity). field. lra.
Qed.

(* ------------------------------------------------------------------ theorem 2 *)
(* Re-encoding a decoded value is stable: for |k| < 2^40 and every admissible precision the double
   that the parser produces for k (float64(k) / 10^p, or float64(k) * 10^-p for p < 0) is quantised
   back to exactly k. These doubles are the grid points as the implementation has them, so this is
   "exactly g when g already lies on the grid". *)
Theorem quant_dequant_lemma p k :
  (-8 <= p <= 7)%Z -> (Z.abs k < 2 ^ 40)%Z -> quant p (dequant p k) = Ok k.
Proof.
  intros Hp Hk. unfold dequant. destruct (Z.eqb_spec k 0) as [->|Hk0].
  - reflexivity.
  - set (K := Z.abs k) in *.
    assert (HK : (0 < K < p52)%Z) by (unfold p52; change (2 ^ 40)%Z with 1099511627776%Z in Hk; lia).
    destruct (rne_int K HK) as [mk [ek [Ek [Vk Hmk]]]]. rewrite Ek.
    (* y = fl(K / 10^p) *)
    destruct (dequant_frac mk ek p Hmk) as [Hn [Hd Hfr]]. cbv zeta in Hn, Hd, Hfr.
    rewrite Vk in Hfr.
    destruct (if (0 <=? p)%Z then dy_div (mk, ek) (pow10abs p) else dy_mul (mk, ek) (pow10abs p)) as [n d].
    cbn [fst snd] in *.
    pose proof (scaleQ_pos p) as HS. set (P := scaleQ p) in *.
    assert (HP1 : 1 # 100000000 <= P) by (pose proof (scaleQ_mono (-8) p ltac:(lia)) as H0; exact H0).
    assert (HP7 : P <= 10000000) by (pose proof (scaleQ_mono p 7 ltac:(lia)) as H0; exact H0).
    assert (HK1 : 1 <= inject_Z K) by (change 1 with (inject_Z 1); rewrite <- Zle_Qle; lia).
    assert (HK40 : inject_Z K <= 1099511627775).
    { change 1099511627775 with (inject_Z 1099511627775). rewrite <- Zle_Qle.
      change (2 ^ 40)%Z with 1099511627776%Z in Hk. lia. }
    set (Kq := inject_Z K) in *. set (y0 := qfrac n d) in *.
    assert (Ey0 : y0 * P == Kq) by (rewrite Hfr; field; lra).
    assert (Hy0lo : 1 # 10000000 <= y0).
    { rewrite Hfr. apply Qle_shift_div_l; [exact HS|]. lra. }
    assert (Hy0hi : y0 <= 109951162777500000000).
    { rewrite Hfr. apply Qle_shift_div_r; [exact HS|]. nra. }
    assert (Hlow : tp (-1000) <= y0).
    { assert (C : tp (-1000) <= 1 # 10000000) by (vm_compute; discriminate). lra. }
    pose proof (frac_lower n d Hn Hd Hlow) as Hnd.
    rewrite rne_unfold. destruct (rne_core n d) as [my ey] eqn:Ecy.
    destruct (rne_core_Q n d my ey Hn Hd Hnd Ecy) as [[Hy1 Hy2] [Hmy [Hey1 Hey2]]].
    fold y0 in Hy1, Hy2, Hey1.
    assert (Hey3 : (ey < 16)%Z).
    { assert (Htp : tp (52 + ey) < tp 68).
      { rewrite tp_add. assert (C68 : tp 68 == 295147905179352825856) by reflexivity. rewrite C68.
        unfold eps53 in Hey1. lra. }
      apply tp_lt_inv in Htp. lia. }
    destruct (Z.ltb_spec 971 ey); [lia|].
    unfold quant. rewrite fdec_fenc by (try exact Hmy; lia).
    destruct (Z.eqb_spec my 0); [unfold p52 in Hmy; lia|].
    assert (Hmyp : (0 < my)%Z) by (unfold p52 in Hmy; lia).
    (* w = y * 10^p, z = fl(w) *)
    destruct (quant_frac my ey p Hmyp) as [Hn' [Hd' Hfr']]. cbv zeta in Hn', Hd', Hfr'. fold P in Hfr'.
    destruct (if (0 <=? p)%Z then dy_mul (my, ey) (pow10abs p) else dy_div (my, ey) (pow10abs p)) as [n' d'].
    cbn [fst snd] in *.
    set (y := dval my ey) in *. set (w := qfrac n' d') in *.
    (* |w - K| <= K eps *)
    assert (W1 : (y - y0) * P <= y0 * eps53 * P) by (apply Qmult_le_compat_r; lra).
    assert (W2 : - (y0 * eps53) * P <= (y - y0) * P) by (apply Qmult_le_compat_r; lra).
    assert (EW : (y - y0) * P == w - Kq) by (rewrite Hfr', <- Ey0; ring).
    assert (EW2 : y0 * eps53 * P == Kq * eps53) by (rewrite <- Ey0; ring).
    assert (EW3 : - (y0 * eps53) * P == - (Kq * eps53)) by (rewrite <- Ey0; ring).
    rewrite EW, EW2 in W1. rewrite EW, EW3 in W2.
    assert (Hwlo : 1 # 2 <= w) by (unfold eps53 in *; lra).
    assert (Hlow' : tp (-1000) <= w).
    { assert (C : tp (-1000) <= 1 # 2) by (vm_compute; discriminate). lra. }
    pose proof (frac_lower n' d' Hn' Hd' Hlow') as Hnd'.
    rewrite rne_unfold. destruct (rne_core n' d') as [mz ez] eqn:Ecz.
    destruct (rne_core_Q n' d' mz ez Hn' Hd' Hnd' Ecz) as [[Hz1 Hz2] [Hmz [Hez1 Hez2]]].
    fold w in Hz1, Hz2, Hez1.
    assert (Hez3 : (ez < -11)%Z).
    { assert (Htp : tp (52 + ez) < tp 41).
      { rewrite tp_add. assert (C41 : tp 41 == 2199023255552) by reflexivity. rewrite C41.
        unfold eps53 in *. lra. }
      apply tp_lt_inv in Htp. lia. }
    destruct (Z.ltb_spec 971 ez); [lia|].
    assert (Hmzp : (0 < mz)%Z) by (unfold p52 in Hmz; lia).
    assert (Hrk : round_half_away mz ez = K).
    { apply rha_unique; [exact Hmzp|]. fold Kq. unfold eps53 in *. split; lra. }
    rewrite Hrk.
    assert (Ek' : (if (k <? 0)%Z then (- K)%Z else K) = k) by (unfold K; destruct (Z.ltb_spec k 0); lia).
    rewrite Ek'.
    assert (Hin : in_i64b k = true).
    { apply in_i64b_iff. unfold in_i64, two63. change (2 ^ 40)%Z with 1099511627776%Z in Hk. lia. }
    rewrite Hin. reflexivity.
Qed.

Local Open Scope Q_scope.

(* What the parser's conversion computes: the double for k is k / 10^p up to ONE rounding
   (relative 2^-53): float64(k) is exact for |k| < 2^52 and the division (multiplication for
   p < 0) is correctly rounded. *)
Theorem dequant_spec_lemma p k :
  (-8 <= p <= 7)%Z -> (0 < Z.abs k < 2 ^ 40)%Z ->
  exists m e, fdec (dequant p k) = Some ((k <? 0)%Z, m, e) /\
    let t := inject_Z (Z.abs k) / scaleQ p in
    - (t * eps53) <= dval m e - t <= t * eps53.
Proof.
  intros Hp Hk. unfold dequant. destruct (Z.eqb_spec k 0) as [->|Hk0]; [cbn in Hk; lia|].
  set (K := Z.abs k) in *.
  assert (HK : (0 < K < p52)%Z) by (unfold p52; change (2 ^ 40)%Z with 1099511627776%Z in Hk; lia).
  destruct (rne_int K HK) as [mk [ek [Ek [Vk Hmk]]]]. rewrite Ek.
  destruct (dequant_frac mk ek p Hmk) as [Hn [Hd Hfr]]. cbv zeta in Hn, Hd, Hfr. rewrite Vk in Hfr.
  destruct (if (0 <=? p)%Z then dy_div (mk, ek) (pow10abs p) else dy_mul (mk, ek) (pow10abs p)) as [n d].
  cbn [fst snd] in *.
  pose proof (scaleQ_pos p) as HS. set (P := scaleQ p) in *.
  assert (HP1 : 1 # 100000000 <= P) by (pose proof (scaleQ_mono (-8) p ltac:(lia)) as H0; exact H0).
  assert (HP7 : P <= 10000000) by (pose proof (scaleQ_mono p 7 ltac:(lia)) as H0; exact H0).
  assert (HK1 : 1 <= inject_Z K) by (change 1 with (inject_Z 1); rewrite <- Zle_Qle; lia).
  assert (HK40 : inject_Z K <= 1099511627775).
  { change 1099511627775 with (inject_Z 1099511627775). rewrite <- Zle_Qle.
    change (2 ^ 40)%Z with 1099511627776%Z in Hk. lia. }
  set (Kq := inject_Z K) in *. set (y0 := qfrac n d) in *.
  assert (Hy0lo : 1 # 10000000 <= y0).
  { rewrite Hfr. apply Qle_shift_div_l; [exact HS|]. lra. }
  assert (Hy0hi : y0 <= 109951162777500000000).
  { rewrite Hfr. apply Qle_shift_div_r; [exact HS|]. nra. }
  assert (Hlow : tp (-1000) <= y0).
  { assert (C : tp (-1000) <= 1 # 10000000) by (vm_compute; discriminate). lra. }
  pose proof (frac_lower n d Hn Hd Hlow) as Hnd.
  rewrite rne_unfold. destruct (rne_core n d) as [my ey] eqn:Ecy.
  destruct (rne_core_Q n d my ey Hn Hd Hnd Ecy) as [[Hy1 Hy2] [Hmy [Hey1 Hey2]]].
  fold y0 in Hy1, Hy2, Hey1.
  assert (Hey3 : (ey < 16)%Z).
  { assert (Htp : tp (52 + ey) < tp 68).
    { rewrite tp_add. assert (C68 : tp 68 == 295147905179352825856) by reflexivity. rewrite C68.
      unfold eps53 in Hey1. lra. }
    apply tp_lt_inv in Htp. lia. }
  destruct (Z.ltb_spec 971 ey); [lia|].
  exists my, ey. split; [apply fdec_fenc; [exact Hmy|lia]|].
  cbv zeta. rewrite <- Hfr. fold y0. split; assumption.
Qed.

