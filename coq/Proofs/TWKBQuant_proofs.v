(* The parser-totality facts of Proofs/TWKB_proofs.v instantiated at the float carrier, i.e. for
   the model of UnmarshalTWKB itself (Model/TWKBQuant.v:unmarshal_f). *)
From Coq Require Import NArith ZArith List Bool Lia.
From SF Require Import Base.Outcome Base.Bytes Base.GeomAST Base.Varint Model.TWKB Model.TWKBQuant
                       Proofs.TWKB_proofs.
Import ListNotations.

Lemma unmarshal_f_no_panic_lemma bs : forall p, unmarshal_f bs <> Panic p.
Proof.
  intros p. unfold unmarshal_f. pose proof (dec_full_total N 0%N N.eqb dequant bs) as H.
  destruct (dec_full N 0%N N.eqb dequant bs) as [[[g h] ids] s|e a|pc a]; try discriminate. destruct H.
Qed.

Lemma unmarshal_f_fuel_enough_lemma bs : unmarshal_f bs <> Err EFuel.
Proof.
  unfold unmarshal_f. pose proof (dec_full_total N 0%N N.eqb dequant bs) as H.
  destruct (dec_full N 0%N N.eqb dequant bs) as [[[g h] ids] s|e a|pc a]; try discriminate.
  destruct H as [H _]. congruence.
Qed.

(* the count-sized allocation of the float parser is the same function of the input as that of the
   integer parser's: both are bounded by 8 bytes per input byte *)
Lemma unmarshal_f_alloc_linear_lemma bs :
  (match dec_full N 0%N N.eqb dequant bs with TOk _ s => s_alloc s | TErr _ a => a | TPanic _ a => a end
   <= 8 * N.of_nat (length bs))%N.
Proof.
  pose proof (dec_full_total N 0%N N.eqb dequant bs) as H.
  destruct (dec_full N 0%N N.eqb dequant bs) as [[[g h] ids] s|e a|pc a];
    [exact H|destruct H as [_ H]; exact H|destruct H].
Qed.
