(* Proofs about the TWKB model.
   Part A: the parser is total: it never panics, never runs out of fuel, and the bytes it
           requests through count-sized make() calls are bounded by 8 * input length
           (for every ordinate carrier, so also for the float instance = UnmarshalTWKB).
   Part B: round trip of the integer layer and truth of the headers. *)
From Coq Require Import NArith ZArith List Bool Lia.
From Coq Require Import ZifyN ZifyNat ZifyBool.
From SF Require Import Base.Outcome Base.Bytes Base.GeomAST Base.Varint Model.TWKB.
Import ListNotations.

Ltac Zify.zify_post_hook ::= Z.div_mod_to_equations.

(* ================================================================== Part A *)
Definition len (s : pst) : N := N.of_nat (length (s_in s)).

(* [safe_at k Q p s]: run on s, p does not panic, does not fail for lack of fuel, on success
   returns a value satisfying Q and has consumed at least k bytes, and the allocation counter
   plus 8 * (unread bytes) never grows *)
Definition safe_at {A} (k : nat) (Q : A -> Prop) (p : TP A) (s : pst) : Prop :=
  match p s with
  | TOk a s' => Q a /\ (length (s_in s') + k <= length (s_in s))%nat /\
                (s_alloc s' + 8 * len s' <= s_alloc s + 8 * len s)%N
  | TErr e a => e <> EFuel /\ (a <= s_alloc s + 8 * len s)%N
  | TPanic _ _ => False
  end.

Lemma safe_weaken {A} k k' (Q Q' : A -> Prop) p s :
  (k' <= k)%nat -> (forall a, Q a -> Q' a) -> safe_at k Q p s -> safe_at k' Q' p s.
Proof.
  unfold safe_at. intros Hk HQ. destruct (p s) as [a s'|e a|pc a]; auto.
  intros [H1 [H2 H3]]. split; [auto|]. split; [lia|exact H3].
Qed.

Lemma safe_ret {A} (Q : A -> Prop) (a : A) s : Q a -> safe_at 0 Q (tret a) s.
Proof. unfold safe_at, tret. intros H. split; [exact H|]. split; lia. Qed.

Lemma safe_fail {A} (Q : A -> Prop) e s k : e <> EFuel -> safe_at k Q (@tfail A e) s.
Proof. unfold safe_at, tfail. intros H. split; [exact H|lia]. Qed.

Lemma safe_bind {A B} k k1 k2 (Q1 : A -> Prop) (Q2 : B -> Prop) (m : TP A) (f : A -> TP B) s :
  safe_at k1 Q1 m s ->
  (forall a s', Q1 a -> (length (s_in s') + k1 <= length (s_in s))%nat -> safe_at k2 Q2 (f a) s') ->
  (k <= k1 + k2)%nat ->
  safe_at k Q2 (tbind m f) s.
Proof.
  unfold safe_at, tbind. intros Hm Hf Hk.
  destruct (m s) as [a s1|e a|pc a]; auto.
  destruct Hm as [Hq [Hl Ha]]. specialize (Hf a s1 Hq ltac:(lia)).
  destruct (f a s1) as [b s2|e a2|pc a2]; auto.
  - destruct Hf as [Hq2 [Hl2 Ha2]]. split; [exact Hq2|]. split; lia.
  - destruct Hf as [He Ha2]. split; [exact He|lia].
Qed.

Lemma safe_lift {A} (Q : A -> Prop) (o : outcome A) s :
  (exists a, o = Ok a /\ Q a) \/ (exists e, o = Err e /\ e <> EFuel) -> safe_at 0 Q (tlift o) s.
Proof.
  unfold safe_at, tlift. intros [[a [-> H]]|[e [-> H]]].
  - split; [exact H|]. split; lia.
  - split; [exact H|lia].
Qed.

Lemma advance_in s rest : s_in (advance s rest) = rest.
Proof. reflexivity. Qed.
Lemma advance_alloc s rest : s_alloc (advance s rest) = s_alloc s.
Proof. reflexivity. Qed.

Lemma safe_rd_byte s : safe_at 1 (fun _ => True) rd_byte s.
Proof.
  unfold safe_at, rd_byte, len. destruct (s_in s) as [|b r] eqn:E.
  - split; [discriminate|lia].
  - cbn [s_in s_alloc advance length]. split; [exact I|]. split; lia.
Qed.

Lemma safe_rd_uv s : safe_at 1 (fun _ => True) rd_uv s.
Proof.
  unfold safe_at, rd_uv, len. destruct (uv_dec (s_in s)) as [v rest| |] eqn:E.
  - apply uv_dec_length in E. cbn [s_in s_alloc advance]. split; [exact I|]. split; lia.
  - split; [discriminate|lia].
  - split; [discriminate|lia].
Qed.

Lemma safe_rd_sv s : safe_at 1 (fun _ => True) rd_sv s.
Proof.
  unfold safe_at, rd_sv, len. destruct (sv_dec (s_in s)) as [v rest| |] eqn:E.
  - apply sv_dec_length in E. cbn [s_in s_alloc advance]. split; [exact I|]. split; lia.
  - split; [discriminate|lia].
  - split; [discriminate|lia].
Qed.

(* readers that never allocate: the counter is unchanged on every path *)
Definition pure_at {A} (k : nat) (Q : A -> Prop) (p : TP A) (s : pst) : Prop :=
  match p s with
  | TOk a s' => Q a /\ (length (s_in s') + k <= length (s_in s))%nat /\ s_alloc s' = s_alloc s
  | TErr e a => e <> EFuel /\ a = s_alloc s
  | TPanic _ _ => False
  end.

Lemma pure_safe {A} k (Q : A -> Prop) p s : pure_at k Q p s -> safe_at k Q p s.
Proof.
  unfold pure_at, safe_at, len. destruct (p s) as [a s'|e a|pc a]; auto.
  - intros [H1 [H2 H3]]. split; [exact H1|]. split; [exact H2|]. rewrite H3. lia.
  - intros [H1 H2]. split; [exact H1|]. rewrite H2. lia.
Qed.

Lemma pure_bind {A B} k k1 k2 (Q1 : A -> Prop) (Q2 : B -> Prop) (m : TP A) (f : A -> TP B) s :
  pure_at k1 Q1 m s -> (forall a s', Q1 a -> pure_at k2 Q2 (f a) s') ->
  (k <= k1 + k2)%nat ->
  pure_at k Q2 (tbind m f) s.
Proof.
  unfold pure_at, tbind. intros Hm Hf Hk.
  destruct (m s) as [a s1|e a|pc a]; auto.
  destruct Hm as [Hq [Hl Ha]]. specialize (Hf a s1 Hq).
  destruct (f a s1) as [b s2|e a2|pc a2]; auto.
  - destruct Hf as [Hq2 [Hl2 Ha2]]. split; [exact Hq2|]. split; [lia|congruence].
  - destruct Hf as [He Ha2]. split; [exact He|congruence].
Qed.

Lemma pure_ret {A} (Q : A -> Prop) (a : A) s : Q a -> pure_at 0 Q (tret a) s.
Proof. unfold pure_at, tret. intros H. split; [exact H|]. split; [lia|reflexivity]. Qed.

Lemma pure_rd_sv s : pure_at 1 (fun _ => True) rd_sv s.
Proof.
  unfold pure_at, rd_sv. destruct (sv_dec (s_in s)) as [v rest| |] eqn:E.
  - apply sv_dec_length in E. cbn [s_in s_alloc advance]. split; [exact I|]. split; [lia|reflexivity].
  - split; [discriminate|reflexivity].
  - split; [discriminate|reflexivity].
Qed.

Lemma pure_rd_svs n s : pure_at n (fun l => length l = n) (rd_svs n) s.
Proof.
  revert s. induction n as [|n IH]; intros s; cbn [rd_svs].
  - apply pure_ret. reflexivity.
  - eapply (pure_bind _ 1%nat n); [apply pure_rd_sv| |lia].
    intros v s1 _. eapply (pure_bind _ n 0%nat); [apply IH| |lia].
    intros l s2 Hl. apply pure_ret. cbn [length]. congruence.
Qed.

Lemma pure_rd_pt ref s : pure_at (length ref) (fun p => length p = length ref) (rd_pt ref) s.
Proof.
  revert s. induction ref as [|r ref IH]; intros s; cbn [rd_pt length].
  - apply pure_ret. reflexivity.
  - eapply (pure_bind _ 1%nat (length ref)); [apply pure_rd_sv| |lia].
    intros v s1 _. eapply (pure_bind _ (length ref) 0%nat); [apply IH| |lia].
    intros l s2 Hl. apply pure_ret. cbn [length]. congruence.
Qed.

Definition pts_ok (d : nat) (n : nat) (r : list (list Z) * list Z) : Prop :=
  Forall (fun p => length p = d) (fst r) /\ length (snd r) = d /\ length (fst r) = n.

Lemma pure_rd_pts n : forall ref s,
  pure_at (n * length ref) (pts_ok (length ref) n) (rd_pts n ref) s.
Proof.
  induction n as [|n IH]; intros ref s; cbn [rd_pts].
  - apply pure_ret. repeat split; constructor.
  - eapply (pure_bind _ (length ref) (n * length ref)%nat); [apply pure_rd_pt| |lia].
    intros p s1 Hp. eapply (pure_bind _ (n * length p)%nat 0%nat); [apply IH| |rewrite Hp; lia].
    intros r s2 [H1 [H2 H3]]. apply pure_ret. rewrite Hp in *.
    repeat split; cbn [fst snd length]; auto.
Qed.

(* checkCount (fix F7) *)
Lemma check_count_spec cnt minb s :
  match check_count cnt minb s with
  | TOk _ s' => s' = s /\ (N.to_nat cnt * minb <= length (s_in s))%nat
  | TErr e a => e <> EFuel /\ a = s_alloc s
  | TPanic _ _ => False
  end.
Proof.
  unfold check_count. destruct (N.ltb_spec (N.of_nat (length (s_in s) / minb)) cnt).
  - split; [discriminate|reflexivity].
  - split; [reflexivity|]. destruct minb as [|m]; [lia|].
    pose proof (Nat.div_mod_eq (length (s_in s)) (S m)).
    assert (N.to_nat cnt <= length (s_in s) / S m)%nat by lia. nia.
Qed.

Lemma safe_check_count cnt minb s : safe_at 0 (fun _ => True) (check_count cnt minb) s.
Proof.
  pose proof (check_count_spec cnt minb s) as H. unfold safe_at.
  destruct (check_count cnt minb s) as [u s'|e a|pc a]; [|destruct H as [H1 H2]; split; [exact H1|unfold len; lia]|exact H].
  destruct H as [-> _]. split; [exact I|]. split; lia.
Qed.

(* parsePointCountAndArray: the count-sized make() is covered by the bytes the points need *)
Lemma safe_parse_count_array ref s :
  safe_at 1 (fun r => exists n, pts_ok (length ref) n (fst r)) (parse_count_array ref) s.
Proof.
  unfold parse_count_array.
  eapply (safe_bind _ 1%nat 0%nat); [apply safe_rd_uv| |lia].
  intros cnt s1 _ _. unfold safe_at, tbind at 1.
  pose proof (check_count_spec cnt (length ref) s1) as Hc.
  destruct (check_count cnt (length ref) s1) as [u s2|e a|pc a];
    [|destruct Hc as [H1 H2]; split; [exact H1|unfold len; lia]|destruct Hc].
  destruct Hc as [-> Hb].
  pose proof (pure_rd_pts (N.to_nat cnt) ref
                {| s_in := s_in s1; s_pos := s_pos s1;
                   s_alloc := (s_alloc s1 + 8 * cnt * N.of_nat (length ref))%N |}) as Hp.
  unfold tbind, talloc. unfold pure_at in Hp. cbn [s_in s_alloc] in Hp.
  destruct (rd_pts (N.to_nat cnt) ref _) as [r s'|e a|pc a]; auto.
  - destruct Hp as [H1 [H2 H3]]. unfold tret. split; [exists (N.to_nat cnt); exact H1|]. split; [lia|].
    unfold len. rewrite H3. nia.
  - destruct Hp as [H1 H2]. split; [exact H1|]. unfold len. rewrite H2. nia.
Qed.

Lemma safe_parse_ids cnt s : safe_at 0 (fun _ => True) (parse_ids cnt) s.
Proof.
  unfold parse_ids. unfold safe_at, tbind at 1.
  pose proof (check_count_spec cnt 1 s) as Hc.
  destruct (check_count cnt 1 s) as [u s2|e a|pc a];
    [|destruct Hc as [H1 H2]; split; [exact H1|unfold len; lia]|destruct Hc].
  destruct Hc as [-> Hb].
  pose proof (pure_rd_svs (N.to_nat cnt)
                {| s_in := s_in s; s_pos := s_pos s; s_alloc := (s_alloc s + 8 * cnt)%N |}) as Hp.
  unfold tbind, talloc. unfold pure_at in Hp. cbn [s_in s_alloc] in Hp.
  destruct (rd_svs (N.to_nat cnt) _) as [r s'|e a|pc a]; auto.
  - destruct Hp as [H1 [H2 H3]]. split; [exact I|]. split; [lia|]. unfold len. rewrite H3. lia.
  - destruct Hp as [H1 H2]. split; [exact H1|]. unfold len. rewrite H2. lia.
Qed.

Lemma safe_count_and_ids b minb s : safe_at 1 (fun _ => True) (count_and_ids b minb) s.
Proof.
  unfold count_and_ids.
  eapply (safe_bind _ 1%nat 0%nat); [apply safe_rd_uv| |lia].
  intros cnt s1 _ _. eapply (safe_bind _ 0%nat 0%nat) with (Q1 := fun _ => True); [| |lia].
  - destruct b; [apply safe_parse_ids|apply safe_ret; exact I].
  - intros ids s2 _ _. eapply (safe_bind _ 0%nat 0%nat); [apply safe_check_count| |lia].
    intros u s3 _ _. apply safe_ret. exact I.
Qed.

Lemma safe_parse_size s : safe_at 1 (fun _ => True) parse_size s.
Proof.
  unfold parse_size.
  eapply (safe_bind _ 1%nat 0%nat) with (Q1 := fun _ => True); [apply safe_rd_uv| |lia].
  intros rem s1 _ _. unfold safe_at. destruct (_ <? _)%Z.
  - split; [discriminate|lia].
  - split; [exact I|]. split; lia.
Qed.

Lemma safe_parse_headers s : safe_at 2 (fun _ => True) parse_headers s.
Proof.
  unfold parse_headers.
  eapply (safe_bind _ 1%nat 1%nat); [apply safe_rd_byte| |lia].
  intros tp s1 _ _. eapply (safe_bind _ 1%nat 0%nat); [apply safe_rd_byte| |lia].
  intros mh s2 _ _.
  destruct (bit mh 4 && _); [apply safe_fail; discriminate|].
  eapply (safe_bind _ 0%nat 0%nat) with (Q1 := fun _ => True); [| |lia].
  - destruct (bit mh 8).
    + eapply (safe_bind _ 1%nat 0%nat); [apply safe_rd_byte| |lia].
      intros e s3 _ _. apply safe_ret. exact I.
    + apply safe_ret. exact I.
  - intros [[[hz hm] pz] pm] s3 _ _.
    eapply (safe_bind _ 0%nat 0%nat) with (Q1 := fun _ => True); [| |lia].
    + destruct (bit mh 2).
      * eapply safe_weaken; [| |apply safe_parse_size]; [lia|auto].
      * apply safe_ret. exact I.
    + intros size s4 _ _. eapply (safe_bind _ 0%nat 0%nat) with (Q1 := fun _ => True); [| |lia].
      * destruct (bit mh 1).
        -- eapply safe_weaken; [| |apply pure_safe; apply pure_rd_svs]; [lia|auto].
        -- apply safe_ret. exact I.
      * intros bbox s5 _ _. apply safe_ret. exact I.
Qed.

(* ---- the geometry-building part, for every ordinate carrier ---- *)
Section ParserSafe.
  Variable F : Type.
  Variable fzero : F.
  Variable feqb : F -> F -> bool.
  Variable deq : Z -> Z -> F.

  Lemma precs_length h : length (precs h) = dim (h_ct h).
  Proof. unfold precs, h_ct. destruct (h_hasz h), (h_hasm h); reflexivity. Qed.

  Lemma deq_pt_length ps pt : length (deq_pt F deq ps pt) = Nat.min (length ps) (length pt).
  Proof.
    revert pt. induction ps as [|p ps IH]; intros [|k pt]; cbn [deq_pt length Nat.min]; auto.
  Qed.

  Lemma ovtx_ok ct (l : list F) : length l = dim ct -> exists v, ovtx fzero ct l = Ok v.
  Proof.
    destruct ct; cbn [dim]; intros H;
      repeat (destruct l as [|? l]; cbn [length] in H; try discriminate);
      eexists; reflexivity.
  Qed.

  Lemma vtxs_of_ok ct (pts : list (list F)) :
    Forall (fun p => length p = dim ct) pts -> exists vs, vtxs_of F fzero ct pts = Ok vs.
  Proof.
    induction 1 as [|p pts Hp HF [vs IH]]; cbn [vtxs_of].
    - eexists; reflexivity.
    - destruct (ovtx_ok ct p Hp) as [v ->]. cbn [bind]. rewrite IH. cbn [bind]. eexists; reflexivity.
  Qed.

  Lemma deq_pts_ok h (pts : list (list Z)) :
    Forall (fun p => length p = dim (h_ct h)) pts ->
    Forall (fun p => length p = dim (h_ct h)) (map (deq_pt F deq (precs h)) pts).
  Proof.
    intros H. apply Forall_map. eapply Forall_impl; [|exact H].
    intros p Hp. cbv beta. rewrite deq_pt_length, precs_length, Hp. apply Nat.min_id.
  Qed.

  Lemma reclose_ok d n (pts : list (list F)) :
    Forall (fun p => length p = d) pts -> Forall (fun p => length p = d) (reclose F feqb n pts).
  Proof.
    intros H. unfold reclose. destruct (2 <=? n)%Z; [|exact H].
    destruct pts as [|p0 [|p1 tl]]; try exact H.
    destruct (pt_eqb F feqb p0 _); [exact H|].
    apply Forall_app. split; [exact H|]. constructor; [|constructor]. inversion H; assumption.
  Qed.

  Definition ref_ok (d : nat) {A} (r : A * list Z) : Prop := length (snd r) = d.

  Lemma safe_next_point h ref s :
    length ref = dim (h_ct h) ->
    safe_at 1 (ref_ok (dim (h_ct h))) (next_point F fzero deq h ref) s.
  Proof.
    intros Hr. unfold next_point.
    eapply (safe_bind _ (1 * length ref)%nat 0%nat); [apply pure_safe; apply pure_rd_pts| |].
    - intros [pts ref'] s1 [H1 [H2 H3]] _. cbn [fst snd] in *.
      destruct pts as [|p [|q pts]]; cbn [length] in H3; try discriminate.
      inversion H1 as [|? ? Hp _]; subst.
      destruct (ovtx_ok (h_ct h) (deq_pt F deq (precs h) p)) as [v Hv].
      { rewrite deq_pt_length, precs_length, Hp, Hr. apply Nat.min_id. }
      rewrite Hv. eapply (safe_bind _ 0%nat 0%nat) with (Q1 := fun _ => True); [| |lia].
      + apply safe_lift. left. eexists; split; [reflexivity|exact I].
      + intros v' s2 _ _. apply safe_ret. unfold ref_ok. cbn [snd]. congruence.
    - rewrite Hr. destruct (h_ct h); cbn [dim]; lia.
  Qed.

  Lemma safe_next_line h ref s :
    length ref = dim (h_ct h) ->
    safe_at 1 (ref_ok (dim (h_ct h))) (next_line F fzero deq h ref) s.
  Proof.
    intros Hr. unfold next_line.
    eapply (safe_bind _ 1%nat 0%nat); [apply safe_parse_count_array| |lia].
    intros [[pts ref'] n] s1 [m [H1 [H2 H3]]] _. cbn [fst snd] in *.
    rewrite Hr in *.
    destruct (vtxs_of_ok (h_ct h) _ (deq_pts_ok h pts H1)) as [vs Hvs]. rewrite Hvs.
    eapply (safe_bind _ 0%nat 0%nat) with (Q1 := fun _ => True); [| |lia].
    - apply safe_lift. left. eexists; split; [reflexivity|exact I].
    - intros v' s2 _ _. apply safe_ret. exact H2.
  Qed.

  Lemma safe_next_ring h ref s :
    length ref = dim (h_ct h) ->
    safe_at 1 (ref_ok (dim (h_ct h))) (next_ring F fzero feqb deq h ref) s.
  Proof.
    intros Hr. unfold next_ring.
    eapply (safe_bind _ 1%nat 0%nat); [apply safe_parse_count_array| |lia].
    intros [[pts ref'] n] s1 [m [H1 [H2 H3]]] _. cbn [fst snd] in *.
    rewrite Hr in *.
    destruct (vtxs_of_ok (h_ct h) _ (reclose_ok _ n _ (deq_pts_ok h pts H1))) as [vs Hvs].
    rewrite Hvs.
    eapply (safe_bind _ 0%nat 0%nat) with (Q1 := fun _ => True); [| |lia].
    - apply safe_lift. left. eexists; split; [reflexivity|exact I].
    - intros v' s2 _ _. apply safe_ret. exact H2.
  Qed.

  (* loops: every iteration consumes at least one byte, so fuel > unread bytes suffices *)
  Lemma safe_tloop {A} d (step : list Z -> TP (A * list Z)) :
    forall fuel n ref s, length ref = d -> (length (s_in s) < fuel)%nat ->
    (forall ref s', (length (s_in s') <= length (s_in s))%nat -> length ref = d ->
                    safe_at 1 (ref_ok d) (step ref) s') ->
    safe_at 0 (ref_ok d) (tloop fuel n step ref) s.
  Proof.
    induction fuel as [|f IH]; intros n ref s Hr Hf Hstep; [lia|].
    cbn [tloop]. destruct (n <=? 0)%Z.
    - apply safe_ret. exact Hr.
    - eapply (safe_bind _ 1%nat 0%nat); [apply Hstep; [lia|exact Hr]| |lia].
      intros a s1 Ha Hl1. unfold ref_ok in Ha.
      eapply (safe_bind _ 0%nat 0%nat); [| |lia].
      + apply IH; [exact Ha|lia|]. intros ref' s' Hl' Hr'. apply Hstep; [lia|exact Hr'].
      + intros r s2 Hr2 _. apply safe_ret. exact Hr2.
  Qed.

  Lemma safe_tloop_in {A} d (step : list Z -> TP (A * list Z)) n ref s :
    length ref = d ->
    (forall ref s', (length (s_in s') <= length (s_in s))%nat -> length ref = d ->
                    safe_at 1 (ref_ok d) (step ref) s') ->
    safe_at 0 (ref_ok d) (tloop_in n step ref) s.
  Proof. intros Hr Hstep. unfold tloop_in. apply safe_tloop; [exact Hr|lia|exact Hstep]. Qed.

  Lemma safe_next_poly h ref s :
    length ref = dim (h_ct h) ->
    safe_at 1 (ref_ok (dim (h_ct h))) (next_poly F fzero feqb deq h ref) s.
  Proof.
    intros Hr. unfold next_poly.
    eapply (safe_bind _ 1%nat 0%nat); [apply safe_rd_uv| |lia].
    intros cnt s1 _ _.
    eapply (safe_bind _ 0%nat 0%nat); [apply (safe_tloop_in (dim (h_ct h))); [exact Hr|]| |lia].
    - intros ref' s' _ Hr'. apply safe_next_ring. exact Hr'.
    - intros [rings ref'] s2 Hr2 _. cbn [fst snd]. unfold ref_ok in Hr2. cbn [snd] in Hr2.
      destruct rings; apply safe_ret; exact Hr2.
  Qed.

  (* nextGeometry: enough fuel is more fuel than unread bytes (every nesting level consumes
     its two header bytes) *)
  Lemma safe_rd_geom : forall fuel s, (length (s_in s) < fuel)%nat ->
    safe_at 2 (fun _ => True) (rd_geom F fzero feqb deq fuel) s.
  Proof.
    induction fuel as [|f IH]; intros s Hf; [lia|].
    cbn [rd_geom].
    eapply (safe_bind _ 2%nat 0%nat); [apply safe_parse_headers| |lia].
    intros h s1 _ Hl1.
    assert (Hr0 : length (repeat 0%Z (dim (h_ct h))) = dim (h_ct h)) by apply repeat_length.
    set (ct := h_ct h) in *. set (ref0 := repeat 0%Z (dim ct)) in *.
    destruct (h_kind h) as [|[[[|[]|]|[|[]|]|]|[[|[]|]|[|[]|]|]|]];
      try (apply safe_fail; discriminate);
      destruct (h_empty h); try (apply safe_ret; exact I);
      try (eapply (safe_bind _ 1%nat 0%nat);
           [ first [apply safe_next_point|apply safe_next_line|apply safe_next_poly]; exact Hr0
           | intros; apply safe_ret; exact I | lia ]);
      try (eapply (safe_bind _ 1%nat 0%nat); [apply safe_count_and_ids| |lia];
           intros ci s2 _ _;
           eapply (safe_bind _ 0%nat 0%nat);
           [ apply (safe_tloop_in (dim ct)); [exact Hr0|];
             intros ref s'' _ Hr;
             first [apply safe_next_point|apply safe_next_line|apply safe_next_poly]; exact Hr
           | intros; apply safe_ret; exact I | lia ]).
    (* 7: collection *)
    eapply (safe_bind _ 1%nat 0%nat); [apply safe_count_and_ids| |lia].
    intros ci s2 _ Hl2.
    eapply (safe_bind _ 0%nat 0%nat); [apply (safe_tloop_in 0%nat); [reflexivity|]| |lia].
    - intros ref s' Hl' _. unfold safe_at.
      assert (Hf' : (length (s_in s') < f)%nat) by lia.
      pose proof (IH {| s_in := s_in s'; s_pos := 0; s_alloc := s_alloc s' |} Hf') as Hc.
      unfold safe_at in Hc. cbn [s_in s_alloc] in Hc. unfold len in *. cbn [s_in] in Hc.
      destruct (rd_geom F fzero feqb deq f _) as [[[g hs] ids] s3|e a|pc a]; auto.
      destruct Hc as [_ [Hc1 Hc2]]. cbn [s_in s_alloc]. split; [reflexivity|]. split; lia.
    - intros r s3 _ _. apply safe_ret. exact I.
  Qed.

  Definition res_alloc {A} (r : tres A) : N :=
    match r with TOk _ s => s_alloc s | TErr _ a => a | TPanic _ a => a end.

  (* the three facts C08 cites, for any carrier *)
  Theorem dec_full_total bs :
    match dec_full F fzero feqb deq bs with
    | TOk _ s => (s_alloc s <= 8 * N.of_nat (length bs))%N
    | TErr e a => e <> EFuel /\ (a <= 8 * N.of_nat (length bs))%N
    | TPanic _ _ => False
    end.
  Proof.
    unfold dec_full.
    pose proof (safe_rd_geom (S (length bs)) {| s_in := bs; s_pos := 0; s_alloc := 0 |}) as H.
    cbn [s_in] in H. specialize (H ltac:(lia)). unfold safe_at, len in H. cbn [s_in s_alloc] in H.
    destruct (rd_geom F fzero feqb deq (S (length bs)) _) as [a s|e a|pc a].
    - destruct H as [_ [_ H]]. lia.
    - destruct H as [H1 H2]. split; [exact H1|lia].
    - exact H.
  Qed.
End ParserSafe.

(* integer layer *)
Lemma tdec_no_panic_lemma bs : forall p, tdec bs <> Panic p.
Proof.
  intros p. unfold tdec, tdec_full. pose proof (dec_full_total Z 0%Z Z.eqb (fun _ k => k) bs) as H.
  destruct (dec_full Z 0%Z Z.eqb (fun _ k => k) bs) as [[[g h] ids] s|e a|pc a];
    try discriminate. destruct H.
Qed.

Lemma tdec_fuel_enough_lemma bs : tdec bs <> Err EFuel.
Proof.
  unfold tdec, tdec_full. pose proof (dec_full_total Z 0%Z Z.eqb (fun _ k => k) bs) as H.
  destruct (dec_full Z 0%Z Z.eqb (fun _ k => k) bs) as [[[g h] ids] s|e a|pc a];
    try discriminate. destruct H as [H _]. congruence.
Qed.

Lemma tdec_alloc_linear_lemma bs : (tdec_alloc bs <= 8 * N.of_nat (length bs))%N.
Proof.
  unfold tdec_alloc, tdec_full. pose proof (dec_full_total Z 0%Z Z.eqb (fun _ k => k) bs) as H.
  destruct (dec_full Z 0%Z Z.eqb (fun _ k => k) bs) as [[[g h] ids] s|e a|pc a];
    [exact H|destruct H as [_ H]; exact H|destruct H].
Qed.

(* ================================================================== Part B *)
(* [parses p bs x]: on any input that starts with bs, from any position and allocation count,
   p returns x, consumes exactly bs and advances the position by its length *)
Definition parses {A} (p : TP A) (bs : list N) (x : A) : Prop :=
  forall rest pos a, exists a',
    p {| s_in := bs ++ rest; s_pos := pos; s_alloc := a |} =
    TOk x {| s_in := rest; s_pos := (pos + N.of_nat (length bs))%N; s_alloc := a' |}.

Lemma parses_ret {A} (x : A) : parses (tret x) [] x.
Proof.
  intros rest pos a. exists a. unfold tret. cbn [app length]. f_equal. f_equal. lia.
Qed.

Lemma parses_bind {A B} (p : TP A) (f : A -> TP B) b1 b2 x y :
  parses p b1 x -> parses (f x) b2 y -> parses (tbind p f) (b1 ++ b2) y.
Proof.
  intros H1 H2 rest pos a. unfold tbind. rewrite <- app_assoc.
  destruct (H1 (b2 ++ rest) pos a) as [a1 E1]. rewrite E1.
  destruct (H2 rest (pos + N.of_nat (length b1))%N a1) as [a2 E2]. rewrite E2.
  exists a2. f_equal. f_equal. rewrite app_length. lia.
Qed.

Lemma parses_bind_nil {A B} (p : TP A) (f : A -> TP B) b x y :
  parses p [] x -> parses (f x) b y -> parses (tbind p f) b y.
Proof. intros H1 H2. change b with ([] ++ b). eapply parses_bind; eauto. Qed.

Lemma parses_lift {A} (o : outcome A) x : o = Ok x -> parses (tlift o) [] x.
Proof. intros ->. intros rest pos a. exists a. unfold tlift. cbn [app length]. f_equal. f_equal. lia. Qed.

Lemma advance_app bs rest pos a :
  advance {| s_in := bs ++ rest; s_pos := pos; s_alloc := a |} rest =
  {| s_in := rest; s_pos := (pos + N.of_nat (length bs))%N; s_alloc := a |}.
Proof. unfold advance. cbn [s_in s_pos s_alloc]. f_equal. rewrite app_length. f_equal. lia. Qed.

Lemma parses_byte b : parses rd_byte [b] b.
Proof.
  intros rest pos a. exists a. unfold rd_byte. cbn [s_in app].
  change (b :: rest) with ([b] ++ rest). rewrite advance_app. reflexivity.
Qed.

Lemma parses_uv x : (x < two64N)%N -> parses rd_uv (uv_enc x) x.
Proof.
  intros H rest pos a. exists a. unfold rd_uv. cbn [s_in].
  rewrite uvarint_roundtrip_lemma by exact H. rewrite advance_app. reflexivity.
Qed.

Lemma rd_byte_eq b r pos a :
  rd_byte {| s_in := b :: r; s_pos := pos; s_alloc := a |} =
  TOk b {| s_in := r; s_pos := (pos + 1)%N; s_alloc := a |}.
Proof. unfold rd_byte, advance. cbn [s_in s_pos s_alloc length]. f_equal. f_equal. lia. Qed.

Lemma rd_uv_eq x r pos a :
  (x < two64N)%N ->
  rd_uv {| s_in := uv_enc x ++ r; s_pos := pos; s_alloc := a |} =
  TOk x {| s_in := r; s_pos := (pos + N.of_nat (length (uv_enc x)))%N; s_alloc := a |}.
Proof.
  intros H. unfold rd_uv. cbn [s_in]. rewrite uvarint_roundtrip_lemma by exact H.
  rewrite advance_app. reflexivity.
Qed.

Lemma parses_sv x : in_i64 x -> parses rd_sv (sv_enc x) x.
Proof.
  intros H rest pos a. exists a. unfold rd_sv. cbn [s_in].
  rewrite svarint_roundtrip_lemma by exact H. rewrite advance_app. reflexivity.
Qed.

Lemma parses_svs l : Forall in_i64 l -> parses (rd_svs (length l)) (flat_map sv_enc l) l.
Proof.
  induction 1 as [|x l Hx HF IH]; cbn [rd_svs length flat_map].
  - apply parses_ret.
  - eapply parses_bind; [apply parses_sv; exact Hx|].
    rewrite <- (app_nil_r (flat_map sv_enc l)).
    eapply parses_bind; [exact IH|]. apply parses_ret.
Qed.

Lemma forallb_Forall {A} (f : A -> bool) l : forallb f l = true <-> Forall (fun x => f x = true) l.
Proof. rewrite forallb_forall, Forall_forall. tauto. Qed.

(* ---- writer state invariant and the bounding box as a fold ---- *)
Definition i64pair (mm : Z * Z) : Prop := in_i64 (fst mm) /\ in_i64 (snd mm) /\ (fst mm <= snd mm)%Z.
Definition wst_ok (d : nat) (st : wst) : Prop :=
  length (ws_ref st) = d /\ length (ws_bb st) = d /\ Forall i64pair (ws_bb st).
Definition bb_state (st : wst) : option (list (Z * Z)) :=
  if ws_valid st then Some (ws_bb st) else None.

Lemma init_wst_ok d : wst_ok d (init_wst d).
Proof.
  unfold wst_ok, init_wst. cbn [ws_ref ws_bb]. rewrite !repeat_length. repeat split.
  apply Forall_forall. intros x Hx. apply repeat_spec in Hx. subst x.
  unfold i64pair, in_i64, two63. cbn [fst snd]. lia.
Qed.

(* one point *)
Lemma wr_ords_spec valid : forall pt ref bb,
  length pt = length ref -> length ref = length bb -> Forall in_i64 pt ->
  (valid = true -> Forall i64pair bb) ->
  exists bs bbo, wr_ords valid pt ref bb = (bs, pt, bbo) /\
    parses (rd_pt ref) bs pt /\ (length pt <= length bs)%nat /\
    length bbo = length bb /\ Forall i64pair bbo /\
    Some bbo = env_step (if valid then Some bb else None) pt.
Proof.
  induction pt as [|v pt IH]; intros ref bb Hl1 Hl2 Hr Hbb.
  - destruct ref; [|discriminate]. destruct bb; [|discriminate].
    exists [], []. cbn [wr_ords rd_pt length]. repeat split; try constructor.
    + apply parses_ret.
    + destruct valid; reflexivity.
  - destruct ref as [|r ref]; [discriminate|]. destruct bb as [|m bb]; [discriminate|].
    cbn [length] in *. inversion Hr as [|? ? Hv Hr']; subst.
    assert (Hbb' : valid = true -> Forall i64pair bb).
    { intros E. specialize (Hbb E). inversion Hbb; assumption. }
    destruct (IH ref bb ltac:(lia) ltac:(lia) Hr' Hbb') as [bs [bbo [E [Hp [Hlen [Hlb [Hok Henv]]]]]]].
    cbn [wr_ords]. rewrite E.
    exists (sv_enc (wrap64 (v - r)) ++ bs), (bb_upd valid m v :: bbo).
    rewrite wrap64_delta by exact Hv.
    assert (Hup : i64pair (bb_upd valid m v) /\
                  bb_upd valid m v = (if valid then (Z.min (fst m) v, Z.max (snd m) v) else (v, v))).
    { unfold bb_upd. destruct valid; cbn [negb].
      - specialize (Hbb eq_refl). inversion Hbb as [|? ? Hm _]; subst.
        destruct m as [mn mx]. unfold i64pair in *. cbn [fst snd] in *.
        destruct (Z.ltb_spec v mn); [|destruct (Z.ltb_spec mx v)]; cbn [fst snd];
          (split; [unfold in_i64 in *; lia|f_equal; lia]).
      - unfold i64pair. cbn [fst snd]. split; [unfold in_i64 in *; lia|reflexivity]. }
    destruct Hup as [Hup1 Hup2].
    repeat split.
    + cbn [rd_pt]. eapply parses_bind; [apply parses_sv; apply wrap64_range|].
      rewrite wrap64_delta by exact Hv.
      rewrite <- (app_nil_r bs). eapply parses_bind; [exact Hp|]. apply parses_ret.
    + rewrite app_length. pose proof (sv_enc_nonempty (wrap64 (v - r))). cbn [length]. lia.
    + cbn [length]. lia.
    + constructor; assumption.
    + rewrite Hup2. destruct valid; cbn [env_step map combine fst snd] in *.
      * congruence.
      * congruence.
Qed.

Definition pt_ok (d : nat) (p : list Z) : Prop := length p = d /\ Forall in_i64 p.

Lemma in_i64_forallb p : Forall in_i64 p -> forallb in_i64b p = true.
Proof.
  intros H. apply forallb_Forall. eapply Forall_impl; [|exact H]. intros x Hx. apply in_i64b_iff. exact Hx.
Qed.

Lemma wr_points_spec d : forall pts st, wst_ok d st -> Forall (pt_ok d) pts ->
  exists bs st', wr_points st pts = Ok (bs, st') /\ wst_ok d st' /\
    parses (rd_pts (length pts) (ws_ref st)) bs (pts, ws_ref st') /\
    (length pts * d <= length bs)%nat /\
    bb_state st' = fold_left env_step pts (bb_state st).
Proof.
  induction pts as [|p pts IH]; intros st Hst Hp.
  - exists [], st. cbn [wr_points length fold_left rd_pts]. repeat split; try apply Hst.
    + apply parses_ret.
    + cbn. lia.
  - inversion Hp as [|? ? [Hpl Hpi] Hp']; subst.
    destruct Hst as [Hs1 [Hs2 Hs3]].
    destruct (wr_ords_spec (ws_valid st) p (ws_ref st) (ws_bb st) ltac:(lia) ltac:(lia) Hpi
                (fun _ => Hs3)) as [bs1 [bbo [E [Hpar [Hlen [Hlb [Hok Henv]]]]]]].
    set (st1 := {| ws_ref := p; ws_valid := true; ws_bb := bbo |}).
    assert (Hst1 : wst_ok (length p) st1).
    { unfold wst_ok, st1. cbn [ws_ref ws_bb]. repeat split; [lia|exact Hok]. }
    destruct (IH st1 Hst1 Hp') as [bs2 [st2 [E2 [Hst2 [Hpar2 [Hlen2 Hbb2]]]]]].
    exists (bs1 ++ bs2), st2.
    cbn [wr_points]. rewrite in_i64_forallb by exact Hpi. rewrite E. fold st1. rewrite E2.
    cbn [bind]. repeat split; try apply Hst2.
    + cbn [length rd_pts].
      eapply parses_bind; [exact Hpar|].
      rewrite <- (app_nil_r bs2). eapply parses_bind; [exact Hpar2|].
      cbn [fst snd]. apply parses_ret.
    + rewrite app_length. cbn [length]. lia.
    + rewrite Hbb2. cbn [fold_left]. f_equal. unfold bb_state, st1. cbn [ws_valid ws_bb].
      rewrite Henv. unfold bb_state. reflexivity.
Qed.

Lemma check_count_pass cnt minb s :
  (0 < minb)%nat -> (N.to_nat cnt * minb <= length (s_in s))%nat -> check_count cnt minb s = TOk tt s.
Proof.
  intros Hm Hl. unfold check_count.
  destruct (N.ltb_spec (N.of_nat (length (s_in s) / minb)) cnt); [|reflexivity].
  assert (N.to_nat cnt <= length (s_in s) / minb)%nat by (apply Nat.div_le_lower_bound; lia). lia.
Qed.

(* a passed count check in front of a parser that consumes at least the promised bytes *)
Lemma parses_guard {A} cnt minb (p : TP A) bs x :
  (0 < minb)%nat -> (N.to_nat cnt * minb <= length bs)%nat -> parses p bs x ->
  parses (tbind (check_count cnt minb) (fun _ => p)) bs x.
Proof.
  intros Hm Hl Hp rest pos a. unfold tbind.
  rewrite check_count_pass; [apply Hp|exact Hm|]. cbn [s_in]. rewrite app_length. lia.
Qed.

Lemma parses_alloc {A} n (p : TP A) bs x : parses p bs x -> parses (tbind (talloc n) (fun _ => p)) bs x.
Proof. intros Hp rest pos a. unfold tbind, talloc. cbn [s_in s_pos s_alloc]. apply Hp. Qed.

(* ---- envelope folds ---- *)
Definition covers (A : option (list (Z * Z))) (p : list Z) : Prop :=
  exists mm, A = Some mm /\ Forall2 (fun m v => (fst m <= v <= snd m)%Z) mm p.
Definition env_len (d : nat) (A : option (list (Z * Z))) : Prop :=
  match A with None => True | Some mm => length mm = d end.

Lemma env_step_len d A p : env_len d A -> length p = d -> env_len d (env_step A p).
Proof.
  destruct A as [mm|]; cbn [env_len env_step]; intros H1 H2.
  - rewrite map_length, combine_length. lia.
  - rewrite map_length. exact H2.
Qed.

Lemma env_step_covers_self d A p : env_len d A -> length p = d -> covers (env_step A p) p.
Proof.
  destruct A as [mm|]; cbn [env_len env_step]; intros H1 H2.
  - eexists; split; [reflexivity|]. rewrite <- H2 in H1. clear H2. revert mm H1.
    induction p as [|v p IH]; intros [|m mm] H; cbn [length] in H; try discriminate;
      cbn [combine map]; constructor.
    + cbn [fst snd]. lia.
    + apply IH. lia.
  - eexists; split; [reflexivity|]. clear. induction p; cbn [map]; constructor; auto.
    cbn [fst snd]. lia.
Qed.

Lemma env_step_covers_mono A p q : covers A p -> length q = length p -> covers (env_step A q) p.
Proof.
  intros [mm [-> H]] Hl. cbn [env_step]. eexists; split; [reflexivity|].
  revert q Hl. induction H as [|m v mm p Hmv HF IH]; intros [|w q] Hl; cbn [length] in Hl;
    try discriminate; cbn [combine map]; constructor.
  - cbn [fst snd]. lia.
  - apply IH. lia.
Qed.

Lemma env_step_covered A p : covers A p -> env_step A p = A.
Proof.
  intros [mm [-> H]]. cbn [env_step]. f_equal.
  induction H as [|m v mm p Hmv HF IH]; cbn [combine map]; [reflexivity|].
  rewrite IH. f_equal. destruct m as [mn mx]. cbn [fst snd] in *. f_equal; lia.
Qed.

Lemma fold_env_len d l : forall A, env_len d A -> Forall (fun p => length p = d) l ->
  env_len d (fold_left env_step l A).
Proof.
  induction l as [|p l IH]; intros A HA Hl; cbn [fold_left]; [exact HA|].
  inversion Hl; subst. apply IH; [apply env_step_len; auto|assumption].
Qed.

Lemma fold_env_covers d l : forall A p, covers A p -> length p = d ->
  Forall (fun q => length q = d) l -> covers (fold_left env_step l A) p.
Proof.
  induction l as [|q l IH]; intros A p HA Hp Hl; cbn [fold_left]; [exact HA|].
  inversion Hl; subst. apply IH; [apply env_step_covers_mono; [exact HA|congruence]|reflexivity|assumption].
Qed.

(* a point that already occurred does not change the envelope *)
Lemma fold_env_dup d p l A :
  env_len d A -> length p = d -> Forall (fun q => length q = d) l ->
  fold_left env_step ((p :: l) ++ [p]) A = fold_left env_step (p :: l) A.
Proof.
  intros HA Hp Hl. rewrite fold_left_app. cbn [fold_left].
  apply env_step_covered.
  apply (fold_env_covers d); [|exact Hp|exact Hl].
  apply (env_step_covers_self d); assumption.
Qed.

(* ---- the integer instance of the parser ---- *)
Local Notation zdeq := (fun (_ k : Z) => k).
Local Notation znext_point := (next_point Z 0%Z zdeq).
Local Notation znext_line := (next_line Z 0%Z zdeq).
Local Notation znext_ring := (next_ring Z 0%Z Z.eqb zdeq).
Local Notation znext_poly := (next_poly Z 0%Z Z.eqb zdeq).
Local Notation zrd_geom := (rd_geom Z 0%Z Z.eqb zdeq).

Lemma deq_pt_id ps p : length p = length ps -> deq_pt Z zdeq ps p = p.
Proof.
  revert p. induction ps as [|q ps IH]; intros [|k p] H; cbn [length] in H; try discriminate;
    cbn [deq_pt]; [reflexivity|]. rewrite IH by lia. reflexivity.
Qed.

Lemma vords_length ct v : length (vords ct v) = dim ct.
Proof. unfold vords. destruct ct; reflexivity. Qed.

Lemma ovtx_vords ct v : vtx_ok (Z.eqb 0) ct v = true -> ovtx 0%Z ct (vords ct v) = Ok v.
Proof.
  unfold vtx_ok, vords. destruct v as [x y z m]. cbn [vx vy vz vm].
  destruct ct; cbn [has_z has_m orb andb app ovtx]; intros H; f_equal; f_equal; lia.
Qed.

Lemma vtxs_of_vords ct vs :
  forallb (vtx_ok (Z.eqb 0) ct) vs = true -> vtxs_of Z 0%Z ct (map (vords ct) vs) = Ok vs.
Proof.
  induction vs as [|v vs IH]; cbn [forallb map vtxs_of]; intros H; [reflexivity|].
  apply andb_true_iff in H. destruct H as [H1 H2].
  rewrite ovtx_vords by exact H1. cbn [bind]. rewrite IH by exact H2. reflexivity.
Qed.

Lemma map_deq_id h pts :
  Forall (fun p => length p = dim (h_ct h)) pts -> map (deq_pt Z zdeq (precs h)) pts = pts.
Proof.
  induction 1 as [|p pts Hp HF IH]; cbn [map]; [reflexivity|].
  rewrite IH. rewrite deq_pt_id; [reflexivity|]. rewrite precs_length. exact Hp.
Qed.

Lemma vords_pt_ok ct v : vtx_i64 v = true -> pt_ok (dim ct) (vords ct v).
Proof.
  unfold vtx_i64. intros H.
  apply andb_true_iff in H; destruct H as [H H0]. apply andb_true_iff in H; destruct H as [H H1].
  apply andb_true_iff in H; destruct H as [H H2].
  split; [apply vords_length|].
  unfold vords. rewrite !in_i64b_iff in *.
  constructor; [assumption|]. constructor; [assumption|].
  apply Forall_app. split; [destruct (has_z ct)|destruct (has_m ct)];
    try (constructor; [assumption|]); constructor.
Qed.

Lemma pts_of_line_ok ct vs :
  forallb vtx_i64 vs = true -> Forall (pt_ok (dim ct)) (map (vords ct) vs).
Proof.
  intros H. apply Forall_map. apply forallb_Forall in H. eapply Forall_impl; [|exact H].
  intros v Hv. apply vords_pt_ok. exact Hv.
Qed.

Lemma pt_ok_len d pts : Forall (pt_ok d) pts -> Forall (fun p => length p = d) pts.
Proof. intros H. eapply Forall_impl; [|exact H]. intros p [Hp _]. exact Hp. Qed.

Lemma dim_pos ct : (0 < dim ct)%nat.
Proof. destruct ct; cbn; lia. Qed.

Lemma cnt_wrap n : (N.of_nat n <? two63N)%N = true -> wrap64 (Z.of_N (N.of_nat n)) = Z.of_nat n.
Proof.
  intros H. apply N.ltb_lt in H. rewrite wrap64_id; [lia|]. unfold in_i64, two63, two63N in *. lia.
Qed.

Lemma cnt_small n : (N.of_nat n <? two63N)%N = true -> (N.of_nat n < two64N)%N.
Proof. intros H. apply N.ltb_lt in H. unfold two63N, two64N in *. lia. Qed.

(* count + point array, writer against reader *)
Lemma count_array_spec d pts st :
  (0 < d)%nat -> wst_ok d st -> Forall (pt_ok d) pts -> cnt_ok pts = true ->
  exists bs st', wr_points st pts = Ok (bs, st') /\ wst_ok d st' /\
    parses (parse_count_array (ws_ref st)) (count_bytes pts ++ bs)
           (pts, ws_ref st', Z.of_nat (length pts)) /\
    bb_state st' = fold_left env_step pts (bb_state st).
Proof.
  intros Hd Hst Hp Hc.
  destruct (wr_points_spec d pts st Hst Hp) as [bs [st' [E [Hst' [Hpar [Hlen Hbb]]]]]].
  exists bs, st'. repeat split; try assumption; try apply Hst'.
  unfold parse_count_array, count_bytes. unfold cnt_ok in Hc.
  eapply parses_bind; [apply parses_uv; apply cnt_small; exact Hc|].
  destruct Hst as [Hs1 _]. rewrite Hs1.
  apply parses_guard; [exact Hd|rewrite Nat2N.id; exact Hlen|].
  apply parses_alloc. rewrite Nat2N.id. rewrite <- (app_nil_r bs).
  eapply parses_bind; [exact Hpar|]. cbn [fst snd]. rewrite nat_N_Z. apply parses_ret.
Qed.

(* what a member writer and the matching reader step guarantee, uniformly *)
Definition wspec {A} (d k : nat) (f : wst -> A -> outcome (list N * wst))
           (step : list Z -> TP (A * list Z)) (pts_of : A -> list (list Z)) (x : A) : Prop :=
  forall st, wst_ok d st -> exists bs st',
    f st x = Ok (bs, st') /\ wst_ok d st' /\
    parses (step (ws_ref st)) bs (x, ws_ref st') /\ (k <= length bs)%nat /\
    bb_state st' = fold_left env_step (pts_of x) (bb_state st).

Lemma line_wspec ct h l :
  h_ct h = ct -> line_ok (Z.eqb 0) ct l = true -> line_dom l = true ->
  wspec (dim ct) 1 (wr_line ct) (znext_line h) (fun l => map (vords ct) (line_vs l)) l.
Proof.
  intros Hh Hok Hdom st Hst. subst ct. destruct l as [c vs]. unfold line_dom in Hdom.
  cbn [line_ok line_vs] in *.
  apply andb_true_iff in Hok. destruct Hok as [Hc Hvs]. apply ct_eqb_eq in Hc. subst c.
  set (ct := h_ct h) in *.
  apply andb_true_iff in Hdom. destruct Hdom as [Hcnt Hi64].
  destruct (count_array_spec (dim ct) (map (vords ct) vs) st (dim_pos ct) Hst
              (pts_of_line_ok ct vs Hi64)) as [bs [st' [E [Hst' [Hpar Hbb]]]]].
  { unfold cnt_ok in *. rewrite map_length. exact Hcnt. }
  exists (count_bytes (map (vords ct) vs) ++ bs), st'.
  unfold wr_line. cbn [line_vs]. rewrite E. cbn [bind]. repeat split; try assumption; try apply Hst'.
  - unfold next_line. rewrite <- (app_nil_r (count_bytes _ ++ bs)).
    eapply parses_bind; [exact Hpar|]. cbv beta iota. fold ct.
    rewrite map_deq_id by (apply pt_ok_len; apply pts_of_line_ok; exact Hi64).
    eapply parses_bind_nil; [apply parses_lift; apply vtxs_of_vords; exact Hvs|]. apply parses_ret.
  - rewrite app_length. unfold count_bytes. pose proof (uv_enc_nonempty (N.of_nat (length (map (vords ct) vs)))). lia.
Qed.

(* ---- rings: implicit closure on write, re-closure on read ---- *)
Lemma pt_eqb_iff a b : pt_eqb Z Z.eqb a b = true <-> a = b.
Proof.
  revert b. induction a as [|x a IH]; intros [|y b]; cbn [pt_eqb]; split; intros H;
    try reflexivity; try discriminate.
  - apply andb_true_iff in H. destruct H as [H1 H2]. apply Z.eqb_eq in H1. apply IH in H2. congruence.
  - inversion H; subst. rewrite Z.eqb_refl. cbn [andb]. apply IH. reflexivity.
Qed.

Lemma last_map {A B} (f : A -> B) l d : last (map f l) (f d) = f (last l d).
Proof. induction l as [|x [|y l] IH]; cbn [map last] in *; auto. Qed.

Lemma removelast_map {A B} (f : A -> B) l : removelast (map f l) = map f (removelast l).
Proof. induction l as [|x [|y l] IH]; cbn [map removelast] in *; auto. rewrite IH. reflexivity. Qed.

Lemma reclose_ring_pts close (p0 : list Z) tlp :
  tlp <> [] -> last tlp p0 = p0 ->
  (close = false -> last (removelast tlp) p0 <> p0 /\ (2 <= length tlp)%nat) ->
  let w := ring_pts close (p0 :: tlp) in
  reclose Z Z.eqb (Z.of_nat (length w)) w = p0 :: tlp.
Proof.
  intros Hne Hlast Hopen. destruct close.
  - (* TWKBCloseRings: the ring is sent closed and is left alone *)
    unfold ring_pts. cbn [negb andb]. cbv zeta. unfold reclose.
    destruct tlp as [|t1 tlp']; [congruence|].
    cbn [length]. destruct (Z.leb_spec 2 (Z.of_nat (S (S (length tlp'))))); [|lia].
    assert (E : pt_eqb Z Z.eqb p0 (last (t1 :: tlp') p0) = true) by (apply pt_eqb_iff; congruence).
    rewrite E. reflexivity.
  - destruct (Hopen eq_refl) as [Hpen Hlen].
    destruct tlp as [|t1 [|t2 tlp']]; cbn [length] in Hlen; try lia.
    unfold ring_pts. cbn [negb andb length]. cbv zeta.
    change (2 <=? S (S (S (length tlp'))))%nat with true. cbn iota.
    replace (S (S (S (length tlp'))) - 1)%nat with (S (S (length tlp'))) by lia.
    cbn [firstn].
    assert (Efn : firstn (length tlp') (t2 :: tlp') = removelast (t2 :: tlp')).
    { rewrite removelast_firstn_len. reflexivity. }
    set (body := firstn (length tlp') (t2 :: tlp')) in *.
    unfold reclose.
    assert (Hl : length (p0 :: t1 :: body) = S (S (length tlp'))).
    { cbn [length]. unfold body. rewrite firstn_length. cbn [length]. lia. }
    rewrite Hl. destruct (Z.leb_spec 2 (Z.of_nat (S (S (length tlp'))))); [|lia].
    assert (E : pt_eqb Z Z.eqb p0 (last (t1 :: body) p0) = false).
    { destruct (pt_eqb Z Z.eqb p0 (last (t1 :: body) p0)) eqn:Eq; [|reflexivity].
      apply pt_eqb_iff in Eq. exfalso. apply Hpen. rewrite Efn in *.
      change (removelast (t1 :: t2 :: tlp')) with (t1 :: removelast (t2 :: tlp')). congruence. }
    rewrite E. cbn [app]. f_equal. f_equal. rewrite Efn.
    change (t2 :: tlp') with (t2 :: tlp') in *.
    assert (Hl2 : last (t2 :: tlp') p0 = p0) by exact Hlast.
    rewrite <- Hl2 at 1. symmetry. apply app_removelast_last. discriminate.
Qed.

Lemma vtx_eqb_iff (a b : vtx Z) : vtx_eqb a b = true <-> a = b.
Proof.
  unfold vtx_eqb. destruct a as [x1 y1 z1 m1], b as [x2 y2 z2 m2]. cbn [vx vy vz vm]. split; intros H.
  - repeat (apply andb_true_iff in H; destruct H as [H ?]). f_equal; lia.
  - inversion H; subst. rewrite !Z.eqb_refl. reflexivity.
Qed.

Lemma vords_inj ct a b :
  vtx_ok (Z.eqb 0) ct a = true -> vtx_ok (Z.eqb 0) ct b = true -> vords ct a = vords ct b -> a = b.
Proof.
  intros Ha Hb H. apply ovtx_vords in Ha. apply ovtx_vords in Hb. rewrite H in Ha. congruence.
Qed.

Lemma last_In' {A} (l : list A) d : l <> [] -> In (last l d) l.
Proof.
  induction l as [|x [|y l] IH]; intros H; [congruence|left; reflexivity|].
  right. apply IH. discriminate.
Qed.
Lemma In_removelast {A} (l : list A) x : In x (removelast l) -> In x l.
Proof.
  induction l as [|y [|z l] IH]; cbn [removelast]; intros H; [exact H|destruct H|].
  destruct H as [H|H]; [left; exact H|right; apply IH; exact H].
Qed.

Lemma ring_reclose close ct vs :
  forallb (vtx_ok (Z.eqb 0) ct) vs = true -> ring_dom close (MkLine ct vs) = true ->
  let w := ring_pts close (map (vords ct) vs) in
  reclose Z Z.eqb (Z.of_nat (length w)) w = map (vords ct) vs.
Proof.
  intros Hok Hdom. unfold ring_dom in Hdom. apply andb_true_iff in Hdom. destruct Hdom as [_ Hdom].
  cbn [line_vs] in Hdom.
  destruct vs as [|v0 [|t1 tl]].
  - destruct close; reflexivity.
  - destruct close; reflexivity.
  - set (tl1 := t1 :: tl) in *. cbn [map].
    apply andb_true_iff in Hdom. destruct Hdom as [Hc Ho]. apply vtx_eqb_iff in Hc.
    assert (Hoks : forall v, In v (v0 :: tl1) -> vtx_ok (Z.eqb 0) ct v = true).
    { apply forallb_forall. exact Hok. }
    apply reclose_ring_pts.
    + unfold tl1. discriminate.
    + rewrite last_map. congruence.
    + intros ->. cbn [orb] in Ho. apply andb_true_iff in Ho. destruct Ho as [Hp Hl].
      split; [|rewrite map_length; apply Nat.leb_le; exact Hl].
      rewrite removelast_map, last_map. intros E.
      apply vords_inj in E.
      * rewrite E in Hp. rewrite (proj2 (vtx_eqb_iff v0 v0) eq_refl) in Hp. discriminate.
      * destruct (removelast tl1) as [|x r] eqn:Er.
        -- apply Hoks. left. reflexivity.
        -- apply Hoks. right. apply In_removelast. rewrite Er. apply last_In'. discriminate.
      * apply Hoks. left. reflexivity.
Qed.

Lemma ring_pts_sub close (pts : list (list Z)) :
  exists k, ring_pts close pts = firstn k pts.
Proof.
  unfold ring_pts. destruct (negb close && (2 <=? length pts)%nat).
  - eexists; reflexivity.
  - exists (length pts). rewrite firstn_all. reflexivity.
Qed.

Lemma Forall_firstn' {A} (P : A -> Prop) k l : Forall P l -> Forall P (firstn k l).
Proof.
  revert k. induction l as [|x l IH]; intros [|k] H; cbn [firstn]; try constructor.
  - inversion H; assumption.
  - apply IH. inversion H; assumption.
Qed.

Lemma ring_env close ct vs d A :
  d = dim ct -> env_len d A -> forallb (vtx_ok (Z.eqb 0) ct) vs = true ->
  ring_dom close (MkLine ct vs) = true ->
  fold_left env_step (ring_pts close (map (vords ct) vs)) A =
  fold_left env_step (map (vords ct) vs) A.
Proof.
  intros Hd HA Hok Hdom. unfold ring_dom in Hdom. apply andb_true_iff in Hdom.
  destruct Hdom as [_ Hdom]. cbn [line_vs] in Hdom.
  unfold ring_pts. destruct close; [reflexivity|]. cbn [negb andb].
  destruct vs as [|v0 [|t1 tl]]; try reflexivity.
  set (tl1 := t1 :: tl) in *. cbn [map length].
  change (2 <=? S (length (map (vords ct) tl1)))%nat with true. cbn iota.
  apply andb_true_iff in Hdom. destruct Hdom as [Hc _]. apply vtx_eqb_iff in Hc.
  replace (S (length (map (vords ct) tl1)) - 1)%nat with (S (pred (length (map (vords ct) tl1))))
    by (unfold tl1; cbn [map length]; lia).
  cbn [firstn]. rewrite <- removelast_firstn_len.
  assert (E : map (vords ct) tl1 = removelast (map (vords ct) tl1) ++ [vords ct v0]).
  { rewrite (app_removelast_last (vords ct v0)) at 1 by (unfold tl1; discriminate).
    rewrite last_map. congruence. }
  rewrite E at 2. symmetry.
  change (vords ct v0 :: removelast (map (vords ct) tl1) ++ [vords ct v0])
    with ((vords ct v0 :: removelast (map (vords ct) tl1)) ++ [vords ct v0]).
  apply (fold_env_dup d); [exact HA|rewrite vords_length; auto|].
  rewrite removelast_map. apply Forall_map. apply Forall_forall. intros v _.
  rewrite vords_length. auto.
Qed.

Lemma ring_wspec close ct h l :
  h_ct h = ct -> line_ok (Z.eqb 0) ct l = true -> ring_dom close l = true ->
  wspec (dim ct) 1 (wr_ring close ct) (znext_ring h) (fun l => map (vords ct) (line_vs l)) l.
Proof.
  intros Hh Hok Hdom st Hst. subst ct. destruct l as [c vs].
  cbn [line_ok line_vs] in *.
  apply andb_true_iff in Hok. destruct Hok as [Hc Hvs]. apply ct_eqb_eq in Hc. subst c.
  set (ct := h_ct h) in *.
  assert (Hld : line_dom (MkLine ct vs) = true).
  { unfold ring_dom in Hdom. apply andb_true_iff in Hdom. apply Hdom. }
  unfold line_dom in Hld. cbn [line_vs] in Hld.
  apply andb_true_iff in Hld. destruct Hld as [Hcnt Hi64].
  set (all := map (vords ct) vs) in *.
  set (w := ring_pts close all) in *.
  destruct (ring_pts_sub close all) as [k Hk]. fold w in Hk.
  assert (Hall : Forall (pt_ok (dim ct)) all) by (apply pts_of_line_ok; exact Hi64).
  assert (Hw : Forall (pt_ok (dim ct)) w) by (rewrite Hk; apply Forall_firstn'; exact Hall).
  destruct (count_array_spec (dim ct) w st (dim_pos ct) Hst Hw) as [bs [st' [E [Hst' [Hpar Hbb]]]]].
  { unfold cnt_ok in *. rewrite Hk, firstn_length. unfold all. rewrite map_length.
    apply N.ltb_lt in Hcnt. apply N.ltb_lt. lia. }
  exists (count_bytes w ++ bs), st'.
  unfold wr_ring. cbn [line_vs]. fold all. fold w. rewrite E. cbn [bind].
  repeat split; try assumption; try apply Hst'.
  - unfold next_ring. rewrite <- (app_nil_r (count_bytes _ ++ bs)).
    eapply parses_bind; [exact Hpar|]. cbv beta iota. fold ct.
    rewrite map_deq_id by (apply pt_ok_len; exact Hw).
    unfold w, all. rewrite ring_reclose by assumption.
    eapply parses_bind_nil; [apply parses_lift; apply vtxs_of_vords; exact Hvs|]. apply parses_ret.
  - rewrite app_length. unfold count_bytes. pose proof (uv_enc_nonempty (N.of_nat (length w))). lia.
  - rewrite Hbb. unfold w, all. apply (ring_env close ct vs (dim ct)); auto.
    destruct Hst as [_ [Hs2 _]]. unfold bb_state, env_len. destruct (ws_valid st); auto.
Qed.

Lemma point_wspec ct h p :
  h_ct h = ct -> point_ok (Z.eqb 0) ct p = true ->
  match point_c p with None => false | Some v => vtx_i64 v end = true ->
  wspec (dim ct) (dim ct) (wr_mpoint_member ct) (znext_point h)
        (fun p => match point_c p with Some v => [vords ct v] | None => [] end) p.
Proof.
  intros Hh Hok Hdom st Hst. subst ct. destruct p as [c [v|]]; cbn [point_c] in Hdom; [|discriminate].
  cbn [point_ok] in Hok. apply andb_true_iff in Hok. destruct Hok as [Hc Hv].
  apply ct_eqb_eq in Hc. subst c. set (ct := h_ct h) in *.
  pose proof (vords_pt_ok ct v Hdom) as Hp.
  destruct (wr_points_spec (dim ct) [vords ct v] st Hst (Forall_cons _ Hp (Forall_nil _)))
    as [bs [st' [E [Hst' [Hpar [Hlen Hbb]]]]]].
  exists bs, st'. unfold wr_mpoint_member. cbn [point_c]. rewrite E.
  repeat split; try assumption; try apply Hst'.
  - unfold next_point. rewrite <- (app_nil_r bs).
    eapply parses_bind.
    + exact Hpar.
    + cbn [fst snd]. fold ct. rewrite deq_pt_id by (rewrite precs_length; apply vords_length).
      rewrite ovtx_vords by exact Hv.
      eapply parses_bind_nil; [apply parses_lift; reflexivity|]. apply parses_ret.
  - cbn [length] in Hlen. lia.
Qed.

(* a sequence of members written with the threaded state is read back by the counted loop *)
Lemma wr_seq_spec {A} d k (f : wst -> A -> outcome (list N * wst))
      (step : list Z -> TP (A * list Z)) (pts_of : A -> list (list Z)) :
  (1 <= k)%nat ->
  forall l st, Forall (wspec d k f step pts_of) l -> wst_ok d st ->
  exists bs st', wr_seq f st l = Ok (bs, st') /\ wst_ok d st' /\
    (forall fuel, (length l <= fuel)%nat ->
       parses (tloop fuel (Z.of_nat (length l)) step (ws_ref st)) bs (l, ws_ref st')) /\
    (length l * k <= length bs)%nat /\
    bb_state st' = fold_left env_step (flat_map pts_of l) (bb_state st).
Proof.
  intros Hk1. induction l as [|x l IH]; intros st Hl Hst.
  - exists [], st. cbn [wr_seq length flat_map fold_left]. repeat split; try apply Hst; try lia.
    intros fuel _. destruct fuel; cbn [tloop Z.of_nat Z.leb Z.compare]; apply parses_ret.
  - inversion Hl as [|? ? Hx Hl']; subst.
    destruct (Hx st Hst) as [b1 [s1 [E1 [Hs1 [Hp1 [Hn1 Hb1]]]]]].
    destruct (IH s1 Hl' Hs1) as [b2 [s2 [E2 [Hs2 [Hp2 [Hn2 Hb2]]]]]].
    exists (b1 ++ b2), s2. cbn [wr_seq]. rewrite E1. cbn [bind]. rewrite E2. cbn [bind].
    repeat split; try apply Hs2.
    + intros fuel Hf. destruct fuel as [|fuel]; [cbn [length] in Hf; lia|].
      cbn [tloop length]. destruct (Z.leb_spec (Z.of_nat (S (length l))) 0); [lia|].
      eapply parses_bind; [exact Hp1|]. cbn [fst snd].
      rewrite <- (app_nil_r b2).
      replace (Z.of_nat (S (length l)) - 1)%Z with (Z.of_nat (length l)) by lia.
      eapply parses_bind; [apply Hp2; cbn [length] in Hf; lia|]. cbn [fst snd]. apply parses_ret.
    + rewrite app_length. cbn [length]. lia.
    + rewrite Hb2, Hb1. cbn [flat_map]. rewrite fold_left_app. reflexivity.
Qed.

Lemma tloop_in_parses {A} (step : list Z -> TP (A * list Z)) n ref bs (x : list A * list Z) k :
  (forall fuel, (k <= fuel)%nat -> parses (tloop fuel n step ref) bs x) -> (k <= length bs)%nat ->
  parses (tloop_in n step ref) bs x.
Proof.
  intros H Hk rest pos a. unfold tloop_in. cbn [s_in]. apply H. rewrite app_length. lia.
Qed.

(* ---- constructors are the identity on consistent members (Z carrier; same proofs as for the
   bit-pattern carrier in WKB_proofs.v) ---- *)
Lemma fold_and_const {A} (f : A -> ctype) (l : list A) ct :
  Forall (fun x => f x = ct) l ->
  forall acc, fold_left (fun acc a => ct_and acc (f a)) l acc =
              match l with [] => acc | _ => ct_and acc ct end.
Proof.
  induction 1 as [|x l Hx HF IH]; intros acc; [reflexivity|].
  cbn [fold_left]. rewrite Hx, IH. destruct l; [reflexivity|].
  rewrite <- ct_and_assoc, ct_and_idem. reflexivity.
Qed.

Lemma and_all_const {A} (f : A -> ctype) (l : list A) ct :
  l <> [] -> Forall (fun x => f x = ct) l -> and_all f l = ct.
Proof.
  intros Hne HF. unfold and_all. rewrite (fold_and_const f l ct HF).
  destruct l; [congruence|]. apply ct_and_xyzm_l.
Qed.

Lemma force_vtx_id ct (v : vtx Z) : vtx_ok (Z.eqb 0) ct v = true -> force_vtx 0%Z ct ct v = v.
Proof.
  unfold vtx_ok, force_vtx. destruct v as [x y z m]; cbn [vx vy vz vm].
  destruct (has_z ct), (has_m ct); cbn [orb andb]; intros H; f_equal; lia.
Qed.

Lemma map_id_on {A} (f : A -> A) l : Forall (fun x => f x = x) l -> map f l = l.
Proof. induction 1 as [|x l Hx HF IH]; cbn [map]; congruence. Qed.

Lemma force_point_id ct p : point_ok (Z.eqb 0) ct p = true -> force_point 0%Z ct p = p /\ point_ct p = ct.
Proof.
  destruct p as [c [v|]]; unfold point_ok; intros H; apply andb_prop in H; destruct H as [Hc Hv];
    apply ct_eqb_eq in Hc; subst c; cbn [force_point point_ct]; split; try reflexivity.
  rewrite force_vtx_id by exact Hv. reflexivity.
Qed.

Lemma force_line_id ct l : line_ok (Z.eqb 0) ct l = true -> force_line 0%Z ct l = l /\ line_ct l = ct.
Proof.
  destruct l as [c vs]; unfold line_ok; intros H; apply andb_prop in H; destruct H as [Hc Hv].
  apply ct_eqb_eq in Hc; subst c. cbn [force_line line_ct]. split; [|reflexivity].
  f_equal. apply map_id_on. apply forallb_Forall in Hv.
  eapply Forall_impl; [|exact Hv]. intros v. apply force_vtx_id.
Qed.

Lemma force_lines_id ct ls :
  forallb (line_ok (Z.eqb 0) ct) ls = true ->
  map (force_line 0%Z ct) ls = ls /\ Forall (fun l => line_ct l = ct) ls.
Proof.
  intros H. apply forallb_Forall in H. split.
  - apply map_id_on. eapply Forall_impl; [|exact H]. intros l Hl. apply (force_line_id ct l Hl).
  - eapply Forall_impl; [|exact H]. intros l Hl. apply (force_line_id ct l Hl).
Qed.

Lemma force_poly_id ct p : poly_ok (Z.eqb 0) ct p = true -> force_poly 0%Z ct p = p /\ poly_ct p = ct.
Proof.
  destruct p as [c rs]; unfold poly_ok; intros H; apply andb_prop in H; destruct H as [Hc Hv].
  apply ct_eqb_eq in Hc; subst c. cbn [force_poly poly_ct]. split; [|reflexivity].
  f_equal. apply (force_lines_id ct rs Hv).
Qed.

Lemma new_polygon_id ct rs :
  rs <> [] -> forallb (line_ok (Z.eqb 0) ct) rs = true -> new_polygon 0%Z rs = MkPoly ct rs.
Proof.
  intros Hne H. destruct (force_lines_id ct rs H) as [Hm Hc]. unfold new_polygon.
  destruct rs as [|r rs']; [congruence|].
  rewrite (and_all_const line_ct (r :: rs') ct Hne Hc). rewrite Hm. reflexivity.
Qed.

Lemma new_multipoint_id ct ps :
  ps <> [] -> forallb (point_ok (Z.eqb 0) ct) ps = true -> new_multipoint 0%Z ps = GMPoint ct ps.
Proof.
  intros Hne H. apply forallb_Forall in H. unfold new_multipoint.
  destruct ps as [|p ps']; [congruence|].
  rewrite (and_all_const point_ct (p :: ps') ct Hne).
  - f_equal. apply map_id_on. eapply Forall_impl; [|exact H]. intros q Hq. apply (force_point_id ct q Hq).
  - eapply Forall_impl; [|exact H]. intros q Hq. apply (force_point_id ct q Hq).
Qed.

Lemma new_multiline_id ct ls :
  ls <> [] -> forallb (line_ok (Z.eqb 0) ct) ls = true -> new_multiline 0%Z ls = GMLine ct ls.
Proof.
  intros Hne H. destruct (force_lines_id ct ls H) as [Hm Hc]. unfold new_multiline.
  destruct ls as [|l ls']; [congruence|].
  rewrite (and_all_const line_ct (l :: ls') ct Hne Hc). rewrite Hm. reflexivity.
Qed.

Lemma new_multipoly_id ct ps :
  ps <> [] -> forallb (poly_ok (Z.eqb 0) ct) ps = true -> new_multipoly 0%Z ps = GMPoly ct ps.
Proof.
  intros Hne H. apply forallb_Forall in H. unfold new_multipoly.
  destruct ps as [|p ps']; [congruence|].
  rewrite (and_all_const poly_ct (p :: ps') ct Hne).
  - f_equal. apply map_id_on. eapply Forall_impl; [|exact H]. intros q Hq. apply (force_poly_id ct q Hq).
  - eapply Forall_impl; [|exact H]. intros q Hq. apply (force_poly_id ct q Hq).
Qed.

Lemma force_geom_id ct g : geom_ok (Z.eqb 0) ct g = true -> force_geom 0%Z ct g = g /\ geom_ct g = ct.
Proof.
  induction g as [p|l|p|c ps|c ls|c ps|c gs IH] using geomT_ind'; cbn [geom_ok force_geom geom_ct]; intros H.
  - destruct (force_point_id ct p H) as [-> ->]. auto.
  - destruct (force_line_id ct l H) as [-> ->]. auto.
  - destruct (force_poly_id ct p H) as [-> ->]. auto.
  - apply andb_prop in H; destruct H as [Hc H]. apply ct_eqb_eq in Hc; subst c. split; [|reflexivity].
    f_equal. apply map_id_on. apply forallb_Forall in H. eapply Forall_impl; [|exact H].
    intros q Hq. apply (force_point_id ct q Hq).
  - apply andb_prop in H; destruct H as [Hc H]. apply ct_eqb_eq in Hc; subst c. split; [|reflexivity].
    f_equal. apply (force_lines_id ct ls H).
  - apply andb_prop in H; destruct H as [Hc H]. apply ct_eqb_eq in Hc; subst c. split; [|reflexivity].
    f_equal. apply map_id_on. apply forallb_Forall in H. eapply Forall_impl; [|exact H].
    intros q Hq. apply (force_poly_id ct q Hq).
  - apply andb_prop in H; destruct H as [Hc H]. apply ct_eqb_eq in Hc; subst c. split; [|reflexivity].
    f_equal. apply map_id_on. apply forallb_Forall in H.
    rewrite Forall_forall in *. intros x Hx. apply (IH x Hx). apply H. exact Hx.
Qed.

Lemma new_collection_id ct gs :
  gs <> [] -> forallb (geom_ok (Z.eqb 0) ct) gs = true -> new_collection 0%Z gs = GColl ct gs.
Proof.
  intros Hne H. apply forallb_Forall in H. unfold new_collection.
  destruct gs as [|g gs']; [congruence|].
  rewrite (and_all_const geom_ct (g :: gs') ct Hne).
  - f_equal. apply map_id_on. eapply Forall_impl; [|exact H]. intros q Hq. apply (force_geom_id ct q Hq).
  - eapply Forall_impl; [|exact H]. intros q Hq. apply (force_geom_id ct q Hq).
Qed.


(* ---- polygons ---- *)
Definition ring_ptsof (ct : ctype) (l : lineT Z) : list (list Z) := map (vords ct) (line_vs l).
Definition poly_ptsof (ct : ctype) (p : polyT Z) : list (list Z) :=
  flat_map (ring_ptsof ct) (poly_rings p).

Lemma cnt_N n : (N.of_nat n <? two63N)%N = true -> (N.of_nat n < two64N)%N /\ Z.of_N (N.of_nat n) = Z.of_nat n.
Proof. intros H. apply N.ltb_lt in H. unfold two63N, two64N in *. split; lia. Qed.

Lemma poly_wspec close ct h p :
  h_ct h = ct -> poly_ok (Z.eqb 0) ct p = true -> poly_dom (ring_dom close) p = true ->
  wspec (dim ct) 1 (wr_poly close ct) (znext_poly h) (poly_ptsof ct) p.
Proof.
  intros Hh Hok Hdom st Hst. destruct p as [c rs]. cbn [poly_ok] in Hok.
  apply andb_true_iff in Hok. destruct Hok as [Hc Hrs]. apply ct_eqb_eq in Hc. subst c.
  unfold poly_dom in Hdom. cbn [poly_rings] in Hdom. apply andb_true_iff in Hdom.
  destruct Hdom as [Hcnt Hrd].
  assert (HF : Forall (wspec (dim ct) 1 (wr_ring close ct) (znext_ring h) (ring_ptsof ct)) rs).
  { apply forallb_Forall in Hrs. apply forallb_Forall in Hrd. rewrite Forall_forall in *.
    intros l Hl. apply ring_wspec; [exact Hh|apply Hrs; exact Hl|apply Hrd; exact Hl]. }
  destruct (wr_seq_spec (dim ct) 1 _ _ _ (le_n 1) rs st HF Hst) as [bs [st' [E [Hst' [Hpar [Hlen Hbb]]]]]].
  exists (count_bytes rs ++ bs), st'. unfold wr_poly. cbn [poly_rings]. rewrite E. cbn [bind].
  destruct (cnt_N (length rs) Hcnt) as [Hc64 HcZ].
  repeat split; try assumption; try apply Hst'.
  - unfold next_poly, count_bytes.
    eapply parses_bind; [apply parses_uv; exact Hc64|].
    rewrite <- (app_nil_r bs). rewrite HcZ.
    eapply parses_bind; [apply (tloop_in_parses _ _ _ _ _ (length rs)); [exact Hpar|lia]|].
    cbn [fst snd]. destruct rs as [|r rs'].
    + rewrite Hh. apply parses_ret.
    + rewrite (new_polygon_id ct (r :: rs')) by (try discriminate; exact Hrs). apply parses_ret.
  - rewrite app_length. unfold count_bytes. pose proof (uv_enc_nonempty (N.of_nat (length rs))). lia.
Qed.

(* ---- ID lists ---- *)
Lemma flat_sv_len ids : (length ids <= length (flat_map sv_enc ids))%nat.
Proof.
  induction ids as [|x ids IH]; cbn [flat_map length]; [lia|].
  rewrite app_length. pose proof (sv_enc_nonempty x). lia.
Qed.

Lemma parses_ids ids :
  Forall in_i64 ids -> parses (parse_ids (N.of_nat (length ids))) (flat_map sv_enc ids) ids.
Proof.
  intros Hi. unfold parse_ids.
  apply parses_guard; [lia|rewrite Nat2N.id; pose proof (flat_sv_len ids); lia|].
  apply parses_alloc. rewrite Nat2N.id. apply parses_svs. exact Hi.
Qed.

(* [parsesL k]: as parses, for inputs on which at least k bytes follow (the member-count check
   of fix F7 looks ahead at the bytes of the members) *)
Definition parsesL {A} (k : nat) (p : TP A) (bs : list N) (x : A) : Prop :=
  forall rest pos a, (k <= length rest)%nat -> exists a',
    p {| s_in := bs ++ rest; s_pos := pos; s_alloc := a |} =
    TOk x {| s_in := rest; s_pos := (pos + N.of_nat (length bs))%N; s_alloc := a' |}.

Lemma parsesL_bind {A B} k (p : TP A) (f : A -> TP B) b1 b2 x y :
  parsesL k p b1 x -> parses (f x) b2 y -> (k <= length b2)%nat -> parses (tbind p f) (b1 ++ b2) y.
Proof.
  intros H1 H2 Hk rest pos a. unfold tbind. rewrite <- app_assoc.
  destruct (H1 (b2 ++ rest) pos a) as [a1 E1]; [rewrite app_length; lia|]. rewrite E1.
  destruct (H2 rest (pos + N.of_nat (length b1))%N a1) as [a2 E2]. rewrite E2.
  exists a2. f_equal. f_equal. rewrite app_length. lia.
Qed.

(* wr_ids against count_and_ids, for a member list of length n whose members take >= minb bytes *)
Lemma ids_spec c n minb :
  (0 < minb)%nat -> (N.of_nat n <? two63N)%N = true -> Forall in_i64 (w_ids c) ->
  (w_hasids c = true -> length (w_ids c) = n) ->
  exists idb, wr_ids c n = Ok idb /\
    parsesL (n * minb) (count_and_ids (w_hasids c) minb) (uv_enc (N.of_nat n) ++ idb) (Z.of_nat n, w_ids c).
Proof.
  intros Hm Hcnt Hi Hlen. pose proof (cnt_small n Hcnt) as Hc64. unfold wr_ids, count_and_ids.
  assert (Hfin : forall ids : list Z, parsesL (n * minb)
            (doT _ <- check_count (N.of_nat n) minb; tret (Z.of_N (N.of_nat n), ids)) [] (Z.of_nat n, ids)).
  { intros ids rest pos a Hk. unfold tbind. rewrite check_count_pass; [|exact Hm|cbn [s_in app]; lia].
    exists a. unfold tret. cbn [app length]. rewrite nat_N_Z. f_equal. f_equal. lia. }
  destruct (w_hasids c) eqn:Eh; cbn [negb].
  - specialize (Hlen eq_refl). rewrite Hlen, Nat.eqb_refl. cbn [negb].
    eexists; split; [reflexivity|].
    intros rest pos a Hk. unfold tbind at 1. rewrite <- app_assoc. rewrite rd_uv_eq by exact Hc64.
    unfold tbind at 1.
    destruct (parses_ids (w_ids c) Hi rest (pos + N.of_nat (length (uv_enc (N.of_nat n))))%N a) as [a1 E1].
    rewrite Hlen in E1. rewrite E1.
    destruct (Hfin (w_ids c) rest (pos + N.of_nat (length (uv_enc (N.of_nat n))) +
                                   N.of_nat (length (flat_map sv_enc (w_ids c))))%N a1 Hk) as [a2 E2].
    cbn [app] in E2. rewrite E2. exists a2. f_equal. f_equal. rewrite app_length. cbn [length]. lia.
  - exists []. split; [reflexivity|]. rewrite app_nil_r.
    intros rest pos a Hk. unfold tbind at 1. rewrite rd_uv_eq by exact Hc64.
    unfold tbind at 1. unfold tret at 1.
    assert (Eids : w_ids c = []) by (unfold w_hasids in Eh; destruct (w_ids c); [reflexivity|discriminate]).
    rewrite Eids.
    destruct (Hfin [] rest (pos + N.of_nat (length (uv_enc (N.of_nat n))))%N a Hk) as [a2 E2].
    cbn [app] in E2. rewrite E2. exists a2. f_equal. f_equal. cbn [length]. lia.
Qed.

(* ---- headers ---- *)
Definition cfg_ok (c : wcfg) : Prop :=
  (-8 <= w_pxy c <= 7)%Z /\ (0 <= w_pz c <= 7)%Z /\ (0 <= w_pm c <= 7)%Z /\ Forall in_i64 (w_ids c).

Lemma typeprec_dec pxy kind :
  (-8 <= pxy <= 7)%Z -> (kind < 16)%N ->
  ((typeprec pxy kind) mod 16 = kind)%N /\ zz_dec (typeprec pxy kind / 16) = pxy.
Proof.
  intros Hp Hk. unfold typeprec.
  assert (Hu : (zz_enc pxy <= 15)%N).
  { unfold zz_enc. destruct (Z.ltb_spec pxy 0); lia. }
  assert (Hz : zz_dec (zz_enc pxy) = pxy).
  { apply zigzag_roundtrip_lemma. unfold in_i64, two63. lia. }
  remember (zz_enc pxy) as u. clear Hequ.
  split; [lia|]. replace ((u * 16) mod 256 + kind)%N with (u * 16 + kind)%N by lia.
  replace ((u * 16 + kind) / 16)%N with u by lia. exact Hz.
Qed.

Lemma meta_bits c :
  bit (meta_byte c) 1 = w_bbox c /\ bit (meta_byte c) 2 = w_size c /\
  bit (meta_byte c) 4 = w_hasids c /\ bit (meta_byte c) 8 = w_hasext c /\
  bit (meta_byte c) 16 = false.
Proof.
  unfold meta_byte, bit. destruct (w_bbox c), (w_size c), (w_hasids c), (w_hasext c);
    repeat split; reflexivity.
Qed.

Lemma ext_bits c :
  (0 <= w_pz c <= 7)%Z -> (0 <= w_pm c <= 7)%Z ->
  bit (ext_byte c) 1 = w_hasz c /\ bit (ext_byte c) 2 = w_hasm c /\
  (w_hasz c = true -> ((ext_byte c / 4) mod 8)%N = Z.to_N (w_pz c)) /\
  (w_hasm c = true -> ((ext_byte c / 32) mod 8)%N = Z.to_N (w_pm c)).
Proof.
  intros Hz Hm. unfold ext_byte, bit.
  remember (Z.to_N (w_pz c)) as pz. remember (Z.to_N (w_pm c)) as pm.
  assert (pz <= 7)%N by lia. assert (pm <= 7)%N by lia. clear Heqpz Heqpm.
  destruct (w_hasz c), (w_hasm c); repeat split; intros; try discriminate;
    try (apply N.eqb_eq; lia); try (apply N.eqb_neq; lia); lia.
Qed.

Definition raw_bbox (bb : list (Z * Z)) : list Z :=
  flat_map (fun mm => [fst mm; wrap64 (snd mm - fst mm)]) bb.

Definition hdr_of (c : wcfg) (kind : N) (st : wst) (size : Z) : thdr :=
  {| h_kind := kind; h_pxy := w_pxy c; h_hasbbox := w_bbox c; h_hassize := w_size c;
     h_hasids := w_hasids c; h_hasext := w_hasext c; h_empty := false;
     h_hasz := w_hasz c; h_hasm := w_hasm c;
     h_pz := if w_hasz c then Z.to_N (w_pz c) else 0%N;
     h_pm := if w_hasm c then Z.to_N (w_pm c) else 0%N;
     h_size := size;
     h_bbox := if w_bbox c then raw_bbox (ws_bb st) else [] |}.

Definition empty_hdr (c : wcfg) (kind : N) : thdr :=
  {| h_kind := kind; h_pxy := w_pxy c; h_hasbbox := false; h_hassize := false; h_hasids := false;
     h_hasext := false; h_empty := true; h_hasz := false; h_hasm := false; h_pz := 0%N; h_pm := 0%N;
     h_size := 0%Z; h_bbox := [] |}.

Lemma bbox_bytes_raw bb : bbox_bytes bb = flat_map sv_enc (raw_bbox bb).
Proof.
  unfold bbox_bytes, raw_bbox. induction bb as [|m bb IH]; cbn [flat_map]; [reflexivity|].
  rewrite IH. cbn [app fst snd flat_map]. rewrite <- app_assoc. reflexivity.
Qed.

Lemma raw_bbox_ok bb : Forall i64pair bb -> Forall in_i64 (raw_bbox bb) /\ length (raw_bbox bb) = (2 * length bb)%nat.
Proof.
  induction 1 as [|m bb [H1 _] HF [IH1 IH2]]; cbn [raw_bbox flat_map length]; [split; [constructor|reflexivity]|].
  split.
  - cbn [app]. constructor; [exact H1|]. constructor; [apply wrap64_range|exact IH1].
  - cbn [app length]. fold (raw_bbox bb). rewrite IH2. lia.
Qed.

Lemma empty_headers_spec c kind rest pos a :
  (-8 <= w_pxy c <= 7)%Z -> (kind < 16)%N ->
  parse_headers {| s_in := empty_doc c kind ++ rest; s_pos := pos; s_alloc := a |} =
  TOk (empty_hdr c kind) {| s_in := rest; s_pos := (pos + 2)%N; s_alloc := a |}.
Proof.
  intros Hp Hk. destruct (typeprec_dec (w_pxy c) kind Hp Hk) as [Hk1 Hk2].
  unfold parse_headers, empty_doc. cbn [app].
  unfold tbind at 1. rewrite rd_byte_eq. unfold tbind at 1. rewrite rd_byte_eq.
  rewrite Hk1, Hk2.
  change (bit 16 4) with false. change (bit 16 8) with false. change (bit 16 2) with false.
  change (bit 16 1) with false. change (bit 16 16) with true. cbn [andb].
  unfold tbind, tret, empty_hdr. f_equal. f_equal. lia.
Qed.

Lemma headers_spec c kind st contents rest pos a :
  cfg_ok c -> (kind < 16)%N ->
  (w_hasids c = true -> ((kind =? 1) || (kind =? 2) || (kind =? 3))%N = false) ->
  wst_ok (dim (w_ct c)) st ->
  (Z.of_N pos + Z.of_nat (length (form c kind st contents)) < two63)%Z ->
  exists hl a',
  parse_headers {| s_in := form c kind st contents ++ rest; s_pos := pos; s_alloc := a |} =
  TOk (hdr_of c kind st (if w_size c then Z.of_N pos + Z.of_nat (length (form c kind st contents)) else 0)%Z)
      {| s_in := contents ++ rest; s_pos := (pos + N.of_nat hl)%N; s_alloc := a' |} /\
  length (form c kind st contents) = (hl + length contents)%nat.
Proof.
  intros [Hp [Hz [Hm Hids]]] Hk Hkid [Hs1 [Hs2 Hs3]] Hlen.
  destruct (typeprec_dec (w_pxy c) kind Hp Hk) as [Hk1 Hk2].
  destruct (meta_bits c) as [Hb1 [Hb2 [Hb4 [Hb8 Hb16]]]].
  destruct (ext_bits c Hz Hm) as [He1 [He2 [Hepz Hepm]]].
  destruct (raw_bbox_ok (ws_bb st) Hs3) as [Hraw1 Hraw2].
  unfold form in *. cbv zeta in *.
  set (bboxb := if w_bbox c then bbox_bytes (ws_bb st) else []) in *.
  unfold parse_headers. cbn [app].
  unfold tbind at 1. rewrite rd_byte_eq. unfold tbind at 1. rewrite rd_byte_eq.
  rewrite Hk1, Hk2, Hb1, Hb2, Hb4, Hb8, Hb16.
  assert (Hkid' : (w_hasids c && ((kind =? 1) || (kind =? 2) || (kind =? 3))%N) = false).
  { destruct (w_hasids c); [apply Hkid; reflexivity|reflexivity]. }
  rewrite Hkid'.
  (* extended precision *)
  assert (Hext : exists k1,
    (if w_hasext c then
       doT e <- rd_byte; tret (bit e 1, bit e 2, if bit e 1 then ((e / 4) mod 8)%N else 0%N,
                               if bit e 2 then ((e / 32) mod 8)%N else 0%N)
     else tret (false, false, 0%N, 0%N))
      {| s_in := (if w_hasext c then [ext_byte c] else []) ++
                 (if w_size c then uv_enc (N.of_nat (length bboxb + length contents)) else []) ++
                 bboxb ++ contents ++ rest; s_pos := (pos + 1 + 1)%N; s_alloc := a |} =
    TOk (w_hasz c, w_hasm c, (if w_hasz c then Z.to_N (w_pz c) else 0%N),
         (if w_hasm c then Z.to_N (w_pm c) else 0%N))
        {| s_in := (if w_size c then uv_enc (N.of_nat (length bboxb + length contents)) else []) ++
                   bboxb ++ contents ++ rest; s_pos := (pos + N.of_nat k1)%N; s_alloc := a |} /\
    k1 = (2 + length (if w_hasext c then [ext_byte c] else []))%nat).
  { exists (2 + length (if w_hasext c then [ext_byte c] else []))%nat. split; [|reflexivity].
    unfold w_hasext. destruct (w_hasz c) eqn:Ehz, (w_hasm c) eqn:Ehm; cbn [orb app];
      try (unfold tbind; rewrite rd_byte_eq; rewrite He1, He2, ?Hepz, ?Hepm by reflexivity);
      unfold tret; f_equal; f_equal; cbn [length]; lia. }
  destruct Hext as [k1 [Eext Hk1']].
  rewrite <- !app_assoc.
  unfold tbind at 1. rewrite Eext. clear Eext. cbv beta iota.
  set (szb := if w_size c then uv_enc (N.of_nat (length bboxb + length contents)) else []) in *.
  set (extb := if w_hasext c then [ext_byte c] else []) in *.
  assert (Hflen : length (typeprec (w_pxy c) kind :: meta_byte c :: extb ++ szb ++ bboxb ++ contents)
                  = (k1 + length szb + length bboxb + length contents)%nat).
  { cbn [length]. rewrite !app_length. lia. }
  cbn [app] in Hlen. rewrite Hflen in Hlen.
  (* size *)
  assert (Hsz :
    (if w_size c then parse_size else tret 0%Z)
      {| s_in := szb ++ bboxb ++ contents ++ rest; s_pos := (pos + N.of_nat k1)%N; s_alloc := a |} =
    TOk (if w_size c then Z.of_N pos + Z.of_nat (k1 + length szb + length bboxb + length contents) else 0)%Z
        {| s_in := bboxb ++ contents ++ rest; s_pos := (pos + N.of_nat (k1 + length szb))%N; s_alloc := a |}).
  { subst szb. destruct (w_size c).
    - unfold parse_size, tbind. rewrite rd_uv_eq by (unfold two63, two64N in *; lia).
      cbn [s_pos s_in s_alloc]. rewrite !app_length.
      set (rem := N.of_nat (length bboxb + length contents)) in *.
      set (lv := length (uv_enc rem)) in *.
      assert (Hw1 : wrap64 (Z.of_N rem) = Z.of_N rem).
      { apply wrap64_id. unfold in_i64, two63 in *. lia. }
      rewrite Hw1.
      assert (Hw2 : wrap64 (Z.of_N (pos + N.of_nat k1 + N.of_nat lv) + Z.of_N rem) = (Z.of_N pos + Z.of_nat (k1 + lv + length bboxb + length contents))%Z).
      { rewrite wrap64_id; [unfold rem; lia|]. unfold in_i64, two63 in *. unfold rem. lia. }
      rewrite Hw2.
      destruct (Z.ltb_spec (Z.of_N (pos + N.of_nat k1 + N.of_nat lv) + Z.of_nat (length bboxb + (length contents + length rest)))
                           (Z.of_N pos + Z.of_nat (k1 + lv + length bboxb + length contents))); [lia|].
      f_equal. f_equal. lia.
    - unfold tret. cbn [app length]. f_equal. f_equal. lia. }
  unfold tbind at 1. rewrite Hsz. clear Hsz.
  (* bounding box *)
  assert (Hbbx : exists a',
    (if w_bbox c then rd_svs (2 * dim (mk_ct (w_hasz c) (w_hasm c))) else tret [])
      {| s_in := bboxb ++ contents ++ rest; s_pos := (pos + N.of_nat (k1 + length szb))%N; s_alloc := a |} =
    TOk (if w_bbox c then raw_bbox (ws_bb st) else [])
        {| s_in := contents ++ rest; s_pos := (pos + N.of_nat (k1 + length szb + length bboxb))%N; s_alloc := a' |}).
  { unfold bboxb. destruct (w_bbox c).
    - rewrite bbox_bytes_raw.
      replace (2 * dim (mk_ct (w_hasz c) (w_hasm c)))%nat with (length (raw_bbox (ws_bb st)))
        by (rewrite Hraw2, Hs2; reflexivity).
      destruct (parses_svs (raw_bbox (ws_bb st)) Hraw1 (contents ++ rest) (pos + N.of_nat (k1 + length szb))%N a)
        as [a' E].
      exists a'. rewrite E. f_equal. f_equal. lia.
    - exists a. unfold tret. cbn [app length]. f_equal. f_equal. lia. }
  destruct Hbbx as [a' Hbbx].
  unfold tbind at 1. rewrite Hbbx. clear Hbbx.
  exists (k1 + length szb + length bboxb)%nat, a'. cbn [app]. rewrite Hflen. split; [|lia].
  unfold tret, hdr_of. reflexivity.
Qed.
