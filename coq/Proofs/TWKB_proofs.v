(* Proofs about the TWKB model.
   Part A: the parser is total: it never panics, never runs out of fuel, and the bytes it
           requests through count-sized make() calls are bounded by 8 * input length
           (for every ordinate carrier, so also for the float instance = UnmarshalTWKB).
   Part B: round trip of the integer layer and truth of the headers. *)
From Coq Require Import NArith ZArith List Bool Lia.
From Coq Require Import ZifyN ZifyNat ZifyBool.
From SF Require Import Base.Outcome Base.Bytes Base.GeomAST Base.Varint Model.TWKB.
Import ListNotations.

Ltac Zify.zify_post_hook ::= Z.div_mod_to_equations.

(* ================================================================== Part A *)
Definition len (s : pst) : N := N.of_nat (length (s_in s)).

(* [safe_at k Q p s]: run on s, p does not panic, does not fail for lack of fuel, on success
   returns a value satisfying Q and has consumed at least k bytes, and the allocation counter
   plus 8 * (unread bytes) never grows *)
Definition safe_at {A} (k : nat) (Q : A -> Prop) (p : TP A) (s : pst) : Prop :=
  match p s with
  | TOk a s' => Q a /\ (length (s_in s') + k <= length (s_in s))%nat /\
                (s_alloc s' + 8 * len s' <= s_alloc s + 8 * len s)%N
  | TErr e a => e <> EFuel /\ (a <= s_alloc s + 8 * len s)%N
  | TPanic _ _ => False
  end.

Lemma safe_weaken {A} k k' (Q Q' : A -> Prop) p s :
  (k' <= k)%nat -> (forall a, Q a -> Q' a) -> safe_at k Q p s -> safe_at k' Q' p s.
Proof.
  unfold safe_at. intros Hk HQ. destruct (p s) as [a s'|e a|pc a]; auto.
  intros [H1 [H2 H3]]. split; [auto|]. split; [lia|exact H3].
Qed.

Lemma safe_ret {A} (Q : A -> Prop) (a : A) s : Q a -> safe_at 0 Q (tret a) s.
Proof. unfold safe_at, tret. intros H. split; [exact H|]. split; lia. Qed.

Lemma safe_fail {A} (Q : A -> Prop) e s k : e <> EFuel -> safe_at k Q (@tfail A e) s.
Proof. unfold safe_at, tfail. intros H. split; [exact H|lia]. Qed.

Lemma safe_bind {A B} k k1 k2 (Q1 : A -> Prop) (Q2 : B -> Prop) (m : TP A) (f : A -> TP B) s :
  safe_at k1 Q1 m s ->
  (forall a s', Q1 a -> (length (s_in s') + k1 <= length (s_in s))%nat -> safe_at k2 Q2 (f a) s') ->
  (k <= k1 + k2)%nat ->
  safe_at k Q2 (tbind m f) s.
Proof.
  unfold safe_at, tbind. intros Hm Hf Hk.
  destruct (m s) as [a s1|e a|pc a]; auto.
  destruct Hm as [Hq [Hl Ha]]. specialize (Hf a s1 Hq ltac:(lia)).
  destruct (f a s1) as [b s2|e a2|pc a2]; auto.
  - destruct Hf as [Hq2 [Hl2 Ha2]]. split; [exact Hq2|]. split; lia.
  - destruct Hf as [He Ha2]. split; [exact He|lia].
Qed.

Lemma safe_lift {A} (Q : A -> Prop) (o : outcome A) s :
  (exists a, o = Ok a /\ Q a) \/ (exists e, o = Err e /\ e <> EFuel) -> safe_at 0 Q (tlift o) s.
Proof.
  unfold safe_at, tlift. intros [[a [-> H]]|[e [-> H]]].
  - split; [exact H|]. split; lia.
  - split; [exact H|lia].
Qed.

Lemma advance_in s rest : s_in (advance s rest) = rest.
Proof. reflexivity. Qed.
Lemma advance_alloc s rest : s_alloc (advance s rest) = s_alloc s.
Proof. reflexivity. Qed.

Lemma safe_rd_byte s : safe_at 1 (fun _ => True) rd_byte s.
Proof.
  unfold safe_at, rd_byte, len. destruct (s_in s) as [|b r] eqn:E.
  - split; [discriminate|lia].
  - cbn [s_in s_alloc advance length]. split; [exact I|]. split; lia.
Qed.

Lemma safe_rd_uv s : safe_at 1 (fun _ => True) rd_uv s.
Proof.
  unfold safe_at, rd_uv, len. destruct (uv_dec (s_in s)) as [v rest| |] eqn:E.
  - apply uv_dec_length in E. cbn [s_in s_alloc advance]. split; [exact I|]. split; lia.
  - split; [discriminate|lia].
  - split; [discriminate|lia].
Qed.

Lemma safe_rd_sv s : safe_at 1 (fun _ => True) rd_sv s.
Proof.
  unfold safe_at, rd_sv, len. destruct (sv_dec (s_in s)) as [v rest| |] eqn:E.
  - apply sv_dec_length in E. cbn [s_in s_alloc advance]. split; [exact I|]. split; lia.
  - split; [discriminate|lia].
  - split; [discriminate|lia].
Qed.

(* readers that never allocate: the counter is unchanged on every path *)
Definition pure_at {A} (k : nat) (Q : A -> Prop) (p : TP A) (s : pst) : Prop :=
  match p s with
  | TOk a s' => Q a /\ (length (s_in s') + k <= length (s_in s))%nat /\ s_alloc s' = s_alloc s
  | TErr e a => e <> EFuel /\ a = s_alloc s
  | TPanic _ _ => False
  end.

Lemma pure_safe {A} k (Q : A -> Prop) p s : pure_at k Q p s -> safe_at k Q p s.
Proof.
  unfold pure_at, safe_at, len. destruct (p s) as [a s'|e a|pc a]; auto.
  - intros [H1 [H2 H3]]. split; [exact H1|]. split; [exact H2|]. rewrite H3. lia.
  - intros [H1 H2]. split; [exact H1|]. rewrite H2. lia.
Qed.

Lemma pure_bind {A B} k k1 k2 (Q1 : A -> Prop) (Q2 : B -> Prop) (m : TP A) (f : A -> TP B) s :
  pure_at k1 Q1 m s -> (forall a s', Q1 a -> pure_at k2 Q2 (f a) s') ->
  (k <= k1 + k2)%nat ->
  pure_at k Q2 (tbind m f) s.
Proof.
  unfold pure_at, tbind. intros Hm Hf Hk.
  destruct (m s) as [a s1|e a|pc a]; auto.
  destruct Hm as [Hq [Hl Ha]]. specialize (Hf a s1 Hq).
  destruct (f a s1) as [b s2|e a2|pc a2]; auto.
  - destruct Hf as [Hq2 [Hl2 Ha2]]. split; [exact Hq2|]. split; [lia|congruence].
  - destruct Hf as [He Ha2]. split; [exact He|congruence].
Qed.

Lemma pure_ret {A} (Q : A -> Prop) (a : A) s : Q a -> pure_at 0 Q (tret a) s.
Proof. unfold pure_at, tret. intros H. split; [exact H|]. split; [lia|reflexivity]. Qed.

Lemma pure_rd_sv s : pure_at 1 (fun _ => True) rd_sv s.
Proof.
  unfold pure_at, rd_sv. destruct (sv_dec (s_in s)) as [v rest| |] eqn:E.
  - apply sv_dec_length in E. cbn [s_in s_alloc advance]. split; [exact I|]. split; [lia|reflexivity].
  - split; [discriminate|reflexivity].
  - split; [discriminate|reflexivity].
Qed.

Lemma pure_rd_svs n s : pure_at n (fun l => length l = n) (rd_svs n) s.
Proof.
  revert s. induction n as [|n IH]; intros s; cbn [rd_svs].
  - apply pure_ret. reflexivity.
  - eapply (pure_bind _ 1%nat n); [apply pure_rd_sv| |lia].
    intros v s1 _. eapply (pure_bind _ n 0%nat); [apply IH| |lia].
    intros l s2 Hl. apply pure_ret. cbn [length]. congruence.
Qed.

Lemma pure_rd_pt ref s : pure_at (length ref) (fun p => length p = length ref) (rd_pt ref) s.
Proof.
  revert s. induction ref as [|r ref IH]; intros s; cbn [rd_pt length].
  - apply pure_ret. reflexivity.
  - eapply (pure_bind _ 1%nat (length ref)); [apply pure_rd_sv| |lia].
    intros v s1 _. eapply (pure_bind _ (length ref) 0%nat); [apply IH| |lia].
    intros l s2 Hl. apply pure_ret. cbn [length]. congruence.
Qed.

Definition pts_ok (d : nat) (n : nat) (r : list (list Z) * list Z) : Prop :=
  Forall (fun p => length p = d) (fst r) /\ length (snd r) = d /\ length (fst r) = n.

Lemma pure_rd_pts n : forall ref s,
  pure_at (n * length ref) (pts_ok (length ref) n) (rd_pts n ref) s.
Proof.
  induction n as [|n IH]; intros ref s; cbn [rd_pts].
  - apply pure_ret. repeat split; constructor.
  - eapply (pure_bind _ (length ref) (n * length ref)%nat); [apply pure_rd_pt| |lia].
    intros p s1 Hp. eapply (pure_bind _ (n * length p)%nat 0%nat); [apply IH| |rewrite Hp; lia].
    intros r s2 [H1 [H2 H3]]. apply pure_ret. rewrite Hp in *.
    repeat split; cbn [fst snd length]; auto.
Qed.

(* checkCount (fix F7) *)
Lemma check_count_spec cnt minb s :
  match check_count cnt minb s with
  | TOk _ s' => s' = s /\ (N.to_nat cnt * minb <= length (s_in s))%nat
  | TErr e a => e <> EFuel /\ a = s_alloc s
  | TPanic _ _ => False
  end.
Proof.
  unfold check_count. destruct (N.ltb_spec (N.of_nat (length (s_in s) / minb)) cnt).
  - split; [discriminate|reflexivity].
  - split; [reflexivity|]. destruct minb as [|m]; [lia|].
    pose proof (Nat.div_mod_eq (length (s_in s)) (S m)).
    assert (N.to_nat cnt <= length (s_in s) / S m)%nat by lia. nia.
Qed.

Lemma safe_check_count cnt minb s : safe_at 0 (fun _ => True) (check_count cnt minb) s.
Proof.
  pose proof (check_count_spec cnt minb s) as H. unfold safe_at.
  destruct (check_count cnt minb s) as [u s'|e a|pc a]; [|destruct H as [H1 H2]; split; [exact H1|unfold len; lia]|exact H].
  destruct H as [-> _]. split; [exact I|]. split; lia.
Qed.

(* parsePointCountAndArray: the count-sized make() is covered by the bytes the points need *)
Lemma safe_parse_count_array ref s :
  safe_at 1 (fun r => exists n, pts_ok (length ref) n (fst r)) (parse_count_array ref) s.
Proof.
  unfold parse_count_array.
  eapply (safe_bind _ 1%nat 0%nat); [apply safe_rd_uv| |lia].
  intros cnt s1 _ _. unfold safe_at, tbind at 1.
  pose proof (check_count_spec cnt (length ref) s1) as Hc.
  destruct (check_count cnt (length ref) s1) as [u s2|e a|pc a];
    [|destruct Hc as [H1 H2]; split; [exact H1|unfold len; lia]|destruct Hc].
  destruct Hc as [-> Hb].
  pose proof (pure_rd_pts (N.to_nat cnt) ref
                {| s_in := s_in s1; s_pos := s_pos s1;
                   s_alloc := (s_alloc s1 + 8 * cnt * N.of_nat (length ref))%N |}) as Hp.
  unfold tbind, talloc. unfold pure_at in Hp. cbn [s_in s_alloc] in Hp.
  destruct (rd_pts (N.to_nat cnt) ref _) as [r s'|e a|pc a]; auto.
  - destruct Hp as [H1 [H2 H3]]. unfold tret. split; [exists (N.to_nat cnt); exact H1|]. split; [lia|].
    unfold len. rewrite H3. nia.
  - destruct Hp as [H1 H2]. split; [exact H1|]. unfold len. rewrite H2. nia.
Qed.

Lemma safe_parse_ids cnt s : safe_at 0 (fun _ => True) (parse_ids cnt) s.
Proof.
  unfold parse_ids. unfold safe_at, tbind at 1.
  pose proof (check_count_spec cnt 1 s) as Hc.
  destruct (check_count cnt 1 s) as [u s2|e a|pc a];
    [|destruct Hc as [H1 H2]; split; [exact H1|unfold len; lia]|destruct Hc].
  destruct Hc as [-> Hb].
  pose proof (pure_rd_svs (N.to_nat cnt)
                {| s_in := s_in s; s_pos := s_pos s; s_alloc := (s_alloc s + 8 * cnt)%N |}) as Hp.
  unfold tbind, talloc. unfold pure_at in Hp. cbn [s_in s_alloc] in Hp.
  destruct (rd_svs (N.to_nat cnt) _) as [r s'|e a|pc a]; auto.
  - destruct Hp as [H1 [H2 H3]]. split; [exact I|]. split; [lia|]. unfold len. rewrite H3. lia.
  - destruct Hp as [H1 H2]. split; [exact H1|]. unfold len. rewrite H2. lia.
Qed.

Lemma safe_count_and_ids b minb s : safe_at 1 (fun _ => True) (count_and_ids b minb) s.
Proof.
  unfold count_and_ids.
  eapply (safe_bind _ 1%nat 0%nat); [apply safe_rd_uv| |lia].
  intros cnt s1 _ _. eapply (safe_bind _ 0%nat 0%nat) with (Q1 := fun _ => True); [| |lia].
  - destruct b; [apply safe_parse_ids|apply safe_ret; exact I].
  - intros ids s2 _ _. eapply (safe_bind _ 0%nat 0%nat); [apply safe_check_count| |lia].
    intros u s3 _ _. apply safe_ret. exact I.
Qed.

Lemma safe_parse_size s : safe_at 1 (fun _ => True) parse_size s.
Proof.
  unfold parse_size.
  eapply (safe_bind _ 1%nat 0%nat) with (Q1 := fun _ => True); [apply safe_rd_uv| |lia].
  intros rem s1 _ _. unfold safe_at. destruct (_ <? _)%N.
  - split; [discriminate|lia].
  - split; [exact I|]. split; lia.
Qed.

Lemma safe_parse_headers s : safe_at 2 (fun _ => True) parse_headers s.
Proof.
  unfold parse_headers.
  eapply (safe_bind _ 1%nat 1%nat); [apply safe_rd_byte| |lia].
  intros tp s1 _ _. eapply (safe_bind _ 1%nat 0%nat); [apply safe_rd_byte| |lia].
  intros mh s2 _ _.
  destruct (bit mh 4 && _); [apply safe_fail; discriminate|].
  eapply (safe_bind _ 0%nat 0%nat) with (Q1 := fun _ => True); [| |lia].
  - destruct (bit mh 8).
    + eapply (safe_bind _ 1%nat 0%nat); [apply safe_rd_byte| |lia].
      intros e s3 _ _. apply safe_ret. exact I.
    + apply safe_ret. exact I.
  - intros [[[hz hm] pz] pm] s3 _ _.
    eapply (safe_bind _ 0%nat 0%nat) with (Q1 := fun _ => True); [| |lia].
    + destruct (bit mh 2).
      * eapply safe_weaken; [| |apply safe_parse_size]; [lia|auto].
      * apply safe_ret. exact I.
    + intros size s4 _ _. eapply (safe_bind _ 0%nat 0%nat) with (Q1 := fun _ => True); [| |lia].
      * destruct (bit mh 1).
        -- eapply safe_weaken; [| |apply pure_safe; apply pure_rd_svs]; [lia|auto].
        -- apply safe_ret. exact I.
      * intros bbox s5 _ _. apply safe_ret. exact I.
Qed.

(* ---- the geometry-building part, for every ordinate carrier ---- *)
Section ParserSafe.
  Variable F : Type.
  Variable fzero : F.
  Variable feqb : F -> F -> bool.
  Variable deq : Z -> Z -> F.

  Lemma precs_length h : length (precs h) = dim (h_ct h).
  Proof. unfold precs, h_ct. destruct (h_hasz h), (h_hasm h); reflexivity. Qed.

  Lemma deq_pt_length ps pt : length (deq_pt F deq ps pt) = Nat.min (length ps) (length pt).
  Proof.
    revert pt. induction ps as [|p ps IH]; intros [|k pt]; cbn [deq_pt length Nat.min]; auto.
  Qed.

  Lemma ovtx_ok ct (l : list F) : length l = dim ct -> exists v, ovtx fzero ct l = Ok v.
  Proof.
    destruct ct; cbn [dim]; intros H;
      repeat (destruct l as [|? l]; cbn [length] in H; try discriminate);
      eexists; reflexivity.
  Qed.

  Lemma vtxs_of_ok ct (pts : list (list F)) :
    Forall (fun p => length p = dim ct) pts -> exists vs, vtxs_of F fzero ct pts = Ok vs.
  Proof.
    induction 1 as [|p pts Hp HF [vs IH]]; cbn [vtxs_of].
    - eexists; reflexivity.
    - destruct (ovtx_ok ct p Hp) as [v ->]. cbn [bind]. rewrite IH. cbn [bind]. eexists; reflexivity.
  Qed.

  Lemma deq_pts_ok h (pts : list (list Z)) :
    Forall (fun p => length p = dim (h_ct h)) pts ->
    Forall (fun p => length p = dim (h_ct h)) (map (deq_pt F deq (precs h)) pts).
  Proof.
    intros H. apply Forall_map. eapply Forall_impl; [|exact H].
    intros p Hp. cbv beta. rewrite deq_pt_length, precs_length, Hp. apply Nat.min_id.
  Qed.

  Lemma reclose_ok d n (pts : list (list F)) :
    Forall (fun p => length p = d) pts -> Forall (fun p => length p = d) (reclose F feqb n pts).
  Proof.
    intros H. unfold reclose. destruct (2 <=? n)%Z; [|exact H].
    destruct pts as [|p0 [|p1 tl]]; try exact H.
    destruct (pt_eqb F feqb p0 _); [exact H|].
    apply Forall_app. split; [exact H|]. constructor; [|constructor]. inversion H; assumption.
  Qed.

  Definition ref_ok (d : nat) {A} (r : A * list Z) : Prop := length (snd r) = d.

  Lemma safe_next_point h ref s :
    length ref = dim (h_ct h) ->
    safe_at 1 (ref_ok (dim (h_ct h))) (next_point F fzero deq h ref) s.
  Proof.
    intros Hr. unfold next_point.
    eapply (safe_bind _ (1 * length ref)%nat 0%nat); [apply pure_safe; apply pure_rd_pts| |].
    - intros [pts ref'] s1 [H1 [H2 H3]] _. cbn [fst snd] in *.
      destruct pts as [|p [|q pts]]; cbn [length] in H3; try discriminate.
      inversion H1 as [|? ? Hp _]; subst.
      destruct (ovtx_ok (h_ct h) (deq_pt F deq (precs h) p)) as [v Hv].
      { rewrite deq_pt_length, precs_length, Hp, Hr. apply Nat.min_id. }
      rewrite Hv. eapply (safe_bind _ 0%nat 0%nat) with (Q1 := fun _ => True); [| |lia].
      + apply safe_lift. left. eexists; split; [reflexivity|exact I].
      + intros v' s2 _ _. apply safe_ret. unfold ref_ok. cbn [snd]. congruence.
    - rewrite Hr. destruct (h_ct h); cbn [dim]; lia.
  Qed.

  Lemma safe_next_line h ref s :
    length ref = dim (h_ct h) ->
    safe_at 1 (ref_ok (dim (h_ct h))) (next_line F fzero deq h ref) s.
  Proof.
    intros Hr. unfold next_line.
    eapply (safe_bind _ 1%nat 0%nat); [apply safe_parse_count_array| |lia].
    intros [[pts ref'] n] s1 [m [H1 [H2 H3]]] _. cbn [fst snd] in *.
    rewrite Hr in *.
    destruct (vtxs_of_ok (h_ct h) _ (deq_pts_ok h pts H1)) as [vs Hvs]. rewrite Hvs.
    eapply (safe_bind _ 0%nat 0%nat) with (Q1 := fun _ => True); [| |lia].
    - apply safe_lift. left. eexists; split; [reflexivity|exact I].
    - intros v' s2 _ _. apply safe_ret. exact H2.
  Qed.

  Lemma safe_next_ring h ref s :
    length ref = dim (h_ct h) ->
    safe_at 1 (ref_ok (dim (h_ct h))) (next_ring F fzero feqb deq h ref) s.
  Proof.
    intros Hr. unfold next_ring.
    eapply (safe_bind _ 1%nat 0%nat); [apply safe_parse_count_array| |lia].
    intros [[pts ref'] n] s1 [m [H1 [H2 H3]]] _. cbn [fst snd] in *.
    rewrite Hr in *.
    destruct (vtxs_of_ok (h_ct h) _ (reclose_ok _ n _ (deq_pts_ok h pts H1))) as [vs Hvs].
    rewrite Hvs.
    eapply (safe_bind _ 0%nat 0%nat) with (Q1 := fun _ => True); [| |lia].
    - apply safe_lift. left. eexists; split; [reflexivity|exact I].
    - intros v' s2 _ _. apply safe_ret. exact H2.
  Qed.

  (* loops: every iteration consumes at least one byte, so fuel > unread bytes suffices *)
  Lemma safe_tloop {A} d (step : list Z -> TP (A * list Z)) :
    forall fuel n ref s, length ref = d -> (length (s_in s) < fuel)%nat ->
    (forall ref s', (length (s_in s') <= length (s_in s))%nat -> length ref = d ->
                    safe_at 1 (ref_ok d) (step ref) s') ->
    safe_at 0 (ref_ok d) (tloop fuel n step ref) s.
  Proof.
    induction fuel as [|f IH]; intros n ref s Hr Hf Hstep; [lia|].
    cbn [tloop]. destruct (n <=? 0)%Z.
    - apply safe_ret. exact Hr.
    - eapply (safe_bind _ 1%nat 0%nat); [apply Hstep; [lia|exact Hr]| |lia].
      intros a s1 Ha Hl1. unfold ref_ok in Ha.
      eapply (safe_bind _ 0%nat 0%nat); [| |lia].
      + apply IH; [exact Ha|lia|]. intros ref' s' Hl' Hr'. apply Hstep; [lia|exact Hr'].
      + intros r s2 Hr2 _. apply safe_ret. exact Hr2.
  Qed.

  Lemma safe_tloop_in {A} d (step : list Z -> TP (A * list Z)) n ref s :
    length ref = d ->
    (forall ref s', (length (s_in s') <= length (s_in s))%nat -> length ref = d ->
                    safe_at 1 (ref_ok d) (step ref) s') ->
    safe_at 0 (ref_ok d) (tloop_in n step ref) s.
  Proof. intros Hr Hstep. unfold tloop_in. apply safe_tloop; [exact Hr|lia|exact Hstep]. Qed.

  Lemma safe_next_poly h ref s :
    length ref = dim (h_ct h) ->
    safe_at 1 (ref_ok (dim (h_ct h))) (next_poly F fzero feqb deq h ref) s.
  Proof.
    intros Hr. unfold next_poly.
    eapply (safe_bind _ 1%nat 0%nat); [apply safe_rd_uv| |lia].
    intros cnt s1 _ _.
    eapply (safe_bind _ 0%nat 0%nat); [apply (safe_tloop_in (dim (h_ct h))); [exact Hr|]| |lia].
    - intros ref' s' _ Hr'. apply safe_next_ring. exact Hr'.
    - intros [rings ref'] s2 Hr2 _. cbn [fst snd]. unfold ref_ok in Hr2. cbn [snd] in Hr2.
      destruct rings; apply safe_ret; exact Hr2.
  Qed.

  (* nextGeometry: enough fuel is more fuel than unread bytes (every nesting level consumes
     its two header bytes) *)
  Lemma safe_rd_geom : forall fuel s, (length (s_in s) < fuel)%nat ->
    safe_at 2 (fun _ => True) (rd_geom F fzero feqb deq fuel) s.
  Proof.
    induction fuel as [|f IH]; intros s Hf; [lia|].
    cbn [rd_geom].
    eapply (safe_bind _ 2%nat 0%nat); [apply safe_parse_headers| |lia].
    intros h s1 _ Hl1.
    assert (Hr0 : length (repeat 0%Z (dim (h_ct h))) = dim (h_ct h)) by apply repeat_length.
    set (ct := h_ct h) in *. set (ref0 := repeat 0%Z (dim ct)) in *.
    destruct (h_kind h) as [|[[[|[]|]|[|[]|]|]|[[|[]|]|[|[]|]|]|]];
      try (apply safe_fail; discriminate);
      destruct (h_empty h); try (apply safe_ret; exact I);
      try (eapply (safe_bind _ 1%nat 0%nat);
           [ first [apply safe_next_point|apply safe_next_line|apply safe_next_poly]; exact Hr0
           | intros; apply safe_ret; exact I | lia ]);
      try (eapply (safe_bind _ 1%nat 0%nat); [apply safe_count_and_ids| |lia];
           intros ci s2 _ _;
           eapply (safe_bind _ 0%nat 0%nat);
           [ apply (safe_tloop_in (dim ct)); [exact Hr0|];
             intros ref s'' _ Hr;
             first [apply safe_next_point|apply safe_next_line|apply safe_next_poly]; exact Hr
           | intros; apply safe_ret; exact I | lia ]).
    (* 7: collection *)
    eapply (safe_bind _ 1%nat 0%nat); [apply safe_count_and_ids| |lia].
    intros ci s2 _ Hl2.
    eapply (safe_bind _ 0%nat 0%nat); [apply (safe_tloop_in 0%nat); [reflexivity|]| |lia].
    - intros ref s' Hl' _. unfold safe_at.
      assert (Hf' : (length (s_in s') < f)%nat) by lia.
      pose proof (IH {| s_in := s_in s'; s_pos := 0; s_alloc := s_alloc s' |} Hf') as Hc.
      unfold safe_at in Hc. cbn [s_in s_alloc] in Hc. unfold len in *. cbn [s_in] in Hc.
      destruct (rd_geom F fzero feqb deq f _) as [[[g hs] ids] s3|e a|pc a]; auto.
      destruct Hc as [_ [Hc1 Hc2]]. cbn [s_in s_alloc]. split; [reflexivity|]. split; lia.
    - intros r s3 _ _. apply safe_ret. exact I.
  Qed.

  Definition res_alloc {A} (r : tres A) : N :=
    match r with TOk _ s => s_alloc s | TErr _ a => a | TPanic _ a => a end.

  (* the three facts C08 cites, for any carrier *)
  Theorem dec_full_total bs :
    match dec_full F fzero feqb deq bs with
    | TOk _ s => (s_alloc s <= 8 * N.of_nat (length bs))%N
    | TErr e a => e <> EFuel /\ (a <= 8 * N.of_nat (length bs))%N
    | TPanic _ _ => False
    end.
  Proof.
    unfold dec_full.
    pose proof (safe_rd_geom (S (length bs)) {| s_in := bs; s_pos := 0; s_alloc := 0 |}) as H.
    cbn [s_in] in H. specialize (H ltac:(lia)). unfold safe_at, len in H. cbn [s_in s_alloc] in H.
    destruct (rd_geom F fzero feqb deq (S (length bs)) _) as [a s|e a|pc a].
    - destruct H as [_ [_ H]]. lia.
    - destruct H as [H1 H2]. split; [exact H1|lia].
    - exact H.
  Qed.
End ParserSafe.

(* integer layer *)
Lemma tdec_no_panic_lemma bs : forall p, tdec bs <> Panic p.
Proof.
  intros p. unfold tdec, tdec_full. pose proof (dec_full_total Z 0%Z Z.eqb (fun _ k => k) bs) as H.
  destruct (dec_full Z 0%Z Z.eqb (fun _ k => k) bs) as [[[g h] ids] s|e a|pc a];
    try discriminate. destruct H.
Qed.

Lemma tdec_fuel_enough_lemma bs : tdec bs <> Err EFuel.
Proof.
  unfold tdec, tdec_full. pose proof (dec_full_total Z 0%Z Z.eqb (fun _ k => k) bs) as H.
  destruct (dec_full Z 0%Z Z.eqb (fun _ k => k) bs) as [[[g h] ids] s|e a|pc a];
    try discriminate. destruct H as [H _]. congruence.
Qed.

Lemma tdec_alloc_linear_lemma bs : (tdec_alloc bs <= 8 * N.of_nat (length bs))%N.
Proof.
  unfold tdec_alloc, tdec_full. pose proof (dec_full_total Z 0%Z Z.eqb (fun _ k => k) bs) as H.
  destruct (dec_full Z 0%Z Z.eqb (fun _ k => k) bs) as [[[g h] ids] s|e a|pc a];
    [exact H|destruct H as [_ H]; exact H|destruct H].
Qed.

(* ================================================================== Part B *)
(* [parses p bs x]: on any input that starts with bs, from any position and allocation count,
   p returns x, consumes exactly bs and advances the position by its length *)
Definition parses {A} (p : TP A) (bs : list N) (x : A) : Prop :=
  forall rest pos a, exists a',
    p {| s_in := bs ++ rest; s_pos := pos; s_alloc := a |} =
    TOk x {| s_in := rest; s_pos := (pos + N.of_nat (length bs))%N; s_alloc := a' |}.

Lemma parses_ret {A} (x : A) : parses (tret x) [] x.
Proof.
  intros rest pos a. exists a. unfold tret. cbn [app length]. f_equal. f_equal. lia.
Qed.

Lemma parses_bind {A B} (p : TP A) (f : A -> TP B) b1 b2 x y :
  parses p b1 x -> parses (f x) b2 y -> parses (tbind p f) (b1 ++ b2) y.
Proof.
  intros H1 H2 rest pos a. unfold tbind. rewrite <- app_assoc.
  destruct (H1 (b2 ++ rest) pos a) as [a1 E1]. rewrite E1.
  destruct (H2 rest (pos + N.of_nat (length b1))%N a1) as [a2 E2]. rewrite E2.
  exists a2. f_equal. f_equal. rewrite app_length. lia.
Qed.

Lemma parses_bind_nil {A B} (p : TP A) (f : A -> TP B) b x y :
  parses p [] x -> parses (f x) b y -> parses (tbind p f) b y.
Proof. intros H1 H2. change b with ([] ++ b). eapply parses_bind; eauto. Qed.

Lemma parses_lift {A} (o : outcome A) x : o = Ok x -> parses (tlift o) [] x.
Proof. intros ->. intros rest pos a. exists a. unfold tlift. cbn [app length]. f_equal. f_equal. lia. Qed.

Lemma advance_app bs rest pos a :
  advance {| s_in := bs ++ rest; s_pos := pos; s_alloc := a |} rest =
  {| s_in := rest; s_pos := (pos + N.of_nat (length bs))%N; s_alloc := a |}.
Proof. unfold advance. cbn [s_in s_pos s_alloc]. f_equal. rewrite app_length. f_equal. lia. Qed.

Lemma parses_byte b : parses rd_byte [b] b.
Proof.
  intros rest pos a. exists a. unfold rd_byte. cbn [s_in app].
  change (b :: rest) with ([b] ++ rest). rewrite advance_app. reflexivity.
Qed.

Lemma parses_uv x : (x < two64N)%N -> parses rd_uv (uv_enc x) x.
Proof.
  intros H rest pos a. exists a. unfold rd_uv. cbn [s_in].
  rewrite uvarint_roundtrip_lemma by exact H. rewrite advance_app. reflexivity.
Qed.

Lemma rd_byte_eq b r pos a :
  rd_byte {| s_in := b :: r; s_pos := pos; s_alloc := a |} =
  TOk b {| s_in := r; s_pos := (pos + 1)%N; s_alloc := a |}.
Proof. unfold rd_byte, advance. cbn [s_in s_pos s_alloc length]. f_equal. f_equal. lia. Qed.

Lemma rd_uv_eq x r pos a :
  (x < two64N)%N ->
  rd_uv {| s_in := uv_enc x ++ r; s_pos := pos; s_alloc := a |} =
  TOk x {| s_in := r; s_pos := (pos + N.of_nat (length (uv_enc x)))%N; s_alloc := a |}.
Proof.
  intros H. unfold rd_uv. cbn [s_in]. rewrite uvarint_roundtrip_lemma by exact H.
  rewrite advance_app. reflexivity.
Qed.

Lemma parses_sv x : in_i64 x -> parses rd_sv (sv_enc x) x.
Proof.
  intros H rest pos a. exists a. unfold rd_sv. cbn [s_in].
  rewrite svarint_roundtrip_lemma by exact H. rewrite advance_app. reflexivity.
Qed.

Lemma parses_svs l : Forall in_i64 l -> parses (rd_svs (length l)) (flat_map sv_enc l) l.
Proof.
  induction 1 as [|x l Hx HF IH]; cbn [rd_svs length flat_map].
  - apply parses_ret.
  - eapply parses_bind; [apply parses_sv; exact Hx|].
    rewrite <- (app_nil_r (flat_map sv_enc l)).
    eapply parses_bind; [exact IH|]. apply parses_ret.
Qed.

Lemma forallb_Forall {A} (f : A -> bool) l : forallb f l = true <-> Forall (fun x => f x = true) l.
Proof. rewrite forallb_forall, Forall_forall. tauto. Qed.

(* ---- writer state invariant and the bounding box as a fold ---- *)
Definition i64pair (mm : Z * Z) : Prop := in_i64 (fst mm) /\ in_i64 (snd mm) /\ (fst mm <= snd mm)%Z.
Definition wst_ok (d : nat) (st : wst) : Prop :=
  length (ws_ref st) = d /\ length (ws_bb st) = d /\ Forall i64pair (ws_bb st).
Definition bb_state (st : wst) : option (list (Z * Z)) :=
  if ws_valid st then Some (ws_bb st) else None.

Lemma init_wst_ok d : wst_ok d (init_wst d).
Proof.
  unfold wst_ok, init_wst. cbn [ws_ref ws_bb]. rewrite !repeat_length. repeat split.
  apply Forall_forall. intros x Hx. apply repeat_spec in Hx. subst x.
  unfold i64pair, in_i64, two63. cbn [fst snd]. lia.
Qed.

(* one point *)
Lemma wr_ords_spec valid : forall pt ref bb,
  length pt = length ref -> length ref = length bb -> Forall in_i64 pt ->
  (valid = true -> Forall i64pair bb) ->
  exists bs bbo, wr_ords valid pt ref bb = (bs, pt, bbo) /\
    parses (rd_pt ref) bs pt /\ (length pt <= length bs)%nat /\
    length bbo = length bb /\ Forall i64pair bbo /\
    Some bbo = env_step (if valid then Some bb else None) pt.
Proof.
  induction pt as [|v pt IH]; intros ref bb Hl1 Hl2 Hr Hbb.
  - destruct ref; [|discriminate]. destruct bb; [|discriminate].
    exists [], []. cbn [wr_ords rd_pt length]. repeat split; try constructor.
    + apply parses_ret.
    + destruct valid; reflexivity.
  - destruct ref as [|r ref]; [discriminate|]. destruct bb as [|m bb]; [discriminate|].
    cbn [length] in *. inversion Hr as [|? ? Hv Hr']; subst.
    assert (Hbb' : valid = true -> Forall i64pair bb).
    { intros E. specialize (Hbb E). inversion Hbb; assumption. }
    destruct (IH ref bb ltac:(lia) ltac:(lia) Hr' Hbb') as [bs [bbo [E [Hp [Hlen [Hlb [Hok Henv]]]]]]].
    cbn [wr_ords]. rewrite E.
    exists (sv_enc (wrap64 (v - r)) ++ bs), (bb_upd valid m v :: bbo).
    rewrite wrap64_delta by exact Hv.
    assert (Hup : i64pair (bb_upd valid m v) /\
                  bb_upd valid m v = (if valid then (Z.min (fst m) v, Z.max (snd m) v) else (v, v))).
    { unfold bb_upd. destruct valid; cbn [negb].
      - specialize (Hbb eq_refl). inversion Hbb as [|? ? Hm _]; subst.
        destruct m as [mn mx]. unfold i64pair in *. cbn [fst snd] in *.
        destruct (Z.ltb_spec v mn); [|destruct (Z.ltb_spec mx v)]; cbn [fst snd];
          (split; [unfold in_i64 in *; lia|f_equal; lia]).
      - unfold i64pair. cbn [fst snd]. split; [unfold in_i64 in *; lia|reflexivity]. }
    destruct Hup as [Hup1 Hup2].
    repeat split.
    + cbn [rd_pt]. eapply parses_bind; [apply parses_sv; apply wrap64_range|].
      rewrite wrap64_delta by exact Hv.
      rewrite <- (app_nil_r bs). eapply parses_bind; [exact Hp|]. apply parses_ret.
    + rewrite app_length. pose proof (sv_enc_nonempty (wrap64 (v - r))). cbn [length]. lia.
    + cbn [length]. lia.
    + constructor; assumption.
    + rewrite Hup2. destruct valid; cbn [env_step map combine fst snd] in *.
      * congruence.
      * congruence.
Qed.

Definition pt_ok (d : nat) (p : list Z) : Prop := length p = d /\ Forall in_i64 p.

Lemma in_i64_forallb p : Forall in_i64 p -> forallb in_i64b p = true.
Proof.
  intros H. apply forallb_Forall. eapply Forall_impl; [|exact H]. intros x Hx. apply in_i64b_iff. exact Hx.
Qed.

Lemma wr_points_spec d : forall pts st, wst_ok d st -> Forall (pt_ok d) pts ->
  exists bs st', wr_points st pts = Ok (bs, st') /\ wst_ok d st' /\
    parses (rd_pts (length pts) (ws_ref st)) bs (pts, ws_ref st') /\
    (length pts * d <= length bs)%nat /\
    bb_state st' = fold_left env_step pts (bb_state st).
Proof.
  induction pts as [|p pts IH]; intros st Hst Hp.
  - exists [], st. cbn [wr_points length fold_left rd_pts]. repeat split; try apply Hst.
    + apply parses_ret.
    + cbn. lia.
  - inversion Hp as [|? ? [Hpl Hpi] Hp']; subst.
    destruct Hst as [Hs1 [Hs2 Hs3]].
    destruct (wr_ords_spec (ws_valid st) p (ws_ref st) (ws_bb st) ltac:(lia) ltac:(lia) Hpi
                (fun _ => Hs3)) as [bs1 [bbo [E [Hpar [Hlen [Hlb [Hok Henv]]]]]]].
    set (st1 := {| ws_ref := p; ws_valid := true; ws_bb := bbo |}).
    assert (Hst1 : wst_ok (length p) st1).
    { unfold wst_ok, st1. cbn [ws_ref ws_bb]. repeat split; [lia|exact Hok]. }
    destruct (IH st1 Hst1 Hp') as [bs2 [st2 [E2 [Hst2 [Hpar2 [Hlen2 Hbb2]]]]]].
    exists (bs1 ++ bs2), st2.
    cbn [wr_points]. rewrite in_i64_forallb by exact Hpi. rewrite E. fold st1. rewrite E2.
    cbn [bind]. repeat split; try apply Hst2.
    + cbn [length rd_pts].
      eapply parses_bind; [exact Hpar|].
      rewrite <- (app_nil_r bs2). eapply parses_bind; [exact Hpar2|].
      cbn [fst snd]. apply parses_ret.
    + rewrite app_length. cbn [length]. lia.
    + rewrite Hbb2. cbn [fold_left]. f_equal. unfold bb_state, st1. cbn [ws_valid ws_bb].
      rewrite Henv. unfold bb_state. reflexivity.
Qed.

Lemma check_count_pass cnt minb s :
  (0 < minb)%nat -> (N.to_nat cnt * minb <= length (s_in s))%nat -> check_count cnt minb s = TOk tt s.
Proof.
  intros Hm Hl. unfold check_count.
  destruct (N.ltb_spec (N.of_nat (length (s_in s) / minb)) cnt); [|reflexivity].
  assert (N.to_nat cnt <= length (s_in s) / minb)%nat by (apply Nat.div_le_lower_bound; lia). lia.
Qed.

(* a passed count check in front of a parser that consumes at least the promised bytes *)
Lemma parses_guard {A} cnt minb (p : TP A) bs x :
  (0 < minb)%nat -> (N.to_nat cnt * minb <= length bs)%nat -> parses p bs x ->
  parses (tbind (check_count cnt minb) (fun _ => p)) bs x.
Proof.
  intros Hm Hl Hp rest pos a. unfold tbind.
  rewrite check_count_pass; [apply Hp|exact Hm|]. cbn [s_in]. rewrite app_length. lia.
Qed.

Lemma parses_alloc {A} n (p : TP A) bs x : parses p bs x -> parses (tbind (talloc n) (fun _ => p)) bs x.
Proof. intros Hp rest pos a. unfold tbind, talloc. cbn [s_in s_pos s_alloc]. apply Hp. Qed.

(* ---- envelope folds ---- *)
Definition covers (A : option (list (Z * Z))) (p : list Z) : Prop :=
  exists mm, A = Some mm /\ Forall2 (fun m v => (fst m <= v <= snd m)%Z) mm p.
Definition env_len (d : nat) (A : option (list (Z * Z))) : Prop :=
  match A with None => True | Some mm => length mm = d end.

Lemma env_step_len d A p : env_len d A -> length p = d -> env_len d (env_step A p).
Proof.
  destruct A as [mm|]; cbn [env_len env_step]; intros H1 H2.
  - rewrite map_length, combine_length. lia.
  - rewrite map_length. exact H2.
Qed.

Lemma env_step_covers_self d A p : env_len d A -> length p = d -> covers (env_step A p) p.
Proof.
  destruct A as [mm|]; cbn [env_len env_step]; intros H1 H2.
  - eexists; split; [reflexivity|]. rewrite <- H2 in H1. clear H2. revert mm H1.
    induction p as [|v p IH]; intros [|m mm] H; cbn [length] in H; try discriminate;
      cbn [combine map]; constructor.
    + cbn [fst snd]. lia.
    + apply IH. lia.
  - eexists; split; [reflexivity|]. clear. induction p; cbn [map]; constructor; auto.
    cbn [fst snd]. lia.
Qed.

Lemma env_step_covers_mono A p q : covers A p -> length q = length p -> covers (env_step A q) p.
Proof.
  intros [mm [-> H]] Hl. cbn [env_step]. eexists; split; [reflexivity|].
  revert q Hl. induction H as [|m v mm p Hmv HF IH]; intros [|w q] Hl; cbn [length] in Hl;
    try discriminate; cbn [combine map]; constructor.
  - cbn [fst snd]. lia.
  - apply IH. lia.
Qed.

Lemma env_step_covered A p : covers A p -> env_step A p = A.
Proof.
  intros [mm [-> H]]. cbn [env_step]. f_equal.
  induction H as [|m v mm p Hmv HF IH]; cbn [combine map]; [reflexivity|].
  rewrite IH. f_equal. destruct m as [mn mx]. cbn [fst snd] in *. f_equal; lia.
Qed.

Lemma fold_env_len d l : forall A, env_len d A -> Forall (fun p => length p = d) l ->
  env_len d (fold_left env_step l A).
Proof.
  induction l as [|p l IH]; intros A HA Hl; cbn [fold_left]; [exact HA|].
  inversion Hl; subst. apply IH; [apply env_step_len; auto|assumption].
Qed.

Lemma fold_env_covers d l : forall A p, covers A p -> length p = d ->
  Forall (fun q => length q = d) l -> covers (fold_left env_step l A) p.
Proof.
  induction l as [|q l IH]; intros A p HA Hp Hl; cbn [fold_left]; [exact HA|].
  inversion Hl; subst. apply IH; [apply env_step_covers_mono; [exact HA|congruence]|reflexivity|assumption].
Qed.

(* a point that already occurred does not change the envelope *)
Lemma fold_env_dup d p l A :
  env_len d A -> length p = d -> Forall (fun q => length q = d) l ->
  fold_left env_step ((p :: l) ++ [p]) A = fold_left env_step (p :: l) A.
Proof.
  intros HA Hp Hl. rewrite fold_left_app. cbn [fold_left].
  apply env_step_covered.
  apply (fold_env_covers d); [|exact Hp|exact Hl].
  apply (env_step_covers_self d); assumption.
Qed.

(* ---- the integer instance of the parser ---- *)
Local Notation zdeq := (fun (_ k : Z) => k).
Local Notation znext_point := (next_point Z 0%Z zdeq).
Local Notation znext_line := (next_line Z 0%Z zdeq).
Local Notation znext_ring := (next_ring Z 0%Z Z.eqb zdeq).
Local Notation znext_poly := (next_poly Z 0%Z Z.eqb zdeq).
Local Notation zrd_geom := (rd_geom Z 0%Z Z.eqb zdeq).

Lemma deq_pt_id ps p : length p = length ps -> deq_pt Z zdeq ps p = p.
Proof.
  revert p. induction ps as [|q ps IH]; intros [|k p] H; cbn [length] in H; try discriminate;
    cbn [deq_pt]; [reflexivity|]. rewrite IH by lia. reflexivity.
Qed.

Lemma vords_length ct v : length (vords ct v) = dim ct.
Proof. unfold vords. destruct ct; reflexivity. Qed.

Lemma ovtx_vords ct v : vtx_ok (Z.eqb 0) ct v = true -> ovtx 0%Z ct (vords ct v) = Ok v.
Proof.
  unfold vtx_ok, vords. destruct v as [x y z m]. cbn [vx vy vz vm].
  destruct ct; cbn [has_z has_m orb andb app ovtx]; intros H; f_equal; f_equal; lia.
Qed.

Lemma vtxs_of_vords ct vs :
  forallb (vtx_ok (Z.eqb 0) ct) vs = true -> vtxs_of Z 0%Z ct (map (vords ct) vs) = Ok vs.
Proof.
  induction vs as [|v vs IH]; cbn [forallb map vtxs_of]; intros H; [reflexivity|].
  apply andb_true_iff in H. destruct H as [H1 H2].
  rewrite ovtx_vords by exact H1. cbn [bind]. rewrite IH by exact H2. reflexivity.
Qed.

Lemma map_deq_id h pts :
  Forall (fun p => length p = dim (h_ct h)) pts -> map (deq_pt Z zdeq (precs h)) pts = pts.
Proof.
  induction 1 as [|p pts Hp HF IH]; cbn [map]; [reflexivity|].
  rewrite IH. rewrite deq_pt_id; [reflexivity|]. rewrite precs_length. exact Hp.
Qed.

Lemma vords_pt_ok ct v : vtx_i64 v = true -> pt_ok (dim ct) (vords ct v).
Proof.
  unfold vtx_i64. intros H.
  apply andb_true_iff in H; destruct H as [H H0]. apply andb_true_iff in H; destruct H as [H H1].
  apply andb_true_iff in H; destruct H as [H H2].
  split; [apply vords_length|].
  unfold vords. rewrite !in_i64b_iff in *.
  constructor; [assumption|]. constructor; [assumption|].
  apply Forall_app. split; [destruct (has_z ct)|destruct (has_m ct)];
    try (constructor; [assumption|]); constructor.
Qed.

Lemma pts_of_line_ok ct vs :
  forallb vtx_i64 vs = true -> Forall (pt_ok (dim ct)) (map (vords ct) vs).
Proof.
  intros H. apply Forall_map. apply forallb_Forall in H. eapply Forall_impl; [|exact H].
  intros v Hv. apply vords_pt_ok. exact Hv.
Qed.

Lemma pt_ok_len d pts : Forall (pt_ok d) pts -> Forall (fun p => length p = d) pts.
Proof. intros H. eapply Forall_impl; [|exact H]. intros p [Hp _]. exact Hp. Qed.

Lemma dim_pos ct : (0 < dim ct)%nat.
Proof. destruct ct; cbn; lia. Qed.

Lemma cnt_wrap n : (N.of_nat n <? two63N)%N = true -> wrap64 (Z.of_N (N.of_nat n)) = Z.of_nat n.
Proof.
  intros H. apply N.ltb_lt in H. rewrite wrap64_id; [lia|]. unfold in_i64, two63, two63N in *. lia.
Qed.

Lemma cnt_small n : (N.of_nat n <? two63N)%N = true -> (N.of_nat n < two64N)%N.
Proof. intros H. apply N.ltb_lt in H. unfold two63N, two64N in *. lia. Qed.

(* count + point array, writer against reader *)
Lemma count_array_spec d pts st :
  (0 < d)%nat -> wst_ok d st -> Forall (pt_ok d) pts -> cnt_ok pts = true ->
  exists bs st', wr_points st pts = Ok (bs, st') /\ wst_ok d st' /\
    parses (parse_count_array (ws_ref st)) (count_bytes pts ++ bs)
           (pts, ws_ref st', Z.of_nat (length pts)) /\
    bb_state st' = fold_left env_step pts (bb_state st).
Proof.
  intros Hd Hst Hp Hc.
  destruct (wr_points_spec d pts st Hst Hp) as [bs [st' [E [Hst' [Hpar [Hlen Hbb]]]]]].
  exists bs, st'. repeat split; try assumption; try apply Hst'.
  unfold parse_count_array, count_bytes. unfold cnt_ok in Hc.
  eapply parses_bind; [apply parses_uv; apply cnt_small; exact Hc|].
  destruct Hst as [Hs1 _]. rewrite Hs1.
  apply parses_guard; [exact Hd|rewrite Nat2N.id; exact Hlen|].
  apply parses_alloc. rewrite Nat2N.id. rewrite <- (app_nil_r bs).
  eapply parses_bind; [exact Hpar|]. cbn [fst snd]. rewrite nat_N_Z. apply parses_ret.
Qed.

(* what a member writer and the matching reader step guarantee, uniformly *)
Definition wspec {A} (d k : nat) (f : wst -> A -> outcome (list N * wst))
           (step : list Z -> TP (A * list Z)) (pts_of : A -> list (list Z)) (x : A) : Prop :=
  forall st, wst_ok d st -> exists bs st',
    f st x = Ok (bs, st') /\ wst_ok d st' /\
    parses (step (ws_ref st)) bs (x, ws_ref st') /\ (k <= length bs)%nat /\
    bb_state st' = fold_left env_step (pts_of x) (bb_state st).

Lemma line_wspec ct h l :
  h_ct h = ct -> line_ok (Z.eqb 0) ct l = true -> line_dom l = true ->
  wspec (dim ct) 1 (wr_line ct) (znext_line h) (fun l => map (vords ct) (line_vs l)) l.
Proof.
  intros Hh Hok Hdom st Hst. subst ct. destruct l as [c vs]. unfold line_dom in Hdom.
  cbn [line_ok line_vs] in *.
  apply andb_true_iff in Hok. destruct Hok as [Hc Hvs]. apply ct_eqb_eq in Hc. subst c.
  set (ct := h_ct h) in *.
  apply andb_true_iff in Hdom. destruct Hdom as [Hcnt Hi64].
  destruct (count_array_spec (dim ct) (map (vords ct) vs) st (dim_pos ct) Hst
              (pts_of_line_ok ct vs Hi64)) as [bs [st' [E [Hst' [Hpar Hbb]]]]].
  { unfold cnt_ok in *. rewrite map_length. exact Hcnt. }
  exists (count_bytes (map (vords ct) vs) ++ bs), st'.
  unfold wr_line. cbn [line_vs]. rewrite E. cbn [bind]. repeat split; try assumption; try apply Hst'.
  - unfold next_line. rewrite <- (app_nil_r (count_bytes _ ++ bs)).
    eapply parses_bind; [exact Hpar|]. cbv beta iota. fold ct.
    rewrite map_deq_id by (apply pt_ok_len; apply pts_of_line_ok; exact Hi64).
    eapply parses_bind_nil; [apply parses_lift; apply vtxs_of_vords; exact Hvs|]. apply parses_ret.
  - rewrite app_length. unfold count_bytes. pose proof (uv_enc_nonempty (N.of_nat (length (map (vords ct) vs)))). lia.
Qed.

(* ---- rings: implicit closure on write, re-closure on read ---- *)
Lemma pt_eqb_iff a b : pt_eqb Z Z.eqb a b = true <-> a = b.
Proof.
  revert b. induction a as [|x a IH]; intros [|y b]; cbn [pt_eqb]; split; intros H;
    try reflexivity; try discriminate.
  - apply andb_true_iff in H. destruct H as [H1 H2]. apply Z.eqb_eq in H1. apply IH in H2. congruence.
  - inversion H; subst. rewrite Z.eqb_refl. cbn [andb]. apply IH. reflexivity.
Qed.

Lemma last_map {A B} (f : A -> B) l d : last (map f l) (f d) = f (last l d).
Proof. induction l as [|x [|y l] IH]; cbn [map last] in *; auto. Qed.

Lemma removelast_map {A B} (f : A -> B) l : removelast (map f l) = map f (removelast l).
Proof. induction l as [|x [|y l] IH]; cbn [map removelast] in *; auto. rewrite IH. reflexivity. Qed.

Lemma reclose_ring_pts close (p0 : list Z) tlp :
  tlp <> [] -> last tlp p0 = p0 ->
  (close = false -> last (removelast tlp) p0 <> p0 /\ (2 <= length tlp)%nat) ->
  let w := ring_pts close (p0 :: tlp) in
  reclose Z Z.eqb (Z.of_nat (length w)) w = p0 :: tlp.
Proof.
  intros Hne Hlast Hopen. destruct close.
  - (* TWKBCloseRings: the ring is sent closed and is left alone *)
    unfold ring_pts. cbn [negb andb]. cbv zeta. unfold reclose.
    destruct tlp as [|t1 tlp']; [congruence|].
    cbn [length]. destruct (Z.leb_spec 2 (Z.of_nat (S (S (length tlp'))))); [|lia].
    assert (E : pt_eqb Z Z.eqb p0 (last (t1 :: tlp') p0) = true) by (apply pt_eqb_iff; congruence).
    rewrite E. reflexivity.
  - destruct (Hopen eq_refl) as [Hpen Hlen].
    destruct tlp as [|t1 [|t2 tlp']]; cbn [length] in Hlen; try lia.
    unfold ring_pts. cbn [negb andb length]. cbv zeta.
    change (2 <=? S (S (S (length tlp'))))%nat with true. cbn iota.
    replace (S (S (S (length tlp'))) - 1)%nat with (S (S (length tlp'))) by lia.
    cbn [firstn].
    assert (Efn : firstn (length tlp') (t2 :: tlp') = removelast (t2 :: tlp')).
    { rewrite removelast_firstn_len. reflexivity. }
    set (body := firstn (length tlp') (t2 :: tlp')) in *.
    unfold reclose.
    assert (Hl : length (p0 :: t1 :: body) = S (S (length tlp'))).
    { cbn [length]. unfold body. rewrite firstn_length. cbn [length]. lia. }
    rewrite Hl. destruct (Z.leb_spec 2 (Z.of_nat (S (S (length tlp'))))); [|lia].
    assert (E : pt_eqb Z Z.eqb p0 (last (t1 :: body) p0) = false).
    { destruct (pt_eqb Z Z.eqb p0 (last (t1 :: body) p0)) eqn:Eq; [|reflexivity].
      apply pt_eqb_iff in Eq. exfalso. apply Hpen. rewrite Efn in *.
      change (removelast (t1 :: t2 :: tlp')) with (t1 :: removelast (t2 :: tlp')). congruence. }
    rewrite E. cbn [app]. f_equal. f_equal. rewrite Efn.
    change (t2 :: tlp') with (t2 :: tlp') in *.
    assert (Hl2 : last (t2 :: tlp') p0 = p0) by exact Hlast.
    rewrite <- Hl2 at 1. symmetry. apply app_removelast_last. discriminate.
Qed.

Lemma vtx_eqb_iff (a b : vtx Z) : vtx_eqb a b = true <-> a = b.
Proof.
  unfold vtx_eqb. destruct a as [x1 y1 z1 m1], b as [x2 y2 z2 m2]. cbn [vx vy vz vm]. split; intros H.
  - repeat (apply andb_true_iff in H; destruct H as [H ?]). f_equal; lia.
  - inversion H; subst. rewrite !Z.eqb_refl. reflexivity.
Qed.

Lemma vords_inj ct a b :
  vtx_ok (Z.eqb 0) ct a = true -> vtx_ok (Z.eqb 0) ct b = true -> vords ct a = vords ct b -> a = b.
Proof.
  intros Ha Hb H. apply ovtx_vords in Ha. apply ovtx_vords in Hb. rewrite H in Ha. congruence.
Qed.

Lemma last_In' {A} (l : list A) d : l <> [] -> In (last l d) l.
Proof.
  induction l as [|x [|y l] IH]; intros H; [congruence|left; reflexivity|].
  right. apply IH. discriminate.
Qed.
Lemma In_removelast {A} (l : list A) x : In x (removelast l) -> In x l.
Proof.
  induction l as [|y [|z l] IH]; cbn [removelast]; intros H; [exact H|destruct H|].
  destruct H as [H|H]; [left; exact H|right; apply IH; exact H].
Qed.

Lemma ring_reclose close ct vs :
  forallb (vtx_ok (Z.eqb 0) ct) vs = true -> ring_dom close (MkLine ct vs) = true ->
  let w := ring_pts close (map (vords ct) vs) in
  reclose Z Z.eqb (Z.of_nat (length w)) w = map (vords ct) vs.
Proof.
  intros Hok Hdom. unfold ring_dom in Hdom. apply andb_true_iff in Hdom. destruct Hdom as [_ Hdom].
  cbn [line_vs] in Hdom.
  destruct vs as [|v0 [|t1 tl]].
  - destruct close; reflexivity.
  - destruct close; reflexivity.
  - set (tl1 := t1 :: tl) in *. cbn [map].
    apply andb_true_iff in Hdom. destruct Hdom as [Hc Ho]. apply vtx_eqb_iff in Hc.
    assert (Hoks : forall v, In v (v0 :: tl1) -> vtx_ok (Z.eqb 0) ct v = true).
    { apply forallb_forall. exact Hok. }
    apply reclose_ring_pts.
    + unfold tl1. discriminate.
    + rewrite last_map. congruence.
    + intros ->. cbn [orb] in Ho. apply andb_true_iff in Ho. destruct Ho as [Hp Hl].
      split; [|rewrite map_length; apply Nat.leb_le; exact Hl].
      rewrite removelast_map, last_map. intros E.
      apply vords_inj in E.
      * rewrite E in Hp. rewrite (proj2 (vtx_eqb_iff v0 v0) eq_refl) in Hp. discriminate.
      * destruct (removelast tl1) as [|x r] eqn:Er.
        -- apply Hoks. left. reflexivity.
        -- apply Hoks. right. apply In_removelast. rewrite Er. apply last_In'. discriminate.
      * apply Hoks. left. reflexivity.
Qed.

Lemma ring_pts_sub close (pts : list (list Z)) :
  exists k, ring_pts close pts = firstn k pts.
Proof.
  unfold ring_pts. destruct (negb close && (2 <=? length pts)%nat).
  - eexists; reflexivity.
  - exists (length pts). rewrite firstn_all. reflexivity.
Qed.

Lemma Forall_firstn' {A} (P : A -> Prop) k l : Forall P l -> Forall P (firstn k l).
Proof.
  revert k. induction l as [|x l IH]; intros [|k] H; cbn [firstn]; try constructor.
  - inversion H; assumption.
  - apply IH. inversion H; assumption.
Qed.

Lemma ring_env close ct vs d A :
  d = dim ct -> env_len d A -> forallb (vtx_ok (Z.eqb 0) ct) vs = true ->
  ring_dom close (MkLine ct vs) = true ->
  fold_left env_step (ring_pts close (map (vords ct) vs)) A =
  fold_left env_step (map (vords ct) vs) A.
Proof.
  intros Hd HA Hok Hdom. unfold ring_dom in Hdom. apply andb_true_iff in Hdom.
  destruct Hdom as [_ Hdom]. cbn [line_vs] in Hdom.
  unfold ring_pts. destruct close; [reflexivity|]. cbn [negb andb].
  destruct vs as [|v0 [|t1 tl]]; try reflexivity.
  set (tl1 := t1 :: tl) in *. cbn [map length].
  change (2 <=? S (length (map (vords ct) tl1)))%nat with true. cbn iota.
  apply andb_true_iff in Hdom. destruct Hdom as [Hc _]. apply vtx_eqb_iff in Hc.
  replace (S (length (map (vords ct) tl1)) - 1)%nat with (S (pred (length (map (vords ct) tl1))))
    by (unfold tl1; cbn [map length]; lia).
  cbn [firstn]. rewrite <- removelast_firstn_len.
  assert (E : map (vords ct) tl1 = removelast (map (vords ct) tl1) ++ [vords ct v0]).
  { rewrite (app_removelast_last (vords ct v0)) at 1 by (unfold tl1; discriminate).
    rewrite last_map. congruence. }
  rewrite E at 2. symmetry.
  change (vords ct v0 :: removelast (map (vords ct) tl1) ++ [vords ct v0])
    with ((vords ct v0 :: removelast (map (vords ct) tl1)) ++ [vords ct v0]).
  apply (fold_env_dup d); [exact HA|rewrite vords_length; auto|].
  rewrite removelast_map. apply Forall_map. apply Forall_forall. intros v _.
  rewrite vords_length. auto.
Qed.

Lemma ring_wspec close ct h l :
  h_ct h = ct -> line_ok (Z.eqb 0) ct l = true -> ring_dom close l = true ->
  wspec (dim ct) 1 (wr_ring close ct) (znext_ring h) (fun l => map (vords ct) (line_vs l)) l.
Proof.
  intros Hh Hok Hdom st Hst. subst ct. destruct l as [c vs].
  cbn [line_ok line_vs] in *.
  apply andb_true_iff in Hok. destruct Hok as [Hc Hvs]. apply ct_eqb_eq in Hc. subst c.
  set (ct := h_ct h) in *.
  assert (Hld : line_dom (MkLine ct vs) = true).
  { unfold ring_dom in Hdom. apply andb_true_iff in Hdom. apply Hdom. }
  unfold line_dom in Hld. cbn [line_vs] in Hld.
  apply andb_true_iff in Hld. destruct Hld as [Hcnt Hi64].
  set (all := map (vords ct) vs) in *.
  set (w := ring_pts close all) in *.
  destruct (ring_pts_sub close all) as [k Hk]. fold w in Hk.
  assert (Hall : Forall (pt_ok (dim ct)) all) by (apply pts_of_line_ok; exact Hi64).
  assert (Hw : Forall (pt_ok (dim ct)) w) by (rewrite Hk; apply Forall_firstn'; exact Hall).
  destruct (count_array_spec (dim ct) w st (dim_pos ct) Hst Hw) as [bs [st' [E [Hst' [Hpar Hbb]]]]].
  { unfold cnt_ok in *. rewrite Hk, firstn_length. unfold all. rewrite map_length.
    apply N.ltb_lt in Hcnt. apply N.ltb_lt. lia. }
  exists (count_bytes w ++ bs), st'.
  unfold wr_ring. cbn [line_vs]. fold all. fold w. rewrite E. cbn [bind].
  repeat split; try assumption; try apply Hst'.
  - unfold next_ring. rewrite <- (app_nil_r (count_bytes _ ++ bs)).
    eapply parses_bind; [exact Hpar|]. cbv beta iota. fold ct.
    rewrite map_deq_id by (apply pt_ok_len; exact Hw).
    unfold w, all. rewrite ring_reclose by assumption.
    eapply parses_bind_nil; [apply parses_lift; apply vtxs_of_vords; exact Hvs|]. apply parses_ret.
  - rewrite app_length. unfold count_bytes. pose proof (uv_enc_nonempty (N.of_nat (length w))). lia.
  - rewrite Hbb. unfold w, all. apply (ring_env close ct vs (dim ct)); auto.
    destruct Hst as [_ [Hs2 _]]. unfold bb_state, env_len. destruct (ws_valid st); auto.
Qed.

Lemma point_wspec ct h p :
  h_ct h = ct -> point_ok (Z.eqb 0) ct p = true ->
  match point_c p with None => false | Some v => vtx_i64 v end = true ->
  wspec (dim ct) (dim ct) (wr_mpoint_member ct) (znext_point h)
        (fun p => match point_c p with Some v => [vords ct v] | None => [] end) p.
Proof.
  intros Hh Hok Hdom st Hst. subst ct. destruct p as [c [v|]]; cbn [point_c] in Hdom; [|discriminate].
  cbn [point_ok] in Hok. apply andb_true_iff in Hok. destruct Hok as [Hc Hv].
  apply ct_eqb_eq in Hc. subst c. set (ct := h_ct h) in *.
  pose proof (vords_pt_ok ct v Hdom) as Hp.
  destruct (wr_points_spec (dim ct) [vords ct v] st Hst (Forall_cons _ Hp (Forall_nil _)))
    as [bs [st' [E [Hst' [Hpar [Hlen Hbb]]]]]].
  exists bs, st'. unfold wr_mpoint_member. cbn [point_c]. rewrite E.
  repeat split; try assumption; try apply Hst'.
  - unfold next_point. rewrite <- (app_nil_r bs).
    eapply parses_bind.
    + exact Hpar.
    + cbn [fst snd]. fold ct. rewrite deq_pt_id by (rewrite precs_length; apply vords_length).
      rewrite ovtx_vords by exact Hv.
      eapply parses_bind_nil; [apply parses_lift; reflexivity|]. apply parses_ret.
  - cbn [length] in Hlen. lia.
Qed.

(* a sequence of members written with the threaded state is read back by the counted loop *)
Lemma wr_seq_spec {A} d k (f : wst -> A -> outcome (list N * wst))
      (step : list Z -> TP (A * list Z)) (pts_of : A -> list (list Z)) :
  (1 <= k)%nat ->
  forall l st, Forall (wspec d k f step pts_of) l -> wst_ok d st ->
  exists bs st', wr_seq f st l = Ok (bs, st') /\ wst_ok d st' /\
    (forall fuel, (length l <= fuel)%nat ->
       parses (tloop fuel (Z.of_nat (length l)) step (ws_ref st)) bs (l, ws_ref st')) /\
    (length l * k <= length bs)%nat /\
    bb_state st' = fold_left env_step (flat_map pts_of l) (bb_state st).
Proof.
  intros Hk1. induction l as [|x l IH]; intros st Hl Hst.
  - exists [], st. cbn [wr_seq length flat_map fold_left]. repeat split; try apply Hst; try lia.
    intros fuel _. destruct fuel; cbn [tloop Z.of_nat Z.leb Z.compare]; apply parses_ret.
  - inversion Hl as [|? ? Hx Hl']; subst.
    destruct (Hx st Hst) as [b1 [s1 [E1 [Hs1 [Hp1 [Hn1 Hb1]]]]]].
    destruct (IH s1 Hl' Hs1) as [b2 [s2 [E2 [Hs2 [Hp2 [Hn2 Hb2]]]]]].
    exists (b1 ++ b2), s2. cbn [wr_seq]. rewrite E1. cbn [bind]. rewrite E2. cbn [bind].
    repeat split; try apply Hs2.
    + intros fuel Hf. destruct fuel as [|fuel]; [cbn [length] in Hf; lia|].
      cbn [tloop length]. destruct (Z.leb_spec (Z.of_nat (S (length l))) 0); [lia|].
      eapply parses_bind; [exact Hp1|]. cbn [fst snd].
      rewrite <- (app_nil_r b2).
      replace (Z.of_nat (S (length l)) - 1)%Z with (Z.of_nat (length l)) by lia.
      eapply parses_bind; [apply Hp2; cbn [length] in Hf; lia|]. cbn [fst snd]. apply parses_ret.
    + rewrite app_length. cbn [length]. lia.
    + rewrite Hb2, Hb1. cbn [flat_map]. rewrite fold_left_app. reflexivity.
Qed.

Lemma tloop_in_parses {A} (step : list Z -> TP (A * list Z)) n ref bs (x : list A * list Z) k :
  (forall fuel, (k <= fuel)%nat -> parses (tloop fuel n step ref) bs x) -> (k <= length bs)%nat ->
  parses (tloop_in n step ref) bs x.
Proof.
  intros H Hk rest pos a. unfold tloop_in. cbn [s_in]. apply H. rewrite app_length. lia.
Qed.

(* ---- constructors are the identity on consistent members (Z carrier; same proofs as for the
   bit-pattern carrier in WKB_proofs.v) ---- *)
Lemma fold_and_const {A} (f : A -> ctype) (l : list A) ct :
  Forall (fun x => f x = ct) l ->
  forall acc, fold_left (fun acc a => ct_and acc (f a)) l acc =
              match l with [] => acc | _ => ct_and acc ct end.
Proof.
  induction 1 as [|x l Hx HF IH]; intros acc; [reflexivity|].
  cbn [fold_left]. rewrite Hx, IH. destruct l; [reflexivity|].
  rewrite <- ct_and_assoc, ct_and_idem. reflexivity.
Qed.

Lemma and_all_const {A} (f : A -> ctype) (l : list A) ct :
  l <> [] -> Forall (fun x => f x = ct) l -> and_all f l = ct.
Proof.
  intros Hne HF. unfold and_all. rewrite (fold_and_const f l ct HF).
  destruct l; [congruence|]. apply ct_and_xyzm_l.
Qed.

Lemma force_vtx_id ct (v : vtx Z) : vtx_ok (Z.eqb 0) ct v = true -> force_vtx 0%Z ct ct v = v.
Proof.
  unfold vtx_ok, force_vtx. destruct v as [x y z m]; cbn [vx vy vz vm].
  destruct (has_z ct), (has_m ct); cbn [orb andb]; intros H; f_equal; lia.
Qed.

Lemma map_id_on {A} (f : A -> A) l : Forall (fun x => f x = x) l -> map f l = l.
Proof. induction 1 as [|x l Hx HF IH]; cbn [map]; congruence. Qed.

Lemma force_point_id ct p : point_ok (Z.eqb 0) ct p = true -> force_point 0%Z ct p = p /\ point_ct p = ct.
Proof.
  destruct p as [c [v|]]; unfold point_ok; intros H; apply andb_prop in H; destruct H as [Hc Hv];
    apply ct_eqb_eq in Hc; subst c; cbn [force_point point_ct]; split; try reflexivity.
  rewrite force_vtx_id by exact Hv. reflexivity.
Qed.

Lemma force_line_id ct l : line_ok (Z.eqb 0) ct l = true -> force_line 0%Z ct l = l /\ line_ct l = ct.
Proof.
  destruct l as [c vs]; unfold line_ok; intros H; apply andb_prop in H; destruct H as [Hc Hv].
  apply ct_eqb_eq in Hc; subst c. cbn [force_line line_ct]. split; [|reflexivity].
  f_equal. apply map_id_on. apply forallb_Forall in Hv.
  eapply Forall_impl; [|exact Hv]. intros v. apply force_vtx_id.
Qed.

Lemma force_lines_id ct ls :
  forallb (line_ok (Z.eqb 0) ct) ls = true ->
  map (force_line 0%Z ct) ls = ls /\ Forall (fun l => line_ct l = ct) ls.
Proof.
  intros H. apply forallb_Forall in H. split.
  - apply map_id_on. eapply Forall_impl; [|exact H]. intros l Hl. apply (force_line_id ct l Hl).
  - eapply Forall_impl; [|exact H]. intros l Hl. apply (force_line_id ct l Hl).
Qed.

Lemma force_poly_id ct p : poly_ok (Z.eqb 0) ct p = true -> force_poly 0%Z ct p = p /\ poly_ct p = ct.
Proof.
  destruct p as [c rs]; unfold poly_ok; intros H; apply andb_prop in H; destruct H as [Hc Hv].
  apply ct_eqb_eq in Hc; subst c. cbn [force_poly poly_ct]. split; [|reflexivity].
  f_equal. apply (force_lines_id ct rs Hv).
Qed.

Lemma new_polygon_id ct rs :
  rs <> [] -> forallb (line_ok (Z.eqb 0) ct) rs = true -> new_polygon 0%Z rs = MkPoly ct rs.
Proof.
  intros Hne H. destruct (force_lines_id ct rs H) as [Hm Hc]. unfold new_polygon.
  destruct rs as [|r rs']; [congruence|].
  rewrite (and_all_const line_ct (r :: rs') ct Hne Hc). rewrite Hm. reflexivity.
Qed.

Lemma new_multipoint_id ct ps :
  ps <> [] -> forallb (point_ok (Z.eqb 0) ct) ps = true -> new_multipoint 0%Z ps = GMPoint ct ps.
Proof.
  intros Hne H. apply forallb_Forall in H. unfold new_multipoint.
  destruct ps as [|p ps']; [congruence|].
  rewrite (and_all_const point_ct (p :: ps') ct Hne).
  - f_equal. apply map_id_on. eapply Forall_impl; [|exact H]. intros q Hq. apply (force_point_id ct q Hq).
  - eapply Forall_impl; [|exact H]. intros q Hq. apply (force_point_id ct q Hq).
Qed.

Lemma new_multiline_id ct ls :
  ls <> [] -> forallb (line_ok (Z.eqb 0) ct) ls = true -> new_multiline 0%Z ls = GMLine ct ls.
Proof.
  intros Hne H. destruct (force_lines_id ct ls H) as [Hm Hc]. unfold new_multiline.
  destruct ls as [|l ls']; [congruence|].
  rewrite (and_all_const line_ct (l :: ls') ct Hne Hc). rewrite Hm. reflexivity.
Qed.

Lemma new_multipoly_id ct ps :
  ps <> [] -> forallb (poly_ok (Z.eqb 0) ct) ps = true -> new_multipoly 0%Z ps = GMPoly ct ps.
Proof.
  intros Hne H. apply forallb_Forall in H. unfold new_multipoly.
  destruct ps as [|p ps']; [congruence|].
  rewrite (and_all_const poly_ct (p :: ps') ct Hne).
  - f_equal. apply map_id_on. eapply Forall_impl; [|exact H]. intros q Hq. apply (force_poly_id ct q Hq).
  - eapply Forall_impl; [|exact H]. intros q Hq. apply (force_poly_id ct q Hq).
Qed.

Lemma force_geom_id ct g : geom_ok (Z.eqb 0) ct g = true -> force_geom 0%Z ct g = g /\ geom_ct g = ct.
Proof.
  induction g as [p|l|p|c ps|c ls|c ps|c gs IH] using geomT_ind'; cbn [geom_ok force_geom geom_ct]; intros H.
  - destruct (force_point_id ct p H) as [-> ->]. auto.
  - destruct (force_line_id ct l H) as [-> ->]. auto.
  - destruct (force_poly_id ct p H) as [-> ->]. auto.
  - apply andb_prop in H; destruct H as [Hc H]. apply ct_eqb_eq in Hc; subst c. split; [|reflexivity].
    f_equal. apply map_id_on. apply forallb_Forall in H. eapply Forall_impl; [|exact H].
    intros q Hq. apply (force_point_id ct q Hq).
  - apply andb_prop in H; destruct H as [Hc H]. apply ct_eqb_eq in Hc; subst c. split; [|reflexivity].
    f_equal. apply (force_lines_id ct ls H).
  - apply andb_prop in H; destruct H as [Hc H]. apply ct_eqb_eq in Hc; subst c. split; [|reflexivity].
    f_equal. apply map_id_on. apply forallb_Forall in H. eapply Forall_impl; [|exact H].
    intros q Hq. apply (force_poly_id ct q Hq).
  - apply andb_prop in H; destruct H as [Hc H]. apply ct_eqb_eq in Hc; subst c. split; [|reflexivity].
    f_equal. apply map_id_on. apply forallb_Forall in H.
    rewrite Forall_forall in *. intros x Hx. apply (IH x Hx). apply H. exact Hx.
Qed.

Lemma new_collection_id ct gs :
  gs <> [] -> forallb (geom_ok (Z.eqb 0) ct) gs = true -> new_collection 0%Z gs = GColl ct gs.
Proof.
  intros Hne H. apply forallb_Forall in H. unfold new_collection.
  destruct gs as [|g gs']; [congruence|].
  rewrite (and_all_const geom_ct (g :: gs') ct Hne).
  - f_equal. apply map_id_on. eapply Forall_impl; [|exact H]. intros q Hq. apply (force_geom_id ct q Hq).
  - eapply Forall_impl; [|exact H]. intros q Hq. apply (force_geom_id ct q Hq).
Qed.


(* ---- polygons ---- *)
Definition ring_ptsof (ct : ctype) (l : lineT Z) : list (list Z) := map (vords ct) (line_vs l).
Definition poly_ptsof (ct : ctype) (p : polyT Z) : list (list Z) :=
  flat_map (ring_ptsof ct) (poly_rings p).

Lemma cnt_N n : (N.of_nat n <? two63N)%N = true -> (N.of_nat n < two64N)%N /\ Z.of_N (N.of_nat n) = Z.of_nat n.
Proof. intros H. apply N.ltb_lt in H. unfold two63N, two64N in *. split; lia. Qed.

Lemma poly_wspec close ct h p :
  h_ct h = ct -> poly_ok (Z.eqb 0) ct p = true -> poly_dom (ring_dom close) p = true ->
  wspec (dim ct) 1 (wr_poly close ct) (znext_poly h) (poly_ptsof ct) p.
Proof.
  intros Hh Hok Hdom st Hst. destruct p as [c rs]. cbn [poly_ok] in Hok.
  apply andb_true_iff in Hok. destruct Hok as [Hc Hrs]. apply ct_eqb_eq in Hc. subst c.
  unfold poly_dom in Hdom. cbn [poly_rings] in Hdom. apply andb_true_iff in Hdom.
  destruct Hdom as [Hcnt Hrd].
  assert (HF : Forall (wspec (dim ct) 1 (wr_ring close ct) (znext_ring h) (ring_ptsof ct)) rs).
  { apply forallb_Forall in Hrs. apply forallb_Forall in Hrd. rewrite Forall_forall in *.
    intros l Hl. apply ring_wspec; [exact Hh|apply Hrs; exact Hl|apply Hrd; exact Hl]. }
  destruct (wr_seq_spec (dim ct) 1 _ _ _ (le_n 1) rs st HF Hst) as [bs [st' [E [Hst' [Hpar [Hlen Hbb]]]]]].
  exists (count_bytes rs ++ bs), st'. unfold wr_poly. cbn [poly_rings]. rewrite E. cbn [bind].
  destruct (cnt_N (length rs) Hcnt) as [Hc64 HcZ].
  repeat split; try assumption; try apply Hst'.
  - unfold next_poly, count_bytes.
    eapply parses_bind; [apply parses_uv; exact Hc64|].
    rewrite <- (app_nil_r bs). rewrite HcZ.
    eapply parses_bind; [apply (tloop_in_parses _ _ _ _ _ (length rs)); [exact Hpar|lia]|].
    cbn [fst snd]. destruct rs as [|r rs'].
    + rewrite Hh. apply parses_ret.
    + rewrite (new_polygon_id ct (r :: rs')) by (try discriminate; exact Hrs). apply parses_ret.
  - rewrite app_length. unfold count_bytes. pose proof (uv_enc_nonempty (N.of_nat (length rs))). lia.
Qed.

(* ---- ID lists ---- *)
Lemma flat_sv_len ids : (length ids <= length (flat_map sv_enc ids))%nat.
Proof.
  induction ids as [|x ids IH]; cbn [flat_map length]; [lia|].
  rewrite app_length. pose proof (sv_enc_nonempty x). lia.
Qed.

Lemma parses_ids ids :
  Forall in_i64 ids -> parses (parse_ids (N.of_nat (length ids))) (flat_map sv_enc ids) ids.
Proof.
  intros Hi. unfold parse_ids.
  apply parses_guard; [lia|rewrite Nat2N.id; pose proof (flat_sv_len ids); lia|].
  apply parses_alloc. rewrite Nat2N.id. apply parses_svs. exact Hi.
Qed.

(* [parsesL k]: as parses, for inputs on which at least k bytes follow (the member-count check
   of fix F7 looks ahead at the bytes of the members) *)
Definition parsesL {A} (k : nat) (p : TP A) (bs : list N) (x : A) : Prop :=
  forall rest pos a, (k <= length rest)%nat -> exists a',
    p {| s_in := bs ++ rest; s_pos := pos; s_alloc := a |} =
    TOk x {| s_in := rest; s_pos := (pos + N.of_nat (length bs))%N; s_alloc := a' |}.

Lemma parsesL_bind {A B} k (p : TP A) (f : A -> TP B) b1 b2 x y :
  parsesL k p b1 x -> parses (f x) b2 y -> (k <= length b2)%nat -> parses (tbind p f) (b1 ++ b2) y.
Proof.
  intros H1 H2 Hk rest pos a. unfold tbind. rewrite <- app_assoc.
  destruct (H1 (b2 ++ rest) pos a) as [a1 E1]; [rewrite app_length; lia|]. rewrite E1.
  destruct (H2 rest (pos + N.of_nat (length b1))%N a1) as [a2 E2]. rewrite E2.
  exists a2. f_equal. f_equal. rewrite app_length. lia.
Qed.

(* wr_ids against count_and_ids, for a member list of length n whose members take >= minb bytes *)
Lemma ids_spec c n minb :
  (0 < minb)%nat -> (N.of_nat n <? two63N)%N = true -> Forall in_i64 (w_ids c) ->
  (w_hasids c = true -> length (w_ids c) = n) ->
  exists idb, wr_ids c n = Ok idb /\
    parsesL (n * minb) (count_and_ids (w_hasids c) minb) (uv_enc (N.of_nat n) ++ idb) (Z.of_nat n, w_ids c).
Proof.
  intros Hm Hcnt Hi Hlen. pose proof (cnt_small n Hcnt) as Hc64. unfold wr_ids, count_and_ids.
  assert (Hfin : forall ids : list Z, parsesL (n * minb)
            (doT _ <- check_count (N.of_nat n) minb; tret (Z.of_N (N.of_nat n), ids)) [] (Z.of_nat n, ids)).
  { intros ids rest pos a Hk. unfold tbind. rewrite check_count_pass; [|exact Hm|cbn [s_in app]; lia].
    exists a. unfold tret. cbn [app length]. rewrite nat_N_Z. f_equal. f_equal. lia. }
  destruct (w_hasids c) eqn:Eh; cbn [negb].
  - specialize (Hlen eq_refl). rewrite Hlen, Nat.eqb_refl. cbn [negb].
    eexists; split; [reflexivity|].
    intros rest pos a Hk. unfold tbind at 1. rewrite <- app_assoc. rewrite rd_uv_eq by exact Hc64.
    unfold tbind at 1.
    destruct (parses_ids (w_ids c) Hi rest (pos + N.of_nat (length (uv_enc (N.of_nat n))))%N a) as [a1 E1].
    rewrite Hlen in E1. rewrite E1.
    destruct (Hfin (w_ids c) rest (pos + N.of_nat (length (uv_enc (N.of_nat n))) +
                                   N.of_nat (length (flat_map sv_enc (w_ids c))))%N a1 Hk) as [a2 E2].
    cbn [app] in E2. rewrite E2. exists a2. f_equal. f_equal. rewrite app_length. cbn [length]. lia.
  - exists []. split; [reflexivity|]. rewrite app_nil_r.
    intros rest pos a Hk. unfold tbind at 1. rewrite rd_uv_eq by exact Hc64.
    unfold tbind at 1. unfold tret at 1.
    assert (Eids : w_ids c = []) by (unfold w_hasids in Eh; destruct (w_ids c); [reflexivity|discriminate]).
    rewrite Eids.
    destruct (Hfin [] rest (pos + N.of_nat (length (uv_enc (N.of_nat n))))%N a Hk) as [a2 E2].
    cbn [app] in E2. rewrite E2. exists a2. f_equal. f_equal. cbn [length]. lia.
Qed.

(* ---- headers ---- *)
Definition cfg_ok (c : wcfg) : Prop :=
  (-8 <= w_pxy c <= 7)%Z /\ (0 <= w_pz c <= 7)%Z /\ (0 <= w_pm c <= 7)%Z /\ Forall in_i64 (w_ids c).

Lemma typeprec_dec pxy kind :
  (-8 <= pxy <= 7)%Z -> (kind < 16)%N ->
  ((typeprec pxy kind) mod 16 = kind)%N /\ zz_dec (typeprec pxy kind / 16) = pxy.
Proof.
  intros Hp Hk. unfold typeprec.
  assert (Hu : (zz_enc pxy <= 15)%N).
  { unfold zz_enc. destruct (Z.ltb_spec pxy 0); lia. }
  assert (Hz : zz_dec (zz_enc pxy) = pxy).
  { apply zigzag_roundtrip_lemma. unfold in_i64, two63. lia. }
  remember (zz_enc pxy) as u. clear Hequ.
  split; [lia|]. replace ((u * 16) mod 256 + kind)%N with (u * 16 + kind)%N by lia.
  replace ((u * 16 + kind) / 16)%N with u by lia. exact Hz.
Qed.

Lemma meta_bits c :
  bit (meta_byte c) 1 = w_bbox c /\ bit (meta_byte c) 2 = w_size c /\
  bit (meta_byte c) 4 = w_hasids c /\ bit (meta_byte c) 8 = w_hasext c /\
  bit (meta_byte c) 16 = false.
Proof.
  unfold meta_byte, bit. destruct (w_bbox c), (w_size c), (w_hasids c), (w_hasext c);
    repeat split; reflexivity.
Qed.

Lemma ext_bits c :
  (0 <= w_pz c <= 7)%Z -> (0 <= w_pm c <= 7)%Z ->
  bit (ext_byte c) 1 = w_hasz c /\ bit (ext_byte c) 2 = w_hasm c /\
  (w_hasz c = true -> ((ext_byte c / 4) mod 8)%N = Z.to_N (w_pz c)) /\
  (w_hasm c = true -> ((ext_byte c / 32) mod 8)%N = Z.to_N (w_pm c)).
Proof.
  intros Hz Hm. unfold ext_byte, bit.
  remember (Z.to_N (w_pz c)) as pz. remember (Z.to_N (w_pm c)) as pm.
  assert (pz <= 7)%N by lia. assert (pm <= 7)%N by lia. clear Heqpz Heqpm.
  destruct (w_hasz c), (w_hasm c); repeat split; intros; try discriminate;
    try (apply N.eqb_eq; lia); try (apply N.eqb_neq; lia); lia.
Qed.

Definition raw_bbox (bb : list (Z * Z)) : list Z :=
  flat_map (fun mm => [fst mm; wrap64 (snd mm - fst mm)]) bb.

Definition hdr_of (c : wcfg) (kind : N) (st : wst) (size : Z) : thdr :=
  {| h_kind := kind; h_pxy := w_pxy c; h_hasbbox := w_bbox c; h_hassize := w_size c;
     h_hasids := w_hasids c; h_hasext := w_hasext c; h_empty := false;
     h_hasz := w_hasz c; h_hasm := w_hasm c;
     h_pz := if w_hasz c then Z.to_N (w_pz c) else 0%N;
     h_pm := if w_hasm c then Z.to_N (w_pm c) else 0%N;
     h_size := size;
     h_bbox := if w_bbox c then raw_bbox (ws_bb st) else [] |}.

Definition empty_hdr (c : wcfg) (kind : N) : thdr :=
  {| h_kind := kind; h_pxy := w_pxy c; h_hasbbox := false; h_hassize := false; h_hasids := false;
     h_hasext := false; h_empty := true; h_hasz := false; h_hasm := false; h_pz := 0%N; h_pm := 0%N;
     h_size := 0%Z; h_bbox := [] |}.

Lemma bbox_bytes_raw bb : bbox_bytes bb = flat_map sv_enc (raw_bbox bb).
Proof.
  unfold bbox_bytes, raw_bbox. induction bb as [|m bb IH]; cbn [flat_map]; [reflexivity|].
  rewrite IH. cbn [app fst snd flat_map]. rewrite <- app_assoc. reflexivity.
Qed.

Lemma raw_bbox_ok bb : Forall i64pair bb -> Forall in_i64 (raw_bbox bb) /\ length (raw_bbox bb) = (2 * length bb)%nat.
Proof.
  induction 1 as [|m bb [H1 _] HF [IH1 IH2]]; cbn [raw_bbox flat_map length]; [split; [constructor|reflexivity]|].
  split.
  - cbn [app]. constructor; [exact H1|]. constructor; [apply wrap64_range|exact IH1].
  - cbn [app length]. fold (raw_bbox bb). rewrite IH2. lia.
Qed.

Lemma empty_headers_spec c kind rest pos a :
  (-8 <= w_pxy c <= 7)%Z -> (kind < 16)%N ->
  parse_headers {| s_in := empty_doc c kind ++ rest; s_pos := pos; s_alloc := a |} =
  TOk (empty_hdr c kind) {| s_in := rest; s_pos := (pos + 2)%N; s_alloc := a |}.
Proof.
  intros Hp Hk. destruct (typeprec_dec (w_pxy c) kind Hp Hk) as [Hk1 Hk2].
  unfold parse_headers, empty_doc. cbn [app].
  unfold tbind at 1. rewrite rd_byte_eq. unfold tbind at 1. rewrite rd_byte_eq.
  rewrite Hk1, Hk2.
  change (bit 16 4) with false. change (bit 16 8) with false. change (bit 16 2) with false.
  change (bit 16 1) with false. change (bit 16 16) with true. cbn [andb].
  unfold tbind, tret, empty_hdr. f_equal. f_equal. lia.
Qed.

Lemma headers_spec c kind st contents rest pos a :
  cfg_ok c -> (kind < 16)%N ->
  (w_hasids c = true -> ((kind =? 1) || (kind =? 2) || (kind =? 3))%N = false) ->
  wst_ok (dim (w_ct c)) st ->
  (Z.of_N pos + Z.of_nat (length (form c kind st contents)) < two63)%Z ->
  exists hl a',
  parse_headers {| s_in := form c kind st contents ++ rest; s_pos := pos; s_alloc := a |} =
  TOk (hdr_of c kind st (if w_size c then Z.of_N pos + Z.of_nat (length (form c kind st contents)) else 0)%Z)
      {| s_in := contents ++ rest; s_pos := (pos + N.of_nat hl)%N; s_alloc := a' |} /\
  length (form c kind st contents) = (hl + length contents)%nat.
Proof.
  intros [Hp [Hz [Hm Hids]]] Hk Hkid [Hs1 [Hs2 Hs3]] Hlen.
  destruct (typeprec_dec (w_pxy c) kind Hp Hk) as [Hk1 Hk2].
  destruct (meta_bits c) as [Hb1 [Hb2 [Hb4 [Hb8 Hb16]]]].
  destruct (ext_bits c Hz Hm) as [He1 [He2 [Hepz Hepm]]].
  destruct (raw_bbox_ok (ws_bb st) Hs3) as [Hraw1 Hraw2].
  unfold form in *. cbv zeta in *.
  set (bboxb := if w_bbox c then bbox_bytes (ws_bb st) else []) in *.
  unfold parse_headers. cbn [app].
  unfold tbind at 1. rewrite rd_byte_eq. unfold tbind at 1. rewrite rd_byte_eq.
  rewrite Hk1, Hk2, Hb1, Hb2, Hb4, Hb8, Hb16.
  assert (Hkid' : (w_hasids c && ((kind =? 1) || (kind =? 2) || (kind =? 3))%N) = false).
  { destruct (w_hasids c); [apply Hkid; reflexivity|reflexivity]. }
  rewrite Hkid'.
  (* extended precision *)
  assert (Hext : exists k1,
    (if w_hasext c then
       doT e <- rd_byte; tret (bit e 1, bit e 2, if bit e 1 then ((e / 4) mod 8)%N else 0%N,
                               if bit e 2 then ((e / 32) mod 8)%N else 0%N)
     else tret (false, false, 0%N, 0%N))
      {| s_in := (if w_hasext c then [ext_byte c] else []) ++
                 (if w_size c then uv_enc (N.of_nat (length bboxb + length contents)) else []) ++
                 bboxb ++ contents ++ rest; s_pos := (pos + 1 + 1)%N; s_alloc := a |} =
    TOk (w_hasz c, w_hasm c, (if w_hasz c then Z.to_N (w_pz c) else 0%N),
         (if w_hasm c then Z.to_N (w_pm c) else 0%N))
        {| s_in := (if w_size c then uv_enc (N.of_nat (length bboxb + length contents)) else []) ++
                   bboxb ++ contents ++ rest; s_pos := (pos + N.of_nat k1)%N; s_alloc := a |} /\
    k1 = (2 + length (if w_hasext c then [ext_byte c] else []))%nat).
  { exists (2 + length (if w_hasext c then [ext_byte c] else []))%nat. split; [|reflexivity].
    unfold w_hasext. destruct (w_hasz c) eqn:Ehz, (w_hasm c) eqn:Ehm; cbn [orb app];
      try (unfold tbind; rewrite rd_byte_eq; rewrite He1, He2, ?Hepz, ?Hepm by reflexivity);
      unfold tret; f_equal; f_equal; cbn [length]; lia. }
  destruct Hext as [k1 [Eext Hk1']].
  rewrite <- !app_assoc.
  unfold tbind at 1. rewrite Eext. clear Eext. cbv beta iota.
  set (szb := if w_size c then uv_enc (N.of_nat (length bboxb + length contents)) else []) in *.
  set (extb := if w_hasext c then [ext_byte c] else []) in *.
  assert (Hflen : length (typeprec (w_pxy c) kind :: meta_byte c :: extb ++ szb ++ bboxb ++ contents)
                  = (k1 + length szb + length bboxb + length contents)%nat).
  { cbn [length]. rewrite !app_length. lia. }
  cbn [app] in Hlen. rewrite Hflen in Hlen.
  (* size *)
  assert (Hsz :
    (if w_size c then parse_size else tret 0%Z)
      {| s_in := szb ++ bboxb ++ contents ++ rest; s_pos := (pos + N.of_nat k1)%N; s_alloc := a |} =
    TOk (if w_size c then Z.of_N pos + Z.of_nat (k1 + length szb + length bboxb + length contents) else 0)%Z
        {| s_in := bboxb ++ contents ++ rest; s_pos := (pos + N.of_nat (k1 + length szb))%N; s_alloc := a |}).
  { subst szb. destruct (w_size c).
    - unfold parse_size, tbind. rewrite rd_uv_eq by (unfold two63, two64N in *; lia).
      cbn [s_pos s_in s_alloc]. rewrite !app_length.
      destruct (N.ltb_spec (N.of_nat (length bboxb + (length contents + length rest)))
                           (N.of_nat (length bboxb + length contents))); [lia|].
      f_equal; [lia|f_equal; lia].
    - unfold tret. cbn [app length]. f_equal. f_equal. lia. }
  unfold tbind at 1. rewrite Hsz. clear Hsz.
  (* bounding box *)
  assert (Hbbx : exists a',
    (if w_bbox c then rd_svs (2 * dim (mk_ct (w_hasz c) (w_hasm c))) else tret [])
      {| s_in := bboxb ++ contents ++ rest; s_pos := (pos + N.of_nat (k1 + length szb))%N; s_alloc := a |} =
    TOk (if w_bbox c then raw_bbox (ws_bb st) else [])
        {| s_in := contents ++ rest; s_pos := (pos + N.of_nat (k1 + length szb + length bboxb))%N; s_alloc := a' |}).
  { unfold bboxb. destruct (w_bbox c).
    - rewrite bbox_bytes_raw.
      replace (2 * dim (mk_ct (w_hasz c) (w_hasm c)))%nat with (length (raw_bbox (ws_bb st)))
        by (rewrite Hraw2, Hs2; reflexivity).
      destruct (parses_svs (raw_bbox (ws_bb st)) Hraw1 (contents ++ rest) (pos + N.of_nat (k1 + length szb))%N a)
        as [a' E].
      exists a'. rewrite E. f_equal. f_equal. lia.
    - exists a. unfold tret. cbn [app length]. f_equal. f_equal. lia. }
  destruct Hbbx as [a' Hbbx].
  unfold tbind at 1. rewrite Hbbx. clear Hbbx.
  exists (k1 + length szb + length bboxb)%nat, a'. cbn [app]. rewrite Hflen. split; [|lia].
  unfold tret, hdr_of. reflexivity.
Qed.

(* ---- merging bounding boxes (fix F6) ---- *)
Definition mergeL (A B : list (Z * Z)) : list (Z * Z) :=
  map (fun ab => (Z.min (fst (fst ab)) (fst (snd ab)), Z.max (snd (fst ab)) (snd (snd ab)))) (combine A B).
Definition merge_opt (A B : option (list (Z * Z))) : option (list (Z * Z)) :=
  match A, B with
  | None, X => X
  | X, None => X
  | Some a, Some b => Some (mergeL a b)
  end.

Lemma bb_state_merge st sub : bb_state (merge_bb st sub) = merge_opt (bb_state st) (bb_state sub).
Proof.
  unfold merge_bb, bb_state. destruct (ws_valid sub); cbn [negb]; [|destruct (ws_valid st); reflexivity].
  cbn [ws_valid ws_bb]. destruct (ws_valid st); reflexivity.
Qed.

Lemma mergeL_step a : forall b p,
  mergeL a (map (fun x : Z * Z * Z => (Z.min (fst (fst x)) (snd x), Z.max (snd (fst x)) (snd x))) (combine b p)) =
  map (fun x : Z * Z * Z => (Z.min (fst (fst x)) (snd x), Z.max (snd (fst x)) (snd x))) (combine (mergeL a b) p).
Proof.
  unfold mergeL. induction a as [|m a IH]; intros [|n b] [|v p]; cbn [combine map]; try reflexivity.
  rewrite IH. f_equal. cbn [fst snd]. f_equal; lia.
Qed.

Lemma mergeL_single a : forall p,
  mergeL a (map (fun v : Z => (v, v)) p) =
  map (fun x : Z * Z * Z => (Z.min (fst (fst x)) (snd x), Z.max (snd (fst x)) (snd x))) (combine a p).
Proof.
  unfold mergeL. induction a as [|m a IH]; intros [|v p]; cbn [combine map]; try reflexivity.
  rewrite IH. reflexivity.
Qed.

Lemma merge_step A B p : merge_opt A (env_step B p) = env_step (merge_opt A B) p.
Proof.
  destruct A as [a|], B as [b|]; cbn [merge_opt env_step]; try reflexivity.
  - f_equal. apply mergeL_step.
  - f_equal. apply mergeL_single.
Qed.

Lemma fold_merge pts : forall A, merge_opt A (fold_left env_step pts None) = fold_left env_step pts A.
Proof.
  induction pts as [|p pts IH] using rev_ind; intros A.
  - cbn [fold_left]. destruct A; reflexivity.
  - rewrite !fold_left_app. cbn [fold_left]. rewrite merge_step, IH. reflexivity.
Qed.

Lemma merge_bb_ok d st sub : wst_ok d st -> wst_ok d sub -> wst_ok d (merge_bb st sub).
Proof.
  intros [H1 [H2 H3]] [G1 [G2 G3]]. unfold merge_bb.
  destruct (ws_valid sub); cbn [negb]; [|repeat split; assumption].
  unfold wst_ok. cbn [ws_ref ws_bb]. destruct (ws_valid st); cbn [negb].
  - split; [exact H1|]. split.
    + rewrite map_length, combine_length. lia.
    + clear H1 G1. revert H2 G2 H3 G3. generalize (ws_bb st) (ws_bb sub). intros a. revert d.
      induction a as [|m a IH]; intros d [|n b] Ha Hb Hfa Hfb; cbn [combine map]; constructor.
      * inversion Hfa as [|? ? [A1 [A2 A3]] _]; subst. inversion Hfb as [|? ? [B1 [B2 B3]] _]; subst.
        unfold i64pair, in_i64 in *. cbn [fst snd]. lia.
      * cbn [length] in *. apply (IH (pred d)); try lia; [inversion Hfa|inversion Hfb]; assumption.
  - repeat split; assumption.
Qed.

(* ---- emptiness ---- *)
Lemma empty_no_vs : forall g : zgeom, is_empty g = true -> geom_vs g = [].
Proof.
  assert (Hfm : forall {A} (e : A -> bool) (vs : A -> list (vtx Z)) l,
             (forall x, e x = true -> vs x = []) -> forallb e l = true -> flat_map vs l = []).
  { intros A e vs l H. induction l as [|x l IH]; cbn [forallb flat_map]; intros Hl; [reflexivity|].
    apply andb_true_iff in Hl. destruct Hl as [H1 H2]. rewrite (H x H1), IH by exact H2. reflexivity. }
  induction g as [p|l|p|c ps|c ls|c ps|c gs IH] using geomT_ind'; cbn [is_empty geom_vs]; intros H.
  - destruct p as [c' [v|]]; cbn in *; [discriminate|reflexivity].
  - destruct l as [c' [|v vs]]; cbn in *; [reflexivity|discriminate].
  - destruct p as [c' [|r rs]]; cbn in *; [reflexivity|discriminate].
  - apply (Hfm _ (@point_empty Z)); [|exact H]. intros [c' [v|]]; cbn; [discriminate|reflexivity].
  - apply (Hfm _ (@line_empty Z)); [|exact H]. intros [c' [|v vs]]; cbn; [reflexivity|discriminate].
  - apply (Hfm _ (@poly_empty Z)); [|exact H]. intros [c' [|r rs]]; cbn; [reflexivity|discriminate].
  - induction gs as [|x gs IHg]; cbn [forallb flat_map] in *; [reflexivity|].
    apply andb_true_iff in H. destruct H as [H1 H2]. inversion IH; subst.
    rewrite H3 by exact H1. rewrite IHg by assumption. reflexivity.
Qed.

(* ---- the main statement ---- *)
Definition gpts (ct : ctype) (g : zgeom) : list (list Z) := map (vords ct) (geom_vs g).

Definition dec_ids (c : wcfg) (g : zgeom) : list Z :=
  if is_empty g then []
  else match g with
       | GMPoint _ _ | GMLine _ _ | GMPoly _ _ | GColl _ _ => w_ids c
       | _ => []
       end.

Definition ids_ok (c : wcfg) (g : zgeom) : Prop :=
  w_hasids c = true -> is_empty g = false ->
  match g with
  | GMPoint _ l => length (w_ids c) = length l
  | GMLine _ l => length (w_ids c) = length l
  | GMPoly _ l => length (w_ids c) = length l
  | GColl _ l => length (w_ids c) = length l
  | _ => False
  end.

Definition expected_hdr (c : wcfg) (g : zgeom) (st : wst) (doclen : nat) : thdr :=
  if is_empty g then empty_hdr c (kind_of (geom_type g))
  else hdr_of c (kind_of (geom_type g)) st (if w_size c then Z.of_nat doclen else 0%Z).

Definition gspec (c : wcfg) (g : zgeom) : Prop :=
  exists doc st, twrite c g = Ok (doc, st) /\ wst_ok (dim (w_ct c)) st /\ (2 <= length doc)%nat /\
    bb_state st = fold_left env_step (gpts (w_ct c) g) None /\
    forall fuel rest a, (length doc < fuel)%nat -> (Z.of_nat (length doc) < two63)%Z ->
      exists a', zrd_geom fuel {| s_in := doc ++ rest; s_pos := 0; s_alloc := a |} =
        TOk (tolerated g, expected_hdr c g st (length doc), dec_ids c g)
            {| s_in := rest; s_pos := N.of_nat (length doc); s_alloc := a' |}.

Lemma kind_lt t : (kind_of t < 16)%N.
Proof. destruct t; cbn; lia. Qed.

Lemma form_len c kind st contents : (2 <= length (form c kind st contents))%nat.
Proof. unfold form. cbn [app length]. lia. Qed.

(* headers followed by a body parser *)
Lemma glue c kind st contents (K : thdr -> TP (zgeom * thdr * list Z)) gres ids rest a :
  cfg_ok c -> (kind < 16)%N ->
  (w_hasids c = true -> ((kind =? 1) || (kind =? 2) || (kind =? 3))%N = false) ->
  wst_ok (dim (w_ct c)) st ->
  (Z.of_nat (length (form c kind st contents)) < two63)%Z ->
  (forall sz, parses (K (hdr_of c kind st sz)) contents (gres, hdr_of c kind st sz, ids)) ->
  exists a', tbind parse_headers K {| s_in := form c kind st contents ++ rest; s_pos := 0; s_alloc := a |} =
    TOk (gres, hdr_of c kind st (if w_size c then Z.of_nat (length (form c kind st contents)) else 0%Z), ids)
        {| s_in := rest; s_pos := N.of_nat (length (form c kind st contents)); s_alloc := a' |}.
Proof.
  intros Hc Hk Hkid Hst Hlen HK.
  destruct (headers_spec c kind st contents rest 0%N a Hc Hk Hkid Hst ltac:(lia)) as [hl [a1 [E Hl]]].
  unfold tbind. rewrite E.
  destruct (HK (if w_size c then (Z.of_N 0 + Z.of_nat (length (form c kind st contents)))%Z else 0%Z)
               rest (0 + N.of_nat hl)%N a1) as [a2 E2].
  rewrite E2. exists a2. cbn [Z.of_N Z.add]. f_equal. f_equal. rewrite Hl. lia.
Qed.

Lemma init_ref d : ws_ref (init_wst d) = repeat 0%Z d.
Proof. reflexivity. Qed.
Lemma init_bb d : bb_state (init_wst d) = None.
Proof. reflexivity. Qed.

Lemma hdr_ct c kind st sz : h_ct (hdr_of c kind st sz) = w_ct c.
Proof. reflexivity. Qed.

Lemma map_flat_map {A B C} (f : B -> C) (g : A -> list B) l :
  map f (flat_map g l) = flat_map (fun x => map f (g x)) l.
Proof. induction l as [|x l IH]; cbn [flat_map map]; [reflexivity|]. rewrite map_app, IH. reflexivity. Qed.

Lemma gspec_empty c g :
  (-8 <= w_pxy c <= 7)%Z -> geom_ct g = w_ct c -> is_empty g = true -> gspec c g.
Proof.
  intros Hp Hct He. unfold gspec.
  exists (empty_doc c (kind_of (geom_type g))), (init_wst (dim (w_ct c))).
  assert (Htw : twrite c g = Ok (empty_doc c (kind_of (geom_type g)), init_wst (dim (w_ct c)))).
  { destruct g; cbn [twrite geom_ct is_empty]; cbn [geom_ct is_empty] in Hct, He;
      rewrite Hct, ct_eqb_refl; cbn [negb]; rewrite He; reflexivity. }
  split; [exact Htw|]. split; [apply init_wst_ok|]. split; [cbn; lia|].
  split; [unfold gpts; rewrite (empty_no_vs g He); reflexivity|].
  intros fuel rest a Hf _. destruct fuel as [|f]; [lia|].
  exists a. cbn [rd_geom]. unfold tbind.
  rewrite (empty_headers_spec c (kind_of (geom_type g)) rest 0 a Hp (kind_lt _)).
  unfold tolerated, expected_hdr, dec_ids. rewrite He.
  cbn [h_kind h_empty empty_hdr h_ct h_hasz h_hasm mk_ct].
  destruct g; cbn [geom_type kind_of plain_empty]; unfold tret; reflexivity.
Qed.

Ltac finish_gspec doc st Htw Hst Hbb :=
  exists doc, st; split; [exact Htw|]; split; [exact Hst|]; split; [apply form_len|]; split; [exact Hbb|].

Lemma gspec_point c p :
  cfg_ok c -> w_hasids c = false -> point_ok (Z.eqb 0) (w_ct c) p = true ->
  is_empty (GPoint p) = false ->
  match point_c p with None => true | Some v => vtx_i64 v end = true -> gspec c (GPoint p).
Proof.
  intros Hc Hnoid Hok Hne Hdom. set (ct := w_ct c) in *.
  assert (Hpc : match point_c p with None => false | Some v => vtx_i64 v end = true).
  { destruct p as [c' [v|]]; cbn in *; [exact Hdom|discriminate]. }
  set (h0 := hdr_of c 1%N (init_wst (dim ct)) 0%Z).
  destruct (point_wspec ct h0 p eq_refl Hok Hpc (init_wst (dim ct)) (init_wst_ok _))
    as [bs [st [E [Hst [_ [Hlen Hbb]]]]]].
  assert (Hct : point_ct p = ct).
  { destruct p as [c' o]. cbn [point_ok] in Hok. apply andb_true_iff in Hok. destruct Hok as [Hc' _].
    apply ct_eqb_eq in Hc'. exact Hc'. }
  assert (Htw : twrite c (GPoint p) = Ok (form c 1%N st bs, st)).
  { cbn [twrite geom_ct geom_type kind_of]. fold ct. rewrite Hct, ct_eqb_refl. cbn [negb].
    rewrite Hne. unfold wr_mpoint_member in E. destruct (point_c p) as [v|]; [|discriminate].
    rewrite E. reflexivity. }
  assert (Hbb' : bb_state st = fold_left env_step (gpts ct (GPoint p)) None).
  { rewrite init_bb in Hbb. rewrite Hbb. unfold gpts. cbn [geom_vs]. unfold point_vs.
    destruct (point_c p); reflexivity. }
  finish_gspec (form c 1%N st bs) st Htw Hst Hbb'.
  intros fuel rest a Hf Hlen63. destruct fuel as [|f]; [lia|].
  cbn [rd_geom].
  unfold tolerated, expected_hdr, dec_ids. rewrite Hne. cbn [tol_member geom_type kind_of].
  rewrite Hne.
  eapply glue; try assumption; try (cbn; lia).
  - intros E1. rewrite Hnoid in E1. discriminate.
  - intros sz. cbn [h_kind hdr_of h_empty]. rewrite hdr_ct. fold ct.
    destruct (point_wspec ct (hdr_of c 1%N st sz) p eq_refl Hok Hpc (init_wst (dim ct)) (init_wst_ok _))
      as [bs' [st' [E' [_ [Hpar' _]]]]].
    rewrite E in E'. inversion E'; subst bs' st'.
    rewrite <- (app_nil_r bs). eapply parses_bind; [exact Hpar'|]. cbn [fst]. apply parses_ret.
Qed.

Lemma gspec_line c l :
  cfg_ok c -> w_hasids c = false -> line_ok (Z.eqb 0) (w_ct c) l = true ->
  is_empty (GLine l) = false -> line_dom l = true -> gspec c (GLine l).
Proof.
  intros Hc Hnoid Hok Hne Hdom. set (ct := w_ct c) in *.
  set (h0 := hdr_of c 2%N (init_wst (dim ct)) 0%Z).
  destruct (line_wspec ct h0 l eq_refl Hok Hdom (init_wst (dim ct)) (init_wst_ok _))
    as [bs [st [E [Hst [_ [Hlen Hbb]]]]]].
  assert (Hct : line_ct l = ct).
  { destruct l as [c' o]. cbn [line_ok] in Hok. apply andb_true_iff in Hok. destruct Hok as [Hc' _].
    apply ct_eqb_eq in Hc'. exact Hc'. }
  assert (Htw : twrite c (GLine l) = Ok (form c 2%N st bs, st)).
  { cbn [twrite geom_ct geom_type kind_of]. fold ct. rewrite Hct, ct_eqb_refl. cbn [negb].
    rewrite Hne. rewrite E. reflexivity. }
  assert (Hbb' : bb_state st = fold_left env_step (gpts ct (GLine l)) None).
  { rewrite init_bb in Hbb. exact Hbb. }
  finish_gspec (form c 2%N st bs) st Htw Hst Hbb'.
  intros fuel rest a Hf Hlen63. destruct fuel as [|f]; [lia|].
  cbn [rd_geom].
  unfold tolerated, expected_hdr, dec_ids. rewrite Hne. cbn [tol_member geom_type kind_of].
  rewrite Hne.
  eapply glue; try assumption; try (cbn; lia).
  - intros E1. rewrite Hnoid in E1. discriminate.
  - intros sz. cbn [h_kind hdr_of h_empty]. rewrite hdr_ct. fold ct.
    destruct (line_wspec ct (hdr_of c 2%N st sz) l eq_refl Hok Hdom (init_wst (dim ct)) (init_wst_ok _))
      as [bs' [st' [E' [_ [Hpar' _]]]]].
    rewrite E in E'. inversion E'; subst bs' st'.
    rewrite <- (app_nil_r bs). eapply parses_bind; [exact Hpar'|]. cbn [fst]. apply parses_ret.
Qed.

Lemma poly_gpts ct p : poly_ptsof ct p = map (vords ct) (poly_vs p).
Proof. unfold poly_ptsof, poly_vs, ring_ptsof. rewrite map_flat_map. reflexivity. Qed.

Lemma gspec_poly c p :
  cfg_ok c -> w_hasids c = false -> poly_ok (Z.eqb 0) (w_ct c) p = true ->
  is_empty (GPoly p) = false -> poly_dom (ring_dom (w_close c)) p = true -> gspec c (GPoly p).
Proof.
  intros Hc Hnoid Hok Hne Hdom. set (ct := w_ct c) in *.
  set (h0 := hdr_of c 3%N (init_wst (dim ct)) 0%Z).
  destruct (poly_wspec (w_close c) ct h0 p eq_refl Hok Hdom (init_wst (dim ct)) (init_wst_ok _))
    as [bs [st [E [Hst [_ [Hlen Hbb]]]]]].
  assert (Hct : poly_ct p = ct).
  { destruct p as [c' o]. cbn [poly_ok] in Hok. apply andb_true_iff in Hok. destruct Hok as [Hc' _].
    apply ct_eqb_eq in Hc'. exact Hc'. }
  assert (Htw : twrite c (GPoly p) = Ok (form c 3%N st bs, st)).
  { cbn [twrite geom_ct geom_type kind_of]. fold ct. rewrite Hct, ct_eqb_refl. cbn [negb].
    rewrite Hne. rewrite E. reflexivity. }
  assert (Hbb' : bb_state st = fold_left env_step (gpts ct (GPoly p)) None).
  { rewrite init_bb in Hbb. rewrite Hbb. unfold gpts. cbn [geom_vs]. rewrite poly_gpts. reflexivity. }
  finish_gspec (form c 3%N st bs) st Htw Hst Hbb'.
  intros fuel rest a Hf Hlen63. destruct fuel as [|f]; [lia|].
  cbn [rd_geom].
  unfold tolerated, expected_hdr, dec_ids. rewrite Hne. cbn [tol_member geom_type kind_of].
  rewrite Hne.
  eapply glue; try assumption; try (cbn; lia).
  - intros E1. rewrite Hnoid in E1. discriminate.
  - intros sz. cbn [h_kind hdr_of h_empty]. rewrite hdr_ct. fold ct.
    destruct (poly_wspec (w_close c) ct (hdr_of c 3%N st sz) p eq_refl Hok Hdom (init_wst (dim ct)) (init_wst_ok _))
      as [bs' [st' [E' [_ [Hpar' _]]]]].
    rewrite E in E'. inversion E'; subst bs' st'.
    rewrite <- (app_nil_r bs). eapply parses_bind; [exact Hpar'|]. cbn [fst]. apply parses_ret.
Qed.

(* ---- Multi*: count, ID list, members written with the threaded state ---- *)
Lemma count_bytes_assoc {A} (l : list A) ids bs :
  count_bytes l ++ ids ++ bs = (uv_enc (N.of_nat (length l)) ++ ids) ++ bs.
Proof. unfold count_bytes. rewrite app_assoc. reflexivity. Qed.

Lemma gspec_mline c ct' ls :
  cfg_ok c -> geom_ok (Z.eqb 0) (w_ct c) (GMLine ct' ls) = true ->
  is_empty (GMLine ct' ls) = false ->
  geom_dom (ring_dom (w_close c)) (GMLine ct' ls) = true -> ids_ok c (GMLine ct' ls) ->
  gspec c (GMLine ct' ls).
Proof.
  intros Hc Hok Hne Hdom Hids. set (ct := w_ct c) in *.
  cbn [geom_ok] in Hok. apply andb_true_iff in Hok. destruct Hok as [Hct Hoks].
  apply ct_eqb_eq in Hct. subst ct'.
  cbn [geom_dom] in Hdom. apply andb_true_iff in Hdom. destruct Hdom as [Hcnt Hdoms].
  assert (HF : forall h, h_ct h = ct ->
             Forall (wspec (dim ct) 1 (wr_line ct) (znext_line h) (fun l => map (vords ct) (line_vs l))) ls).
  { intros h Hh. apply forallb_Forall in Hoks. apply forallb_Forall in Hdoms. rewrite Forall_forall in *.
    intros l Hl. apply line_wspec; [exact Hh|apply Hoks; exact Hl|apply Hdoms; exact Hl]. }
  set (st0 := init_wst (dim ct)).
  destruct (wr_seq_spec (dim ct) 1 _ _ _ (le_n 1) ls st0 (HF (hdr_of c 5%N st0 0%Z) eq_refl) (init_wst_ok _))
    as [bs [st [E [Hst [_ [Hlen Hbb]]]]]].
  assert (Hidlen : w_hasids c = true -> length (w_ids c) = length ls).
  { intros Hh. exact (Hids Hh Hne). }
  pose proof Hc as [Hc1 [Hc2 [Hc3 Hc4]]].
  destruct (ids_spec c (length ls) 1 ltac:(lia) Hcnt Hc4 Hidlen) as [idb [Eids HparL]].
  assert (Htw : twrite c (GMLine ct ls) = Ok (form c 5%N st (count_bytes ls ++ idb ++ bs), st)).
  { cbn [twrite geom_ct geom_type kind_of]. fold ct. rewrite ct_eqb_refl. cbn [negb].
    rewrite Hne. rewrite Eids. cbn [bind]. fold st0. rewrite E. reflexivity. }
  assert (Hbb' : bb_state st = fold_left env_step (gpts ct (GMLine ct ls)) None).
  { rewrite Hbb. unfold gpts. cbn [geom_vs]. rewrite map_flat_map. reflexivity. }
  finish_gspec (form c 5%N st (count_bytes ls ++ idb ++ bs)) st Htw Hst Hbb'.
  intros fuel rest a Hf Hlen63. destruct fuel as [|f]; [lia|].
  cbn [rd_geom].
  unfold tolerated, expected_hdr, dec_ids. rewrite Hne. cbn [tol_member geom_type kind_of].
  rewrite Hne.
  eapply glue; try assumption; try (cbn; lia).
  intros sz. cbn [h_kind hdr_of h_empty h_hasids]. rewrite hdr_ct. fold ct.
    destruct (wr_seq_spec (dim ct) 1 _ _ _ (le_n 1) ls st0 (HF (hdr_of c 5%N st sz) eq_refl) (init_wst_ok _))
      as [bs' [st' [E' [_ [Hpar' _]]]]].
    rewrite E in E'. inversion E'; subst bs' st'.
    rewrite count_bytes_assoc.
    eapply parsesL_bind; [exact HparL| |lia].
    cbn [fst snd]. rewrite <- (app_nil_r bs).
    eapply parses_bind; [apply (tloop_in_parses _ _ _ _ _ (length ls)); [exact Hpar'|lia]|].
    cbn [fst snd].
    assert (Hnil : ls <> []) by (intros ->; cbn in Hne; discriminate).
    rewrite (new_multiline_id ct ls Hnil Hoks). apply parses_ret.
Qed.

Lemma gspec_mpoly c ct' ps :
  cfg_ok c -> geom_ok (Z.eqb 0) (w_ct c) (GMPoly ct' ps) = true ->
  is_empty (GMPoly ct' ps) = false ->
  geom_dom (ring_dom (w_close c)) (GMPoly ct' ps) = true -> ids_ok c (GMPoly ct' ps) ->
  gspec c (GMPoly ct' ps).
Proof.
  intros Hc Hok Hne Hdom Hids. set (ct := w_ct c) in *.
  cbn [geom_ok] in Hok. apply andb_true_iff in Hok. destruct Hok as [Hct Hoks].
  apply ct_eqb_eq in Hct. subst ct'.
  cbn [geom_dom] in Hdom. apply andb_true_iff in Hdom. destruct Hdom as [Hcnt Hdoms].
  assert (HF : forall h, h_ct h = ct ->
             Forall (wspec (dim ct) 1 (wr_poly (w_close c) ct) (znext_poly h) (poly_ptsof ct)) ps).
  { intros h Hh. apply forallb_Forall in Hoks. apply forallb_Forall in Hdoms. rewrite Forall_forall in *.
    intros l Hl. apply poly_wspec; [exact Hh|apply Hoks; exact Hl|apply Hdoms; exact Hl]. }
  set (st0 := init_wst (dim ct)).
  destruct (wr_seq_spec (dim ct) 1 _ _ _ (le_n 1) ps st0 (HF (hdr_of c 6%N st0 0%Z) eq_refl) (init_wst_ok _))
    as [bs [st [E [Hst [_ [Hlen Hbb]]]]]].
  assert (Hidlen : w_hasids c = true -> length (w_ids c) = length ps).
  { intros Hh. exact (Hids Hh Hne). }
  pose proof Hc as [Hc1 [Hc2 [Hc3 Hc4]]].
  destruct (ids_spec c (length ps) 1 ltac:(lia) Hcnt Hc4 Hidlen) as [idb [Eids HparL]].
  assert (Htw : twrite c (GMPoly ct ps) = Ok (form c 6%N st (count_bytes ps ++ idb ++ bs), st)).
  { cbn [twrite geom_ct geom_type kind_of]. fold ct. rewrite ct_eqb_refl. cbn [negb].
    rewrite Hne. rewrite Eids. cbn [bind]. fold st0. rewrite E. reflexivity. }
  assert (Hbb' : bb_state st = fold_left env_step (gpts ct (GMPoly ct ps)) None).
  { rewrite Hbb. unfold gpts. cbn [geom_vs]. rewrite map_flat_map. f_equal.
    apply flat_map_ext. intros p. apply poly_gpts. }
  finish_gspec (form c 6%N st (count_bytes ps ++ idb ++ bs)) st Htw Hst Hbb'.
  intros fuel rest a Hf Hlen63. destruct fuel as [|f]; [lia|].
  cbn [rd_geom].
  unfold tolerated, expected_hdr, dec_ids. rewrite Hne. cbn [tol_member geom_type kind_of].
  rewrite Hne.
  eapply glue; try assumption; try (cbn; lia).
  intros sz.
  cbn [h_kind hdr_of h_empty h_hasids]. rewrite hdr_ct. fold ct.
  destruct (wr_seq_spec (dim ct) 1 _ _ _ (le_n 1) ps st0 (HF (hdr_of c 6%N st sz) eq_refl) (init_wst_ok _))
    as [bs' [st' [E' [_ [Hpar' _]]]]].
  rewrite E in E'. inversion E'; subst bs' st'.
  rewrite count_bytes_assoc.
  eapply parsesL_bind; [exact HparL| |lia].
  cbn [fst snd]. rewrite <- (app_nil_r bs).
  eapply parses_bind; [apply (tloop_in_parses _ _ _ _ _ (length ps)); [exact Hpar'|lia]|].
  cbn [fst snd].
  assert (Hnil : ps <> []) by (intros ->; cbn in Hne; discriminate).
  rewrite (new_multipoly_id ct ps Hnil Hoks). apply parses_ret.
Qed.

Lemma gspec_mpoint c ct' ps :
  cfg_ok c -> geom_ok (Z.eqb 0) (w_ct c) (GMPoint ct' ps) = true ->
  is_empty (GMPoint ct' ps) = false ->
  geom_dom (ring_dom (w_close c)) (GMPoint ct' ps) = true -> ids_ok c (GMPoint ct' ps) ->
  gspec c (GMPoint ct' ps).
Proof.
  intros Hc Hok Hne Hdom Hids. set (ct := w_ct c) in *.
  cbn [geom_ok] in Hok. apply andb_true_iff in Hok. destruct Hok as [Hct Hoks].
  apply ct_eqb_eq in Hct. subst ct'.
  cbn [geom_dom] in Hdom. apply andb_true_iff in Hdom. destruct Hdom as [Hcnt Hdoms].
  cbn [is_empty] in Hne. rewrite Hne in Hdoms. cbn [orb] in Hdoms.
  set (ptsof := fun p : pointT Z => match point_c p with Some v => [vords ct v] | None => [] end).
  assert (HF : forall h, h_ct h = ct ->
             Forall (wspec (dim ct) (dim ct) (wr_mpoint_member ct) (znext_point h) ptsof) ps).
  { intros h Hh. apply forallb_Forall in Hoks. apply forallb_Forall in Hdoms. rewrite Forall_forall in *.
    intros l Hl. apply point_wspec; [exact Hh|apply Hoks; exact Hl|apply Hdoms; exact Hl]. }
  set (st0 := init_wst (dim ct)).
  pose proof (dim_pos ct) as Hdp.
  destruct (wr_seq_spec (dim ct) (dim ct) _ _ _ Hdp ps st0 (HF (hdr_of c 4%N st0 0%Z) eq_refl) (init_wst_ok _))
    as [bs [st [E [Hst [_ [Hlen Hbb]]]]]].
  assert (Hne' : is_empty (GMPoint ct ps) = false) by exact Hne.
  assert (Hidlen : w_hasids c = true -> length (w_ids c) = length ps).
  { intros Hh. exact (Hids Hh Hne'). }
  pose proof Hc as [Hc1 [Hc2 [Hc3 Hc4]]].
  destruct (ids_spec c (length ps) (dim ct) Hdp Hcnt Hc4 Hidlen) as [idb [Eids HparL]].
  assert (Htw : twrite c (GMPoint ct ps) = Ok (form c 4%N st (count_bytes ps ++ idb ++ bs), st)).
  { cbn [twrite geom_ct geom_type kind_of is_empty]. fold ct. rewrite ct_eqb_refl. cbn [negb].
    rewrite Hne. rewrite Eids. cbn [bind]. fold st0. rewrite E. reflexivity. }
  assert (Hbb' : bb_state st = fold_left env_step (gpts ct (GMPoint ct ps)) None).
  { rewrite Hbb. unfold gpts. cbn [geom_vs]. rewrite map_flat_map. f_equal.
    apply flat_map_ext. intros p. unfold ptsof, point_vs. destruct (point_c p); reflexivity. }
  finish_gspec (form c 4%N st (count_bytes ps ++ idb ++ bs)) st Htw Hst Hbb'.
  intros fuel rest a Hf Hlen63. destruct fuel as [|f]; [lia|].
  cbn [rd_geom].
  unfold tolerated, expected_hdr, dec_ids. rewrite Hne'. cbn [tol_member geom_type kind_of].
  rewrite Hne'.
  eapply glue; try assumption; try (cbn; lia).
  intros sz.
  cbn [h_kind hdr_of h_empty h_hasids]. rewrite hdr_ct. fold ct.
  destruct (wr_seq_spec (dim ct) (dim ct) _ _ _ Hdp ps st0 (HF (hdr_of c 4%N st sz) eq_refl) (init_wst_ok _))
    as [bs' [st' [E' [_ [Hpar' _]]]]].
  rewrite E in E'. inversion E'; subst bs' st'.
  rewrite count_bytes_assoc.
  eapply parsesL_bind; [exact HparL| |lia].
  cbn [fst snd]. rewrite <- (app_nil_r bs).
  eapply parses_bind; [apply (tloop_in_parses _ _ _ _ _ (length ps)); [exact Hpar'|nia]|].
  cbn [fst snd].
  assert (Hnil : ps <> []) by (intros ->; cbn in Hne; discriminate).
  rewrite (new_multipoint_id ct ps Hnil Hoks). apply parses_ret.
Qed.

(* ---- collections ---- *)
Fixpoint wr_members (c : wcfg) (st : wst) (l : list zgeom) : outcome (list N * wst) :=
  match l with
  | [] => Ok ([], st)
  | x :: r =>
      do (b1, s1) <- twrite (sub_cfg c) x;
      do (b2, s2) <- wr_members c (merge_bb st s1) r;
      Ok (b1 ++ b2, s2)
  end.

Lemma twrite_coll c ct' gs :
  twrite c (GColl ct' gs) =
  if negb (ct_eqb ct' (w_ct c)) then Err ECollDims
  else if is_empty (GColl ct' gs) then Ok (empty_doc c 7%N, init_wst (dim (w_ct c)))
  else do ids <- wr_ids c (length gs);
       do (bs, st) <- wr_members c (init_wst (dim (w_ct c))) gs;
       Ok (form c 7%N st (count_bytes gs ++ ids ++ bs), st).
Proof.
  cbn [twrite geom_ct geom_type kind_of].
  destruct (negb (ct_eqb ct' (w_ct c))); [reflexivity|].
  destruct (is_empty (GColl ct' gs)); [reflexivity|].
  destruct (wr_ids c (length gs)); cbn [bind]; try reflexivity.
  match goal with |- bind (?F _ gs) _ = _ => assert (HE : forall l st, F st l = wr_members c st l) end.
  { induction l as [|x l IH]; intros st; cbn [wr_members]; [reflexivity|].
    destruct (twrite (sub_cfg c) x) as [[b1 s1]| |]; cbn [bind]; try reflexivity.
    rewrite IH. reflexivity. }
  rewrite HE. reflexivity.
Qed.

Definition stepf (f : nat) (ct : ctype) : list Z -> TP (zgeom * list Z) := fun (_ : list Z) (s : pst) =>
  match zrd_geom f {| s_in := s_in s; s_pos := 0; s_alloc := s_alloc s |} with
  | TOk (g, hs, _) s' =>
      TOk (if h_empty hs then force_geom 0%Z ct g else g, [])
          {| s_in := s_in s'; s_pos := (s_pos s + s_pos s')%N; s_alloc := s_alloc s' |}
  | TErr e a => TErr e a
  | TPanic p a => TPanic p a
  end.

Definition tol_child (ct : ctype) (x : zgeom) : zgeom :=
  if is_empty x then force_geom 0%Z ct (tolerated x) else tolerated x.

Lemma sub_cfg_ok c : cfg_ok c -> cfg_ok (sub_cfg c).
Proof. intros [H1 [H2 [H3 H4]]]. unfold cfg_ok, sub_cfg. cbn. repeat split; try lia; try constructor. Qed.

Lemma child_step c f x :
  gspec (sub_cfg c) x ->
  exists doc st, twrite (sub_cfg c) x = Ok (doc, st) /\ wst_ok (dim (w_ct c)) st /\
    (2 <= length doc)%nat /\ bb_state st = fold_left env_step (gpts (w_ct c) x) None /\
    ((length doc < f)%nat -> (Z.of_nat (length doc) < two63)%Z ->
     parses (stepf f (w_ct c) []) doc (tol_child (w_ct c) x, [])).
Proof.
  intros [doc [st [E [Hst [Hl [Hbb Hdec]]]]]]. exists doc, st.
  split; [exact E|]. split; [exact Hst|]. split; [exact Hl|]. split; [exact Hbb|].
  intros Hf H63 rest pos a. unfold stepf. cbn [s_in s_alloc s_pos].
  destruct (Hdec f rest a Hf H63) as [a' Ed]. rewrite Ed. exists a'.
  unfold tol_child, expected_hdr. destruct (is_empty x); cbn [h_empty empty_hdr hdr_of]; reflexivity.
Qed.

Lemma coll_members c : forall gs st,
  Forall (gspec (sub_cfg c)) gs -> wst_ok (dim (w_ct c)) st ->
  exists bs st', wr_members c st gs = Ok (bs, st') /\ wst_ok (dim (w_ct c)) st' /\
    (length gs * 2 <= length bs)%nat /\
    bb_state st' = fold_left env_step (flat_map (gpts (w_ct c)) gs) (bb_state st) /\
    (forall fuel f, (length gs <= fuel)%nat -> (length bs < f)%nat -> (Z.of_nat (length bs) < two63)%Z ->
       parses (tloop fuel (Z.of_nat (length gs)) (stepf f (w_ct c)) []) bs
              (map (tol_child (w_ct c)) gs, [])).
Proof.
  induction gs as [|x gs IH]; intros st HF Hst.
  - exists [], st. cbn [wr_members length flat_map fold_left map]. repeat split; try apply Hst; try lia.
    intros fuel f _ _ _. destruct fuel; cbn [tloop Z.of_nat Z.leb Z.compare]; apply parses_ret.
  - inversion HF as [|? ? Hx HF']; subst.
    destruct (child_step c 0 x Hx) as [doc [cst [E [Hcst [Hl [Hbb _]]]]]].
    destruct (IH (merge_bb st cst) HF' (merge_bb_ok _ _ _ Hst Hcst)) as [bs [st' [E2 [Hst' [Hl2 [Hbb2 Hp2]]]]]].
    exists (doc ++ bs), st'. cbn [wr_members]. rewrite E. cbn [bind]. rewrite E2. cbn [bind].
    repeat split; try apply Hst'.
    + rewrite app_length. cbn [length]. lia.
    + rewrite Hbb2, bb_state_merge, Hbb, fold_merge. cbn [flat_map]. rewrite fold_left_app. reflexivity.
    + intros fuel f Hfu Hf H63. destruct fuel as [|fuel]; [cbn [length] in Hfu; lia|].
      rewrite app_length in *.
      destruct (child_step c f x Hx) as [doc' [cst' [E' [_ [_ [_ Hstep]]]]]].
      rewrite E in E'. inversion E'; subst doc' cst'.
      cbn [tloop length map]. destruct (Z.leb_spec (Z.of_nat (S (length gs))) 0); [lia|].
      eapply parses_bind; [apply Hstep; lia|]. cbn [fst snd].
      rewrite <- (app_nil_r bs).
      replace (Z.of_nat (S (length gs)) - 1)%Z with (Z.of_nat (length gs)) by lia.
      eapply parses_bind; [apply Hp2; [cbn [length] in Hfu; lia|lia|lia]|]. cbn [fst snd]. apply parses_ret.
Qed.

Lemma plain_empty_ok ct t : geom_ok (Z.eqb 0) ct (plain_empty t ct) = true.
Proof. destruct t; cbn; rewrite ct_eqb_refl; reflexivity. Qed.

Lemma force_plain ct t : force_geom 0%Z ct (plain_empty t XY) = plain_empty t ct.
Proof. destruct t; reflexivity. Qed.

Lemma tol_member_ok ct : forall x : zgeom, geom_ok (Z.eqb 0) ct x = true -> geom_ok (Z.eqb 0) ct (tol_member x) = true.
Proof.
  induction x as [p|l|p|c ps|c ls|c ps|c gs IH] using geomT_ind'; intros H;
    pose proof (proj2 (force_geom_id ct _ H)) as Hct.
  1-6: (cbn [tol_member]; match goal with |- context [is_empty ?g] => destruct (is_empty g) end;
        [rewrite Hct; apply plain_empty_ok|exact H]).
  cbn [tol_member]. destruct (is_empty (GColl c gs)); [rewrite Hct; apply plain_empty_ok|].
  cbn [geom_ok] in *. apply andb_true_iff in H. destruct H as [H1 H2]. rewrite H1. cbn [andb].
  apply forallb_Forall. apply Forall_map. apply forallb_Forall in H2.
  rewrite Forall_forall in *. intros x Hx. apply IH; [exact Hx|apply H2; exact Hx].
Qed.

Lemma tol_child_member ct x : geom_ok (Z.eqb 0) ct x = true -> tol_child ct x = tol_member x.
Proof.
  intros H. pose proof (proj2 (force_geom_id ct _ H)) as Hct.
  unfold tol_child, tolerated. destruct x; cbn [tol_member]; 
    match goal with |- context [is_empty ?g] => destruct (is_empty g) eqn:E end; try reflexivity;
    rewrite force_plain, Hct; reflexivity.
Qed.

Lemma gspec_coll c ct' gs :
  cfg_ok c -> geom_ok (Z.eqb 0) (w_ct c) (GColl ct' gs) = true ->
  is_empty (GColl ct' gs) = false -> cnt_ok gs = true -> ids_ok c (GColl ct' gs) ->
  Forall (gspec (sub_cfg c)) gs ->
  gspec c (GColl ct' gs).
Proof.
  intros Hc Hok Hne Hcnt Hids HF. set (ct := w_ct c) in *.
  pose proof Hok as Hok0.
  cbn [geom_ok] in Hok. apply andb_true_iff in Hok. destruct Hok as [Hct Hoks].
  apply ct_eqb_eq in Hct. subst ct'.
  set (st0 := init_wst (dim ct)).
  destruct (coll_members c gs st0 HF (init_wst_ok _)) as [bs [st [E [Hst [Hlen [Hbb Hpar]]]]]].
  assert (Hidlen : w_hasids c = true -> length (w_ids c) = length gs).
  { intros Hh. exact (Hids Hh Hne). }
  pose proof Hc as [Hc1 [Hc2 [Hc3 Hc4]]].
  destruct (ids_spec c (length gs) 2 ltac:(lia) Hcnt Hc4 Hidlen) as [idb [Eids HparL]].
  assert (Htw : twrite c (GColl ct gs) = Ok (form c 7%N st (count_bytes gs ++ idb ++ bs), st)).
  { rewrite twrite_coll. fold ct. rewrite ct_eqb_refl. cbn [negb]. rewrite Hne, Eids. cbn [bind].
    fold st0. rewrite E. reflexivity. }
  assert (Hbb' : bb_state st = fold_left env_step (gpts ct (GColl ct gs)) None).
  { rewrite Hbb. unfold gpts at 2. cbn [geom_vs]. rewrite map_flat_map. reflexivity. }
  finish_gspec (form c 7%N st (count_bytes gs ++ idb ++ bs)) st Htw Hst Hbb'.
  intros fuel rest a Hf Hlen63. destruct fuel as [|f]; [lia|].
  cbn [rd_geom].
  unfold tolerated, expected_hdr, dec_ids. rewrite Hne. cbn [geom_type kind_of].
  eapply glue; try assumption; try (cbn; lia).
  intros sz.
  cbn [h_kind hdr_of h_empty h_hasids]. rewrite hdr_ct. fold ct.
  rewrite count_bytes_assoc.
  eapply parsesL_bind; [exact HparL| |lia].
  cbn [fst snd]. rewrite <- (app_nil_r bs).
  assert (Hfl : (length bs < f)%nat).
  { unfold form in Hf. rewrite !app_length in Hf. cbn [length] in Hf. lia. }
  assert (H63 : (Z.of_nat (length bs) < two63)%Z).
  { unfold form in Hlen63. rewrite !app_length in Hlen63. cbn [length] in Hlen63. lia. }
  eapply parses_bind.
  - apply (tloop_in_parses (stepf f ct) _ _ _ _ (length gs)); [|lia].
    intros fuel' Hfu. apply Hpar; assumption.
  - cbn [fst snd].
    assert (Hmap : map (tol_child ct) gs = map tol_member gs).
    { apply map_ext_in. intros x Hx. apply tol_child_member.
      apply forallb_Forall in Hoks. rewrite Forall_forall in Hoks. apply Hoks. exact Hx. }
    fold ct. rewrite Hmap.
    assert (Hnil : map tol_member gs <> []) by (destruct gs; [cbn in Hne; discriminate|discriminate]).
    rewrite (new_collection_id ct (map tol_member gs) Hnil).
    + cbn [tol_member]. rewrite Hne. apply parses_ret.
    + apply forallb_Forall. apply Forall_map. apply forallb_Forall in Hoks.
      eapply Forall_impl; [|exact Hoks]. intros x Hx. apply tol_member_ok. exact Hx.
Qed.

(* the induction over nested geometries *)
Lemma ids_ok_sub c x : ids_ok (sub_cfg c) x.
Proof. intros H. cbn in H. discriminate. Qed.

Theorem twrite_gspec : forall (g : zgeom) c,
  cfg_ok c -> geom_ok (Z.eqb 0) (w_ct c) g = true ->
  geom_dom (ring_dom (w_close c)) g = true -> ids_ok c g -> gspec c g.
Proof.
  induction g as [p|l|p|ct' ps|ct' ls|ct' ps|ct' gs IH] using geomT_ind'; intros c Hc Hok Hdom Hids;
    pose proof (proj2 (force_geom_id _ _ Hok)) as Hct;
    pose proof Hc as [Hc1 _];
    match goal with |- gspec _ ?g => destruct (is_empty g) eqn:He end;
    try (apply gspec_empty; assumption).
  - apply gspec_point; try assumption.
    destruct (w_hasids c) eqn:Eh; [|reflexivity]. exfalso. exact (Hids Eh He).
  - apply gspec_line; try assumption.
    destruct (w_hasids c) eqn:Eh; [|reflexivity]. exfalso. exact (Hids Eh He).
  - apply gspec_poly; try assumption.
    destruct (w_hasids c) eqn:Eh; [|reflexivity]. exfalso. exact (Hids Eh He).
  - apply gspec_mpoint; assumption.
  - apply gspec_mline; assumption.
  - apply gspec_mpoly; assumption.
  - cbn [geom_dom] in Hdom. apply andb_true_iff in Hdom. destruct Hdom as [Hcnt Hdoms].
    apply gspec_coll; try assumption.
    cbn [geom_ok] in Hok. apply andb_true_iff in Hok. destruct Hok as [_ Hoks].
    apply forallb_Forall in Hoks. apply forallb_Forall in Hdoms.
    rewrite Forall_forall in *. intros x Hx. apply IH; [exact Hx|apply sub_cfg_ok; exact Hc| | |apply ids_ok_sub].
    + apply Hoks. exact Hx.
    + apply Hdoms. exact Hx.
Qed.

(* ---- from MarshalTWKB's options to the writer ---- *)
Definition cfg_of (o : topts) (g : zgeom) : wcfg :=
  let ct := geom_ct g in
  {| w_hasz := has_z ct; w_hasm := has_m ct; w_pxy := o_pxy o;
     w_pz := if has_z ct then match o_pz o with Some z => z | None => o_pxy o end else 0%Z;
     w_pm := if has_m ct then match o_pm o with Some m => m | None => o_pxy o end else 0%Z;
     w_size := o_size o; w_bbox := o_bbox o; w_close := o_close o; w_ids := o_ids o |}.

Lemma cfg_of_ct o g : w_ct (cfg_of o g) = geom_ct g.
Proof. unfold w_ct, cfg_of. cbn. apply mk_ct_eta. Qed.

Lemma prec_bad_false lo p : prec_bad lo p = false -> (lo <= p <= 7)%Z.
Proof. unfold prec_bad. intros H. apply orb_false_iff in H. lia. Qed.

(* a non-empty geometry of the domain has a vertex *)
Lemma nonempty_has_vs rp : (forall l, rp l = true -> line_vs l <> []) ->
  forall g : zgeom, geom_dom rp g = true -> is_empty g = false -> geom_vs g <> [].
Proof.
  intros Hrp.
  assert (Hfm : forall {A} (e : A -> bool) (vs : A -> list (vtx Z)) l,
             (forall x, In x l -> e x = false -> vs x <> []) -> forallb e l = false -> flat_map vs l <> []).
  { intros A e vs l H. induction l as [|x l IH]; cbn [forallb flat_map]; intros Hl; [discriminate|].
    destruct (e x) eqn:Ex.
    - cbn [andb] in Hl. intros E. apply app_eq_nil in E. destruct E as [_ E]. revert E.
      apply IH; [intros y Hy; apply H; right; exact Hy|exact Hl].
    - intros E. apply app_eq_nil in E. destruct E as [E _]. revert E. apply H; [left; reflexivity|exact Ex]. }
  assert (Hpoly : forall p : polyT Z, poly_dom rp p = true -> poly_empty p = false -> poly_vs p <> []).
  { intros [c' rs] Hd He. unfold poly_dom in Hd. cbn [poly_rings] in Hd.
    apply andb_true_iff in Hd. destruct Hd as [_ Hd]. unfold poly_vs. cbn [poly_rings].
    destruct rs as [|r rs]; [cbn in He; discriminate|]. cbn [flat_map forallb] in *.
    apply andb_true_iff in Hd. destruct Hd as [Hr _]. intros E. apply app_eq_nil in E.
    destruct E as [E _]. exact (Hrp r Hr E). }
  induction g as [p|l|p|c ps|c ls|c ps|c gs IH] using geomT_ind'; cbn [is_empty geom_vs geom_dom]; intros Hd He.
  - destruct p as [c' [v|]]; cbn in *; [discriminate|discriminate].
  - destruct l as [c' [|v vs]]; cbn in *; [discriminate|discriminate].
  - apply Hpoly; assumption.
  - apply (Hfm _ (@point_empty Z)); [|exact He]. intros [c' [v|]] _; cbn; [discriminate|discriminate].
  - apply (Hfm _ (@line_empty Z)); [|exact He]. intros [c' [|v vs]] _; cbn; [discriminate|discriminate].
  - apply andb_true_iff in Hd. destruct Hd as [_ Hd].
    apply (Hfm _ (@poly_empty Z)); [|exact He]. intros p Hp Hpe. apply Hpoly; [|exact Hpe].
    apply forallb_Forall in Hd. rewrite Forall_forall in Hd. apply Hd. exact Hp.
  - apply andb_true_iff in Hd. destruct Hd as [_ Hd].
    apply (Hfm _ (@is_empty Z)); [|exact He]. intros x Hx Hxe.
    rewrite Forall_forall in IH. apply IH; [exact Hx| |exact Hxe].
    apply forallb_Forall in Hd. rewrite Forall_forall in Hd. apply Hd. exact Hx.
Qed.

Lemma ring_dom_nonempty close l : ring_dom close l = true -> line_vs l <> [].
Proof.
  unfold ring_dom. intros H. apply andb_true_iff in H. destruct H as [_ H].
  destruct (line_vs l); [discriminate|discriminate].
Qed.

Lemma fold_env_some l : l <> [] -> forall A, exists mm, fold_left env_step l A = Some mm.
Proof.
  induction l as [|p l IH]; intros Hne A; [congruence|]. cbn [fold_left].
  destruct l as [|q l].
  - cbn [fold_left]. destruct A; cbn [env_step]; eexists; reflexivity.
  - apply IH. discriminate.
Qed.

Lemma bbox_pairs_raw mm : Forall i64pair mm -> bbox_pairs (length mm) (raw_bbox mm) = Ok mm.
Proof.
  induction 1 as [|m mm [H1 [H2 H3]] HF IH]; [reflexivity|].
  cbn [length raw_bbox flat_map app bbox_pairs]. fold (raw_bbox mm). rewrite IH. cbn [bind].
  destruct m as [mn mx]. cbn [fst snd] in *. rewrite wrap64_delta by exact H2.
  f_equal. f_equal. f_equal; lia.
Qed.

Lemma opts_cfg_ok o g : opts_dom o g = true -> cfg_ok (cfg_of o g) /\ ids_ok (cfg_of o g) g /\
  match o_ids o, geom_type g with
  | _ :: _, (TPoint | TLine | TPoly) => true
  | _, _ => false
  end = false /\
  match o_ids o with
  | [] => false
  | ids => negb (Nat.eqb (member_count g) (length ids))
  end = false.
Proof.
  unfold opts_dom. intros H.
  apply andb_true_iff in H. destruct H as [H Hm].
  apply andb_true_iff in H. destruct H as [H Hi].
  apply andb_true_iff in H. destruct H as [H Hpm].
  apply andb_true_iff in H. destruct H as [Hpxy Hpz].
  apply negb_true_iff in Hpxy, Hpz, Hpm.
  apply prec_bad_false in Hpxy, Hpz, Hpm. unfold prec_of in *.
  split; [|split; [|split]].
  - unfold cfg_ok, cfg_of. cbn [w_pxy w_pz w_pm w_ids]. repeat split; try lia.
    apply forallb_Forall in Hi. eapply Forall_impl; [|exact Hi]. intros x Hx. apply in_i64b_iff. exact Hx.
  - unfold ids_ok, cfg_of, w_hasids. cbn [w_ids]. intros Hh He.
    destruct (o_ids o) as [|i ids]; [discriminate|].
    destruct g; try discriminate; cbn [member_count] in Hm; apply Nat.eqb_eq in Hm; symmetry; exact Hm.
  - destruct (o_ids o) as [|i ids]; [reflexivity|]. destruct g; try discriminate; reflexivity.
  - destruct (o_ids o) as [|i ids]; [reflexivity|]. destruct g; try discriminate; rewrite Hm; reflexivity.
Qed.

Lemma info_expected o g st len :
  opts_dom o g = true -> geom_dom (ring_dom (o_close o)) g = true ->
  bb_state st = fold_left env_step (gpts (geom_ct g) g) None ->
  info_of (expected_hdr (cfg_of o g) g st len) (dec_ids (cfg_of o g) g) = expected_info o g len.
Proof.
  intros Ho Hd Hbb. unfold expected_hdr, expected_info, dec_ids.
  destruct (is_empty g) eqn:He.
  - unfold info_of, empty_hdr. cbn. reflexivity.
  - unfold info_of, hdr_of, h_ct. cbn [h_kind h_pxy h_hasz h_hasm h_pz h_pm h_empty h_hassize h_size
                                      h_hasbbox h_bbox h_hasids cfg_of w_hasz w_hasm w_pxy w_pz w_pm
                                      w_size w_bbox w_ids].
    rewrite mk_ct_eta.
    f_equal; try (destruct (has_z (geom_ct g)); reflexivity);
      try (destruct (has_m (geom_ct g)); reflexivity); try (destruct (o_size o); reflexivity).
    + destruct (o_bbox o); [|reflexivity].
      assert (Hne : gpts (geom_ct g) g <> []).
      { unfold gpts. intros E. apply map_eq_nil in E. revert E.
        apply (nonempty_has_vs (ring_dom (o_close o))); [apply ring_dom_nonempty|exact Hd|exact He]. }
      destruct (fold_env_some _ Hne None) as [mm Emm].
      unfold env_of, geom_pts. unfold gpts in *. rewrite Emm in *.
      unfold bb_state in Hbb. destruct (ws_valid st); [|discriminate]. inversion Hbb; subst mm.
      reflexivity.
    + destruct (opts_cfg_ok o g Ho) as [_ [_ [Hm _]]].
      unfold w_hasids, cfg_of. cbn [w_ids]. destruct (o_ids o) as [|i ids] eqn:Ei; [reflexivity|].
      destruct g; cbn [geom_type] in Hm; try discriminate; reflexivity.
Qed.

Theorem twkb_roundtrip_lemma o g :
  wf_twkb o g = true ->
  exists b, tmarshal o g = Ok b /\
    ((Z.of_nat (length b) < two63)%Z ->
     tdec b = Ok (tolerated g, expected_info o g (length b))).
Proof.
  unfold wf_twkb. intros H.
  apply andb_true_iff in H. destruct H as [H Ho].
  apply andb_true_iff in H. destruct H as [Hcons Hd].
  destruct (opts_cfg_ok o g Ho) as [Hc [Hids [Hm Hm2]]].
  unfold consistent in Hcons.
  assert (Hok : geom_ok (Z.eqb 0) (w_ct (cfg_of o g)) g = true) by (rewrite cfg_of_ct; exact Hcons).
  assert (Hd' : geom_dom (ring_dom (w_close (cfg_of o g))) g = true) by exact Hd.
  destruct (twrite_gspec g (cfg_of o g) Hc Hok Hd' Hids) as [doc [st [E [Hst [Hl [Hbb Hdec]]]]]].
  exists doc. split.
  - unfold tmarshal. destruct Hc as [Hc1 [Hc2 [Hc3 _]]]. cbn [cfg_of w_pxy w_pz w_pm] in Hc1, Hc2, Hc3.
    assert (Hp : prec_bad (-8) (o_pxy o) = false) by (unfold prec_bad; lia).
    rewrite Hp. cbn [orb].
    match goal with |- (if prec_bad 0 ?a || prec_bad 0 ?b then _ else _) = _ =>
      assert (Hp2 : prec_bad 0 a = false) by (unfold prec_bad; lia);
      assert (Hp3 : prec_bad 0 b = false) by (unfold prec_bad; lia) end.
    rewrite Hp2, Hp3. cbn [orb]. rewrite Hm, Hm2.
    change (twrite _ g) with (twrite (cfg_of o g) g). rewrite E. reflexivity.
  - intros H63. unfold tdec, tdec_full, dec_full.
    destruct (Hdec (S (length doc)) [] 0%N ltac:(lia) H63) as [a' Ed].
    rewrite app_nil_r in Ed. rewrite Ed.
    rewrite cfg_of_ct in Hbb. rewrite (info_expected o g st (length doc) Ho Hd Hbb). reflexivity.
Qed.

(* ---- header-only readers agree with the full decode, for every byte string ---- *)
Definition env_view (i : tinfo) : outcome (option (ctype * list (Z * Z))) :=
  match i_bbox i with
  | None => Ok None
  | Some l => do ps <- bbox_pairs (dim (i_ct i)) l; Ok (Some (i_ct i, ps))
  end.

Lemma tbind_ok {A B} (m : TP A) (f : A -> TP B) s b s' :
  tbind m f s = TOk b s' -> exists a s1, m s = TOk a s1 /\ f a s1 = TOk b s'.
Proof. unfold tbind. destruct (m s) as [a s1| |]; try discriminate. eauto. Qed.

Lemma count_ids_inv hasids k s n ids s' :
  count_and_ids hasids k s = TOk (n, ids) s' ->
  if hasids then exists cnt s1 s2, rd_uv s = TOk cnt s1 /\ parse_ids cnt s1 = TOk ids s2
  else ids = [].
Proof.
  unfold count_and_ids. intros H.
  apply tbind_ok in H. destruct H as [cnt [s1 [E1 H]]].
  apply tbind_ok in H. destruct H as [ids' [s2 [E2 H]]].
  apply tbind_ok in H. destruct H as [u [s3 [E3 H]]].
  unfold tret in H. inversion H; subst.
  destruct hasids.
  - exists cnt, s1, s2. split; assumption.
  - unfold tret in E2. inversion E2. reflexivity.
Qed.

Lemma rd_geom_inv f s g h ids s' :
  zrd_geom (S f) s = TOk (g, h, ids) s' ->
  exists s1, parse_headers s = TOk h s1 /\
    (h_empty h = false -> (4 <= h_kind h)%N -> h_hasids h = true ->
     exists cnt s2 s3, rd_uv s1 = TOk cnt s2 /\ parse_ids cnt s2 = TOk ids s3) /\
    (h_hasids h = false -> ids = []).
Proof.
  cbn [rd_geom]. intros H. apply tbind_ok in H. destruct H as [h0 [s1 [E1 H]]].
  assert (Hmulti : forall {A} k (step : list Z -> TP (A * list Z)) (mk : list A -> zgeom) ref,
    (doT ci <- count_and_ids (h_hasids h0) k;
     doT r <- tloop_in (fst ci) step ref; tret (mk (fst r), h0, snd ci)) s1 = TOk (g, h, ids) s' ->
    h = h0 /\ (if h_hasids h0 then exists cnt s2 s3, rd_uv s1 = TOk cnt s2 /\ parse_ids cnt s2 = TOk ids s3
               else ids = [])).
  { intros A k step mk ref Hm. apply tbind_ok in Hm. destruct Hm as [[n ids'] [s2 [E2 Hm]]].
    apply tbind_ok in Hm. destruct Hm as [r [s3 [E3 Hm]]]. unfold tret in Hm. inversion Hm; subst.
    split; [reflexivity|]. cbn [snd]. exact (count_ids_inv _ _ _ _ _ _ E2). }
  assert (Hsingle : forall {A} (p : TP (A * list Z)) (mk : A * list Z -> zgeom),
    (doT r <- p; tret (mk r, h0, @nil Z)) s1 = TOk (g, h, ids) s' -> h = h0 /\ ids = []).
  { intros A p mk Hm. apply tbind_ok in Hm. destruct Hm as [r [s2 [E2 Hm]]]. unfold tret in Hm.
    inversion Hm; subst. split; reflexivity. }
  assert (Hfin : (h = h0 /\ ids = [] /\ (h_empty h0 = true \/ (h_kind h0 < 4)%N)) \/
                 (h = h0 /\ h_empty h0 = false /\
                  (if h_hasids h0 then exists cnt s2 s3, rd_uv s1 = TOk cnt s2 /\ parse_ids cnt s2 = TOk ids s3
                   else ids = []))).
  { destruct (h_kind h0) as [|[[[|[]|]|[|[]|]|]|[[|[]|]|[|[]|]|]|]] eqn:Ek; try discriminate;
      destruct (h_empty h0) eqn:Eemp;
      try (unfold tret in H; inversion H; subst; left; split; [reflexivity|split; [reflexivity|left; reflexivity]]);
      try (left; destruct (Hsingle _ _ _ H) as [Hh Hi]; split; [exact Hh|split; [exact Hi|right; lia]]);
      try (right; destruct (Hmulti _ _ _ _ _ H) as [Hh Hi]; split; [exact Hh|split; [reflexivity|exact Hi]]). }
  exists s1. destruct Hfin as [[-> [-> Hc]]|[-> [Hemp Hi]]].
  - split; [exact E1|]. split; [|intros _; reflexivity].
    intros Hne Hk Hid. exfalso. destruct Hc as [Hc|Hc]; [congruence|lia].
  - split; [exact E1|]. split.
    + intros _ _ Hid. rewrite Hid in Hi. exact Hi.
    + intros Hid. rewrite Hid in Hi. exact Hi.
Qed.

Theorem twkb_header_readers_agree_lemma b g i :
  tdec b = Ok (g, i) ->
  tread_size b = Ok (i_size i) /\ tread_env b = env_view i /\
  (i_empty i = false -> (4 <= i_kind i)%N -> tread_ids b = Ok (i_ids i)).
Proof.
  unfold tdec, tdec_full, dec_full. intros H.
  destruct (zrd_geom (S (length b)) _) as [[[g' h] ids] s'| |] eqn:E; try discriminate.
  inversion H; subst g' i. clear H.
  destruct (rd_geom_inv _ _ _ _ _ _ E) as [s1 [Eh [Hids Hnoids]]].
  repeat split.
  - unfold tread_size, run, tbind. rewrite Eh. reflexivity.
  - unfold tread_env, run, tbind, env_view, info_of. cbn [i_bbox i_ct]. rewrite Eh.
    destruct (h_hasbbox h); [|reflexivity].
    unfold tlift. destruct (bbox_pairs (dim (h_ct h)) (h_bbox h)); reflexivity.
  - unfold info_of. cbn [i_empty i_kind i_ids]. intros Hne Hk.
    unfold tread_ids, run, tbind. rewrite Eh.
    destruct (h_hasids h) eqn:Ehi; [|reflexivity].
    destruct (Hids Hne Hk eq_refl) as [cnt [s2 [s3 [E1 E2]]]]. rewrite E1, E2. reflexivity.
Qed.

(* ---- truth of the headers on the writer's output ---- *)
Theorem twkb_headers_lemma o g b :
  wf_twkb o g = true -> tmarshal o g = Ok b -> (Z.of_nat (length b) < two63)%Z ->
  let i := expected_info o g (length b) in
  tread_size b = Ok (i_size i) /\ tread_env b = env_view i /\
  (is_empty g = false -> match g with GMPoint _ _ | GMLine _ _ | GMPoly _ _ | GColl _ _ => True | _ => False end ->
   tread_ids b = Ok (i_ids i)).
Proof.
  intros Hwf Hm H63 i.
  destruct (twkb_roundtrip_lemma o g Hwf) as [b' [Hm' Hdec]]. rewrite Hm in Hm'. inversion Hm'; subst b'.
  destruct (twkb_header_readers_agree_lemma b _ _ (Hdec H63)) as [H1 [H2 H3]].
  split; [exact H1|]. split; [exact H2|].
  intros He Hk. apply H3.
  - unfold i, expected_info. rewrite He. reflexivity.
  - unfold i, expected_info. rewrite He. cbn [i_kind]. destruct g; try contradiction; cbn; lia.
Qed.

(* size header = number of bytes of the whole document; bbox header = envelope and Z/M ranges *)
Corollary twkb_size_header_lemma o g b :
  wf_twkb o g = true -> tmarshal o g = Ok b -> (Z.of_nat (length b) < two63)%Z ->
  o_size o = true -> is_empty g = false -> tread_size b = Ok (Some (Z.of_nat (length b))).
Proof.
  intros Hwf Hm H63 Hs He. destruct (twkb_headers_lemma o g b Hwf Hm H63) as [H _].
  rewrite H. unfold expected_info. rewrite He, Hs. reflexivity.
Qed.

Lemma fold_env_inv d l : forall A, env_len d A ->
  match A with None => True | Some mm => Forall i64pair mm end ->
  Forall (pt_ok d) l ->
  match fold_left env_step l A with None => True | Some mm => Forall i64pair mm /\ length mm = d end.
Proof.
  induction l as [|p l IH]; intros A HA HI Hl; cbn [fold_left].
  - destruct A; [split; assumption|exact I].
  - inversion Hl as [|? ? [Hp1 Hp2] Hl']; subst. apply IH; [apply env_step_len; auto| |exact Hl'].
    destruct A as [mm|]; cbn [env_step].
    + cbn [env_len] in HA. clear IH Hl Hl'. revert p HA Hp2. induction HI as [|m mm [M1 [M2 M3]] HF IHm]; intros [|v p] HA Hp2;
        cbn [combine map]; constructor.
      * inversion Hp2; subst. unfold i64pair, in_i64 in *. cbn [fst snd]. lia.
      * apply IHm; [cbn [length] in HA; lia|inversion Hp2; assumption].
    + clear IH Hl Hl'. induction Hp2 as [|v p Hv HF IHp]; cbn [map]; constructor; auto.
      unfold i64pair, in_i64 in *. cbn [fst snd]. lia.
Qed.

Lemma geom_dom_vs rp : (forall l, rp l = true -> line_dom l = true) ->
  forall g : zgeom, geom_dom rp g = true -> Forall (fun v => vtx_i64 v = true) (geom_vs g).
Proof.
  intros Hrp.
  assert (Hfm : forall {A} (vs : A -> list (vtx Z)) l,
             Forall (fun x => Forall (fun v => vtx_i64 v = true) (vs x)) l ->
             Forall (fun v => vtx_i64 v = true) (flat_map vs l)).
  { intros A vs l H. induction H as [|x l Hx HF IH]; cbn [flat_map]; [constructor|].
    apply Forall_app. split; assumption. }
  assert (Hline : forall l : lineT Z, line_dom l = true -> Forall (fun v => vtx_i64 v = true) (line_vs l)).
  { intros l H. unfold line_dom in H. apply andb_true_iff in H. destruct H as [_ H].
    apply forallb_Forall. exact H. }
  assert (Hpoly : forall p : polyT Z, poly_dom rp p = true -> Forall (fun v => vtx_i64 v = true) (poly_vs p)).
  { intros p H. unfold poly_dom in H. apply andb_true_iff in H. destruct H as [_ H].
    unfold poly_vs. apply Hfm. apply forallb_Forall in H. eapply Forall_impl; [|exact H].
    intros l Hl. apply Hline. apply Hrp. exact Hl. }
  induction g as [p|l|p|c ps|c ls|c ps|c gs IH] using geomT_ind'; cbn [geom_vs geom_dom]; intros Hd.
  - unfold point_vs. destruct (point_c p); [constructor; [exact Hd|constructor]|constructor].
  - apply Hline. exact Hd.
  - apply Hpoly. exact Hd.
  - apply andb_true_iff in Hd. destruct Hd as [_ Hd]. apply Hfm.
    apply orb_true_iff in Hd. destruct Hd as [Hd|Hd]; apply forallb_Forall in Hd;
      (eapply Forall_impl; [|exact Hd]); intros p Hp; unfold point_vs, point_empty in *;
      destruct (point_c p); try discriminate; repeat constructor; assumption.
  - apply andb_true_iff in Hd. destruct Hd as [_ Hd]. apply Hfm. apply forallb_Forall in Hd.
    eapply Forall_impl; [|exact Hd]. intros l Hl. apply Hline. exact Hl.
  - apply andb_true_iff in Hd. destruct Hd as [_ Hd]. apply Hfm. apply forallb_Forall in Hd.
    eapply Forall_impl; [|exact Hd]. intros p Hp. apply Hpoly. exact Hp.
  - apply andb_true_iff in Hd. destruct Hd as [_ Hd]. apply Hfm. apply forallb_Forall in Hd.
    rewrite Forall_forall in *. intros x Hx. apply IH; [exact Hx|apply Hd; exact Hx].
Qed.

Lemma ring_dom_line close l : ring_dom close l = true -> line_dom l = true.
Proof. unfold ring_dom. intros H. apply andb_true_iff in H. apply H. Qed.

(* the bounding-box header is the envelope and the Z/M ranges of the (decoded) integers *)
Theorem twkb_bbox_header_lemma o g b :
  wf_twkb o g = true -> tmarshal o g = Ok b -> (Z.of_nat (length b) < two63)%Z ->
  o_bbox o = true -> is_empty g = false ->
  exists mm, env_of (geom_pts g) = Some mm /\ tread_env b = Ok (Some (geom_ct g, mm)).
Proof.
  intros Hwf Hm H63 Hb He. destruct (twkb_headers_lemma o g b Hwf Hm H63) as [_ [H _]].
  unfold wf_twkb in Hwf. apply andb_true_iff in Hwf. destruct Hwf as [Hwf Ho].
  apply andb_true_iff in Hwf. destruct Hwf as [_ Hd].
  assert (Hne : geom_pts g <> []).
  { unfold geom_pts. intros E. apply map_eq_nil in E. revert E.
    apply (nonempty_has_vs (ring_dom (o_close o))); [apply ring_dom_nonempty|exact Hd|exact He]. }
  destruct (fold_env_some _ Hne None) as [mm Emm]. exists mm. split; [exact Emm|].
  rewrite H. unfold env_view, expected_info. rewrite He, Hb. cbn [i_bbox i_ct].
  unfold env_of in *. rewrite Emm.
  assert (Hpts : Forall (pt_ok (dim (geom_ct g))) (geom_pts g)).
  { unfold geom_pts. apply Forall_map.
    pose proof (geom_dom_vs _ (ring_dom_line (o_close o)) g Hd) as Hv.
    eapply Forall_impl; [|exact Hv]. intros v Hvv. apply vords_pt_ok. exact Hvv. }
  pose proof (fold_env_inv (dim (geom_ct g)) (geom_pts g) None I I Hpts) as Hinv.
  rewrite Emm in Hinv. destruct Hinv as [Hi Hl].
  fold (raw_bbox mm). rewrite <- Hl. rewrite bbox_pairs_raw by exact Hi. reflexivity.
Qed.

(* ---- rejection ---- *)
Lemma wr_ids_mismatch c n : w_hasids c = true -> Nat.eqb n (length (w_ids c)) = false -> wr_ids c n = Err EOther.
Proof. intros H1 H2. unfold wr_ids. rewrite H1, H2. reflexivity. Qed.

Lemma twrite_id_mismatch c g :
  w_hasids c = true -> is_empty g = false ->
  match g with
  | GMPoint _ l => Nat.eqb (length l) (length (w_ids c)) = false
  | GMLine _ l => Nat.eqb (length l) (length (w_ids c)) = false
  | GMPoly _ l => Nat.eqb (length l) (length (w_ids c)) = false
  | GColl _ l => Nat.eqb (length l) (length (w_ids c)) = false
  | _ => False
  end -> exists e, twrite c g = Err e.
Proof.
  intros Hh He Hm. destruct g as [p|l|p|ct ps|ct ls|ct ps|ct gs]; try contradiction.
  - cbn [twrite geom_ct is_empty]. destruct (negb (ct_eqb ct (w_ct c))); [eexists; reflexivity|].
    cbn [is_empty] in He. rewrite He. rewrite (wr_ids_mismatch c _ Hh Hm). eexists; reflexivity.
  - cbn [twrite geom_ct is_empty]. destruct (negb (ct_eqb ct (w_ct c))); [eexists; reflexivity|].
    cbn [is_empty] in He. rewrite He. rewrite (wr_ids_mismatch c _ Hh Hm). eexists; reflexivity.
  - cbn [twrite geom_ct is_empty]. destruct (negb (ct_eqb ct (w_ct c))); [eexists; reflexivity|].
    cbn [is_empty] in He. rewrite He. rewrite (wr_ids_mismatch c _ Hh Hm). eexists; reflexivity.
  - rewrite twrite_coll. destruct (negb (ct_eqb ct (w_ct c))); [eexists; reflexivity|].
    rewrite He. rewrite (wr_ids_mismatch c _ Hh Hm). eexists; reflexivity.
Qed.

Theorem twkb_rejects_lemma o g : must_reject o g = true -> exists e, tmarshal o g = Err e.
Proof.
  unfold must_reject, tmarshal, prec_of. cbv zeta. intros H.
  destruct (prec_bad (-8) (o_pxy o) || _ || _) eqn:Ep; [eexists; reflexivity|].
  cbn [orb] in H.
  destruct (o_ids o) as [|i ids] eqn:Ei; [discriminate|].
  destruct g as [p|l|p|ct ps|ct ls|ct ps|ct gs]; cbn [geom_type]; try (eexists; reflexivity);
    rewrite H; eexists; reflexivity.
Qed.

(* ---- the executable statement is true of the model's own output ---- *)
Lemma list_eqb_refl {A} (f : A -> A -> bool) l : Forall (fun x => f x x = true) l -> list_eqb f l l = true.
Proof. induction 1; cbn [list_eqb]; [reflexivity|]. rewrite H, IHForall. reflexivity. Qed.
Lemma vtx_eqb_refl v : vtx_eqb v v = true.
Proof. apply vtx_eqb_iff. reflexivity. Qed.
Lemma all_refl {A} (f : A -> A -> bool) (l : list A) : (forall x, f x x = true) -> Forall (fun x => f x x = true) l.
Proof. intros H. apply Forall_forall. intros x _. apply H. Qed.
Lemma point_eqb_refl p : point_eqb p p = true.
Proof.
  destruct p as [c [v|]]; unfold point_eqb; cbn [point_ct point_c ovtx_eqb]; rewrite ct_eqb_refl;
    [apply vtx_eqb_refl|reflexivity].
Qed.
Lemma line_eqb_refl l : line_eqb l l = true.
Proof.
  destruct l as [c vs]. unfold line_eqb. cbn [line_ct line_vs]. rewrite ct_eqb_refl.
  apply list_eqb_refl. apply all_refl. apply vtx_eqb_refl.
Qed.
Lemma poly_eqb_refl p : poly_eqb p p = true.
Proof.
  destruct p as [c rs]. unfold poly_eqb. cbn [poly_ct poly_rings]. rewrite ct_eqb_refl.
  apply list_eqb_refl. apply all_refl. apply line_eqb_refl.
Qed.
Lemma geom_eqb_refl : forall g : zgeom, geom_eqb g g = true.
Proof.
  induction g as [p|l|p|c ps|c ls|c ps|c gs IH] using geomT_ind'; cbn [geom_eqb].
  - apply point_eqb_refl.
  - apply line_eqb_refl.
  - apply poly_eqb_refl.
  - rewrite ct_eqb_refl. apply list_eqb_refl. apply all_refl. apply point_eqb_refl.
  - rewrite ct_eqb_refl. apply list_eqb_refl. apply all_refl. apply line_eqb_refl.
  - rewrite ct_eqb_refl. apply list_eqb_refl. apply all_refl. apply poly_eqb_refl.
  - rewrite ct_eqb_refl. cbn [andb]. induction IH as [|x gs Hx HF IHg]; [reflexivity|].
    rewrite Hx, IHg. reflexivity.
Qed.
Lemma oeqb_refl {A} (f : A -> A -> bool) o : (forall x, f x x = true) -> oeqb f o o = true.
Proof. intros H. destruct o; cbn; auto. Qed.
Lemma zlist_eqb_refl (l : list Z) : list_eqb Z.eqb l l = true.
Proof. apply list_eqb_refl. apply all_refl. apply Z.eqb_refl. Qed.
Lemma info_eqb_refl i : info_eqb i i = true.
Proof.
  unfold info_eqb. rewrite N.eqb_refl, Z.eqb_refl, ct_eqb_refl, !N.eqb_refl, eqb_reflx.
  rewrite (oeqb_refl Z.eqb _ Z.eqb_refl), !(oeqb_refl (list_eqb Z.eqb) _ zlist_eqb_refl). reflexivity.
Qed.

(* the executable statement S evaluated by the driver is true of the model's own output *)
Theorem twkb_ok_model_lemma o g b :
  wf_twkb o g = true -> tmarshal o g = Ok b -> (Z.of_nat (length b) < two63)%Z -> twkb_ok o g b = true.
Proof.
  intros Hwf Hm H63. destruct (twkb_roundtrip_lemma o g Hwf) as [b' [Hm' Hd]].
  rewrite Hm in Hm'. inversion Hm'; subst b'. unfold twkb_ok. rewrite (Hd H63).
  rewrite geom_eqb_refl, info_eqb_refl. reflexivity.
Qed.
