(* Property C08, the parts that span all four formats:
   (1) the model ENCODERS never panic on any value (the WKB, WKT and GeoJSON model encoders are
       total functions by their type; the content is the TWKB writer, whose error branches -
       mismatched coordinates type, empty Point in a MultiPoint, scaled ordinate outside int64,
       bad precision, ID list length - are error returns, never panics), hence every value a
       model decoder returns re-encodes in every format without a panic;
   (2) the validation gate of the four Unmarshal* entry points, for an arbitrary validator.
   The sibling models are Model/WKT.v (C05), Model/GeoJSON.v (C06), Model/TWKB.v and
   Model/TWKBQuant.v (C07); their own totality lemmas are cited, not re-proved. Qualified names
   are used throughout because the models reuse identifiers (dec_full, tok, ...). *)
From Coq Require Import NArith ZArith List Bool Lia.
From SF Require Import Base.Outcome Base.Bytes Base.GeomAST Base.Varint.
From SF Require Model.WKB Model.WKT Model.GeoJSON Model.TWKB Model.TWKBQuant.
From SF Require Proofs.WKB_total Proofs.WKT_total Proofs.TWKB_proofs Proofs.TWKBQuant_proofs
                Proofs.GeoJSON_proofs.
Import ListNotations.

Definition np {A} (o : outcome A) : Prop := is_panic o = false.

Lemma np_bind {A B} (m : outcome A) (f : A -> outcome B) :
  np m -> (forall a, np (f a)) -> np (bind m f).
Proof. unfold np. destruct m; cbn [bind is_panic]; intros H1 H2; auto. Qed.

Lemma np_ok {A} (a : A) : np (Ok a). Proof. reflexivity. Qed.
Lemma np_err {A} e : np (@Err A e). Proof. reflexivity. Qed.

(* ------------------------------------------------------------------ the TWKB writer *)
Import TWKB.

Lemma wr_points_np : forall pts st, np (wr_points st pts).
Proof.
  induction pts as [|p r IH]; intros st; cbn [wr_points]; [apply np_ok|].
  destruct (forallb in_i64b p); [|apply np_err].
  destruct (wr_ords _ _ _ _) as [[bs ref'] bb'].
  apply np_bind; [apply IH|]. intros [bs2 st2]. apply np_ok.
Qed.

Lemma wr_line_np ct st l : np (wr_line ct st l).
Proof. unfold wr_line. apply np_bind; [apply wr_points_np|]. intros [bs st']. apply np_ok. Qed.

Lemma wr_ring_np close ct st l : np (wr_ring close ct st l).
Proof. unfold wr_ring. apply np_bind; [apply wr_points_np|]. intros [bs st']. apply np_ok. Qed.

Lemma wr_seq_np {A} (f : wst -> A -> outcome (list N * wst)) :
  (forall st x, np (f st x)) -> forall l st, np (wr_seq f st l).
Proof.
  intros Hf. induction l as [|x r IH]; intros st; cbn [wr_seq]; [apply np_ok|].
  apply np_bind; [apply Hf|]. intros [b1 s1].
  apply np_bind; [apply IH|]. intros [b2 s2]. apply np_ok.
Qed.

Lemma wr_poly_np close ct st p : np (wr_poly close ct st p).
Proof.
  unfold wr_poly. apply np_bind; [apply wr_seq_np; intros; apply wr_ring_np|].
  intros [bs st']. apply np_ok.
Qed.

Lemma wr_ids_np c n : np (wr_ids c n).
Proof.
  unfold wr_ids. destruct (negb (w_hasids c)); [apply np_ok|].
  destruct (negb _); [apply np_err|apply np_ok].
Qed.

Lemma wr_mpoint_member_np ct st p : np (wr_mpoint_member ct st p).
Proof. unfold wr_mpoint_member. destruct (point_c p); [apply wr_points_np|apply np_err]. Qed.

(* twkbWriter.writeGeometry: every branch returns a document or an error *)
Lemma twrite_np : forall g c, np (twrite c g).
Proof.
  induction g as [p|l|p|ct ps|ct ls|ct ps|ct gs IH] using geomT_ind'; intros c;
    cbn [twrite];
    (destruct (negb (ct_eqb _ _)); [apply np_err|]);
    (destruct (is_empty _); [apply np_ok|]).
  - destruct (point_c p); [|apply np_ok].
    apply np_bind; [apply wr_points_np|]. intros [bs st]. apply np_ok.
  - apply np_bind; [apply wr_line_np|]. intros [bs st]. apply np_ok.
  - apply np_bind; [apply wr_poly_np|]. intros [bs st]. apply np_ok.
  - apply np_bind; [apply wr_ids_np|]. intros ids.
    apply np_bind; [apply wr_seq_np; intros; apply wr_mpoint_member_np|]. intros [bs st]. apply np_ok.
  - apply np_bind; [apply wr_ids_np|]. intros ids.
    apply np_bind; [apply wr_seq_np; intros; apply wr_line_np|]. intros [bs st]. apply np_ok.
  - apply np_bind; [apply wr_ids_np|]. intros ids.
    apply np_bind; [apply wr_seq_np; intros; apply wr_poly_np|]. intros [bs st]. apply np_ok.
  - apply np_bind; [apply wr_ids_np|]. intros ids.
    apply np_bind; [|intros [bs st]; apply np_ok].
    generalize (init_wst (dim (w_ct c))). induction IH as [|x r Hx Hr IHr]; intros st; [apply np_ok|].
    apply np_bind; [apply Hx|]. intros [b1 s1].
    apply np_bind; [apply IHr|]. intros [b2 s2]. apply np_ok.
Qed.

(* MarshalTWKB on already quantised ordinates, for every option set and every value *)
Lemma tmarshal_np : forall o g, np (tmarshal o g).
Proof.
  intros o g. unfold tmarshal.
  (* any number of up-front guards "if ... then Err ..." (precisions, ID list on a simple type,
     ID count: fixes F15, F72), then the writer *)
  repeat match goal with |- np (if ?b then Err _ else _) => destruct b; [apply np_err|] end.
  apply np_bind; [apply twrite_np|]. intros [bs st]. apply np_ok.
Qed.

(* ------------------------------------------------------------------ quantisation *)
Import TWKBQuant.

Lemma quant_np p bits : np (quant p bits).
Proof.
  unfold quant. destruct (fdec bits) as [[[s m] e]|]; [|apply np_err].
  destruct (m =? 0)%Z; [apply np_ok|].
  match goal with |- np (let '(n, d) := ?x in _) => destruct x as [n d] end.
  destruct (rne n d) as [[m' e']|]; [|apply np_err].
  destruct (in_i64b _); [apply np_ok|apply np_err].
Qed.

Section LiftNP.
  Variables (A B : Type) (fxy fz fm : A -> outcome B) (zero : B).
  Hypothesis Hxy : forall a, np (fxy a).
  Hypothesis Hz : forall a, np (fz a).
  Hypothesis Hm : forall a, np (fm a).

  Lemma q_vtx_np ct v : np (q_vtx A B fxy fz fm zero ct v).
  Proof.
    unfold q_vtx. apply np_bind; [apply Hxy|intros x]. apply np_bind; [apply Hxy|intros y].
    apply np_bind; [destruct (has_z ct); [apply Hz|apply np_ok]|intros z].
    apply np_bind; [destruct (has_m ct); [apply Hm|apply np_ok]|intros m]. apply np_ok.
  Qed.

  Lemma omapl_np {X Y} (f : X -> outcome Y) : (forall x, np (f x)) -> forall l, np (omapl f l).
  Proof.
    intros Hf. induction l as [|x r IH]; cbn [omapl]; [apply np_ok|].
    apply np_bind; [apply Hf|intros y]. apply np_bind; [apply IH|intros ys]. apply np_ok.
  Qed.

  Lemma q_point_np p : np (q_point A B fxy fz fm zero p).
  Proof.
    destruct p as [ct [v|]]; cbn [q_point]; [|apply np_ok].
    apply np_bind; [apply q_vtx_np|intros v']. apply np_ok.
  Qed.
  Lemma q_line_np l : np (q_line A B fxy fz fm zero l).
  Proof.
    destruct l as [ct vs]; cbn [q_line].
    apply np_bind; [apply omapl_np; intros; apply q_vtx_np|intros vs']. apply np_ok.
  Qed.
  Lemma q_poly_np p : np (q_poly A B fxy fz fm zero p).
  Proof.
    destruct p as [ct rs]; cbn [q_poly].
    apply np_bind; [apply omapl_np; intros; apply q_line_np|intros rs']. apply np_ok.
  Qed.
  Lemma q_geom_np : forall g, np (q_geom A B fxy fz fm zero g).
  Proof.
    induction g as [p|l|p|ct ps|ct ls|ct ps|ct gs IH] using geomT_ind'; cbn [q_geom].
    - apply np_bind; [apply q_point_np|intros]; apply np_ok.
    - apply np_bind; [apply q_line_np|intros]; apply np_ok.
    - apply np_bind; [apply q_poly_np|intros]; apply np_ok.
    - apply np_bind; [apply omapl_np; intros; apply q_point_np|intros]; apply np_ok.
    - apply np_bind; [apply omapl_np; intros; apply q_line_np|intros]; apply np_ok.
    - apply np_bind; [apply omapl_np; intros; apply q_poly_np|intros]; apply np_ok.
    - apply np_bind; [|intros; apply np_ok].
      induction IH as [|x r Hx Hr IHr]; [apply np_ok|].
      apply np_bind; [apply Hx|intros y]. apply np_bind; [apply IHr|intros ys]. apply np_ok.
  Qed.
End LiftNP.

(* MarshalTWKB on floats (quantise, then write), for every option set and every value *)
Lemma marshal_f_np : forall o g, np (marshal_f o g).
Proof.
  intros o g. unfold marshal_f. destruct (_ || _); [apply np_err|].
  apply np_bind; [|intros gi; apply tmarshal_np].
  unfold quant_geom. apply q_geom_np; intros; apply quant_np.
Qed.

(* ------------------------------------------------------------------ re-encoding *)
(* All four model encoders applied to one value. WKB.enc, WKT.append_wkt and GeoJSON.gj_print
   are total functions (no outcome in their type: the Go encoders they transcribe have no
   failing branch on a well-typed value); AppendWKT of a Geometry is an outcome because of the
   zero Geometry (F4); MarshalTWKB is an outcome because of its error returns. *)
Definition reencode_all (o : topts) (g : geomT N)
  : outcome (list N * list WKT.ch * list GeoJSON.tok * list N) :=
  do t <- marshal_f o g;
  do w <- WKT.append_wkt_any [] (WKT.Geo g);
  Ok (WKB.enc g, w, GeoJSON.gj_print g, t).

Lemma reencode_total_lemma : forall o g, is_panic (reencode_all o g) = false.
Proof.
  intros o g. unfold reencode_all. apply np_bind; [apply marshal_f_np|intros t].
  apply np_bind; [reflexivity|intros w]. apply np_ok.
Qed.

(* the default call MarshalTWKB(g, 0) *)
Definition o_default : topts :=
  {| o_pxy := 0; o_pz := None; o_pm := None; o_size := false; o_bbox := false; o_close := false; o_ids := [] |}.

Lemma reencode_after_wkb_lemma : forall o bs g r,
  WKB.dec bs = Ok (g, r) -> is_panic (reencode_all o g) = false.
Proof. intros; apply reencode_total_lemma. Qed.
Lemma reencode_after_wkt_lemma : forall o ts g,
  WKT.parse ts = Ok g -> is_panic (reencode_all o g) = false.
Proof. intros; apply reencode_total_lemma. Qed.
Lemma reencode_after_geojson_lemma : forall o j g,
  GeoJSON.gj_unmarshal j = Ok g -> is_panic (reencode_all o g) = false.
Proof. intros; apply reencode_total_lemma. Qed.
Lemma reencode_after_twkb_lemma : forall o bs g i,
  unmarshal_f bs = Ok (g, i) -> is_panic (reencode_all o g) = false.
Proof. intros; apply reencode_total_lemma. Qed.
(* integer layer: what tdec returns goes back through the writer without a panic *)
Lemma tmarshal_after_tdec_lemma : forall o bs g i,
  tdec bs = Ok (g, i) -> is_panic (tmarshal o g) = false.
Proof. intros; apply tmarshal_np. Qed.

(* ------------------------------------------------------------------ the validation gate *)
(* Unmarshal*(input) without NoValidate = the NoValidate decoder, then Validate *)
Definition gated {G} (validate : G -> bool) (d : outcome G) : outcome G :=
  do g <- d; if validate g then Ok g else Err EValidate.

Lemma gated_exact {G} (validate : G -> bool) (d : outcome G) g :
  gated validate d = Ok g <-> (d = Ok g /\ validate g = true).
Proof.
  unfold gated. destruct d as [g'|e|p]; cbn [bind].
  - destruct (validate g') eqn:V; split.
    + intros E; inversion E; subst; auto.
    + intros [E _]; exact E.
    + discriminate.
    + intros [E V']; inversion E; subst; congruence.
  - split; [discriminate|intros [E _]; discriminate].
  - split; [discriminate|intros [E _]; discriminate].
Qed.

Lemma gated_np {G} (validate : G -> bool) (d : outcome G) :
  is_panic d = false -> is_panic (gated validate d) = false.
Proof. unfold gated. destruct d as [g|e|p]; cbn; auto. intros _. destruct (validate g); auto. Qed.

Section Gates.
  Variable validate : geomT N -> bool.
  (* UnmarshalWKT(s), UnmarshalGeoJSON(doc), UnmarshalTWKB(bytes) without NoValidate *)
  Definition unmarshal_wkt_v (s : list WKT.ch) := gated validate (WKT.unmarshal_wkt s).
  Definition unmarshal_geojson_v (j : GeoJSON.json) := gated validate (GeoJSON.gj_unmarshal j).
  Definition unmarshal_twkb_v (bs : list N) := gated validate (omap fst (unmarshal_f bs)).

  Lemma wkt_gate_lemma : forall s g,
    unmarshal_wkt_v s = Ok g <-> (WKT.unmarshal_wkt s = Ok g /\ validate g = true).
  Proof. intros; apply gated_exact. Qed.
  Lemma geojson_gate_lemma : forall j g,
    unmarshal_geojson_v j = Ok g <-> (GeoJSON.gj_unmarshal j = Ok g /\ validate g = true).
  Proof. intros; apply gated_exact. Qed.
  Lemma twkb_gate_lemma : forall bs g,
    unmarshal_twkb_v bs = Ok g <-> (omap fst (unmarshal_f bs) = Ok g /\ validate g = true).
  Proof. intros; apply gated_exact. Qed.

  Lemma wkt_v_no_panic_lemma : forall s, is_panic (unmarshal_wkt_v s) = false.
  Proof. intros s. apply gated_np. apply WKT_total.unmarshal_wkt_no_panic_lemma. Qed.
  Lemma geojson_v_no_panic_lemma : forall j, is_panic (unmarshal_geojson_v j) = false.
  Proof. intros j. apply gated_np. apply GeoJSON_proofs.gj_unmarshal_no_panic_lemma. Qed.
  Lemma twkb_v_no_panic_lemma : forall bs, is_panic (unmarshal_twkb_v bs) = false.
  Proof.
    intros bs. apply gated_np. pose proof (TWKBQuant_proofs.unmarshal_f_no_panic_lemma bs) as H.
    destruct (unmarshal_f bs) as [[g i]|e|p]; cbn; auto. exfalso. eapply H. reflexivity.
  Qed.
End Gates.

(* ------------------------------------------------------------------ all four decoders at once *)
(* is_panic form of the siblings' statements, so that Props/C08.v reads uniformly *)
Lemma twkb_unmarshal_no_panic_lemma : forall bs, is_panic (unmarshal_f bs) = false.
Proof.
  intros bs. pose proof (TWKBQuant_proofs.unmarshal_f_no_panic_lemma bs) as H.
  destruct (unmarshal_f bs); auto. exfalso. eapply H. reflexivity.
Qed.
Lemma tdec_is_panic_lemma : forall bs, is_panic (tdec bs) = false.
Proof.
  intros bs. pose proof (TWKB_proofs.tdec_no_panic_lemma bs) as H.
  destruct (tdec bs); auto. exfalso. eapply H. reflexivity.
Qed.
