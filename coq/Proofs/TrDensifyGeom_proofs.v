(* Property C17 - Densify lifted to whole geometries (Model/TrDensify.v:dens_geom). *)
From Coq Require Import ZArith QArith Qround Qfield Lqa List Bool Lia.
From SF Require Import Base.Outcome Base.GeomAST Model.TrCommon Model.TrDensify Model.TrJudge Proofs.TrDensify_proofs.
Import ListNotations.

Section DG.
  Variable kf : qv -> qv -> Z.
  Variable d : Q.
  Hypothesis d_pos : 0 < d.

  Definition line_dens (l l' : lineT Q) : Prop :=
    line_ct l' = line_ct l /\ line_vs l' = densify_seq kf (line_vs l).

  Lemma omapl_ok {A B} (f : A -> outcome B) (R : A -> B -> Prop) (l : list A) :
    (forall x, exists y, f x = Ok y /\ R x y) -> exists l', omapl f l = Ok l' /\ Forall2 R l l'.
  Proof.
    intros H. induction l as [|x r (r' & E & F)]; simpl.
    - exists []. split; auto.
    - destruct (H x) as (y & Ey & Ry). rewrite Ey, E. exists (y :: r'). split; auto.
  Qed.

  Lemma dens_line_rel l : exists l', dens_line kf d l = Ok l' /\ line_dens l l'.
  Proof.
    destruct (dens_line_ok kf d l d_pos) as (l' & E). exists l'. split; auto.
    split; [eapply dens_line_ct | eapply dens_line_vs]; eauto.
  Qed.

  Definition poly_dens (p p' : polyT Q) : Prop :=
    poly_ct p' = poly_ct p /\ Forall2 line_dens (poly_rings p) (poly_rings p').
  Lemma dens_poly_rel p : exists p', dens_poly kf d p = Ok p' /\ poly_dens p p'.
  Proof.
    destruct p as [ct rs]. unfold dens_poly.
    destruct (omapl_ok (dens_line kf d) line_dens rs dens_line_rel) as (rs' & E & F).
    rewrite E. exists (MkPoly ct rs'). split; auto. split; auto.
  Qed.

  Lemma Forall2_flat_map {A B C D} (R : A -> B -> Prop) (S : C -> D -> Prop) f g l l' :
    (forall x y, R x y -> Forall2 S (f x) (g y)) -> Forall2 R l l' -> Forall2 S (flat_map f l) (flat_map g l').
  Proof. intros H. induction 1; simpl; auto. apply Forall2_app; auto. Qed.

  (* geometry level: d > 0 never panics, keeps type, coordinates type and structure, and every
     line / ring of the result is the densified line / ring of the input, in order *)
  Theorem dens_geom_rel (g : geomT Q) :
    exists g', dens_geom kf d g = Ok g' /\ geom_type g' = geom_type g /\ geom_ct g' = geom_ct g
               /\ Forall2 line_dens (geom_lines g) (geom_lines g').
  Proof.
    assert (Qle_bool d 0 = false) as DN.
    { destruct (Qle_bool d 0) eqn:E; auto. apply Qle_bool_iff in E. lra. }
    induction g using geomT_ind'; simpl.
    - rewrite DN. exists (GPoint p). split; [reflexivity|]. split; [reflexivity|]. split; [reflexivity|constructor].
    - destruct (dens_line_rel l) as (l' & E & R). rewrite E. exists (GLine l').
      split; [reflexivity|]. split; [reflexivity|]. split; [exact (proj1 R)|].
      simpl. constructor; [exact R | constructor].
    - destruct (dens_poly_rel p) as (p' & E & R1 & R2). rewrite E. exists (GPoly p').
      split; [reflexivity|]. split; [reflexivity|]. split; [exact R1 | exact R2].
    - rewrite DN. exists (GMPoint ct ps). split; [reflexivity|]. split; [reflexivity|]. split; [reflexivity|constructor].
    - destruct (omapl_ok (dens_line kf d) line_dens ls dens_line_rel) as (r & E & F).
      rewrite E. exists (GMLine ct r). split; [reflexivity|]. split; [reflexivity|]. split; [reflexivity|exact F].
    - destruct (omapl_ok (dens_poly kf d) poly_dens ps dens_poly_rel) as (r & E & F).
      rewrite E. exists (GMPoly ct r). split; [reflexivity|]. split; [reflexivity|]. split; [reflexivity|].
      simpl. apply (Forall2_flat_map poly_dens line_dens); auto. intros x y [_ Hxy]. exact Hxy.
    - match goal with |- exists g', match ?X with _ => _ end = _ /\ _ =>
        assert (exists r, X = Ok r /\ Forall2 (fun x y => geom_type y = geom_type x /\ geom_ct y = geom_ct x
                                                 /\ Forall2 line_dens (geom_lines x) (geom_lines y)) gs r) as (r & E & F) end.
      { induction H as [|x rest (y & Ey & Ty & Cy & Ly) Hr (r & Er & Fr)].
        - exists []. split; auto.
        - rewrite Ey, Er. exists (y :: r). split; auto. }
      rewrite E. exists (GColl ct r). split; [reflexivity|]. split; [reflexivity|]. split; [reflexivity|].
      simpl. apply (Forall2_flat_map _ line_dens _ _ _ _ (fun x y H => proj2 (proj2 H)) F).
  Qed.
End DG.
