(* Property C17 - lemmas about Densify (Model/TrDensify.v). *)
From Coq Require Import ZArith QArith Qround Qfield Lqa List Bool Lia.
From SF Require Import Base.Outcome Base.GeomAST Model.TrCommon Model.TrForce Model.TrDensify
  Proofs.TrReverse_proofs Proofs.TrForce_proofs Proofs.TrSimplify_proofs.
Import ListNotations.

(* ---- lerp: every branch is a + t*(b-a) in exact arithmetic ---- *)
Lemma Qle_bool_false' (a b : Q) : Qle_bool a b = false -> b < a.
Proof. intros H. apply Qnot_le_lt. intros L. apply Qle_bool_iff in L. congruence. Qed.

Lemma Qmaxq_r (b x : Q) : b <= x -> Qmaxq b x == x.
Proof.
  intros H. unfold Qmaxq. destruct (Qle_bool b x) eqn:E; [reflexivity|].
  apply Qle_bool_false' in E. lra.
Qed.
Lemma Qminq_r (b x : Q) : x <= b -> Qminq b x == x.
Proof.
  intros H. unfold Qminq. destruct (Qle_bool b x) eqn:E; [|reflexivity].
  apply Qle_bool_iff in E. lra.
Qed.

Theorem lerpQ_exact (a b t : Q) : lerpQ a b t == a + t * (b - a).
Proof.
  unfold lerpQ.
  destruct ((Qle_bool a 0 && Qle_bool 0 b) || (Qle_bool 0 a && Qle_bool b 0)); [ring|].
  destruct (Qeq_bool t 1) eqn:T1.
  - apply Qeq_bool_iff in T1. rewrite T1. ring.
  - destruct (Qle_bool t 1) eqn:LT, (Qle_bool b a) eqn:LB; simpl.
    + apply Qle_bool_iff in LT, LB. apply Qmaxq_r. nra.
    + apply Qle_bool_iff in LT. apply Qle_bool_false' in LB. apply Qminq_r. nra.
    + apply Qle_bool_false' in LT. apply Qle_bool_iff in LB. apply Qminq_r. nra.
    + apply Qle_bool_false' in LT, LB. apply Qmaxq_r. nra.
Qed.

(* p is the point of parameter s on the segment a -> b, in all four ordinates *)
Definition param_pt (a b : qv) (s : Q) (p : qv) : Prop :=
  vx p == vx a + s * (vx b - vx a) /\ vy p == vy a + s * (vy b - vy a)
  /\ vz p == vz a + s * (vz b - vz a) /\ vm p == vm a + s * (vm b - vm a).

Lemma interp_coords_param (a b : qv) (s : Q) : param_pt a b s (interp_coords a b s).
Proof. unfold param_pt, interp_coords; simpl. repeat split; apply lerpQ_exact. Qed.

Lemma param_pt_0 (a b : qv) : param_pt a b 0 a.
Proof. unfold param_pt. repeat split; ring. Qed.

(* ---- the inserted points ---- *)
Lemma inserted_length c0 c1 k j cnt : length (inserted c0 c1 k j cnt) = cnt.
Proof. revert j; induction cnt; intros; simpl; auto. Qed.

Lemma inserted_nth c0 c1 k : forall cnt j i p,
  nth_error (inserted c0 c1 k j cnt) i = Some p ->
  (i < cnt)%nat /\ p = interp_coords c0 c1 (inject_Z (Z.of_nat (j + i)) / inject_Z k).
Proof.
  induction cnt as [|c IH]; intros j i p H; simpl in H.
  - destruct i; discriminate.
  - destruct i as [|i']; simpl in H.
    + inversion H; subst. split; [lia|]. now rewrite Nat.add_0_r.
    + apply IH in H as [H1 H2]. split; [lia|]. rewrite H2.
      replace (S j + i')%nat with (j + S i')%nat by lia. reflexivity.
Qed.

Section DensProofs.
  Variable kf : qv -> qv -> Z.

  Lemma densify_seq_head b r : exists t, densify_seq kf (b :: r) = b :: t.
  Proof. destruct r; simpl; eauto. Qed.

  (* ---- originals kept, in order ---- *)
  Theorem densify_keeps_originals_lemma (vs : list qv) : Subseq vs (densify_seq kf vs).
  Proof.
    induction vs as [|a r IH]; [constructor|].
    destruct r as [|b r']; [apply Subseq_refl|].
    change (densify_seq kf (a :: b :: r')) with
      (a :: inserted a b (kf a b) 1 (Z.to_nat (kf a b - 1)) ++ densify_seq kf (b :: r')).
    constructor. now apply Subseq_app_l.
  Qed.

  (* ---- structure: between two consecutive originals a, b exactly kf a b - 1 points, the j-th at
     parameter j / kf a b ---- *)
  Definition on_seg (a b : qv) (k : Z) (ins : list qv) : Prop :=
    length ins = Z.to_nat (k - 1)
    /\ forall i p, nth_error ins i = Some p ->
         (0 < Z.of_nat (S i) < k)%Z /\ param_pt a b (inject_Z (Z.of_nat (S i)) / inject_Z k) p.

  Inductive DensRel : list qv -> list qv -> Prop :=
  | DR_nil : DensRel [] []
  | DR_one : forall a, DensRel [a] [a]
  | DR_step : forall a b r ins out,
      on_seg a b (kf a b) ins -> DensRel (b :: r) (b :: out) ->
      DensRel (a :: b :: r) (a :: ins ++ b :: out).

  Lemma inserted_on_seg a b k : on_seg a b k (inserted a b k 1 (Z.to_nat (k - 1))).
  Proof.
    split; [apply inserted_length|].
    intros i p H. apply inserted_nth in H as [H1 H2]. split; [lia|].
    rewrite H2. change (1 + i)%nat with (S i). apply interp_coords_param.
  Qed.

  Theorem densify_rel (vs : list qv) : DensRel vs (densify_seq kf vs).
  Proof.
    induction vs as [|a r IH]; [constructor|].
    destruct r as [|b r']; [constructor|].
    change (densify_seq kf (a :: b :: r')) with
      (a :: inserted a b (kf a b) 1 (Z.to_nat (kf a b - 1)) ++ densify_seq kf (b :: r')).
    destruct (densify_seq_head b r') as (t & E). rewrite E in *.
    constructor; auto. apply inserted_on_seg.
  Qed.

  (* ---- gaps ---- *)
  Variable d : Q.
  Hypothesis d_pos : 0 < d.
  Hypothesis kf_ok : forall a b, (0 <= kf a b)%Z /\ d2 a b <= inject_Z (kf a b) * inject_Z (kf a b) * (d * d).

  Definition gap_le (s : qv * qv) : Prop := d2 (fst s) (snd s) <= d * d.

  Lemma line_segs_app_cons (l : list qv) b rest :
    line_segs (l ++ b :: rest) = line_segs (l ++ [b]) ++ line_segs (b :: rest).
  Proof.
    induction l as [|x l IH]; [reflexivity|].
    destruct l as [|y l']; [reflexivity|].
    change ((x :: y :: l') ++ b :: rest) with (x :: (y :: l') ++ b :: rest).
    change ((x :: y :: l') ++ [b]) with (x :: (y :: l') ++ [b]).
    simpl line_segs at 1. simpl line_segs at 2.
    simpl in IH. rewrite IH. reflexivity.
  Qed.

  Lemma d2_param (a b p q : qv) (s u : Q) :
    vx p == vx a + s * (vx b - vx a) -> vy p == vy a + s * (vy b - vy a) ->
    vx q == vx a + u * (vx b - vx a) -> vy q == vy a + u * (vy b - vy a) ->
    d2 p q == (u - s) * (u - s) * d2 a b.
  Proof. intros A B C D. unfold d2. rewrite A, B, C, D. ring. Qed.

  Lemma step_gap (L K : Q) : 0 < K -> L <= K * K * (d * d) -> (1 / K) * (1 / K) * L <= d * d.
  Proof.
    intros HK HL.
    assert (0 < 1 / K) as U by (apply Qlt_shift_div_l; lra).
    assert ((1 / K) * K == 1) as E by (field; lra).
    set (u := 1 / K) in *.
    assert (u * u * L <= u * u * (K * K * (d * d))) as M by (apply Qmult_le_l; nra).
    setoid_replace (u * u * (K * K * (d * d))) with ((u * K) * (u * K) * (d * d)) in M by ring.
    rewrite E in M. lra.
  Qed.

  Lemma chain_gap (a b : qv) (k : Z) : (1 <= k)%Z ->
    d2 a b <= inject_Z k * inject_Z k * (d * d) ->
    forall cnt j prev, (1 <= j)%nat -> (Z.of_nat j + Z.of_nat cnt = k)%Z ->
      vx prev == vx a + (inject_Z (Z.of_nat j - 1) / inject_Z k) * (vx b - vx a) ->
      vy prev == vy a + (inject_Z (Z.of_nat j - 1) / inject_Z k) * (vy b - vy a) ->
      Forall gap_le (line_segs (prev :: inserted a b k j cnt ++ [b])).
  Proof.
    intros K1 HL. assert (0 < inject_Z k) as KP by (change 0 with (inject_Z 0); rewrite <- Zlt_Qlt; lia).
    induction cnt as [|c IH]; intros j prev J1 JK PX PY.
    - simpl. constructor; [|constructor]. unfold gap_le; simpl.
      assert (vx b == vx a + 1 * (vx b - vx a)) as BX by ring.
      assert (vy b == vy a + 1 * (vy b - vy a)) as BY by ring.
      rewrite (d2_param a b prev b _ 1 PX PY BX BY).
      assert (Z.of_nat j = k) as -> by lia.
      setoid_replace (1 - inject_Z (k - 1) / inject_Z k) with (1 / inject_Z k).
      + apply step_gap; auto.
      + unfold Z.sub. rewrite inject_Z_plus, inject_Z_opp. change (inject_Z 1) with 1. field. lra.
    - simpl inserted. 
      set (nx := interp_coords a b (inject_Z (Z.of_nat j) / inject_Z k)).
      change (line_segs (prev :: (nx :: inserted a b k (S j) c) ++ [b]))
        with ((prev, nx) :: line_segs (nx :: inserted a b k (S j) c ++ [b])).
      destruct (interp_coords_param a b (inject_Z (Z.of_nat j) / inject_Z k)) as (NX & NY & _).
      fold nx in NX, NY.
      constructor.
      + unfold gap_le; simpl. rewrite (d2_param a b prev nx _ _ PX PY NX NY).
        setoid_replace (inject_Z (Z.of_nat j) / inject_Z k - inject_Z (Z.of_nat j - 1) / inject_Z k)
          with (1 / inject_Z k).
        * apply step_gap; auto.
        * unfold Z.sub. rewrite inject_Z_plus, inject_Z_opp. change (inject_Z 1) with 1. field. lra.
      + apply IH; try lia.
        * replace (Z.of_nat (S j) - 1)%Z with (Z.of_nat j) by lia. exact NX.
        * replace (Z.of_nat (S j) - 1)%Z with (Z.of_nat j) by lia. exact NY.
  Qed.

  Theorem densify_gap_lemma (vs : list qv) : Forall gap_le (line_segs (densify_seq kf vs)).
  Proof.
    induction vs as [|a r IH]; [constructor|].
    destruct r as [|b r']; [constructor|].
    change (densify_seq kf (a :: b :: r')) with
      (a :: inserted a b (kf a b) 1 (Z.to_nat (kf a b - 1)) ++ densify_seq kf (b :: r')).
    destruct (densify_seq_head b r') as (t & E). rewrite E in *.
    change (a :: inserted a b (kf a b) 1 (Z.to_nat (kf a b - 1)) ++ b :: t)
      with ((a :: inserted a b (kf a b) 1 (Z.to_nat (kf a b - 1))) ++ b :: t).
    rewrite line_segs_app_cons. apply Forall_app. split; auto.
    destruct (kf_ok a b) as [K0 KL].
    destruct (Z.eq_dec (kf a b) 0) as [Z0|NZ].
    - rewrite Z0 in *. simpl. constructor; [|constructor]. unfold gap_le; simpl.
      change (inject_Z 0) with 0 in KL. nra.
    - simpl app. apply chain_gap; try lia; auto.
      + change (Z.of_nat 1 - 1)%Z with 0%Z. change (inject_Z 0) with 0. field.
        change 0 with (inject_Z 0). intros X. apply eq_sym in X. revert X.
        apply Qlt_not_eq. rewrite <- Zlt_Qlt. lia.
      + change (Z.of_nat 1 - 1)%Z with 0%Z. change (inject_Z 0) with 0. field.
        change 0 with (inject_Z 0). intros X. apply eq_sym in X. revert X.
        apply Qlt_not_eq. rewrite <- Zlt_Qlt. lia.
  Qed.
End DensProofs.

(* ---- the exact subdivision count: ceil(|ab| / d) without square roots ---- *)
Lemma inject_Z_sq (k : Z) : inject_Z (k * k) == inject_Z k * inject_Z k.
Proof. rewrite inject_Z_mult. reflexivity. Qed.

Theorem k_exact_ok (d : Q) (a b : qv) : 0 < d ->
  (0 <= k_exact d a b)%Z /\ d2 a b <= inject_Z (k_exact d a b) * inject_Z (k_exact d a b) * (d * d).
Proof.
  intros D. unfold k_exact. set (q := d2 a b / (d * d)). set (n := Qceiling q).
  assert (0 < d * d) as DD by nra.
  assert (d2 a b == q * (d * d)) as E by (unfold q; field; lra).
  split; [apply Z.sqrt_up_nonneg|].
  pose proof (Qle_ceiling q) as C. fold n in C.
  destruct (Z_lt_le_dec 0 n) as [P|NP].
  - destruct (Z.sqrt_up_spec n P) as [_ U].
    assert (inject_Z n <= inject_Z (Z.sqrt_up n) * inject_Z (Z.sqrt_up n)) as U'.
    { rewrite <- inject_Z_mult. rewrite <- Zle_Qle. exact U. }
    rewrite E. apply Qmult_le_compat_r; lra.
  - rewrite (Z.sqrt_up_eqn0 n NP). change (inject_Z 0) with 0.
    assert (inject_Z n <= 0) as N0 by (change 0 with (inject_Z 0); rewrite <- Zle_Qle; lia).
    rewrite E. nra.
Qed.

(* it is the least such count: one subdivision fewer would leave a gap longer than d *)
Theorem k_exact_minimal (d : Q) (a b : qv) : 0 < d -> (1 <= k_exact d a b)%Z ->
  inject_Z (k_exact d a b - 1) * inject_Z (k_exact d a b - 1) * (d * d) < d2 a b.
Proof.
  intros D K1. unfold k_exact in *. set (q := d2 a b / (d * d)) in *. set (n := Qceiling q) in *.
  assert (0 < d * d) as DD by nra.
  assert (d2 a b == q * (d * d)) as E by (unfold q; field; lra).
  destruct (Z_lt_le_dec 0 n) as [P|NP].
  - destruct (Z.sqrt_up_spec n P) as [L _].
    pose proof (Qceiling_lt q) as C. fold n in C.
    set (k := Z.sqrt_up n) in *.
    assert ((k - 1) * (k - 1) <= n - 1)%Z as L'.
    { replace (k - 1)%Z with (Z.pred k) by lia. lia. }
    assert (inject_Z (k - 1) * inject_Z (k - 1) <= inject_Z (n - 1)) as L''.
    { rewrite <- inject_Z_mult. rewrite <- Zle_Qle. exact L'. }
    rewrite E. apply Qmult_lt_compat_r; lra.
  - rewrite (Z.sqrt_up_eqn0 n NP) in K1. lia.
Qed.

(* a zero-length segment (repeated point) is not subdivided *)
Theorem k_exact_zero (d : Q) (a b : qv) : d2 a b == 0 -> k_exact d a b = 0%Z.
Proof.
  intros Z. unfold k_exact.
  assert (d2 a b / (d * d) == inject_Z 0) as E by (rewrite Z; unfold Qdiv; ring).
  rewrite (Qceiling_comp _ _ E), Qceiling_Z. reflexivity.
Qed.

Corollary densify_gap_exact (d : Q) (vs : list qv) : 0 < d ->
  Forall (fun s => d2 (fst s) (snd s) <= d * d) (line_segs (densify_seq (k_exact d) vs)).
Proof. intros D. apply (densify_gap_lemma (k_exact d) d). intros a b. now apply k_exact_ok. Qed.

(* ---- degenerate inputs, coordinates type ---- *)
Lemma densify_seq_nil kf : densify_seq kf [] = [].
Proof. reflexivity. Qed.
Lemma densify_seq_single kf a : densify_seq kf [a] = [a].
Proof. reflexivity. Qed.
Lemma dens_line_ct kf d l l' : dens_line kf d l = Ok l' -> line_ct l' = line_ct l.
Proof.
  unfold dens_line. destruct (Qle_bool d 0); [discriminate|]. destruct l; intros H; inversion H; reflexivity.
Qed.
Lemma dens_line_vs kf d l l' : dens_line kf d l = Ok l' -> line_vs l' = densify_seq kf (line_vs l).
Proof.
  unfold dens_line. destruct (Qle_bool d 0); [discriminate|]. destruct l; intros H; inversion H; reflexivity.
Qed.
Lemma dens_line_panic kf d l : d <= 0 -> dens_line kf d l = Panic POther.
Proof. intros H. unfold dens_line. apply Qle_bool_iff in H. now rewrite H. Qed.
Lemma dens_line_ok kf d l : 0 < d -> exists l', dens_line kf d l = Ok l'.
Proof.
  intros H. unfold dens_line. destruct (Qle_bool d 0) eqn:E.
  - apply Qle_bool_iff in E. lra.
  - destruct l; eauto.
Qed.
