(* Property C17 - lemmas about ForceCW / ForceCCW (Model/TrForce.v). *)
From Coq Require Import ZArith QArith Qfield Lqa List Bool Permutation Lia.
From SF Require Import Base.GeomAST Model.TrCommon Model.TrReverse Model.TrForce Proofs.TrReverse_proofs.
Import ListNotations.

Lemma Qltb_true (a b : Q) : Qltb a b = true <-> a < b.
Proof.
  unfold Qltb. split; intros H.
  - apply negb_true_iff in H. apply Qnot_le_lt. intros L. apply Qle_bool_iff in L. congruence.
  - apply negb_true_iff. destruct (Qle_bool b a) eqn:E; auto. apply Qle_bool_iff in E. lra.
Qed.
Lemma Qltb_false (a b : Q) : Qltb a b = false <-> b <= a.
Proof.
  unfold Qltb. split; intros H.
  - apply negb_false_iff in H. now apply Qle_bool_iff.
  - apply negb_false_iff. now apply Qle_bool_iff.
Qed.

(* ---- the signed area changes sign under reversal ---- *)
Lemma shoelace_snoc (l : list qv) (a b : qv) :
  shoelace (l ++ [a; b]) == shoelace (l ++ [a]) + (vx b + vx a) * (vy b - vy a).
Proof.
  induction l as [|x r IH]; simpl.
  - ring.
  - destruct r as [|y r']; simpl in *.
    + ring.
    + rewrite IH. ring.
Qed.

Lemma shoelace_rev (vs : list qv) : shoelace (rev vs) == - shoelace vs.
Proof.
  induction vs as [|a r IH]; simpl.
  - ring.
  - destruct r as [|b r']; simpl.
    + ring.
    + simpl in IH. rewrite <- app_assoc. simpl. rewrite shoelace_snoc, IH. ring.
Qed.

Lemma signed_area_rev (l : lineT Q) : signed_area (rev_line l) == - signed_area l.
Proof.
  destruct l as [ct vs]; unfold signed_area; simpl. rewrite shoelace_rev. field.
Qed.

Lemma ring_is_cw_rev (r : lineT Q) : ring_is_cw (rev_line r) = ring_is_ccw r.
Proof.
  unfold ring_is_cw, ring_is_ccw. pose proof (signed_area_rev r) as E.
  destruct (Qltb 0 (signed_area r)) eqn:A.
  - apply Qltb_true in A. apply Qltb_true. lra.
  - apply Qltb_false in A. apply Qltb_false. lra.
Qed.
Lemma ring_is_ccw_rev (r : lineT Q) : ring_is_ccw (rev_line r) = ring_is_cw r.
Proof.
  unfold ring_is_cw, ring_is_ccw. pose proof (signed_area_rev r) as E.
  destruct (Qltb (signed_area r) 0) eqn:A.
  - apply Qltb_true in A. apply Qltb_true. lra.
  - apply Qltb_false in A. apply Qltb_false. lra.
Qed.

Lemma area_trichotomy (r : lineT Q) :
  (ring_is_cw r = true /\ ring_is_ccw r = false /\ Qeq_bool (signed_area r) 0 = false)
  \/ (ring_is_cw r = false /\ ring_is_ccw r = true /\ Qeq_bool (signed_area r) 0 = false)
  \/ (ring_is_cw r = false /\ ring_is_ccw r = false /\ Qeq_bool (signed_area r) 0 = true).
Proof.
  unfold ring_is_cw, ring_is_ccw. set (a := signed_area r).
  destruct (Q_dec a 0) as [[L|G]|E].
  - left. repeat split; [apply Qltb_true; lra | apply Qltb_false; lra |].
    destruct (Qeq_bool a 0) eqn:B; auto. apply Qeq_bool_iff in B. lra.
  - right; left. repeat split; [apply Qltb_false; lra | apply Qltb_true; lra |].
    destruct (Qeq_bool a 0) eqn:B; auto. apply Qeq_bool_iff in B. lra.
  - right; right. repeat split; [apply Qltb_false; lra | apply Qltb_false; lra | now apply Qeq_bool_iff].
Qed.

Definition head_nonzero (rs : list (lineT Q)) : bool :=
  match rs with [] => true | r :: _ => negb (Qeq_bool (signed_area r) 0) end.

(* complete description of what IsCW says after forceOrientation(true): the exterior ring decides;
   interior rings always end up acceptable (a zero-area hole counts as "not CW") *)
Lemma rings_force_cw_is_cw (rs : list (lineT Q)) (first : bool) :
  rings_all ring_is_cw first (rings_force true first rs) = if first then head_nonzero rs else true.
Proof.
  revert first. induction rs as [|r rest IH]; intros first; simpl.
  - destruct first; reflexivity.
  - rewrite (IH false).
    destruct (area_trichotomy r) as [(A & B & C)|[(A & B & C)|(A & B & C)]];
      destruct first; rewrite ?A, ?C; simpl; rewrite ?ring_is_cw_rev, ?A, ?B; reflexivity.
Qed.

Lemma rings_force_ccw_is_ccw (rs : list (lineT Q)) (first : bool) :
  rings_all ring_is_ccw first (rings_force false first rs) = if first then head_nonzero rs else true.
Proof.
  revert first. induction rs as [|r rest IH]; intros first; simpl.
  - destruct first; reflexivity.
  - rewrite (IH false).
    destruct (area_trichotomy r) as [(A & B & C)|[(A & B & C)|(A & B & C)]];
      destruct first; rewrite ?A, ?C; simpl; rewrite ?ring_is_ccw_rev, ?A, ?B; reflexivity.
Qed.

Lemma rings_all_head_nonzero test (P : forall r, test r = true -> Qeq_bool (signed_area r) 0 = false) rs :
  rings_all test true rs = true -> head_nonzero rs = true.
Proof.
  destruct rs as [|r rest]; simpl; auto.
  destruct (test r) eqn:T; simpl; try discriminate. intros _. now rewrite (P r T).
Qed.

Lemma cw_nonzero r : ring_is_cw r = true -> Qeq_bool (signed_area r) 0 = false.
Proof. destruct (area_trichotomy r) as [(A & B & C)|[(A & B & C)|(A & B & C)]]; congruence. Qed.
Lemma ccw_nonzero r : ring_is_ccw r = true -> Qeq_bool (signed_area r) 0 = false.
Proof. destruct (area_trichotomy r) as [(A & B & C)|[(A & B & C)|(A & B & C)]]; congruence. Qed.

(* polygon level: IsCW after ForceCW holds exactly when the exterior ring has non-zero area *)
Theorem poly_force_cw_is_cw (p : polyT Q) : poly_is_cw (poly_force_cw p) = poly_ext_nonzero p.
Proof.
  unfold poly_force_cw. destruct (poly_is_cw p) eqn:E.
  - rewrite E. symmetry. destruct p as [ct rs]. apply (rings_all_head_nonzero _ cw_nonzero rs E).
  - destruct p as [ct rs]. unfold poly_is_cw; simpl. apply rings_force_cw_is_cw.
Qed.
Theorem poly_force_ccw_is_ccw (p : polyT Q) : poly_is_ccw (poly_force_ccw p) = poly_ext_nonzero p.
Proof.
  unfold poly_force_ccw. destruct (poly_is_ccw p) eqn:E.
  - rewrite E. symmetry. destruct p as [ct rs]. apply (rings_all_head_nonzero _ ccw_nonzero rs E).
  - destruct p as [ct rs]. unfold poly_is_ccw; simpl. apply rings_force_ccw_is_ccw.
Qed.

Lemma poly_orient_cw_is_cw (p : polyT Q) : poly_is_cw (poly_force_orient true p) = poly_ext_nonzero p.
Proof. destruct p as [ct rs]. unfold poly_is_cw; simpl. apply rings_force_cw_is_cw. Qed.
Lemma poly_orient_ccw_is_ccw (p : polyT Q) : poly_is_ccw (poly_force_orient false p) = poly_ext_nonzero p.
Proof. destruct p as [ct rs]. unfold poly_is_ccw; simpl. apply rings_force_ccw_is_ccw. Qed.

Lemma forallb_map_eq {A} (f g : A -> bool) (r : A -> A) (l : list A) :
  (forall x, f (r x) = g x) -> forallb f (map r l) = forallb g l.
Proof. intros H; induction l; simpl; congruence. Qed.

Lemma geom_orient_cw_is_cw (g : geomT Q) :
  geom_is_cw (geom_force_orient true g) = geom_ext_nonzero g.
Proof.
  induction g using geomT_ind'; simpl; auto.
  - apply poly_orient_cw_is_cw.
  - apply forallb_map_eq, poly_orient_cw_is_cw.
  - unfold geom_is_cw in *; simpl. induction H; simpl in *; auto. now rewrite H, IHForall.
Qed.
Lemma geom_orient_ccw_is_ccw (g : geomT Q) :
  geom_is_ccw (geom_force_orient false g) = geom_ext_nonzero g.
Proof.
  induction g using geomT_ind'; simpl; auto.
  - apply poly_orient_ccw_is_ccw.
  - apply forallb_map_eq, poly_orient_ccw_is_ccw.
  - unfold geom_is_ccw in *; simpl. induction H; simpl in *; auto. now rewrite H, IHForall.
Qed.

Lemma poly_is_cw_nonzero p : poly_is_cw p = true -> poly_ext_nonzero p = true.
Proof. destruct p as [ct rs]. apply (rings_all_head_nonzero _ cw_nonzero). Qed.
Lemma poly_is_ccw_nonzero p : poly_is_ccw p = true -> poly_ext_nonzero p = true.
Proof. destruct p as [ct rs]. apply (rings_all_head_nonzero _ ccw_nonzero). Qed.

Lemma forallb_impl {A} (f g : A -> bool) (l : list A) :
  (forall x, f x = true -> g x = true) -> forallb f l = true -> forallb g l = true.
Proof.
  intros H; induction l; simpl; auto. intros E. apply andb_prop in E as [E1 E2].
  rewrite (H _ E1). auto.
Qed.

Lemma geom_is_cw_nonzero (g : geomT Q) : geom_is_cw g = true -> geom_ext_nonzero g = true.
Proof.
  induction g using geomT_ind'; simpl; auto.
  - apply poly_is_cw_nonzero.
  - apply forallb_impl, poly_is_cw_nonzero.
  - induction H; simpl; auto. intros E. apply andb_prop in E as [E1 E2].
    rewrite (H E1). auto.
Qed.
Lemma geom_is_ccw_nonzero (g : geomT Q) : geom_is_ccw g = true -> geom_ext_nonzero g = true.
Proof.
  induction g using geomT_ind'; simpl; auto.
  - apply poly_is_ccw_nonzero.
  - apply forallb_impl, poly_is_ccw_nonzero.
  - induction H; simpl; auto. intros E. apply andb_prop in E as [E1 E2].
    rewrite (H E1). auto.
Qed.

(* geometry level, complete: IsCW(ForceCW(g)) is true exactly when every exterior ring has non-zero area *)
Theorem geom_force_cw_is_cw (g : geomT Q) : geom_is_cw (geom_force_cw g) = geom_ext_nonzero g.
Proof.
  unfold geom_force_cw. destruct (geom_is_cw g) eqn:E.
  - rewrite E. symmetry. now apply geom_is_cw_nonzero.
  - apply geom_orient_cw_is_cw.
Qed.
Theorem geom_force_ccw_is_ccw (g : geomT Q) : geom_is_ccw (geom_force_ccw g) = geom_ext_nonzero g.
Proof.
  unfold geom_force_ccw. destruct (geom_is_ccw g) eqn:E.
  - rewrite E. symmetry. now apply geom_is_ccw_nonzero.
  - apply geom_orient_ccw_is_ccw.
Qed.

Theorem geom_force_cw_idem (g : geomT Q) :
  geom_ext_nonzero g = true -> geom_force_cw (geom_force_cw g) = geom_force_cw g.
Proof.
  intros H. unfold geom_force_cw at 1. now rewrite geom_force_cw_is_cw, H.
Qed.
Theorem geom_force_ccw_idem (g : geomT Q) :
  geom_ext_nonzero g = true -> geom_force_ccw (geom_force_ccw g) = geom_force_ccw g.
Proof.
  intros H. unfold geom_force_ccw at 1. now rewrite geom_force_ccw_is_ccw, H.
Qed.

(* ---- the point-set description is untouched: same vertices, same undirected segments ---- *)
Lemma up_refl (l : list (qv * qv)) : undirected_perm l l.
Proof. exists l. split; auto. induction l; constructor; auto. Qed.

Lemma up_app (a a' b b' : list (qv * qv)) :
  undirected_perm a a' -> undirected_perm b b' -> undirected_perm (a ++ b) (a' ++ b').
Proof.
  intros (x & F1 & P1) (y & F2 & P2). exists (x ++ y). split.
  - now apply Forall2_app.
  - now apply Permutation_app.
Qed.

Lemma up_rev_line (r : lineT Q) : undirected_perm (lineT_segs (rev_line r)) (lineT_segs r).
Proof.
  exists (map swap_seg (lineT_segs r)). split; [|apply lineT_segs_rev_perm].
  induction (lineT_segs r); simpl; constructor; auto.
Qed.

Lemma rings_force_segs c first rs :
  undirected_perm (flat_map lineT_segs (rings_force c first rs)) (flat_map lineT_segs rs).
Proof.
  revert first; induction rs as [|r rest IH]; intros first; simpl.
  - apply up_refl.
  - apply up_app; auto. destruct (Bool.eqb first _); [apply up_refl | apply up_rev_line].
Qed.
Lemma rings_force_vs c first rs :
  Permutation (flat_map line_vs (rings_force c first rs)) (flat_map line_vs rs).
Proof.
  revert first; induction rs as [|r rest IH]; intros first; simpl; auto.
  apply Permutation_app; auto. destruct (Bool.eqb first _); auto. apply line_vs_rev_perm.
Qed.

Lemma poly_orient_segs c p : undirected_perm (poly_segs (poly_force_orient c p)) (poly_segs p).
Proof. destruct p as [ct rs]; unfold poly_segs; simpl. apply rings_force_segs. Qed.
Lemma poly_orient_vs c p : Permutation (poly_vs (poly_force_orient c p)) (poly_vs p).
Proof. destruct p as [ct rs]; unfold poly_vs; simpl. apply rings_force_vs. Qed.

Lemma geom_orient_segs c (g : geomT Q) :
  undirected_perm (geom_segs (geom_force_orient c g)) (geom_segs g).
Proof.
  induction g using geomT_ind'; simpl; try apply up_refl.
  - apply poly_orient_segs.
  - induction ps; simpl; [apply up_refl | apply up_app; auto using poly_orient_segs].
  - induction H; simpl; [apply up_refl | apply up_app; auto].
Qed.
Lemma geom_orient_vs c (g : geomT Q) :
  Permutation (geom_vs (geom_force_orient c g)) (geom_vs g).
Proof.
  induction g using geomT_ind'; simpl; auto.
  - apply poly_orient_vs.
  - induction ps; simpl; auto using Permutation_app, poly_orient_vs.
  - induction H; simpl; auto using Permutation_app.
Qed.

Theorem geom_force_cw_segs g : undirected_perm (geom_segs (geom_force_cw g)) (geom_segs g).
Proof. unfold geom_force_cw. destruct (geom_is_cw g); [apply up_refl | apply geom_orient_segs]. Qed.
Theorem geom_force_ccw_segs g : undirected_perm (geom_segs (geom_force_ccw g)) (geom_segs g).
Proof. unfold geom_force_ccw. destruct (geom_is_ccw g); [apply up_refl | apply geom_orient_segs]. Qed.
Theorem geom_force_cw_vs g : Permutation (geom_vs (geom_force_cw g)) (geom_vs g).
Proof. unfold geom_force_cw. destruct (geom_is_cw g); auto using geom_orient_vs. Qed.
Theorem geom_force_ccw_vs g : Permutation (geom_vs (geom_force_ccw g)) (geom_vs g).
Proof. unfold geom_force_ccw. destruct (geom_is_ccw g); auto using geom_orient_vs. Qed.

Lemma geom_orient_ct c (g : geomT Q) : geom_ct (geom_force_orient c g) = geom_ct g.
Proof. destruct g; simpl; auto. destruct p; reflexivity. Qed.
Lemma geom_orient_type c (g : geomT Q) : geom_type (geom_force_orient c g) = geom_type g.
Proof. destruct g; reflexivity. Qed.
Theorem geom_force_cw_shape g :
  geom_ct (geom_force_cw g) = geom_ct g /\ geom_type (geom_force_cw g) = geom_type g.
Proof. unfold geom_force_cw. destruct (geom_is_cw g); auto using geom_orient_ct, geom_orient_type. Qed.
Theorem geom_force_ccw_shape g :
  geom_ct (geom_force_ccw g) = geom_ct g /\ geom_type (geom_force_ccw g) = geom_type g.
Proof. unfold geom_force_ccw. destruct (geom_is_ccw g); auto using geom_orient_ct, geom_orient_type. Qed.

(* what the code does with a zero-area exterior ring (outside the contract): ForceCW reverses it on
   every call, so the result is not IsCW and a second call undoes the first *)
Theorem poly_force_cw_zero_area (ct : ctype) (r : lineT Q) (holes : list (lineT Q)) :
  signed_area r == 0 ->
  exists holes', poly_force_cw (MkPoly ct (r :: holes)) = MkPoly ct (rev_line r :: holes')
                 /\ poly_is_cw (poly_force_cw (MkPoly ct (r :: holes))) = false.
Proof.
  intros Z. assert (Qeq_bool (signed_area r) 0 = true) as ZB by now apply Qeq_bool_iff.
  assert (ring_is_cw r = false) as NCW.
  { destruct (area_trichotomy r) as [(A & B & C)|[(A & B & C)|(A & B & C)]]; congruence. }
  assert (poly_is_cw (MkPoly ct (r :: holes)) = false) as E.
  { unfold poly_is_cw; simpl. now rewrite NCW. }
  exists (rings_force true false holes). split.
  - unfold poly_force_cw. rewrite E. simpl. now rewrite NCW.
  - rewrite poly_force_cw_is_cw. unfold poly_ext_nonzero; simpl. now rewrite ZB.
Qed.
