(* Property C17 - lemmas about InterpolatePoint / InterpolateEvenlySpacedPoints (Model/TrInterp.v). *)
From Coq Require Import ZArith QArith Qround Qabs Qfield Lqa List Bool Lia.
From SF Require Import Base.Outcome Base.GeomAST Model.TrCommon Model.TrForce Model.TrDensify Model.TrInterp
  Model.TrSimplify Proofs.TrDensify_proofs.
Import ListNotations.

Lemma clamp01_range (f : Q) : 0 <= clamp01 f <= 1.
Proof.
  unfold clamp01, Qmaxq, Qminq.
  destruct (Qle_bool 1 f) eqn:A.
  - destruct (Qle_bool 0 1) eqn:B; [lra|]. apply Qle_bool_false' in B. lra.
  - apply Qle_bool_false' in A. destruct (Qle_bool 0 f) eqn:B.
    + apply Qle_bool_iff in B. lra.
    + lra.
Qed.
Lemma clamp01_low (f : Q) : f <= 0 -> clamp01 f == 0.
Proof.
  intros H. unfold clamp01, Qmaxq, Qminq.
  destruct (Qle_bool 1 f) eqn:A; [apply Qle_bool_iff in A; lra|].
  destruct (Qle_bool 0 f) eqn:B; [apply Qle_bool_iff in B; lra|reflexivity].
Qed.
Lemma clamp01_high (f : Q) : 1 <= f -> clamp01 f == 1.
Proof.
  intros H. unfold clamp01, Qmaxq, Qminq. apply Qle_bool_iff in H. rewrite H. reflexivity.
Qed.
Lemma clamp01_mid (f : Q) : 0 <= f <= 1 -> clamp01 f == f.
Proof.
  intros [H0 H1]. unfold clamp01, Qmaxq, Qminq.
  destruct (Qle_bool 1 f) eqn:A.
  - apply Qle_bool_iff in A. assert (f == 1) as E by lra. rewrite E. reflexivity.
  - apply Qle_bool_iff in H0. rewrite H0. reflexivity.
Qed.

Section InterpProofs.
  Variable sq : Q -> Q.
  Hypothesis sq_nonneg : forall x, 0 <= sq x.

  Lemma sumq_cons x l : sumq (x :: l) == x + sumq l.
  Proof. change (sumq (x :: l)) with (Qred (x + sumq l)). apply Qred_correct. Qed.

  Lemma seg_lens_nonneg vs : Forall (fun x => 0 <= x) (seg_lens sq vs).
  Proof. unfold seg_lens. apply Forall_forall. intros x H. apply in_map_iff in H as (s & <- & _). apply sq_nonneg. Qed.

  Lemma sumq_nonneg l : Forall (fun x => 0 <= x) l -> 0 <= sumq l.
  Proof. induction 1; [simpl; lra|]. rewrite sumq_cons. lra. Qed.

  Lemma seg_lens_cons a b r : seg_lens sq (a :: b :: r) = dist sq a b :: seg_lens sq (b :: r).
  Proof. reflexivity. Qed.

  (* the walk: finds the segment, never falls off the end, never divides by zero *)
  Lemma walk_spec : forall vs target prevcum,
    (2 <= length vs)%nat ->
    prevcum <= target -> target <= prevcum + sumq (seg_lens sq vs) ->
    exists p pre a b post s,
      walk true target prevcum vs (seg_lens sq vs) = IPoint p
      /\ vs = pre ++ a :: b :: post
      /\ 0 <= s <= 1 /\ param_pt a b s p
      /\ prevcum + sumq (seg_lens sq (pre ++ [a])) + s * dist sq a b == target.
  Proof.
    induction vs as [|a r IH]; intros target prevcum L LO HI; [simpl in L; lia|].
    destruct r as [|b r']; [simpl in L; lia|].
    rewrite seg_lens_cons. cbn [walk].
    set (len := dist sq a b) in *.
    assert (0 <= len) as LN by apply sq_nonneg.
    assert (Qred (prevcum + len) == prevcum + len) as C by apply Qred_correct.
    destruct (Qle_bool target (Qred (prevcum + len))) eqn:T.
    - apply Qle_bool_iff in T. rewrite C in T.
      destruct (Qeq_bool len 0) eqn:Z.
      + apply Qeq_bool_iff in Z.
        exists a, [], a, b, r', 0.
        split; [reflexivity|]. split; [reflexivity|]. split; [lra|]. split; [apply param_pt_0|].
        change (sumq (seg_lens sq ([] ++ [a]))) with 0. fold len. lra.
      + assert (~ len == 0) as NZ by (intros E; apply Qeq_bool_iff in E; congruence).
        assert (0 < len) as LP by (destruct (Qlt_le_dec 0 len); auto; exfalso; apply NZ; lra).
        exists (interp_coords a b ((target - prevcum) / len)), [], a, b, r', ((target - prevcum) / len).
        split; [reflexivity|]. split; [reflexivity|]. split.
        { split; [apply Qle_shift_div_l; lra | apply Qle_shift_div_r; lra]. }
        split; [apply interp_coords_param|].
        change (sumq (seg_lens sq ([] ++ [a]))) with 0. fold len. field. lra.
    - apply Qle_bool_false' in T. rewrite C in T.
      rewrite seg_lens_cons, sumq_cons in HI. fold len in HI.
      destruct r' as [|c r''].
      + simpl in HI. lra.
      + destruct (IH target (Qred (prevcum + len))) as (p & pre & x & y & post & s & W & E & S & P & A).
        * simpl. lia.
        * rewrite C. lra.
        * rewrite C. lra.
        * exists p, (a :: pre), x, y, post, s.
          split; [exact W|]. split; [rewrite E; reflexivity|]. split; [exact S|]. split; [exact P|].
          change ((a :: pre) ++ [x]) with (a :: (pre ++ [x])).
          assert (exists t, pre ++ [x] = b :: t) as (t & Hh).
          { destruct pre as [|h pre']; simpl in *; inversion E; subst; eauto. }
          rewrite Hh. rewrite seg_lens_cons, sumq_cons. rewrite <- Hh. fold len.
          rewrite C in A. lra.
  Qed.

  Theorem interpolate_spec (vs : list qv) (f : Q) : (2 <= length vs)%nat ->
    exists p pre a b post s,
      interpolate sq true vs f = IPoint p
      /\ vs = pre ++ a :: b :: post
      /\ 0 <= s <= 1 /\ param_pt a b s p
      /\ path_len sq (pre ++ [a]) + s * dist sq a b == clamp01 f * path_len sq vs.
  Proof.
    intros L. unfold interpolate, interpolate_tab, path_len.
    pose proof (clamp01_range f) as [C0 C1].
    pose proof (sumq_nonneg _ (seg_lens_nonneg vs)) as TN.
    destruct (walk_spec vs (clamp01 f * sumq (seg_lens sq vs)) 0 L) as (p & pre & a & b & post & s & W & E & S & P & A).
    - nra.
    - nra.
    - exists p, pre, a, b, post, s.
      split; [exact W|]. split; [exact E|]. split; [exact S|]. split; [exact P|]. lra.
  Qed.

  (* evenly spaced points: the fractions *)
  Lemma fracs_nth n1 : forall cnt j i q,
    nth_error (fracs n1 j cnt) i = Some q -> (i < cnt)%nat /\ q = inject_Z (Z.of_nat (j + i)) / inject_Z n1.
  Proof.
    induction cnt as [|c IH]; intros j i q H; simpl in H.
    - destruct i; discriminate.
    - destruct i as [|i']; simpl in H.
      + inversion H; subst. split; [lia|]. now rewrite Nat.add_0_r.
      + apply IH in H as [H1 H2]. split; [lia|]. rewrite H2.
        replace (S j + i')%nat with (j + S i')%nat by lia. reflexivity.
  Qed.
  Lemma fracs_length n1 j cnt : length (fracs n1 j cnt) = cnt.
  Proof. revert j; induction cnt; intros; simpl; auto. Qed.

  Theorem evenly_spaced_spec (vs : list qv) (n : Z) :
    (n <= 0)%Z /\ evenly_spaced sq true vs n = []
    \/ (0 < n)%Z /\ vs = [] /\ evenly_spaced sq true vs n = repeat None (Z.to_nat n)
    \/ n = 1%Z /\ vs <> [] /\ evenly_spaced sq true vs n = [Some (interpolate sq true vs (1 # 2))]
    \/ (2 <= n)%Z /\ vs <> [] /\ length (evenly_spaced sq true vs n) = Z.to_nat n
       /\ forall i r, nth_error (evenly_spaced sq true vs n) i = Some r ->
            r = Some (interpolate sq true vs (inject_Z (Z.of_nat i) / inject_Z (n - 1))).
  Proof.
    unfold evenly_spaced. destruct (Z.leb n 0) eqn:N0.
    - left. apply Z.leb_le in N0. auto.
    - apply Z.leb_gt in N0. right. destruct vs as [|a r].
      + left. auto.
      + right. destruct (Z.eqb n 1) eqn:N1.
        * apply Z.eqb_eq in N1. left. repeat split; auto. discriminate.
        * apply Z.eqb_neq in N1. right. split; [lia|]. split; [discriminate|]. split.
          -- now rewrite map_length, fracs_length.
          -- intros i res H. rewrite nth_error_map in H.
             destruct (nth_error (fracs (n - 1) 0 (Z.to_nat n)) i) eqn:E; [|discriminate].
             apply fracs_nth in E as [_ ->]. simpl in H. inversion H. reflexivity.
  Qed.
End InterpProofs.

(* ---- the executable square root: non-negative, exact on squares of rationals ---- *)
Lemma qsqrt_nonneg (q : Q) : 0 <= qsqrt q.
Proof.
  unfold qsqrt. destruct (Qnum q) eqn:E; try lra.
  rewrite Qred_correct. unfold Qle. cbn [Qnum Qden].
  rewrite Z.mul_0_l. apply Z.mul_nonneg_nonneg; [apply Z.sqrt_nonneg | lia].
Qed.

Lemma qsqrt_square (r : Q) : 0 <= r -> qsqrt (r * r) == r.
Proof.
  intros H. destruct r as [n m]. unfold Qle in H; simpl in H. rewrite Z.mul_1_r in H.
  destruct n as [|n|n]; [reflexivity| |lia].
  unfold qsqrt, Qmult. cbn [Qnum Qden].
  change (Z.pos n * Z.pos n)%Z with (Z.pos (n * n)). cbv iota.
  rewrite Qred_correct. unfold Qeq. cbn [Qnum Qden].
  replace (Z.pos (n * n) * Z.pos (m * m) * 2 ^ 128)%Z with ((Z.pos n * Z.pos m * 2 ^ 64) * (Z.pos n * Z.pos m * 2 ^ 64))%Z
    by (rewrite !Pos2Z.inj_mul; change (2 ^ 128)%Z with (2 ^ 64 * 2 ^ 64)%Z; ring).
  rewrite Z.sqrt_square by lia.
  rewrite !Pos2Z.inj_mul. change (Z.pos (2 ^ 64)) with (2 ^ 64)%Z. ring.
Qed.

(* F9: the unrepaired code yields an undefined (NaN) point on a valid line whose first segment has
   zero length *)
Definition f9_line : list qv :=
  [Build_vtx 0 0 0 0; Build_vtx 0 0 0 0; Build_vtx 1 1 0 0].
Lemma interp_finite_refuted_lemma :
  exists (vs : list qv) (f : Q), line_valid_vs vs = true /\ (2 <= length vs)%nat
                                 /\ interpolate qsqrt false vs f = IUndef.
Proof. exists f9_line, 0. vm_compute. auto. Qed.
