(* Property C17 - lemmas about Reverse (Model/TrReverse.v). *)
From Coq Require Import List Bool Permutation Lia.
From SF Require Import Base.GeomAST Model.TrCommon Model.TrReverse.
Import ListNotations.

Section RevProofs.
  Variable F : Type.
  Notation vtxF := (vtx F).

  Lemma rev_line_invol (l : lineT F) : rev_line (rev_line l) = l.
  Proof. destruct l; simpl. now rewrite rev_involutive. Qed.

  Lemma map_invol {A} (f : A -> A) (l : list A) : (forall x, f (f x) = x) -> map f (map f l) = l.
  Proof. intros H. rewrite map_map. induction l; simpl; congruence. Qed.

  Lemma rev_poly_invol (p : polyT F) : rev_poly (rev_poly p) = p.
  Proof. destruct p; simpl. now rewrite (map_invol _ _ rev_line_invol). Qed.

  Lemma line_empty_rev (l : lineT F) : line_empty (rev_line l) = line_empty l.
  Proof.
    destruct l as [ct vs]; unfold line_empty; simpl.
    destruct vs as [|a r]; simpl; auto. destruct (rev r ++ [a]) eqn:E; auto.
    apply (f_equal (@length _)) in E. rewrite app_length in E. simpl in E. lia.
  Qed.
  Lemma poly_empty_rev (p : polyT F) : poly_empty (rev_poly p) = poly_empty p.
  Proof. destruct p as [ct rs]; unfold poly_empty; simpl. destruct rs; reflexivity. Qed.

  Lemma forallb_map_ext {A} (f : A -> bool) (r : A -> A) (l : list A) :
    (forall x, f (r x) = f x) -> forallb f (map r l) = forallb f l.
  Proof. intros H; induction l; simpl; congruence. Qed.

  Lemma is_empty_rev (g : geomT F) : is_empty (rev_geom g) = is_empty g.
  Proof.
    induction g using geomT_ind'; simpl; auto using line_empty_rev, poly_empty_rev.
    - apply forallb_map_ext, line_empty_rev.
    - apply forallb_map_ext, poly_empty_rev.
    - destruct (forallb (@is_empty F) gs) eqn:E; simpl; auto.
      rewrite <- E. induction H; simpl; auto. simpl in E.
      rewrite H. destruct (is_empty x); simpl in *; auto.
  Qed.

  Theorem rev_geom_invol (g : geomT F) : rev_geom (rev_geom g) = g.
  Proof.
    induction g using geomT_ind'; simpl; auto.
    - now rewrite rev_line_invol.
    - now rewrite rev_poly_invol.
    - now rewrite (map_invol _ _ rev_line_invol).
    - now rewrite (map_invol _ _ rev_poly_invol).
    - destruct (forallb (@is_empty F) gs) eqn:E.
      + simpl. now rewrite E.
      + simpl. rewrite (forallb_map_ext _ _ _ is_empty_rev), E. f_equal.
        rewrite map_map. clear E. induction H; simpl; congruence.
  Qed.

  (* ---- vertices: every vertex is kept with its whole payload ---- *)
  Lemma line_vs_rev (l : lineT F) : line_vs (rev_line l) = rev (line_vs l).
  Proof. destruct l; reflexivity. Qed.

  Lemma perm_flat_map_map {A B} (f : A -> list B) (r : A -> A) (l : list A) :
    (forall x, Permutation (f (r x)) (f x)) -> Permutation (flat_map f (map r l)) (flat_map f l).
  Proof. intros H; induction l; simpl; auto using Permutation_app. Qed.

  Lemma line_vs_rev_perm (l : lineT F) : Permutation (line_vs (rev_line l)) (line_vs l).
  Proof. rewrite line_vs_rev. symmetry. apply Permutation_rev. Qed.
  Lemma poly_vs_rev_perm (p : polyT F) : Permutation (poly_vs (rev_poly p)) (poly_vs p).
  Proof. destruct p as [ct rs]; unfold poly_vs; simpl. apply perm_flat_map_map, line_vs_rev_perm. Qed.

  Theorem geom_vs_rev_perm (g : geomT F) : Permutation (geom_vs (rev_geom g)) (geom_vs g).
  Proof.
    induction g using geomT_ind'; simpl; auto using line_vs_rev_perm, poly_vs_rev_perm.
    - apply perm_flat_map_map, line_vs_rev_perm.
    - apply perm_flat_map_map, poly_vs_rev_perm.
    - destruct (forallb (@is_empty F) gs); simpl; auto.
      induction H; simpl; auto using Permutation_app.
  Qed.

  (* ---- segments: the reversed line has exactly the flipped segments, in reverse order ---- *)
  Lemma line_segs_snoc (l : list vtxF) (a b : vtxF) :
    line_segs (l ++ [a; b]) = line_segs (l ++ [a]) ++ [(a, b)].
  Proof.
    induction l as [|x r IH]; simpl; auto.
    destruct r as [|y r']; simpl in *; auto. now rewrite IH.
  Qed.

  Theorem line_segs_rev (vs : list vtxF) : line_segs (rev vs) = rev (map swap_seg (line_segs vs)).
  Proof.
    induction vs as [|a r IH]; simpl; auto.
    destruct r as [|b r']; simpl; auto.
    simpl in IH. rewrite <- IH.
    rewrite <- app_assoc. simpl. now rewrite line_segs_snoc.
  Qed.

  Lemma lineT_segs_rev_perm (l : lineT F) :
    Permutation (lineT_segs (rev_line l)) (map swap_seg (lineT_segs l)).
  Proof.
    unfold lineT_segs. rewrite line_vs_rev, line_segs_rev. symmetry. apply Permutation_rev.
  Qed.

  Lemma perm_flat_map_swap {A} (f : A -> list (vtxF * vtxF)) (r : A -> A) (l : list A) :
    (forall x, Permutation (f (r x)) (map swap_seg (f x))) ->
    Permutation (flat_map f (map r l)) (map swap_seg (flat_map f l)).
  Proof.
    intros H; induction l; simpl; auto. rewrite map_app. auto using Permutation_app.
  Qed.

  Lemma poly_segs_rev_perm (p : polyT F) :
    Permutation (poly_segs (rev_poly p)) (map swap_seg (poly_segs p)).
  Proof. destruct p as [ct rs]; unfold poly_segs; simpl. apply perm_flat_map_swap, lineT_segs_rev_perm. Qed.

  Lemma line_empty_segs (l : lineT F) : line_empty l = true -> lineT_segs l = [].
  Proof. destruct l as [ct vs]; unfold line_empty, lineT_segs; simpl. destruct vs; simpl; congruence. Qed.
  Lemma poly_empty_segs (p : polyT F) : poly_empty p = true -> poly_segs p = [].
  Proof. destruct p as [ct rs]; unfold poly_empty, poly_segs; simpl. destruct rs; simpl; congruence. Qed.

  Lemma flat_map_nil {A B} (f : A -> list B) (e : A -> bool) (l : list A) :
    (forall x, e x = true -> f x = []) -> forallb e l = true -> flat_map f l = [].
  Proof.
    intros H; induction l; simpl; auto. intros E. apply andb_prop in E as [E1 E2].
    rewrite (H _ E1). simpl. auto.
  Qed.

  Lemma is_empty_segs (g : geomT F) : is_empty g = true -> geom_segs g = [].
  Proof.
    induction g using geomT_ind'; simpl; auto using line_empty_segs, poly_empty_segs.
    - apply flat_map_nil, line_empty_segs.
    - apply flat_map_nil, poly_empty_segs.
    - induction H; simpl; auto. intros E. apply andb_prop in E as [E1 E2].
      rewrite (H E1). simpl. auto.
  Qed.

  Theorem geom_segs_rev_perm (g : geomT F) :
    Permutation (geom_segs (rev_geom g)) (map swap_seg (geom_segs g)).
  Proof.
    induction g using geomT_ind'; simpl; auto using lineT_segs_rev_perm, poly_segs_rev_perm.
    - apply perm_flat_map_swap, lineT_segs_rev_perm.
    - apply perm_flat_map_swap, poly_segs_rev_perm.
    - destruct (forallb (@is_empty F) gs) eqn:E.
      + change (flat_map (@geom_segs F) gs) with (geom_segs (GColl ct gs)).
        rewrite (is_empty_segs (GColl ct gs) E). constructor.
      + simpl. clear E. induction H; simpl; auto. rewrite map_app. auto using Permutation_app.
  Qed.

  Corollary geom_segs_rev_undirected (g : geomT F) :
    undirected_perm (geom_segs (rev_geom g)) (geom_segs g).
  Proof.
    exists (map swap_seg (geom_segs g)). split; [|apply geom_segs_rev_perm].
    induction (geom_segs g); simpl; constructor; auto.
  Qed.

  (* ---- what is never touched: type, coordinates type, emptiness, member counts ---- *)
  Lemma geom_ct_rev (g : geomT F) : geom_ct (rev_geom g) = geom_ct g.
  Proof.
    destruct g as [p|l|p| | | |ct gs]; simpl; auto; try (destruct l; reflexivity); try (destruct p; reflexivity).
    destruct (forallb _ gs); reflexivity.
  Qed.
  Lemma geom_type_rev (g : geomT F) : geom_type (rev_geom g) = geom_type g.
  Proof. destruct g; simpl; auto. destruct (forallb _ gs); reflexivity. Qed.
End RevProofs.
