(* Property C17 - lemmas about Simplify / Ramer-Douglas-Peucker (Model/TrSimplify.v). *)
From Coq Require Import ZArith QArith Qfield Lqa List Bool Lia.
From SF Require Import Base.Outcome Base.GeomAST Model.TrCommon Model.TrForce Model.TrSimplify
  Proofs.TrForce_proofs.
Import ListNotations.

(* subsequence: s is obtained from l by deleting elements *)
Inductive Subseq {A} : list A -> list A -> Prop :=
| SS_nil : Subseq [] []
| SS_keep : forall x s l, Subseq s l -> Subseq (x :: s) (x :: l)
| SS_drop : forall x s l, Subseq s l -> Subseq s (x :: l).

Lemma Subseq_refl {A} (l : list A) : Subseq l l.
Proof. induction l; constructor; auto. Qed.
Lemma Subseq_app_l {A} (m s l : list A) : Subseq s l -> Subseq s (m ++ l).
Proof. intros H; induction m; simpl; auto. now constructor. Qed.
Lemma Subseq_In {A} (s l : list A) x : Subseq s l -> In x s -> In x l.
Proof. induction 1; simpl; intuition. Qed.
Lemma Subseq_length {A} (s l : list A) : Subseq s l -> (length s <= length l)%nat.
Proof. induction 1; simpl; lia. Qed.

Section RDPProofs.
  Variable t : Q.
  Hypothesis t_nonneg : 0 <= t.

  Lemma thr_ok_zero : thr_ok t 0 = true.
  Proof.
    unfold thr_ok. apply andb_true_intro. split; apply Qle_bool_iff; auto. nra.
  Qed.
  Lemma thr_ok_le best : thr_ok t best = true -> best <= t * t.
  Proof. unfold thr_ok. intros H. apply andb_prop in H as [_ H]. now apply Qle_bool_iff. Qed.

  (* ---- the scan ---- *)
  Lemma scan_max_spec a b : forall mids pre best bi best' bi',
    (forall pre' p suf, bi = Some (pre', p, suf) -> pre' ++ p :: suf = pre ++ mids) ->
    scan_max a b pre mids best bi = (best', bi') ->
    (forall pre' p suf, bi' = Some (pre', p, suf) -> pre' ++ p :: suf = pre ++ mids)
    /\ best <= best'
    /\ Forall (fun p => pd2 a b p <= best') mids
    /\ (bi' = None -> bi = None /\ best' = best).
  Proof.
    induction mids as [|p r IH]; intros pre best bi best' bi' Hbi E; simpl in E.
    - inversion E; subst. split; [|split; [|split]]; auto. lra.
    - destruct (Qltb best (pd2 a b p)) eqn:L.
      + apply Qltb_true in L.
        apply IH in E.
        * destruct E as (E1 & E2 & E3 & E4). split; [|split; [|split]].
          -- intros pre' q suf X. rewrite (E1 _ _ _ X). now rewrite <- app_assoc.
          -- lra.
          -- constructor; auto.
          -- intros X. destruct (E4 X) as [Y _]. discriminate.
        * intros pre' q suf X. inversion X; subst. now rewrite <- app_assoc.
      + apply Qltb_false in L.
        apply IH in E.
        * destruct E as (E1 & E2 & E3 & E4). split; [|split; [|split]]; auto.
          -- intros pre' q suf X. rewrite (E1 _ _ _ X). now rewrite <- app_assoc.
          -- constructor; auto. lra.
        * intros pre' q suf X. rewrite (Hbi _ _ _ X). now rewrite <- app_assoc.
  Qed.

  Lemma scan_max_start a b mids best' bi' :
    scan_max a b [] mids 0 None = (best', bi') ->
    (forall pre p suf, bi' = Some (pre, p, suf) -> pre ++ p :: suf = mids)
    /\ Forall (fun p => pd2 a b p <= best') mids
    /\ (bi' = None -> best' = 0).
  Proof.
    intros E. apply scan_max_spec in E; [|discriminate].
    destruct E as (E1 & E2 & E3 & E4). repeat split; auto. intros X. now apply E4.
  Qed.

  (* ---- the inner loop ---- *)
  Lemma inner_spec fixed : forall fuel a mids b after b' after',
    inner t fixed fuel a mids b after = Some (b', after') ->
    exists mids', mids' ++ b' :: after' = mids ++ b :: after /\ Forall (within t a b') mids'.
  Proof.
    induction fuel as [|f IH]; intros a mids b after b' after' E; simpl in E; [discriminate|].
    destruct (scan_max a b [] mids 0 None) as [best bi] eqn:S.
    apply scan_max_start in S as (S1 & S2 & S3).
    destruct (thr_ok t best) eqn:T.
    - inversion E; subst. exists mids. split; auto.
      apply thr_ok_le in T. eapply Forall_impl; [|exact S2]. intros p Hp. unfold within. simpl in Hp. lra.
    - destruct bi as [[[pre p] suf]|].
      + apply IH in E as (mids' & E1 & E2). exists mids'. split; auto.
        rewrite E1. rewrite <- (S1 pre p suf eq_refl). rewrite <- app_assoc. reflexivity.
      + rewrite (S3 eq_refl), thr_ok_zero in T. discriminate.
  Qed.

  Lemma inner_total fixed : forall fuel a mids b after,
    (length mids < fuel)%nat -> inner t fixed fuel a mids b after <> None.
  Proof.
    induction fuel as [|f IH]; intros a mids b after L; [lia|]. simpl.
    destruct (scan_max a b [] mids 0 None) as [best bi] eqn:S.
    apply scan_max_start in S as (S1 & S2 & S3).
    destruct (thr_ok t best) eqn:T; [discriminate|].
    destruct bi as [[[pre p] suf]|].
    - apply IH. specialize (S1 pre p suf eq_refl). subst mids. rewrite app_length in L. simpl in L. lia.
    - rewrite (S3 eq_refl), thr_ok_zero in T. discriminate.
  Qed.

  Lemma inner_fixed_irrelevant : forall fuel a mids b after,
    inner t false fuel a mids b after = inner t true fuel a mids b after.
  Proof.
    induction fuel as [|f IH]; intros; simpl; auto.
    destruct (scan_max a b [] mids 0 None) as [best bi] eqn:S.
    apply scan_max_start in S as (S1 & S2 & S3).
    destruct (thr_ok t best) eqn:T; auto.
    destruct bi as [[[pre p] suf]|]; auto.
    rewrite (S3 eq_refl), thr_ok_zero in T. discriminate.
  Qed.

  (* ---- unsnoc ---- *)
  Lemma unsnoc_spec {A} (l : list A) :
    match unsnoc l with None => l = [] | Some (m, e) => l = m ++ [e] end.
  Proof.
    induction l as [|x r IH]; [reflexivity|].
    destruct r as [|y r']; [reflexivity|].
    change (unsnoc (x :: y :: r')) with
      (match unsnoc (y :: r') with Some (m, e) => Some (x :: m, e) | None => None end).
    destruct (unsnoc (y :: r')) as [[m e]|].
    - rewrite IH. reflexivity.
    - discriminate.
  Qed.

  Lemma RdpRel_head a rest o : RdpRel t (a :: rest) o -> exists o', o = a :: o'.
  Proof. intros H; inversion H; subst; eauto. Qed.

  (* ---- the outer loop ---- *)
  Lemma outer_spec fixed : forall fuel a tail out,
    outer t fixed fuel a tail = Some out -> RdpRel t (a :: tail) out.
  Proof.
    induction fuel as [|f IH]; intros a tail out E; cbn [outer] in E; [discriminate|].
    pose proof (unsnoc_spec tail) as U. destruct (unsnoc tail) as [[mids e]|].
    - destruct (inner t fixed (S (length mids)) a mids e []) as [[b after]|] eqn:I; [|discriminate].
      destruct (outer t fixed f b after) as [o|] eqn:O; [|discriminate].
      inversion E; subst out. apply IH in O.
      apply inner_spec in I as (mids' & I1 & I2).
      destruct (RdpRel_head _ _ _ O) as (o' & ->).
      rewrite U, <- I1. now constructor.
    - subst tail. inversion E; subst. constructor.
  Qed.

  Lemma outer_total fixed : forall fuel a tail,
    (length tail < fuel)%nat -> outer t fixed fuel a tail <> None.
  Proof.
    induction fuel as [|f IH]; intros a tail L; [lia|]. cbn [outer].
    pose proof (unsnoc_spec tail) as U. destruct (unsnoc tail) as [[mids e]|]; [|discriminate].
    destruct (inner t fixed (S (length mids)) a mids e []) as [[b after]|] eqn:I.
    - assert (length after < length tail)%nat as LA.
      { apply inner_spec in I as (mids' & I1 & _). rewrite U, <- I1, app_length. simpl. lia. }
      specialize (IH b after). destruct (outer t fixed f b after); [discriminate|].
      exfalso. apply IH; auto. lia.
    - exfalso. revert I. apply inner_total. lia.
  Qed.

  Lemma outer_fixed_irrelevant : forall fuel a tail, outer t false fuel a tail = outer t true fuel a tail.
  Proof.
    induction fuel as [|f IH]; intros; cbn [outer]; auto.
    destruct (unsnoc tail) as [[mids e]|]; auto.
    rewrite inner_fixed_irrelevant.
    destruct (inner t true (S (length mids)) a mids e []) as [[b after]|]; auto.
    now rewrite IH.
  Qed.

  (* ---- ramerDouglasPeucker ---- *)
  Lemma rdp_gen_total (vs : list qv) : rdp_gen t true vs = Some (rdp t vs).
  Proof.
    unfold rdp. destruct (rdp_gen t true vs) eqn:E; auto. exfalso.
    unfold rdp_gen in E. destruct vs as [|a [|b [|c r]]]; try discriminate.
    revert E. apply outer_total. simpl. lia.
  Qed.

  (* today's code and the repaired code agree for every non-negative threshold *)
  Theorem rdp_unfixed_agrees (vs : list qv) : rdp_unfixed t vs = Some (rdp t vs).
  Proof.
    rewrite <- rdp_gen_total. unfold rdp_unfixed, rdp_gen.
    destruct vs as [|a [|b [|c r]]]; auto. apply outer_fixed_irrelevant.
  Qed.

  Theorem rdp_short (vs : list qv) : (length vs <= 2)%nat -> rdp t vs = vs.
  Proof.
    intros L. unfold rdp, rdp_gen. destruct vs as [|a [|b [|c r]]]; auto. simpl in L. lia.
  Qed.

  Theorem rdp_rel (vs : list qv) : vs <> [] -> RdpRel t vs (rdp t vs).
  Proof.
    intros NE. destruct vs as [|a [|b [|c r]]]; try congruence.
    - rewrite rdp_short by (simpl; lia). constructor.
    - rewrite rdp_short by (simpl; lia). apply (RR_step t a [] b [] []); constructor.
    - pose proof (rdp_gen_total (a :: b :: c :: r)) as E. unfold rdp_gen in E.
      now apply outer_spec in E.
  Qed.

  (* ---- consequences of the relation ---- *)
  Lemma RdpRel_subseq i o : RdpRel t i o -> Subseq o i.
  Proof.
    induction 1.
    - apply Subseq_refl.
    - constructor. now apply Subseq_app_l.
  Qed.

  Lemma RdpRel_first i o : RdpRel t i o -> hd_error o = hd_error i.
  Proof. induction 1; reflexivity. Qed.

  Lemma last_cons_ne {A} (y : A) l d : l <> [] -> last (y :: l) d = last l d.
  Proof. destruct l; [congruence | reflexivity]. Qed.

  Lemma last_app_cons {A} (m : list A) x r d : last (m ++ x :: r) d = last (x :: r) d.
  Proof.
    induction m as [|y m IH]; auto. simpl app.
    rewrite last_cons_ne; auto. destruct m; discriminate.
  Qed.

  Lemma RdpRel_last i o d : RdpRel t i o -> last o d = last i d.
  Proof.
    induction 1; auto.
    rewrite (last_cons_ne a (b :: out)) by discriminate.
    rewrite (last_cons_ne a (mids ++ b :: rest)) by (destruct mids; discriminate).
    now rewrite last_app_cons.
  Qed.

  (* every input vertex is retained, or lies within t of the line through two consecutive
     retained vertices that bracket it *)
  Lemma RdpRel_dropped i o : RdpRel t i o ->
    forall p, In p i -> In p o \/ exists a b, In (a, b) (line_segs o) /\ within t a b p.
  Proof.
    induction 1; intros p Hp.
    - now left.
    - destruct Hp as [->|Hp]; [left; now left|].
      apply in_app_or in Hp as [Hp|Hp].
      + right. exists a, b. split; [now left|]. rewrite Forall_forall in H. now apply H.
      + destruct (IHRdpRel p Hp) as [I|(x & y & I1 & I2)].
        * left. now right.
        * right. exists x, y. split; auto. simpl. right. exact I1.
  Qed.

  (* the bracketing is by position, not only by value: the input splits into runs, each run lying
     between two consecutive retained vertices *)
  Lemma RdpRel_length i o : RdpRel t i o -> (length o <= length i)%nat.
  Proof. intros H. apply Subseq_length. now apply RdpRel_subseq. Qed.

  (* ---- the executable relation accepts what the relation allows ---- *)
  Lemma veqb_refl (a : qv) : veqb a a = true.
  Proof. unfold veqb. rewrite !Qeq_bool_refl. reflexivity. Qed.

  Lemma within_b_iff a b p : within_b t a b p = true <-> within t a b p.
  Proof. unfold within_b, within. apply Qle_bool_iff. Qed.

  Lemma rr_scan_complete : forall i o, RdpRel t i o ->
    forall a' mids', Forall (within t a' (hd a' o)) mids' ->
      match o with
      | [] => False
      | b :: o' => rr_scan t a' o (mids' ++ i) = true
      end.
  Proof.
    induction 1; intros a' mids' F.
    - simpl in *. induction mids' as [|x m IH]; simpl.
      + rewrite veqb_refl. reflexivity.
      + inversion F; subst. apply within_b_iff in H1. rewrite H1, IH by auto. apply orb_true_r.
    - simpl hd in F. induction mids' as [|x m IHm].
      + simpl app. simpl. rewrite veqb_refl. simpl.
        specialize (IHRdpRel a mids H). simpl in IHRdpRel. rewrite IHRdpRel. reflexivity.
      + inversion F; subst. apply within_b_iff in H3. simpl app.
        change (rr_scan t a' (a :: b :: out) (x :: (m ++ a :: mids ++ b :: rest)))
          with ((veqb x a && rr_scan t a (b :: out) (m ++ a :: mids ++ b :: rest))
                || (within_b t a' a x && rr_scan t a' (a :: b :: out) (m ++ a :: mids ++ b :: rest))).
        rewrite H3, IHm by auto. apply orb_true_r.
  Qed.

  Theorem rdp_rel_b_complete i o : RdpRel t i o -> rdp_rel_b t i o = true.
  Proof.
    intros H. destruct H.
    - simpl. apply veqb_refl.
    - unfold rdp_rel_b. rewrite veqb_refl. simpl andb.
      assert (RdpRel t (b :: rest) (b :: out)) as R by assumption.
      pose proof (rr_scan_complete _ _ R a mids H) as X. simpl in X.
      destruct (mids ++ b :: rest); exact X.
  Qed.

  (* ... and nothing else: an accepted pair is related by RdpRelV *)
  Lemma rr_scan_sound : forall inp a' out x,
    veqb x a' = true -> out <> [] -> rr_scan t a' out inp = true -> RdpRelV t (x :: inp) (a' :: out).
  Proof.
    induction inp as [|x0 r IH]; intros a' out x VX NE H.
    - destruct out; simpl in H; discriminate.
    - destruct out as [|b' out']; [congruence|].
      change (rr_scan t a' (b' :: out') (x0 :: r))
        with ((veqb x0 b' && match out' with [] => match r with [] => true | _ => false end
                                          | _ => rr_scan t b' out' r end)
              || (within_b t a' b' x0 && rr_scan t a' (b' :: out') r)) in H.
      apply orb_prop in H as [H|H]; apply andb_prop in H as [H1 H2].
      + destruct out' as [|c out''].
        * destruct r; [|discriminate].
          apply (RV_step t x a' [] x0 b' [] []); auto. now constructor.
        * apply (RV_step t x a' [] x0 b' r (c :: out'')); auto.
          apply IH; auto. discriminate.
      + specialize (IH a' (b' :: out') x VX NE H2).
        inversion IH as [|? ? mids b ? rest ? V0 F0 R0]; subst.
        apply (RV_step t x a' (x0 :: mids) b b' rest out'); auto.
  Qed.

  Theorem rdp_rel_b_sound i o : rdp_rel_b t i o = true -> RdpRelV t i o.
  Proof.
    unfold rdp_rel_b. destruct i as [|a r]; [discriminate|].
    destruct o as [|a' o']; [destruct r; discriminate|].
    destruct o' as [|b' o''].
    - destruct r; [|discriminate]. intros H. now constructor.
    - intros H.
      assert (veqb a a' && rr_scan t a' (b' :: o'') r = true) as H' by (destruct r; exact H).
      apply andb_prop in H' as [H1 H2]. apply rr_scan_sound; auto. discriminate.
  Qed.

  Corollary rdp_rel_b_model (vs : list qv) : vs <> [] -> rdp_rel_b t vs (rdp t vs) = true.
  Proof. intros NE. apply rdp_rel_b_complete. now apply rdp_rel. Qed.
End RDPProofs.
