(* Property C17 - facts about the binary64 transcription of snapToGridFloat64 (Model/TrSnapFloat.v),
   by evaluation with the kernel's primitive floats. *)
From Coq Require Import Floats ZArith Bool List.
From SF Require Import Model.TrSnapFloat.
Import ListNotations.
Open Scope float_scope.

(* F10: before fixes/F10.patch a finite ordinate becomes -Inf (POINT(-1e300 ..).SnapToGrid(10)) or
   NaN (ordinate 0 with 320 places) *)
Lemma snap_float_finite_refuted_lemma :
  exists (x : float) (dp : Z), f_is_finite x = true /\ f_is_finite (snap_f false x dp) = false.
Proof. exists (-0x1.7e43c8800759cp+996), 10%Z. vm_compute. split; reflexivity. Qed.

Lemma snap_float_nan_refuted_lemma :
  f_is_nan (snap_f false 0 320) = true /\ f_is_nan (snap_f false (-0x1.7e43c8800759cp+996) 320) = true.
Proof. vm_compute. split; reflexivity. Qed.

(* the repaired code on the same inputs, and on the boundary values of the quantifier
   (+-1e300, +-0, smallest subnormal; places -320, -308, 0, 10, 308, 309, 320) *)
Definition f10_inputs : list float :=
  [-0x1.7e43c8800759cp+996; 0x1.7e43c8800759cp+996; 0; -0; 0x1p-1074; -0x1p-1074; 0x1p-1022; 2.5; -2.5].
Definition f10_places : list Z := [-320; -309; -308; -1; 0; 1; 10; 22; 23; 307; 308; 309; 320]%Z.
Lemma snap_float_fixed_finite_on_boundary :
  forallb (fun x => forallb (fun dp => f_is_finite (snap_f true x dp)) f10_places) f10_inputs = true.
Proof. vm_compute. reflexivity. Qed.

(* oddness (as numbers: the sign of a zero result is not preserved by the negative-places path,
   which returns the literal 0) on the same grid of boundary values *)
Lemma snap_float_fixed_odd_on_boundary :
  forallb (fun x => forallb (fun dp => (snap_f true (- x) dp =? - snap_f true x dp)) f10_places)
          f10_inputs = true.
Proof. vm_compute. reflexivity. Qed.
