(* Property C17 - lemmas about the exact SnapToGrid model (Model/TrSnap.v). *)
From Coq Require Import ZArith QArith Qround Qabs Qfield Lqa Lia Bool.
From SF Require Import Model.TrSnap.

Lemma Qle_bool_false (a b : Q) : Qle_bool a b = false -> b < a.
Proof.
  intros H. apply Qnot_le_lt. intros L. apply Qle_bool_iff in L. congruence.
Qed.

Lemma rha_comp (q q' : Q) : q == q' -> round_half_away q = round_half_away q'.
Proof.
  intros E. unfold round_half_away.
  assert (Qle_bool 0 q = Qle_bool 0 q') as ->.
  { destruct (Qle_bool 0 q) eqn:A, (Qle_bool 0 q') eqn:B; auto.
    - apply Qle_bool_iff in A. apply Qle_bool_false in B. lra.
    - apply Qle_bool_iff in B. apply Qle_bool_false in A. lra. }
  destruct (Qle_bool 0 q').
  - apply Qfloor_comp. lra.
  - f_equal. apply Qfloor_comp. lra.
Qed.

Lemma Qfloor_plus_half (k : Z) : Qfloor (inject_Z k + (1 # 2)) = k.
Proof.
  pose proof (Qfloor_le (inject_Z k + (1 # 2))) as L.
  pose proof (Qlt_floor (inject_Z k + (1 # 2))) as U.
  set (f := Qfloor (inject_Z k + (1 # 2))) in *.
  rewrite inject_Z_plus in U. change (inject_Z 1) with 1 in U.
  assert (inject_Z f < inject_Z (k + 1)) as A by (rewrite inject_Z_plus; change (inject_Z 1) with 1; lra).
  assert (inject_Z (k - 1) < inject_Z f) as B
    by (unfold Z.sub; rewrite inject_Z_plus, inject_Z_opp; change (inject_Z 1) with 1; lra).
  rewrite <- Zlt_Qlt in A, B. lia.
Qed.

Lemma rha_Z (k : Z) : round_half_away (inject_Z k) = k.
Proof.
  unfold round_half_away. destruct (Qle_bool 0 (inject_Z k)) eqn:E.
  - apply Qfloor_plus_half.
  - rewrite <- inject_Z_opp, Qfloor_plus_half. lia.
Qed.

Lemma rha_opp (q : Q) : round_half_away (- q) = (- round_half_away q)%Z.
Proof.
  unfold round_half_away.
  destruct (Qle_bool 0 q) eqn:A, (Qle_bool 0 (- q)) eqn:B.
  - apply Qle_bool_iff in A, B. assert (q == 0) as E by lra.
    rewrite (Qfloor_comp (- q + (1 # 2)) (inject_Z 0 + (1 # 2))) by (rewrite E; reflexivity).
    rewrite (Qfloor_comp (q + (1 # 2)) (inject_Z 0 + (1 # 2))) by (rewrite E; reflexivity).
    rewrite Qfloor_plus_half. reflexivity.
  - f_equal. apply Qfloor_comp. lra.
  - rewrite Z.opp_involutive. reflexivity.
  - apply Qle_bool_false in A, B. lra.
Qed.

Lemma rha_err (q : Q) : Qabs (inject_Z (round_half_away q) - q) <= 1 # 2.
Proof.
  unfold round_half_away. destruct (Qle_bool 0 q) eqn:A.
  - pose proof (Qfloor_le (q + (1 # 2))). pose proof (Qlt_floor (q + (1 # 2))) as U.
    rewrite inject_Z_plus in U. change (inject_Z 1) with 1 in U.
    apply Qabs_Qle_condition. split; lra.
  - pose proof (Qfloor_le (- q + (1 # 2))). pose proof (Qlt_floor (- q + (1 # 2))) as U.
    rewrite inject_Z_plus in U. change (inject_Z 1) with 1 in U.
    rewrite inject_Z_opp. apply Qabs_Qle_condition. split; lra.
Qed.

Lemma pow10_pos (p : positive) : 0 < pow10 p.
Proof.
  unfold pow10. change 0 with (inject_Z 0). rewrite <- Zlt_Qlt. apply Z.pow_pos_nonneg; lia.
Qed.

Lemma grid_step_pos (dp : Z) : 0 < grid_step dp.
Proof.
  destruct dp; simpl; try lra.
  - apply Qinv_lt_0_compat, pow10_pos.
  - apply pow10_pos.
Qed.

(* all three paths are "round (x / step) * step" *)
Lemma snapQ_unfold (x : Q) (dp : Z) :
  snapQ x dp == inject_Z (round_half_away (x / grid_step dp)) * grid_step dp.
Proof.
  pose proof (grid_step_pos dp) as P.
  destruct dp as [|p|p]; simpl in *.
  - rewrite (rha_comp (x / 1) x) by (field). ring.
  - pose proof (pow10_pos p) as S.
    rewrite (rha_comp (x / / pow10 p) (x * pow10 p)) by (field; lra). field. lra.
  - reflexivity.
Qed.

Theorem snapQ_on_grid (x : Q) (dp : Z) : exists k : Z, snapQ x dp == inject_Z k * grid_step dp.
Proof. eexists. apply snapQ_unfold. Qed.

Theorem snapQ_half_step (x : Q) (dp : Z) : Qabs (snapQ x dp - x) <= (1 # 2) * grid_step dp.
Proof.
  rewrite snapQ_unfold. pose proof (grid_step_pos dp) as P. set (s := grid_step dp) in *.
  pose proof (rha_err (x / s)) as E. set (k := inject_Z (round_half_away (x / s))) in *.
  apply Qabs_Qle_condition in E as [E1 E2]. apply Qabs_Qle_condition.
  assert (x == (x / s) * s) as X by (field; lra).
  split.
  - setoid_replace (k * s - x) with ((k - x / s) * s) by (rewrite X at 1; ring). nra.
  - setoid_replace (k * s - x) with ((k - x / s) * s) by (rewrite X at 1; ring). nra.
Qed.

Theorem snapQ_odd (x : Q) (dp : Z) : snapQ (- x) dp == - snapQ x dp.
Proof.
  rewrite !snapQ_unfold. pose proof (grid_step_pos dp) as P.
  rewrite (rha_comp (- x / grid_step dp) (- (x / grid_step dp))) by (field; lra).
  rewrite rha_opp, inject_Z_opp. ring.
Qed.

Theorem snapQ_comp (x x' : Q) (dp : Z) : x == x' -> snapQ x dp == snapQ x' dp.
Proof.
  intros E. rewrite !snapQ_unfold. pose proof (grid_step_pos dp) as P.
  rewrite (rha_comp (x / grid_step dp) (x' / grid_step dp)) by (rewrite E; reflexivity). reflexivity.
Qed.

Theorem snapQ_grid_fixed (k : Z) (dp : Z) : snapQ (inject_Z k * grid_step dp) dp == inject_Z k * grid_step dp.
Proof.
  rewrite snapQ_unfold. pose proof (grid_step_pos dp) as P.
  rewrite (rha_comp (inject_Z k * grid_step dp / grid_step dp) (inject_Z k)) by (field; lra).
  rewrite rha_Z. reflexivity.
Qed.

Theorem snapQ_idempotent (x : Q) (dp : Z) : snapQ (snapQ x dp) dp == snapQ x dp.
Proof.
  destruct (snapQ_on_grid x dp) as [k E].
  rewrite (snapQ_comp _ _ dp E), E. apply snapQ_grid_fixed.
Qed.

(* the snapped value is a nearest grid point: no grid point is closer to x *)
Theorem snapQ_nearest (x : Q) (dp : Z) (j : Z) :
  Qabs (snapQ x dp - x) <= Qabs (inject_Z j * grid_step dp - x).
Proof.
  pose proof (grid_step_pos dp) as P. rewrite snapQ_unfold. set (s := grid_step dp) in *.
  set (q := x / s). assert (x == q * s) as X by (unfold q; field; lra).
  setoid_replace (inject_Z (round_half_away q) * s - x) with ((inject_Z (round_half_away q) - q) * s)
    by (rewrite X at 1; ring).
  setoid_replace (inject_Z j * s - x) with ((inject_Z j - q) * s) by (rewrite X at 1; ring).
  rewrite !Qabs_Qmult, (Qabs_pos s) by lra.
  apply Qmult_le_compat_r; [|lra].
  (* |round q - q| <= |j - q| for every integer j *)
  pose proof (rha_err q) as E.
  destruct (Z.eq_dec j (round_half_away q)) as [->|N]; [lra|].
  assert (1 <= Qabs (inject_Z j - inject_Z (round_half_away q))) as D.
  { assert (inject_Z j - inject_Z (round_half_away q) == inject_Z (j - round_half_away q)) as EE
      by (unfold Z.sub; rewrite inject_Z_plus, inject_Z_opp; ring).
    rewrite EE. unfold inject_Z. rewrite <- Zabs_Qabs. unfold Qle; simpl. lia. }
  pose proof (Qabs_triangle (inject_Z j - q) (q - inject_Z (round_half_away q))) as T.
  setoid_replace (inject_Z j - q + (q - inject_Z (round_half_away q)))
    with (inject_Z j - inject_Z (round_half_away q)) in T by ring.
  rewrite (Qabs_Qminus q) in T. lra.
Qed.
