(* Property C17 - the final statements, assembled from the per-operation lemma files; Props/C17.v
   closes each theorem with [exact]. *)
From Coq Require Import ZArith NArith QArith Qabs List Bool Permutation Lia Lqa.
From SF Require Import Base.Outcome Base.GeomAST Model.TrCommon Model.TrReverse Model.TrSnap Model.TrForce
  Model.TrSimplify Model.TrDensify Model.TrInterp
  Proofs.TrReverse_proofs Proofs.TrSnap_proofs Proofs.TrForce_proofs Proofs.TrSimplify_proofs
  Proofs.TrDensify_proofs Proofs.TrInterp_proofs.
Import ListNotations.

(* ---- Reverse ---- *)
Lemma reverse_keeps_vertices_lemma : forall (F : Type) (g : geomT F),
  Permutation (geom_vs (rev_geom g)) (geom_vs g)
  /\ geom_ct (rev_geom g) = geom_ct g /\ geom_type (rev_geom g) = geom_type g
  /\ is_empty (rev_geom g) = is_empty g.
Proof.
  intros F g. split; [apply geom_vs_rev_perm|]. split; [apply geom_ct_rev|].
  split; [apply geom_type_rev | apply is_empty_rev].
Qed.

(* ---- ForceCW / ForceCCW ---- *)
Lemma force_idempotent_lemma : forall g : geomT Q, geom_ext_nonzero g = true ->
  geom_force_cw (geom_force_cw g) = geom_force_cw g /\ geom_force_ccw (geom_force_ccw g) = geom_force_ccw g.
Proof. intros g H. split; [now apply geom_force_cw_idem | now apply geom_force_ccw_idem]. Qed.

Lemma force_same_pointset_lemma : forall g : geomT Q,
  undirected_perm (geom_segs (geom_force_cw g)) (geom_segs g)
  /\ undirected_perm (geom_segs (geom_force_ccw g)) (geom_segs g)
  /\ Permutation (geom_vs (geom_force_cw g)) (geom_vs g)
  /\ Permutation (geom_vs (geom_force_ccw g)) (geom_vs g)
  /\ geom_ct (geom_force_cw g) = geom_ct g /\ geom_type (geom_force_cw g) = geom_type g
  /\ geom_ct (geom_force_ccw g) = geom_ct g /\ geom_type (geom_force_ccw g) = geom_type g.
Proof.
  intros g. split; [apply geom_force_cw_segs|]. split; [apply geom_force_ccw_segs|].
  split; [apply geom_force_cw_vs|]. split; [apply geom_force_ccw_vs|].
  destruct (geom_force_cw_shape g) as [A B]. destruct (geom_force_ccw_shape g) as [C D]. auto.
Qed.

(* ---- Simplify ---- *)
Lemma rdp_subsequence_lemma : forall (t : Q) (vs : list qv), 0 <= t -> Subseq (rdp t vs) vs.
Proof.
  intros t vs H. destruct vs as [|a r].
  - rewrite rdp_short by (simpl; auto). constructor.
  - apply (RdpRel_subseq t). apply rdp_rel; auto. discriminate.
Qed.

Lemma rdp_endpoints_lemma : forall (t : Q) (vs : list qv) (d : qv), 0 <= t -> vs <> [] ->
  hd_error (rdp t vs) = hd_error vs /\ last (rdp t vs) d = last vs d.
Proof.
  intros t vs d H NE. pose proof (rdp_rel t H vs NE) as R. split.
  - now apply (RdpRel_first t). - now apply (RdpRel_last t).
Qed.

Lemma rdp_dropped_within_t_lemma : forall (t : Q) (vs : list qv) (p : qv), 0 <= t -> In p vs ->
  In p (rdp t vs) \/ exists a b, In (a, b) (line_segs (rdp t vs)) /\ pd2 a b p <= t * t.
Proof.
  intros t vs p H I. assert (vs <> []) as NE by (destruct vs; [destruct I | discriminate]).
  exact (RdpRel_dropped t _ _ (rdp_rel t H vs NE) p I).
Qed.

Lemma rdp_negative_threshold_refuted_lemma : exists (t : Q) (vs : list qv), rdp_unfixed t vs = None.
Proof.
  exists (-1 # 1), [Build_vtx 0 0 0 0; Build_vtx 1 1 0 0; Build_vtx 2 0 0 0]. vm_compute. reflexivity.
Qed.

(* geometry level: what Simplify does around the sequence algorithm *)
Section SimplifyGeom.
  Variable t : Q.
  Variable poly_valid : polyT Q -> bool.
  Variable mpoly_valid : list (polyT Q) -> bool.
  Variable validate : bool.

  (* LineString: the RDP result, or the empty LineString when that has fewer than two distinct
     points; coordinates type kept; the result always passes LineString validation *)
  Lemma simplify_line_lemma (l : lineT Q) :
    line_ct (simplify_line t l) = line_ct l
    /\ (line_vs (simplify_line t l) = rdp t (line_vs l) \/ line_vs (simplify_line t l) = [])
    /\ line_valid_vs (line_vs (simplify_line t l)) = true.
  Proof.
    destruct l as [ct vs]. unfold simplify_line.
    destruct (line_valid_vs (rdp t vs)) eqn:V; simpl; auto.
  Qed.

  Lemma fold_ct_const {A} (f : A -> ctype) (c : ctype) (l : list A) :
    Forall (fun x => f x = c) l -> forall acc,
    fold_left (fun acc a => ct_and acc (f a)) l acc = match l with [] => acc | _ => ct_and acc c end.
  Proof.
    induction 1 as [|x r Hx Hr IH]; intros acc; [reflexivity|].
    simpl. rewrite Hx, IH. destruct r; [reflexivity|].
    now rewrite <- ct_and_assoc, ct_and_idem.
  Qed.
  Lemma and_all_const {A} (f : A -> ctype) (c : ctype) (l : list A) :
    l <> [] -> Forall (fun x => f x = c) l -> and_all f l = c.
  Proof.
    intros NE H. unfold and_all. rewrite (fold_ct_const f c l H).
    destruct l; [congruence|]. apply ct_and_xyzm_l.
  Qed.

  (* Polygon: collapse rule, coordinates type, and the validation gate *)
  Lemma simplify_poly_collapse (ct : ctype) (rs : list (lineT Q)) :
    collapsed (match rs with [] => MkLine ct [] | r :: _ => simplify_line t r end) = true ->
    simplify_poly t poly_valid validate (MkPoly ct rs) = Ok (MkPoly ct []).
  Proof. intros H. unfold simplify_poly. now rewrite H. Qed.

  Lemma simplify_poly_gate (p p' : polyT Q) :
    simplify_poly t poly_valid validate p = Ok p' -> validate = true ->
    poly_rings p' = [] \/ poly_valid p' = true.
  Proof.
    destruct p as [ct rs]. unfold simplify_poly.
    destruct (collapsed _); intros H V.
    - inversion H. now left.
    - rewrite V in H. destruct (poly_valid _) eqn:G; [|discriminate]. inversion H; subst. now right.
  Qed.

  Lemma simplify_poly_ct (ct : ctype) (rs : list (lineT Q)) (p' : polyT Q) :
    Forall (fun r => line_ct r = ct) rs ->
    simplify_poly t poly_valid validate (MkPoly ct rs) = Ok p' -> poly_ct p' = ct.
  Proof.
    intros F. unfold simplify_poly.
    set (ext := match rs with [] => MkLine ct [] | r :: _ => simplify_line t r end).
    assert (line_ct ext = ct) as EC.
    { unfold ext. destruct rs as [|r rest]; [reflexivity|].
      inversion F; subst. destruct (simplify_line_lemma r) as [-> _]. reflexivity. }
    destruct (collapsed ext); intros H.
    - inversion H. reflexivity.
    - set (holes := filter (fun r => negb (collapsed r)) (map (simplify_line t) (tl rs))) in *.
      assert (poly_ct (new_polygon 0 (ext :: holes)) = ct) as PC.
      { unfold new_polygon. simpl poly_ct. apply and_all_const; [discriminate|].
        constructor; auto. unfold holes. apply Forall_forall. intros x Hx.
        apply filter_In in Hx as [Hx _]. apply in_map_iff in Hx as (r & <- & Hr).
        destruct (simplify_line_lemma r) as [-> _].
        rewrite Forall_forall in F. apply F. destruct rs; [destruct Hr | now right]. }
      destruct validate; [destruct (poly_valid _); [|discriminate]|]; injection H as <-; exact PC.
  Qed.

  (* every ring of a non-collapsed result has at least 4 points *)
  Lemma simplify_poly_rings (p p' : polyT Q) :
    simplify_poly t poly_valid validate p = Ok p' ->
    Forall (fun r => (4 <= length (line_vs r))%nat) (poly_rings p').
  Proof.
    destruct p as [ct rs]. unfold simplify_poly.
    set (ext := match rs with [] => MkLine ct [] | r :: _ => simplify_line t r end).
    destruct (collapsed ext) eqn:CE; intros H.
    - inversion H. constructor.
    - set (holes := filter (fun r => negb (collapsed r)) (map (simplify_line t) (tl rs))) in *.
      assert (Forall (fun r => (4 <= length (line_vs r))%nat) (poly_rings (new_polygon 0 (ext :: holes)))) as G.
      { change (poly_rings (new_polygon 0 (ext :: holes)))
          with (map (force_line 0 (and_all (@line_ct Q) (ext :: holes))) (ext :: holes)).
        apply Forall_forall. intros x Hx.
        apply in_map_iff in Hx as (r & <- & Hr).
        assert (collapsed r = false) as NC.
        { destruct Hr as [<-|Hr]; auto. unfold holes in Hr. apply filter_In in Hr as [_ Hr].
          now apply negb_true_iff in Hr. }
        unfold collapsed in NC. apply Nat.ltb_ge in NC.
        destruct r as [c vs]. simpl. rewrite map_length. exact NC. }
      destruct validate; [destruct (poly_valid _); [|discriminate]|]; injection H as <-; exact G.
  Qed.

  (* MultiPolygon: the gate *)
  Lemma simplify_mpoly_gate (ct : ctype) (ps : list (polyT Q)) (g : geomT Q) :
    simplify_mpoly t poly_valid mpoly_valid validate ct ps = Ok g -> validate = true ->
    exists c qs, g = force_geom 0 ct (GMPoly c qs) /\ mpoly_valid qs = true.
  Proof.
    unfold simplify_mpoly. destruct (omap_list _ ps) as [ps'| |]; try discriminate.
    intros H V. rewrite V in H. simpl in H.
    set (polys := filter (fun p => negb (poly_empty p)) ps') in *.
    destruct polys as [|q qs'] eqn:E.
    - simpl in H. destruct (mpoly_valid []) eqn:G; [|discriminate]. simpl in H.
      inversion H. exists XY, []. auto.
    - unfold new_multipoly in H.
      set (c := and_all (@poly_ct Q) (q :: qs')) in *.
      destruct (mpoly_valid (map (force_poly 0 c) (q :: qs'))) eqn:G; [|discriminate]. simpl in H.
      inversion H. exists c, (map (force_poly 0 c) (q :: qs')). auto.
  Qed.

  (* Simplify never panics: it returns a geometry or an error *)
  Lemma omap_list_no_panic {A B} (f : A -> outcome B) (l : list A) :
    (forall x, is_panic (f x) = false) -> is_panic (omap_list f l) = false.
  Proof.
    intros H. induction l as [|x r IH]; [reflexivity|]. simpl.
    specialize (H x). destruct (f x); try discriminate; auto.
    destruct (omap_list f r); auto.
  Qed.
  Lemma simplify_poly_no_panic p : is_panic (simplify_poly t poly_valid validate p) = false.
  Proof.
    destruct p as [ct rs]. unfold simplify_poly. destruct (collapsed _); [reflexivity|].
    destruct validate; [destruct (poly_valid _)|]; reflexivity.
  Qed.
  Lemma simplify_geom_no_panic (g : geomT Q) :
    is_panic (simplify_geom t poly_valid mpoly_valid validate g) = false.
  Proof.
    induction g using geomT_ind'; simpl; auto.
    - pose proof (simplify_poly_no_panic p). destruct (simplify_poly _ _ _ p); auto.
    - unfold simplify_mpoly.
      pose proof (omap_list_no_panic (simplify_poly t poly_valid validate) ps simplify_poly_no_panic) as P.
      destruct (omap_list _ ps); auto; try discriminate.
      destruct (validate && _); reflexivity.
    - match goal with |- is_panic (match ?X with _ => _ end) = false => assert (is_panic X = false) as P end.
      { induction H as [|x r Hx Hr IH]; [reflexivity|].
        destruct (simplify_geom _ _ _ _ x); try discriminate; auto.
        match goal with |- is_panic (match ?Y with _ => _ end) = false => destruct Y end; auto. }
      match goal with |- is_panic (match ?X with _ => _ end) = false => destruct X end; auto; discriminate.
  Qed.
End SimplifyGeom.

(* ---- Densify ---- *)
(* every point between two consecutive originals a, b is a + (j/k)(b-a) with 0 < j < k = kf a b, in
   all four ordinates (Z and M interpolated exactly like X and Y), j counting from 1 *)
Lemma densify_on_segment_lemma : forall (kf : qv -> qv -> Z) (vs : list qv),
  DensRel kf vs (densify_seq kf vs).
Proof. exact densify_rel. Qed.

Lemma densify_gap_lemma' : forall (kf : qv -> qv -> Z) (d : Q),
  (forall a b, (0 <= kf a b)%Z /\ d2 a b <= inject_Z (kf a b) * inject_Z (kf a b) * (d * d)) ->
  forall vs, Forall (fun s => d2 (fst s) (snd s) <= d * d) (line_segs (densify_seq kf vs)).
Proof. intros kf d H vs. exact (densify_gap_lemma kf d H vs). Qed.

Lemma densify_degenerate_lemma : forall (kf : qv -> qv -> Z) (d : Q) (a b : qv),
  densify_seq kf [] = [] /\ densify_seq kf [a] = [a]
  /\ (d2 a b == 0 -> k_exact d a b = 0%Z /\ densify_seq (k_exact d) [a; b] = [a; b]).
Proof.
  intros kf d a b. split; [reflexivity|]. split; [reflexivity|].
  intros Z. pose proof (k_exact_zero d a b Z) as K. split; auto.
  simpl. rewrite K. reflexivity.
Qed.

Lemma densify_line_lemma : forall (kf : qv -> qv -> Z) (d : Q) (l : lineT Q),
  (0 < d -> exists l', dens_line kf d l = Ok l' /\ line_ct l' = line_ct l
                       /\ line_vs l' = densify_seq kf (line_vs l))
  /\ (d <= 0 -> dens_line kf d l = Panic POther).
Proof.
  intros kf d l. split.
  - intros D. destruct (dens_line_ok kf d l D) as (l' & E). exists l'. split; auto.
    split; [eapply dens_line_ct; eauto | eapply dens_line_vs; eauto].
  - apply dens_line_panic.
Qed.

(* ---- Interpolate ---- *)
Lemma clamp_lemma : forall f : Q,
  0 <= clamp01 f <= 1 /\ (f <= 0 -> clamp01 f == 0) /\ (1 <= f -> clamp01 f == 1)
  /\ (0 <= f <= 1 -> clamp01 f == f).
Proof.
  intros f. split; [apply clamp01_range|]. split; [apply clamp01_low|].
  split; [apply clamp01_high | apply clamp01_mid].
Qed.

(* on lines all of whose segments have rational length the executable square root is the true one *)
Lemma qsqrt_lemma : forall r : Q, 0 <= qsqrt r /\ (0 <= r -> qsqrt (r * r) == r).
Proof. intros r. split; [apply qsqrt_nonneg | apply qsqrt_square]. Qed.
