(* Property C03 - the touch graph (geom/graph.go): hasCycle / dfsHasCycle report a cycle exactly
   when the undirected simple graph has a simple cycle, whatever order the adjacency maps are
   iterated in (the model fixes list order; the statement does not mention it).
   Main result: has_cycle_spec_lemma. *)
From Coq Require Import List Bool Arith Lia Permutation.
From SF Require Import Model.Validate.
Import ListNotations.


(* ------------------------------------------------------------------ undirected simple graphs *)
Definition Adj (g : graph) (u v : nat) : Prop := In (u, v) g \/ In (v, u) g.
Lemma Adj_sym g u v : Adj g u v -> Adj g v u.
Proof. unfold Adj. tauto. Qed.

Lemma nat_mem_iff x l : nat_mem x l = true <-> In x l.
Proof.
  unfold nat_mem. rewrite existsb_exists. split.
  - intros [y [H E]]. apply Nat.eqb_eq in E. subst. exact H.
  - intros H. exists x. split; auto. apply Nat.eqb_refl.
Qed.
Lemma nat_mem_false x l : nat_mem x l = false <-> ~ In x l.
Proof. rewrite <- nat_mem_iff. destruct (nat_mem x l); split; congruence. Qed.
Lemma nat_nodup_in x l : In x (nat_nodup l) <-> In x l.
Proof.
  induction l as [|y r IH]; simpl; [tauto|].
  destruct (nat_mem y r) eqn:E.
  - rewrite IH. split; auto. intros [<-|H]; auto. apply nat_mem_iff. exact E.
  - simpl. rewrite IH. tauto.
Qed.
Lemma nat_remove_in x y l : In x (nat_remove y l) <-> In x l /\ x <> y.
Proof.
  unfold nat_remove. rewrite filter_In, negb_true_iff, Nat.eqb_neq. intuition.
Qed.

Lemma g_adj_iff g u v : In v (g_adj g u) <-> Adj g u v.
Proof.
  unfold g_adj, Adj. rewrite nat_nodup_in, in_flat_map. split.
  - intros [[a b] [He H]]. simpl in H.
    destruct (Nat.eqb a u) eqn:E1.
    + apply Nat.eqb_eq in E1. destruct H as [<-|[]]. subst. left. exact He.
    + destruct (Nat.eqb b u) eqn:E2; [|destruct H].
      apply Nat.eqb_eq in E2. destruct H as [<-|[]]. subst. right. exact He.
  - intros [H|H].
    + exists (u, v). split; auto. simpl. rewrite Nat.eqb_refl. left; reflexivity.
    + exists (v, u). split; auto. simpl. destruct (Nat.eqb v u) eqn:E.
      * apply Nat.eqb_eq in E. left. symmetry. exact E.
      * rewrite Nat.eqb_refl. left; reflexivity.
Qed.
Lemma g_vertices_iff g v : In v (g_vertices g) <-> exists w, Adj g v w.
Proof.
  unfold g_vertices, Adj. rewrite nat_nodup_in, in_flat_map. split.
  - intros [[a b] [He [<-|[<-|[]]]]]; simpl; [exists b | exists a]; auto.
  - intros [w [H|H]]; [exists (v, w) | exists (w, v)]; simpl; auto.
Qed.

(* a path: consecutive vertices adjacent (listed end point first) *)
Fixpoint gpath (g : graph) (l : list nat) : Prop :=
  match l with
  | a :: ((b :: _) as r) => Adj g a b /\ gpath g r
  | _ => True
  end.
Lemma gpath_cons g a b r : gpath g (a :: b :: r) <-> Adj g a b /\ gpath g (b :: r).
Proof. simpl. tauto. Qed.
Lemma gpath_app_r g l1 l2 : gpath g (l1 ++ l2) -> gpath g l2.
Proof.
  induction l1 as [|a r IH]; [simpl; auto|]. destruct r as [|b r'].
  - change ([a] ++ l2) with (a :: l2). destruct l2 as [|c l2']; [simpl; auto|]. rewrite gpath_cons. tauto.
  - change ((a :: b :: r') ++ l2) with (a :: b :: (r' ++ l2)). rewrite gpath_cons. intros [_ H]. apply IH. exact H.
Qed.
Lemma gpath_app_l g l1 l2 : gpath g (l1 ++ l2) -> gpath g l1.
Proof.
  induction l1 as [|a r IH]; [simpl; auto|]. destruct r as [|b r']; [simpl; auto|].
  change ((a :: b :: r') ++ l2) with (a :: b :: (r' ++ l2)). rewrite !gpath_cons.
  intros [H1 H2]. split; [exact H1 | apply IH; exact H2].
Qed.
Lemma gpath_app g l1 a b l2 : gpath g (l1 ++ [a]) -> Adj g a b -> gpath g (b :: l2) -> gpath g (l1 ++ a :: b :: l2).
Proof.
  induction l1 as [|x r IH].
  - intros _ H1 H2. change ([] ++ a :: b :: l2) with (a :: b :: l2). rewrite gpath_cons. split; assumption.
  - destruct r as [|y r'].
    + change ([x] ++ [a]) with (x :: a :: []). change ([x] ++ a :: b :: l2) with (x :: a :: b :: l2).
      rewrite !gpath_cons. intros [H _] H1 H2. split; [exact H|]. split; assumption.
    + change ((x :: y :: r') ++ [a]) with (x :: y :: (r' ++ [a])).
      change ((x :: y :: r') ++ a :: b :: l2) with (x :: y :: (r' ++ a :: b :: l2)).
      rewrite !gpath_cons. intros [H H'] H1 H2. split; [exact H|]. apply (IH H' H1 H2).
Qed.
Lemma gpath_rev g l : gpath g l -> gpath g (rev l).
Proof.
  induction l as [|a r IH]; simpl; auto. destruct r as [|b r'].
  - simpl. auto.
  - intros [H1 H2]. specialize (IH H2). simpl in *.
    rewrite <- app_assoc. simpl. apply gpath_app; auto.
    + apply Adj_sym. exact H1.
    + simpl. auto.
Qed.

(* a simple cycle: at least three distinct vertices, consecutive ones adjacent, last adjacent to first *)
Definition Cycle (g : graph) (c : list nat) : Prop :=
  3 <= length c /\ NoDup c /\ gpath g c /\ (exists a z, hd_error c = Some a /\ last c a = z /\ Adj g z a).
Definition no_self_loops (g : graph) : Prop := forall e, In e g -> fst e <> snd e.
Lemma Adj_irrefl g u : no_self_loops g -> ~ Adj g u u.
Proof. intros H [K|K]; apply H in K; simpl in K; congruence. Qed.

Definition pred_of (l : list nat) : option nat := match l with _ :: p :: _ => Some p | _ => None end.

(* ---- the loop over the neighbours ---- *)
Lemma opt_nat_eqb_iff o j : opt_nat_eqb o j = true <-> o = Some j.
Proof.
  destruct o as [k|]; simpl; [|split; discriminate]. rewrite Nat.eqb_eq. split; congruence.
Qed.

Lemma dfs_nbs_false rec parent vis nbs unv unv' :
  dfs_nbs rec parent vis nbs unv = (false, unv') ->
  forall nb, In nb nbs -> parent <> Some nb ->
    nat_mem nb vis = false /\ exists u u', rec nb u = (false, u').
Proof.
  revert unv. induction nbs as [|n r IH]; intros unv H nb Hin Hp; [destruct Hin|].
  simpl in H. destruct (opt_nat_eqb parent n) eqn:E1.
  - apply opt_nat_eqb_iff in E1. destruct Hin as [<-|Hin]; [congruence|]. eapply IH; eauto.
  - destruct (nat_mem n vis) eqn:E2; [discriminate|].
    destruct (rec n unv) as [b u2] eqn:E3. destruct b; [discriminate|].
    destruct Hin as [<-|Hin]; [split; eauto | eapply IH; eauto].
Qed.

Lemma dfs_nbs_true rec parent vis nbs unv unv' :
  dfs_nbs rec parent vis nbs unv = (true, unv') ->
  exists nb, In nb nbs /\ parent <> Some nb /\
    (nat_mem nb vis = true \/ (nat_mem nb vis = false /\ exists u u', rec nb u = (true, u'))).
Proof.
  revert unv. induction nbs as [|n r IH]; intros unv H; [discriminate|].
  simpl in H. destruct (opt_nat_eqb parent n) eqn:E1.
  - destruct (IH _ H) as [nb [Hin K]]. exists nb. split; [right; exact Hin | exact K].
  - assert (Hp : parent <> Some n) by (intros K; apply opt_nat_eqb_iff in K; congruence).
    destruct (nat_mem n vis) eqn:E2.
    + exists n. split; [left; reflexivity|]. split; auto.
    + destruct (rec n unv) as [b u2] eqn:E3. destruct b.
      * exists n. split; [left; reflexivity|]. split; auto. right. split; eauto.
      * destruct (IH _ H) as [nb [Hin K]]. exists nb. split; [right; exact Hin | exact K].
Qed.

(* something leaves the unvisited set only through a recursive call *)
Lemma dfs_nbs_removed rec parent vis nbs u1 b u2 x :
  dfs_nbs rec parent vis nbs u1 = (b, u2) -> In x u1 -> ~ In x u2 ->
  exists nb ua b' ub, In nb nbs /\ nat_mem nb vis = false /\ rec nb ua = (b', ub) /\ In x ua /\ ~ In x ub.
Proof.
  revert u1. induction nbs as [|n r IH]; intros u1 H Hx Hnx.
  - simpl in H. inversion H; subst. contradiction.
  - simpl in H. destruct (opt_nat_eqb parent n).
    + destruct (IH _ H Hx Hnx) as [nb [ua [b' [ub [K1 K2]]]]]. exists nb, ua, b', ub. split; [right; exact K1 | exact K2].
    + destruct (nat_mem n vis) eqn:E2.
      * inversion H; subst. contradiction.
      * destruct (rec n u1) as [b1 u3] eqn:E3.
        destruct (in_dec Nat.eq_dec x u3) as [Hin3|Hn3].
        -- destruct b1.
           ++ inversion H; subst. contradiction.
           ++ destruct (IH _ H Hin3 Hnx) as [nb [ua [b' [ub [K1 K2]]]]]. exists nb, ua, b', ub. split; [right; exact K1 | exact K2].
        -- exists n, u1, b1, u3. split; [left; reflexivity|]. auto.
Qed.


Lemma dfs_S g f parent v visited unv :
  dfs g (S f) parent v visited unv =
  dfs_nbs (fun nb u => dfs g f (Some v) nb (v :: visited) u) parent (v :: visited) (g_adj g v) (nat_remove v unv).
Proof. reflexivity. Qed.

(* ---- soundness: a reported cycle exists ---- *)
Lemma in_split_first (x : nat) l : In x l -> exists l1 l2, l = l1 ++ x :: l2.
Proof. apply in_split. Qed.

Lemma NoDup_app_l {A} (l1 l2 : list A) : NoDup (l1 ++ l2) -> NoDup l1.
Proof. induction l1 as [|a r IH]; simpl; intros H; [constructor|]. inversion H; subst. constructor; auto. intros K. apply H2. apply in_or_app; auto. Qed.

Lemma dfs_sound g (Hns : no_self_loops g) f : forall parent v visited unv unv',
  parent = hd_error visited -> NoDup (v :: visited) -> gpath g (v :: visited) ->
  dfs g f parent v visited unv = (true, unv') -> exists c, Cycle g c.
Proof.
  induction f as [|f IH]; intros parent v visited unv unv' Hp Hnd Hpath H; [discriminate|].
  rewrite dfs_S in H. apply dfs_nbs_true in H.
  destruct H as [nb [Hin [Hnp [Hm|[Hm [u [u' Hrec]]]]]]].
  - (* a neighbour on the path other than the parent *)
    apply g_adj_iff in Hin. apply nat_mem_iff in Hm.
    destruct Hm as [<-|Hm]; [exfalso; exact (Adj_irrefl g v Hns Hin)|].
    destruct (in_split nb visited Hm) as [l1 [l2 E]].
    destruct l1 as [|p l1'].
    { subst visited. simpl in Hp. congruence. }
    exists (v :: (p :: l1') ++ [nb]). unfold Cycle.
    assert (Efull : v :: visited = (v :: (p :: l1') ++ [nb]) ++ l2).
    { rewrite E. simpl. rewrite <- app_assoc. reflexivity. }
    split; [simpl; rewrite app_length; simpl; lia|].
    split; [apply (NoDup_app_l _ l2); rewrite <- Efull; exact Hnd|].
    split; [apply (gpath_app_l g _ l2); rewrite <- Efull; exact Hpath|].
    exists v, nb. split; [reflexivity|]. split.
    + change (v :: (p :: l1') ++ [nb]) with ((v :: p :: l1') ++ [nb]). apply last_last.
    + apply Adj_sym. exact Hin.
  - apply g_adj_iff in Hin. apply nat_mem_false in Hm.
    apply (IH (Some v) nb (v :: visited) u u'); auto.
    + constructor; auto.
    + rewrite gpath_cons. split; [apply Adj_sym; exact Hin | exact Hpath].
Qed.

Lemma exists_last_or_nil {A} (l : list A) : l = [] \/ exists l' a, l = l' ++ [a].
Proof.
  destruct l as [|x r]; [left; reflexivity|]. right.
  destruct (@exists_last A (x :: r)) as [l' [a E]]; [discriminate|]. eauto.
Qed.

(* ---- completeness: after a search that reports nothing, no simple path from the start vertex
   ends in a vertex with an edge back into the path (other than to its predecessor) ---- *)
Lemma dfs_complete g f : forall parent v visited unv unv',
  parent = hd_error visited ->
  dfs g f parent v visited unv = (false, unv') ->
  forall q, length q < f -> NoDup (q ++ v :: visited) -> gpath g (q ++ v :: visited) ->
  forall e w, hd_error (q ++ v :: visited) = Some e -> Adj g e w ->
              pred_of (q ++ v :: visited) <> Some w -> ~ In w (q ++ v :: visited).
Proof.
  induction f as [|f IH]; intros parent v visited unv unv' Hp H q Hlen Hnd Hpath e w He Hadj Hpred; [lia|].
  rewrite dfs_S in H.
  destruct (exists_last_or_nil q) as [->|[q' [q1 ->]]].
  - (* the end point is v itself *)
    simpl in *. inversion He; subst e.
    assert (Hw : In w (g_adj g v)) by (apply g_adj_iff; exact Hadj).
    assert (Hnp : parent <> Some w).
    { rewrite Hp. destruct visited; simpl in *; congruence. }
    destruct (dfs_nbs_false _ _ _ _ _ _ H w Hw Hnp) as [Hm _].
    apply nat_mem_false in Hm. exact Hm.
  - (* the path continues through q1, a neighbour of v into which the search descended *)
    rewrite <- app_assoc in *. simpl in *.
    assert (Hq1 : Adj g q1 v).
    { apply gpath_app_r in Hpath. rewrite gpath_cons in Hpath. tauto. }
    assert (Hq1in : In q1 (g_adj g v)) by (apply g_adj_iff; apply Adj_sym; exact Hq1).
    assert (Hq1nv : ~ In q1 (v :: visited)).
    { apply NoDup_remove_2 in Hnd. intros K. apply Hnd. apply in_or_app. right. exact K. }
    assert (Hnp : parent <> Some q1).
    { rewrite Hp. destruct visited as [|p r]; simpl; [congruence|]. intros K. inversion K; subst. apply Hq1nv. right; left; reflexivity. }
    destruct (dfs_nbs_false _ _ _ _ _ _ H q1 Hq1in Hnp) as [_ [u [u' Hrec]]].
    assert (Hlen' : length q' < f) by (rewrite app_length in Hlen; simpl in Hlen; lia).
    exact (IH (Some v) q1 (v :: visited) u u' eq_refl Hrec q' Hlen' Hnd Hpath e w He Hadj Hpred).
Qed.


(* ---- whatever leaves the unvisited set is the end point of a simple path from the start vertex ---- *)
Lemma dfs_removed g f : forall parent v visited u1 b u2 x,
  NoDup (v :: visited) -> gpath g (v :: visited) ->
  dfs g f parent v visited u1 = (b, u2) -> In x u1 -> ~ In x u2 ->
  exists q, NoDup (q ++ v :: visited) /\ gpath g (q ++ v :: visited) /\ hd_error (q ++ v :: visited) = Some x.
Proof.
  induction f as [|f IH]; intros parent v visited u1 b u2 x Hnd Hpath H Hx Hnx.
  - simpl in H. inversion H; subst. contradiction.
  - rewrite dfs_S in H.
    destruct (Nat.eq_dec x v) as [->|Hxv].
    + exists []. simpl. auto.
    + assert (Hx' : In x (nat_remove v u1)) by (apply nat_remove_in; auto).
      destruct (dfs_nbs_removed _ _ _ _ _ _ _ _ H Hx' Hnx) as [nb [ua [b' [ub [Hin [Hm [Hrec [Ha Hb]]]]]]]].
      apply g_adj_iff in Hin. apply nat_mem_false in Hm.
      assert (Hnd' : NoDup (nb :: v :: visited)) by (constructor; auto).
      assert (Hpath' : gpath g (nb :: v :: visited)) by (rewrite gpath_cons; split; [apply Adj_sym; exact Hin | exact Hpath]).
      destruct (IH (Some v) nb (v :: visited) ua b' ub x Hnd' Hpath' Hrec Ha Hb) as [q [Q1 [Q2 Q3]]].
      exists (q ++ [nb]). rewrite <- app_assoc. simpl. auto.
Qed.

(* the unvisited set only shrinks *)
Lemma dfs_nbs_mono rec p vis nbs :
  (forall nb u b u', rec nb u = (b, u') -> forall y, In y u' -> In y u) ->
  forall ua b ub, dfs_nbs rec p vis nbs ua = (b, ub) -> forall y, In y ub -> In y ua.
Proof.
  intros Hrec. induction nbs as [|n r IH]; intros ua b ub H y Hy.
  - simpl in H. inversion H; subst. exact Hy.
  - simpl in H. destruct (opt_nat_eqb p n); [eapply IH; eauto|].
    destruct (nat_mem n vis); [inversion H; subst; exact Hy|].
    destruct (rec n ua) as [b1 u3] eqn:E. destruct b1.
    + inversion H; subst. eapply Hrec; eauto.
    + eapply Hrec; eauto.
Qed.
Lemma dfs_mono g f : forall p w vis ua b ub, dfs g f p w vis ua = (b, ub) -> forall y, In y ub -> In y ua.
Proof.
  induction f as [|f IH]; intros p w vis ua b ub H y Hy.
  - simpl in H. inversion H; subst. exact Hy.
  - rewrite dfs_S in H.
    assert (K : In y (nat_remove w ua)).
    { eapply dfs_nbs_mono; [|exact H|exact Hy]. intros nb u b0 u' E. eapply IH. exact E. }
    apply nat_remove_in in K. tauto.
Qed.
Lemma dfs_removes_root g f parent v visited u1 b u2 : dfs g (S f) parent v visited u1 = (b, u2) -> ~ In v u2.
Proof.
  rewrite dfs_S. intros H Hin.
  assert (K : In v (nat_remove v u1)).
  { eapply dfs_nbs_mono; [|exact H|exact Hin]. intros nb u b0 u' E. eapply dfs_mono. exact E. }
  apply nat_remove_in in K. tauto.
Qed.

(* ---- the outer loop of hasCycle ---- *)
Lemma cycle_loop_false g f todo : forall unv x,
  cycle_loop g (S f) todo unv = false -> In x todo -> In x unv ->
  exists r u1 u2, dfs g (S f) None r [] u1 = (false, u2) /\ In x u1 /\ ~ In x u2.
Proof.
  induction todo as [|v t IH]; intros unv x H Hin Hx; [destruct Hin|].
  cbn [cycle_loop] in H. destruct (nat_mem v unv) eqn:Em.
  - destruct (dfs g (S f) None v [] unv) as [b unv'] eqn:Ed. destruct b; [discriminate|].
    destruct (in_dec Nat.eq_dec x unv') as [Hx'|Hx'].
    + assert (x <> v). { intros E; subst x. exact (dfs_removes_root _ _ _ _ _ _ _ _ Ed Hx'). }
      destruct Hin as [->|Hin]; [congruence|]. exact (IH unv' x H Hin Hx').
    + exists v, unv, unv'. auto.
  - apply nat_mem_false in Em. destruct Hin as [->|Hin]; [contradiction|]. exact (IH unv x H Hin Hx).
Qed.
Lemma cycle_loop_true g f todo : forall unv,
  cycle_loop g f todo unv = true -> exists r u1 u2, dfs g f None r [] u1 = (true, u2).
Proof.
  induction todo as [|v t IH]; intros unv H; [discriminate|].
  cbn [cycle_loop] in H. destruct (nat_mem v unv).
  - destruct (dfs g f None v [] unv) as [b unv'] eqn:Ed. destruct b; [eauto|]. eapply IH; eauto.
  - eapply IH; eauto.
Qed.

(* ---- cycles can be started anywhere ---- *)
Lemma cycle_rot1 g a r : Cycle g (a :: r) -> Cycle g (r ++ [a]).
Proof.
  unfold Cycle. intros [Hlen [Hnd [Hpath [a' [z [Ha [Hz Hadj]]]]]]].
  simpl in Ha. inversion Ha; subst a'.
  destruct r as [|b r']; [simpl in Hlen; lia|].
  split; [rewrite app_length; simpl in *; lia|].
  split; [eapply Permutation_NoDup; [apply Permutation_cons_append | exact Hnd]|].
  rewrite gpath_cons in Hpath. destruct Hpath as [Hab Hp].
  split.
  - destruct (@exists_last nat (b :: r')) as [l1 [z' E]]; [discriminate|].
    assert (Ez : z' = z).
    { rewrite <- Hz. change (last (a :: b :: r') a) with (last (b :: r') a). rewrite E. symmetry. apply last_last. }
    subst z'. rewrite E. rewrite <- app_assoc. simpl.
    apply gpath_app; [rewrite <- E; exact Hp | exact Hadj | simpl; auto].
  - exists b, a. split; [reflexivity|]. split; [apply last_last | exact Hab].
Qed.

Lemma cycle_rot g l1 : forall y l2, Cycle g (l1 ++ y :: l2) ->
  exists c2, Cycle g (y :: c2) /\ (forall z, In z (y :: c2) <-> In z (l1 ++ y :: l2)).
Proof.
  induction l1 as [|a l1' IH]; intros y l2 H.
  - exists l2. split; [exact H | tauto].
  - change ((a :: l1') ++ y :: l2) with (a :: (l1' ++ y :: l2)) in H.
    apply cycle_rot1 in H. rewrite <- app_assoc in H. change ((y :: l2) ++ [a]) with (y :: (l2 ++ [a])) in H.
    destruct (IH y (l2 ++ [a]) H) as [c2 [C1 C2]]. exists c2. split; [exact C1|].
    intros z. rewrite C2. rewrite !in_app_iff. simpl. rewrite in_app_iff. simpl. tauto.
Qed.

(* the vertex of a path that belongs to c and is closest to the start of the search *)
Lemma last_in (c l : list nat) : (exists x, In x l /\ In x c) ->
  exists l1 y l2, l = l1 ++ y :: l2 /\ In y c /\ (forall z, In z l2 -> ~ In z c).
Proof.
  induction l as [|a r IH]; intros [x [Hx Hc]]; [destruct Hx|].
  destruct (Exists_dec (fun z => In z c) r (fun z => in_dec Nat.eq_dec z c)) as [E|E].
  - apply Exists_exists in E. destruct (IH E) as [l1 [y [l2 [E1 [E2 E3]]]]].
    exists (a :: l1), y, l2. subst r. auto.
  - exists [], a, r. split; [reflexivity|]. split.
    + destruct Hx as [->|Hx]; [exact Hc|]. exfalso. apply E. apply Exists_exists. eauto.
    + intros z Hz Hzc. apply E. apply Exists_exists. eauto.
Qed.


Lemma gpath_join g l1 y l2 : gpath g (l1 ++ [y]) -> gpath g (y :: l2) -> gpath g (l1 ++ y :: l2).
Proof.
  induction l1 as [|a r IH]; [simpl; auto|]. destruct r as [|b r'].
  - change ([a] ++ [y]) with (a :: y :: []). change ([a] ++ y :: l2) with (a :: y :: l2).
    rewrite !gpath_cons. tauto.
  - change ((a :: b :: r') ++ [y]) with (a :: b :: (r' ++ [y])).
    change ((a :: b :: r') ++ y :: l2) with (a :: b :: (r' ++ y :: l2)).
    rewrite !gpath_cons. intros [H1 H2] H3. split; [exact H1 | exact (IH H2 H3)].
Qed.

Lemma NoDup_app_intro {A} (l1 l2 : list A) :
  NoDup l1 -> NoDup l2 -> (forall x, In x l1 -> ~ In x l2) -> NoDup (l1 ++ l2).
Proof.
  induction l1 as [|a r IH]; simpl; intros H1 H2 H3; [exact H2|].
  inversion H1; subst. constructor.
  - intros K. apply in_app_or in K. destruct K as [K|K]; [contradiction|]. exact (H3 a (or_introl eq_refl) K).
  - apply IH; auto.
Qed.

Lemma NoDup_app_r {A} (l1 l2 : list A) : NoDup (l1 ++ l2) -> NoDup l2.
Proof. induction l1 as [|a r IH]; simpl; intros H; [exact H|]. inversion H; subst. apply IH. assumption. Qed.

Lemma gpath_has_neighbour g l : gpath g l -> 2 <= length l -> forall x, In x l -> exists w, Adj g x w.
Proof.
  induction l as [|a r IH]; intros Hp Hlen x Hx; [destruct Hx|].
  destruct r as [|b r']; [simpl in Hlen; lia|].
  rewrite gpath_cons in Hp. destruct Hp as [Hab Hp].
  destruct Hx as [<-|Hx]; [eauto|].
  destruct r' as [|c r''].
  - destruct Hx as [<-|[]]. exists a. apply Adj_sym. exact Hab.
  - apply IH; auto. simpl. lia.
Qed.

Lemma suffix_last {A} (l1 s q : list A) r : l1 ++ s = q ++ [r] -> s <> [] -> exists q0, s = q0 ++ [r].
Proof.
  intros E Hs. destruct (@exists_last A s Hs) as [s' [z Es]]. subst s.
  rewrite app_assoc in E. apply app_inj_tail in E. destruct E as [_ ->]. eauto.
Qed.

(* graph.go:hasCycle is correct: it reports a cycle iff the graph has a simple cycle *)
Theorem has_cycle_spec_lemma g : no_self_loops g -> (has_cycle g = true <-> exists c, Cycle g c).
Proof.
  intros Hns. unfold has_cycle. set (vs := g_vertices g). split.
  - intros H. apply cycle_loop_true in H. destruct H as [r [u1 [u2 H]]].
    apply (dfs_sound g Hns (S (length vs)) None r [] u1 u2); auto.
    + constructor; [simpl; tauto | constructor].
    + simpl. auto.
  - intros [c Hc]. destruct (cycle_loop g (S (length vs)) vs vs) eqn:El; [reflexivity|]. exfalso.
    pose proof Hc as [Hlen [Hnd [Hpath _]]].
    destruct c as [|x c']; [simpl in Hlen; lia|].
    assert (Hallv : forall z, In z (x :: c') -> In z vs).
    { intros z Hz. apply g_vertices_iff. apply (gpath_has_neighbour g (x :: c')); auto. lia. }
    assert (Hxv : In x vs) by (apply Hallv; left; reflexivity).
    destruct (cycle_loop_false g _ vs vs x El Hxv Hxv) as [r [u1 [u2 [Hd [Hx1 Hx2]]]]].
    assert (Hnd1 : NoDup [r]) by (constructor; [simpl; tauto | constructor]).
    destruct (dfs_removed g _ None r [] u1 false u2 x Hnd1 I Hd Hx1 Hx2) as [q [Q1 [Q2 Q3]]].
    (* the vertex of the search path on the cycle that is closest to the root *)
    destruct (last_in (x :: c') (q ++ [r])) as [l1 [y [l2 [E1 [E2 E3]]]]].
    { exists x. split; [|left; reflexivity]. destruct (q ++ [r]); simpl in Q3; inversion Q3. left; reflexivity. }
    destruct (in_split y (x :: c') E2) as [m1 [m2 Em]].
    rewrite Em in Hc. destruct (cycle_rot g m1 y m2 Hc) as [c2 [Hc2 Hmem]]. rewrite <- Em in Hmem.
    destruct Hc2 as [Hlen2 [Hnd2 [Hpath2 [a0 [z [Ha0 [Hz Hadj]]]]]]].
    simpl in Ha0. inversion Ha0; subst a0.
    (* c2 = c2'' ++ [e2; e] *)
    destruct (@exists_last nat c2) as [c2' [e Ec2]]; [intros K; subst c2; simpl in Hlen2; lia|].
    destruct (@exists_last nat c2') as [c2'' [e2 Ec2']]; [intros K; subst c2' c2; simpl in Hlen2; lia|].
    assert (Ez : z = e).
    { rewrite <- Hz. rewrite Ec2. change (y :: c2' ++ [e]) with ((y :: c2') ++ [e]). apply last_last. }
    subst z.
    destruct (suffix_last l1 (y :: l2) q r (eq_sym E1)) as [q0 Eq0]; [discriminate|].
    (* the path continued around the cycle *)
    set (q' := rev c2 ++ q0).
    assert (Efull : q' ++ [r] = rev c2 ++ y :: l2) by (unfold q'; rewrite <- app_assoc, <- Eq0; reflexivity).
    assert (Hsuf_nd : NoDup (y :: l2)) by (rewrite E1 in Q1; apply NoDup_app_r in Q1; exact Q1).
    assert (Hsuf_p : gpath g (y :: l2)) by (rewrite E1 in Q2; apply gpath_app_r in Q2; exact Q2).
    assert (NDfull : NoDup (q' ++ [r])).
    { rewrite Efull. apply NoDup_app_intro; auto.
      - apply NoDup_rev. inversion Hnd2; auto.
      - intros w Hw Hw2. apply in_rev in Hw.
        assert (Hwc : In w (x :: c')) by (apply Hmem; right; exact Hw).
        destruct Hw2 as [<-|Hw2]; [inversion Hnd2; contradiction | exact (E3 w Hw2 Hwc)]. }
    assert (Pfull : gpath g (q' ++ [r])).
    { rewrite Efull. apply gpath_join; auto.
      change (rev c2 ++ [y]) with (rev (y :: c2)). apply gpath_rev. exact Hpath2. }
    assert (Hhd : hd_error (q' ++ [r]) = Some e).
    { rewrite Efull, Ec2, rev_app_distr. reflexivity. }
    assert (Hpred : pred_of (q' ++ [r]) <> Some y).
    { rewrite Efull, Ec2, Ec2', !rev_app_distr. simpl. intros K. inversion K; subst e2.
      inversion Hnd2 as [|? ? Hny _]. apply Hny. rewrite Ec2, Ec2'. apply in_or_app. left. apply in_or_app. right. left; reflexivity. }
    assert (Hlenq : length q' < S (length vs)).
    { assert (length (q' ++ [r]) <= length vs).
      { apply NoDup_incl_length; [exact NDfull|]. intros w Hw. apply g_vertices_iff.
        apply (gpath_has_neighbour g (q' ++ [r])); auto.
        rewrite Efull, app_length, rev_length. simpl. subst c2. rewrite app_length. simpl. lia. }
      rewrite app_length in H. simpl in H. lia. }
    rewrite Ez in Hadj.
    apply (dfs_complete g _ None r [] u1 u2 eq_refl Hd q' Hlenq NDfull Pfull e y Hhd Hadj Hpred).
    rewrite Efull. apply in_or_app. right. left; reflexivity.
Qed.
