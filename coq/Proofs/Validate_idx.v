(* Property C03 - the index-walking transcription of LineString.IsSimple (is_simple_idx: getLine,
   firstAndLastLines, previousLine, nextLine exactly as in geom/type_sequence.go) equals the form
   over the list of valid lines (is_simple) that ring_simple_spec and the invariance theorems are
   about.  Route: the valid indices V (strictly increasing) enumerate as_lines; previousLine /
   nextLine / first / last of a valid index are its neighbours / the ends of V. *)
From Coq Require Import QArith List Bool ZArith Lia Arith.
From SF Require Import Base.QKernel Model.Validate Proofs.Validate_kernel Proofs.Validate_proofs.
Import ListNotations.


(* ------------------------------------------------------------------ the valid lines by index *)
Definition valid (ps : list pt) (i : nat) : bool := match get_line ps i with Some _ => true | None => false end.
Definition opt_list {A} (o : option A) : list A := match o with Some s => [s] | None => [] end.
Definition V (ps : list pt) : list nat := filter (valid ps) (seq 0 (length ps)).

Lemma get_line_shift a ps k : get_line (a :: ps) (S (S k)) = get_line ps (S k).
Proof. reflexivity. Qed.
Lemma get_line_lt ps i s : get_line ps i = Some s -> (0 < i < length ps)%nat.
Proof.
  destruct i as [|k]; [discriminate|]. unfold get_line.
  destruct (nth_error ps k) eqn:E1; [|discriminate]. destruct (nth_error ps (S k)) eqn:E2; [|discriminate].
  intros _. split; [lia|]. apply nth_error_Some. congruence.
Qed.

Lemma flat_map_ext_in' {A B} (f g : A -> list B) l : (forall x, In x l -> f x = g x) -> flat_map f l = flat_map g l.
Proof. induction l as [|a r IH]; intros H; [reflexivity|]. simpl. rewrite (H a), IH; auto. intros x Hx. apply H. right. exact Hx. left; reflexivity. Qed.
Lemma flat_map_map {A B C} (f : B -> list C) (g : A -> B) l : flat_map f (map g l) = flat_map (fun x => f (g x)) l.
Proof. induction l as [|a r IH]; [reflexivity|]. simpl. rewrite IH. reflexivity. Qed.

Lemma as_lines_flat ps : as_lines ps = flat_map (fun i => opt_list (get_line ps i)) (seq 0 (length ps)).
Proof.
  induction ps as [|a r IH]; [reflexivity|]. cbn [length seq flat_map]. change (get_line (a :: r) 0) with (@None seg). cbn [opt_list app].
  destruct r as [|b r']; [reflexivity|]. rewrite as_lines_cons2. cbn [length seq flat_map].
  assert (E1 : opt_list (get_line (a :: b :: r') 1) = if pt_eqb a b then [] else [(a, b)]).
  { unfold get_line. cbn [nth_error]. destruct (pt_eqb a b); reflexivity. }
  rewrite E1.
  assert (E2 : flat_map (fun i => opt_list (get_line (a :: b :: r') i)) (seq 2 (length r')) = as_lines (b :: r')).
  { rewrite IH. cbn [length seq flat_map]. change (get_line (b :: r') 0) with (@None seg). cbn [opt_list app].
    rewrite <- (seq_shift (length r') 1), flat_map_map. apply flat_map_ext_in'. intros i Hi. apply in_seq in Hi.
    destruct i as [|k]; [lia|]. rewrite get_line_shift. reflexivity. }
  rewrite E2. destruct (pt_eqb a b); reflexivity.
Qed.

Lemma flat_opt_filter {A B} (f : A -> option B) (d : B) l :
  flat_map (fun i => opt_list (f i)) l
  = map (fun i => match f i with Some s => s | None => d end) (filter (fun i => match f i with Some _ => true | None => false end) l).
Proof. induction l as [|a r IH]; [reflexivity|]. simpl. destruct (f a) eqn:E; simpl; rewrite IH; [rewrite E|]; reflexivity. Qed.

Lemma V_in ps i : In i (V ps) <-> valid ps i = true.
Proof.
  unfold V. rewrite filter_In, in_seq. split; [tauto|]. intros H. split; [|exact H].
  unfold valid in H. destruct (get_line ps i) eqn:E; [|discriminate]. apply get_line_lt in E. lia.
Qed.

Lemma as_lines_nth ps k s :
  nth_error (as_lines ps) k = Some s <-> exists i, nth_error (V ps) k = Some i /\ get_line ps i = Some s.
Proof.
  rewrite as_lines_flat, (flat_opt_filter (get_line ps) ((0,0),(0,0))%Q). fold (valid ps). fold (V ps).
  rewrite nth_error_map. split.
  - destruct (nth_error (V ps) k) as [i|] eqn:E; [|discriminate]. simpl. intros H. exists i. split; [reflexivity|].
    assert (Hv : valid ps i = true) by (apply V_in; eapply nth_error_In; exact E).
    unfold valid in Hv. destruct (get_line ps i); [congruence | discriminate].
  - intros [i [E1 E2]]. rewrite E1. simpl. rewrite E2. reflexivity.
Qed.
Lemma as_lines_length_V ps : length (as_lines ps) = length (V ps).
Proof.
  rewrite as_lines_flat, (flat_opt_filter (get_line ps) ((0,0),(0,0))%Q). rewrite map_length. reflexivity.
Qed.

(* V is strictly increasing *)
Lemma filter_seq_mono (f : nat -> bool) n : forall a k l i j, (k < l)%nat ->
  nth_error (filter f (seq a n)) k = Some i -> nth_error (filter f (seq a n)) l = Some j -> (i < j)%nat.
Proof.
  induction n as [|n IH]; intros a k l i j Hkl Hk Hl; [destruct k; discriminate|].
  cbn [seq filter] in Hk, Hl. destruct (f a).
  - destruct l as [|l]; [lia|]. cbn [nth_error] in Hl.
    assert (Hj : (S a <= j)%nat).
    { apply nth_error_In in Hl. apply filter_In in Hl. destruct Hl as [Hl _]. apply in_seq in Hl. lia. }
    destruct k as [|k]; [simpl in Hk; inversion Hk; subst; lia|]. cbn [nth_error] in Hk.
    apply (IH (S a) k l i j); [lia | exact Hk | exact Hl].
  - apply (IH (S a) k l i j); assumption.
Qed.
Lemma V_mono ps k l i j : (k < l)%nat -> nth_error (V ps) k = Some i -> nth_error (V ps) l = Some j -> (i < j)%nat.
Proof. apply filter_seq_mono. Qed.
Lemma V_pos_lt ps k l i j : nth_error (V ps) k = Some i -> nth_error (V ps) l = Some j -> (i < j)%nat -> (k < l)%nat.
Proof.
  intros Hk Hl Hij. destruct (lt_eq_lt_dec k l) as [[H|H]|H]; [exact H | subst; rewrite Hk in Hl; inversion Hl; lia|].
  pose proof (V_mono ps l k j i H Hl Hk). lia.
Qed.
Lemma V_inj ps k l i : nth_error (V ps) k = Some i -> nth_error (V ps) l = Some i -> k = l.
Proof.
  intros Hk Hl. destruct (lt_eq_lt_dec k l) as [[H|H]|H]; [|exact H|].
  - pose proof (V_mono ps k l i i H Hk Hl). lia.
  - pose proof (V_mono ps l k i i H Hl Hk). lia.
Qed.


Lemma find_hd_filter {A} (f : A -> bool) l : find f l = hd_error (filter f l).
Proof. induction l as [|a r IH]; [reflexivity|]. simpl. destruct (f a); [reflexivity | exact IH]. Qed.
Lemma filter_rev' {A} (f : A -> bool) l : filter f (rev l) = rev (filter f l).
Proof.
  induction l as [|a r IH]; [reflexivity|]. simpl. rewrite filter_app, IH. simpl. destruct (f a); simpl; [reflexivity | rewrite app_nil_r; reflexivity].
Qed.

Lemma exists_last_or_nil {A} (l : list A) : l = [] \/ exists l' a, l = l' ++ [a].
Proof.
  destruct l as [|x r]; [left; reflexivity|]. right.
  destruct (@exists_last A (x :: r)) as [l' [a E]]; [discriminate|]. eauto.
Qed.

Lemma V_seq1 ps : V ps = filter (valid ps) (seq 1 (length ps - 1)).
Proof.
  unfold V. destruct ps as [|a r]; [reflexivity|].
  replace (length (a :: r) - 1)%nat with (length r) by (simpl; lia). cbn [length seq filter].
  change (valid (a :: r) 0) with false. reflexivity.
Qed.
Lemma first_line_V ps : first_line ps = hd_error (V ps).
Proof. unfold first_line. rewrite find_hd_filter. fold (valid ps). rewrite <- V_seq1. reflexivity. Qed.
Lemma last_line_V ps : last_line ps = hd_error (rev (V ps)).
Proof. unfold last_line. rewrite find_hd_filter. fold (valid ps). rewrite filter_rev', <- V_seq1. reflexivity. Qed.

Lemma first_line_pos ps f : first_line ps = Some f -> nth_error (V ps) 0 = Some f.
Proof. rewrite first_line_V. destruct (V ps); simpl; auto. Qed.
Lemma last_line_pos ps l : last_line ps = Some l -> nth_error (V ps) (length (V ps) - 1) = Some l /\ (1 <= length (V ps))%nat.
Proof.
  rewrite last_line_V. intros H.
  destruct (exists_last_or_nil (V ps)) as [E|[r [x E]]]; rewrite E in *; [discriminate|].
  rewrite rev_app_distr in H. simpl in H. inversion H; subst. rewrite app_length. simpl.
  split; [|lia]. replace (length r + 1 - 1)%nat with (length r) by lia.
  rewrite nth_error_app2 by lia. rewrite Nat.sub_diag. reflexivity.
Qed.
Lemma first_last_none ps : (first_line ps = None \/ last_line ps = None) -> V ps = [].
Proof.
  rewrite first_line_V, last_line_V. intros [H|H]; destruct (V ps) as [|x r] eqn:E; try reflexivity; try discriminate.
  destruct (rev (x :: r)) eqn:E2; [|discriminate]. apply (f_equal (@length nat)) in E2. rewrite rev_length in E2. discriminate.
Qed.
Lemma first_last_some ps : V ps <> [] -> exists f l, first_line ps = Some f /\ last_line ps = Some l.
Proof.
  rewrite first_line_V, last_line_V. intros H. destruct (V ps) as [|x r] eqn:E; [congruence|].
  destruct (rev (x :: r)) as [|y t] eqn:E2.
  - apply (f_equal (@length nat)) in E2. rewrite rev_length in E2. discriminate.
  - exists x, y. split; reflexivity.
Qed.

Lemma previous_line_lt ps i p : previous_line ps i = Some p -> (p < i)%nat.
Proof.
  induction i as [|k IH]; [discriminate|]. simpl. destruct (get_line ps k); [intros H; inversion H; lia|].
  intros H. specialize (IH H). lia.
Qed.

Lemma next_line_fuel_spec ps : forall fuel s,
  match next_line_fuel ps fuel s with
  | Some j => (s <= j < s + fuel)%nat /\ valid ps j = true /\ forall t, (s <= t < j)%nat -> valid ps t = false
  | None => forall t, (s <= t < s + fuel)%nat -> valid ps t = false
  end.
Proof.
  induction fuel as [|f IH]; intros s; simpl; [intros t Ht; lia|].
  destruct (get_line ps s) eqn:E.
  - split; [lia|]. split; [unfold valid; rewrite E; reflexivity | intros t Ht; lia].
  - specialize (IH (S s)). destruct (next_line_fuel ps f (S s)) as [j|].
    + destruct IH as [H1 [H2 H3]]. split; [lia|]. split; [exact H2|]. intros t Ht.
      destruct (Nat.eq_dec t s) as [->|Hne]; [unfold valid; rewrite E; reflexivity | apply H3; lia].
    + intros t Ht. destruct (Nat.eq_dec t s) as [->|Hne]; [unfold valid; rewrite E; reflexivity | apply IH; lia].
Qed.

(* for two valid indices i = V[k] < j = V[l]: j is the next line of i iff l = k + 1 *)
Lemma next_line_pos ps k l i j : (k < l)%nat ->
  nth_error (V ps) k = Some i -> nth_error (V ps) l = Some j ->
  opt_nat_eqb (next_line ps i) j = Nat.eqb l (S k).
Proof.
  intros Hkl Hk Hl.
  assert (Hij : (i < j)%nat) by (apply (V_mono ps k l i j Hkl Hk Hl)).
  assert (Vj : valid ps j = true) by (apply V_in; eapply nth_error_In; exact Hl).
  assert (Hjn : (j < length ps)%nat).
  { unfold valid in Vj. destruct (get_line ps j) eqn:E; [|discriminate]. apply get_line_lt in E. lia. }
  unfold next_line. pose proof (next_line_fuel_spec ps (length ps - S i) (S i)) as NS.
  destruct (next_line_fuel ps (length ps - S i) (S i)) as [j'|].
  - destruct NS as [S1 [S2 S3]]. simpl.
    assert (Hj' : In j' (V ps)) by (apply V_in; exact S2). destruct (In_nth_error _ _ Hj') as [u Hu].
    destruct (Nat.eqb l (S k)) eqn:E.
    + apply Nat.eqb_eq in E. subst l. apply Nat.eqb_eq.
      (* j' is valid, > i, and nothing valid lies in (i, j'): j' = j *)
      destruct (lt_eq_lt_dec j' j) as [[H|H]|H]; [|exact H|].
      * exfalso. assert (k < u)%nat by (apply (V_pos_lt ps k u i j' Hk Hu); lia).
        assert (u < S k)%nat by (apply (V_pos_lt ps u (S k) j' j Hu Hl H)). lia.
      * exfalso. specialize (S3 j ltac:(lia)). congruence.
    + apply Nat.eqb_neq in E. apply Nat.eqb_neq. intros ->.
      (* V[k+1] lies strictly between i and j *)
      destruct (nth_error (V ps) (S k)) as [t|] eqn:Et.
      * assert (i < t)%nat by (apply (V_mono ps k (S k) i t ltac:(lia) Hk Et)).
        assert (t < j)%nat by (apply (V_mono ps (S k) l t j ltac:(lia) Et Hl)).
        assert (valid ps t = true) by (apply V_in; eapply nth_error_In; exact Et).
        specialize (S3 t ltac:(lia)). congruence.
      * apply nth_error_None in Et. assert (l < length (V ps))%nat by (apply nth_error_Some; congruence). lia.
  - exfalso. specialize (NS j ltac:(lia)). congruence.
Qed.


Lemma core_eqs ps f l k l' i j : (k < l')%nat ->
  first_line ps = Some f -> last_line ps = Some l ->
  nth_error (V ps) k = Some i -> nth_error (V ps) l' = Some j ->
  opt_nat_eqb (previous_line ps i) j = false
  /\ opt_nat_eqb (next_line ps i) j = Nat.eqb l' (S k)
  /\ Nat.eqb i f = Nat.eqb k 0
  /\ Nat.eqb j l = Nat.eqb (S l') (length (as_lines ps)).
Proof.
  intros Hkl Hf Hl Hk Hl'.
  assert (Hij : (i < j)%nat) by (apply (V_mono ps k l' i j Hkl Hk Hl')).
  split; [|split; [|split]].
  - destruct (previous_line ps i) as [p|] eqn:E; [|reflexivity]. simpl. apply previous_line_lt in E. apply Nat.eqb_neq. lia.
  - apply next_line_pos; assumption.
  - apply first_line_pos in Hf. destruct (Nat.eqb k 0) eqn:E.
    + apply Nat.eqb_eq in E. subst k. rewrite Hf in Hk. inversion Hk. apply Nat.eqb_refl.
    + apply Nat.eqb_neq in E. apply Nat.eqb_neq. intros ->. apply E. exact (V_inj ps k 0 f Hk Hf).
  - rewrite as_lines_length_V. apply last_line_pos in Hl. destruct Hl as [Hl Hm].
    destruct (Nat.eqb (S l') (length (V ps))) eqn:E.
    + apply Nat.eqb_eq in E. replace (length (V ps) - 1)%nat with l' in Hl by lia. rewrite Hl in Hl'. inversion Hl'. apply Nat.eqb_refl.
    + apply Nat.eqb_neq in E. apply Nat.eqb_neq. intros ->. apply E.
      pose proof (V_inj ps l' (length (V ps) - 1) l Hl' Hl). lia.
Qed.

(* the index-walking transcription of LineString.IsSimple (getLine / firstAndLastLines /
   previousLine / nextLine as in type_sequence.go) computes the same boolean as the form over the
   list of valid lines that the theorems are about *)
Theorem is_simple_idx_eq_lemma ps : is_simple_idx ps = is_simple ps.
Proof.
  destruct (V ps) as [|v0 vr] eqn:EV.
  - (* no valid line *)
    assert (E1 : first_line ps = None) by (rewrite first_line_V, EV; reflexivity).
    unfold is_simple_idx. rewrite E1. unfold is_simple.
    assert (E2 : as_lines ps = []) by (apply length_zero_iff_nil; rewrite as_lines_length_V, EV; reflexivity).
    rewrite E2. reflexivity.
  - destruct (first_last_some ps) as [f [l [Ef El]]]; [rewrite EV; discriminate|].
    unfold is_simple_idx. rewrite Ef, El. apply eq_true_iff_eq.
    unfold is_simple. rewrite simple_from_iff. split.
    + intros H k l' sk sl Hkl Hk Hl'. cbn [Nat.add].
      apply as_lines_nth in Hk. apply as_lines_nth in Hl'. destruct Hk as [i [Vi Gi]], Hl' as [j [Vj Gj]].
      destruct (core_eqs ps f l k l' i j Hkl Ef El Vi Vj) as [C1 [C2 [C3 C4]]].
      assert (Hij : (i < j)%nat) by (apply (V_mono ps k l' i j Hkl Vi Vj)).
      rewrite forallb_forall in H. specialize (H i). rewrite Gi in H.
      assert (Hi : In i (seq 0 (length ps))) by (apply in_seq; apply get_line_lt in Gi; lia).
      specialize (H Hi). rewrite forallb_forall in H. specialize (H j).
      assert (Hj : In j (seq 0 (length ps))) by (apply in_seq; apply get_line_lt in Gj; lia).
      specialize (H Hj). assert (Eji : Nat.leb j i = false) by (apply Nat.leb_gt; exact Hij). rewrite Eji, Gj in H.
      unfold pair_simple. destruct (intersect_line sk sl) as [|pa pb]; [reflexivity|].
      destruct (negb (pt_eqb pa pb)); [exact H|]. rewrite C1, C2, C3, C4 in H. cbn [orb] in H. exact H.
    + intros H. apply forallb_forall. intros i Hi. destruct (get_line ps i) as [si|] eqn:Gi; [|reflexivity].
      apply forallb_forall. intros j Hj. destruct (Nat.leb j i) eqn:Eji; [reflexivity|].
      destruct (get_line ps j) as [sj|] eqn:Gj; [|reflexivity]. apply Nat.leb_gt in Eji.
      assert (Ii : In i (V ps)) by (apply V_in; unfold valid; rewrite Gi; reflexivity).
      assert (Ij : In j (V ps)) by (apply V_in; unfold valid; rewrite Gj; reflexivity).
      destruct (In_nth_error _ _ Ii) as [k Vi]. destruct (In_nth_error _ _ Ij) as [l' Vj].
      assert (Hkl : (k < l')%nat) by (apply (V_pos_lt ps k l' i j Vi Vj Eji)).
      destruct (core_eqs ps f l k l' i j Hkl Ef El Vi Vj) as [C1 [C2 [C3 C4]]].
      assert (Hk : nth_error (as_lines ps) k = Some si) by (apply as_lines_nth; eauto).
      assert (Hl' : nth_error (as_lines ps) l' = Some sj) by (apply as_lines_nth; eauto).
      specialize (H k l' si sj Hkl Hk Hl'). cbn [Nat.add] in H. unfold pair_simple in H.
      destruct (intersect_line si sj) as [|pa pb]; [reflexivity|].
      destruct (negb (pt_eqb pa pb)); [exact H|]. rewrite C1, C2, C3, C4. cbn [orb]. exact H.
Qed.
