(* Property C03 - the Jordan-type facts the nested-ring probe rests on, proved without topology:
   (1) seg_avoid_same_parity / relate_lines_avoiding_segment: the end points of a segment that does
       not meet a closed ring have the same crossing parity w.r.t. that ring.  Proof: a shear maps
       the segment to a horizontal one; shears preserve cross products and one coordinate, hence the
       vertical-ray parity; closed_ring_parity (Proofs/Planar_slab_base.v) turns it into the
       horizontal-ray parity, which is constant edge by edge along a horizontal segment that avoids
       the edge.
   (2) off_vertices_same_side: if a closed simple ring A and a closed ring B have at most one
       common point, all vertices of A that are off B lie on the same side of B (walk along A the
       way that avoids the touch point).
   (3) nested_probe_start_invariant_lemma_full: the probe of fixes/F3.patch gives the same answer
       for every vertex list with the same vertices (any start vertex, either direction). *)
From Coq Require Import QArith Qreduction List Bool ZArith Lia Lqa Arith Setoid Morphisms.
From SF Require Import Base.GeomAST Base.QKernel Base.Planar Model.Validate Model.ValidateSpec
  Proofs.Planar_proofs Proofs.Planar_slab_base Proofs.Validate_kernel Proofs.Validate_proofs Proofs.Validate_graph Proofs.Validate_sound.
Import ListNotations.
Open Scope Q_scope.


(* ------------------------------------------------------------------ moving a point horizontally *)
(* if the line through a,b separates (weakly) p from w, both at a height in the half-open y-range
   of the edge, the horizontal segment p w meets the edge *)
Lemma hsegment_hits_edge (a b p w : pt) :
  snd p == snd w ->
  ((snd a <= snd p /\ snd p < snd b) \/ (snd b <= snd p /\ snd p < snd a)) ->
  ((cross a b p <= 0 /\ 0 <= cross a b w) \/ (cross a b w <= 0 /\ 0 <= cross a b p)) ->
  exists z, on_seg (p, w) z = true /\ on_seg (a, b) z = true.
Proof.
  intros Hy Hr Hs.
  set (cp := cross a b p) in *. set (cw := cross a b w) in *.
  assert (Ht : exists t, 0 <= t /\ t <= 1 /\ (1 - t) * cp + t * cw == 0).
  { destruct (Qeq_dec cp cw) as [E|N].
    - exists 0. split; [lra|]. split; [lra|]. destruct Hs as [[? ?]|[? ?]]; nra.
    - exists (cp / (cp - cw)). assert (ND : ~ cp - cw == 0) by lra.
      assert (K : cp / (cp - cw) * (cp - cw) == cp) by (field; exact ND).
      set (t := cp / (cp - cw)) in *. destruct Hs as [[? ?]|[? ?]]; (split; [nra|]; split; nra). }
  destruct Ht as [t [T0 [T1 Tz]]].
  set (z := ((fst p + t * (fst w - fst p), snd p + t * (snd w - snd p)) : pt)).
  assert (Hzpw : on_seg (p, w) z = true).
  { apply on_seg_iff. exists t. unfold seg_param, z; cbn [fst snd]. split; [lra|]. split; reflexivity. }
  assert (Hzc : cross a b z == 0).
  { rewrite (cross_along a b p w z t); [exact Tz | reflexivity | reflexivity]. }
  assert (Hzy : snd z == snd p) by (unfold z; cbn [snd]; rewrite <- Hy; ring).
  exists z. split; [exact Hzpw|].
  apply on_seg_iff.
  assert (Nd : ~ snd b - snd a == 0) by (destruct Hr; lra).
  exists ((snd z - snd a) / (snd b - snd a)).
  set (u := (snd z - snd a) / (snd b - snd a)).
  assert (Ku : u * (snd b - snd a) == snd z - snd a) by (unfold u; field; exact Nd).
  unfold seg_param. split.
  - apply (div_range (snd z - snd a) (snd b - snd a) u Ku). destruct Hr as [[? ?]|[? ?]]; [left | right]; lra.
  - split; [|lra].
    unfold cross in Hzc.
    assert (K2 : (snd b - snd a) * (fst z - fst a - u * (fst b - fst a)) == 0).
    { transitivity (- ((fst b - fst a) * (snd z - snd a) - (snd b - snd a) * (fst z - fst a))
                    + (fst b - fst a) * (snd z - snd a - u * (snd b - snd a))); [ring|]. rewrite Hzc, Ku. ring. }
    apply Qmult_integral in K2. destruct K2 as [K2|K2]; [contradiction | lra].
Qed.

Lemma edge_cross_hmove (a b p w : pt) :
  snd p == snd w ->
  (forall z, on_seg (p, w) z = true -> on_seg (a, b) z = false) ->
  edge_cross a b p = edge_cross a b w.
Proof.
  intros Hy Hav. unfold edge_cross.
  rewrite <- (Qle_bool_proper (snd a) (snd a) (Qeq_refl _) (snd p) (snd w) Hy).
  rewrite <- (Qle_bool_proper (snd b) (snd b) (Qeq_refl _) (snd p) (snd w) Hy).
  destruct (Qle_bool (snd a) (snd p)) eqn:Ya; destruct (Qle_bool (snd b) (snd p)) eqn:Yb; cbn [Bool.eqb]; try reflexivity.
  - apply Qle_bool_iff in Ya. apply Qle_bool_false_iff in Yb.
    assert (Hr : (snd a <= snd p /\ snd p < snd b) \/ (snd b <= snd p /\ snd p < snd a)) by (left; split; assumption).
    destruct (qltb 0 (cross a b p)) eqn:E1; destruct (qltb 0 (cross a b w)) eqn:E2; try reflexivity; exfalso;
      first [apply Validate_kernel.qltb_iff in E1 | apply Validate_kernel.qltb_false_iff in E1];
      first [apply Validate_kernel.qltb_iff in E2 | apply Validate_kernel.qltb_false_iff in E2].
    + destruct (hsegment_hits_edge a b p w Hy Hr) as [z [Z1 Z2]]; [right; split; lra|]. pose proof (Hav z Z1) as Z3; congruence.
    + destruct (hsegment_hits_edge a b p w Hy Hr) as [z [Z1 Z2]]; [left; split; lra|]. pose proof (Hav z Z1) as Z3; congruence.
  - apply Qle_bool_iff in Yb. apply Qle_bool_false_iff in Ya.
    assert (Hr : (snd a <= snd p /\ snd p < snd b) \/ (snd b <= snd p /\ snd p < snd a)) by (right; split; assumption).
    assert (Cp : cross b a p == - cross a b p) by (unfold cross; ring).
    assert (Cw : cross b a w == - cross a b w) by (unfold cross; ring).
    destruct (qltb 0 (cross b a p)) eqn:E1; destruct (qltb 0 (cross b a w)) eqn:E2; try reflexivity; exfalso;
      first [apply Validate_kernel.qltb_iff in E1 | apply Validate_kernel.qltb_false_iff in E1];
      first [apply Validate_kernel.qltb_iff in E2 | apply Validate_kernel.qltb_false_iff in E2].
    + destruct (hsegment_hits_edge a b p w Hy Hr) as [z [Z1 Z2]]; [left; split; lra|]. pose proof (Hav z Z1) as Z3; congruence.
    + destruct (hsegment_hits_edge a b p w Hy Hr) as [z [Z1 Z2]]; [right; split; lra|]. pose proof (Hav z Z1) as Z3; congruence.
Qed.

Lemma edges_parity_hmove (es : list seg) (p w : pt) :
  snd p == snd w ->
  (forall z, on_seg (p, w) z = true -> on_edges es z = false) ->
  edges_parity es p = edges_parity es w.
Proof.
  intros Hy Hav. unfold edges_parity. apply fold_xor_ext. intros e He. destruct e as [a b]. cbn [fst snd].
  apply edge_cross_hmove; [exact Hy|]. intros z Hz. specialize (Hav z Hz).
  unfold on_edges in Hav. apply not_true_iff_false. intros K. apply not_true_iff_false in Hav. apply Hav.
  apply existsb_exists. exists (a, b). auto.
Qed.


(* ------------------------------------------------------------------ shears *)
(* a point map that preserves cross products and one coordinate *)
Definition mseg (f : pt -> pt) (s : seg) : seg := (f (fst s), f (snd s)).

Lemma ring_edges_cons2 (a b : pt) r : ring_edges (a :: b :: r) = (a, b) :: ring_edges (b :: r).
Proof. reflexivity. Qed.
Lemma ring_edges_map f ps : ring_edges (map f ps) = map (mseg f) (ring_edges ps).
Proof.
  induction ps as [|a r IH]; [reflexivity|]. destruct r as [|b r']; [reflexivity|].
  change (map f (a :: b :: r')) with (f a :: f b :: map f r'). rewrite !ring_edges_cons2.
  change (f b :: map f r') with (map f (b :: r')). rewrite IH. reflexivity.
Qed.
Lemma segs_of_pts_map f ps : segs_of_pts (map f ps) = map (mseg f) (segs_of_pts ps).
Proof.
  destruct ps as [|a [|b r]]; [reflexivity | reflexivity |].
  change (segs_of_pts (map f (a :: b :: r))) with (ring_edges (map f (a :: b :: r))).
  change (segs_of_pts (a :: b :: r)) with (ring_edges (a :: b :: r)). apply ring_edges_map.
Qed.
Lemma fold_xor_map {A B} (g : B -> bool) (f : A -> B) l acc :
  fold_left (fun acc e => xorb acc (g e)) (map f l) acc = fold_left (fun acc e => xorb acc (g (f e))) l acc.
Proof. revert acc. induction l as [|x r IH]; intros acc; [reflexivity|]. simpl. apply IH. Qed.

Section CrossMap.
  Variable f finv : pt -> pt.
  Hypothesis f_cross : forall o a b, cross (f o) (f a) (f b) == cross o a b.
  Hypothesis f_seg : forall a b p, on_seg (f a, f b) (f p) = on_seg (a, b) p.
  Hypothesis f_eqb : forall a b, pt_eqb (f a) (f b) = pt_eqb a b.
  Hypothesis f_inv : forall q, pt_eq (f (finv q)) q.

  Lemma on_edges_map es p : on_edges (map (mseg f) es) (f p) = on_edges es p.
  Proof.
    unfold on_edges. induction es as [|[a b] r IH]; [reflexivity|]. cbn [map existsb]. unfold mseg at 1; cbn [fst snd].
    rewrite f_seg, IH. reflexivity.
  Qed.
  Lemma on_edges_eq es p q : pt_eq p q -> on_edges es p = on_edges es q.
  Proof. intros E. unfold on_edges. induction es as [|s r IH]; [reflexivity|]. cbn [existsb]. rewrite (on_seg_eq s p q E), IH. reflexivity. Qed.
  Lemma last_map_f l d : last (map f l) (f d) = f (last l d).
  Proof. induction l as [|a r IH]; [reflexivity|]. destruct r; [reflexivity|]. exact IH. Qed.
  Lemma pts_closed_map ps : pts_closed (map f ps) = pts_closed ps.
  Proof. destruct ps as [|a r]; [reflexivity|]. unfold pts_closed. cbn [map]. rewrite last_map_f. apply f_eqb. Qed.

  (* preserving x: the vertical-ray parity is unchanged *)
  Section KeepX.
    Hypothesis f_x : forall p, fst (f p) = fst p.
    Lemma vcross_map a b p : vcross (f a) (f b) (f p) = vcross a b p.
    Proof.
      unfold vcross. rewrite !f_x.
      assert (E1 : qltb (cross (f a) (f b) (f p)) 0 = qltb (cross a b p) 0).
      { unfold qltb. rewrite (Qle_bool_proper 0 0 (Qeq_refl 0) _ _ (f_cross a b p)). reflexivity. }
      assert (E2 : qltb (cross (f b) (f a) (f p)) 0 = qltb (cross b a p) 0).
      { unfold qltb. rewrite (Qle_bool_proper 0 0 (Qeq_refl 0) _ _ (f_cross b a p)). reflexivity. }
      rewrite E1, E2. reflexivity.
    Qed.
    Lemma vparity_map es p : vparity (map (mseg f) es) (f p) = vparity es p.
    Proof.
      unfold vparity. rewrite fold_xor_map. apply fold_xor_ext. intros [a b] _. unfold mseg; cbn [fst snd]. apply vcross_map.
    Qed.
  End KeepX.

  (* preserving y: the horizontal-ray parity is unchanged *)
  Section KeepY.
    Hypothesis f_y : forall p, snd (f p) = snd p.
    Lemma edge_cross_map a b p : edge_cross (f a) (f b) (f p) = edge_cross a b p.
    Proof.
      unfold edge_cross. rewrite !f_y.
      assert (E1 : qltb 0 (cross (f a) (f b) (f p)) = qltb 0 (cross a b p)).
      { unfold qltb. rewrite (Qle_bool_proper _ _ (f_cross a b p) 0 0 (Qeq_refl 0)). reflexivity. }
      assert (E2 : qltb 0 (cross (f b) (f a) (f p)) = qltb 0 (cross b a p)).
      { unfold qltb. rewrite (Qle_bool_proper _ _ (f_cross b a p) 0 0 (Qeq_refl 0)). reflexivity. }
      rewrite E1, E2. reflexivity.
    Qed.
    Lemma edges_parity_map es p : edges_parity (map (mseg f) es) (f p) = edges_parity es p.
    Proof.
      unfold edges_parity. rewrite fold_xor_map. apply fold_xor_ext. intros [a b] _. unfold mseg; cbn [fst snd]. apply edge_cross_map.
    Qed.
  End KeepY.

  (* a segment that avoids the edges is mapped to a segment that avoids the mapped edges *)
  Lemma avoid_map es u v :
    (forall z, on_seg (u, v) z = true -> on_edges es z = false) ->
    forall z', on_seg (f u, f v) z' = true -> on_edges (map (mseg f) es) z' = false.
  Proof.
    intros H z' Hz'. pose proof (f_inv z') as E.
    rewrite <- (on_edges_eq _ _ _ E). rewrite on_edges_map. apply H.
    rewrite <- f_seg. rewrite (on_seg_eq _ _ _ E). exact Hz'.
  Qed.
End CrossMap.

Definition shear_y (m : Q) (p : pt) : pt := (fst p, snd p + m * fst p).
Definition shear_x (p : pt) : pt := (fst p + snd p, snd p).
Definition unshear_x (p : pt) : pt := (fst p - snd p, snd p).

Lemma shear_y_cross m o a b : cross (shear_y m o) (shear_y m a) (shear_y m b) == cross o a b.
Proof. unfold cross, shear_y; cbn [fst snd]. ring. Qed.
Lemma shear_x_cross o a b : cross (shear_x o) (shear_x a) (shear_x b) == cross o a b.
Proof. unfold cross, shear_x; cbn [fst snd]. ring. Qed.
Lemma shear_y_seg m a b p : on_seg (shear_y m a, shear_y m b) (shear_y m p) = on_seg (a, b) p.
Proof.
  apply eq_true_iff_eq. rewrite !on_seg_iff. unfold seg_param, shear_y; cbn [fst snd].
  split; intros [t [Ht [Hx Hy]]]; exists t; (split; [exact Ht|]); split; try exact Hx; nra.
Qed.
Lemma shear_x_seg a b p : on_seg (shear_x a, shear_x b) (shear_x p) = on_seg (a, b) p.
Proof.
  apply eq_true_iff_eq. rewrite !on_seg_iff. unfold seg_param, shear_x; cbn [fst snd].
  split; intros [t [Ht [Hx Hy]]]; exists t; (split; [exact Ht|]); split; try exact Hy; lra.
Qed.
Lemma shear_y_eqb m a b : pt_eqb (shear_y m a) (shear_y m b) = pt_eqb a b.
Proof.
  apply eq_true_iff_eq. rewrite !pt_eqb_iff. unfold pt_eq, shear_y; cbn [fst snd].
  split; intros [H1 H2]; split; try exact H1; [|rewrite H1, H2; reflexivity].
  assert (m * fst a == m * fst b) by (rewrite H1; reflexivity). lra.
Qed.
Lemma shear_x_eqb a b : pt_eqb (shear_x a) (shear_x b) = pt_eqb a b.
Proof.
  apply eq_true_iff_eq. rewrite !pt_eqb_iff. unfold pt_eq, shear_x; cbn [fst snd].
  split; intros [H1 H2]; split; try exact H2; lra.
Qed.
Lemma shear_y_inv m q : pt_eq (shear_y m (shear_y (- m) q)) q.
Proof. unfold pt_eq, shear_y; cbn [fst snd]. split; ring. Qed.
Lemma shear_x_inv q : pt_eq (shear_x (unshear_x q)) q.
Proof. unfold pt_eq, shear_x, unshear_x; cbn [fst snd]. split; ring. Qed.

(* ------------------------------------------------------------------ a segment that avoids a closed ring *)
(* the end points of a segment that does not meet a closed ring have the same crossing parity *)
Lemma seg_avoid_nonvertical ps u v :
  pts_closed ps = true -> ~ fst u == fst v ->
  (forall z, on_seg (u, v) z = true -> on_edges (segs_of_pts ps) z = false) ->
  edges_parity (segs_of_pts ps) u = edges_parity (segs_of_pts ps) v.
Proof.
  intros Hc Hx Hav. set (es := segs_of_pts ps) in *.
  set (m := (snd u - snd v) / (fst v - fst u)).
  assert (Hm : m * (fst v - fst u) == snd u - snd v) by (unfold m; field; lra).
  set (T := shear_y m).
  assert (Hes' : segs_of_pts (map T ps) = map (mseg T) es) by (apply segs_of_pts_map).
  assert (Hc' : pts_closed (map T ps) = true) by (rewrite (pts_closed_map T (shear_y_eqb m)); exact Hc).
  assert (Hou : on_edges es u = false) by (apply Hav; apply on_seg_left).
  assert (Hov : on_edges es v = false) by (apply Hav; apply on_seg_right).
  assert (Hou' : on_edges (map (mseg T) es) (T u) = false) by (rewrite (on_edges_map T (shear_y_seg m)); exact Hou).
  assert (Hov' : on_edges (map (mseg T) es) (T v) = false) by (rewrite (on_edges_map T (shear_y_seg m)); exact Hov).
  assert (Hsame : snd (T u) == snd (T v)) by (unfold T, shear_y; cbn [snd]; nra).
  unfold es at 1 2. rewrite (closed_ring_parity ps u Hc Hou), (closed_ring_parity ps v Hc Hov). fold es.
  rewrite <- (vparity_map T (shear_y_cross m) (fun p => eq_refl) es u), <- (vparity_map T (shear_y_cross m) (fun p => eq_refl) es v).
  rewrite <- Hes'. rewrite <- (closed_ring_parity (map T ps) (T u) Hc'), <- (closed_ring_parity (map T ps) (T v) Hc'); try (rewrite Hes'; assumption).
  rewrite Hes'. apply edges_parity_hmove; [exact Hsame|].
  apply (avoid_map T (shear_y (- m)) (shear_y_seg m) (shear_y_inv m)). exact Hav.
Qed.

Theorem seg_avoid_same_parity ps u v :
  pts_closed ps = true ->
  (forall z, on_seg (u, v) z = true -> on_edges (segs_of_pts ps) z = false) ->
  edges_parity (segs_of_pts ps) u = edges_parity (segs_of_pts ps) v.
Proof.
  intros Hc Hav.
  destruct (Qeq_dec (snd u) (snd v)) as [Ey|Ny]; [apply edges_parity_hmove; assumption|].
  destruct (Qeq_dec (fst u) (fst v)) as [Ex|Nx]; [|apply seg_avoid_nonvertical; assumption].
  (* vertical: shear in x first *)
  set (es := segs_of_pts ps) in *.
  assert (Hes' : segs_of_pts (map shear_x ps) = map (mseg shear_x) es) by (apply segs_of_pts_map).
  rewrite <- (edges_parity_map shear_x shear_x_cross (fun p => eq_refl) es u), <- (edges_parity_map shear_x shear_x_cross (fun p => eq_refl) es v).
  rewrite <- Hes'. apply seg_avoid_nonvertical.
  - rewrite (pts_closed_map shear_x shear_x_eqb). exact Hc.
  - unfold shear_x; cbn [fst]. lra.
  - rewrite Hes'. apply (avoid_map shear_x unshear_x shear_x_seg shear_x_inv). exact Hav.
Qed.


(* ------------------------------------------------------------------ the model's probe and the crossing parity *)
Lemma is_eq_qsgn c : is_eq (qsgn c) = Qeq_bool c 0.
Proof.
  apply eq_true_iff_eq. rewrite is_eq_iff, Qeq_bool_iff.
  destruct (qsgn_cases c) as [[K1 K2]|[[K1 K2]|[K1 K2]]]; rewrite K1; split; intros; try discriminate; try reflexivity; lra.
Qed.
Lemma has_crossing_on (p a b : pt) : snd (has_crossing p (a, b)) = on_seg (a, b) p.
Proof.
  unfold has_crossing, on_seg, on_segment_bb.
  destruct (qltb (snd b) (snd a)); cbn [snd]; rewrite orientation_orient; unfold orient; rewrite is_eq_qsgn; [|reflexivity].
  assert (E : cross b a p == - cross a b p) by (unfold cross; ring).
  assert (E2 : Qeq_bool (cross b a p) 0 = Qeq_bool (cross a b p) 0).
  { apply eq_true_iff_eq. rewrite !Qeq_bool_iff. split; intros; lra. }
  rewrite E2. reflexivity.
Qed.

Definition straddle (a b p : pt) : bool := xorb (Qle_bool (snd a) (snd p)) (Qle_bool (snd b) (snd p)).

Lemma in_range_off_line (a b p : pt) :
  on_seg (a, b) p = false ->
  ((snd a <= snd p /\ snd p < snd b) \/ (snd b <= snd p /\ snd p < snd a)) -> ~ cross a b p == 0.
Proof.
  intros Hoff Hr Hc.
  destruct (hsegment_hits_edge a b p p (Qeq_refl _) Hr) as [z [Z1 Z2]]; [left; split; lra|].
  assert (E : pt_eq z p) by (apply (on_seg_degenerate p p z); [reflexivity | exact Z1]).
  rewrite (on_seg_eq (a, b) z p E) in Z2. congruence.
Qed.

(* ray towards -x (the model, geom/alg_point_in_ring.go) against ray towards +x (QKernel) *)
Lemma has_crossing_fst (p a b : pt) : on_seg (a, b) p = false ->
  fst (has_crossing p (a, b)) = xorb (edge_cross a b p) (straddle a b p).
Proof.
  intros Hoff. unfold has_crossing, edge_cross, straddle.
  destruct (Qle_bool (snd a) (snd p)) eqn:Ya; destruct (Qle_bool (snd b) (snd p)) eqn:Yb; cbn [Bool.eqb xorb];
    rewrite ?Qle_bool_iff, ?Qle_bool_false_iff in *.
  - (* both ends not above p *)
    destruct (qltb (snd b) (snd a)); cbn [fst snd].
    + assert (E : qltb (snd p) (snd a) = false) by (apply qltb_false_iff; exact Ya). rewrite E, andb_false_r. reflexivity.
    + assert (E : qltb (snd p) (snd b) = false) by (apply qltb_false_iff; exact Yb). rewrite E, andb_false_r. reflexivity.
  - (* a is the lower end *)
    assert (Hab : qltb (snd b) (snd a) = false) by (apply qltb_false_iff; lra). rewrite Hab. cbn [fst snd].
    assert (E1 : Qle_bool (snd a) (snd p) = true) by (apply Qle_bool_iff; exact Ya).
    assert (E2 : qltb (snd p) (snd b) = true) by (apply qltb_iff; exact Yb). rewrite E1, E2. cbn [andb].
    rewrite orientation_orient. unfold orient.
    pose proof (in_range_off_line a b p Hoff (or_introl (conj Ya Yb))) as N.
    destruct (qsgn_cases (cross a b p)) as [[K1 K2]|[[K1 K2]|[K1 K2]]]; rewrite K1; cbn [is_lt]; [|contradiction|].
    + assert (E : qltb 0 (cross a b p) = true) by (apply qltb_iff; exact K2). rewrite E. reflexivity.
    + assert (E : qltb 0 (cross a b p) = false) by (apply qltb_false_iff; lra). rewrite E. reflexivity.
  - (* b is the lower end *)
    assert (Hab : qltb (snd b) (snd a) = true) by (apply qltb_iff; lra). rewrite Hab. cbn [fst snd].
    assert (E1 : Qle_bool (snd b) (snd p) = true) by (apply Qle_bool_iff; exact Yb).
    assert (E2 : qltb (snd p) (snd a) = true) by (apply qltb_iff; exact Ya). rewrite E1, E2. cbn [andb].
    rewrite orientation_orient. unfold orient.
    assert (N : ~ cross b a p == 0).
    { intros K. apply (in_range_off_line a b p Hoff (or_intror (conj Yb Ya))). unfold cross in *. lra. }
    destruct (qsgn_cases (cross b a p)) as [[K1 K2]|[[K1 K2]|[K1 K2]]]; rewrite K1; cbn [is_lt]; [|contradiction|].
    + assert (E : qltb 0 (cross b a p) = true) by (apply qltb_iff; exact K2). rewrite E. reflexivity.
    + assert (E : qltb 0 (cross b a p) = false) by (apply qltb_false_iff; lra). rewrite E. reflexivity.
  - (* both ends above p *)
    destruct (qltb (snd b) (snd a)); cbn [fst snd].
    + assert (E : Qle_bool (snd b) (snd p) = false) by (apply Qle_bool_false_iff; exact Yb). rewrite E. reflexivity.
    + assert (E : Qle_bool (snd a) (snd p) = false) by (apply Qle_bool_false_iff; exact Ya). rewrite E. reflexivity.
Qed.

Definition mparity (ls : list seg) (p : pt) : bool :=
  fold_left (fun acc l => xorb acc (fst (has_crossing p l))) ls false.

Lemma relate_lines_spec p ls : forall odd,
  relate_lines p ls odd =
  if existsb (fun l => on_seg l p) ls then SBoundary
  else if xorb odd (mparity ls p) then SInterior else SExterior.
Proof.
  unfold mparity. induction ls as [|[a b] r IH]; intros odd.
  - simpl. rewrite xorb_false_r. reflexivity.
  - cbn [relate_lines existsb fold_left]. rewrite <- (has_crossing_on p a b).
    destruct (has_crossing p (a, b)) as [cr on]. cbn [fst snd]. destruct on; [reflexivity|]. cbn [orb].
    rewrite IH. rewrite (fold_xor_acc (fun l => fst (has_crossing p l)) r (xorb false cr)).
    destruct (existsb _ r); [reflexivity|]. destruct odd, cr, (fold_left _ r false); reflexivity.
Qed.


Lemma has_crossing_degenerate (p a b : pt) : pt_eq a b -> fst (has_crossing p (a, b)) = false.
Proof.
  intros [_ Ey]. unfold has_crossing.
  destruct (qltb (snd b) (snd a)) eqn:E; [apply qltb_iff in E; lra|]. cbn [fst snd].
  destruct (Qle_bool (snd a) (snd p)) eqn:Ya; [|reflexivity].
  destruct (qltb (snd p) (snd b)) eqn:Yb; [|reflexivity].
  apply Qle_bool_iff in Ya. apply qltb_iff in Yb. lra.
Qed.

Lemma mparity_cons e es p : mparity (e :: es) p = xorb (fst (has_crossing p e)) (mparity es p).
Proof. unfold mparity. cbn [fold_left]. rewrite fold_xor_acc. destruct (fst (has_crossing p e)); reflexivity. Qed.

Lemma mparity_as_lines ps p : mparity (as_lines ps) p = mparity (ring_edges ps) p.
Proof.
  induction ps as [|a r IH]; [reflexivity|]. destruct r as [|b r']; [reflexivity|].
  rewrite as_lines_cons2, ring_edges_cons2, mparity_cons. destruct (pt_eqb a b) eqn:E.
  - apply pt_eqb_iff in E. rewrite (has_crossing_degenerate p a b E). rewrite IH. destruct (mparity (ring_edges (b :: r')) p); reflexivity.
  - rewrite mparity_cons, IH. reflexivity.
Qed.

(* the number of edges of a chain that straddle the height of p: a telescoping sum *)
Lemma mparity_chain (a : pt) r p :
  on_edges (ring_edges (a :: r)) p = false ->
  mparity (ring_edges (a :: r)) p =
  xorb (edges_parity (ring_edges (a :: r)) p)
       (xorb (Qle_bool (snd a) (snd p)) (Qle_bool (snd (last r a)) (snd p))).
Proof.
  revert a. induction r as [|b r' IH]; intros a Hoff.
  - simpl. rewrite xorb_nilpotent. reflexivity.
  - rewrite ring_edges_cons2 in *. unfold on_edges in Hoff. cbn [existsb] in Hoff. apply orb_false_iff in Hoff.
    destruct Hoff as [H1 H2]. rewrite mparity_cons, edges_parity_cons, (has_crossing_fst p a b H1). cbn [fst snd].
    rewrite (IH b H2). unfold straddle. rewrite (last_cons_default b r' a).
    destruct (edge_cross a b p), (Qle_bool (snd a) (snd p)), (Qle_bool (snd b) (snd p)),
      (edges_parity (ring_edges (b :: r')) p), (Qle_bool (snd (last r' b)) (snd p)); reflexivity.
Qed.

Lemma as_lines_in_ring_edges ps s : In s (as_lines ps) -> In s (ring_edges ps).
Proof.
  induction ps as [|a r IH]; [intros []|]. destruct r as [|b r']; [intros []|].
  rewrite as_lines_cons2, ring_edges_cons2. destruct (pt_eqb a b); [intros H; right; exact (IH H)|].
  intros [<-|H]; [left; reflexivity | right; exact (IH H)].
Qed.

Lemma segs_ring_edges_parity ps p : edges_parity (segs_of_pts ps) p = edges_parity (ring_edges ps) p.
Proof.
  destruct ps as [|a [|b r]]; try reflexivity. unfold segs_of_pts, edges_parity. simpl.
  unfold edge_cross. rewrite eqb_reflx. reflexivity.
Qed.
Lemma segs_ring_edges_on ps p : on_edges (ring_edges ps) p = true -> on_edges (segs_of_pts ps) p = true.
Proof. destruct ps as [|a [|b r]]; try discriminate. auto. Qed.

(* for a closed ring and a point off it, the model's probe is the crossing parity of QKernel *)
Lemma relate_lines_closed_off ps p :
  pts_closed ps = true -> on_edges (segs_of_pts ps) p = false ->
  relate_lines p (as_lines ps) false =
  if edges_parity (segs_of_pts ps) p then SInterior else SExterior.
Proof.
  intros Hc Hoff.
  assert (Hoff' : on_edges (ring_edges ps) p = false).
  { destruct (on_edges (ring_edges ps) p) eqn:E; [|reflexivity]. apply segs_ring_edges_on in E. congruence. }
  rewrite relate_lines_spec.
  assert (E1 : existsb (fun l => on_seg l p) (as_lines ps) = false).
  { apply not_true_iff_false. intros K. apply existsb_exists in K. destruct K as [s [Hs Ho]].
    apply not_true_iff_false in Hoff'. apply Hoff'. apply existsb_exists. exists s. split; [apply as_lines_in_ring_edges; exact Hs | exact Ho]. }
  rewrite E1. cbn [xorb]. rewrite mparity_as_lines, segs_ring_edges_parity.
  destruct ps as [|a r]; [reflexivity|].
  rewrite (mparity_chain a r p Hoff').
  unfold pts_closed in Hc. apply pt_eqb_iff in Hc. destruct Hc as [_ Hy].
  rewrite <- (Qle_bool_proper _ _ Hy _ _ (Qeq_refl (snd p))). rewrite xorb_nilpotent, xorb_false_r. destruct (edges_parity (ring_edges (a :: r)) p); reflexivity.
Qed.

(* the end points of a segment that does not meet a closed ring are on the same side of it *)
Theorem relate_lines_avoiding_segment ps u v :
  pts_closed ps = true ->
  (forall z, on_seg (u, v) z = true -> on_edges (segs_of_pts ps) z = false) ->
  relate_lines u (as_lines ps) false = relate_lines v (as_lines ps) false.
Proof.
  intros Hc Hav.
  rewrite (relate_lines_closed_off ps u Hc (Hav u (on_seg_left u v))),
          (relate_lines_closed_off ps v Hc (Hav v (on_seg_right u v))).
  rewrite (seg_avoid_same_parity ps u v Hc Hav). reflexivity.
Qed.


Lemma nth_error_ring_edges (A : list pt) : forall k x y,
  nth_error A k = Some x -> nth_error A (S k) = Some y -> nth_error (ring_edges A) k = Some (x, y).
Proof.
  induction A as [|a r IH]; intros k x y Hx Hy; [destruct k; discriminate|].
  destruct r as [|b r']; [destruct k; simpl in Hy; [discriminate | destruct k; discriminate]|].
  rewrite ring_edges_cons2. destruct k as [|k].
  - simpl in Hx, Hy. inversion Hx; inversion Hy; subst. reflexivity.
  - simpl in Hx. cbn [nth_error]. apply IH; [exact Hx | exact Hy].
Qed.
Lemma ring_edges_length (A : list pt) : length (ring_edges A) = (length A - 1)%nat.
Proof.
  induction A as [|a r IH]; [reflexivity|]. destruct r as [|b r']; [reflexivity|].
  rewrite ring_edges_cons2. cbn [length] in *. rewrite IH. lia.
Qed.

Section TouchingRings.
  Variables A B : list pt.
  Hypothesis HndA : as_lines A = ring_edges A.          (* no repeated consecutive vertices *)
  Hypothesis HndB : as_lines B = segs_of_pts B.
  Hypothesis HcA : is_closed A = true.
  Hypothesis HsA : Simple A.
  Hypothesis HcB : pts_closed B = true.
  (* the two rings have at most one common point *)
  Hypothesis Hone : forall p q, on_edges (ring_edges A) p = true -> on_edges (segs_of_pts B) p = true ->
                                on_edges (ring_edges A) q = true -> on_edges (segs_of_pts B) q = true -> pt_eq p q.

  Let esB := segs_of_pts B.
  Definition rel (v : pt) : side := relate_lines v (as_lines B) false.
  Definition good (e : seg) : Prop := forall z, on_seg e z = true -> on_edges esB z = false.

  Lemma rel_boundary v : rel v = SBoundary <-> on_edges esB v = true.
  Proof.
    unfold rel. rewrite relate_lines_spec, HndB. fold esB. unfold on_edges.
    destruct (existsb (fun l => on_seg l v) esB); [tauto|].
    destruct (xorb false (mparity esB v)); split; discriminate.
  Qed.
  Lemma good_rel u v : good (u, v) -> rel u = rel v.
  Proof. intros H. unfold rel. apply relate_lines_avoiding_segment; [exact HcB | exact H]. Qed.

  Lemma good_dec e : good e \/ exists z, on_seg e z = true /\ on_edges esB z = true.
  Proof.
    destruct (existsb (fun f => match seg_seg e f with SSEmpty => false | _ => true end) esB) eqn:E.
    - right. apply existsb_exists in E. destruct E as [f [Hf Hs]].
      destruct (proj1 (seg_seg_nonempty_iff e f)) as [z [Z1 Z2]]; [destruct (seg_seg e f); congruence|].
      exists z. split; [exact Z1|]. apply existsb_exists. eauto.
    - left. intros z Hz. apply not_true_iff_false. intros K. apply existsb_exists in K. destruct K as [f [Hf Hs]].
      assert (N : seg_seg e f <> SSEmpty) by (apply (seg_seg_complete e f z); assumption).
      apply not_true_iff_false in E. apply E. apply existsb_exists. exists f. split; [exact Hf|].
      destruct (seg_seg e f); congruence.
  Qed.

  Let n := length (ring_edges A).

  (* consecutive good edges *)
  Lemma chain_rel : forall j i x y, (i <= j)%nat ->
    nth_error A i = Some x -> nth_error A j = Some y ->
    (forall k e, (i <= k < j)%nat -> nth_error (ring_edges A) k = Some e -> good e) -> rel x = rel y.
  Proof.
    induction j as [|j IH]; intros i x y Hij Hx Hy Hg.
    - assert (i = 0)%nat by lia. subst. congruence.
    - destruct (Nat.eq_dec i (S j)) as [->|Hne]; [congruence|].
      destruct (nth_error A j) as [w|] eqn:Ew.
      + rewrite (IH i x w); [|lia|exact Hx|reflexivity|].
        * apply good_rel. apply (Hg j (w, y)); [lia|]. apply nth_error_ring_edges; assumption.
        * intros k e Hk He. apply (Hg k e); [lia | exact He].
      + apply nth_error_None in Ew. assert (S j < length A)%nat by (apply nth_error_Some; congruence). lia.
  Qed.

  Lemma first_bad : forall j i, (i <= j)%nat ->
    (forall k e, (i <= k < j)%nat -> nth_error (ring_edges A) k = Some e -> good e)
    \/ exists k e z, (i <= k < j)%nat /\ nth_error (ring_edges A) k = Some e /\ on_seg e z = true /\ on_edges esB z = true.
  Proof.
    induction j as [|j IH]; intros i Hij; [left; intros k e Hk; lia|].
    destruct (Nat.eq_dec i (S j)) as [->|Hne]; [left; intros k e Hk; lia|].
    destruct (IH i ltac:(lia)) as [Hg|[k [e [z [Hk H]]]]]; [|right; exists k, e, z; split; [lia | exact H]].
    destruct (nth_error (ring_edges A) j) as [e|] eqn:Ee.
    - destruct (good_dec e) as [G|[z [Z1 Z2]]].
      + left. intros k e' Hk He'. destruct (Nat.eq_dec k j) as [Ekj|Hkj]; [subst k; rewrite Ee in He'; inversion He'; subst e'; exact G | apply (Hg k e'); [lia | exact He']].
      + right. exists j, e, z. split; [lia|]. auto.
    - left. intros k e' Hk He'. destruct (Nat.eq_dec k j) as [Ekj|Hkj]; [subst k; congruence | apply (Hg k e'); [lia | exact He']].
  Qed.

  Lemma edge_on_ring k e z : nth_error (ring_edges A) k = Some e -> on_seg e z = true -> on_edges (ring_edges A) z = true.
  Proof. intros He Hz. apply existsb_exists. exists e. split; [eapply nth_error_In; exact He | exact Hz]. Qed.

  (* two edges of A that both meet B: what the simplicity of A says about their positions *)
  Lemma two_bad k1 k2 e1 e2 z1 z2 : (k1 < k2)%nat ->
    nth_error (ring_edges A) k1 = Some e1 -> nth_error (ring_edges A) k2 = Some e2 ->
    on_seg e1 z1 = true -> on_edges esB z1 = true -> on_seg e2 z2 = true -> on_edges esB z2 = true ->
    (k2 = S k1 /\ on_edges esB (snd e1) = true) \/ (k1 = 0%nat /\ S k2 = n /\ on_edges esB (fst e1) = true).
  Proof.
    intros Hk H1 H2 Z1 B1 Z2 B2.
    assert (E : pt_eq z2 z1) by (apply Hone; [exact (edge_on_ring k2 e2 z2 H2 Z2) | exact B2 | exact (edge_on_ring k1 e1 z1 H1 Z1) | exact B1]).
    assert (C : common e1 e2 z1) by (split; [exact Z1 | rewrite <- (on_seg_eq e2 z2 z1 E); exact Z2]).
    unfold Simple in HsA. cbv zeta in HsA. rewrite HndA in HsA.
    destruct (HsA k1 k2 e1 e2 Hk H1 H2 z1 C) as [[K1 K2]|[_ [K1 [K2 K3]]]].
    - left. split; [exact K1|]. rewrite <- (on_edges_eq esB z1 (snd e1) K2). exact B1.
    - right. split; [exact K1|]. split; [exact K2|]. rewrite <- (on_edges_eq esB z1 (fst e1) K3). exact B1.
  Qed.

  Lemma closing_vertices x0 xn : nth_error A 0 = Some x0 -> nth_error A n = Some xn -> pt_eq x0 xn.
  Proof.
    intros H0 Hn. unfold is_closed in HcA. destruct A as [|a r] eqn:EA; [discriminate|].
    simpl in H0. inversion H0; subst x0. apply pt_eqb_iff in HcA.
    assert (En : n = length r) by (unfold n; rewrite ring_edges_length; simpl; lia).
    rewrite En in Hn.
    assert (K : nth_error (a :: r) (length r) = Some (last (a :: r) a)).
    { pose proof (nth_error_last (a :: r) a) as K. replace (length (a :: r) - 1)%nat with (length r) in K by (simpl; lia). apply K. discriminate. }
    rewrite K in Hn. inversion Hn; subst. exact HcA.
  Qed.

  (* all vertices of A that are off B are on the same side of B *)
  Theorem off_vertices_same_side : forall i j x y, (i < j)%nat ->
    nth_error A i = Some x -> nth_error A j = Some y ->
    on_edges esB x = false -> on_edges esB y = false -> rel x = rel y.
  Proof.
    intros i j x y Hij Hx Hy Ox Oy.
    assert (Hjn : (j <= n)%nat).
    { unfold n. rewrite ring_edges_length. assert (j < length A)%nat by (apply nth_error_Some; congruence). lia. }
    destruct (first_bad j i ltac:(lia)) as [Hg|[k1 [e1 [z1 [Hk1 [He1 [Z1 B1]]]]]]].
    { apply (chain_rel j i x y ltac:(lia) Hx Hy Hg). }
    (* an edge between x and y meets B: then no edge outside does *)
    assert (Hfst1 : forall a, nth_error A k1 = Some a -> fst e1 = a).
    { intros a Ha. destruct (nth_error A (S k1)) as [b|] eqn:Eb.
      - rewrite (nth_error_ring_edges A k1 a b Ha Eb) in He1. inversion He1. reflexivity.
      - apply nth_error_None in Eb. assert (k1 < length (ring_edges A))%nat by (apply nth_error_Some; congruence).
        rewrite ring_edges_length in H. lia. }
    assert (Hsnd1 : forall b, nth_error A (S k1) = Some b -> snd e1 = b).
    { intros b Hb. destruct (nth_error A k1) as [a|] eqn:Ea.
      - rewrite (nth_error_ring_edges A k1 a b Ea Hb) in He1. inversion He1. reflexivity.
      - apply nth_error_None in Ea. assert (S k1 < length A)%nat by (apply nth_error_Some; congruence). lia. }
    assert (Hout_hi : forall k e, (j <= k < n)%nat -> nth_error (ring_edges A) k = Some e -> good e).
    { intros k e Hk He. destruct (good_dec e) as [G|[z [Z2 B2]]]; [exact G|]. exfalso.
      destruct (two_bad k1 k e1 e z1 z ltac:(lia) He1 He Z1 B1 Z2 B2) as [[K1 K2]|[K1 [K2 K3]]].
      - assert (S k1 = j) by lia. rewrite (Hsnd1 y) in K2 by (rewrite H; exact Hy). congruence.
      - assert (i = 0)%nat by lia. subst i k1. rewrite (Hfst1 x Hx) in K3. congruence. }
    assert (Hout_lo : forall k e, (0 <= k < i)%nat -> nth_error (ring_edges A) k = Some e -> good e).
    { intros k e Hk He. destruct (good_dec e) as [G|[z [Z2 B2]]]; [exact G|]. exfalso.
      destruct (two_bad k k1 e e1 z z1 ltac:(lia) He He1 Z2 B2 Z1 B1) as [[K1 K2]|[K1 [K2 K3]]].
      - assert (Hi : i = S k) by lia.
        assert (Es : snd e = x).
        { destruct (nth_error A k) as [a|] eqn:Ea.
          - assert (Hx' : nth_error A (S k) = Some x) by (rewrite <- Hi; exact Hx).
            rewrite (nth_error_ring_edges A k a x Ea Hx') in He. inversion He. reflexivity.
          - apply nth_error_None in Ea. assert (i < length A)%nat by (apply nth_error_Some; congruence). lia. }
        rewrite Es in K2. congruence.
      - (* e is the first edge, e1 the last one: y is the closing vertex *)
        assert (j = n) by lia. subst k.
        assert (E0 : exists x0, nth_error A 0 = Some x0 /\ fst e = x0).
        { destruct (nth_error A 0) as [a|] eqn:Ea; [|apply nth_error_None in Ea; assert (i < length A)%nat by (apply nth_error_Some; congruence); lia].
          destruct (nth_error A 1) as [b|] eqn:Eb.
          - rewrite (nth_error_ring_edges A 0 a b Ea Eb) in He. inversion He. eauto.
          - apply nth_error_None in Eb. assert (0 < length (ring_edges A))%nat by (apply nth_error_Some; congruence).
            rewrite ring_edges_length in H0. lia. }
        destruct E0 as [x0 [Hx0 Ef]]. rewrite Ef in K3.
        assert (Ec : pt_eq x0 y) by (apply closing_vertices; [exact Hx0 | rewrite <- H; exact Hy]).
        rewrite (on_edges_eq esB x0 y Ec) in K3. congruence. }
    (* go around the other way: y -> closing vertex = first vertex -> x *)
    destruct (nth_error A n) as [xn|] eqn:En.
    2:{ apply nth_error_None in En. unfold n in En. rewrite ring_edges_length in En.
        assert (j < length A)%nat by (apply nth_error_Some; congruence). lia. }
    destruct (nth_error A 0) as [x0|] eqn:E0.
    2:{ apply nth_error_None in E0. assert (i < length A)%nat by (apply nth_error_Some; congruence). lia. }
    assert (R1 : rel y = rel xn) by (apply (chain_rel n j y xn Hjn Hy En); exact Hout_hi).
    assert (R3 : rel x0 = rel x) by (apply (chain_rel i 0 x0 x ltac:(lia) E0 Hx); exact Hout_lo).
    assert (Ec : pt_eq x0 xn) by (apply closing_vertices; assumption).
    assert (R2 : rel xn = rel x0).
    { apply good_rel. intros z Hz.
      assert (Ez : pt_eq z xn) by (apply (on_seg_degenerate xn x0 z); [symmetry; exact Ec | exact Hz]).
      rewrite (on_edges_eq esB z xn Ez). apply not_true_iff_false. intros K.
      apply rel_boundary in K. rewrite <- R1 in K. apply rel_boundary in K. congruence. }
    rewrite R1, R2, R3. reflexivity.
  Qed.
End TouchingRings.


Section ProbeInvariance.
  Variables A B : list pt.
  Hypothesis HndA : as_lines A = ring_edges A.
  Hypothesis HndB : as_lines B = segs_of_pts B.
  Hypothesis HcA : is_closed A = true.
  Hypothesis HsA : Simple A.
  Hypothesis HcB : pts_closed B = true.
  Hypothesis Hone : forall p q, on_edges (ring_edges A) p = true -> on_edges (segs_of_pts B) p = true ->
                                on_edges (ring_edges A) q = true -> on_edges (segs_of_pts B) q = true -> pt_eq p q.

  Lemma vertices_same_side p q : In p A -> In q A ->
    rel B p <> SBoundary -> rel B q <> SBoundary -> rel B p = rel B q.
  Proof.
    intros Hp Hq Np Nq.
    destruct (In_nth_error A p Hp) as [i Hi]. destruct (In_nth_error A q Hq) as [j Hj].
    assert (Op : on_edges (segs_of_pts B) p = false).
    { destruct (on_edges (segs_of_pts B) p) eqn:E; [|reflexivity]. exfalso. apply Np. apply (rel_boundary B HndB). exact E. }
    assert (Oq : on_edges (segs_of_pts B) q = false).
    { destruct (on_edges (segs_of_pts B) q) eqn:E; [|reflexivity]. exfalso. apply Nq. apply (rel_boundary B HndB). exact E. }
    destruct (lt_eq_lt_dec i j) as [[H|H]|H].
    - exact (off_vertices_same_side A B HndA HndB HcA HsA HcB Hone i j p q H Hi Hj Op Oq).
    - subst j. congruence.
    - symmetry. exact (off_vertices_same_side A B HndA HndB HcA HsA HcB Hone j i q p H Hj Hi Oq Op).
  Qed.

  (* the probe of fixes/F3.patch does not depend on the start vertex or the direction of the ring:
     any vertex list with the same vertices gives the same answer *)
  Theorem nested_probe_start_invariant_lemma_full vs' :
    (forall p, In p vs' <-> In p A) ->
    first_off_boundary vs' (as_lines B) = first_off_boundary A (as_lines B).
  Proof.
    intros Hperm.
    destruct (first_off_boundary A (as_lines B)) eqn:FA.
    - pose proof (first_off_boundary_spec A (as_lines B)) as S. rewrite FA in S.
      destruct S as [l1 [p0 [l2 [E1 [E2 _]]]]].
      assert (Hp0 : In p0 A) by (rewrite E1; apply in_or_app; right; left; reflexivity).
      rewrite <- FA. apply (nested_probe_start_invariant_lemma A vs' (as_lines B) SInterior); [discriminate| |exact Hperm|].
      + intros p Hp. destruct (relate_lines p (as_lines B) false) eqn:R; auto.
        exfalso. assert (K : rel B p = rel B p0) by (apply vertices_same_side; unfold rel; try congruence; assumption).
        unfold rel in K. congruence.
      + exists p0. auto.
    - pose proof (first_off_boundary_spec A (as_lines B)) as S. rewrite FA in S.
      pose proof (first_off_boundary_spec vs' (as_lines B)) as S'.
      destruct (first_off_boundary vs' (as_lines B)); [|reflexivity|];
        destruct S' as [l1 [p0 [l2 [E1 [E2 _]]]]];
        assert (Hp0 : In p0 A) by (apply Hperm; rewrite E1; apply in_or_app; right; left; reflexivity);
        rewrite (S p0 Hp0) in E2; discriminate.
    - pose proof (first_off_boundary_spec A (as_lines B)) as S. rewrite FA in S.
      destruct S as [l1 [p0 [l2 [E1 [E2 _]]]]].
      assert (Hp0 : In p0 A) by (rewrite E1; apply in_or_app; right; left; reflexivity).
      rewrite <- FA. apply (nested_probe_start_invariant_lemma A vs' (as_lines B) SExterior); [discriminate| |exact Hperm|].
      + intros p Hp. destruct (relate_lines p (as_lines B) false) eqn:R; auto.
        exfalso. assert (K : rel B p = rel B p0) by (apply vertices_same_side; unfold rel; try congruence; assumption).
        unfold rel in K. congruence.
      + exists p0. auto.
  Qed.
End ProbeInvariance.
