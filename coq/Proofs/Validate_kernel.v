(* Property C03 - the segment kernel as written in Go (geom/line.go:intersectLine,
   geom/alg_orientation.go) against the point-set meaning of closed segments (QKernel.on_seg).
   Main result: intersect_line_spec. *)
From Coq Require Import QArith Qreduction List Bool ZArith Lia Lqa Arith Setoid Morphisms.
From SF Require Import Base.QKernel Model.Validate.
Import ListNotations.
Open Scope Q_scope.


(* ------------------------------------------------------------------ the kernel as written in Go *)
Lemma orientation_orient p q s : orientation p q s = orient p q s.
Proof. unfold orientation, orient. apply qsgn_proper. unfold cross. ring. Qed.

Lemma cmp_eqb_eq a b : cmp_eqb a b = true <-> a = b.
Proof. destruct a, b; simpl; split; intros; congruence. Qed.
Lemma is_eq_iff c : is_eq c = true <-> c = Eq.
Proof. destruct c; simpl; split; intros; congruence. Qed.
Lemma is_lt_iff c : is_lt c = true <-> c = Lt.
Proof. destruct c; simpl; split; intros; congruence. Qed.

Lemma qltb_iff a b : qltb a b = true <-> a < b.
Proof.
  unfold qltb. rewrite negb_true_iff. split.
  - intros H. apply Qnot_le_lt. intros L. apply Qle_bool_iff in L. congruence.
  - intros H. destruct (Qle_bool b a) eqn:E; auto. apply Qle_bool_iff in E. lra.
Qed.
Lemma qltb_false_iff a b : qltb a b = false <-> b <= a.
Proof.
  unfold qltb. rewrite negb_false_iff. apply Qle_bool_iff.
Qed.

Definition common (s t : seg) (p : pt) : Prop := on_seg s p = true /\ on_seg t p = true.

(* two non-parallel lines have at most one common point *)
Lemma lines_meet_once a b c d p q :
  ~ cross a b d - cross a b c == 0 ->
  cross a b p == 0 -> cross a b q == 0 -> cross c d p == 0 -> cross c d q == 0 -> pt_eq p q.
Proof.
  destruct a as [ax ay], b as [bx by_], c as [cx cy], d as [dx dy], p as [px py], q as [qx qy].
  unfold cross, pt_eq; simpl. intros HD H1 H2 H3 H4.
  set (D := (bx - ax) * (dy - cy) - (by_ - ay) * (dx - cx)).
  assert (HD' : ~ D == 0). { intros E. apply HD. rewrite <- E. unfold D. ring. }
  assert (Kx : D * (qx - px) == 0).
  { transitivity (
      (((dx - cx) * (py - cy) - (dy - cy) * (px - cx)) - ((dx - cx) * (qy - cy) - (dy - cy) * (qx - cx))) * (bx - ax)
      - (((bx - ax) * (py - ay) - (by_ - ay) * (px - ax)) - ((bx - ax) * (qy - ay) - (by_ - ay) * (qx - ax))) * (dx - cx)).
    - unfold D. ring.
    - rewrite H1, H2, H3, H4. ring. }
  assert (Ky : D * (qy - py) == 0).
  { transitivity (
      (((dx - cx) * (py - cy) - (dy - cy) * (px - cx)) - ((dx - cx) * (qy - cy) - (dy - cy) * (qx - cx))) * (by_ - ay)
      - (((bx - ax) * (py - ay) - (by_ - ay) * (px - ax)) - ((bx - ax) * (qy - ay) - (by_ - ay) * (qx - ax))) * (dy - cy)).
    - unfold D. ring.
    - rewrite H1, H2, H3, H4. ring. }
  apply Qmult_integral in Kx. apply Qmult_integral in Ky.
  destruct Kx as [Kx|Kx].
  { exfalso; apply HD'; exact Kx. }
  destruct Ky as [Ky|Ky].
  { exfalso; apply HD'; exact Ky. }
  split; lra.
Qed.

(* a point of a segment is on its line *)
Lemma on_seg_cross a b p : on_seg (a, b) p = true -> cross a b p == 0.
Proof. unfold on_seg. rewrite !andb_true_iff, Qeq_bool_iff. tauto. Qed.

Lemma qsgn_cases q : (qsgn q = Gt /\ 0 < q) \/ (qsgn q = Eq /\ q == 0) \/ (qsgn q = Lt /\ q < 0).
Proof.
  unfold qsgn. destruct (q ?= 0) eqn:E.
  - right; left. split; [reflexivity | apply Qeq_alt; exact E].
  - right; right. split; [reflexivity | apply Qlt_alt; exact E].
  - left. split; [reflexivity | apply Qgt_alt; exact E].
Qed.


Lemma div_range x D t : t * D == x ->
  ((0 < D /\ 0 <= x /\ x <= D) \/ (D < 0 /\ D <= x /\ x <= 0)) -> 0 <= t /\ t <= 1.
Proof. intros H [[H1 [H2 H3]]|[H1 [H2 H3]]]; split; nra. Qed.

(* x and y have different signs (as classes Lt / Eq / Gt): x / (x - y) is a parameter in [0,1] *)
Lemma param_range x y : qsgn x <> qsgn y -> ~ x - y == 0 /\ 0 <= x / (x - y) /\ x / (x - y) <= 1.
Proof.
  intros H.
  assert (HD : ~ x - y == 0).
  { intros E. apply H. assert (x == y) by lra. rewrite H0. reflexivity. }
  split; [exact HD|].
  assert (Ht : x / (x - y) * (x - y) == x) by (field; exact HD).
  apply (div_range x (x - y)); [exact Ht|].
  destruct (qsgn_cases x) as [[Ex Hx]|[[Ex Hx]|[Ex Hx]]]; destruct (qsgn_cases y) as [[Ey Hy]|[[Ey Hy]|[Ey Hy]]];
    try (exfalso; apply H; congruence); first [left; lra | right; lra].
Qed.

Lemma pt_eqb_false_of a b : ~ pt_eq a b -> pt_eqb a b = false.
Proof. intros H. apply pt_eqb_false_iff. exact H. Qed.

Lemma den_identity a b c d : cross c d a - cross c d b == cross a b d - cross a b c.
Proof. unfold cross. ring. Qed.

Lemma on_seg_eq s p q : pt_eq p q -> on_seg s p = on_seg s q.
Proof. destruct s as [a b]. intros H. apply on_seg_proper; try reflexivity; exact H. Qed.

Lemma common_eq s t p q : pt_eq p q -> common s t p -> common s t q.
Proof. intros E [H1 H2]. split; [rewrite <- (on_seg_eq s p q E) | rewrite <- (on_seg_eq t p q E)]; assumption. Qed.

(* case "o1 <> o2 && o3 <> o4" of intersectLine: the segments meet in exactly one point *)
Lemma crossing_case a b c d :
  ~ pt_eq a b -> ~ pt_eq c d ->
  qsgn (cross a b c) <> qsgn (cross a b d) -> qsgn (cross c d a) <> qsgn (cross c d b) ->
  let M := lerp a b (cross c d a / (cross c d a - cross c d b)) in
  common (a, b) (c, d) M /\
  (forall p, cross a b p == 0 -> cross c d p == 0 -> pt_eq p M).
Proof.
  intros Hab Hcd H12 H34 M.
  destruct (param_range _ _ H34) as [HD [T0 T1]].
  destruct (param_range _ _ H12) as [HD' [U0 U1]].
  assert (Hss : seg_seg (a, b) (c, d) = SSPoint M).
  { unfold seg_seg. rewrite (pt_eqb_false_of _ _ Hab), (pt_eqb_false_of _ _ Hcd). cbv zeta.
    assert (E : Qeq_bool (cross c d a - cross c d b) 0 = false) by (apply Qeq_bool_false_iff; exact HD).
    rewrite E.
    assert (Eu : - cross a b c / (cross c d a - cross c d b) == cross a b c / (cross a b c - cross a b d)).
    { rewrite den_identity. field. split; [exact HD'|]. intros K. apply HD'. lra. }
    apply Qle_bool_iff in T0, T1. rewrite T0, T1. simpl.
    rewrite Eu. apply Qle_bool_iff in U0, U1. rewrite U0, U1. reflexivity. }
  assert (Hc : common (a, b) (c, d) M).
  { apply seg_seg_sound. rewrite Hss. simpl. auto. }
  split; [exact Hc|].
  intros p H1 H2. destruct Hc as [C1 C2].
  apply (lines_meet_once a b c d).
  - rewrite <- den_identity. exact HD.
  - exact H1.
  - apply on_seg_cross; exact C1.
  - exact H2.
  - apply on_seg_cross; exact C2.
Qed.

Lemma cross_self_l a b : cross a b a == 0. Proof. unfold cross. ring. Qed.
Lemma cross_self_r a b : cross a b b == 0. Proof. unfold cross. ring. Qed.

(* the point computed by the general branch of intersectLine is the meeting point *)
Lemma go_point_eq a b c d :
  let e := (snd c - snd d) * (fst a - fst c) + (fst d - fst c) * (snd a - snd c) in
  let f := (fst d - fst c) * (snd a - snd b) - (fst a - fst b) * (snd d - snd c) in
  ~ cross c d a - cross c d b == 0 ->
  pt_eq (Qred ((fst b - fst a) * (e / f) + fst a), Qred ((snd b - snd a) * (e / f) + snd a))
        (lerp a b (cross c d a / (cross c d a - cross c d b))).
Proof.
  intros e f HD.
  assert (Ee : e == cross c d a) by (unfold e, cross; ring).
  assert (Ef : f == cross c d a - cross c d b) by (unfold f, cross; ring).
  unfold pt_eq, lerp; cbn [fst snd]. rewrite !Qred_correct. rewrite Ee, Ef. split; ring.
Qed.


(* ---- points of one line, ordered by a coordinate ---- *)
Definition lkey (a b p : pt) : Q := if Qeq_bool (fst a) (fst b) then snd p else fst p.

Section Line.
  Variables a b : pt.
  Hypothesis Hab : ~ pt_eq a b.
  Definition OnL (p : pt) : Prop := cross a b p == 0.

  Lemma vertical_x p : fst a == fst b -> OnL p -> fst p == fst a.
  Proof.
    unfold OnL, cross, pt_eq in *. destruct a as [ax ay], b as [bx by_], p as [px py]. cbn [fst snd] in *.
    intros E H.
    assert (Z0 : (bx - ax) * (py - ay) == 0) by (setoid_replace (bx - ax) with 0 by lra; ring).
    assert (K : (by_ - ay) * (px - ax) == 0) by lra.
    apply Qmult_integral in K. destruct K as [K|K]; [|lra].
    exfalso. apply Hab. split; lra.
  Qed.
  Lemma nonvertical_y p q : ~ fst a == fst b -> OnL p -> OnL q -> fst p == fst q -> snd p == snd q.
  Proof.
    unfold OnL, cross in *. destruct a as [ax ay], b as [bx by_], p as [px py], q as [qx qy]. cbn [fst snd] in *.
    intros N H1 H2 E.
    assert (K : (bx - ax) * (py - qy) == 0).
    { transitivity (((bx - ax) * (py - ay) - (by_ - ay) * (px - ax)) - ((bx - ax) * (qy - ay) - (by_ - ay) * (qx - ax))
                    + (by_ - ay) * (px - qx)); [ring|]. rewrite H1, H2, E. ring. }
    apply Qmult_integral in K. destruct K as [K|K]; lra.
  Qed.

  Lemma lkey_eq p q : OnL p -> OnL q -> (pt_eq p q <-> lkey a b p == lkey a b q).
  Proof.
    intros Hp Hq. unfold lkey. destruct (Qeq_bool (fst a) (fst b)) eqn:E.
    - apply Qeq_bool_iff in E. split; [intros [_ H]; exact H|].
      intros H. split; [|exact H]. rewrite (vertical_x p E Hp), (vertical_x q E Hq). reflexivity.
    - apply Qeq_bool_false_iff in E. split; [intros [H _]; exact H|].
      intros H. split; [exact H|]. apply nonvertical_y; assumption.
  Qed.

  Lemma lkey_gt best p : OnL best -> OnL p -> (xy_gt best p = true <-> lkey a b best < lkey a b p).
  Proof.
    intros Hb Hp. unfold xy_gt, lkey. rewrite orb_true_iff, andb_true_iff, !qltb_iff, Qeq_bool_iff.
    destruct (Qeq_bool (fst a) (fst b)) eqn:E.
    - apply Qeq_bool_iff in E. pose proof (vertical_x _ E Hb). pose proof (vertical_x _ E Hp).
      split; [intros [K|[_ K]]; [lra | exact K] | intros K; right; split; [lra | exact K]].
    - apply Qeq_bool_false_iff in E. split; [intros [K|[K1 K2]]; [exact K|] | intros K; left; exact K].
      pose proof (nonvertical_y p best E Hp Hb K1). lra.
  Qed.
  Lemma lkey_less p best : OnL best -> OnL p -> (xy_less p best = true <-> lkey a b p < lkey a b best).
  Proof.
    intros Hb Hp. unfold xy_less, lkey.
    destruct (Qeq_bool (fst a) (fst b)) eqn:E.
    - apply Qeq_bool_iff in E. pose proof (vertical_x _ E Hb). pose proof (vertical_x _ E Hp).
      assert (Qeq_bool (fst p) (fst best) = true) by (apply Qeq_bool_iff; lra). rewrite H1. apply qltb_iff.
    - apply Qeq_bool_false_iff in E. destruct (Qeq_bool (fst p) (fst best)) eqn:E2.
      + apply Qeq_bool_iff in E2. pose proof (nonvertical_y p best E Hp Hb E2). rewrite qltb_iff. split; intros; lra.
      + apply qltb_iff.
  Qed.

  (* three points of the line are collinear *)
  Lemma three_on_line p q r : OnL p -> OnL q -> OnL r -> cross p q r == 0.
  Proof.
    unfold OnL, cross, pt_eq in *.
    destruct a as [ax ay], b as [bx by_], p as [px py], q as [qx qy], r as [rx ry].
    cbn [fst snd] in *. intros H1 H2 H3.
    set (C := (qx - px) * (ry - py) - (qy - py) * (rx - px)).
    assert (Kx : C * (bx - ax) == 0).
    { transitivity (
        (((bx - ax) * (ry - ay) - (by_ - ay) * (rx - ax)) - ((bx - ax) * (py - ay) - (by_ - ay) * (px - ax))) * (qx - px)
        - (((bx - ax) * (qy - ay) - (by_ - ay) * (qx - ax)) - ((bx - ax) * (py - ay) - (by_ - ay) * (px - ax))) * (rx - px)).
      - unfold C. ring.
      - rewrite H1, H2, H3. ring. }
    assert (Ky : C * (by_ - ay) == 0).
    { transitivity (
        (((bx - ax) * (ry - ay) - (by_ - ay) * (rx - ax)) - ((bx - ax) * (py - ay) - (by_ - ay) * (px - ax))) * (qy - py)
        - (((bx - ax) * (qy - ay) - (by_ - ay) * (qx - ax)) - ((bx - ax) * (py - ay) - (by_ - ay) * (px - ax))) * (ry - py)).
      - unfold C. ring.
      - rewrite H1, H2, H3. ring. }
    apply Qmult_integral in Kx. apply Qmult_integral in Ky.
    destruct Kx as [Kx|Kx]; [exact Kx|]. destruct Ky as [Ky|Ky]; [exact Ky|].
    exfalso. apply Hab. split; lra.
  Qed.

  (* membership in a segment of the line is betweenness of keys *)
  Lemma lkey_on_seg p q r : OnL p -> OnL q -> OnL r ->
    (on_seg (p, q) r = true <->
     (lkey a b p <= lkey a b r /\ lkey a b r <= lkey a b q) \/ (lkey a b q <= lkey a b r /\ lkey a b r <= lkey a b p)).
  Proof.
    intros Hp Hq Hr. split.
    - intros H. apply on_seg_iff in H. destruct H as [t [[T0 T1] [Hx Hy]]].
      unfold lkey. destruct (Qeq_bool (fst a) (fst b)).
      + destruct (Qlt_le_dec (snd p) (snd q)); [left | right]; split; nra.
      + destruct (Qlt_le_dec (fst p) (fst q)); [left | right]; split; nra.
    - intros H.
      pose proof (three_on_line p q r Hp Hq Hr) as C.
      destruct (Qeq_dec (lkey a b p) (lkey a b q)) as [E|N].
      + (* p == q == r *)
        assert (Epq : pt_eq p q) by (apply lkey_eq; assumption).
        assert (Epr : pt_eq p r) by (apply lkey_eq; try assumption; lra).
        rewrite <- (on_seg_proper p p p p q r); [apply on_seg_left | reflexivity | exact Epq | exact Epr].
      + apply on_seg_iff.
        exists ((lkey a b r - lkey a b p) / (lkey a b q - lkey a b p)).
        assert (ND : ~ lkey a b q - lkey a b p == 0) by lra.
        set (t := (lkey a b r - lkey a b p) / (lkey a b q - lkey a b p)).
        assert (Ht : t * (lkey a b q - lkey a b p) == lkey a b r - lkey a b p) by (unfold t; field; exact ND).
        assert (T01 : 0 <= t /\ t <= 1).
        { apply (div_range (lkey a b r - lkey a b p) (lkey a b q - lkey a b p) t Ht).
          destruct (Qlt_le_dec (lkey a b p) (lkey a b q)); [left | right]; lra. }
        unfold seg_param. split; [exact T01|].
        revert Ht ND C. unfold t. clear t T01 H N. unfold lkey.
        destruct (Qeq_bool (fst a) (fst b)) eqn:E; intros Ht ND C.
        * apply Qeq_bool_iff in E.
          pose proof (vertical_x _ E Hp). pose proof (vertical_x _ E Hq). pose proof (vertical_x _ E Hr).
          split; [|lra]. rewrite H, H0, H1. ring.
        * split; [lra|].
          set (t := (fst r - fst p) / (fst q - fst p)) in *.
          destruct p as [px py], q as [qx qy], r as [rx ry]. unfold cross in C; cbn [fst snd] in *.
          assert (K : (qx - px) * (ry - py - t * (qy - py)) == 0).
          { transitivity ((qx - px) * (ry - py) - (qy - py) * (t * (qx - px))); [ring|]. rewrite Ht. lra. }
          apply Qmult_integral in K. destruct K as [K|K]; [contradiction | lra].
  Qed.

  Lemma bb_on_seg p q r : OnL p -> OnL q -> OnL r -> on_segment_bb p q r = on_seg (p, q) r.
  Proof.
    intros Hp Hq Hr. unfold on_seg, on_segment_bb.
    assert (E : Qeq_bool (cross p q r) 0 = true) by (apply Qeq_bool_iff; apply three_on_line; assumption).
    rewrite E. rewrite andb_true_r. reflexivity.
  Qed.
End Line.


Lemma lkey_gt_spec a b (Hab : ~ pt_eq a b) best p : OnL a b best -> OnL a b p ->
  if xy_gt best p then lkey a b best < lkey a b p else lkey a b p <= lkey a b best.
Proof.
  intros H1 H2. pose proof (lkey_gt a b Hab best p H1 H2) as K. destruct (xy_gt best p).
  - apply K; reflexivity.
  - apply Qnot_lt_le. intros L. apply K in L. discriminate.
Qed.
Lemma lkey_less_spec a b (Hab : ~ pt_eq a b) p best : OnL a b best -> OnL a b p ->
  if xy_less p best then lkey a b p < lkey a b best else lkey a b best <= lkey a b p.
Proof.
  intros H1 H2. pose proof (lkey_less a b Hab p best H1 H2) as K. destruct (xy_less p best).
  - apply K; reflexivity.
  - apply Qnot_lt_le. intros L. apply K in L. discriminate.
Qed.

Ltac norm_b B := match type of B with
 | true = true <-> ?P => let T := fresh "T" in assert (T : P) by (apply B; reflexivity)
 | false = true <-> ?P => let N := fresh "N" in assert (N : ~ P) by (let K := fresh in intros K; apply B in K; discriminate)
 end.

Lemma rth_from_cons best bi i p r :
  rth_from best bi i (p :: r) = if xy_gt best p then rth_from p i (S i) r else rth_from best bi (S i) r.
Proof. reflexivity. Qed.
Lemma ltl_from_cons best bi i p r :
  ltl_from best bi i (p :: r) = if xy_less p best then ltl_from p i (S i) r else ltl_from best bi (S i) r.
Proof. reflexivity. Qed.

Definition btw (x y z : Q) : Prop := (x <= z /\ z <= y) \/ (y <= z /\ z <= x).

Lemma collinear_case a b c d :
  ~ pt_eq a b -> ~ pt_eq c d -> cross a b c == 0 -> cross a b d == 0 ->
  match collinear_intersection a b c d with
  | ILEmpty => forall p, ~ common (a, b) (c, d) p
  | ILSome x y => common (a, b) (c, d) x /\ common (a, b) (c, d) y
                  /\ (pt_eq x y -> forall p, common (a, b) (c, d) p -> pt_eq p x)
  end.
Proof.
  intros Hab Hcd H1 H2.
  assert (La : OnL a b a) by apply cross_self_l.
  assert (Lb : OnL a b b) by apply cross_self_r.
  assert (Lc : OnL a b c) by exact H1.
  assert (Ld : OnL a b d) by exact H2.
  (* everything in terms of keys *)
  assert (Kcommon : forall p, common (a, b) (c, d) p <->
            OnL a b p /\ btw (lkey a b a) (lkey a b b) (lkey a b p) /\ btw (lkey a b c) (lkey a b d) (lkey a b p)).
  { intros p. unfold common. split.
    - intros [P1 P2]. assert (Lp : OnL a b p) by (apply on_seg_cross; exact P1).
      split; [exact Lp|]. split; [apply (lkey_on_seg a b Hab a b p) | apply (lkey_on_seg a b Hab c d p)]; assumption.
    - intros [Lp [P1 P2]]. split; [apply (lkey_on_seg a b Hab a b p) | apply (lkey_on_seg a b Hab c d p)]; assumption. }
  assert (Kne : ~ lkey a b a == lkey a b b).
  { intros E. apply Hab. apply (lkey_eq a b Hab); assumption. }
  assert (Kne' : ~ lkey a b c == lkey a b d).
  { intros E. apply Hcd. apply (lkey_eq a b Hab); assumption. }
  unfold collinear_intersection.
  rewrite (bb_on_seg a b Hab a b c), (bb_on_seg a b Hab a b d), (bb_on_seg a b Hab c d a), (bb_on_seg a b Hab c d b) by assumption.
  pose proof (lkey_on_seg a b Hab a b c La Lb Lc) as B1.
  pose proof (lkey_on_seg a b Hab a b d La Lb Ld) as B2.
  pose proof (lkey_on_seg a b Hab c d a Lc Ld La) as B3.
  pose proof (lkey_on_seg a b Hab c d b Lc Ld Lb) as B4.
  set (ka := lkey a b a) in *. set (kb := lkey a b b) in *. set (kc := lkey a b c) in *. set (kd := lkey a b d) in *.
  destruct (on_seg (a, b) c) eqn:S1; destruct (on_seg (a, b) d) eqn:S2;
  destruct (on_seg (c, d) a) eqn:S3; destruct (on_seg (c, d) b) eqn:S4; cbn [negb andb].
  all: norm_b B1; norm_b B2; norm_b B3; norm_b B4; clear B1 B2 B3 B4.
  (* the empty case *)
  all: try (intros p Hp; apply Kcommon in Hp; destruct Hp as [Lp [P1 P2]]; unfold btw in *; lra).
  all: cbn [rightmost_then_highest_index].
  all: repeat match goal with
       | |- context [rth_from ?best ?bi ?i (?p :: ?r)] =>
           let G := fresh "G" in
           rewrite (rth_from_cons best bi i p r);
           pose proof (lkey_gt_spec a b Hab best p ltac:(assumption) ltac:(assumption)) as G;
           fold ka kb kc kd in G; destruct (xy_gt best p)
       end.
  all: cbn [rth_from remove_nth leftmost_then_lowest_index].
  all: repeat match goal with
       | |- context [ltl_from ?best ?bi ?i (?p :: ?r)] =>
           let G := fresh "G" in
           rewrite (ltl_from_cons best bi i p r);
           pose proof (lkey_less_spec a b Hab p best ltac:(assumption) ltac:(assumption)) as G;
           fold ka kb kc kd in G; destruct (xy_less p best)
       end.
  all: cbn [ltl_from remove_nth].
  all: (split; [apply Kcommon; split; [assumption|]; fold ka kb kc kd; unfold btw in *; lra|]);
       (split; [apply Kcommon; split; [assumption|]; fold ka kb kc kd; unfold btw in *; lra|]).
  all: intros Exy p Hp; apply Kcommon in Hp; destruct Hp as [Lp [P1 P2]];
       apply (lkey_eq a b Hab) in Exy; try assumption; fold ka kb kc kd in Exy;
       apply (lkey_eq a b Hab); try assumption; fold ka kb kc kd; unfold btw in *; lra.
Qed.


Lemma same_side_no_common a b c d p :
  (0 < cross a b c /\ 0 < cross a b d) \/ (cross a b c < 0 /\ cross a b d < 0) ->
  on_seg (a, b) p = true -> on_seg (c, d) p = true -> False.
Proof.
  intros H S1 S2. apply on_seg_cross in S1. apply on_seg_iff in S2.
  destruct S2 as [u [[U0 U1] [Hx Hy]]].
  pose proof (cross_along a b c d p u Hx Hy) as K. rewrite S1 in K.
  destruct H as [[X Y]|[X Y]]; nra.
Qed.

Lemma qsgn_eq_cases x y : qsgn x = qsgn y ->
  (x == 0 /\ y == 0) \/ (0 < x /\ 0 < y) \/ (x < 0 /\ y < 0).
Proof.
  intros H. destruct (qsgn_cases x) as [[Ex Hx]|[[Ex Hx]|[Ex Hx]]]; destruct (qsgn_cases y) as [[Ey Hy]|[[Ey Hy]|[Ey Hy]]];
    try congruence; auto.
Qed.

Definition il_spec (s t : seg) (r : il) : Prop :=
  match r with
  | ILEmpty => forall p, ~ common s t p
  | ILSome x y => common s t x /\ common s t y /\ (pt_eq x y -> forall p, common s t p -> pt_eq p x)
  end.

(* geom/line.go:intersectLine computes the intersection of the two closed segments: empty iff they
   have no common point; both reported points are common points; when the two reported points
   coincide it is the only common point *)
Theorem intersect_line_spec a b c d :
  ~ pt_eq a b -> ~ pt_eq c d -> il_spec (a, b) (c, d) (intersect_line (a, b) (c, d)).
Proof.
  intros Hab Hcd. unfold intersect_line. rewrite !orientation_orient. unfold orient.
  set (d1 := cross a b c). set (d2 := cross a b d). set (d3 := cross c d a). set (d4 := cross c d b).
  destruct (negb (cmp_eqb (qsgn d1) (qsgn d2)) && negb (cmp_eqb (qsgn d3) (qsgn d4))) eqn:EA.
  - (* the segments cross or touch in one point *)
    apply andb_true_iff in EA. destruct EA as [E12 E34].
    apply negb_true_iff in E12, E34.
    assert (H12 : qsgn d1 <> qsgn d2) by (intros K; apply cmp_eqb_eq in K; congruence).
    assert (H34 : qsgn d3 <> qsgn d4) by (intros K; apply cmp_eqb_eq in K; congruence).
    destruct (crossing_case a b c d Hab Hcd H12 H34) as [CM UM].
    set (M := lerp a b (cross c d a / (cross c d a - cross c d b))) in *.
    assert (Hpt : forall x, pt_eq x M -> il_spec (a, b) (c, d) (ILSome x x)).
    { intros x Ex. assert (Cx : common (a, b) (c, d) x) by (apply (common_eq _ _ M x); [symmetry; exact Ex | exact CM]).
      simpl. split; [exact Cx|]. split; [exact Cx|]. intros _ p [P1 P2].
      rewrite Ex. apply UM; apply on_seg_cross; assumption. }
    destruct (is_eq (qsgn d1)) eqn:Z1.
    { apply Hpt. apply UM; [|apply cross_self_l].
      apply is_eq_iff in Z1. destruct (qsgn_cases d1) as [[E _]|[[_ E]|[E _]]]; try congruence. exact E. }
    destruct (is_eq (qsgn d2)) eqn:Z2.
    { apply Hpt. apply UM; [|apply cross_self_r].
      apply is_eq_iff in Z2. destruct (qsgn_cases d2) as [[E _]|[[_ E]|[E _]]]; try congruence. exact E. }
    destruct (is_eq (qsgn d3)) eqn:Z3.
    { apply Hpt. apply UM; [apply cross_self_l|].
      apply is_eq_iff in Z3. destruct (qsgn_cases d3) as [[E _]|[[_ E]|[E _]]]; try congruence. exact E. }
    destruct (is_eq (qsgn d4)) eqn:Z4.
    { apply Hpt. apply UM; [apply cross_self_r|].
      apply is_eq_iff in Z4. destruct (qsgn_cases d4) as [[E _]|[[_ E]|[E _]]]; try congruence. exact E. }
    apply Hpt. apply go_point_eq.
    destruct (param_range _ _ H34) as [HD _]. exact HD.
  - destruct (is_eq (qsgn d1) && is_eq (qsgn d2)) eqn:EB.
    + (* four collinear end points *)
      apply andb_true_iff in EB. destruct EB as [Z1 Z2]. apply is_eq_iff in Z1, Z2.
      assert (E1 : d1 == 0) by (destruct (qsgn_cases d1) as [[E _]|[[_ E]|[E _]]]; try congruence; exact E).
      assert (E2 : d2 == 0) by (destruct (qsgn_cases d2) as [[E _]|[[_ E]|[E _]]]; try congruence; exact E).
      exact (collinear_case a b c d Hab Hcd E1 E2).
    + (* no common point *)
      simpl. intros p [P1 P2].
      destruct (cmp_eqb (qsgn d1) (qsgn d2)) eqn:E12.
      * apply cmp_eqb_eq in E12. destruct (qsgn_eq_cases _ _ E12) as [[X Y]|S].
        -- assert (is_eq (qsgn d1) && is_eq (qsgn d2) = true); [|congruence].
           apply andb_true_iff. split; apply is_eq_iff; unfold qsgn; apply Qeq_alt; assumption.
        -- exact (same_side_no_common a b c d p S P1 P2).
      * destruct (cmp_eqb (qsgn d3) (qsgn d4)) eqn:E34; [|simpl in EA; discriminate].
        apply cmp_eqb_eq in E34. destruct (qsgn_eq_cases _ _ E34) as [[X Y]|S].
        -- (* a, b on the line c d: then c, d on the line a b *)
           destruct (collinear_swap a b c d Hcd X Y) as [K1 K2].
           assert (cmp_eqb (qsgn d1) (qsgn d2) = true); [|congruence].
           apply cmp_eqb_eq. unfold d1, d2. rewrite K1, K2. reflexivity.
        -- exact (same_side_no_common c d a b p S P2 P1).
Qed.
