(* Property C03 - MultiPolygon: the verdict (nil / error) of MultiPolygon.Validate does not depend on
   the ORDER in which the members are listed.
     geom/type_multi_polygon.go:Validate validates every member, then
     checkMultiPolygonConstraints runs one callback per unordered pair of non-empty members; the
     callback (mpoly_pair) is symmetric in its two members as far as nil / non-nil goes:
       - intersectionOfIndexedLines reports "some point part" / "some line part" for (i, j) exactly
         when it does for (j, i) (intersect_line computes the point-set intersection: kernel theorem
         intersect_line_spec),
       - the fast case probes one start vertex in each direction,
       - the slow case runs validatePolyNotInsidePoly in BOTH directions.
   A callback that looks at one direction only, chosen by list position (or by a comparison that can
   tie, as "the member with the smaller envelope area"), does not satisfy mpoly_pair_sym. *)
From Coq Require Import QArith List Bool ZArith Lia Permutation Setoid Morphisms.
From SF Require Import Base.QKernel Model.Validate Proofs.Validate_kernel Proofs.Validate_proofs.
Import ListNotations.
Open Scope Q_scope.

(* ------------------------------------------------------------------ boundary_inter as two existentials *)
Definition il_pt (r : il) : bool := match r with ILSome a b => pt_eqb a b | ILEmpty => false end.
Definition il_ls (r : il) : bool := match r with ILSome a b => negb (pt_eqb a b) | ILEmpty => false end.

Definition bi_step (la : seg) (acc' : bool * bool) (lb : seg) : bool * bool :=
  match intersect_line la lb with
  | ILEmpty => acc'
  | ILSome pa pb => if pt_eqb pa pb then (true, snd acc') else (fst acc', true)
  end.

Lemma bi_step_eq la acc lb :
  bi_step la acc lb = (fst acc || il_pt (intersect_line la lb), snd acc || il_ls (intersect_line la lb)).
Proof.
  unfold bi_step. generalize (intersect_line la lb). intros r. destruct acc as [p q]. destruct r as [|pa pb]; cbn [il_pt il_ls fst snd].
  - rewrite !orb_false_r. reflexivity.
  - destruct (pt_eqb pa pb); cbn [negb]; rewrite ?orb_true_r, ?orb_false_r; reflexivity.
Qed.

Lemma bi_inner la l : forall acc,
  fold_left (bi_step la) l acc =
  (fst acc || existsb (fun lb => il_pt (intersect_line la lb)) l,
   snd acc || existsb (fun lb => il_ls (intersect_line la lb)) l).
Proof.
  induction l as [|x r IH]; intros acc; cbn [fold_left existsb].
  - rewrite !orb_false_r. destruct acc; reflexivity.
  - rewrite IH, bi_step_eq. cbn [fst snd]. rewrite !orb_assoc. reflexivity.
Qed.

Lemma bi_outer b2 l : forall acc,
  fold_left (fun acc0 la => fold_left (bi_step la) b2 acc0) l acc =
  (fst acc || existsb (fun la => existsb (fun lb => il_pt (intersect_line la lb)) b2) l,
   snd acc || existsb (fun la => existsb (fun lb => il_ls (intersect_line la lb)) b2) l).
Proof.
  induction l as [|x r IH]; intros acc; cbn [fold_left existsb].
  - rewrite !orb_false_r. destruct acc; reflexivity.
  - rewrite IH, bi_inner. cbn [fst snd]. rewrite !orb_assoc. reflexivity.
Qed.

Lemma boundary_inter_exists b1 b2 :
  boundary_inter b1 b2 =
  (existsb (fun la => existsb (fun lb => il_pt (intersect_line la lb)) b2) b1,
   existsb (fun la => existsb (fun lb => il_ls (intersect_line la lb)) b2) b1).
Proof.
  unfold boundary_inter. change (fold_left (fun acc0 la => fold_left (bi_step la) b2 acc0) b1 (false, false) =
    (existsb (fun la => existsb (fun lb => il_pt (intersect_line la lb)) b2) b1,
     existsb (fun la => existsb (fun lb => il_ls (intersect_line la lb)) b2) b1)).
  rewrite bi_outer. reflexivity.
Qed.

(* ------------------------------------------------------------------ the kind of an intersection does not depend on the argument order *)
Lemma common_sym s t p : common s t p -> common t s p.
Proof. intros [H1 H2]. split; assumption. Qed.

Lemma il_kind_sym s t : ~ pt_eq (fst s) (snd s) -> ~ pt_eq (fst t) (snd t) ->
  il_pt (intersect_line s t) = il_pt (intersect_line t s) /\ il_ls (intersect_line s t) = il_ls (intersect_line t s).
Proof.
  destruct s as [a b], t as [c d]. cbn [fst snd]. intros Ns Nt.
  pose proof (intersect_line_spec a b c d Ns Nt) as S1. pose proof (intersect_line_spec c d a b Nt Ns) as S2.
  destruct (intersect_line (a, b) (c, d)) as [|x y]; destruct (intersect_line (c, d) (a, b)) as [|x' y']; cbn [il_spec] in S1, S2; cbn [il_pt il_ls].
  - split; reflexivity.
  - exfalso. destruct S2 as [C _]. exact (S1 x' (common_sym _ _ _ C)).
  - exfalso. destruct S1 as [C _]. exact (S2 x (common_sym _ _ _ C)).
  - destruct S1 as [Cx [Cy U1]]. destruct S2 as [Cx' [Cy' U2]].
    assert (E : pt_eqb x y = pt_eqb x' y').
    { destruct (pt_eqb x y) eqn:E1; destruct (pt_eqb x' y') eqn:E2; try reflexivity; exfalso.
      - apply pt_eqb_iff in E1. apply pt_eqb_false_iff in E2. apply E2.
        pose proof (U1 E1 x' (common_sym _ _ _ Cx')) as K1. pose proof (U1 E1 y' (common_sym _ _ _ Cy')) as K2.
        rewrite K1, K2. reflexivity.
      - apply pt_eqb_iff in E2. apply pt_eqb_false_iff in E1. apply E1.
        pose proof (U2 E2 x (common_sym _ _ _ Cx)) as K1. pose proof (U2 E2 y (common_sym _ _ _ Cy)) as K2.
        rewrite K1, K2. reflexivity. }
    rewrite E. split; reflexivity.
Qed.

Lemma existsb2_swap {A B} (f : A -> B -> bool) (g : B -> A -> bool) l1 l2 :
  (forall a b, In a l1 -> In b l2 -> f a b = g b a) ->
  existsb (fun a => existsb (f a) l2) l1 = existsb (fun b => existsb (g b) l1) l2.
Proof.
  intros H. apply eq_iff_eq_true. rewrite !existsb_exists.
  split; intros [x [Hx K]]; apply existsb_exists in K; destruct K as [y [Hy K]]; exists y; (split; [exact Hy|]);
    apply existsb_exists; exists x; (split; [exact Hx|]).
  - rewrite <- (H x y Hx Hy). exact K.
  - rewrite (H y x Hy Hx). exact K.
Qed.

Lemma boundary_inter_sym b1 b2 :
  (forall s, In s b1 -> ~ pt_eq (fst s) (snd s)) -> (forall s, In s b2 -> ~ pt_eq (fst s) (snd s)) ->
  boundary_inter b1 b2 = boundary_inter b2 b1.
Proof.
  intros N1 N2. rewrite !boundary_inter_exists. f_equal.
  - apply (existsb2_swap (fun la lb => il_pt (intersect_line la lb)) (fun lb la => il_pt (intersect_line lb la))).
    intros a b Ha Hb. exact (proj1 (il_kind_sym a b (N1 a Ha) (N2 b Hb))).
  - apply (existsb2_swap (fun la lb => il_ls (intersect_line la lb)) (fun lb la => il_ls (intersect_line lb la))).
    intros a b Ha Hb. exact (proj2 (il_kind_sym a b (N1 a Ha) (N2 b Hb))).
Qed.

Lemma poly_lines_nondegenerate rings s : In s (poly_lines rings) -> ~ pt_eq (fst s) (snd s).
Proof.
  unfold poly_lines. intros H. apply in_flat_map in H. destruct H as [r [_ H]]. exact (as_lines_nondegenerate r s H).
Qed.

(* ------------------------------------------------------------------ the pair callback is symmetric (nil / non-nil) *)
Theorem mpoly_pair_sym (pi pj : list (list pt)) : mpoly_pair pi pj = None <-> mpoly_pair pj pi = None.
Proof.
  unfold mpoly_pair. cbv zeta.
  rewrite (boundary_inter_sym (poly_lines pj) (poly_lines pi) (poly_lines_nondegenerate pj) (poly_lines_nondegenerate pi)).
  destruct (boundary_inter (poly_lines pi) (poly_lines pj)) as [hp hl].
  destruct hl; [split; discriminate|]. destruct hp; cbn [negb].
  - destruct (poly_not_inside_poly (poly_lines pi) (poly_lines pj)); destruct (poly_not_inside_poly (poly_lines pj) (poly_lines pi));
      split; intros H; try discriminate; reflexivity.
  - destruct pi as [|[|istart ri] pi']; destruct pj as [|[|jstart rj] pj']; try (split; intros H; (discriminate || exact H)).
    destruct (side_eqb (relate_lines istart (poly_lines ((jstart :: rj) :: pj')) false) SExterior);
      destruct (side_eqb (relate_lines jstart (poly_lines ((istart :: ri) :: pi')) false) SExterior);
      cbn [negb]; split; intros H; try discriminate; reflexivity.
Qed.

(* ------------------------------------------------------------------ checkMultiPolygonConstraints as "all pairs" *)
Definition mp_ok (a b : list (list pt)) : Prop := a = [] \/ b = [] \/ mpoly_pair a b = None.

Lemma mp_ok_sym a b : mp_ok a b -> mp_ok b a.
Proof. intros [H|[H|H]]; [right; left; exact H | left; exact H | right; right; apply mpoly_pair_sym; exact H]. Qed.

Lemma mpoly_against_none pi below : pi <> [] ->
  (mpoly_against pi below = None <-> Forall (mp_ok pi) below).
Proof.
  intros Np. induction below as [|pj r IH]; cbn [mpoly_against].
  - split; [constructor | reflexivity].
  - destruct pj as [|r0 rs].
    + rewrite IH. split; [intros H; constructor; [right; left; reflexivity | exact H] | intros H; inversion H; assumption].
    + destruct (mpoly_pair pi (r0 :: rs)) eqn:E.
      * split; [discriminate|]. intros H. inversion H as [|? ? K _]. destruct K as [K|[K|K]]; [contradiction | discriminate | congruence].
      * rewrite IH. split; [intros H; constructor; [right; right; exact E | exact H] | intros H; inversion H; assumption].
Qed.

Lemma FOP_cons {A} (R : A -> A -> Prop) a l : ForallOrdPairs R (a :: l) <-> Forall (R a) l /\ ForallOrdPairs R l.
Proof. split; [intros H; inversion H; split; assumption | intros [H1 H2]; constructor; assumption]. Qed.

Lemma mpoly_constraints_none rest : forall below,
  mpoly_constraints below rest = None <->
  (Forall (fun pi => Forall (mp_ok pi) below) rest /\ ForallOrdPairs (fun a b => mp_ok b a) rest).
Proof.
  induction rest as [|pi r IH]; intros below; cbn [mpoly_constraints].
  - split; [intros _; split; constructor | reflexivity].
  - assert (X : (match pi with [] => None | _ :: _ => mpoly_against pi below end) = None <-> Forall (mp_ok pi) below).
    { destruct pi as [|r0 rs].
      - split; [intros _; apply Forall_forall; intros x _; left; reflexivity | reflexivity].
      - apply mpoly_against_none. discriminate. }
    destruct (match pi with [] => None | _ :: _ => mpoly_against pi below end) as [e|].
    + split; [discriminate|]. intros [H _]. inversion H as [|? ? K _]. apply X in K. discriminate.
    + rewrite IH, FOP_cons, !Forall_forall. setoid_rewrite Forall_forall. setoid_rewrite in_app_iff.
      pose proof (proj1 X eq_refl) as X1. rewrite Forall_forall in X1.
      split.
      * intros [H1 H2]. split; [|split; [|exact H2]].
        -- intros x [<-|Hx] y Hy; [exact (X1 y Hy) | exact (H1 x Hx y (or_introl Hy))].
        -- intros x Hx. apply (H1 x Hx pi). right. left. reflexivity.
      * intros [H1 [H2 H3]]. split; [|exact H3].
        intros x Hx y [Hy|[<-|[]]]; [exact (H1 x (or_intror Hx) y Hy) | exact (H2 x Hx)].
Qed.

(* ------------------------------------------------------------------ "all ordered pairs" of a symmetric relation and permutations *)
Lemma FOP_perm {A} (R : A -> A -> Prop) : (forall a b, R a b -> R b a) ->
  forall l l', Permutation l l' -> ForallOrdPairs R l -> ForallOrdPairs R l'.
Proof.
  intros Sym l l' P. induction P as [|x l l' P IH|x y l|l l' l'' P1 IH1 P2 IH2]; intros H.
  - exact H.
  - apply FOP_cons in H. destruct H as [H1 H2]. apply FOP_cons. split; [|exact (IH H2)].
    rewrite Forall_forall in *. intros z Hz. apply H1. apply (Permutation_in z (Permutation_sym P)). exact Hz.
  - apply FOP_cons in H. destruct H as [H1 H2]. apply FOP_cons in H2. destruct H2 as [H2 H3].
    inversion H1 as [|? ? Ryx H1']. subst.
    apply FOP_cons. split; [constructor; [exact (Sym _ _ Ryx) | exact H2]|]. apply FOP_cons. split; assumption.
  - exact (IH2 (IH1 H)).
Qed.

(* ------------------------------------------------------------------ the per-member validation and permutations *)
Section Perm.
  Variable nested : list pt -> list pt -> option bool.

  Definition pc_rel (x y : rule + list (list (list pt))) : Prop :=
    match x, y with
    | inr l, inr l' => Permutation l l'
    | inl _, inl _ => True
    | _, _ => False
    end.

  Lemma pc_rel_trans x y z : pc_rel x y -> pc_rel y z -> pc_rel x z.
  Proof. destruct x, y, z; cbn; try tauto. apply Permutation_trans. Qed.

  (* one step of polys_check *)
  Definition pc_member (p : list (list oxy)) : rule + list (list pt) :=
    match p with
    | [] => inr []
    | _ => match rings_check p with
           | inl e => inl e
           | inr rings => match poly_geom_validate nested rings with Some e => inl e | None => inr rings end
           end
    end.

  Lemma polys_check_cons p rest :
    polys_check nested (p :: rest) =
    match pc_member p with
    | inl e => inl e
    | inr rings => match polys_check nested rest with inl e => inl e | inr l => inr (rings :: l) end
    end.
  Proof.
    cbn [polys_check]. unfold pc_member. destruct p as [|r0 rs]; [reflexivity|].
    destruct (rings_check (r0 :: rs)) as [e|rings]; [reflexivity|].
    destruct (poly_geom_validate nested rings); reflexivity.
  Qed.

  Lemma polys_check_perm ps ps' : Permutation ps ps' -> pc_rel (polys_check nested ps) (polys_check nested ps').
  Proof.
    intros P. induction P as [|x l l' P IH|x y l|l l' l'' P1 IH1 P2 IH2].
    - cbn. constructor.
    - rewrite !polys_check_cons. destruct (pc_member x); [exact I|].
      destruct (polys_check nested l); destruct (polys_check nested l'); cbn in *; try tauto. apply perm_skip. exact IH.
    - rewrite !polys_check_cons. destruct (pc_member x); destruct (pc_member y); try exact I;
        destruct (polys_check nested l); cbn; try exact I. apply perm_swap.
    - exact (pc_rel_trans _ _ _ IH1 IH2).
  Qed.

  (* geom/type_multi_polygon.go:Validate - nil for one order of the members iff nil for every order *)
  Theorem mpoly_validate_perm ps ps' : Permutation ps ps' ->
    (mpoly_validate_with nested ps = None <-> mpoly_validate_with nested ps' = None).
  Proof.
    intros P. unfold mpoly_validate_with. pose proof (polys_check_perm ps ps' P) as R.
    destruct (polys_check nested ps) as [e|l]; destruct (polys_check nested ps') as [e'|l']; cbn in R; try contradiction.
    - split; discriminate.
    - rewrite !mpoly_constraints_none.
      assert (Nil : forall m : list (list (list pt)), Forall (fun pi => Forall (mp_ok pi) []) m)
        by (intros m; apply Forall_forall; intros; constructor).
      split; intros [_ F]; (split; [apply Nil|]).
      + exact (FOP_perm _ (fun a b H => mp_ok_sym b a H) l l' R F).
      + exact (FOP_perm _ (fun a b H => mp_ok_sym b a H) l' l (Permutation_sym R) F).
  Qed.
End Perm.

Theorem multipolygon_validate_perm_invariant_lemma (ps ps' : list (list (list oxy))) : Permutation ps ps' ->
  is_valid (VMPoly ps) = is_valid (VMPoly ps') /\ is_valid_v0 (VMPoly ps) = is_valid_v0 (VMPoly ps').
Proof.
  intros P. unfold is_valid, is_valid_v0, validate, validate_v0. cbn [validate_with].
  pose proof (mpoly_validate_perm nested_v1 ps ps' P) as H1. pose proof (mpoly_validate_perm nested_v0 ps ps' P) as H0.
  split.
  - destruct (mpoly_validate_with nested_v1 ps); destruct (mpoly_validate_with nested_v1 ps'); try reflexivity.
    + destruct H1 as [_ K]. discriminate (K eq_refl).
    + destruct H1 as [K _]. discriminate (K eq_refl).
  - destruct (mpoly_validate_with nested_v0 ps); destruct (mpoly_validate_with nested_v0 ps'); try reflexivity.
    + destruct H0 as [_ K]. discriminate (K eq_refl).
    + destruct H0 as [K _]. discriminate (K eq_refl).
Qed.
