(* Property C03 - MultiPolygon: soundness of the FAST case of checkMultiPolygonConstraints for
   members without holes: boundaries without a common point and start vertices outside one
   another => no point of Q^2 is interior to both members.  Uses the planar lemmas of property C09
   (Proofs/Intersects_polypoly.v: ring_uniform, uniform_outside, exterior_disjoint).
   NOT PROVED: members with holes, and the slow case (boundaries meeting at points; the midpoint
   probes of validatePolyNotInsidePoly skip intersection-free segments). *)
From Coq Require Import QArith Qreduction List Bool ZArith Lia Lqa Arith Setoid Morphisms.
From SF Require Import Base.GeomAST Base.QKernel Base.Planar Base.Planar_C03 Model.Validate Model.ValidateSpec
  Proofs.Planar_proofs Proofs.Planar_slab_base Proofs.Validate_kernel Proofs.Validate_proofs Proofs.Validate_graph
  Proofs.Validate_sound Proofs.Validate_jordan Proofs.Validate_ogc Proofs.Validate_repr Proofs.Validate_sound_all
  Proofs.Intersects_areal Proofs.Intersects_polypoly.
Import ListNotations.
Open Scope Q_scope.


(* ------------------------------------------------------------------ MultiPolygon, fast case, members without holes *)
Lemma boundary_inter_none b1 b2 : boundary_inter b1 b2 = (false, false) ->
  forall la lb, In la b1 -> In lb b2 -> intersect_line la lb = ILEmpty.
Proof.
  unfold boundary_inter.
  set (step := fun la (acc' : bool * bool) lb =>
         match intersect_line la lb with
         | ILEmpty => acc'
         | ILSome pa pb => if pt_eqb pa pb then (true, snd acc') else (fst acc', true)
         end).
  assert (Hmono : forall la l acc, fold_left (step la) l acc = (false, false) ->
            acc = (false, false) /\ forall lb, In lb l -> intersect_line la lb = ILEmpty).
  { intros la. induction l as [|x r IH]; intros acc H; [split; [exact H | intros lb []]|].
    simpl in H. destruct (IH _ H) as [H1 H2]. unfold step in H1 at 1.
    destruct (intersect_line la x) as [|pa pb] eqn:E.
    - split; [exact H1|]. intros lb [<-|Hl]; [exact E | exact (H2 lb Hl)].
    - destruct (pt_eqb pa pb); inversion H1. }
  assert (Hout : forall l acc, fold_left (fun acc0 la => fold_left (step la) b2 acc0) l acc = (false, false) ->
            acc = (false, false) /\ forall la lb, In la l -> In lb b2 -> intersect_line la lb = ILEmpty).
  { induction l as [|x r IH]; intros acc H; [split; [exact H | intros la lb []]|].
    simpl in H. destruct (IH _ H) as [H1 H2]. destruct (Hmono x b2 acc H1) as [H3 H4].
    split; [exact H3|]. intros la lb [<-|Hl] Hb; [exact (H4 lb Hb) | exact (H2 la lb Hl Hb)]. }
  intros H la lb Ha Hb. exact (proj2 (Hout b1 (false, false) H) la lb Ha Hb).
Qed.

Lemma ring_wf_of_has2 ps : has_2_distinct ps = true -> ring_wf (ring_line ps) = true.
Proof.
  unfold ring_wf. rewrite line_pts_ring_line. destruct ps as [|a r]; [discriminate|]. simpl.
  intros H. apply existsb_exists in H. destruct H as [q [Hq K]]. apply existsb_exists. exists q. split; [exact Hq|].
  rewrite pt_eqb_sym. exact K.
Qed.

(* two closed rings without holes whose boundaries are disjoint and whose start vertices are
   outside one another (the fast case of checkMultiPolygonConstraints) have no common interior point *)
Theorem multipolygon_fast_case_sound_lemma (A B : list pt) :
  as_lines A = ring_edges A -> as_lines B = ring_edges B ->
  has_2_distinct A = true -> has_2_distinct B = true -> pts_closed A = true -> pts_closed B = true ->
  boundary_inter (poly_lines [A]) (poly_lines [B]) = (false, false) ->
  mpoly_pair [A] [B] = None ->
  forall q, ~ (locate (g_poly [A]) q = Interior /\ locate (g_poly [B]) q = Interior).
Proof.
  intros NA NB HA HB CA CB Hbi Hv q [IA IB].
  assert (LA : (2 <= length A)%nat) by (apply has2_len; exact HA). assert (LB : (2 <= length B)%nat) by (apply has2_len; exact HB).
  pose proof (nodup_segs A LA NA) as SA. pose proof (nodup_segs B LB NB) as SB.
  assert (PA : poly_lines [A] = segs_of_pts A) by (unfold poly_lines; simpl; rewrite app_nil_r; exact SA).
  assert (PB : poly_lines [B] = segs_of_pts B) by (unfold poly_lines; simpl; rewrite app_nil_r; exact SB).
  set (EA := segs_of_pts A) in *. set (EB := segs_of_pts B) in *.
  (* the boundaries do not meet *)
  assert (NM : no_meet EA EB).
  { intros e f w He Hf [H1 H2]. rewrite PA, PB in Hbi.
    pose proof (boundary_inter_none EA EB Hbi e f He Hf) as K.
    assert (Ne : nondeg e) by (apply (as_lines_nondegenerate A e); rewrite SA; exact He).
    assert (Nf : nondeg f) by (apply (as_lines_nondegenerate B f); rewrite SB; exact Hf).
    destruct e as [a b], f as [c d]. pose proof (intersect_line_spec a b c d Ne Nf) as Sp. rewrite K in Sp. simpl in Sp.
    apply (Sp w). split; assumption. }
  (* the probes of the fast case *)
  unfold mpoly_pair in Hv. rewrite Hbi in Hv. cbn [negb] in Hv.
  destruct A as [|a ra]; [simpl in LA; lia|]. destruct B as [|b rb]; [simpl in LB; lia|].
  destruct (side_eqb (relate_lines a (poly_lines [b :: rb]) false) SExterior) eqn:E1; [|discriminate]. cbn [negb] in Hv.
  destruct (side_eqb (relate_lines b (poly_lines [a :: ra]) false) SExterior) eqn:E2; [|discriminate].
  assert (Oa : on_edges EA a = true) by (unfold EA; apply segs_ring_edges_on; apply vertex_on_ring_edges; [exact LA | left; reflexivity]).
  assert (Ob : on_edges EB b = true) by (unfold EB; apply segs_ring_edges_on; apply vertex_on_ring_edges; [exact LB | left; reflexivity]).
  assert (Oab : on_edges EB a = false).
  { apply not_true_iff_false. intros K. apply existsb_exists in Oa. apply existsb_exists in K.
    destruct Oa as [e [He H1]], K as [f [Hf H2]]. apply (NM e f a He Hf). auto. }
  assert (Oba : on_edges EA b = false).
  { apply not_true_iff_false. intros K. apply existsb_exists in Ob. apply existsb_exists in K.
    destruct Ob as [f [Hf H2]], K as [e [He H1]]. apply (NM e f b He Hf). auto. }
  assert (Pa : edges_parity EB a = false).
  { rewrite PB in E1. fold EB in E1. rewrite <- SB in E1. rewrite (relate_lines_closed_off (b :: rb) a CB Oab) in E1. fold EB in E1.
    destruct (edges_parity EB a); [discriminate | reflexivity]. }
  assert (Pb : edges_parity EA b = false).
  { rewrite PA in E2. fold EA in E2. rewrite <- SA in E2. rewrite (relate_lines_closed_off (a :: ra) b CA Oba) in E2. fold EA in E2.
    destruct (edges_parity EA b); [discriminate | reflexivity]. }
  (* uniformity of disjoint closed rings, then C09's exterior_disjoint *)
  assert (EAl : line_segs (ring_line (a :: ra)) = EA) by (unfold line_segs; rewrite line_pts_ring_line; reflexivity).
  assert (EBl : line_segs (ring_line (b :: rb)) = EB) by (unfold line_segs; rewrite line_pts_ring_line; reflexivity).
  assert (UA : uniform EA EB).
  { rewrite <- EAl, <- EBl. apply ring_uniform; [apply ring_wf_of_has2; exact HA | rewrite line_pts_ring_line; exact CB | rewrite EAl, EBl; exact NM]. }
  assert (UB : uniform EB EA).
  { rewrite <- EAl, <- EBl. apply ring_uniform; [apply ring_wf_of_has2; exact HB | rewrite line_pts_ring_line; exact CA | rewrite EAl, EBl; apply no_meet_sym; exact NM]. }
  pose proof (uniform_outside EA EB a UA Oa Pa) as OAB. pose proof (uniform_outside EB EA b UB Ob Pb) as OBA.
  assert (KA : keeps EA) by (rewrite <- EAl; apply ring_keeps; rewrite line_pts_ring_line; exact CA).
  assert (KB : keeps EB) by (rewrite <- EBl; apply ring_keeps; rewrite line_pts_ring_line; exact CB).
  (* interior of a one-ring polygon = off the ring and odd parity *)
  assert (QA : edges_parity EA q = true).
  { rewrite locate_poly in IA. cbn [map] in IA. unfold rings_interior, rings_boundary in IA. cbn [forallb existsb] in IA.
    rewrite segs_segs_of_pts in IA. fold EA in IA. unfold ring_strict_in in IA.
    destruct (on_edges EA q); cbn [negb andb orb] in IA; [discriminate|]. destruct (edges_parity EA q); [reflexivity | discriminate]. }
  assert (QB : edges_parity EB q = true).
  { rewrite locate_poly in IB. cbn [map] in IB. unfold rings_interior, rings_boundary in IB. cbn [forallb existsb] in IB.
    rewrite segs_segs_of_pts in IB. fold EB in IB. unfold ring_strict_in in IB.
    destruct (on_edges EB q); cbn [negb andb orb] in IB; [discriminate|]. destruct (edges_parity EB q); [reflexivity | discriminate]. }
  exact (exterior_disjoint EA EB q KA KB NM OAB OBA QA QB).
Qed.
