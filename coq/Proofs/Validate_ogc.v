(* Property C03 - the reference statement ogc_valid is a VERIFIED reference: each clause that is
   evaluated at the witnesses of the exact arrangement decides the statement for ALL points of Q^2
   (slab sufficiency, Proofs/Planar_slab.v: pointwise_everywhere), and the clauses computed with
   QKernel.seg_seg mean what they say about the common points of segments.
   Main results: everywhere_spec, hole_inside_spec, not_nested_spec, interiors_disjoint_spec,
   seg_seg_overlap_iff, rings_touch_ok_spec, boundaries_finite_spec, poly_def_meaning,
   mpoly_pair_def_meaning.  The connectivity clause (interior_connected) stays as defined. *)
From Coq Require Import QArith Qreduction List Bool ZArith Lia Lqa Arith Setoid Morphisms.
From SF Require Import Base.GeomAST Base.QKernel Base.Planar Base.Planar_C03 Model.Validate Model.ValidateSpec
  Proofs.Planar_proofs Proofs.Planar_slab_base Proofs.Planar_slab Proofs.Validate_kernel.
Import ListNotations.
Open Scope Q_scope.


(* ------------------------------------------------------------------ the geometries built from vertex lists *)
Lemma vpt_mkv p : vpt (mkv p) = p.
Proof. destruct p; reflexivity. Qed.
Lemma line_pts_ring_line ps : line_pts (ring_line ps) = ps.
Proof. unfold line_pts, ring_line. simpl. rewrite map_map. rewrite (map_ext _ (fun p => p)); [apply map_id | apply vpt_mkv]. Qed.

Lemma rings_closed_poly rings : Forall (fun r => pts_closed r = true) rings -> rings_closed (g_poly rings).
Proof.
  intros H y Hy r Hr. simpl in Hy. destruct Hy as [<-|[]]. simpl in Hr. apply in_map_iff in Hr.
  destruct Hr as [ps [<- Hps]]. rewrite line_pts_ring_line. exact (proj1 (Forall_forall _ _) H ps Hps).
Qed.
Lemma rings_closed_line ps : rings_closed (g_line ps).
Proof. intros y []. Qed.
Lemma rings_closed_bdry rings : rings_closed (g_bdry rings).
Proof. intros y []. Qed.

Lemma existsb_map {A B} (f : B -> bool) (g : A -> B) l : existsb f (map g l) = existsb (fun x => f (g x)) l.
Proof. induction l as [|a r IH]; simpl; [reflexivity | rewrite IH; reflexivity]. Qed.

(* membership in the curve / in the union of the rings, as edge lists *)
Lemma inG_line ps p : inG (g_line ps) p = on_edges (segs ps) p.
Proof. reflexivity. Qed.
Lemma inG_bdry rings p : inG (g_bdry rings) p = existsb (fun r => on_edges (segs r) p) rings.
Proof. unfold g_bdry. simpl. rewrite existsb_map. reflexivity. Qed.

(* ------------------------------------------------------------------ witnesses decide everywhere *)
Theorem everywhere_spec gs F : (forall g, In g gs -> rings_closed g) ->
  (everywhere gs F = true <-> forall p, F (map (fun g => inG g p) gs) = true).
Proof.
  intros Hc. unfold everywhere. rewrite forallb_forall. split.
  - intros H. apply (pointwise_everywhere (flat_map arr_segments gs) (flat_map arr_points gs)).
    + intros g Hg. split; [|exact (Hc g Hg)]. split; intros x Hx; apply in_flat_map; exists g; auto.
    + intros w d Hin. exact (H (w, d) Hin).
  - intros H w _. apply H.
Qed.

(* location with respect to one polygon *)
Lemma interior_not_boundary rs p : rings_interior rs p = true -> rings_boundary rs p = false.
Proof.
  destruct rs as [|shell holes]; [discriminate|]. simpl. unfold ring_strict_in. rewrite !andb_true_iff.
  intros [[Hs _] Hh]. apply negb_true_iff in Hs. rewrite Hs. simpl.
  apply not_true_iff_false. intros K. apply existsb_exists in K. destruct K as [h [Hin Hon]].
  rewrite forallb_forall in Hh. specialize (Hh h Hin). unfold ring_strict_out in Hh. rewrite Hon in Hh. discriminate.
Qed.
Lemma poly_ring_segs_g rings : poly_ring_segs (MkPoly XY (map ring_line rings)) = map segs rings.
Proof. unfold poly_ring_segs. simpl. rewrite map_map. reflexivity. Qed.
Lemma locate_poly rings p :
  locate (g_poly rings) p =
  if rings_interior (map segs rings) p then Interior
  else if rings_boundary (map segs rings) p then Boundary else Exterior.
Proof.
  unfold locate, prep, g_poly, locate_p. simpl. rewrite poly_ring_segs_g. rewrite !orb_false_r. reflexivity.
Qed.
Lemma inG_poly rings p : inG (g_poly rings) p = rings_boundary (map segs rings) p || rings_interior (map segs rings) p.
Proof. unfold g_poly. simpl. unfold in_poly, poly_boundary, poly_interior. rewrite poly_ring_segs_g. reflexivity. Qed.
Lemma rings_boundary_bdry rings p : rings_boundary (map segs rings) p = inG (g_bdry rings) p.
Proof. rewrite inG_bdry. unfold rings_boundary. rewrite existsb_map. reflexivity. Qed.

Lemma locate_poly_interior rings p :
  locate (g_poly rings) p = Interior <-> (inG (g_poly rings) p = true /\ inG (g_bdry rings) p = false).
Proof.
  rewrite locate_poly, inG_poly, <- rings_boundary_bdry.
  destruct (rings_interior (map segs rings) p) eqn:I.
  - rewrite (interior_not_boundary _ _ I). simpl. split; auto.
  - destruct (rings_boundary (map segs rings) p); simpl; split; try discriminate; intros [? ?]; discriminate.
Qed.
Lemma locate_poly_exterior rings p : locate (g_poly rings) p = Exterior <-> inG (g_poly rings) p = false.
Proof.
  rewrite locate_poly, inG_poly.
  destruct (rings_interior (map segs rings) p), (rings_boundary (map segs rings) p); simpl; split; congruence.
Qed.

(* ------------------------------------------------------------------ the witness-evaluated clauses of ogc_valid *)
(* hole_inside: EVERY point of the curve h is inside or on the ring shell *)
Theorem hole_inside_spec shell h : pts_closed shell = true ->
  (hole_inside shell h = true <->
   forall p, on_edges (segs h) p = true -> locate (g_poly [shell]) p <> Exterior).
Proof.
  intros Hc. unfold hole_inside. rewrite everywhere_spec.
  - cbn [map]. split; intros H p.
    + intros Hon K. apply locate_poly_exterior in K. specialize (H p). rewrite inG_line, Hon, K in H. discriminate.
    + rewrite inG_line. destruct (on_edges (segs h) p) eqn:E; [|reflexivity]. cbn [negb orb].
      destruct (inG (g_poly [shell]) p) eqn:I; [reflexivity|]. exfalso. apply (H p E). apply locate_poly_exterior. exact I.
  - intros g [<-|[<-|[]]]; [apply rings_closed_poly; repeat constructor; exact Hc | apply rings_closed_line].
Qed.

(* not_nested: NO point of the ring h is interior to k and no point of k is interior to h *)
Theorem not_nested_spec h k : pts_closed h = true -> pts_closed k = true ->
  (not_nested h k = true <->
   forall p, (on_edges (segs h) p = true -> locate (g_poly [k]) p <> Interior)
          /\ (on_edges (segs k) p = true -> locate (g_poly [h]) p <> Interior)).
Proof.
  intros Hh Hk. unfold not_nested. rewrite everywhere_spec.
  - cbn [map]. assert (B1 : forall r p, inG (g_bdry [r]) p = on_edges (segs r) p) by (intros; rewrite inG_bdry; simpl; apply orb_false_r).
    split; intros H p.
    + specialize (H p). rewrite !inG_line in H. apply andb_true_iff in H. destruct H as [H1 H2].
      split; intros Hon K; apply locate_poly_interior in K; destruct K as [K1 K2]; rewrite B1 in K2.
      * rewrite Hon, K1, K2 in H1. discriminate.
      * rewrite Hon, K1, K2 in H2. discriminate.
    + destruct (H p) as [H1 H2]. rewrite !inG_line. apply andb_true_iff. split; apply negb_true_iff; apply not_true_iff_false; intros K;
        rewrite !andb_true_iff, negb_true_iff in K; destruct K as [[K1 K2] K3].
      * apply (H1 K1). apply locate_poly_interior. rewrite B1. auto.
      * apply (H2 K1). apply locate_poly_interior. rewrite B1. auto.
  - intros g [<-|[<-|[<-|[<-|[]]]]]; try apply rings_closed_line; apply rings_closed_poly; repeat constructor; assumption.
Qed.

(* interiors_disjoint: NO point of Q^2 is interior to both polygons *)
Theorem interiors_disjoint_spec A B :
  Forall (fun r => pts_closed r = true) A -> Forall (fun r => pts_closed r = true) B ->
  (interiors_disjoint A B = true <->
   forall p, ~ (locate (g_poly A) p = Interior /\ locate (g_poly B) p = Interior)).
Proof.
  intros HA HB. unfold interiors_disjoint. rewrite everywhere_spec.
  - cbn [map]. split; intros H p.
    + intros [K1 K2]. apply locate_poly_interior in K1, K2. destruct K1 as [a1 a2], K2 as [b1 b2].
      specialize (H p). rewrite a1, a2, b1, b2 in H. discriminate.
    + apply negb_true_iff. apply not_true_iff_false. intros K. rewrite !andb_true_iff, !negb_true_iff in K.
      destruct K as [[[K1 K2] K3] K4]. apply (H p). split; apply locate_poly_interior; auto.
  - intros g [<-|[<-|[<-|[<-|[]]]]]; try apply rings_closed_bdry; apply rings_closed_poly; assumption.
Qed.


(* ------------------------------------------------------------------ QKernel.seg_seg as a point set *)
Lemma seg_seg_overlap_distinct s t p q : seg_seg s t = SSOverlap p q -> ~ pt_eq p q.
Proof.
  destruct s as [a b], t as [c d]. unfold seg_seg.
  destruct (pt_eqb a b); [destruct (on_seg (c, d) a); discriminate|].
  destruct (pt_eqb c d); [destruct (on_seg (a, b) c); discriminate|]. cbv zeta.
  destruct (Qeq_bool (cross c d a - cross c d b) 0).
  - destruct (Qeq_bool (cross c d a) 0); [|discriminate].
    destruct (pt_eqb (pt_max (pt_min a b) (pt_min c d)) (pt_min (pt_max a b) (pt_max c d))) eqn:E; [discriminate|].
    destruct (pt_leb _ _); [|discriminate]. intros H. inversion H; subst. apply pt_eqb_false_iff. exact E.
  - destruct (_ && _ && _ && _); discriminate.
Qed.

(* a single reported point is the only common point *)
Lemma seg_seg_point_unique s t x : seg_seg s t = SSPoint x -> forall p, common s t p -> pt_eq p x.
Proof.
  destruct s as [a b], t as [c d]. unfold seg_seg. intros H p [P1 P2].
  destruct (pt_eqb a b) eqn:Eab.
  { destruct (on_seg (c, d) a); [|discriminate]. injection H as <-. apply pt_eqb_iff in Eab.
    exact (on_seg_degenerate a b p Eab P1). }
  destruct (pt_eqb c d) eqn:Ecd.
  { destruct (on_seg (a, b) c); [|discriminate]. injection H as <-. apply pt_eqb_iff in Ecd.
    exact (on_seg_degenerate c d p Ecd P2). }
  cbv zeta in H. apply pt_eqb_false_iff in Eab, Ecd.
  destruct (Qeq_bool (cross c d a - cross c d b) 0) eqn:Eden.
  - destruct (Qeq_bool (cross c d a) 0); [|discriminate].
    set (lo := pt_max (pt_min a b) (pt_min c d)) in *. set (hi := pt_min (pt_max a b) (pt_max c d)) in *.
    destruct (pt_eqb lo hi) eqn:E; [|destruct (pt_leb lo hi); discriminate].
    injection H as <-. apply pt_eqb_iff in E.
    destruct (on_seg_lex a b p P1) as [L1 L2]. destruct (on_seg_lex c d p P2) as [L3 L4].
    assert (Llo : pt_le lo p) by (apply pt_max_lub; assumption).
    assert (Lhi : pt_le p hi) by (apply pt_min_glb; assumption).
    apply pt_le_antisym; [|exact Llo]. eapply pt_le_trans; [exact Lhi|]. apply pt_le_refl. symmetry. exact E.
  - apply Qeq_bool_false_iff in Eden.
    destruct (_ && _ && _ && _) eqn:Ec; [|discriminate]. injection H as <-.
    assert (Hc : common (a, b) (c, d) (lerp a b (cross c d a / (cross c d a - cross c d b)))).
    { apply seg_seg_sound. unfold seg_seg. apply pt_eqb_false_iff in Eab, Ecd. rewrite Eab, Ecd. cbv zeta.
      apply Qeq_bool_false_iff in Eden. rewrite Eden, Ec. simpl. auto. }
    destruct Hc as [C1 C2].
    apply (lines_meet_once a b c d).
    + rewrite <- den_identity. exact Eden.
    + apply on_seg_cross; exact P1.
    + apply on_seg_cross; exact C1.
    + apply on_seg_cross; exact P2.
    + apply on_seg_cross; exact C2.
Qed.

(* seg_seg reports an overlap iff the two segments share two distinct points *)
Theorem seg_seg_overlap_iff s t :
  (exists p q, seg_seg s t = SSOverlap p q) <-> (exists p q, common s t p /\ common s t q /\ ~ pt_eq p q).
Proof.
  split.
  - intros [p [q H]]. exists p, q.
    assert (S : forall x, In x [p; q] -> common s t x) by (intros x Hx; apply seg_seg_sound; rewrite H; exact Hx).
    split; [apply S; left; reflexivity|]. split; [apply S; right; left; reflexivity|].
    exact (seg_seg_overlap_distinct s t p q H).
  - intros [p [q [[P1 P2] [Hq N]]]]. destruct (seg_seg s t) as [|x|x y] eqn:E.
    + exfalso. exact (seg_seg_complete s t p P1 P2 E).
    + exfalso. apply N. rewrite (seg_seg_point_unique s t x E p (conj P1 P2)), (seg_seg_point_unique s t x E q Hq). reflexivity.
    + eauto.
Qed.

(* ------------------------------------------------------------------ boundaries_finite, rings_touch_ok *)
Theorem boundaries_finite_spec A B :
  boundaries_finite A B = true <->
  forall s t, In s (flat_map segs A) -> In t (flat_map segs B) ->
  forall p q, common s t p -> common s t q -> pt_eq p q.
Proof.
  unfold boundaries_finite. rewrite forallb_forall. split.
  - intros H s t Hs Ht p q Hp Hq. specialize (H s Hs). rewrite forallb_forall in H. specialize (H t Ht).
    destruct (pt_eqb p q) eqn:E; [apply pt_eqb_iff; exact E|]. apply pt_eqb_false_iff in E.
    destruct (proj2 (seg_seg_overlap_iff s t)) as [x [y K]]; [exists p, q; auto|]. rewrite K in H. discriminate.
  - intros H s Hs. apply forallb_forall. intros t Ht. destruct (seg_seg s t) as [|x|x y] eqn:E; try reflexivity.
    exfalso. destruct (proj1 (seg_seg_overlap_iff s t)) as [p [q [Hp [Hq N]]]]; [eauto|]. apply N. exact (H s t Hs Ht p q Hp Hq).
Qed.

Lemma common_points_spec A B :
  match common_points A B with
  | None => exists s t, In s A /\ In t B /\ exists p q, seg_seg s t = SSOverlap p q
  | Some l => (forall s t, In s A -> In t B ->
                 match seg_seg s t with SSEmpty => True | SSPoint x => In x l | SSOverlap _ _ => False end)
              /\ (forall x, In x l -> exists s t, In s A /\ In t B /\ seg_seg s t = SSPoint x)
  end.
Proof.
  induction A as [|s r IH]; [simpl; split; [intros s t [] | intros x []]|].
  simpl. destruct (common_points r B) as [acc|].
  - (* the fold over B for the segment s *)
    assert (F : forall B' (o : option (list pt)),
              match o with
              | None => True
              | Some l0 =>
                match fold_left (fun o t => match o with
                                 | None => None
                                 | Some l => match seg_seg s t with SSEmpty => Some l | SSPoint p => Some (p :: l) | SSOverlap _ _ => None end
                                 end) B' (Some l0) with
                | None => exists t, In t B' /\ exists p q, seg_seg s t = SSOverlap p q
                | Some l => (forall x, In x l0 -> In x l)
                            /\ (forall t, In t B' -> match seg_seg s t with SSEmpty => True | SSPoint x => In x l | SSOverlap _ _ => False end)
                            /\ (forall x, In x l -> In x l0 \/ exists t, In t B' /\ seg_seg s t = SSPoint x)
                end
              end).
    { induction B' as [|t B'' IHB]; intros [l0|]; [|exact I| |exact I].
      - simpl. split; [auto|]. split; [intros t []|auto].
      - simpl. destruct (seg_seg s t) as [|x|x y] eqn:E.
        + specialize (IHB (Some l0)). simpl in IHB. destruct (fold_left _ B'' (Some l0)) as [l|].
          * destruct IHB as [I1 [I2 I3]]. split; [exact I1|]. split.
            -- intros t' [<-|Ht]; [rewrite E; exact I | exact (I2 t' Ht)].
            -- intros x Hx. destruct (I3 x Hx) as [K|[t' [K1 K2]]]; [left; exact K | right; exists t'; auto].
          * destruct IHB as [t' [K1 K2]]. exists t'. auto.
        + specialize (IHB (Some (x :: l0))). simpl in IHB. destruct (fold_left _ B'' (Some (x :: l0))) as [l|].
          * destruct IHB as [I1 [I2 I3]]. split; [intros z Hz; apply I1; right; exact Hz|]. split.
            -- intros t' [<-|Ht]; [rewrite E; apply I1; left; reflexivity | exact (I2 t' Ht)].
            -- intros z Hz. destruct (I3 z Hz) as [[<-|K]|[t' [K1 K2]]]; [right; exists t; auto | left; exact K | right; exists t'; auto].
          * destruct IHB as [t' [K1 K2]]. exists t'. auto.
        + assert (N : fold_left (fun o t0 => match o with
                                 | None => None
                                 | Some l => match seg_seg s t0 with SSEmpty => Some l | SSPoint p => Some (p :: l) | SSOverlap _ _ => None end
                                 end) B'' None = None) by (clear; induction B''; simpl; auto).
          rewrite N. exists t. split; [left; reflexivity | eauto]. }
    specialize (F B (Some acc)). simpl in F. destruct IH as [IH1 IH2].
    destruct (fold_left _ B (Some acc)) as [l|].
    + destruct F as [F1 [F2 F3]]. split.
      * intros s' t [<-|Hs] Ht; [exact (F2 t Ht)|]. specialize (IH1 s' t Hs Ht). destruct (seg_seg s' t); auto.
      * intros x Hx. destruct (F3 x Hx) as [K|[t [K1 K2]]].
        -- destruct (IH2 x K) as [s' [t [A1 [A2 A3]]]]. exists s', t. auto.
        -- exists s, t. auto.
    + destruct F as [t [K1 K2]]. exists s, t. auto.
  - destruct IH as [s' [t [A1 [A2 A3]]]]. exists s', t. auto.
Qed.

Theorem rings_touch_ok_spec A B :
  rings_touch_ok A B = true <->
  forall p q, on_edges A p = true -> on_edges B p = true -> on_edges A q = true -> on_edges B q = true -> pt_eq p q.
Proof.
  unfold rings_touch_ok. pose proof (common_points_spec A B) as S.
  destruct (common_points A B) as [l|].
  - destruct S as [S1 S2]. split.
    + intros Hl p q Pa Pb Qa Qb.
      unfold on_edges in *. apply existsb_exists in Pa, Pb, Qa, Qb.
      destruct Pa as [s1 [I1 O1]], Pb as [t1 [J1 P1]], Qa as [s2 [I2 O2]], Qb as [t2 [J2 P2]].
      assert (K : forall s t z, In s A -> In t B -> common s t z -> exists x, In x l /\ pt_eq z x).
      { intros s t z Hs Ht Hz. specialize (S1 s t Hs Ht). destruct (seg_seg s t) as [|x|x y] eqn:E.
        - exfalso. destruct Hz. exact (seg_seg_complete s t z H H0 E).
        - exists x. split; [exact S1 | exact (seg_seg_point_unique s t x E z Hz)].
        - destruct S1. }
      destruct (K s1 t1 p I1 J1 (conj O1 P1)) as [x [Hx Ex]]. destruct (K s2 t2 q I2 J2 (conj O2 P2)) as [y [Hy Ey]].
      rewrite Ex, Ey. unfold at_most_one_point in Hl. destruct l as [|z r]; [destruct Hx|].
      rewrite forallb_forall in Hl.
      assert (Hz : forall w, In w (z :: r) -> pt_eq z w).
      { intros w [<-|Hw]; [reflexivity|]. apply pt_eqb_iff. exact (Hl w Hw). }
      rewrite <- (Hz x Hx), <- (Hz y Hy). reflexivity.
    + intros H. unfold at_most_one_point. destruct l as [|z r]; [reflexivity|]. apply forallb_forall. intros w Hw.
      apply pt_eqb_iff.
      destruct (S2 z (or_introl eq_refl)) as [s1 [t1 [I1 [J1 E1]]]]. destruct (S2 w (or_intror Hw)) as [s2 [t2 [I2 [J2 E2]]]].
      assert (C1 : common s1 t1 z) by (apply seg_seg_sound; rewrite E1; left; reflexivity).
      assert (C2 : common s2 t2 w) by (apply seg_seg_sound; rewrite E2; left; reflexivity).
      destruct C1, C2. apply H; unfold on_edges; apply existsb_exists; eauto.
  - destruct S as [s [t [I1 [J1 [p [q E]]]]]]. split; [discriminate|]. intros H. exfalso.
    destruct (proj1 (seg_seg_overlap_iff s t)) as [x [y [[X1 X2] [[Y1 Y2] N]]]]; [eauto|].
    apply N. apply H; unfold on_edges; apply existsb_exists; eauto.
Qed.


Lemma all_pairs_iff {A} (f : A -> A -> bool) l :
  all_pairs f l = true <-> ForallOrdPairs (fun a b => f a b = true) l.
Proof.
  induction l as [|x r IH]; simpl.
  - split; [constructor | reflexivity].
  - rewrite andb_true_iff, forallb_forall, IH. split.
    + intros [H1 H2]. constructor; [apply Forall_forall; exact H1 | exact H2].
    + intros H. inversion H; subst. split; [apply Forall_forall; assumption | assumption].
Qed.
Lemma Forall_impl_in {A} (P Q : A -> Prop) l : (forall a, In a l -> P a -> Q a) -> Forall P l -> Forall Q l.
Proof. intros H K. apply Forall_forall. intros a Ha. apply (H a Ha). exact (proj1 (Forall_forall _ _) K a Ha). Qed.
Lemma ForallOrdPairs_iff {A} (P Q : A -> A -> Prop) l :
  (forall a b, In a l -> In b l -> (P a b <-> Q a b)) -> (ForallOrdPairs P l <-> ForallOrdPairs Q l).
Proof.
  induction l as [|x r IH]; intros H; [split; constructor|].
  split; intros K; inversion K; subst; constructor.
  - eapply Forall_impl_in; [|eassumption]. intros b Hb Hp. apply (H x b); simpl; auto.
  - apply IH; [|assumption]. intros a b Ha Hb. apply H; simpl; auto.
  - eapply Forall_impl_in; [|eassumption]. intros b Hb Hp. apply (H x b); simpl; auto.
  - apply IH; [|assumption]. intros a b Ha Hb. apply H; simpl; auto.
Qed.

Lemma closed_def_pts_closed ps : closed_def ps = true -> pts_closed ps = true.
Proof.
  destruct ps as [|a r]; [discriminate|]. unfold closed_def, pts_closed.
  destruct r as [|b r']; [auto|]. change (last (a :: b :: r') a) with (last (b :: r') a). auto.
Qed.
Lemma ring_def_closed ps : ring_def ps = true -> pts_closed ps = true.
Proof. unfold ring_def. rewrite !andb_true_iff. intros [[_ H] _]. apply closed_def_pts_closed. exact H. Qed.

(* The meaning of poly_def, clause by clause, over ALL points of Q^2.  The last clause
   (interior_connected: connectivity of the face-adjacency graph of the slab decomposition,
   Base/Planar_C03.v) is kept as defined. *)
Theorem poly_def_meaning shell holes :
  poly_def (shell :: holes) = true <->
  ( Forall (fun r => ring_def r = true) (shell :: holes)
    /\ ForallOrdPairs (fun a b => forall p q, on_edges (segs a) p = true -> on_edges (segs b) p = true ->
                                   on_edges (segs a) q = true -> on_edges (segs b) q = true -> pt_eq p q) (shell :: holes)
    /\ Forall (fun h => forall p, on_edges (segs h) p = true -> locate (g_poly [shell]) p <> Exterior) holes
    /\ ForallOrdPairs (fun h k => forall p, (on_edges (segs h) p = true -> locate (g_poly [k]) p <> Interior)
                                         /\ (on_edges (segs k) p = true -> locate (g_poly [h]) p <> Interior)) holes
    /\ interior_connected (map segs (shell :: holes)) = true ).
Proof.
  unfold poly_def. rewrite !andb_true_iff, forallb_forall, <- Forall_forall, !all_pairs_iff.
  split.
  - intros [[[[H1 H2] H3] H4] H5].
    assert (Hc : forall r, In r (shell :: holes) -> pts_closed r = true).
    { intros r Hr. apply ring_def_closed. exact (proj1 (Forall_forall _ _) H1 r Hr). }
    split; [exact H1|]. split.
    { eapply ForallOrdPairs_iff; [|exact H2]. intros a b _ _. symmetry. apply rings_touch_ok_spec. }
    split.
    { apply Forall_forall. intros h Hh. rewrite forallb_forall in H3.
      apply hole_inside_spec; [apply Hc; left; reflexivity | exact (H3 h Hh)]. }
    split; [|exact H5].
    eapply ForallOrdPairs_iff; [|exact H4]. intros h k Hh Hk. symmetry. apply not_nested_spec; apply Hc; right; assumption.
  - intros [H1 [H2 [H3 [H4 H5]]]].
    assert (Hc : forall r, In r (shell :: holes) -> pts_closed r = true).
    { intros r Hr. apply ring_def_closed. exact (proj1 (Forall_forall _ _) H1 r Hr). }
    split; [|exact H5]. split; [split; [split; [exact H1|]|]|].
    + eapply ForallOrdPairs_iff; [|exact H2]. intros a b _ _. apply rings_touch_ok_spec.
    + apply forallb_forall. intros h Hh. apply hole_inside_spec; [apply Hc; left; reflexivity|].
      exact (proj1 (Forall_forall _ _) H3 h Hh).
    + eapply ForallOrdPairs_iff; [|exact H4]. intros h k Hh Hk. apply not_nested_spec; apply Hc; right; assumption.
Qed.

(* the MultiPolygon pair clause over all points: no point interior to both members, no boundary
   segments sharing two distinct points *)
Theorem mpoly_pair_def_meaning A B :
  A <> [] -> B <> [] ->
  Forall (fun r => pts_closed r = true) A -> Forall (fun r => pts_closed r = true) B ->
  (mpoly_pair_def A B = true <->
   (forall s t, In s (flat_map segs A) -> In t (flat_map segs B) -> forall p q, common s t p -> common s t q -> pt_eq p q)
   /\ (forall p, ~ (locate (g_poly A) p = Interior /\ locate (g_poly B) p = Interior))).
Proof.
  intros NA NB HA HB. unfold mpoly_pair_def. destruct A as [|a A']; [congruence|]. destruct B as [|b B']; [congruence|].
  rewrite andb_true_iff, boundaries_finite_spec, (interiors_disjoint_spec _ _ HA HB). tauto.
Qed.
