(* Property C03 - lemmas about the validation model (Model/Validate.v) and the reference
   statement (Model/ValidateSpec.v).  Statements of the theorems are repeated in Props/C03.v.
   The segment kernel (intersect_line_spec) is in Proofs/Validate_kernel.v. *)
From Coq Require Import QArith Qreduction List Bool ZArith Lia Lqa Arith Setoid Morphisms.
From SF Require Import Base.QKernel Model.Validate Model.ValidateSpec Proofs.Validate_kernel.
Import ListNotations.
Open Scope Q_scope.


(* ------------------------------------------------------------------ LineString.Validate *)
Definition Finite (p : oxy) : Prop := exists x y, p = (OFin x, OFin y).

Lemma oxy_pt_some p q : oxy_pt p = Some q -> exists x y, p = (OFin x, OFin y) /\ q = (inject_Z x, inject_Z y).
Proof.
  destruct p as [[x| | | ] [y| | | ]]; unfold oxy_pt; simpl; intros H; try discriminate.
  inversion H. exists x, y. auto.
Qed.
Lemma oxy_pt_fin x y : oxy_pt (OFin x, OFin y) = Some (inject_Z x, inject_Z y).
Proof. reflexivity. Qed.
Lemma oxy_pt_none_validate p : oxy_pt p = None <-> xy_validate p <> None.
Proof.
  destruct p as [[x| | | ] [y| | | ]]; unfold oxy_pt, xy_validate; simpl; split; intros; congruence.
Qed.

Lemma fin_pts_some vs ps : fin_pts vs = Some ps -> Forall2 (fun v p => oxy_pt v = Some p) vs ps.
Proof.
  revert ps. induction vs as [|v r IH]; simpl; intros ps H.
  - inversion H. constructor.
  - destruct (oxy_pt v) eqn:E; [|discriminate]. destruct (fin_pts r) eqn:E2; [|discriminate].
    inversion H. constructor; auto.
Qed.
Lemma fin_pts_finite vs : (exists ps, fin_pts vs = Some ps) <-> Forall Finite vs.
Proof.
  induction vs as [|v r IH]; simpl.
  - split; intros; [constructor | eauto].
  - split.
    + intros [ps H]. destruct (oxy_pt v) eqn:E; [|discriminate]. destruct (fin_pts r) eqn:E2; [|discriminate].
      constructor; [| apply IH; eauto]. apply oxy_pt_some in E. destruct E as [x [y [E _]]]. exists x, y; auto.
    + intros H. inversion H as [|? ? [x [y Hv]] Hr]; subst. apply IH in Hr. destruct Hr as [ps Hps].
      rewrite oxy_pt_fin, Hps. eauto.
Qed.
(* fin_pts fails exactly when Sequence.validate fails *)
Lemma fin_pts_seq_validate vs : fin_pts vs = None <-> seq_validate vs <> None.
Proof.
  induction vs as [|v r IH]; simpl.
  - split; intros; congruence.
  - destruct (oxy_pt v) eqn:E.
    + assert (xy_validate v = None).
      { destruct (xy_validate v) eqn:E2; auto. exfalso. assert (oxy_pt v = None) by (apply oxy_pt_none_validate; congruence). congruence. }
      rewrite H. destruct (fin_pts r); split; intros; try congruence; try (apply IH; auto); try (apply IH in H0; congruence).
    + assert (xy_validate v <> None) by (apply oxy_pt_none_validate; auto).
      destruct (xy_validate v); [split; intros; congruence | congruence].
Qed.

Lemma inject_Z_eq a b : inject_Z a == inject_Z b <-> a = b.
Proof. unfold Qeq, inject_Z; simpl. lia. Qed.

Lemma has_2_distinct_iff ps :
  has_2_distinct ps = true <-> exists p q, In p ps /\ In q ps /\ ~ pt_eq p q.
Proof.
  destruct ps as [|f r]; simpl.
  - split; [discriminate | intros [p [q [[] _]]]].
  - rewrite existsb_exists. split.
    + intros [p [Hin Hp]]. exists p, f. repeat split; auto.
      apply negb_true_iff in Hp. apply pt_eqb_false_iff in Hp. exact Hp.
    + intros [p [q [Hp [Hq Hne]]]].
      destruct (pt_eqb p f) eqn:Ep.
      * apply pt_eqb_iff in Ep. destruct (pt_eqb q f) eqn:Eq.
        -- apply pt_eqb_iff in Eq. exfalso. apply Hne. rewrite Ep, Eq. reflexivity.
        -- destruct Hq as [<-|Hq]. { apply pt_eqb_false_iff in Eq. exfalso; apply Eq; reflexivity. }
           exists q. split; auto. rewrite Eq. reflexivity.
      * destruct Hp as [<-|Hp]. { apply pt_eqb_false_iff in Ep. exfalso; apply Ep; reflexivity. }
        exists p. split; auto. rewrite Ep. reflexivity.
Qed.

Lemma Forall2_in_l {A B} (R : A -> B -> Prop) l l' x : Forall2 R l l' -> In x l -> exists y, In y l' /\ R x y.
Proof. induction 1; simpl; intros []; subst; eauto. destruct (IHForall2 H1) as [y' [? ?]]. eauto. Qed.
Lemma Forall2_in_r {A B} (R : A -> B -> Prop) l l' y : Forall2 R l l' -> In y l' -> exists x, In x l /\ R x y.
Proof. induction 1; simpl; intros []; subst; eauto. destruct (IHForall2 H1) as [y' [? ?]]. eauto. Qed.

(* LineString.Validate returns nil exactly for the empty line and for finite lines with two distinct points *)
Theorem ls_validate_spec_lemma vs :
  ls_validate vs = None <->
  (vs = [] \/ (Forall Finite vs /\ exists p q, In p vs /\ In q vs /\ p <> q)).
Proof.
  destruct vs as [|v r]; [simpl; split; auto|].
  unfold ls_validate. destruct (fin_pts (v :: r)) as [ps|] eqn:E.
  - pose proof (fin_pts_some _ _ E) as F2.
    assert (Fin : Forall Finite (v :: r)) by (apply fin_pts_finite; eauto).
    destruct (has_2_distinct ps) eqn:H2.
    + split; auto. intros _. right. split; auto.
      apply has_2_distinct_iff in H2. destruct H2 as [p [q [Hp [Hq Hne]]]].
      destruct (Forall2_in_r _ _ _ _ F2 Hp) as [a [Ha Ea]]. destruct (Forall2_in_r _ _ _ _ F2 Hq) as [b [Hb Eb]].
      exists a, b. repeat split; auto. intros ->. apply Hne. rewrite Ea in Eb. inversion Eb. reflexivity.
    + split; [discriminate|]. intros [H|[_ [a [b [Ha [Hb Hne]]]]]]; [discriminate|]. exfalso.
      assert (has_2_distinct ps = true); [|congruence].
      apply has_2_distinct_iff.
      destruct (Forall2_in_l _ _ _ _ F2 Ha) as [p [Hp Ep]]. destruct (Forall2_in_l _ _ _ _ F2 Hb) as [q [Hq Eq]].
      exists p, q. repeat split; auto. intros Hpq. apply Hne.
      apply oxy_pt_some in Ep. apply oxy_pt_some in Eq. destruct Ep as [x [y [-> ->]]]. destruct Eq as [x' [y' [-> ->]]].
      destruct Hpq as [H1 H2']. cbn [fst snd] in H1, H2'. apply (proj1 (inject_Z_eq _ _)) in H1. apply (proj1 (inject_Z_eq _ _)) in H2'. congruence.
  - split; [discriminate|]. intros [H|[Fin _]]; [discriminate|]. apply fin_pts_finite in Fin. destruct Fin. congruence.
Qed.


(* ------------------------------------------------------------------ as_lines *)
Lemma as_lines_nondegenerate ps s : In s (as_lines ps) -> ~ pt_eq (fst s) (snd s).
Proof.
  induction ps as [|a r IH]; simpl; [tauto|].
  destruct r as [|b r']; [simpl; tauto|].
  destruct (pt_eqb a b) eqn:E.
  - exact IH.
  - intros [<-|H]; [|exact (IH H)]. simpl. apply pt_eqb_false_iff. exact E.
Qed.

(* the first valid line starts at (a copy of) the first vertex *)
Lemma as_lines_head a r s L : as_lines (a :: r) = s :: L -> pt_eq (fst s) a.
Proof.
  revert a. induction r as [|b r IH]; intros a; simpl; [discriminate|].
  destruct (pt_eqb a b) eqn:E.
  - intros H. apply IH in H. apply pt_eqb_iff in E. rewrite H. symmetry. exact E.
  - intros H. inversion H. simpl. reflexivity.
Qed.

(* consecutive valid lines share an end point *)
Lemma as_lines_chain ps k sk sl :
  nth_error (as_lines ps) k = Some sk -> nth_error (as_lines ps) (S k) = Some sl -> pt_eq (snd sk) (fst sl).
Proof.
  revert k. induction ps as [|a r IH]; intros k; simpl; [destruct k; discriminate|].
  destruct r as [|b r']; [destruct k; discriminate|].
  destruct (pt_eqb a b) eqn:E.
  - apply IH.
  - destruct k as [|k].
    + cbn [nth_error]. intros H1 H2. inversion H1; subst. cbn [snd].
      destruct (as_lines (b :: r')) as [|s L] eqn:EL; [discriminate|].
      cbn [nth_error] in H2. inversion H2; subst. symmetry. eapply as_lines_head. exact EL.
    + cbn [nth_error]. apply IH.
Qed.

Lemma as_lines_cons2 a b r :
  as_lines (a :: b :: r) = if pt_eqb a b then as_lines (b :: r) else (a, b) :: as_lines (b :: r).
Proof. reflexivity. Qed.
Lemma last_cons2 {A} (x y : A) l d : last (x :: y :: l) d = last (y :: l) d.
Proof. reflexivity. Qed.

Lemma as_lines_nil_last b r d : as_lines (b :: r) = [] -> pt_eq b (last (b :: r) d).
Proof.
  revert b. induction r as [|c r IH]; intros b; [reflexivity|].
  rewrite as_lines_cons2, last_cons2. destruct (pt_eqb b c) eqn:E; [|discriminate].
  intros H. apply pt_eqb_iff in E. rewrite E. apply IH. exact H.
Qed.

(* the last valid line ends at (a copy of) the last vertex *)
Lemma as_lines_last ps d : as_lines ps <> [] -> pt_eq (snd (last (as_lines ps) d)) (last ps (fst d)).
Proof.
  induction ps as [|a r IH]; [simpl; congruence|].
  destruct r as [|b r']; [simpl; congruence|].
  rewrite as_lines_cons2, last_cons2. destruct (pt_eqb a b) eqn:E.
  - exact IH.
  - intros _. destruct (as_lines (b :: r')) as [|s L] eqn:EL.
    + cbn [last snd]. apply as_lines_nil_last. exact EL.
    + rewrite last_cons2. apply IH. congruence.
Qed.

Lemma nth_error_last {A} (l : list A) d : l <> [] -> nth_error l (length l - 1) = Some (last l d).
Proof.
  induction l as [|x r IH]; [congruence|]. intros _. destruct r as [|y r'].
  - reflexivity.
  - rewrite last_cons2. replace (length (x :: y :: r') - 1)%nat with (S (length (y :: r') - 1)) by (simpl; lia).
    cbn [nth_error]. apply IH. congruence.
Qed.

(* ------------------------------------------------------------------ simple_from as a statement on pairs *)
Lemma simple_against_iff closed m k l sk rest :
  simple_against closed m k l sk rest = true <->
  forall j sj, nth_error rest j = Some sj -> pair_simple closed m k (l + j) sk sj = true.
Proof.
  revert l. induction rest as [|s r IH]; intros l; simpl.
  - split; auto. intros _ j sj H. destruct j; discriminate.
  - rewrite andb_true_iff, IH. split.
    + intros [H1 H2] j sj Hj. destruct j as [|j]; simpl in Hj.
      * inversion Hj; subst. rewrite Nat.add_0_r. exact H1.
      * replace (l + S j)%nat with (S l + j)%nat by lia. apply H2. exact Hj.
    + intros H. split.
      * specialize (H 0%nat s eq_refl). rewrite Nat.add_0_r in H. exact H.
      * intros j sj Hj. replace (S l + j)%nat with (l + S j)%nat by lia. apply H. exact Hj.
Qed.

Lemma simple_from_iff closed m k L :
  simple_from closed m k L = true <->
  forall i j si sj, (i < j)%nat -> nth_error L i = Some si -> nth_error L j = Some sj ->
                    pair_simple closed m (k + i) (k + j) si sj = true.
Proof.
  revert k. induction L as [|s r IH]; intros k; simpl.
  - split; auto. intros _ i j si sj _ H. destruct i; discriminate.
  - rewrite andb_true_iff, simple_against_iff, IH. split.
    + intros [H1 H2] i j si sj Hij Hi Hj. destruct i as [|i].
      * simpl in Hi. inversion Hi; subst. destruct j as [|j]; [lia|]. simpl in Hj.
        rewrite Nat.add_0_r. replace (k + S j)%nat with (S k + j)%nat by lia. apply H1. exact Hj.
      * destruct j as [|j]; [lia|]. simpl in Hi, Hj.
        replace (k + S i)%nat with (S k + i)%nat by lia. replace (k + S j)%nat with (S k + j)%nat by lia.
        apply (H2 i j); auto. lia.
    + intros H. split.
      * intros j sj Hj. specialize (H 0%nat (S j) s sj). rewrite Nat.add_0_r in H.
        replace (S k + j)%nat with (k + S j)%nat by lia. apply H; auto. lia.
      * intros i j si sj Hij Hi Hj. specialize (H (S i) (S j) si sj).
        replace (S k + i)%nat with (k + S i)%nat by lia. replace (S k + j)%nat with (k + S j)%nat by lia.
        apply H; auto. lia.
Qed.

(* ------------------------------------------------------------------ the definition of simplicity *)
(* Two valid lines of the curve share a point only if they are consecutive and the point is their
   common end, or they are the first and the last line of a closed curve and the point is the
   closing vertex. *)
Definition Simple (ps : list pt) : Prop :=
  let L := as_lines ps in
  forall k l sk sl, (k < l)%nat -> nth_error L k = Some sk -> nth_error L l = Some sl ->
  forall p, common sk sl p ->
    (l = S k /\ pt_eq p (snd sk))
    \/ (is_closed ps = true /\ k = 0%nat /\ S l = length L /\ pt_eq p (fst sk)).

Lemma on_seg_mid s p q : on_seg s p = true -> on_seg s q = true -> on_seg s (midpoint p q) = true.
Proof.
  destruct s as [a b]. rewrite !on_seg_iff. intros [t [[T0 T1] [Hx Hy]]] [u [[U0 U1] [Hx' Hy']]].
  exists ((t + u) * (1 # 2)). unfold seg_param, midpoint; cbn [fst snd]. rewrite !Qred_correct.
  split; [split; lra|]. split; [rewrite Hx, Hx' | rewrite Hy, Hy']; ring.
Qed.
Lemma midpoint_ne p q : ~ pt_eq p q -> ~ pt_eq (midpoint p q) p /\ ~ pt_eq (midpoint p q) q.
Proof.
  destruct p as [px py], q as [qx qy]. unfold pt_eq, midpoint; cbn [fst snd]. rewrite !Qred_correct.
  intros H. split; intros [H1 H2]; apply H; split; lra.
Qed.

Lemma nth_error_in_lines ps k s : nth_error (as_lines ps) k = Some s -> ~ pt_eq (fst s) (snd s).
Proof. intros H. apply (as_lines_nondegenerate ps). eapply nth_error_In; eauto. Qed.

Theorem ring_simple_spec_lemma ps : is_simple ps = true <-> Simple ps.
Proof.
  unfold is_simple, Simple. rewrite simple_from_iff. cbv zeta.
  set (L := as_lines ps). set (m := length L). set (cl := is_closed ps).
  assert (Hshared : forall k sk sl, nth_error L k = Some sk -> nth_error L (S k) = Some sl ->
                    common sk sl (snd sk)).
  { intros k sk sl Hk Hl. pose proof (as_lines_chain ps k sk sl Hk Hl) as E.
    destruct sk as [a b], sl as [c d]. simpl in *. split; [apply on_seg_right|].
    rewrite (on_seg_eq (c, d) b c E). apply on_seg_left. }
  assert (Hclose : forall s0 l sl, cl = true -> nth_error L 0 = Some s0 -> nth_error L l = Some sl -> S l = m ->
                   common s0 sl (fst s0)).
  { intros s0 l sl Hc H0 Hl Hm.
    assert (HL : L <> []) by (intros E; rewrite E in H0; discriminate).
    assert (Esl : sl = last L s0).
    { pose proof (nth_error_last L s0 HL) as K. replace (length L - 1)%nat with l in K by (fold m; lia). congruence. }
    unfold cl, is_closed in Hc. destruct ps as [|p0 r]; [discriminate|]. apply pt_eqb_iff in Hc.
    assert (E0 : pt_eq (fst s0) p0).
    { destruct L as [|s L'] eqn:EL; [congruence|]. simpl in H0. inversion H0; subst. eapply as_lines_head. exact EL. }
    assert (E1 : pt_eq (snd sl) (last (p0 :: r) (fst s0))).
    { rewrite Esl. apply as_lines_last. exact HL. }
    assert (E2 : pt_eq (last (p0 :: r) (fst s0)) (last (p0 :: r) p0)).
    { clear. generalize (fst s0). revert p0. induction r as [|x r IH]; intros p0 q; [simpl; reflexivity|].
      change (last (p0 :: x :: r) q) with (last (x :: r) q). change (last (p0 :: x :: r) p0) with (last (x :: r) p0).
      clear IH. revert x. induction r as [|y r IH]; intros x; [reflexivity|].
      change (last (x :: y :: r) q) with (last (y :: r) q). change (last (x :: y :: r) p0) with (last (y :: r) p0). apply IH. }
    assert (E : pt_eq (fst s0) (snd sl)). { rewrite E0, Hc, <- E2, <- E1. reflexivity. }
    destruct s0 as [a b], sl as [c d]. simpl in *. split; [apply on_seg_left|].
    rewrite (on_seg_eq (c, d) a d E). apply on_seg_right. }
  split.
  - intros H k l sk sl Hkl Hk Hl p Hp.
    specialize (H k l sk sl Hkl Hk Hl). cbn [Nat.add] in H. unfold pair_simple in H.
    pose proof (nth_error_in_lines ps k sk Hk) as Nk. pose proof (nth_error_in_lines ps l sl Hl) as Nl.
    destruct sk as [a b], sl as [c d].
    pose proof (intersect_line_spec a b c d Nk Nl) as Sp.
    destruct (intersect_line (a, b) (c, d)) as [|pa pb]; simpl in Sp.
    + exfalso. exact (Sp p Hp).
    + destruct Sp as [Ca [Cb U]].
      destruct (pt_eqb pa pb) eqn:Eab; [|cbn [negb] in H; discriminate]. cbn [negb] in H.
      apply pt_eqb_iff in Eab. specialize (U Eab).
      destruct (Nat.eqb l (S k)) eqn:E1.
      * apply Nat.eqb_eq in E1. subst l. left. split; [reflexivity|].
        rewrite (U p Hp). symmetry. apply U. apply (Hshared k (a, b) (c, d)); assumption.
      * destruct (cl && Nat.eqb k 0 && Nat.eqb (S l) m) eqn:E2; [|discriminate].
        rewrite !andb_true_iff in E2. destruct E2 as [[Hc Ek] Em].
        apply Nat.eqb_eq in Ek, Em. subst k. right. split; [exact Hc|]. split; [reflexivity|]. split; [exact Em|].
        rewrite (U p Hp). symmetry. apply U. apply (Hclose (a, b) l (c, d)); assumption.
  - intros H i j si sj Hij Hi Hj. cbn [Nat.add]. unfold pair_simple.
    pose proof (nth_error_in_lines ps i si Hi) as Ni. pose proof (nth_error_in_lines ps j sj Hj) as Nj.
    specialize (H i j si sj Hij Hi Hj).
    destruct si as [a b], sj as [c d].
    pose proof (intersect_line_spec a b c d Ni Nj) as Sp.
    destruct (intersect_line (a, b) (c, d)) as [|pa pb]; simpl in Sp; [reflexivity|].
    destruct Sp as [Ca [Cb U]].
    destruct (pt_eqb pa pb) eqn:Eab.
    + cbn [negb]. destruct (H pa Ca) as [[E _]|[Hc [Ek [Em _]]]].
      * subst j. rewrite Nat.eqb_refl. reflexivity.
      * subst i. fold cl in Hc. fold m in Em.
        destruct (Nat.eqb j 1); [reflexivity|]. rewrite Hc. rewrite <- Em. rewrite !Nat.eqb_refl. reflexivity.
    + (* two distinct common points: their midpoint is a third one *)
      exfalso. apply pt_eqb_false_iff in Eab.
      assert (Cm : common (a, b) (c, d) (midpoint pa pb)).
      { destruct Ca, Cb. split; apply on_seg_mid; assumption. }
      destruct (midpoint_ne pa pb Eab) as [M1 M2].
      assert (Hall : forall p, common (a, b) (c, d) p -> pt_eq p (snd (a, b)) \/ pt_eq p (fst (a, b))).
      { intros p Hp. destruct (H p Hp) as [[_ E]|[_ [_ [_ E]]]]; auto. }
      destruct (Hall pa Ca) as [A|A]; destruct (Hall pb Cb) as [B|B]; destruct (Hall _ Cm) as [C|C];
        cbn [fst snd] in *;
        first [ apply Eab; etransitivity; [exact A | symmetry; exact B]
              | apply M1; etransitivity; [exact C | symmetry; exact A]
              | apply M2; etransitivity; [exact C | symmetry; exact B] ].
Qed.

(* ------------------------------------------------------------------ F3: the start-vertex probe *)
Definition replace_nth {A} (i : nat) (f : A -> A) (l : list A) : list A :=
  map (fun ix => if Nat.eqb (fst ix) i then f (snd ix) else snd ix) (combine (seq 0 (length l)) l).
(* the i-th ring started at its k-th vertex *)
Definition restart_ring (i k : nat) (rings : list (list oxy)) : list (list oxy) :=
  replace_nth i (rotate_ring k) rings.

Definition P (x y : Z) : oxy := (OFin x, OFin y).
Definition f3_shell : list oxy := [P 0 0; P 10 0; P 10 10; P 0 10; P 0 0].
Definition f3_hole : list oxy := [P 2 2; P 8 2; P 8 8; P 2 8; P 2 2].
Definition f3_inner : list oxy := [P 2 2; P 4 3; P 3 4; P 2 2].
Definition f3_rings := [f3_shell; f3_hole; f3_inner].
