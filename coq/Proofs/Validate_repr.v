(* Property C03 - IsClosed / IsSimple / IsRing do not depend on the representation of the curve:
   axis reflections (any point map that preserves segments), reversal, and the start vertex of a
   closed curve.  All three go through the definitional statement [Simple] (ring_simple_spec).
   Main results: ring_checks_reflection_invariant_lemma, ring_checks_reversal_invariant_lemma,
   ring_checks_rotation_invariant_lemma. *)
From Coq Require Import QArith Qreduction List Bool ZArith Lia Lqa Arith Setoid Morphisms.
From SF Require Import Base.QKernel Model.Validate Model.ValidateSpec Proofs.Validate_kernel Proofs.Validate_proofs.
Import ListNotations.
Open Scope Q_scope.


(* ------------------------------------------------------------------ point maps that preserve segments *)
(* a map of the plane that preserves equality of points and membership in segments, and is onto
   (up to Qeq): IsClosed, IsSimple and IsRing cannot tell ps from map T ps *)
Section PointMap.
  Variable T T' : pt -> pt.
  Hypothesis T_eqb : forall a b, pt_eqb (T a) (T b) = pt_eqb a b.
  Hypothesis T_seg : forall a b p, on_seg (T a, T b) (T p) = on_seg (a, b) p.
  Hypothesis T_onto : forall q, pt_eq (T (T' q)) q.

  Definition Tseg (s : seg) : seg := (T (fst s), T (snd s)).

  Lemma as_lines_map ps : as_lines (map T ps) = map Tseg (as_lines ps).
  Proof.
    induction ps as [|a r IH]; [reflexivity|]. destruct r as [|b r']; [reflexivity|].
    change (map T (a :: b :: r')) with (T a :: T b :: map T r'). rewrite !as_lines_cons2, T_eqb.
    change (T b :: map T r') with (map T (b :: r')). rewrite IH. destruct (pt_eqb a b); reflexivity.
  Qed.
  Lemma last_map {A B} (f : A -> B) l d : last (map f l) (f d) = f (last l d).
  Proof. induction l as [|a r IH]; [reflexivity|]. destruct r; [reflexivity|]. exact IH. Qed.
  Lemma is_closed_map ps : is_closed (map T ps) = is_closed ps.
  Proof.
    destruct ps as [|a r]; [reflexivity|]. unfold is_closed.
    change (map T (a :: r)) with (T a :: map T r) at 1. cbv iota beta.
    rewrite (last_map T (a :: r) a). apply T_eqb.
  Qed.
  Lemma T_pt_eq a b : pt_eq (T a) (T b) <-> pt_eq a b.
  Proof. rewrite <- !pt_eqb_iff, T_eqb. tauto. Qed.

  Lemma Simple_map ps : Simple (map T ps) <-> Simple ps.
  Proof.
    unfold Simple. rewrite as_lines_map, is_closed_map, map_length. cbv zeta. split.
    - intros H k l sk sl Hkl Hk Hl p [P1 P2].
      assert (Hk' : nth_error (map Tseg (as_lines ps)) k = Some (Tseg sk)) by (rewrite nth_error_map, Hk; reflexivity).
      assert (Hl' : nth_error (map Tseg (as_lines ps)) l = Some (Tseg sl)) by (rewrite nth_error_map, Hl; reflexivity).
      assert (C : common (Tseg sk) (Tseg sl) (T p)).
      { destruct sk as [a b], sl as [c d]. unfold Tseg; cbn [fst snd]. split; rewrite T_seg; assumption. }
      destruct (H k l _ _ Hkl Hk' Hl' (T p) C) as [[E1 E2]|[E1 [E2 [E3 E4]]]].
      + left. split; [exact E1|]. apply T_pt_eq. exact E2.
      + right. split; [exact E1|]. split; [exact E2|]. split; [exact E3|]. apply T_pt_eq. exact E4.
    - intros H k l sk' sl' Hkl Hk Hl q [Q1 Q2].
      rewrite nth_error_map in Hk, Hl.
      destruct (nth_error (as_lines ps) k) as [sk|] eqn:Ek; [|discriminate].
      destruct (nth_error (as_lines ps) l) as [sl|] eqn:El; [|discriminate].
      simpl in Hk, Hl. inversion Hk; inversion Hl; subst sk' sl'.
      assert (C : common sk sl (T' q)).
      { destruct sk as [a b], sl as [c d]. unfold Tseg in *; cbn [fst snd] in *.
        split; rewrite <- T_seg; [rewrite (on_seg_eq _ _ q (T_onto q)) | rewrite (on_seg_eq _ _ q (T_onto q))]; assumption. }
      destruct (H k l sk sl Hkl Ek El (T' q) C) as [[E1 E2]|[E1 [E2 [E3 E4]]]].
      + left. split; [exact E1|]. rewrite <- (T_onto q). apply T_pt_eq. exact E2.
      + right. split; [exact E1|]. split; [exact E2|]. split; [exact E3|]. rewrite <- (T_onto q). apply T_pt_eq. exact E4.
  Qed.

  Lemma is_simple_map ps : is_simple (map T ps) = is_simple ps.
  Proof. apply eq_true_iff_eq. rewrite !ring_simple_spec_lemma. apply Simple_map. Qed.
  Lemma is_ring_map ps : is_ring (map T ps) = is_ring ps.
  Proof. unfold is_ring. rewrite is_closed_map, is_simple_map. reflexivity. Qed.
End PointMap.

(* axis reflections *)
Definition reflx (p : pt) : pt := (- fst p, snd p).
Definition refly (p : pt) : pt := (fst p, - snd p).

Lemma Qeq_bool_opp a b : Qeq_bool (- a) (- b) = Qeq_bool a b.
Proof. apply eq_true_iff_eq. rewrite !Qeq_bool_iff. split; intros; lra. Qed.

Lemma reflx_eqb a b : pt_eqb (reflx a) (reflx b) = pt_eqb a b.
Proof. unfold pt_eqb, reflx; cbn [fst snd]. rewrite Qeq_bool_opp. reflexivity. Qed.
Lemma refly_eqb a b : pt_eqb (refly a) (refly b) = pt_eqb a b.
Proof. unfold pt_eqb, refly; cbn [fst snd]. rewrite Qeq_bool_opp. reflexivity. Qed.
Lemma reflx_seg a b p : on_seg (reflx a, reflx b) (reflx p) = on_seg (a, b) p.
Proof.
  apply eq_true_iff_eq. rewrite !on_seg_iff. unfold seg_param, reflx; cbn [fst snd].
  split; intros [t [Ht [Hx Hy]]]; exists t; (split; [exact Ht|]); split; lra.
Qed.
Lemma refly_seg a b p : on_seg (refly a, refly b) (refly p) = on_seg (a, b) p.
Proof.
  apply eq_true_iff_eq. rewrite !on_seg_iff. unfold seg_param, refly; cbn [fst snd].
  split; intros [t [Ht [Hx Hy]]]; exists t; (split; [exact Ht|]); split; lra.
Qed.
Lemma reflx_onto q : pt_eq (reflx (reflx q)) q.
Proof. unfold pt_eq, reflx; cbn [fst snd]. split; ring. Qed.
Lemma refly_onto q : pt_eq (refly (refly q)) q.
Proof. unfold pt_eq, refly; cbn [fst snd]. split; ring. Qed.

Theorem ring_checks_reflection_invariant_lemma ps :
  (is_closed (map reflx ps) = is_closed ps /\ is_simple (map reflx ps) = is_simple ps /\ is_ring (map reflx ps) = is_ring ps)
  /\ (is_closed (map refly ps) = is_closed ps /\ is_simple (map refly ps) = is_simple ps /\ is_ring (map refly ps) = is_ring ps).
Proof.
  split.
  - split; [apply (is_closed_map reflx reflx_eqb)|]. split;
      [apply (is_simple_map reflx reflx reflx_eqb reflx_seg reflx_onto) | apply (is_ring_map reflx reflx reflx_eqb reflx_seg reflx_onto)].
  - split; [apply (is_closed_map refly refly_eqb)|]. split;
      [apply (is_simple_map refly refly refly_eqb refly_seg refly_onto) | apply (is_ring_map refly refly refly_eqb refly_seg refly_onto)].
Qed.


(* ------------------------------------------------------------------ reversal *)
Definition swap_seg (s : seg) : seg := (snd s, fst s).

Lemma pt_eqb_sym a b : pt_eqb a b = pt_eqb b a.
Proof. apply eq_true_iff_eq. rewrite !pt_eqb_iff. split; intros H; symmetry; exact H. Qed.

Lemma as_lines_snoc l z a :
  as_lines ((l ++ [z]) ++ [a]) = as_lines (l ++ [z]) ++ (if pt_eqb z a then [] else [(z, a)]).
Proof.
  induction l as [|x l' IH].
  - simpl. destruct (pt_eqb z a); reflexivity.
  - destruct (l' ++ [z]) as [|y t] eqn:E; [destruct l'; discriminate|].
    change (((x :: l') ++ [z]) ++ [a]) with (x :: ((l' ++ [z]) ++ [a])).
    change ((x :: l') ++ [z]) with (x :: (l' ++ [z])). rewrite E in *.
    change ((y :: t) ++ [a]) with (y :: (t ++ [a])) in *.
    rewrite !as_lines_cons2. rewrite IH. destruct (pt_eqb x y); reflexivity.
Qed.

Lemma as_lines_rev ps : as_lines (rev ps) = rev (map swap_seg (as_lines ps)).
Proof.
  induction ps as [|a r IH]; [reflexivity|]. destruct r as [|b r']; [reflexivity|].
  change (rev (a :: b :: r')) with ((rev r' ++ [b]) ++ [a]).
  rewrite as_lines_snoc. change (rev r' ++ [b]) with (rev (b :: r')). rewrite IH.
  rewrite as_lines_cons2. rewrite (pt_eqb_sym b a). destruct (pt_eqb a b).
  - rewrite app_nil_r. reflexivity.
  - simpl. reflexivity.
Qed.

Lemma is_closed_rev ps : is_closed (rev ps) = is_closed ps.
Proof.
  destruct ps as [|a r]; [reflexivity|].
  destruct (@exists_last pt (a :: r)) as [l [z E]]; [discriminate|].
  rewrite E at 1. rewrite rev_app_distr. simpl rev at 1. cbn [app]. unfold is_closed.
  assert (L1 : last (z :: rev l) z = a).
  { assert (H : rev (a :: r) = z :: rev l) by (rewrite E, rev_app_distr; reflexivity).
    rewrite <- H. simpl. apply last_last. }
  assert (L2 : last (a :: r) a = z) by (rewrite E; apply last_last).
  rewrite L1, L2. apply pt_eqb_sym.
Qed.

Lemma last_default_irrelevant {A} (l : list A) d d' : l <> [] -> last l d = last l d'.
Proof.
  induction l as [|a r IH]; [congruence|]. intros _. destruct r as [|b r']; [reflexivity|].
  rewrite !last_cons2. apply IH. discriminate.
Qed.

(* a closed curve: the first valid line starts where the last one ends *)
Lemma as_lines_closure ps s0 sl : is_closed ps = true ->
  nth_error (as_lines ps) 0 = Some s0 -> nth_error (as_lines ps) (length (as_lines ps) - 1) = Some sl ->
  pt_eq (fst s0) (snd sl).
Proof.
  intros Hc H0 Hl.
  assert (HL : as_lines ps <> []) by (intros E; rewrite E in H0; discriminate).
  assert (Esl : sl = last (as_lines ps) s0).
  { pose proof (nth_error_last (as_lines ps) s0 HL) as K. congruence. }
  unfold is_closed in Hc. destruct ps as [|p0 r]; [discriminate|]. apply pt_eqb_iff in Hc.
  assert (E0 : pt_eq (fst s0) p0).
  { destruct (as_lines (p0 :: r)) as [|s L'] eqn:EL; [congruence|]. simpl in H0. inversion H0; subst. eapply as_lines_head. exact EL. }
  assert (E1 : pt_eq (snd sl) (last (p0 :: r) (fst s0))) by (rewrite Esl; apply as_lines_last; exact HL).
  assert (E2 : last (p0 :: r) (fst s0) = last (p0 :: r) p0) by (apply last_default_irrelevant; discriminate).
  rewrite E0, Hc, <- E2, <- E1. reflexivity.
Qed.

Lemma nth_error_rev {A} (l : list A) : forall k, (k < length l)%nat -> nth_error (rev l) k = nth_error l (length l - 1 - k).
Proof.
  induction l as [|x l' IH] using rev_ind; intros k H; [simpl in H; lia|].
  rewrite app_length in H. cbn [length] in H.
  rewrite rev_app_distr, app_length. cbn [length rev app]. destruct k as [|k].
  - replace (length l' + 1 - 1 - 0)%nat with (length l') by lia.
    rewrite nth_error_app2 by lia. rewrite Nat.sub_diag. reflexivity.
  - cbn [nth_error]. rewrite IH by lia. rewrite nth_error_app1 by lia. f_equal. lia.
Qed.

Lemma common_swap s t p : common (swap_seg s) (swap_seg t) p <-> common t s p.
Proof.
  destruct s as [a b], t as [c d]. unfold common, swap_seg; cbn [fst snd]. rewrite (on_seg_sym a b p), (on_seg_sym c d p). tauto.
Qed.

Lemma Simple_rev_imp ps : Simple ps -> Simple (rev ps).
Proof.
  unfold Simple. cbv zeta. intros H k l sk' sl' Hkl Hk Hl p Hp.
  rewrite is_closed_rev. rewrite as_lines_rev in Hk, Hl. rewrite as_lines_rev, rev_length, map_length.
  set (L := as_lines ps) in *. set (m := length L) in *.
  assert (Hlm : (l < m)%nat).
  { unfold m. rewrite <- (map_length swap_seg), <- rev_length. apply nth_error_Some. congruence. }
  rewrite nth_error_rev in Hk, Hl by (rewrite map_length; fold m; lia).
  rewrite map_length in Hk, Hl. fold m in Hk, Hl. rewrite nth_error_map in Hk, Hl.
  destruct (nth_error L (m - 1 - k)) as [sk|] eqn:Ek; [|discriminate].
  destruct (nth_error L (m - 1 - l)) as [sl|] eqn:El; [|discriminate].
  simpl in Hk, Hl. inversion Hk; inversion Hl; subst sk' sl'. clear Hk Hl.
  apply (proj1 (common_swap sk sl p)) in Hp.
  assert (Hlt : (m - 1 - l < m - 1 - k)%nat) by lia.
  destruct (H _ _ sl sk Hlt El Ek p Hp) as [[E1 E2]|[Hc [E1 [E3 E4]]]].
  - left. split; [lia|]. unfold swap_seg; cbn [snd]. rewrite E2.
    apply (as_lines_chain ps (m - 1 - l) sl sk El). rewrite <- E1. exact Ek.
  - right. split; [exact Hc|]. split; [lia|]. split; [lia|]. unfold swap_seg; cbn [fst]. rewrite E4.
    apply (as_lines_closure ps sl sk Hc); [rewrite <- E1; exact El|].
    fold L m. replace (m - 1)%nat with (m - 1 - k)%nat by lia. exact Ek.
Qed.

Theorem ring_checks_reversal_invariant_lemma ps :
  is_closed (rev ps) = is_closed ps /\ is_simple (rev ps) = is_simple ps /\ is_ring (rev ps) = is_ring ps.
Proof.
  assert (S : is_simple (rev ps) = is_simple ps).
  { apply eq_true_iff_eq. rewrite !ring_simple_spec_lemma. split.
    - intros H. apply Simple_rev_imp in H. rewrite rev_involutive in H. exact H.
    - apply Simple_rev_imp. }
  split; [apply is_closed_rev|]. split; [exact S|]. unfold is_ring. rewrite is_closed_rev, S. reflexivity.
Qed.


(* ------------------------------------------------------------------ rotation of a closed curve *)
(* Simple as a statement about a list of valid lines and the closed flag *)
Definition SimpleL (cl : bool) (L : list seg) : Prop :=
  forall k l sk sl, (k < l)%nat -> nth_error L k = Some sk -> nth_error L l = Some sl ->
  forall p, common sk sl p ->
    (l = S k /\ pt_eq p (snd sk)) \/ (cl = true /\ k = 0%nat /\ S l = length L /\ pt_eq p (fst sk)).
Lemma Simple_SimpleL ps : Simple ps <-> SimpleL (is_closed ps) (as_lines ps).
Proof. unfold Simple, SimpleL. tauto. Qed.

Definition seg_eq (s t : seg) : Prop := pt_eq (fst s) (fst t) /\ pt_eq (snd s) (snd t).
Lemma common_seg_eq s s' t p : seg_eq s s' -> common s t p -> common s' t p.
Proof.
  destruct s as [a b], s' as [a' b']. intros [E1 E2] [H1 H2]. cbn [fst snd] in *. split; [|exact H2].
  rewrite <- (on_seg_proper a b p a' b' p); [exact H1 | exact E1 | exact E2 | reflexivity].
Qed.
Lemma common_sym s t p : common s t p -> common t s p.
Proof. unfold common. tauto. Qed.

(* the cyclic shift of the line list of a closed curve by one line *)
Lemma SimpleL_rot (s0 s0' : seg) (M : list seg) :
  seg_eq s0 s0' ->
  (forall s1, nth_error M 0 = Some s1 -> pt_eq (snd s0) (fst s1)) ->
  (forall sl, nth_error M (length M - 1) = Some sl -> pt_eq (fst s0) (snd sl)) ->
  SimpleL true (s0 :: M) <-> SimpleL true (M ++ [s0']).
Proof.
  intros Es Hchain Hclos. set (n := length M).
  assert (Es' : seg_eq s0' s0) by (destruct Es; split; symmetry; assumption).
  assert (Hlast : nth_error (M ++ [s0']) n = Some s0').
  { unfold n. rewrite nth_error_app2 by lia. rewrite Nat.sub_diag. reflexivity. }
  assert (Hlen' : length (M ++ [s0']) = S n) by (rewrite app_length; simpl; unfold n; lia).
  split.
  - intros H k l sk sl Hkl Hk Hl p Hp. replace (length (M ++ [s0'])) with (S n) by (symmetry; exact Hlen').
    assert (Hln : (l <= n)%nat).
    { assert (l < length (M ++ [s0']))%nat by (apply nth_error_Some; congruence). lia. }
    assert (Hk' : nth_error M k = Some sk) by (rewrite nth_error_app1 in Hk by (fold n; lia); exact Hk).
    destruct (Nat.eq_dec l n) as [->|Hne].
    + (* the pair (sk, s0'): in the original list the pair (s0, sk) at positions 0 and k+1 *)
      rewrite Hlast in Hl. inversion Hl; subst sl.
      assert (C : common s0 sk p) by (apply (common_seg_eq s0' s0 sk p Es'); apply common_sym; exact Hp).
      destruct (H 0%nat (S k) s0 sk ltac:(lia) eq_refl Hk' p C) as [[E1 E2]|[_ [_ [E3 E4]]]].
      * (* k = 0: p is the end of s0 = the start of M[0] *)
        assert (k = 0)%nat by lia. subst k. right. split; [reflexivity|]. split; [reflexivity|]. split; [reflexivity|].
        rewrite E2. apply Hchain. exact Hk'.
      * (* k + 1 is the last position of the original list *)
        simpl in E3. left. split; [fold n in E3; lia|].
        rewrite E4. apply Hclos. replace (length M - 1)%nat with k by (fold n; lia). exact Hk'.
    + (* both lines in M *)
      assert (Hl' : nth_error M l = Some sl) by (rewrite nth_error_app1 in Hl by (fold n; lia); exact Hl).
      destruct (H (S k) (S l) sk sl ltac:(lia) Hk' Hl' p Hp) as [[E1 E2]|[_ [E1 _]]]; [|discriminate].
      left. split; [lia | exact E2].
  - intros H k l sk sl Hkl Hk Hl p Hp. simpl length. fold n.
    assert (Hln : (l <= n)%nat).
    { assert (l < length (s0 :: M))%nat by (apply nth_error_Some; congruence). simpl in H0. fold n in H0. lia. }
    destruct l as [|l]; [lia|]. simpl in Hl.
    assert (Hl' : nth_error (M ++ [s0']) l = Some sl) by (rewrite nth_error_app1 by (fold n; lia); exact Hl).
    destruct k as [|k].
    + (* the pair (s0, sl): in the shifted list the pair (sl, s0') at positions l and n *)
      simpl in Hk. inversion Hk; subst sk.
      assert (C : common sl s0' p) by (apply common_sym; apply (common_seg_eq s0 s0' sl p Es); exact Hp).
      destruct (H l n sl s0' ltac:(lia) Hl' Hlast p C) as [[E1 E2]|[_ [E1 [_ E4]]]].
      * (* l + 1 = n: sl is the last line of M *)
        right. split; [reflexivity|]. split; [reflexivity|]. split; [lia|].
        rewrite E2. symmetry. apply Hclos. replace (length M - 1)%nat with l by (fold n; lia). exact Hl.
      * subst l. left. split; [reflexivity|]. rewrite E4. symmetry. apply Hchain. exact Hl.
    + simpl in Hk.
      assert (Hk' : nth_error (M ++ [s0']) k = Some sk) by (rewrite nth_error_app1 by (fold n; lia); exact Hk).
      destruct (H k l sk sl ltac:(lia) Hk' Hl' p Hp) as [[E1 E2]|[_ [E1 [E3 _]]]].
      * left. split; [lia | exact E2].
      * rewrite Hlen' in E3. lia.
Qed.

Lemma pt_eqb_refl a : pt_eqb a a = true.
Proof. apply pt_eqb_iff. reflexivity. Qed.
Lemma pt_eqb_proper_l a a' b : pt_eq a a' -> pt_eqb a b = pt_eqb a' b.
Proof. intros E. apply eq_true_iff_eq. rewrite !pt_eqb_iff. split; intros H; [rewrite <- E | rewrite E]; exact H. Qed.

(* a closed curve started at its next vertex is closed, and simple iff the original is *)
Lemma rot1_ring_checks ps : is_closed ps = true ->
  is_closed (rot1 ps) = true /\ is_simple (rot1 ps) = is_simple ps.
Proof.
  intros Hc. destruct ps as [|a [|b t]]; [discriminate | split; [exact Hc | reflexivity] |].
  destruct (@exists_last pt (b :: t)) as [l [z El]]; [discriminate|].
  assert (Ea : pt_eq a z).
  { unfold is_closed in Hc. apply pt_eqb_iff in Hc. rewrite last_cons2 in Hc. rewrite El in Hc.
    rewrite last_last in Hc. exact Hc. }
  change (rot1 (a :: b :: t)) with ((b :: t) ++ [b]).
  assert (Hc' : is_closed ((b :: t) ++ [b]) = true).
  { unfold is_closed. cbn [app]. change (b :: t ++ [b]) with ((b :: t) ++ [b]). rewrite last_last. apply pt_eqb_refl. }
  split; [exact Hc'|].
  set (M := as_lines (b :: t)).
  assert (EL' : as_lines ((b :: t) ++ [b]) = M ++ (if pt_eqb a b then [] else [(z, b)])).
  { unfold M. rewrite El. rewrite as_lines_snoc. rewrite (pt_eqb_proper_l a z b Ea). reflexivity. }
  assert (EL : as_lines (a :: b :: t) = if pt_eqb a b then M else (a, b) :: M) by (rewrite as_lines_cons2; reflexivity).
  destruct (pt_eqb a b) eqn:Eab.
  - unfold is_simple. rewrite EL', EL, Hc', Hc, app_nil_r. reflexivity.
  - apply eq_true_iff_eq. rewrite !ring_simple_spec_lemma, !Simple_SimpleL. rewrite EL', EL, Hc', Hc.
    symmetry. apply SimpleL_rot.
    + split; [exact Ea | reflexivity].
    + intros s1 H1. cbn [snd]. unfold M in H1. destruct (as_lines (b :: t)) as [|s L0] eqn:E0; [discriminate|].
      simpl in H1. inversion H1; subst. symmetry. eapply as_lines_head. exact E0.
    + intros sl Hl. cbn [fst].
      assert (HM : M <> []) by (intros E; rewrite E in Hl; discriminate).
      pose proof (nth_error_last M sl HM) as K.
      assert (Esl : last M sl = sl) by congruence.
      pose proof (as_lines_last (b :: t) sl HM) as E1. fold M in E1. rewrite Esl in E1.
      rewrite E1. rewrite El, last_last. exact Ea.
Qed.

Theorem ring_checks_rotation_invariant_lemma k ps : is_closed ps = true ->
  is_closed (rotate_ring k ps) = true /\ is_simple (rotate_ring k ps) = is_simple ps
  /\ is_ring (rotate_ring k ps) = is_ring ps.
Proof.
  intros Hc.
  assert (H : is_closed (rotate_ring k ps) = true /\ is_simple (rotate_ring k ps) = is_simple ps).
  { induction k as [|k [IH1 IH2]]; [split; [exact Hc | reflexivity]|].
    unfold rotate_ring in *. simpl Nat.iter. destruct (rot1_ring_checks _ IH1) as [H1 H2].
    split; [exact H1 | rewrite H2; exact IH2]. }
  destruct H as [H1 H2]. split; [exact H1|]. split; [exact H2|]. unfold is_ring. rewrite H1, H2, Hc. reflexivity.
Qed.
